import MgpuProofs.C04Norm
import MgpuProofs.C04NormS
import MgpuProofs.C04NormV
import MgpuProofs.C04NormV3
import MgpuProofs.C04NormMem
import MgpuProofs.C04Enc8
import MgpuProofs.C04Total
/-! Assembly of the per-format `norm_X` / `desc_X` lemmas into statements about `decodeCore` / `decode`. -/
namespace C04
open Gen
set_option linter.unusedSimpArgs false
set_option linter.unusedVariables false

theorem ft13_cases {n : Nat} (h : ft13.contains n = true) :
    n = FT_SOP2 ∨ n = FT_SOPK ∨ n = FT_SOP1 ∨ n = FT_SOPC ∨ n = FT_SOPP ∨ n = FT_VOP2 ∨ n = FT_VOP1 ∨ n = FT_VOPC ∨
    n = FT_SMEM ∨ n = FT_VOP3a ∨ n = FT_VOP3b ∨ n = FT_DS ∨ n = FT_FLAT := by
  simp only [ft13, List.contains_eq_mem, List.mem_cons, List.not_mem_nil, or_false, decide_eq_true_eq] at h
  exact h

/-! ## row level -/

theorem norm_row (c : Bool) (f : Format) (row : Row) (w0 : Nat) (w1? : Option Nat) (hfm : f ∈ formats)
    (h13 : ft13.contains f.ft = true) (hw0 : w0 < 2 ^ 32) (hw1 : ∀ w1, w1? = some w1 → w1 < 2 ^ 32) :
    decodeRow c f row (normRow c f.ft row w0 w1?).1 (normRow c f.ft row w0 w1?).2 = decodeRow c f row w0 w1? := by
  rcases ft13_cases h13 with h | h | h | h | h | h | h | h | h | h | h | h | h
  · exact norm_sop2 c f row w0 w1? h (fmt_sop2 f hfm h).1 hw0 hw1
  · exact norm_sopk c f row w0 w1? h (fmt_sopk f hfm h).1 hw0 hw1
  · exact norm_sop1 c f row w0 w1? h (fmt_sop1 f hfm h).1 hw0 hw1
  · exact norm_sopc c f row w0 w1? h (fmt_sopc f hfm h).1 hw0 hw1
  · exact norm_sopp c f row w0 w1? h (fmt_sopp f hfm h).1 hw0 hw1
  · exact norm_vop2 c f row w0 w1? h (fmt_vop2 f hfm h).1 hw0 hw1
  · exact norm_vop1 c f row w0 w1? h (fmt_vop1 f hfm h).1 hw0 hw1
  · exact norm_vopc c f row w0 w1? h (fmt_vopc f hfm h).1 hw0 hw1
  · exact norm_smem c f row w0 w1? h (fmt_smem f hfm h).1 hw0 hw1
  · exact norm_vop3a c f row w0 w1? h (fmt_vop3a f hfm h).1 hw0 hw1
  · exact norm_vop3b c f row w0 w1? h (fmt_vop3b f hfm h).1 hw0 hw1
  · exact norm_ds c f row w0 w1? h (fmt_ds f hfm h).1 hw0 hw1
  · exact norm_flat c f row w0 w1? h (fmt_flat f hfm h).1 hw0 hw1

theorem desc_row (c : Bool) (f : Format) (row : Row) (w0 : Nat) (w1? : Option Nat) (i : Inst) (hfm : f ∈ formats)
    (h13 : ft13.contains f.ft = true) (hw0 : w0 < 2 ^ 32) (hw1 : ∀ w1, w1? = some w1 → w1 < 2 ^ 32)
    (hhit : w0 / 2 ^ shiftOf f = f.encoding / 2 ^ shiftOf f) (hop : extractBits w0 f.opLo f.opHi = row.opcode)
    (h : decodeRow c f row w0 w1? = .ok i) :
    encWord (descOf c i) = (normRow c f.ft row w0 w1?).1 ∧ encSecond (descOf c i) = (normRow c f.ft row w0 w1?).2 := by
  rcases ft13_cases h13 with g | g | g | g | g | g | g | g | g | g | g | g | g
  · obtain ⟨a1, a2, a3, a4, a5⟩ := fmt_sop2 f hfm g
    rw [a4, a5] at hhit; rw [a2, a3] at hop
    exact desc_sop2 c f row w0 w1? i g a1 hw0 hw1 hhit hop h
  · obtain ⟨a1, a2, a3, a4, a5⟩ := fmt_sopk f hfm g
    rw [a4, a5] at hhit; rw [a2, a3] at hop
    exact desc_sopk c f row w0 w1? i g a1 hw0 hw1 hhit hop h
  · obtain ⟨a1, a2, a3, a4, a5⟩ := fmt_sop1 f hfm g
    rw [a4, a5] at hhit; rw [a2, a3] at hop
    exact desc_sop1 c f row w0 w1? i g a1 hw0 hw1 hhit hop h
  · obtain ⟨a1, a2, a3, a4, a5⟩ := fmt_sopc f hfm g
    rw [a4, a5] at hhit; rw [a2, a3] at hop
    exact desc_sopc c f row w0 w1? i g a1 hw0 hw1 hhit hop h
  · obtain ⟨a1, a2, a3, a4, a5⟩ := fmt_sopp f hfm g
    rw [a4, a5] at hhit; rw [a2, a3] at hop
    exact desc_sopp c f row w0 w1? i g a1 hw0 hw1 hhit hop h
  · obtain ⟨a1, a2, a3, a4, a5⟩ := fmt_vop2 f hfm g
    rw [a4, a5] at hhit; rw [a2, a3] at hop
    exact desc_vop2 c f row w0 w1? i g a1 hw0 hw1 hhit hop h
  · obtain ⟨a1, a2, a3, a4, a5⟩ := fmt_vop1 f hfm g
    rw [a4, a5] at hhit; rw [a2, a3] at hop
    exact desc_vop1 c f row w0 w1? i g a1 hw0 hw1 hhit hop h
  · obtain ⟨a1, a2, a3, a4, a5⟩ := fmt_vopc f hfm g
    rw [a4, a5] at hhit; rw [a2, a3] at hop
    exact desc_vopc c f row w0 w1? i g a1 hw0 hw1 hhit hop h
  · obtain ⟨a1, a2, a3, a4, a5⟩ := fmt_smem f hfm g
    rw [a4, a5] at hhit; rw [a2, a3] at hop
    exact desc_smem c f row w0 w1? i g a1 hw0 hw1 hhit hop h
  · obtain ⟨a1, a2, a3, a4, a5⟩ := fmt_vop3a f hfm g
    rw [a4, a5] at hhit; rw [a2, a3] at hop
    exact desc_vop3a c f row w0 w1? i g a1 hw0 hw1 hhit hop h
  · obtain ⟨a1, a2, a3, a4, a5⟩ := fmt_vop3b f hfm g
    rw [a4, a5] at hhit; rw [a2, a3] at hop
    exact desc_vop3b c f row w0 w1? i g a1 hw0 hw1 hhit hop h
  · obtain ⟨a1, a2, a3, a4, a5⟩ := fmt_ds f hfm g
    rw [a4, a5] at hhit; rw [a2, a3] at hop
    exact desc_ds c f row w0 w1? i g a1 hw0 hw1 hhit hop h
  · obtain ⟨a1, a2, a3, a4, a5⟩ := fmt_flat f hfm g
    rw [a4, a5] at hhit; rw [a2, a3] at hop
    exact desc_flat c f row w0 w1? i g a1 hw0 hw1 hhit hop h

/-! ## dispatch -/

theorem vop3b_same_bits : ∀ g ∈ formats, g.ft = FT_VOP3a → ∀ b ∈ formats, b.ft = FT_VOP3b →
    b.encoding = g.encoding ∧ b.mask = g.mask := by decide

/-- a matched format hits -/
theorem matchFormat_hit {w : Nat} {f : Format} (h : matchFormat w = some f) : hit w f = true := by
  rw [matchFormat, matchFormatIn_eq] at h
  cases hfc : firstCand formatList w with
  | none => simp [hfc] at h
  | some g =>
    have hg := firstCand_mem hfc
    have hgh : hit w g = true := by
      have := hg.2
      simp only [cand, Bool.and_eq_true] at this
      exact this.2
    simp only [hfc] at h
    split at h
    · rename_i hc
      simp only [Bool.and_eq_true, beq_iff_eq] at hc
      obtain ⟨hb, hbft⟩ := formatOf_mem h
      obtain ⟨e1, e2⟩ := vop3b_same_bits g (mem_formatList.mp hg.1) hc.1 f hb hbft
      unfold hit at hgh ⊢
      rw [e1, e2]
      exact hgh
    · injection h with h
      subst h
      exact hgh

theorem matchFormat_div {w : Nat} (hw : w < 2 ^ 32) {f : Format} (h : matchFormat w = some f) :
    w / 2 ^ shiftOf f = f.encoding / 2 ^ shiftOf f := by
  have := matchFormat_hit h
  rw [hit_eq_div (matchFormat_mem h) hw] at this
  simpa using this

theorem matchFormat_congr (w w' : Nat)
    (hh : ∀ g ∈ formats, hit w g = hit w' g)
    (hx : ∀ g ∈ formats, g.ft = FT_VOP3a → hit w' g = true → extractBits w g.opLo g.opHi = extractBits w' g.opLo g.opHi) :
    matchFormat w = matchFormat w' := by
  have hc : firstCand formatList w = firstCand formatList w' := firstCand_congr hh
  rw [matchFormat, matchFormat, matchFormatIn_eq, matchFormatIn_eq, hc]
  cases hfc : firstCand formatList w' with
  | none => rfl
  | some g =>
    simp only
    by_cases h8 : g.ft = FT_VOP3a
    · have hg := firstCand_mem hfc
      have hgh : hit w' g = true := by
        have := hg.2
        simp only [cand, Bool.and_eq_true] at this
        exact this.2
      rw [hx g (mem_formatList.mp hg.1) h8 hgh]
    · have : (g.ft == FT_VOP3a) = false := by simpa using h8
      simp [this]

theorem formats_26 : ∀ g ∈ formats, 26 ≤ shiftOf g ∨ (g.encoding / 2 ^ 26 ≠ 54 ∧ g.encoding / 2 ^ 26 ≠ 55) := by decide

/-- two 32-bit words with the same bits 26..31 ∈ {DS, FLAT encoding} and the same bits 16..24 match the same format
    (bit 25 belongs to no mask that can hit such a word) -/
theorem matchFormat_bit25 (w w' : Nat) (hw : w < 2 ^ 32) (hw' : w' < 2 ^ 32)
    (h26 : w / 2 ^ 26 = w' / 2 ^ 26) (he : w' / 2 ^ 26 = 54 ∨ w' / 2 ^ 26 = 55) :
    matchFormat w = matchFormat w' := by
  apply matchFormat_congr
  · intro g hg
    rcases formats_26 g hg with h | ⟨h1, h2⟩
    · exact hit_of_div hg hw hw' h26 h
    · have hk : shiftOf g ≤ 26 ∨ 26 ≤ shiftOf g := by omega
      rcases hk with hk | hk
      · rw [hit_eq_div hg hw, hit_eq_div hg hw']
        have a : ¬ (w / 2 ^ shiftOf g = g.encoding / 2 ^ shiftOf g) := by
          intro e
          have := div_pow_mono e hk
          omega
        have b : ¬ (w' / 2 ^ shiftOf g = g.encoding / 2 ^ shiftOf g) := by
          intro e
          have := div_pow_mono e hk
          omega
        simp [a, b]
      · exact hit_of_div hg hw hw' h26 hk
  · intro g hg h8 hh
    exfalso
    rw [hit_eq_div hg hw'] at hh
    have hh' : w' / 2 ^ shiftOf g = g.encoding / 2 ^ shiftOf g := by simpa using hh
    obtain ⟨_, _, _, a4, a5⟩ := fmt_vop3a g hg h8
    rw [a4, a5] at hh'
    omega

end C04
