import MgpuProofs.C07Hyp
set_option linter.unusedVariables false
set_option linter.unusedSimpArgs false
/-! # C07 helper lemmas: the compute unit onto which every live wavefront of an allocator state was
dispatched has exactly the allocator's layout — the hypothesis `hlay` of
`allocated_cu_refines_register_map` follows from the model of `DispatchWf` -/
namespace C07
open Gen

/-- the dispatch of wavefront `w` (layout from the allocator) with dispatch information `d` -/
def mapOp (w : TWf) (d : DispInfo) : CUOp := .map w.ns w.nv w.simd w.soff w.voff d

/-- what a `.map` step does to the records and the file sizes, whatever the fault outcome -/
theorem map_records (t : TimingRF) (ns nv simd soff voff : Nat) (d : DispInfo) :
    (t.cuStep (.map ns nv simd soff voff d)).wfs.size = t.wfs.size + 1 ∧
    ((t.cuStep (.map ns nv simd soff voff d)).wf t.wfs.size).layout = (simd, soff, voff, ns, nv) ∧
    (∀ j, j < t.wfs.size → (t.cuStep (.map ns nv simd soff voff d)).wf j = t.wf j) ∧
    (t.cuStep (.map ns nv simd soff voff d)).sfile.size = t.sfile.size ∧
    (t.cuStep (.map ns nv simd soff voff d)).vfiles.size = t.vfiles.size ∧
    (∀ x : TWf, ((t.cuStep (.map ns nv simd soff voff d)).vfileOf x).size = (t.vfileOf x).size) := by
  have hn : t.wfs.size < (t.newWf ns nv).wfs.size := by simp [TimingRF.newWf]
  obtain ⟨s1, _, _, _, _, s6, s7, s8, s9, s10⟩ := dispatch_shape (t.newWf ns nv) t.wfs.size simd soff voff d hn
  simp only [TimingRF.cuStep]
  refine ⟨by rw [s7]; simp [TimingRF.newWf], ?_, fun j hj => ?_, s8, s9, s10⟩
  · rw [s1, newWf_wf_new]
  · rw [s6 j (Nat.ne_of_lt hj), newWf_wf_old t ns nv j hj]

/-- the shipped register files -/
structure ShippedFiles (t : TimingRF) : Prop where
  s : t.sfile.size = 12800
  n : t.vfiles.size = 4
  v : ∀ x : TWf, x.simd < 4 → (t.vfileOf x).size = 65536

theorem toList_map_layout (t t' : TimingRF) (w : TWf) (hsz : t'.wfs.size = t.wfs.size + 1)
    (hold : ∀ j, j < t.wfs.size → t'.wf j = t.wf j) (hnew : (t'.wf t.wfs.size).layout = w.layout) :
    t'.wfs.toList.map TWf.layout = t.wfs.toList.map TWf.layout ++ [w.layout] := by
  apply List.ext_getElem
  · simp [hsz]
  · intro i h1 h2
    simp only [List.length_map, Array.length_toList] at h1
    simp only [List.getElem_map, Array.getElem_toList]
    have e : t'.wfs[i]'h1 = t'.wf i := by simp [TimingRF.wf, h1]
    rw [e]
    by_cases hi : i < t.wfs.size
    · rw [List.getElem_append_left (by simpa using hi), hold i hi]
      simp [TimingRF.wf, hi]
    · have : i = t.wfs.size := by omega
      subst this
      rw [List.getElem_append_right (by simp)]
      simpa using hnew

/-- dispatching a list of wavefronts whose windows are pairwise byte-disjoint, disjoint from the
    resident ones and inside the shipped files: every step's side condition holds, and the records
    afterwards are the old ones followed by the dispatched layouts -/
theorem mapAll (ws : List TWf) : ∀ (ds : List DispInfo) (t : TimingRF), ds.length = ws.length →
    ShippedFiles t → Alloc t → Clean t →
    ws.Pairwise WindowsDisjoint →
    (∀ w ∈ ws, w.soff + 4 * w.ns ≤ 12800 ∧ w.ns ≤ 102 ∧ w.voff + 4 * w.nv ≤ 1024 ∧ w.simd < 4) →
    (∀ w ∈ ws, ∀ i, i < t.wfs.size → WindowsDisjoint (t.wf i) w) →
    (∀ p ∈ List.zip ws ds, AbiFits p.2 p.1.ns p.1.nv) →
    CUOkAll t (List.zipWith mapOp ws ds) ∧
    (t.cuRun (List.zipWith mapOp ws ds)).wfs.toList.map TWf.layout =
      t.wfs.toList.map TWf.layout ++ ws.map TWf.layout ∧
    ShippedFiles (t.cuRun (List.zipWith mapOp ws ds)) := by
  induction ws with
  | nil => intro ds t hl hF _ _ _ _ _ _; simp [CUOkAll, TimingRF.cuRun, hF]
  | cons w ws ih =>
    intro ds t hl hF hA hC hpw hin hdis habi
    cases ds with
    | nil => simp at hl
    | cons d ds =>
      obtain ⟨i1, i2, i3, i4⟩ := hin w (by simp)
      have hvw : (t.vfiles.getD w.simd #[]).size = 65536 := hF.v w i4
      have hok : (mapOp w d).Ok t := by
        refine ⟨by rw [hF.s]; exact i1, i2, by rw [hF.n]; exact i4, by rw [hvw]; exact Nat.le_refl _, i3, ?_, ?_⟩
        · intro i hi
          have h := hdis w (by simp) i hi
          exact WindowsDisjoint.of_layout rfl rfl h
        · exact habi (w, d) (by simp)
      obtain ⟨hA', hC'⟩ := cuStep_alloc_clean t (mapOp w d) hA hC hok
      obtain ⟨m1, m2, m3, m4, m5, m6⟩ := map_records t w.ns w.nv w.simd w.soff w.voff d
      have hF' : ShippedFiles (t.cuStep (mapOp w d)) :=
        ⟨by show (t.cuStep (.map _ _ _ _ _ _)).sfile.size = _; rw [m4]; exact hF.s,
         by show (t.cuStep (.map _ _ _ _ _ _)).vfiles.size = _; rw [m5]; exact hF.n,
         fun x hx => by show ((t.cuStep (.map _ _ _ _ _ _)).vfileOf x).size = _; rw [m6]; exact hF.v x hx⟩
      have hpw' := List.pairwise_cons.1 hpw
      have hdis' : ∀ w' ∈ ws, ∀ i, i < (t.cuStep (mapOp w d)).wfs.size → WindowsDisjoint ((t.cuStep (mapOp w d)).wf i) w' := by
        intro w' hw' i hi
        have hi' : i < t.wfs.size + 1 := by rw [← m1]; exact hi
        by_cases hlt : i < t.wfs.size
        · have e : (t.cuStep (mapOp w d)).wf i = t.wf i := m3 i hlt
          rw [e]; exact hdis w' (by simp [hw']) i hlt
        · have : i = t.wfs.size := by omega
          subst this
          exact WindowsDisjoint.of_layout (a := w) (b := w') m2 rfl (hpw'.1 w' hw')
      obtain ⟨r1, r2, r3⟩ := ih ds (t.cuStep (mapOp w d)) (by simpa using hl) hF' hA' hC' hpw'.2
        (fun w' hw' => hin w' (by simp [hw'])) hdis' (fun p hp => habi p (by simp [hp]))
      refine ⟨⟨hok, r1⟩, ?_, r3⟩
      simp only [List.zipWith_cons_cons, TimingRF.cuRun, List.map_cons]
      rw [r2, toList_map_layout t (t.cuStep (mapOp w d)) w m1 m3 m2, List.append_assoc]
      rfl

theorem blank_shipped : ShippedFiles blankCU :=
  ⟨by simp [blankCU], by simp [blankCU], fun x hx => by
    simp only [TimingRF.vfileOf, blankCU, Array.getD_eq_getD_getElem?, Array.getElem?_replicate, hx, if_true]
    simp⟩

end C07

namespace C07
open Gen

theorem u64_of_halves (a b : UInt64) (h1 : lo32 a = lo32 b) (h2 : hi32 a = hi32 b) : a = b := by
  rw [← mk64_lo_hi a, ← mk64_lo_hi b, h1, h2]

/-- agreement of the cell maps on the owned cells is agreement of the cell records -/
theorem agree_of_mapAgree {c c' : Cells} {ns nv : Nat} (h : MapAgree ns nv c.toMap c'.toMap) : Agree c c' ns nv := by
  refine ⟨fun i hi => h (.s i) hi, fun l i hl hi => h (.v l i) ⟨hl, hi⟩, ?_, ?_, ?_, ?_⟩
  · exact u64_of_halves _ _ (h .vccLo trivial) (h .vccHi trivial)
  · exact u64_of_halves _ _ (h .execLo trivial) (h .execHi trivial)
  · have := h .scc trivial
    simp only [Cells.toMap, Cells.cell] at this
    exact UInt8.toNat_inj.mp this
  · have := h .m0 trivial
    simp only [Cells.toMap, Cells.cell] at this
    exact UInt32.toNat_inj.mp this

/-- **the agreement hypothesis of `emu_timing_same_answers*` holds from the dispatch on**: the wavefront
    the emulation compute unit creates for a dispatch and the timing wavefront dispatched onto a clean
    window answer every sequence of supported accesses identically -/
theorem same_answers_after_dispatch (t : TimingRF) (ns nv simd soff voff : Nat) (d : DispInfo) (hA : Alloc t)
    (hC : Clean t) (hok : CUOp.Ok t (.map ns nv simd soff voff d)) (hv : nv ≤ 256) (ops : List Op)
    (hops : ∀ o ∈ ops, o.Ok ns nv) :
    (emuFresh d).1.run ops = (t.cuStep (.map ns nv simd soff voff d)).run t.wfs.size ops := by
  obtain ⟨_, hA', hsz, _⟩ := timing_fresh_map t ns nv simd soff voff d hA hC hok
  obtain ⟨_, m2, _, _, _, _⟩ := map_records t ns nv simd soff voff d
  obtain ⟨l1, l2, l3, l4, l5⟩ := layout_eq (w := ⟨simd, soff, voff, ns, nv, 0, 0, 0, 0⟩) m2
  simp only at l4 l5
  have hwi : t.wfs.size < (t.cuStep (.map ns nv simd soff voff d)).wfs.size := by rw [hsz]; omega
  have hag := fresh_timing_eq_emu t ns nv simd soff voff d hA hC hok hv
  have hgi : absG (t.cuStep (.map ns nv simd soff voff d)) t.wfs.size =
      (absT (t.cuStep (.map ns nv simd soff voff d)) ((t.cuStep (.map ns nv simd soff voff d)).wf t.wfs.size)).toMap := by
    simp only [absG, hwi, if_true]
  rw [hgi] at hag
  obtain ⟨k1, k2, k3, k4, k5, k6, k7⟩ := hok
  have hs : (emuFresh d).1.Sized := (emu_fresh_map d (AbiFits.mono (by omega) hv k7)).2.1
  apply emu_timing_same_answers_seq_of_run ops _ _ _ hs hwi hA'
  · rw [l4, l5]; exact agree_of_mapAgree hag
  · rw [l4, l5]; exact hops

end C07
