import MgpuProofs.C09Res2
/-! # C09 — resource bookkeeping, part 3: the SIMD matching loop. -/
namespace C09

/-- pending VGPR regions on SIMD `k` induced by the (simd, unit offset) pairs chosen so far -/
def pend (req k : Nat) (acc : List (Nat × Nat)) : List (Nat × Nat) :=
  (acc.filter (·.1 = k)).map fun p => (p.2, req)

theorem pend_append_same (req k off : Nat) (acc : List (Nat × Nat)) :
    pend req k (acc ++ [(k, off)]) = pend req k acc ++ [(off, req)] := by
  simp [pend, List.filter_append]

theorem pend_append_other (req k j off : Nat) (acc : List (Nat × Nat)) (h : j ≠ k) :
    pend req k (acc ++ [(j, off)]) = pend req k acc := by
  simp [pend, List.filter_append, h]

/-- invariant of the state threaded through `matchWfWithSIMDs`, after choosing the pairs `acc` -/
structure MInv (cu : CU) (req : Nat) (st : MatchSt) (acc : List (Nat × Nat)) : Prop where
  /-- still one mask per SIMD -/
  len : st.vmasks.length = cu.vmasks.length
  /-- each mask has its old reserved regions and the pending regions of the pairs chosen on it -/
  ok : ∀ k M M0, st.vmasks[k]? = some M → cu.vmasks[k]? = some M0 →
    MaskOK2 M0.shape M (vRegions cu k) (pend req k acc)
  /-- the round-robin pointer is in range -/
  next : st.next < cu.wfFree.length
  /-- one used-slot counter per SIMD -/
  usedLen : st.used.length = cu.wfFree.length
  /-- `wfPoolEntryUsed` counts the pairs chosen per SIMD -/
  used : ∀ k, st.used.getD k 0 = (acc.filter (·.1 = k)).length
  /-- never more than the free slots -/
  usedLe : ∀ k, st.used.getD k 0 ≤ cu.wfFree.getD k 0
  /-- chosen SIMD ids are in range -/
  simd : ∀ p ∈ acc, p.1 < cu.wfFree.length

theorem nextSimd_lt (n next : Nat) (h : 0 < n) : nextSimd n next < n := by
  unfold nextSimd; split <;> omega

/-- a SIMD was tested and not taken -/
theorem MInv_skip (cu : CU) (req : Nat) (st : MatchSt) (acc : List (Nat × Nat)) (r : Option Nat) (M1 : Mask)
    (h : MInv cu req st acc)
    (hn : (st.vmasks.getD st.next (.lim [])).nextRegion req stFree = (r, M1)) :
    MInv cu req { st with vmasks := st.vmasks.set st.next M1, next := nextSimd cu.wfFree.length st.next } acc := by
  refine { h with len := by simp [h.len], ok := ?_, next := nextSimd_lt _ _ (by have := h.next; omega) }
  intro k M M0 hM hM0
  simp only [List.getElem?_set] at hM
  split at hM
  · rename_i hk
    subst hk
    split at hM
    · rename_i hlt
      injection hM with hM; subst hM
      have hget : st.vmasks.getD st.next (.lim []) = st.vmasks[st.next] := by
        simp [List.getD_eq_getElem?_getD, hlt]
      rw [hget] at hn
      exact MaskOK2_next _ _ _ _ _ req r
        (h.ok st.next _ M0 (List.getElem?_eq_getElem hlt) hM0) hn
    · cases hM
  · exact h.ok k M M0 hM hM0

/-- a SIMD was tested and taken -/
theorem MInv_pick (cu : CU) (req : Nat) (st : MatchSt) (acc : List (Nat × Nat)) (off : Nat) (M1 : Mask)
    (h : MInv cu req st acc)
    (hn : (st.vmasks.getD st.next (.lim [])).nextRegion req stFree = (some off, M1))
    (hfree : cu.wfFree.getD st.next 0 > st.used.getD st.next 0) :
    MInv cu req
      { vmasks := (st.vmasks.set st.next M1).set st.next (M1.setStatus off req stToRes),
        next := nextSimd cu.wfFree.length st.next,
        used := st.used.set st.next (st.used.getD st.next 0 + 1) } (acc ++ [(st.next, off)]) := by
  have hnx := h.next
  have hul := h.usedLen
  refine { len := by simp [h.len], ok := ?_, next := nextSimd_lt _ _ (by omega),
           usedLen := by simp [h.usedLen], used := ?_, usedLe := ?_, simd := ?_ }
  · intro k M M0 hM hM0
    simp only [List.set_set, List.getElem?_set] at hM
    split at hM
    · rename_i hk
      subst hk
      split at hM
      · rename_i hlt
        injection hM with hM; subst hM
        have hget : st.vmasks.getD st.next (.lim []) = st.vmasks[st.next] := by
          simp [List.getD_eq_getElem?_getD, hlt]
        rw [hget] at hn
        rw [pend_append_same]
        exact MaskOK2_find _ _ _ _ _ req off
          (h.ok st.next _ M0 (List.getElem?_eq_getElem hlt) hM0) hn
      · cases hM
    · rename_i hk
      rw [pend_append_other _ _ _ _ _ hk]
      exact h.ok k M M0 hM hM0
  · intro k
    have hu := h.used k
    simp only [List.getD_eq_getElem?_getD, List.getElem?_set, List.filter_append, List.length_append] at hu ⊢
    by_cases hk : st.next = k
    · subst hk
      have hlt : st.next < st.used.length := by omega
      simp only [List.getElem?_eq_getElem hlt, Option.getD_some] at hu
      simp [hlt, hu]
    · simp [hk, hu]
  · intro k
    have hu := h.usedLe k
    simp only [List.getD_eq_getElem?_getD, List.getElem?_set] at hu hfree ⊢
    by_cases hk : st.next = k
    · subst hk; simp only [hul, hnx, if_true, Option.getD_some]; omega
    · simp [hk, hu]
  · intro p hp
    rcases List.mem_append.1 hp with hp | hp
    · exact h.simd p hp
    · simp only [List.mem_singleton] at hp; subst hp; exact hnx

theorem simdTry_ok (cu : CU) (req : Nat) : ∀ (t : Nat) (st : MatchSt) (acc : List (Nat × Nat))
    (r : Option (Nat × Nat)) (st' : MatchSt), MInv cu req st acc →
    simdTry req cu.wfFree t st = (r, st') →
    match r with
    | none => MInv cu req st' acc
    | some p => MInv cu req st' (acc ++ [p]) := by
  intro t
  induction t with
  | zero =>
    intro st acc r st' h hs
    simp only [simdTry, Prod.mk.injEq] at hs
    obtain ⟨rfl, rfl⟩ := hs
    exact h
  | succ t ih =>
    intro st acc r st' h hs
    rcases hnr : (st.vmasks.getD st.next (.lim [])).nextRegion req stFree with ⟨_ | off, M1⟩
    · simp only [simdTry, hnr] at hs
      exact ih _ acc r st' (MInv_skip cu req st acc none M1 h hnr) hs
    · simp only [simdTry, hnr] at hs
      split at hs
      · rename_i hfree
        simp only [Prod.mk.injEq] at hs
        obtain ⟨rfl, rfl⟩ := hs
        exact MInv_pick cu req st acc off M1 h hnr hfree
      · exact ih _ acc r st' (MInv_skip cu req st acc (some off) M1 h hnr) hs

theorem matchLoop_ok (cu : CU) (req : Nat) : ∀ (n : Nat) (st : MatchSt) (acc : List (Nat × Nat))
    (r : Option (List (Nat × Nat))) (st' : MatchSt), MInv cu req st acc →
    matchLoop req cu.wfFree n st = (r, st') →
    ∃ acc', MInv cu req st' acc' ∧ ∀ ps, r = some ps → ps.length = n ∧ acc' = acc ++ ps := by
  intro n
  induction n with
  | zero =>
    intro st acc r st' h hs
    simp only [matchLoop, Prod.mk.injEq] at hs
    obtain ⟨rfl, rfl⟩ := hs
    exact ⟨acc, h, by intro ps hp; injection hp with hp; subst hp; simp⟩
  | succ n ih =>
    intro st acc r st' h hs
    rcases hst : simdTry req cu.wfFree cu.wfFree.length st with ⟨_ | p, st1⟩
    · simp only [matchLoop, hst, Prod.mk.injEq] at hs
      obtain ⟨rfl, rfl⟩ := hs
      exact ⟨acc, simdTry_ok cu req _ st acc none st1 h hst, by intro ps hp; cases hp⟩
    · simp only [matchLoop, hst, Prod.mk.injEq] at hs
      obtain ⟨hr, hM⟩ := hs
      have h1 := simdTry_ok cu req _ st acc (some p) st1 h hst
      obtain ⟨acc', hacc', hps⟩ := ih st1 _ _ _ h1 (Prod.ext rfl rfl)
      subst hM
      refine ⟨acc', hacc', ?_⟩
      intro ps hp
      subst hr
      cases hrec : (matchLoop req cu.wfFree n st1).1 with
      | none => simp [hrec] at hp
      | some ps' =>
        simp only [hrec, Option.map_some, Option.some.injEq] at hp
        obtain ⟨hl, ha⟩ := hps ps' hrec
        subst hp
        refine ⟨by simp [hl], ?_⟩
        rw [ha]; simp

end C09
