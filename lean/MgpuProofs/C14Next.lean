import MgpuProofs.C14Live
import MgpuProofs.C14Frame
/-! # C14 — once every unfinished wavefront of a group has issued its `s_barrier`, the next
evaluation round releases all of them

`evalInternal_releases`: in a state satisfying the invariants, if every wavefront of group `g` is
Completed, parked, or Running an `s_barrier` that is in `internalExecuting`, then after
`EvaluateInternalInst` every wavefront of `g` is Completed or Ready. The proof combines a loop
invariant (no wavefront of the group is Running any more once its entry has been visited), the
"nobody waits in vain" invariant of the result state and the ghost barrier counters. -/
namespace C14

/-- every wavefront of `l'` descends from a wavefront of `l`: same identity, group, barriers issued;
    ended stays ended -/
def Desc (l l' : List Wf) : Prop :=
  ∀ v' ∈ l', ∃ v ∈ l, v'.id = v.id ∧ v'.wg = v.wg ∧ v'.arr = v.arr ∧
    (v.state = .completed → v'.state = .completed)

theorem Desc_refl (l : List Wf) : Desc l l := fun v hv => ⟨v, hv, rfl, rfl, rfl, fun h => h⟩

theorem Desc_trans {a b c : List Wf} (h1 : Desc a b) (h2 : Desc b c) : Desc a c := by
  intro v'' hv''
  obtain ⟨v', hv', e1, e2, e3, e4⟩ := h2 v'' hv''
  obtain ⟨v, hv, f1, f2, f3, f4⟩ := h1 v' hv'
  exact ⟨v, hv, e1.trans f1, e2.trans f2, e3.trans f3, fun h => e4 (f4 h)⟩

/-- what is known about group `g` during the round: a wavefront that is still Running holds an
    `s_barrier` whose entry is still to be visited -/
def Q (g : Nat) (s : State) (rem : List Nat) : Prop :=
  ∀ v ∈ s.wfs, v.wg = g → v.state = .completed ∨ v.state = .ready ∨ v.state = .atBarrier ∨
    (v.state = .running ∧ v.op = 10 ∧ v.id ∈ rem)

theorem getWf_none {wfs : List Wf} {j : Nat} (h : getWf wfs j = none) : ∀ v ∈ wfs, v.id ≠ j := by
  unfold getWf at h
  rw [List.find?_eq_none] at h
  intro v hv e
  exact h v hv (by simp [e])

theorem evalOne_Q {c : Cfg} (hB : c.fixB = true) {g : Nat} {sp : State × Bool} {j : Nat} {rem : List Nat}
    (h : LInv sp.1 (j :: rem)) (hq : Q g sp.1 (j :: rem)) :
    Q g (evalOne c sp j).1 rem ∧ Desc sp.1.wfs (evalOne c sp j).1.wfs := by
  have skip : (∀ v ∈ sp.1.wfs, v.id = j → v.state ≠ .running) → Q g sp.1 rem := by
    intro hno v hv hvg
    rcases hq v hv hvg with a | a | a | ⟨a1, a2, a3⟩
    · exact Or.inl a
    · exact Or.inr (Or.inl a)
    · exact Or.inr (Or.inr (Or.inl a))
    · rcases List.mem_cons.mp a3 with e | e
      · exact absurd a1 (hno v hv e)
      · exact Or.inr (Or.inr (Or.inr ⟨a1, a2, e⟩))
  unfold evalOne
  split
  · rename_i hf
    rw [h.nofault] at hf; cases hf
  · split
    · rename_i hnone
      exact ⟨skip (fun v hv e => absurd e (getWf_none hnone v hv)), Desc_refl _⟩
    · rename_i wj hget
      obtain ⟨hwj, hj⟩ := getWf_some hget
      split
      · rename_i hrd
        have hr : wj.state = .ready := by simpa [hB] using hrd
        refine ⟨skip ?_, Desc_refl _⟩
        intro v hv e
        rw [uniq h.ids hv hwj (e.trans hj.symm), hr]; decide
      · rename_i hnr
        have hnready : wj.state ≠ .ready := by
          intro hr; apply hnr; simp [hB, hr]
        have hg : Good wj := by
          rcases h.remSt wj hwj (by rw [hj]; exact List.mem_cons_self) with hg | hr
          · exact hg
          · exact absurd hr hnready
        obtain ⟨F, hF, hP, hQ, hR, hS⟩ := evalInst_frame c sp.1 wj
        have hwfs : (finishOne j wj.wg (evalInst c sp.1 wj)).wfs = sp.1.wfs.map F := by
          rw [finishOne_wfs]; exact hF
        constructor
        · intro v' hv' hvg
          rw [show (finishOne j wj.wg (evalInst c sp.1 wj)).wfs = sp.1.wfs.map F from hwfs] at hv'
          obtain ⟨v, hv, rfl⟩ := List.mem_map.mp hv'
          rw [(hP v).2.1] at hvg
          by_cases hvj : v.id = wj.id
          · have : v = wj := uniq h.ids hv hwj hvj
            subst this
            have hop : v.op = 10 := by
              rcases hq v hv hvg with a | a | a | ⟨_, a2, _⟩
              · exact absurd a (good_not_completed hg)
              · exact absurd a hnready
              · rcases hg with b | b
                · rw [a] at b; cases b
                · exact b.2
              · exact a2
            rcases hS hop with a | a
            · exact Or.inr (Or.inl a)
            · exact Or.inr (Or.inr (Or.inl a))
          · rcases hq v hv hvg with a | a | a | ⟨a1, a2, a3⟩
            · exact Or.inl ((hQ v hvj).1 a)
            · rcases (hQ v hvj).2.1 (Or.inl a) with b | b
              · exact Or.inr (Or.inl b)
              · exact Or.inr (Or.inr (Or.inl b))
            · rcases (hQ v hvj).2.1 (Or.inr a) with b | b
              · exact Or.inr (Or.inl b)
              · exact Or.inr (Or.inr (Or.inl b))
            · rw [hR v hv a1 hvj]
              rcases List.mem_cons.mp a3 with e | e
              · exact absurd (e.trans hj.symm) hvj
              · exact Or.inr (Or.inr (Or.inr ⟨a1, a2, e⟩))
        · intro v' hv'
          rw [show (finishOne j wj.wg (evalInst c sp.1 wj)).wfs = sp.1.wfs.map F from hwfs] at hv'
          obtain ⟨v, hv, rfl⟩ := List.mem_map.mp hv'
          refine ⟨v, hv, (hP v).1, (hP v).2.1, (hP v).2.2.2.1, ?_⟩
          intro hc
          by_cases hvj : v.id = wj.id
          · rw [uniq h.ids hv hwj hvj] at hc
            exact absurd hc (good_not_completed hg)
          · exact (hQ v hvj).1 hc

theorem foldl_Q {c : Cfg} (hA : c.fixA = true) (hB : c.fixB = true) {g : Nat} (l : List Nat) (sp : State × Bool)
    (h : LInv sp.1 l) (hq : Q g sp.1 l) :
    Q g (l.foldl (evalOne c) sp).1 [] ∧ Desc sp.1.wfs (l.foldl (evalOne c) sp).1.wfs := by
  induction l generalizing sp with
  | nil => exact ⟨hq, Desc_refl _⟩
  | cons j l ih =>
    obtain ⟨q1, d1⟩ := evalOne_Q (c := c) hB h hq
    obtain ⟨q2, d2⟩ := ih _ (evalOne_LInv hA hB h) q1
    exact ⟨q2, Desc_trans d1 d2⟩

/-- the invariant of the initial states used here -/
theorem LInv_start {s : State} (h : Inv s) : LInv ({ s with exec := [] } : State) s.exec := by
  constructor
  · exact h.ids
  · exact h.nofault
  · intro w _ hin; cases hin
  · intro w hw hin; exact Or.inl (h.execSt w hw hin)
  · have := h.nodup; simpa using this
  · exact h.ghost
  · exact h.bars

/-- **the next evaluation round releases the group** -/
theorem evalInternal_releases {c : Cfg} (hA : c.fixA = true) (hB : c.fixB = true) {s : State} {g : Nat}
    (hi : Inv s) (hn : NS s ∧ Rng s)
    (hreach : ∀ v ∈ s.wfs, v.wg = g → v.state = .completed ∨ v.state = .atBarrier ∨
      (v.state = .running ∧ v.op = 10 ∧ v.id ∈ s.exec)) :
    ∀ v' ∈ (evalInternal c s).1.wfs, v'.wg = g →
      v'.state = .completed ∨ (v'.state = .ready ∧ v'.bar = v'.arr) := by
  have hi' := evalInternal_Inv hA hB hi
  have hn' := (evalInternal_NS hA hB hi hn).1
  have hq0 : Q g ({ s with exec := [] } : State) s.exec := by
    intro v hv hvg
    rcases hreach v hv hvg with a | a | a
    · exact Or.inl a
    · exact Or.inr (Or.inr (Or.inl a))
    · exact Or.inr (Or.inr (Or.inr a))
  obtain ⟨q, d⟩ := foldl_Q (c := c) hA hB s.exec (({ s with exec := [] } : State), false) (LInv_start hi) hq0
  have q' : Q g (evalInternal c s).1 [] := q
  have d' : Desc s.wfs (evalInternal c s).1.wfs := d
  -- a not-ended wavefront of `g` in the result had issued its barrier before the round
  have harr : ∀ x' ∈ (evalInternal c s).1.wfs, x'.wg = g → x'.state ≠ .completed →
      ∃ x ∈ s.wfs, x.wg = g ∧ x.state ≠ .completed ∧ x'.arr = x.bar + 1 := by
    intro x' hx' hxg hxc
    obtain ⟨x, hx, _, e2, e3, e4⟩ := d' x' hx'
    have hxg' : x.wg = g := by rw [← e2]; exact hxg
    have hxnc : x.state ≠ .completed := fun hc => hxc (e4 hc)
    refine ⟨x, hx, hxg', hxnc, ?_⟩
    rw [e3]
    rcases hreach x hx hxg' with a | a | ⟨a1, a2, _⟩
    · exact absurd a hxnc
    · exact (hi.ghost x hx).2.2 a
    · exact ((hi.ghost x hx).1 a1).1 a2
  intro v' hv' hvg
  rcases q' v' hv' hvg with a | a | a | ⟨_, _, a3⟩
  · exact Or.inl a
  · exact Or.inr ⟨a, ((hi'.ghost v' hv').2.1 a).symm⟩
  · -- parked afterwards: impossible
    exfalso
    obtain ⟨u', hu', hug, hu1, hu2⟩ := hn' v' hv' a
    have hug' : u'.wg = g := hug.trans hvg
    have hur : u'.state = .ready := by
      rcases q' u' hu' hug' with b | b | b | ⟨_, _, b3⟩
      · exact absurd b hu2
      · exact b
      · exact absurd b hu1
      · cases b3
    have hvnc : v'.state ≠ .completed := by rw [a]; decide
    obtain ⟨v, hv, hvg0, hvnc0, hva⟩ := harr v' hv' hvg hvnc
    obtain ⟨u, hu, hug0, hunc0, hua⟩ := harr u' hu' hug' hu2
    have b1 := hi.bars u hu v hv (hug0.trans hvg0.symm) hvnc0
    have b2 := hi.bars v hv u hu (hvg0.trans hug0.symm) hunc0
    have c1 := hi'.bars u' hu' v' hv' hug hvnc
    have c2 := hi'.bars v' hv' u' hu' hug.symm hu2
    have w1 := (hi'.ghost v' hv').2.2 a
    have w2 := (hi'.ghost u' hu').2.1 hur
    omega
  · cases a3

end C14
