import MgpuProofs.C06Body
import MgpuModel.C06_Deep
/-! # C06 — the SDWA state wrapper preserves lane-uniformity; the refinement `goRun = vexec` for ANY
lane-uniform handler with consistent tags (so that it applies to wrapped handlers too) -/
namespace C06

/-- the lane-local inputs as the wrapped handler sees them -/
def BodyIn.sdwa (b : BodyIn) (u : Uni) : BodyIn :=
  { b with src0 := sdwaSrc b.src0 u.src0Sel, src1 := sdwaSrc b.src1 u.src1Sel }

theorem sdwa_embed (h : LaneHandler) (u : Uni) (b : BodyIn) :
    (h.sdwaWrap.embed b).sdwa u = h.embed (b.sdwa u) := by
  simp only [LaneHandler.embed, LaneHandler.sdwaWrap, RawIn.sdwa, BodyIn.sdwa]

/-- the lane-local body of a wrapped handler: select the sources, run the plain body, select the destination -/
theorem sdwa_body (h : LaneHandler) (u : Uni) (b : BodyIn) :
    h.sdwaWrap.body u b =
      { dst := (h.body u.plain (b.sdwa u)).dst.map (fun v => sdwaDst b.dstOld v u.dstSel u.dstUnused)
        bit := (h.body u.plain (b.sdwa u)).bit } := by
  have he := sdwa_embed h u b
  simp only [LaneHandler.body]
  show (⟨_, _⟩ : BodyOut) = _
  have hd : (h.sdwaWrap.embed b).dstOld = b.dstOld := rfl
  simp only [LaneHandler.sdwaWrap, he, hd] at *

theorem sdwa_view (h : LaneHandler) (r : RawIn) : h.sdwaWrap.view r = h.view r := rfl

theorem view_sdwa (h : LaneHandler) (u : Uni) (r : RawIn) : h.view (r.sdwa u) = (h.view r).sdwa u := by
  simp only [LaneHandler.view, RawIn.sdwa, BodyIn.sdwa]

/-- **the wrapper keeps lane-uniformity**: the sub-dword selection works on the lane's own operand values and
    on the lane's own old destination, and does not touch the loop variable, the masks or the accumulator -/
theorem sdwa_preserves_uniform (h : LaneHandler) (hu : LaneUniform h) : LaneUniform h.sdwaWrap := by
  intro u r hi
  obtain ⟨hd, ha⟩ := hu u.plain (r.sdwa u) hi
  have hv : h.view (r.sdwa u) = (h.sdwaWrap.view r).sdwa u := by rw [sdwa_view, view_sdwa]
  rw [hv] at hd ha
  have hraw : h.sdwaWrap.raw u r =
      { dst := (h.raw u.plain (r.sdwa u)).dst.map (fun v => sdwaDst r.dstOld v u.dstSel u.dstUnused)
        acc := (h.raw u.plain (r.sdwa u)).acc } := rfl
  have hdo : (h.sdwaWrap.view r).dstOld = r.dstOld := rfl
  rw [sdwa_body, hraw]
  refine ⟨?_, ?_⟩
  · simp only [hd, hdo]
  · simp only [ha]; rfl

/-- consistency of the mask tags of a handler (what `mask_tags_consistent` decides for the generated table) -/
structure TagsOK (h : LaneHandler) : Prop where
  src2 : h.msrc = .src2 → h.accInit ≠ .vcc
  acc : h.msrc = .acc → h.accInit = .vcc

theorem tagsOK_sdwa (h : LaneHandler) (ht : TagsOK h) : TagsOK h.sdwaWrap := ⟨ht.src2, ht.acc⟩

/-- `goRun = vexec` for ANY lane-uniform handler with consistent tags -/
theorem handler_is_vexec_gen (h : LaneHandler) (hu : LaneUniform h) (ht : TagsOK h) (ops : Ops)
    (exec vcc0 m : BitVec 64) (vgpr : Nat → Nat → Nat) (hs : IsMaskSource h ops vcc0 m) :
    (goRun h ops exec vcc0 vgpr).vgpr = (vexec h.toHandler ops exec (absState vgpr m vcc0)).vgpr ∧
    (h.accInit ≠ .none →
      ∀ l, (goRun h ops exec vcc0 vgpr).acc.getLsbD l = (vexec h.toHandler ops exec (absState vgpr m vcc0)).mout l) := by
  have sim := goLoop_sim h hu ops exec vcc0 (absState vgpr m vcc0)
    (maskTie_of_tags h ops vgpr vcc0 m hs.1 hs.2 ht.src2 ht.acc) 64 (Nat.le_refl _)
  exact ⟨sim.vgpr, sim.mout⟩

end C06
