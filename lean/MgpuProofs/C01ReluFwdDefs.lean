import MgpuModel.C01_Kernels2
import MgpuProofs.C01ReluDefs
/-! # C01 — `reluForward` (amd/benchmarks/dnn/gputensor/operator.hsaco, `GPUOperator.ReluForward`): definitions

```
  0 s_load_dword s0, s[4:5], 0x4          ; work-group size x|y from the dispatch packet
  8 s_waitcnt lgkmcnt(0)
 12 s_and_b32 s2, s0, 0xffff
 20 s_load_dword s3, s[6:7], 0x10         ; count
 28 s_load_dwordx2 s[0:1], s[6:7], 0x18   ; hidden global offset x
 36 s_mul_i32 s8, s8, s2
 40 v_add_u32 v0, vcc, s8, v0
 44 s_waitcnt lgkmcnt(0)
 48 v_add_u32 v1, vcc, s0, v0             ; global id
 52 v_cmp_gt_i32 vcc, s3, v1
 56 s_and_saveexec_b64 s[0:1], vcc
 60 s_cbranch_execz 19                    ; → 140
 64 s_load_dwordx4 s[0:3], s[6:7], 0x0    ; in, out
 72 v_mov_b32 v0, 0
 76 v_ashrrev_i64 v[0:1], 30, v[0:1]
 84 s_waitcnt lgkmcnt(0)
 88 v_mov_b32 v3, s1
 92 v_add_u32 v2, vcc, s0, v0
 96 v_addc_u32 v3, vcc, v3, v1, vcc
100 flat_load_dword v2, v[2:3]
108 v_mov_b32 v3, s3
112 v_add_u32 v0, vcc, s2, v0
116 v_addc_u32 v1, vcc, v3, v1, vcc
120 s_waitcnt vmcnt(0) lgkmcnt(0)
124 v_mul_f32 v2, 1.0, v2
128 v_max_f32 v2, 0, v2
132 flat_store_dword v[0:1], v2
140 s_endpgm
```
Kernel arguments (`reluForwardKernelArgs`, packed): In @0, Out @8, Count i32 @16, Padding @20, OffsetX i64 @24,
OffsetY @32, OffsetZ @40.  The value stored and the admissibility conditions are those of `ReLUForward`
(`Relu.reluVal`, `Relu.Valid`). -/
namespace C01.Emu.ReluFwd
open C03V

def P : Program := ⟨reluFwdKernelCode, false⟩

/-- what the kernel reads from the dispatch packet and the kernel-argument segment -/
structure Img (c : Map.Cfg) (src : Nat) (f : Nat → Nat) : Prop where
  wg : rd32 f (c.pa + 4) % 65536 = 64
  n : rd32 f (c.ka + 16) % 2 ^ 32 = c.lim
  goff : rd32 f (c.ka + 24) % 2 ^ 32 = c.lo
  srcLo : rd32 f (c.ka + 0) % 2 ^ 32 = src % 2 ^ 32
  srcHi : rd32 f (c.ka + 4) % 2 ^ 32 = src / 2 ^ 32
  dstLo : rd32 f (c.ka + 8) % 2 ^ 32 = c.dst % 2 ^ 32
  dstHi : rd32 f (c.ka + 12) % 2 ^ 32 = c.dst / 2 ^ 32

end C01.Emu.ReluFwd
