import MgpuProofs.C18Ctl
/-! C18 system level, part 1: list/count lemmas and the token relation of one engine tick.

A *token* of a channel is the clone id `fid` of an entry of its transaction table. `dnF` lists the
tokens visible at the channel's downstream side (clone still in the outgoing buffer, reply already
in the incoming buffer); everything else of a transaction's life is outside the engine.
`upKA` lists the (request id, source) pairs visible at the upstream side (request still in the port,
in the table, answer still in the outgoing buffer). `ChRel` says how one engine step moves them. -/
namespace C18

/-! ### counting -/

theorem count_snoc {α} [BEq α] [LawfulBEq α] (l : List α) (x t : α) :
    (l ++ [x]).count t = l.count t + (if x == t then 1 else 0) := by
  simp [List.count_append, List.count_cons]

theorem count_cons' {α} [BEq α] [LawfulBEq α] (l : List α) (x t : α) :
    (x :: l).count t = l.count t + (if x == t then 1 else 0) := by
  simp [List.count_cons]

theorem count_eraseIdx {α} [BEq α] [LawfulBEq α] : ∀ {l : List α} {j : Nat} {m : α},
    l[j]? = some m → ∀ t, (l.eraseIdx j).count t + (if m == t then 1 else 0) = l.count t := by
  intro l
  induction l with
  | nil => intro j m h; simp at h
  | cons x xs ih =>
    intro j m h t
    cases j with
    | zero =>
      simp only [List.getElem?_cons_zero, Option.some.injEq] at h
      subst h
      simp [List.count_cons]
    | succ j =>
      simp only [List.getElem?_cons_succ] at h
      have := ih h t
      simp only [List.eraseIdx_cons_succ, List.count_cons]
      omega

theorem count_map_eraseIdx {α β} [BEq α] [LawfulBEq α] (F : β → α) : ∀ {l : List β} {j : Nat} {m : β},
    l[j]? = some m → ∀ t, ((l.eraseIdx j).map F).count t + (if F m == t then 1 else 0) = (l.map F).count t := by
  intro l
  induction l with
  | nil => intro j m h; simp at h
  | cons x xs ih =>
    intro j m h t
    cases j with
    | zero =>
      simp only [List.getElem?_cons_zero, Option.some.injEq] at h
      subst h
      simp [List.count_cons]
    | succ j =>
      simp only [List.getElem?_cons_succ] at h
      have := ih h t
      simp only [List.eraseIdx_cons_succ, List.map_cons, List.count_cons]
      omega

theorem length_eraseIdx' {α} : ∀ {l : List α} {j : Nat} {m : α},
    l[j]? = some m → (l.eraseIdx j).length + 1 = l.length := by
  intro l
  induction l with
  | nil => intro j m h; simp at h
  | cons x xs ih =>
    intro j m h
    cases j with
    | zero => simp
    | succ j =>
      simp only [List.getElem?_cons_succ] at h
      have := ih h
      simp only [List.eraseIdx_cons_succ, List.length_cons]
      omega

theorem mem_eraseIdx' {α} : ∀ {l : List α} {j : Nat} {x : α}, x ∈ l.eraseIdx j → x ∈ l := by
  intro l
  induction l with
  | nil => intro j x h; simp at h
  | cons y ys ih =>
    intro j x h
    cases j with
    | zero => simp only [List.eraseIdx_cons_zero] at h; exact List.mem_cons_of_mem _ h
    | succ j =>
      simp only [List.eraseIdx_cons_succ, List.mem_cons] at h
      rcases h with rfl | h
      · exact List.mem_cons_self
      · exact List.mem_cons_of_mem _ (ih h)

theorem count_flatMap_set {α β} [BEq α] [LawfulBEq α] (F : β → List α) : ∀ {l : List β} {i : Nat} {x : β},
    l[i]? = some x → ∀ (x' : β) (t : α),
    ((l.set i x').flatMap F).count t + (F x).count t = (l.flatMap F).count t + (F x').count t := by
  intro l
  induction l with
  | nil => intro i x h; simp at h
  | cons y ys ih =>
    intro i x h x' t
    cases i with
    | zero =>
      simp only [List.getElem?_cons_zero, Option.some.injEq] at h
      subst h
      simp only [List.set_cons_zero, List.flatMap_cons, List.count_append]
      omega
    | succ i =>
      simp only [List.getElem?_cons_succ] at h
      have := ih h x' t
      simp only [List.set_cons_succ, List.flatMap_cons, List.count_append]
      omega

theorem getElem?_set' {α} {l : List α} {i j : Nat} {x y : α} (h : (l.set i x)[j]? = some y) :
    (j = i ∧ y = x ∧ i < l.length) ∨ (j ≠ i ∧ l[j]? = some y) := by
  rw [List.getElem?_set] at h
  split at h
  · next hij =>
    split at h
    · simp only [Option.some.injEq] at h
      exact Or.inl ⟨hij.symm, h.symm, by assumption⟩
    · cases h
  · next hij => exact Or.inr ⟨fun e => hij e.symm, h⟩

theorem lt_of_getElem? {α} {l : List α} {i : Nat} {x : α} (h : l[i]? = some x) : i < l.length := by
  rcases Nat.lt_or_ge i l.length with h1 | h1
  · exact h1
  · rw [List.getElem?_eq_none h1] at h; cases h

/-! ### `takeName` -/

theorem takeName_perm {k : Nat} : ∀ {l : List Name} {nm : Name} {r : List Name},
    takeName k l = some (nm, r) → l.Perm (nm :: r) ∧ nm.k = k := by
  intro l
  induction l with
  | nil => intro nm r h; simp [takeName] at h
  | cons x xs ih =>
    intro nm r h
    unfold takeName at h
    split at h
    · next hx =>
      simp only [Option.some.injEq, Prod.mk.injEq] at h
      obtain ⟨h1, h2⟩ := h
      subst h1; subst h2
      exact ⟨List.Perm.refl _, hx⟩
    · split at h
      · simp at h
      · next g r' he =>
        simp only [Option.some.injEq, Prod.mk.injEq] at h
        obtain ⟨h1, h2⟩ := h
        subst h1; subst h2
        have := ih he
        exact ⟨(List.Perm.cons x this.1).trans (List.Perm.swap _ _ _), this.2⟩

theorem takeName_some_of_mem {k : Nat} : ∀ {l : List Name}, k ∈ l.map (·.k) →
    ∃ nm r, takeName k l = some (nm, r) := by
  intro l
  induction l with
  | nil => intro h; simp at h
  | cons x xs ih =>
    intro h
    unfold takeName
    by_cases hx : x.k = k
    · simp [hx]
    · simp only [hx, if_false]
      simp only [List.map_cons, List.mem_cons] at h
      rcases h with h | h
      · exact absurd h.symm hx
      · obtain ⟨nm, r, he⟩ := ih h
        rw [he]; exact ⟨_, _, rfl⟩

/-! ### tokens of a channel -/

def txF (c : Chan) : List Nat := c.tx.map (·.fid)
def dnF (c : Chan) : List Nat := c.reqOut.map (·.fid) ++ c.rspIn.map (·.rspTo)
def upKA (c : Chan) : List (Nat × Nat) :=
  c.reqIn.map (fun q => (q.id, q.src)) ++ c.tx.map (fun t => (t.orig.id, t.orig.src)) ++
  c.rspOut.map (fun o => (o.rspTo, o.dst))

/-- what an engine step may do to the tokens of a channel: the table changes exactly as the
    downstream side does, the upstream pairs are kept, no request id is consumed -/
structure ChRel (c c' : Chan) : Prop where
  dn : ∀ t, (txF c').count t + (dnF c).count t = (txF c).count t + (dnF c').count t
  up : ∀ p, (upKA c').count p = (upKA c).count p
  nextA : c'.nextA = c.nextA

theorem ChRel.refl (c : Chan) : ChRel c c := ⟨fun _ => rfl, fun _ => rfl, rfl⟩

theorem ChRel.trans {a b c : Chan} (h1 : ChRel a b) (h2 : ChRel b c) : ChRel a c :=
  ⟨fun t => by have := h1.dn t; have := h2.dn t; omega,
   fun p => (h2.up p).trans (h1.up p), h2.nextA.trans h1.nextA⟩

theorem chRel_fwdStep (route : Nat → Option Nat) (cap : Nat) (c : Chan) :
    ChRel c (fwdStep route cap c).1 := by
  unfold fwdStep
  split
  · exact ChRel.refl c
  · next r rest hin =>
    split
    · exact ⟨fun _ => rfl, fun _ => rfl, rfl⟩
    · split
      · exact ⟨fun _ => rfl, fun _ => rfl, rfl⟩
      · split
        · refine ⟨fun t => ?_, fun p => ?_, rfl⟩
          · simp only [txF, dnF, List.map_append, List.map_cons, List.map_nil, List.count_append,
              List.count_cons, List.count_nil]
            omega
          · simp only [upKA, hin, List.map_append, List.map_cons, List.map_nil, List.count_append,
              List.count_cons, List.count_nil]
            omega
        · exact ChRel.refl c

theorem chRel_rspStep (cap : Nat) (c : Chan) : ChRel c (rspStep cap c).1 := by
  unfold rspStep
  split
  · exact ChRel.refl c
  · next r rest hin =>
    split
    · exact ⟨fun _ => rfl, fun _ => rfl, rfl⟩
    · split
      · exact ⟨fun _ => rfl, fun _ => rfl, rfl⟩
      · next t tx' he =>
        split
        · have hp := extract_perm he
          refine ⟨fun x => ?_, fun p => ?_, rfl⟩
          · have h1 := (hp.1.map (·.fid)).count_eq x
            simp only [txF, dnF, hin, List.map_cons, List.count_append, List.count_cons] at h1 ⊢
            rw [h1, hp.2]
            omega
          · have h1 := (hp.1.map (fun t : Tx => (t.orig.id, t.orig.src))).count_eq p
            simp only [upKA, List.map_append, List.map_cons, List.map_nil, List.count_append,
              List.count_cons, List.count_nil] at h1 ⊢
            rw [h1]
            omega
        · exact ChRel.refl c

theorem chRel_l1Loop (route : Nat → Option Nat) (cap : Nat) :
    ∀ (n : Nat) (c : Chan) (p : Bool), ChRel c (l1Loop route cap n c p).1 := by
  intro n
  induction n with
  | zero => intro c p; exact ChRel.refl c
  | succ n ih =>
    intro c p
    unfold l1Loop
    split
    · exact ChRel.refl c
    · simp only
      split
      · exact (chRel_fwdStep route cap c).trans (ih _ _)
      · exact chRel_fwdStep route cap c

/-- what an engine step may do to the ghost histories of a channel: a clone enters the history
    of forwards exactly when it enters the outgoing buffer and its request leaves the port, an
    answer enters the history of answers exactly when it enters the outgoing buffer; the history of
    delivered replies is not touched; histories only grow -/
structure ChHist (c c' : Chan) : Prop where
  fwOut : ∀ o, (c'.fwd.map (·.out)).count o + c.reqOut.count o = (c.fwd.map (·.out)).count o + c'.reqOut.count o
  fwIn : ∀ q, c'.reqIn.count q + (c'.fwd.map (·.orig)).count q = c.reqIn.count q + (c.fwd.map (·.orig)).count q
  anOut : ∀ o, (c'.ans.map (·.out)).count o + c.rspOut.count o = (c.ans.map (·.out)).count o + c'.rspOut.count o
  del : c'.del = c.del
  fwdMono : ∀ f ∈ c.fwd, f ∈ c'.fwd
  ansMono : ∀ a ∈ c.ans, a ∈ c'.ans

theorem ChHist.refl (c : Chan) : ChHist c c :=
  ⟨fun _ => rfl, fun _ => rfl, fun _ => rfl, rfl, fun _ h => h, fun _ h => h⟩

theorem ChHist.trans {a b c : Chan} (h1 : ChHist a b) (h2 : ChHist b c) : ChHist a c :=
  ⟨fun o => by have := h1.fwOut o; have := h2.fwOut o; omega,
   fun q => by have := h1.fwIn q; have := h2.fwIn q; omega,
   fun o => by have := h1.anOut o; have := h2.anOut o; omega,
   h2.del.trans h1.del, fun f hf => h2.fwdMono f (h1.fwdMono f hf), fun x hx => h2.ansMono x (h1.ansMono x hx)⟩

theorem chHist_fwdStep (route : Nat → Option Nat) (cap : Nat) (c : Chan) :
    ChHist c (fwdStep route cap c).1 := by
  unfold fwdStep
  split
  · exact ChHist.refl c
  · next r rest hin =>
    split
    · exact ⟨fun _ => rfl, fun _ => rfl, fun _ => rfl, rfl, fun _ h => h, fun _ h => h⟩
    · split
      · exact ⟨fun _ => rfl, fun _ => rfl, fun _ => rfl, rfl, fun _ h => h, fun _ h => h⟩
      · split
        · refine ⟨fun o => ?_, fun q => ?_, fun _ => rfl, rfl, fun f hf => List.mem_cons_of_mem _ hf, fun _ h => h⟩
          · simp only [List.map_cons, List.count_cons, List.count_append, List.count_nil]
            omega
          · simp only [hin, List.map_cons, List.count_cons]
            omega
        · exact ChHist.refl c

theorem chHist_rspStep (cap : Nat) (c : Chan) : ChHist c (rspStep cap c).1 := by
  unfold rspStep
  split
  · exact ChHist.refl c
  · next r rest hin =>
    split
    · exact ⟨fun _ => rfl, fun _ => rfl, fun _ => rfl, rfl, fun _ h => h, fun _ h => h⟩
    · split
      · exact ⟨fun _ => rfl, fun _ => rfl, fun _ => rfl, rfl, fun _ h => h, fun _ h => h⟩
      · next t tx' he =>
        split
        · refine ⟨fun _ => rfl, fun _ => rfl, fun o => ?_, rfl, fun _ h => h, fun x hx => List.mem_cons_of_mem _ hx⟩
          simp only [List.map_cons, List.count_cons, List.count_append, List.count_nil]
          omega
        · exact ChHist.refl c

theorem chHist_l1Loop (route : Nat → Option Nat) (cap : Nat) :
    ∀ (n : Nat) (c : Chan) (p : Bool), ChHist c (l1Loop route cap n c p).1 := by
  intro n
  induction n with
  | zero => intro c p; exact ChHist.refl c
  | succ n ih =>
    intro c p
    unfold l1Loop
    split
    · exact ChHist.refl c
    · simp only
      split
      · exact (chHist_fwdStep route cap c).trans (ih _ _)
      · exact chHist_fwdStep route cap c

/-- both channels of an engine state -/
def StRel (s s' : St) : Prop :=
  (ChRel s.io s'.io ∧ ChRel s.oi s'.oi) ∧ (ChHist s.io s'.io ∧ ChHist s.oi s'.oi)

theorem stRel_dataPhase (c : Cfg) (s : St) : StRel s (dataPhase c s).1 := by
  unfold dataPhase
  simp only
  apply pres_iter (StRel s) _ (pres_guard (StRel s) _ ?_)
  · apply pres_iter (StRel s) _ (pres_guard (StRel s) _ ?_)
    · apply pres_iter (StRel s) _ (pres_guard (StRel s) _ ?_)
      · apply pres_iter (StRel s) _ (pres_guard (StRel s) _ ?_)
        · exact ⟨⟨ChRel.refl _, ChRel.refl _⟩, ⟨ChHist.refl _, ChHist.refl _⟩⟩
        · intro t ht
          unfold fromL1
          split
          · exact ht
          · exact ⟨⟨ht.1.1.trans (chRel_l1Loop _ _ _ _ _), ht.1.2⟩, ⟨ht.2.1.trans (chHist_l1Loop _ _ _ _ _), ht.2.2⟩⟩
      · intro t ht
        exact ⟨⟨ht.1.1, ht.1.2.trans (chRel_rspStep _ _)⟩, ⟨ht.2.1, ht.2.2.trans (chHist_rspStep _ _)⟩⟩
    · intro t ht
      exact ⟨⟨ht.1.1, ht.1.2.trans (chRel_fwdStep _ _ _)⟩, ⟨ht.2.1, ht.2.2.trans (chHist_fwdStep _ _ _)⟩⟩
  · intro t ht
    exact ⟨⟨ht.1.1.trans (chRel_rspStep _ _), ht.1.2⟩, ⟨ht.2.1.trans (chHist_rspStep _ _), ht.2.2⟩⟩

theorem stRel_tick (c : Cfg) (s : St) : StRel s (tick c s).1 := by
  unfold tick
  simp only
  have h := ctrlPhase_io c s
  have := stRel_dataPhase c (ctrlPhase c s).1
  unfold StRel at this ⊢
  rw [h.1, h.2] at this
  exact this

end C18
