import MgpuProofs.C09Held2
/-! # C09 — `HI` in every reachable state; no Go panic is reachable; held work-groups occupy disjoint
    resources; liveness without the "no fault" hypothesis -/
namespace C09

theorem consume_HI (i : Nat) : ∀ (ids : List Nat) (cp : CP), HI cp → cp.fault = none →
    HI (consume i ids cp).1 ∧ (consume i ids cp).1.fault = none := by
  intro ids
  induction ids with
  | nil => intro cp h hnf; exact ⟨h, hnf⟩
  | cons id ids ih =>
    intro cp h hnf
    simp only [consume]
    split
    · obtain ⟨a, b⟩ := completeOne_HI cp i id h hnf
      exact ih _ a b
    · exact ih cp h hnf

theorem procMsgs_HI (i : Nat) : ∀ (n : Nat) (cp : CP), HI cp → cp.fault = none →
    HI (procMsgs i n cp).1 ∧ (procMsgs i n cp).1.fault = none := by
  intro n
  induction n with
  | zero => intro cp h hnf; exact ⟨h, hnf⟩
  | succ n ih =>
    intro cp h hnf
    unfold procMsgs
    cases hcu : cp.cuIn with
    | nil => exact ⟨h, hnf⟩
    | cons ids rest =>
      simp only []
      obtain ⟨h1, f1⟩ := consume_HI i ids cp h hnf
      split
      · exact ⟨h, hnf⟩
      · split
        · exact ⟨h1, f1⟩
        · split
          · exact ih { (consume i ids cp).1 with cuIn := rest }
              (HI_frame _ _ h1 (fun _ => rfl) (fun _ => ⟨rfl, rfl⟩)) f1
          · exact ⟨HI_frame _ _ h1 (fun _ => rfl) (fun _ => ⟨rfl, rfl⟩), f1⟩

theorem completeKernel_HI (cp : CP) (i : Nat) (h : HI cp) (hnf : cp.fault = none) :
    HI (completeKernel cp i).1 ∧ (completeKernel cp i).1.fault = none := by
  unfold completeKernel
  cases hk : (cp.disp i).kern with
  | none => simp only [hk]; exact ⟨h, hnf⟩
  | some k =>
    simp only [hk]
    by_cases hr : cp.drvRoom = 0
    · simp only [hr, if_true]; exact ⟨h, hnf⟩
    · simp only [hr, if_false]
      exact ⟨HI_frame cp _ h (fun _ => rfl) (setDisp_holds _ i _ rfl rfl), hnf⟩

theorem dispTick_HI (caps : List (List Nat)) (cp : CP) (i : Nat) (hdc : DCI cp) (hinv : CPInv true caps cp)
    (h : HI cp) (hs : ∀ k, (cp.disp i).kern = some k → k.wx ≤ 1024) (hnf : cp.fault = none) :
    HI (dispTick cp i).1 ∧ (dispTick cp i).1.fault = none := by
  have key : ∀ r1 : CP × Bool, HI r1.1 → r1.1.fault = none →
      HI (if r1.1.fault.isSome then r1 else
        let r2 := procMsgs i 8 r1.1
        (r2.1, r1.2 || r2.2)).1 ∧
      (if r1.1.fault.isSome then r1 else
        let r2 := procMsgs i 8 r1.1
        (r2.1, r1.2 || r2.2)).1.fault = none := by
    intro r1 h1 f1
    have hf : ¬ r1.1.fault.isSome = true := by rw [f1]; simp
    simp only [hf]
    exact procMsgs_HI i 8 _ h1 f1
  unfold dispTick
  by_cases hc : (cp.disp i).cycleLeft > 0
  · simp only [hc, if_true]
    exact ⟨HI_frame cp _ h (fun _ => rfl) (setDisp_holds _ i _ rfl rfl), hnf⟩
  · simp only [hc, if_false]
    by_cases hks : (cp.disp i).kern.isSome = true
    · simp only [hks, if_true]
      by_cases hkc : kernelCompleted (cp.disp i) = true
      · simp only [hkc, if_true]
        obtain ⟨a, b⟩ := completeKernel_HI cp i h hnf
        exact key _ a b
      · simp only [hkc]
        obtain ⟨a, b⟩ := dispatchLoop_HI caps i 8 cp hdc hinv h hs hnf
        exact key _ a b
    · simp only [hks]; exact key (cp, false) h hnf

/-- the invariants of a reachable, fault-free state -/
structure Safe (caps : List (List Nat)) (cp : CP) : Prop where
  dci : DCI cp
  inv : CPInv true caps cp
  hi : HI cp
  kq : KQ (fun k => k.wx ≤ 1024) cp.view
  nf : cp.fault = none

theorem tickDispatchers_safe (caps : List (List Nat)) : ∀ (is : List Nat) (cp : CP), Safe caps cp →
    Safe caps (tickDispatchers is cp).1 := by
  intro is
  induction is with
  | nil => intro cp h; exact h
  | cons i is ih =>
    intro cp h
    simp only [tickDispatchers]
    have hf : ¬ cp.fault.isSome = true := by rw [h.nf]; simp
    simp only [hf]
    apply ih
    obtain ⟨a, b⟩ := dispTick_HI caps cp i h.dci h.inv h.hi (fun k hk => h.kq.2 i k hk) h.nf
    exact ⟨dispTick_DCI cp i h.dci, dispTick_inv true caps cp i h.inv, a,
      KQ_steps (dispTick_steps cp i h.dci) h.kq, b⟩

theorem handleLaunch_HI (cp : CP) (h : HI cp) (hnf : cp.fault = none) :
    HI (handleLaunch cp).1 ∧ (handleLaunch cp).1.fault = none := by
  unfold handleLaunch
  cases hdr : cp.drvIn with
  | nil => exact ⟨h, hnf⟩
  | cons k rest =>
    simp only []
    cases hfa : findAvailable cp.disps with
    | none => exact ⟨h, hnf⟩
    | some i =>
      simp only []
      have h1 : HI { cp with drvIn := rest } := HI_frame cp _ h (fun _ => rfl) (fun _ => ⟨rfl, rfl⟩)
      exact ⟨HI_frame _ _ h1 (fun _ => rfl) (setDisp_holds _ i _ rfl rfl), hnf⟩

theorem handleLaunch_safe (caps : List (List Nat)) (cp : CP) (h : Safe caps cp) :
    Safe caps (handleLaunch cp).1 := by
  obtain ⟨a, b⟩ := handleLaunch_HI cp h.hi h.nf
  exact ⟨handleLaunch_DCI cp h.dci, handleLaunch_inv true caps cp h.inv, a,
    KQ_steps (handleLaunch_steps cp) h.kq, b⟩

theorem cpTick_safe (caps : List (List Nat)) (cp : CP) (h : Safe caps cp) : Safe caps (cpTick cp).1 := by
  have h1 := tickDispatchers_safe caps (List.range cp.disps.length) cp h
  unfold cpTick
  have hf : ¬ (tickDispatchers (List.range cp.disps.length) cp).1.fault.isSome = true := by
    rw [h1.nf]; simp
  simp only [hf]
  exact handleLaunch_safe caps _ (handleLaunch_safe caps _ h1)

theorem step_safe (caps : List (List Nat)) (cp : CP) (op : Op) (h : Safe caps cp)
    (hop : ∀ k, op = .launch k → KernOK k ∧ k.wx ≤ 1024) : Safe caps (step cp op) := by
  cases op with
  | tick => exact cpTick_safe caps cp h
  | launch k =>
    refine ⟨h.dci, step_inv true caps cp (.launch k) h.inv (fun k' hk' => (hop k' hk').1),
      HI_frame cp _ h.hi (fun _ => rfl) (fun _ => ⟨rfl, rfl⟩), ?_, h.nf⟩
    refine ⟨?_, h.kq.2⟩
    intro k' hk'
    have hk' : k' ∈ cp.drvIn ++ [k] := hk'
    rcases List.mem_append.1 hk' with e | e
    · exact h.kq.1 k' e
    · simp only [List.mem_singleton] at e; subst e; exact (hop k' rfl).2
  | complete ids =>
    exact ⟨h.dci, step_inv true caps cp _ h.inv (fun k' hk' => by cases hk'),
      HI_frame cp _ h.hi (fun _ => rfl) (fun _ => ⟨rfl, rfl⟩), h.kq, h.nf⟩
  | cuRoom n =>
    exact ⟨h.dci, step_inv true caps cp _ h.inv (fun k' hk' => by cases hk'),
      HI_frame cp _ h.hi (fun _ => rfl) (fun _ => ⟨rfl, rfl⟩), h.kq, h.nf⟩
  | drvRoom n =>
    exact ⟨h.dci, step_inv true caps cp _ h.inv (fun k' hk' => by cases hk'),
      HI_frame cp _ h.hi (fun _ => rfl) (fun _ => ⟨rfl, rfl⟩), h.kq, h.nf⟩

theorem run_safe (caps : List (List Nat)) : ∀ (ops : List Op) (cp : CP), Safe caps cp →
    (∀ k, Op.launch k ∈ ops → KernOK k ∧ k.wx ≤ 1024) → Safe caps (run cp ops) := by
  intro ops
  induction ops with
  | nil => intro cp h _; exact h
  | cons op ops ih =>
    intro cp h hops
    show Safe caps (run (step cp op) ops)
    apply ih
    · exact step_safe caps cp op h (fun k hk => hops k (by rw [hk]; exact List.mem_cons_self))
    · intro k hk; exact hops k (List.mem_cons_of_mem _ hk)

theorem mkCP_safe (caps : List (List Nat)) (cfg : Cfg) (nd : Nat) (pool : List CU)
    (hempty : ∀ cu ∈ pool, cu.resident = []) (hp : PoolInv caps pool) : Safe caps (mkCP cfg nd pool) := by
  have hno : ∀ j dl, ¬ Holds (mkCP cfg nd pool) j dl := by
    intro j dl hh
    unfold Holds at hh
    rw [mkCP_disp] at hh
    rcases hh with ⟨r, hr⟩ | hr
    · cases hr
    · cases hr
  refine ⟨mkCP_DCI cfg nd pool, mkCP_inv true caps cfg nd pool hp (fun _ => hempty), ?_, mkCP_KQ _ cfg nd pool, rfl⟩
  refine ⟨fun j dl hh => absurd hh (hno j dl), fun j j' dl dl' hh => absurd hh (hno j dl), ?_⟩
  intro j
  unfold Disp.keys
  rw [mkCP_disp]
  exact ⟨List.nodup_nil, by intro dl hdl; cases hdl⟩

/-- **every reachable state is safe** -/
theorem safe_run (caps : List (List Nat)) (cfg : Cfg) (nd : Nat) (pool : List CU) (ops : List Op)
    (hempty : ∀ cu ∈ pool, cu.resident = []) (hp : PoolInv caps pool)
    (hops : ∀ k, Op.launch k ∈ ops → KernOK k ∧ k.wx ≤ 1024) : Safe caps (run (mkCP cfg nd pool) ops) :=
  run_safe caps ops _ (mkCP_safe caps cfg nd pool hempty hp) hops

/-! ## disjointness of what two holders hold -/

theorem pairwise_flatMap_ne {α β : Type} (R : β → β → Prop) (hsym : ∀ x y, R x y → R y x) (f : α → List β) :
    ∀ (l : List α), (l.flatMap f).Pairwise R → ∀ a ∈ l, ∀ b ∈ l, a ≠ b → ∀ x ∈ f a, ∀ y ∈ f b, R x y := by
  intro l
  induction l with
  | nil => intro _ a ha; cases ha
  | cons h t ih =>
    intro hp a ha b hb hab x hx y hy
    rw [List.flatMap_cons, List.pairwise_append] at hp
    obtain ⟨_, p2, p3⟩ := hp
    rcases List.mem_cons.1 ha with ea | ea <;> rcases List.mem_cons.1 hb with eb | eb
    · exact absurd (ea.trans eb.symm) hab
    · subst ea; exact p3 x hx y (List.mem_flatMap.2 ⟨b, eb, hy⟩)
    · subst eb; exact hsym _ _ (p3 y hy x (List.mem_flatMap.2 ⟨a, ea, hx⟩))
    · exact ih p2 a ea b eb hab x hx y hy

/-- two different resident entries of a CU occupy disjoint SGPR, LDS and (per SIMD) VGPR unit regions
    in every limited mask -/
theorem residents_disjoint (cap : List Nat) (cu : CU) (hinv : Inv cap cu) (e e' : Nat × Dem × List Loc)
    (he : e ∈ cu.resident) (he' : e' ∈ cu.resident) (hne : e ≠ e') :
    (∀ m, cu.smask = .lim m → ∀ l ∈ e.2.2, ∀ l' ∈ e'.2.2,
      disj (l.soff / 64, units e.2.1.s sGran) (l'.soff / 64, units e'.2.1.s sGran)) ∧
    (∀ m, cu.lmask = .lim m → ∀ l ∈ e.2.2, ∀ l' ∈ e'.2.2,
      disj (l.loff / 256, units e.2.1.l lGran) (l'.loff / 256, units e'.2.1.l lGran)) ∧
    (∀ k (hk : k < cu.vmasks.length) m, cu.vmasks[k] = .lim m → ∀ l ∈ e.2.2, ∀ l' ∈ e'.2.2,
      l.simd = k → l'.simd = k →
      disj (l.voff / 16, units e.2.1.v vGran) (l'.voff / 16, units e'.2.1.v vGran)) := by
  have hsym : ∀ x y : Nat × Nat, (∀ i, ¬ (inR x i ∧ inR y i)) → (∀ i, ¬ (inR y i ∧ inR x i)) :=
    fun x y h i hi => h i ⟨hi.2, hi.1⟩
  refine ⟨?_, ?_, ?_⟩
  · intro m hm l hl l' hl'
    have hok := hinv.sOK
    rw [hm] at hok
    have hp := hok.2.2
    unfold sRegions at hp
    exact pairwise_flatMap_ne _ hsym _ _ hp e he e' he' hne _ (List.mem_map.2 ⟨l, hl, rfl⟩) _
      (List.mem_map.2 ⟨l', hl', rfl⟩)
  · intro m hm l hl l' hl'
    have hok := hinv.lOK
    rw [hm] at hok
    have hp := hok.2.2
    unfold lRegions at hp
    -- every wavefront of a group carries the group's LDS offset
    have hfirst : ∀ (x : Nat × Dem × List Loc), x ∈ cu.resident → ∀ l ∈ x.2.2,
        (l.loff / 256, units x.2.1.l lGran) ∈
          (match x.2.2 with | [] => [] | l :: _ => [(l.loff / 256, units x.2.1.l lGran)]) := by
      intro x hx l hl
      cases hxl : x.2.2 with
      | nil => rw [hxl] at hl; cases hl
      | cons l0 ls =>
        simp only [List.mem_singleton]
        have := hinv.sameL x hx l hl l0 (by rw [hxl]; exact List.mem_cons_self)
        rw [this]
    exact pairwise_flatMap_ne _ hsym _ _ hp e he e' he' hne _ (hfirst e he l hl) _ (hfirst e' he' l' hl')
  · intro k hk m hm l hl l' hl' hs hs'
    have hok := hinv.vOK k hk
    rw [hm] at hok
    have hp := hok.2.2
    unfold vRegions at hp
    exact pairwise_flatMap_ne _ hsym _ _ hp e he e' he' hne _
      (List.mem_map.2 ⟨l, List.mem_filter.2 ⟨hl, by simp [hs]⟩, rfl⟩) _
      (List.mem_map.2 ⟨l', List.mem_filter.2 ⟨hl', by simp [hs']⟩, rfl⟩)

/-- **liveness without the "no fault" hypothesis** (helper form) -/
theorem fair_run_answers_safe (caps : List (List Nat)) (cfg : Cfg) (nd : Nat) (pool : List CU)
    (ops0 : List Op) (sched : Nat → Op) (hnd : 0 < nd)
    (hempty : ∀ cu ∈ pool, cu.resident = []) (hp : PoolInv caps pool)
    (hops : ∀ k, .launch k ∈ ops0 → KernOK k ∧ k.wx ≤ 1024 ∧ KernFits caps (pool.map CU.shapes) k)
    (hnl : ∀ n k, sched n ≠ .launch k)
    (hfair : ∀ n, ∃ m, n ≤ m ∧ sched m = .tick ∧ EnvReady (run (mkCP cfg nd pool) (ops0 ++ prefixOf sched m))) :
    ∃ N, AllAnswered (run (mkCP cfg nd pool) (ops0 ++ prefixOf sched N)) := by
  apply fair_run_answers_fits caps cfg nd pool ops0 sched hnd hempty hp
    (fun k hk => ⟨(hops k hk).1, (hops k hk).2.2⟩) hnl _ hfair
  intro n
  refine (safe_run caps cfg nd pool _ hempty hp ?_).nf
  intro k hk
  rcases List.mem_append.1 hk with h | h
  · exact ⟨(hops k h).1, (hops k h).2.1⟩
  · exfalso
    simp only [prefixOf, List.mem_map] at h
    obtain ⟨m, _, hm⟩ := h
    exact hnl m k hm

end C09
