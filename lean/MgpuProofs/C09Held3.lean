import MgpuProofs.C09Held2
import MgpuProofs.C09Rej
/-! # C09 — `HI` in every reachable state; no Go panic is reachable; held work-groups occupy disjoint
    resources; liveness without the "no fault" hypothesis -/
namespace C09

theorem consume_HI (i : Nat) : ∀ (ids : List Nat) (cp : CP), HI cp → cp.fault = none →
    HI (consume i ids cp).1 ∧ (consume i ids cp).1.fault = none := by
  intro ids
  induction ids with
  | nil => intro cp h hnf; exact ⟨h, hnf⟩
  | cons id ids ih =>
    intro cp h hnf
    simp only [consume]
    split
    · obtain ⟨a, b⟩ := completeOne_HI cp i id h hnf
      exact ih _ a b
    · exact ih cp h hnf

theorem procMsgs_HI (i : Nat) : ∀ (n : Nat) (cp : CP), HI cp → cp.fault = none →
    HI (procMsgs i n cp).1 ∧ (procMsgs i n cp).1.fault = none := by
  intro n
  induction n with
  | zero => intro cp h hnf; exact ⟨h, hnf⟩
  | succ n ih =>
    intro cp h hnf
    unfold procMsgs
    cases hcu : cp.cuIn with
    | nil => exact ⟨h, hnf⟩
    | cons ids rest =>
      simp only []
      obtain ⟨h1, f1⟩ := consume_HI i ids cp h hnf
      split
      · exact ⟨h, hnf⟩
      · split
        · exact ⟨h1, f1⟩
        · split
          · exact ih { (consume i ids cp).1 with cuIn := rest }
              (HI_frame _ _ h1 (fun _ => rfl) (fun _ => ⟨rfl, rfl⟩)) f1
          · exact ⟨HI_frame _ _ h1 (fun _ => rfl) (fun _ => ⟨rfl, rfl⟩), f1⟩

theorem completeKernel_HI (cp : CP) (i : Nat) (h : HI cp) (hnf : cp.fault = none) :
    HI (completeKernel cp i).1 ∧ (completeKernel cp i).1.fault = none := by
  unfold completeKernel
  cases hk : (cp.disp i).kern with
  | none => simp only [hk]; exact ⟨h, hnf⟩
  | some k =>
    simp only [hk]
    by_cases hr : cp.drvRoom = 0
    · simp only [hr, if_true]; exact ⟨h, hnf⟩
    · simp only [hr, if_false]
      exact ⟨HI_frame cp _ h (fun _ => rfl) (setDisp_holds _ i _ rfl rfl), hnf⟩

theorem dispTick_HI (caps : List (List Nat)) (cp : CP) (i : Nat) (hdc : DCI cp) (hinv : CPInv true caps cp)
    (h : HI cp) (hs : ∀ k, (cp.disp i).kern = some k → k.wx ≤ 1024) (hnf : cp.fault = none) :
    HI (dispTick cp i).1 ∧ (dispTick cp i).1.fault = none := by
  have key : ∀ r1 : CP × Bool, HI r1.1 → r1.1.fault = none →
      HI (if r1.1.fault.isSome then r1 else
        let r2 := procMsgs i 8 r1.1
        (r2.1, r1.2 || r2.2)).1 ∧
      (if r1.1.fault.isSome then r1 else
        let r2 := procMsgs i 8 r1.1
        (r2.1, r1.2 || r2.2)).1.fault = none := by
    intro r1 h1 f1
    have hf : ¬ r1.1.fault.isSome = true := by rw [f1]; simp
    simp only [hf]
    exact procMsgs_HI i 8 _ h1 f1
  unfold dispTick
  by_cases hc : (cp.disp i).cycleLeft > 0
  · simp only [hc, if_true]
    exact ⟨HI_frame cp _ h (fun _ => rfl) (setDisp_holds _ i _ rfl rfl), hnf⟩
  · simp only [hc, if_false]
    by_cases hks : (cp.disp i).kern.isSome = true
    · simp only [hks, if_true]
      by_cases hkc : kernelCompleted (cp.disp i) = true
      · simp only [hkc, if_true]
        obtain ⟨a, b⟩ := completeKernel_HI cp i h hnf
        exact key _ a b
      · simp only [hkc]
        obtain ⟨a, b⟩ := dispatchLoop_HI caps i 8 cp hdc hinv h hs hnf
        exact key _ a b
    · simp only [hks]; exact key (cp, false) h hnf

/-- the invariants of a reachable state: no Go panic of the bookkeeping was hit — the only fault that
    can be present is the deliberate rejection of an oversize launch, which changes nothing else -/
structure Safe (caps : List (List Nat)) (cp : CP) : Prop where
  dci : DCI cp
  inv : CPInv true caps cp
  hi : HI cp
  kq : KQ (fun k => k.wx ≤ 1024) cp.view
  nf : cp.fault = none ∨ cp.fault = some "oversize"

theorem Safe.notTwice {caps : List (List Nat)} {cp : CP} (h : Safe caps cp) : cp.fault ≠ some "twice" := by
  rcases h.nf with e | e <;> rw [e] <;> simp

theorem tickDispatchers_faulted : ∀ (is : List Nat) (cp : CP), cp.fault.isSome = true →
    (tickDispatchers is cp).1 = cp := by
  intro is cp hf
  cases is with
  | nil => rfl
  | cons i is => simp only [tickDispatchers, hf, if_true]

/-- from a fault-free state the dispatchers' ticks raise no fault -/
theorem tickDispatchers_safe_nf (caps : List (List Nat)) : ∀ (is : List Nat) (cp : CP), Safe caps cp →
    cp.fault = none → Safe caps (tickDispatchers is cp).1 ∧ (tickDispatchers is cp).1.fault = none := by
  intro is
  induction is with
  | nil => intro cp h hnf; exact ⟨h, hnf⟩
  | cons i is ih =>
    intro cp h hnf
    simp only [tickDispatchers]
    have hf : ¬ cp.fault.isSome = true := by rw [hnf]; simp
    simp only [hf]
    obtain ⟨a, b⟩ := dispTick_HI caps cp i h.dci h.inv h.hi (fun k hk => h.kq.2 i k hk) hnf
    exact ih _ ⟨dispTick_DCI cp i h.dci, dispTick_inv true caps cp i h.inv, a,
      KQ_steps (dispTick_steps cp i h.dci) h.kq, Or.inl b⟩ b

theorem tickDispatchers_safe (caps : List (List Nat)) (is : List Nat) (cp : CP) (h : Safe caps cp) :
    Safe caps (tickDispatchers is cp).1 := by
  rcases h.nf with e | e
  · exact (tickDispatchers_safe_nf caps is cp h e).1
  · rw [tickDispatchers_faulted is cp (by rw [e]; rfl)]; exact h

theorem handleLaunchOld_fault (cp : CP) : (handleLaunchOld cp).1.fault = cp.fault := by
  unfold handleLaunchOld
  cases cp.drvIn with
  | nil => rfl
  | cons k rest =>
    cases findAvailable cp.disps with
    | none => rfl
    | some i => rfl

theorem handleLaunch_HI (cp : CP) (h : HI cp) : HI (handleLaunch cp).1 := by
  refine handleLaunch_ind (P := HI) cp ?_ (HI_frame cp _ h (fun _ => rfl) (fun _ => ⟨rfl, rfl⟩))
  unfold handleLaunchOld
  cases hdr : cp.drvIn with
  | nil => exact h
  | cons k rest =>
    simp only []
    cases hfa : findAvailable cp.disps with
    | none => exact h
    | some i =>
      simp only []
      have h1 : HI { cp with drvIn := rest } := HI_frame cp _ h (fun _ => rfl) (fun _ => ⟨rfl, rfl⟩)
      exact HI_frame _ _ h1 (fun _ => rfl) (setDisp_holds _ i _ rfl rfl)

theorem handleLaunch_safe (caps : List (List Nat)) (cp : CP) (h : Safe caps cp) :
    Safe caps (handleLaunch cp).1 := by
  refine ⟨handleLaunch_DCI cp h.dci, handleLaunch_inv true caps cp h.inv h.notTwice, handleLaunch_HI cp h.hi,
    KQ_steps (handleLaunch_steps cp) h.kq, ?_⟩
  rcases handleLaunch_fault cp with e | e
  · rw [e]; exact h.nf
  · exact Or.inr e

theorem cpTick_safe (caps : List (List Nat)) (cp : CP) (h : Safe caps cp) : Safe caps (cpTick cp).1 := by
  have h1 := tickDispatchers_safe caps (List.range cp.disps.length) cp h
  unfold cpTick
  by_cases hf : (tickDispatchers (List.range cp.disps.length) cp).1.fault.isSome = true
  · simp only [hf, if_true]; exact h1
  · simp only [hf]
    exact handleLaunch_safe caps _ (handleLaunch_safe caps _ h1)

theorem step_safe (caps : List (List Nat)) (cp : CP) (op : Op) (h : Safe caps cp)
    (hop : ∀ k, op = .launch k → KernOK k ∧ k.wx ≤ 1024) : Safe caps (step cp op) := by
  cases op with
  | tick => exact cpTick_safe caps cp h
  | launch k =>
    refine ⟨h.dci, step_inv true caps cp (.launch k) h.inv (fun k' hk' => (hop k' hk').1),
      HI_frame cp _ h.hi (fun _ => rfl) (fun _ => ⟨rfl, rfl⟩), ?_, h.nf⟩
    refine ⟨?_, h.kq.2⟩
    intro k' hk'
    have hk' : k' ∈ cp.drvIn ++ [k] := hk'
    rcases List.mem_append.1 hk' with e | e
    · exact h.kq.1 k' e
    · simp only [List.mem_singleton] at e; subst e; exact (hop k' rfl).2
  | complete ids =>
    exact ⟨h.dci, step_inv true caps cp _ h.inv (fun k' hk' => by cases hk'),
      HI_frame cp _ h.hi (fun _ => rfl) (fun _ => ⟨rfl, rfl⟩), h.kq, h.nf⟩
  | cuRoom n =>
    exact ⟨h.dci, step_inv true caps cp _ h.inv (fun k' hk' => by cases hk'),
      HI_frame cp _ h.hi (fun _ => rfl) (fun _ => ⟨rfl, rfl⟩), h.kq, h.nf⟩
  | drvRoom n =>
    exact ⟨h.dci, step_inv true caps cp _ h.inv (fun k' hk' => by cases hk'),
      HI_frame cp _ h.hi (fun _ => rfl) (fun _ => ⟨rfl, rfl⟩), h.kq, h.nf⟩

theorem run_safe (caps : List (List Nat)) : ∀ (ops : List Op) (cp : CP), Safe caps cp →
    (∀ k, Op.launch k ∈ ops → KernOK k ∧ k.wx ≤ 1024) → Safe caps (run cp ops) := by
  intro ops
  induction ops with
  | nil => intro cp h _; exact h
  | cons op ops ih =>
    intro cp h hops
    show Safe caps (run (step cp op) ops)
    apply ih
    · exact step_safe caps cp op h (fun k hk => hops k (by rw [hk]; exact List.mem_cons_self))
    · intro k hk; exact hops k (List.mem_cons_of_mem _ hk)

theorem mkCP_safe (caps : List (List Nat)) (cfg : Cfg) (nd : Nat) (pool : List CU)
    (hempty : ∀ cu ∈ pool, cu.resident = []) (hp : PoolInv caps pool) : Safe caps (mkCP cfg nd pool) := by
  have hno : ∀ j dl, ¬ Holds (mkCP cfg nd pool) j dl := by
    intro j dl hh
    unfold Holds at hh
    rw [mkCP_disp] at hh
    rcases hh with ⟨r, hr⟩ | hr
    · cases hr
    · cases hr
  refine ⟨mkCP_DCI cfg nd pool, mkCP_inv true caps cfg nd pool hp (fun _ => hempty), ?_, mkCP_KQ _ cfg nd pool,
    Or.inl rfl⟩
  refine ⟨fun j dl hh => absurd hh (hno j dl), fun j j' dl dl' hh => absurd hh (hno j dl), ?_⟩
  intro j
  unfold Disp.keys
  rw [mkCP_disp]
  exact ⟨List.nodup_nil, by intro dl hdl; cases hdl⟩

/-- **every reachable state is safe** -/
theorem safe_run (caps : List (List Nat)) (cfg : Cfg) (nd : Nat) (pool : List CU) (ops : List Op)
    (hempty : ∀ cu ∈ pool, cu.resident = []) (hp : PoolInv caps pool)
    (hops : ∀ k, Op.launch k ∈ ops → KernOK k ∧ k.wx ≤ 1024) : Safe caps (run (mkCP cfg nd pool) ops) :=
  run_safe caps ops _ (mkCP_safe caps cfg nd pool hempty hp) hops

/-! ## every dispatching kernel passed the fit check; kernels that fit are never rejected -/

/-- every resident work-group is held by a dispatcher, for that CU (`TI.tied` without its no-fault premise) -/
def Tied (cp : CP) : Prop :=
  ∀ c, ∀ e ∈ (cp.pool.getD c default).resident, ∃ j dl, dl.cu = c ∧ dl.key = e.1 ∧ Holds cp j dl

theorem handleLaunch_tied {S} (cp : CP) (h : TI S cp) (hnf : cp.fault = none) : Tied (handleLaunch cp).1 := by
  refine handleLaunch_ind (P := Tied) cp ?_ (h.tied hnf)
  have h' : TI S (handleLaunchOld cp).1 := by
    -- the pinned function keeps `TI` (same proof as for `handleLaunch`)
    unfold handleLaunchOld
    cases hdr : cp.drvIn with
    | nil => exact h
    | cons k rest =>
      simp only []
      cases hfa : findAvailable cp.disps with
      | none => exact h
      | some i =>
        simp only []
        have h1 : TI S { cp with drvIn := rest } := TI_frame cp _ h rfl (fun x => x) (fun j => ⟨rfl, rfl⟩)
        exact TI_frame _ _ h1 rfl (fun x => x) (setDisp_holds _ i _ rfl rfl)
  exact h'.tied (by rw [handleLaunchOld_fault]; exact hnf)

theorem cpTick_faulted (cp : CP) (hf : cp.fault.isSome = true) : (cpTick cp).1 = cp := by
  have e : (tickDispatchers (List.range cp.disps.length) cp).1 = cp := tickDispatchers_faulted _ cp hf
  have hf' : (tickDispatchers (List.range cp.disps.length) cp).1.fault.isSome = true := by rw [e]; exact hf
  unfold cpTick
  simp only [hf', if_true]
  exact e

theorem cpTick_tied {S} (caps : List (List Nat)) (cp : CP) (hs : Safe caps cp) (ht : TI S cp) (h : Tied cp) :
    Tied (cpTick cp).1 := by
  rcases hs.nf with hnf | hnf
  · obtain ⟨s1, f1⟩ := tickDispatchers_safe_nf caps (List.range cp.disps.length) cp hs hnf
    have t1 := tickDispatchers_TI (List.range cp.disps.length) cp hs.dci ht
    have d2 := handleLaunch_tied _ t1 f1
    have t2 := handleLaunch_TI _ t1
    unfold cpTick
    have hf : ¬ (tickDispatchers (List.range cp.disps.length) cp).1.fault.isSome = true := by rw [f1]; simp
    simp only [hf, Bool.false_eq_true, if_false]
    rcases handleLaunch_fault (tickDispatchers (List.range cp.disps.length) cp).1 with e | e
    · exact handleLaunch_tied _ t2 (by rw [e]; exact f1)
    · rw [handleLaunch_fault_idem _ e f1]; exact d2
  · rw [cpTick_faulted cp (by rw [hnf]; rfl)]; exact h

/-- reachable-state invariants with the mask shapes `S` of the registered CUs: safe, residents tied to
    holders, and every kernel a dispatcher is working on has `KernFits` (each of its work-groups fits
    some CU of the pool when that CU is empty) — because `StartDispatching` checked its first work-group -/
structure Acc (caps : List (List Nat)) (S : List (Option Nat × List (Option Nat) × Option Nat)) (cp : CP) :
    Prop where
  safe : Safe caps cp
  ti : TI S cp
  kd : KD (KernFits caps S) cp.view
  /-- every resident work-group is held by a dispatcher — also in a state that carries the fault
      "oversize" (a rejection changes nothing but the fault) -/
  tied : Tied cp

theorem cpTick_acc {S} (caps : List (List Nat)) (cp : CP) (h : Acc caps S cp) : Acc caps S (cpTick cp).1 := by
  refine ⟨cpTick_safe caps cp h.safe, cpTick_TI cp h.safe.dci h.ti, ?_, cpTick_tied caps cp h.safe h.ti h.tied⟩
  have s1 := tickDispatchers_safe caps (List.range cp.disps.length) cp h.safe
  have t1 := tickDispatchers_TI (List.range cp.disps.length) cp h.safe.dci h.ti
  have k1 := tickDispatchers_KD (Q := KernFits caps S) (List.range cp.disps.length) cp h.safe.dci h.kd
  unfold cpTick
  by_cases hf : (tickDispatchers (List.range cp.disps.length) cp).1.fault.isSome = true
  · simp only [hf, if_true]; exact k1
  · simp only [hf]
    have k2 := handleLaunch_KD caps S _ (s1.inv.pool s1.notTwice) t1.shapes s1.inv.drv k1
    have s2 := handleLaunch_safe caps _ s1
    have t2 := handleLaunch_TI _ t1
    exact handleLaunch_KD caps S _ (s2.inv.pool s2.notTwice) t2.shapes s2.inv.drv k2

theorem step_acc {S} (caps : List (List Nat)) (cp : CP) (op : Op) (h : Acc caps S cp)
    (hop : ∀ k, op = .launch k → KernOK k ∧ k.wx ≤ 1024) : Acc caps S (step cp op) := by
  cases op with
  | tick => exact cpTick_acc caps cp h
  | launch k => exact ⟨step_safe caps cp _ h.safe hop, step_TI cp _ h.safe.dci h.ti, h.kd, h.tied⟩
  | complete ids => exact ⟨step_safe caps cp _ h.safe hop, step_TI cp _ h.safe.dci h.ti, h.kd, h.tied⟩
  | cuRoom n => exact ⟨step_safe caps cp _ h.safe hop, step_TI cp _ h.safe.dci h.ti, h.kd, h.tied⟩
  | drvRoom n => exact ⟨step_safe caps cp _ h.safe hop, step_TI cp _ h.safe.dci h.ti, h.kd, h.tied⟩

theorem run_acc {S} (caps : List (List Nat)) : ∀ (ops : List Op) (cp : CP), Acc caps S cp →
    (∀ k, Op.launch k ∈ ops → KernOK k ∧ k.wx ≤ 1024) → Acc caps S (run cp ops) := by
  intro ops
  induction ops with
  | nil => intro cp h _; exact h
  | cons op ops ih =>
    intro cp h hops
    show Acc caps S (run (step cp op) ops)
    apply ih
    · exact step_acc caps cp op h (fun k hk => hops k (by rw [hk]; exact List.mem_cons_self))
    · intro k hk; exact hops k (List.mem_cons_of_mem _ hk)

/-- **in every reachable state every dispatching kernel passed the fit check** -/
theorem acc_run (caps : List (List Nat)) (cfg : Cfg) (nd : Nat) (pool : List CU) (ops : List Op)
    (hempty : ∀ cu ∈ pool, cu.resident = []) (hp : PoolInv caps pool)
    (hops : ∀ k, Op.launch k ∈ ops → KernOK k ∧ k.wx ≤ 1024) :
    Acc caps (pool.map CU.shapes) (run (mkCP cfg nd pool) ops) :=
  run_acc caps ops _ ⟨mkCP_safe caps cfg nd pool hempty hp, mkCP_TI cfg nd pool hempty,
    (mkCP_KQ _ cfg nd pool).kd, (mkCP_TI cfg nd pool hempty).tied rfl⟩ hops

/-- a tick of a fault-free reachable state in which every queued launch fits raises no fault -/
theorem cpTick_fits_nofault {S} (caps : List (List Nat)) (cp : CP) (h : Acc caps S cp)
    (hq : KQ (KernFits caps S) cp.view) (hnf : cp.fault = none) : (cpTick cp).1.fault = none := by
  obtain ⟨s1, f1⟩ := tickDispatchers_safe_nf caps (List.range cp.disps.length) cp h.safe hnf
  have t1 := tickDispatchers_TI (List.range cp.disps.length) cp h.safe.dci h.ti
  have q1 := KQ_steps (tickDispatchers_steps (List.range cp.disps.length) cp h.safe.dci) hq
  unfold cpTick
  have hf : ¬ (tickDispatchers (List.range cp.disps.length) cp).1.fault.isSome = true := by rw [f1]; simp
  simp only [hf, Bool.false_eq_true, if_false]
  have e1 := handleLaunch_of_kernFits caps S _ (s1.inv.pool s1.notTwice) t1.shapes
    (fun k hk => ⟨s1.inv.drv k hk, q1.1 k hk⟩)
  have s2 := handleLaunch_safe caps _ s1
  have t2 := handleLaunch_TI _ t1
  have q2 := KQ_steps (handleLaunch_steps (tickDispatchers (List.range cp.disps.length) cp).1) q1
  have f2 : (handleLaunch (tickDispatchers (List.range cp.disps.length) cp).1).1.fault = none := by
    rw [e1, handleLaunchOld_fault]; exact f1
  have e2 := handleLaunch_of_kernFits caps S _ (s2.inv.pool s2.notTwice) t2.shapes
    (fun k hk => ⟨s2.inv.drv k hk, q2.1 k hk⟩)
  rw [e2, handleLaunchOld_fault]; exact f2

theorem run_fits_nofault_aux {S} (caps : List (List Nat)) : ∀ (ops : List Op) (cp : CP), Acc caps S cp →
    KQ (KernFits caps S) cp.view → cp.fault = none →
    (∀ k, Op.launch k ∈ ops → KernOK k ∧ k.wx ≤ 1024 ∧ KernFits caps S k) → (run cp ops).fault = none := by
  intro ops
  induction ops with
  | nil => intro cp _ _ hnf _; exact hnf
  | cons op ops ih =>
    intro cp h hq hnf hops
    show (run (step cp op) ops).fault = none
    have hop : ∀ k, op = .launch k → KernOK k ∧ k.wx ≤ 1024 := fun k hk =>
      ⟨(hops k (by rw [hk]; exact List.mem_cons_self)).1, (hops k (by rw [hk]; exact List.mem_cons_self)).2.1⟩
    have hq' : KQ (KernFits caps S) (step cp op).view :=
      run_KQ [op] cp h.safe.dci (fun k hk => by
        have : op = .launch k := (List.mem_singleton.1 hk).symm
        exact (hops k (by rw [this]; exact List.mem_cons_self)).2.2) hq
    apply ih _ (step_acc caps cp op h hop) hq' ?_ (fun k hk => hops k (List.mem_cons_of_mem _ hk))
    cases op with
    | tick => exact cpTick_fits_nofault caps cp h hq hnf
    | launch k => exact hnf
    | complete ids => exact hnf
    | cuRoom n => exact hnf
    | drvRoom n => exact hnf

/-- **kernels that fit are never rejected, and no other Go panic is reachable**: pool initially
    without residents, every launched kernel well formed, at most 1024 work-items per group, every
    work-group fits some CU — then no state of any run carries a fault -/
theorem run_fits_nofault (caps : List (List Nat)) (cfg : Cfg) (nd : Nat) (pool : List CU)
    (hempty : ∀ cu ∈ pool, cu.resident = []) (hp : PoolInv caps pool) (ops : List Op)
    (hops : ∀ k, Op.launch k ∈ ops → KernOK k ∧ k.wx ≤ 1024 ∧ KernFits caps (pool.map CU.shapes) k) :
    (run (mkCP cfg nd pool) ops).fault = none :=
  run_fits_nofault_aux caps ops _ ⟨mkCP_safe caps cfg nd pool hempty hp, mkCP_TI cfg nd pool hempty,
    (mkCP_KQ _ cfg nd pool).kd, (mkCP_TI cfg nd pool hempty).tied rfl⟩ (mkCP_KQ _ cfg nd pool) rfl hops

/-! ## disjointness of what two holders hold -/

theorem pairwise_flatMap_ne {α β : Type} (R : β → β → Prop) (hsym : ∀ x y, R x y → R y x) (f : α → List β) :
    ∀ (l : List α), (l.flatMap f).Pairwise R → ∀ a ∈ l, ∀ b ∈ l, a ≠ b → ∀ x ∈ f a, ∀ y ∈ f b, R x y := by
  intro l
  induction l with
  | nil => intro _ a ha; cases ha
  | cons h t ih =>
    intro hp a ha b hb hab x hx y hy
    rw [List.flatMap_cons, List.pairwise_append] at hp
    obtain ⟨_, p2, p3⟩ := hp
    rcases List.mem_cons.1 ha with ea | ea <;> rcases List.mem_cons.1 hb with eb | eb
    · exact absurd (ea.trans eb.symm) hab
    · subst ea; exact p3 x hx y (List.mem_flatMap.2 ⟨b, eb, hy⟩)
    · subst eb; exact hsym _ _ (p3 y hy x (List.mem_flatMap.2 ⟨a, ea, hx⟩))
    · exact ih p2 a ea b eb hab x hx y hy

/-- two different resident entries of a CU occupy disjoint SGPR, LDS and (per SIMD) VGPR unit regions
    in every limited mask -/
theorem residents_disjoint (cap : List Nat) (cu : CU) (hinv : Inv cap cu) (e e' : Nat × Dem × List Loc)
    (he : e ∈ cu.resident) (he' : e' ∈ cu.resident) (hne : e ≠ e') :
    (∀ m, cu.smask = .lim m → ∀ l ∈ e.2.2, ∀ l' ∈ e'.2.2,
      disj (l.soff / 64, units e.2.1.s sGran) (l'.soff / 64, units e'.2.1.s sGran)) ∧
    (∀ m, cu.lmask = .lim m → ∀ l ∈ e.2.2, ∀ l' ∈ e'.2.2,
      disj (l.loff / 256, units e.2.1.l lGran) (l'.loff / 256, units e'.2.1.l lGran)) ∧
    (∀ k (hk : k < cu.vmasks.length) m, cu.vmasks[k] = .lim m → ∀ l ∈ e.2.2, ∀ l' ∈ e'.2.2,
      l.simd = k → l'.simd = k →
      disj (l.voff / 16, units e.2.1.v vGran) (l'.voff / 16, units e'.2.1.v vGran)) := by
  have hsym : ∀ x y : Nat × Nat, (∀ i, ¬ (inR x i ∧ inR y i)) → (∀ i, ¬ (inR y i ∧ inR x i)) :=
    fun x y h i hi => h i ⟨hi.2, hi.1⟩
  refine ⟨?_, ?_, ?_⟩
  · intro m hm l hl l' hl'
    have hok := hinv.sOK
    rw [hm] at hok
    have hp := hok.2.2
    unfold sRegions at hp
    exact pairwise_flatMap_ne _ hsym _ _ hp e he e' he' hne _ (List.mem_map.2 ⟨l, hl, rfl⟩) _
      (List.mem_map.2 ⟨l', hl', rfl⟩)
  · intro m hm l hl l' hl'
    have hok := hinv.lOK
    rw [hm] at hok
    have hp := hok.2.2
    unfold lRegions at hp
    -- every wavefront of a group carries the group's LDS offset
    have hfirst : ∀ (x : Nat × Dem × List Loc), x ∈ cu.resident → ∀ l ∈ x.2.2,
        (l.loff / 256, units x.2.1.l lGran) ∈
          (match x.2.2 with | [] => [] | l :: _ => [(l.loff / 256, units x.2.1.l lGran)]) := by
      intro x hx l hl
      cases hxl : x.2.2 with
      | nil => rw [hxl] at hl; cases hl
      | cons l0 ls =>
        simp only [List.mem_singleton]
        have := hinv.sameL x hx l hl l0 (by rw [hxl]; exact List.mem_cons_self)
        rw [this]
    exact pairwise_flatMap_ne _ hsym _ _ hp e he e' he' hne _ (hfirst e he l hl) _ (hfirst e' he' l' hl')
  · intro k hk m hm l hl l' hl' hs hs'
    have hok := hinv.vOK k hk
    rw [hm] at hok
    have hp := hok.2.2
    unfold vRegions at hp
    exact pairwise_flatMap_ne _ hsym _ _ hp e he e' he' hne _
      (List.mem_map.2 ⟨l, List.mem_filter.2 ⟨hl, by simp [hs]⟩, rfl⟩) _
      (List.mem_map.2 ⟨l', List.mem_filter.2 ⟨hl', by simp [hs']⟩, rfl⟩)

/-- **liveness without the "no fault" hypothesis** (helper form) -/
theorem fair_run_answers_safe (caps : List (List Nat)) (cfg : Cfg) (nd : Nat) (pool : List CU)
    (ops0 : List Op) (sched : Nat → Op) (hnd : 0 < nd)
    (hempty : ∀ cu ∈ pool, cu.resident = []) (hp : PoolInv caps pool)
    (hops : ∀ k, .launch k ∈ ops0 → KernOK k ∧ k.wx ≤ 1024 ∧ KernFits caps (pool.map CU.shapes) k)
    (hnl : ∀ n k, sched n ≠ .launch k)
    (hfair : ∀ n, ∃ m, n ≤ m ∧ sched m = .tick ∧ EnvReady (run (mkCP cfg nd pool) (ops0 ++ prefixOf sched m))) :
    ∃ N, AllAnswered (run (mkCP cfg nd pool) (ops0 ++ prefixOf sched N)) := by
  apply fair_run_answers_fits caps cfg nd pool ops0 sched hnd hempty hp
    (fun k hk => ⟨(hops k hk).1, (hops k hk).2.2⟩) hnl _ hfair
  intro n
  refine run_fits_nofault caps cfg nd pool hempty hp _ ?_
  intro k hk
  rcases List.mem_append.1 hk with h | h
  · exact hops k h
  · exfalso
    simp only [prefixOf, List.mem_map] at h
    obtain ⟨m, _, hm⟩ := h
    exact hnl m k hm

/-- **liveness without any fit hypothesis** (helper form): a launch is rejected loudly, or every launch is
    answered -/
theorem fair_run_answers_accepted (caps : List (List Nat)) (cfg : Cfg) (nd : Nat) (pool : List CU)
    (ops0 : List Op) (sched : Nat → Op) (hnd : 0 < nd)
    (hempty : ∀ cu ∈ pool, cu.resident = []) (hp : PoolInv caps pool)
    (hops : ∀ k, .launch k ∈ ops0 → KernOK k ∧ k.wx ≤ 1024)
    (hnl : ∀ n k, sched n ≠ .launch k)
    (hfair : ∀ n, ∃ m, n ≤ m ∧ sched m = .tick ∧ EnvReady (run (mkCP cfg nd pool) (ops0 ++ prefixOf sched m))) :
    ∃ N, (run (mkCP cfg nd pool) (ops0 ++ prefixOf sched N)).fault = some "oversize" ∨
      AllAnswered (run (mkCP cfg nd pool) (ops0 ++ prefixOf sched N)) := by
  let st : Nat → CP := fun n => run (mkCP cfg nd pool) (ops0 ++ prefixOf sched n)
  have hst : ∀ n, st (n + 1) = step (st n) (sched n) := fun n => run_prefix_succ _ ops0 sched n
  have hdc : ∀ n, DCI (st n) := fun n => dci_run cfg nd pool _
  have hops' : ∀ n k, Op.launch k ∈ ops0 ++ prefixOf sched n → KernOK k ∧ k.wx ≤ 1024 := by
    intro n k hk
    rcases List.mem_append.1 hk with h | h
    · exact hops k h
    · exfalso
      simp only [prefixOf, List.mem_map] at h
      obtain ⟨m, _, hm⟩ := h
      exact hnl m k hm
  have hacc : ∀ n, Acc caps (pool.map CU.shapes) (st n) := fun n =>
    acc_run caps cfg nd pool _ hempty hp (hops' n)
  have hle : ∀ n, (st (n + 1)).view.mu = (st n).view.mu ∨ lt3 (st (n + 1)).view.mu (st n).view.mu := by
    intro n
    rw [hst n]
    cases hs : sched n with
    | tick =>
      show (cpTick (st n)).1.view.mu = _ ∨ lt3 (cpTick (st n)).1.view.mu _
      obtain ⟨m1, m2⟩ := cpTick_mu (st n) (hdc n)
      cases hb : (cpTick (st n)).2 with
      | true => exact Or.inr (m1 hb)
      | false => left; rw [m2 hb]
    | launch k => exact absurd hs (hnl n k)
    | complete ids => exact Or.inl rfl
    | cuRoom x => exact Or.inl rfl
    | drvRoom x => exact Or.inl rfl
  obtain ⟨N, hN⟩ := eventually_stable (fun n => (st n).view.mu) hle
  obtain ⟨m, hm, htick, henv⟩ := hfair N
  have hnp : (cpTick (st m)).2 = false := by
    cases hb : (cpTick (st m)).2 with
    | false => rfl
    | true =>
      exfalso
      have := (cpTick_mu (st m) (hdc m)).1 hb
      apply hN m hm
      show lt3 (st (m + 1)).view.mu (st m).view.mu
      rw [hst m, htick]; exact this
  have e : st (m + 1) = (cpTick (st m)).1 := by rw [hst m, htick]; rfl
  rcases (hacc (m + 1)).safe.nf with hf | hf
  · refine ⟨m, Or.inr ?_⟩
    have hf' : (cpTick (st m)).1.fault = none := by rw [← e]; exact hf
    have hlen : 0 < (st m).disps.length := by
      have := fair_len cfg nd pool (ops0 ++ prefixOf sched m); show 0 < (run _ _).disps.length; omega
    exact no_stuck_fits_core true caps _ (hdc m) (hacc m).ti (hacc m).safe.inv (hacc m).kd hlen hnp hf' henv
  · exact ⟨m + 1, Or.inl hf⟩

end C09
