import MgpuModel.C04
import MgpuProofs.C04
import MgpuProofs.C04Bits
import MgpuProofs.C04Enc
/-! The CDNA3 override table (`lookUpArch`): order independence, reachability, and where the architecture flag matters. -/
namespace C04
open Gen

/-- `Disassembler.lookUp` over explicit registration lists (shared table, CDNA3 override table) -/
def lookUpArchIn (shared cdna : List Row) (c : Bool) (ft op : Nat) : Option Row :=
  if c then
    (match lastRow cdna ft op with
     | some r => some r
     | none => lastRow shared ft op)
  else lastRow shared ft op

theorem lookUpArchIn_canon (c : Bool) (ft op : Nat) : lookUpArchIn allRows cdna3Rows c ft op = lookUpArch c ft op := rfl

theorem lookUpArchIn_perm (s₁ s₂ k₁ k₂ : List Row) (hs : s₁.Perm s₂) (hk : k₁.Perm k₂)
    (hsn : (s₁.map rkey).Nodup) (hso : ∀ r ∈ s₁, r.opcode < 1024)
    (hkn : (k₁.map rkey).Nodup) (hko : ∀ r ∈ k₁, r.opcode < 1024) (c : Bool) (ft op : Nat) :
    lookUpArchIn s₁ k₁ c ft op = lookUpArchIn s₂ k₂ c ft op := by
  unfold lookUpArchIn
  rw [lastRow_perm s₁ s₂ hs hsn hso ft op, lastRow_perm k₁ k₂ hk hkn hko ft op]

/-- the architecture flag reaches only the SMEM and FLAT decoders -/
theorem decodeRow_arch (f : Format) (row : Row) (w0 : Nat) (w1? : Option Nat)
    (h1 : f.ft ≠ FT_SMEM) (h2 : f.ft ≠ FT_FLAT) :
    decodeRow true f row w0 w1? = decodeRow false f row w0 w1? := by
  unfold decodeRow
  have e : ∀ (i : Inst) (lo hi : Nat), i.ft = f.ft → dec8 true i row lo hi = dec8 false i row lo hi := by
    intro i lo hi hi'
    unfold dec8
    have a : (i.ft == FT_SMEM) = false := by rw [hi']; simpa using h1
    have b : (i.ft == FT_FLAT) = false := by rw [hi']; simpa using h2
    simp only [a, b, Bool.false_eq_true, if_false]
  simp only []
  split
  · cases w1? with
    | none => rfl
    | some w1 => simp only []; rw [e _ _ _ rfl]
  · rfl

theorem decodeCore_arch (w0 : Nat) (w1? : Option Nat) (f : Format) (hm : matchFormat w0 = some f)
    (h1 : f.ft ≠ FT_SMEM) (h2 : f.ft ≠ FT_FLAT)
    (hk : lastRow cdna3Rows f.ft (extractBits w0 f.opLo f.opHi) = none) :
    decodeCore (lookUpArch true) true w0 w1? = decodeCore (lookUpArch false) false w0 w1? := by
  unfold decodeCore
  simp only [hm]
  have : lookUpArch true f.ft (extractBits w0 f.opLo f.opHi) = lookUpArch false f.ft (extractBits w0 f.opLo f.opHi) := by
    simp [lookUpArch, hk]
  rw [this]
  cases lookUpArch false f.ft (extractBits w0 f.opLo f.opHi) with
  | none => rfl
  | some row => exact decodeRow_arch f row w0 w1? h1 h2

/-- per-row obligation for a CDNA3 override row: as `rowFill`, and the override replaces a row of the shared table
    for the same (format, opcode) (it never adds an opcode the format matcher / VOP3b split does not know) -/
def cdnaRowOK (r : Row) : Bool := rowFill r && (lookUp r.ft r.opcode).isSome

end C04
