import MgpuProofs.C07Same
set_option linter.unusedSimpArgs false
set_option linter.unusedVariables false
/-! # C07 helper lemmas: `resetRegisterValue` -/
namespace C07
open Gen

local macro "tr" : term => `(by first | trivial | rfl)

theorem getD_zeros (n k : Nat) : (zeros n).getD k 0 = 0 := by
  simp [zeros, List.getD_eq_getElem?_getD, List.getElem?_replicate]
  split <;> rfl

/-- byte `p` lies in the part of lane rows `lane .. lane+k` that belongs to the window `(voff, nv)` -/
def inCleared (voff nv lane k p : Nat) : Prop :=
  ∃ l, lane ≤ l ∧ l < lane + k ∧ voff + 1024 * l ≤ p ∧ p < voff + 1024 * l + 4 * nv

theorem clearLanes_spec (file : File) (voff nv k lane : Nat) (hk : lane + k ≤ 64) (hs : 65536 ≤ file.size)
    (hrow : voff + 4 * nv ≤ 1024) :
    (TimingRF.clearLanes file voff nv k lane).2 = none ∧
    (TimingRF.clearLanes file voff nv k lane).1.size = file.size ∧
    ∀ p, (inCleared voff nv lane k p → get (TimingRF.clearLanes file voff nv k lane).1 p = 0) ∧
         (¬ inCleared voff nv lane k p → get (TimingRF.clearLanes file voff nv k lane).1 p = get file p) := by
  induction k generalizing file lane with
  | zero =>
    refine ⟨rfl, rfl, fun p => ⟨fun ⟨l, h1, h2, _⟩ => by omega, fun _ => rfl⟩⟩
  | succ k ih =>
    have hcnd : voff + 1024 * lane ≤ file.size := by omega
    simp only [TimingRF.clearLanes, LANE_STRIDE, hcnd, if_true]
    have hz : (zeros (nv * 4)).length = nv * 4 := zeros_length _
    obtain ⟨i1, i2, i3⟩ := ih (wr file (voff + 1024 * lane) (zeros (nv * 4))) (lane + 1) (by omega) (by simp; omega)
    refine ⟨i1, by rw [i2, size_wr], fun p => ⟨fun hin => ?_, fun hout => ?_⟩⟩
    · by_cases hnext : inCleared voff nv (lane + 1) k p
      · exact (i3 p).1 hnext
      · rw [(i3 p).2 hnext]
        obtain ⟨l, h1, h2, h3, h4⟩ := hin
        have hl : l = lane := by
          by_cases e : l = lane
          · exact e
          · exact absurd ⟨l, by omega, by omega, h3, h4⟩ hnext
        subst hl
        rw [get_wr_in _ _ _ _ h3 (by rw [hz]; omega) (by rw [hz]; omega), getD_zeros]
    · have hnext : ¬ inCleared voff nv (lane + 1) k p :=
        fun ⟨l, h1, h2, h3, h4⟩ => hout ⟨l, by omega, by omega, h3, h4⟩
      rw [(i3 p).2 hnext]
      apply get_wr_out
      rw [hz]
      by_cases hlt : p < voff + 1024 * lane
      · exact Or.inl hlt
      · right
        by_cases hge : voff + 1024 * lane + nv * 4 ≤ p
        · exact hge
        · exact absurd ⟨lane, Nat.le_refl _, by omega, by omega, by omega⟩ hout

theorem leNat_zero4 (l : List UInt8) (h : ∀ b ∈ l, b = 0) : leNat l = 0 := by
  induction l with
  | nil => rfl
  | cons x xs ih =>
    have hx : x = 0 := h x (by simp)
    subst hx
    simp only [leNat]
    rw [ih (fun b hb => h b (by simp [hb]))]
    rfl

theorem winCells_zero (f : File) (base n : Nat) (h : ∀ p, base ≤ p → p < base + 4 * n → get f p = 0) (i : Nat) :
    winCells f base n i = 0 := by
  unfold winCells
  split
  · apply leNat_zero4
    intro b hb
    simp only [rd, List.mem_map, List.mem_range] at hb
    obtain ⟨k, hk, rfl⟩ := hb
    exact h _ (by omega) (by omega)
  · rfl

theorem winCells_congr (f f' : File) (base n : Nat) (h : ∀ p, base ≤ p → p < base + 4 * n → get f' p = get f p) :
    winCells f' base n = winCells f base n := by
  funext i
  unfold winCells
  split
  · congr 1
    simp only [rd]
    apply List.map_congr_left
    intro k hk
    have := List.mem_range.mp hk
    exact h _ (by omega) (by omega)
  · rfl

/-- the bytes of wavefront `w`'s VGPR allocation in its SIMD's register file -/
def ownV (w : TWf) (p : Nat) : Prop := inCleared w.voff w.nv 0 64 p
/-- the bytes of wavefront `w`'s SGPR allocation -/
def ownS (w : TWf) (p : Nat) : Prop := w.soff ≤ p ∧ p < w.soff + 4 * w.ns

theorem releaseV_spec (t : TimingRF) (w : TWf) (hf : Fits t w) :
    (t.releaseV w).2 = none ∧ (t.releaseV w).1.sfile = t.sfile ∧ (t.releaseV w).1.wfs = t.wfs ∧
    (t.releaseV w).1.vfiles.size = t.vfiles.size ∧
    (∀ x : TWf, ((t.releaseV w).1.vfileOf x).size = (t.vfileOf x).size) ∧
    (∀ p, ownV w p → get ((t.releaseV w).1.vfileOf w) p = 0) ∧
    (∀ (x : TWf) p, ¬ (x.simd = w.simd ∧ ownV w p) → get ((t.releaseV w).1.vfileOf x) p = get (t.vfileOf x) p) := by
  obtain ⟨hf1, hf2, hf3, hf4, hf5⟩ := hf
  unfold TimingRF.releaseV
  by_cases hnv : w.nv > 0
  · obtain ⟨c1, c2, c3⟩ := clearLanes_spec (t.vfileOf w) w.voff w.nv 64 0 (by omega) hf4 hf5
    simp only [hnv, if_true]
    refine ⟨c1, tr, tr, by simp, fun x => ?_, fun p hp => ?_, fun x p hx => ?_⟩
    · rw [vfileOf_set t w.simd _ x hf3]
      by_cases e : x.simd = w.simd
      · simp only [e, if_true, c2]; simp only [TimingRF.vfileOf, e]
      · simp [e]
    · rw [vfileOf_set t w.simd _ w hf3]; simp only [if_true]; exact (c3 p).1 hp
    · rw [vfileOf_set t w.simd _ x hf3]
      by_cases e : x.simd = w.simd
      · simp only [e, if_true]
        have hv : t.vfileOf x = t.vfileOf w := by simp only [TimingRF.vfileOf, e]
        rw [hv]; exact (c3 p).2 (fun h => hx ⟨e, h⟩)
      · simp [e]
  · simp only [hnv, if_false]
    refine ⟨tr, tr, tr, tr, fun _ => tr, fun p hp => ?_, fun _ _ _ => tr⟩
    obtain ⟨l, _, _, h3, h4⟩ := hp
    omega

theorem releaseS_spec (t : TimingRF) (w : TWf) (hs : w.soff + 4 * w.ns ≤ t.sfile.size) :
    (t.releaseS w).2 = none ∧ (t.releaseS w).1.vfiles = t.vfiles ∧ (t.releaseS w).1.wfs = t.wfs ∧
    (t.releaseS w).1.sfile.size = t.sfile.size ∧
    (∀ p, ownS w p → get (t.releaseS w).1.sfile p = 0) ∧
    (∀ p, ¬ ownS w p → get (t.releaseS w).1.sfile p = get t.sfile p) := by
  unfold TimingRF.releaseS
  have hz : (zeros (w.ns * 4)).length = w.ns * 4 := zeros_length _
  by_cases hns : w.ns > 0
  · have hb : w.soff ≤ t.sfile.size := by omega
    simp only [hns, hb, if_true]
    refine ⟨tr, tr, tr, by simp, fun p hp => ?_, fun p hp => ?_⟩
    · rw [get_wr_in _ _ _ _ hp.1 (by rw [hz]; have := hp.2; omega) (by rw [hz]; omega), getD_zeros]
    · apply get_wr_out
      rw [hz]
      unfold ownS at hp
      omega
  · simp only [hns, if_false]
    refine ⟨tr, tr, tr, tr, fun p hp => ?_, fun _ _ => tr⟩
    unfold ownS at hp; omega

/-- `resetRegisterValue` at byte level: it succeeds, touches no wavefront record and no file size, zeroes
    every byte of the wavefront's own SGPR and VGPR allocation and changes no other byte of any file -/
theorem release_bytes (t : TimingRF) (wi : Nat) (hf : Fits t (t.wf wi)) :
    (t.release wi).2 = none ∧ (t.release wi).1.wfs = t.wfs ∧
    (t.release wi).1.sfile.size = t.sfile.size ∧ (t.release wi).1.vfiles.size = t.vfiles.size ∧
    (∀ x : TWf, ((t.release wi).1.vfileOf x).size = (t.vfileOf x).size) ∧
    (∀ p, ownS (t.wf wi) p → get (t.release wi).1.sfile p = 0) ∧
    (∀ p, ¬ ownS (t.wf wi) p → get (t.release wi).1.sfile p = get t.sfile p) ∧
    (∀ p, ownV (t.wf wi) p → get ((t.release wi).1.vfileOf (t.wf wi)) p = 0) ∧
    (∀ (x : TWf) p, ¬ (x.simd = (t.wf wi).simd ∧ ownV (t.wf wi) p) →
      get ((t.release wi).1.vfileOf x) p = get (t.vfileOf x) p) := by
  obtain ⟨v1, v2, v3, v4, v5, v6, v7⟩ := releaseV_spec t (t.wf wi) hf
  have hs' : (t.wf wi).soff + 4 * (t.wf wi).ns ≤ (t.releaseV (t.wf wi)).1.sfile.size := by rw [v2]; exact hf.hs
  obtain ⟨s1, s2, s3, s4, s5, s6⟩ := releaseS_spec (t.releaseV (t.wf wi)).1 (t.wf wi) hs'
  have e : t.release wi = (t.releaseV (t.wf wi)).1.releaseS (t.wf wi) := by
    unfold TimingRF.release
    simp only [TimingRF.wf] at v1 ⊢
    simp only [v1]
  rw [e]
  have hvf : ∀ x : TWf, ((t.releaseV (t.wf wi)).1.releaseS (t.wf wi)).1.vfileOf x = (t.releaseV (t.wf wi)).1.vfileOf x := by
    intro x; simp only [TimingRF.vfileOf, s2]
  refine ⟨s1, by rw [s3, v3], by rw [s4, v2], by rw [s2, v4], fun x => by rw [hvf, v5], s5,
    fun p hp => by rw [s6 p hp, v2], fun p hp => by rw [hvf]; exact v6 p hp, fun x p hx => by rw [hvf]; exact v7 x p hx⟩

end C07
