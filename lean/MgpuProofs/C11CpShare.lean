import MgpuModel.C11CpShare
import MgpuProofs.C11CpMain
/-! Helper lemmas for `Props/C11CpShare.lean`: the command processor's copy / flush path together with
the TLB-shootdown path (`MgpuModel/C11CpShare.lean`).

1. shapes of the stages of the copy / flush path inside the shared component;
2. without a shootdown the shared component IS the component of `MgpuModel/C11Cp.lean`;
3. the shared counter `numCacheACK` in every reachable state (all runs);
4. serialised runs: the projection that hides the shootdown's use of the counter is a run of the
   transition system `CpTr`, so every invariant of `MgpuProofs/C11CpMain.lean` carries over. -/
namespace C11

/-! ## 1. shapes -/

/-- the configuration fields of `Cp` -/
def Cp.CpsSameCfg (a b : Cp) : Prop :=
  a.nCaches = b.nCaches ∧ a.capIn = b.capIn ∧ a.capDrv = b.capDrv ∧ a.capDma = b.capDma ∧ a.capCache = b.capCache

theorem Cp.cps_handle_shape (s : Cp) : ∃ evs, s.handle.1.log = s.log ++ evs ∧ Cp.CpsSameCfg s.handle.1 s := by
  rcases Cp.handle_cases s with h | ⟨m, rest, hf, hd, hn, hk, ⟨k, _, _, h⟩ | ⟨_, h⟩ | ⟨_, _, h⟩⟩ |
    ⟨m, rest, hf, hd, hn, hk, hb, h⟩
  all_goals rw [h]
  · exact ⟨[], by simp, rfl, rfl, rfl, rfl, rfl⟩
  · exact ⟨_, rfl, rfl, rfl, rfl, rfl, rfl⟩
  · exact ⟨_, rfl, rfl, rfl, rfl, rfl, rfl⟩
  · exact ⟨_, rfl, rfl, rfl, rfl, rfl, rfl⟩
  · exact ⟨_, rfl, rfl, rfl, rfl, rfl, rfl⟩

theorem Cp.cps_dmaRsp_shape (s : Cp) : ∃ evs, s.dmaRsp.1.log = s.log ++ evs ∧ Cp.CpsSameCfg s.dmaRsp.1 s := by
  rcases Cp.dmaRsp_cases s with h | ⟨c, rest, hf, hd, hb, ⟨o, k, hl, h⟩ | ⟨hH, hD, h⟩⟩
  all_goals rw [h]
  · exact ⟨[], by simp, rfl, rfl, rfl, rfl, rfl⟩
  · exact ⟨_, rfl, rfl, rfl, rfl, rfl, rfl⟩
  · exact ⟨[], by simp, rfl, rfl, rfl, rfl, rfl⟩

theorem Cp.cps_cacheRsp_shape (s : Cp) : ∃ evs, s.cacheRsp.1.log = s.log ++ evs ∧ Cp.CpsSameCfg s.cacheRsp.1 s := by
  rcases Cp.cacheRsp_cases s with h | ⟨x, rest, n', hf, hd, hn, ⟨hz, h⟩ | ⟨hz, hc, h⟩ | ⟨hz, f, hc, hb, h⟩⟩
  all_goals rw [h]
  · exact ⟨[], by simp, rfl, rfl, rfl, rfl, rfl⟩
  · exact ⟨_, rfl, rfl, rfl, rfl, rfl, rfl⟩
  · exact ⟨_, rfl, rfl, rfl, rfl, rfl, rfl⟩
  · exact ⟨_, rfl, rfl, rfl, rfl, rfl, rfl⟩

theorem Cp.cps_with_capDrv_self (c : Cp) (x : Nat) (h : c.capDrv = x) : { c with capDrv := x } = c := by
  subst h; rfl

/-- a stage of the copy / flush path put back into the shared state: the new events are appended -/
theorem CpS.liftCp_eq (s : CpS) (r : Cp × Bool) (evs : List CpEv) (h : r.1.log = s.c.log ++ evs) :
    s.liftCp r = ({ s with c := { r.1 with capDrv := s.c.capDrv }, log := s.log ++ evs.map SEv.cp }, r.2) := by
  unfold CpS.liftCp
  rw [h, List.drop_left]

theorem CpS.cpView_of_nil (s : CpS) (h : s.outEarlier = []) : s.cpView = s.c := by
  unfold CpS.cpView
  rw [h]
  rfl

theorem CpS.liftCp_noop (s : CpS) : s.liftCp (s.cpView, false) = (s, false) := by
  simp [CpS.liftCp, CpS.cpView]

/-- without `shootDownInProcess`, `processCacheFlushRsp` is the flush path's `Cp.cacheRsp` -/
theorem CpS.cacheRsp_of_not_shoot (s : CpS) (h : s.shoot = false) (hl1 : s.l1Inv = none) :
    s.cacheRsp = s.liftCp s.cpView.cacheRsp := by
  by_cases hf : s.c.fault.isSome = true
  · have h1 : s.cpView.cacheRsp = (s.cpView, false) := by
      unfold Cp.cacheRsp; rw [if_pos (by exact hf)]
    rw [h1, CpS.liftCp_noop]
    unfold CpS.cacheRsp; rw [if_pos hf]
  · cases hc : s.c.cacheIn with
    | nil =>
      have h1 : s.cpView.cacheRsp = (s.cpView, false) := by
        unfold Cp.cacheRsp; rw [if_neg (by exact hf)]
        have : s.cpView.cacheIn = [] := hc
        simp [this]
      rw [h1, CpS.liftCp_noop]
      unfold CpS.cacheRsp; rw [if_neg hf]; simp [hc]
    | cons x rest =>
      have hc' : s.cpView.cacheIn = x :: rest := hc
      have hf' : ¬ s.cpView.fault.isSome = true := hf
      have hroom : (s.cpView.drvOut.length < s.cpView.capDrv) ↔ s.outLen < s.c.capDrv := by
        show s.c.drvOut.length < s.c.capDrv - s.outEarlier.length ↔ _
        unfold CpS.outLen; omega
      by_cases hg : s.c.numAck = 1 ∧ ¬ s.outLen < s.c.capDrv
      · have h1 : s.cpView.cacheRsp = (s.cpView, false) := by
          unfold Cp.cacheRsp; rw [if_neg hf']
          simp only [hc']
          rw [if_pos]
          exact ⟨hg.1, fun hh => hg.2 (hroom.1 hh)⟩
        rw [h1, CpS.liftCp_noop]
        unfold CpS.cacheRsp; rw [if_neg hf]; simp only [hc]
        rw [if_pos ⟨hg.1, h, hg.2⟩]
      · have hg' : ¬ (s.cpView.numAck = 1 ∧ ¬ s.cpView.drvOut.length < s.cpView.capDrv) := by
          rw [hroom]; exact hg
        have hg2 : ¬ (s.c.numAck = 1 ∧ s.shoot = false ∧ ¬ s.outLen < s.c.capDrv) := fun hh => hg ⟨hh.1, hh.2.2⟩
        unfold Cp.cacheRsp CpS.cacheRsp
        rw [if_neg hf, if_neg hf']
        simp only [hc, hc']
        rw [if_neg hg2, if_neg hg']
        simp only [h, hl1, Option.isSome_none, Bool.false_eq_true, if_false]
        have hn : (if s.cpView.numAck = 0 then 18446744073709551615 else s.cpView.numAck - 1) = dec64 s.c.numAck := rfl
        rw [hn]
        have hcur : s.cpView.curFlush = s.c.curFlush := rfl
        rw [hcur]
        by_cases hz : dec64 s.c.numAck = 0
        · rw [if_pos hz, if_pos hz]
          cases hcf : s.c.curFlush with
          | none => simp [CpS.liftCp, CpS.cpView, h, hl1]
          | some f => simp [CpS.liftCp, CpS.cpView, Cp.pushDrv, h, hl1]
        · rw [if_neg hz, if_neg hz]
          simp [CpS.liftCp, CpS.cpView, h, hl1]

/-! ## 2. without a shootdown the shared component is the component of `C11Cp.lean` -/

/-- no trace of a shootdown in the component -/
structure CpS.Plain (s : CpS) : Prop where
  shoot : s.shoot = false
  later : s.later = []
  outEarlier : s.outEarlier = []
  cuIn : s.cuIn = []
  atIn : s.atIn = []
  tlbIn : s.tlbIn = []
  cuOut : s.cuOut = []
  atOut : s.atOut = []
  tlbOut : s.tlbOut = []
  l1Inv : s.l1Inv = none

/-- without a shootdown in process and with only copy / flush requests in the port, `cpMiddleware.Handle`
    is the flush path's `Cp.handle` -/
theorem CpS.handle_of_reqs (s : CpS) (hs : s.shoot = false) (hl : s.later = []) :
    s.handle = s.liftCp s.cpView.handle := by
  unfold CpS.handle
  by_cases hf : s.c.fault.isSome = true
  · rw [if_pos hf]
    have h1 : s.cpView.handle = (s.cpView, false) := by
      unfold Cp.handle; rw [if_pos (by exact hf)]
    rw [h1, CpS.liftCp_noop]
  · rw [if_neg hf, hl]
    cases hd : s.c.drvIn with
    | nil =>
      have h1 : s.cpView.handle = (s.cpView, false) := by
        unfold Cp.handle; rw [if_neg (by exact hf)]
        have : s.cpView.drvIn = [] := hd
        simp [this]
      rw [h1, CpS.liftCp_noop]
    | cons m rest =>
      simp only [hs, Bool.false_eq_true, and_false, if_false]

theorem CpS.liftCp_plain {s : CpS} (h : s.Plain) (f : Cp → Cp × Bool)
    (hs : ∃ evs, (f s.c).1.log = s.c.log ++ evs ∧ Cp.CpsSameCfg (f s.c).1 s.c) :
    (s.liftCp (f s.cpView)).1.c = (f s.c).1 ∧ (s.liftCp (f s.cpView)).2 = (f s.c).2 ∧
      (s.liftCp (f s.cpView)).1.Plain := by
  rw [CpS.cpView_of_nil s h.outEarlier]
  obtain ⟨evs, _, hc⟩ := hs
  refine ⟨Cp.cps_with_capDrv_self _ _ hc.2.2.1, rfl, ?_⟩
  exact ⟨h.shoot, h.later, h.outEarlier, h.cuIn, h.atIn, h.tlbIn, h.cuOut, h.atOut, h.tlbOut, h.l1Inv⟩

theorem CpS.hShoot_plain {s : CpS} (h : s.Plain) : s.hShoot = (s, false) := by
  unfold CpS.hShoot
  split
  · rfl
  · split
    · rename_i heq
      rw [h.later] at heq
      cases heq
    · rfl

theorem CpS.rCU_plain {s : CpS} (h : s.Plain) : s.rCU = (s, false) := by
  unfold CpS.rCU
  simp [h.cuIn]

theorem CpS.rAT_plain {s : CpS} (h : s.Plain) : s.rAT = (s, false) := by
  unfold CpS.rAT
  simp [h.atIn]

theorem CpS.rTLB_plain {s : CpS} (h : s.Plain) : s.rTLB = (s, false) := by
  unfold CpS.rTLB
  simp [h.tlbIn]

theorem CpS.pass_plain {s : CpS} (h : s.Plain) :
    s.pass.1.c = s.c.pass.1 ∧ s.pass.2 = s.c.pass.2 ∧ s.pass.1.Plain := by
  obtain ⟨a1, a2, a3⟩ := CpS.liftCp_plain h Cp.handle (Cp.cps_handle_shape s.c)
  obtain ⟨b1, b2, b3⟩ := CpS.liftCp_plain a3 Cp.dmaRsp (Cp.cps_dmaRsp_shape _)
  have hk := CpS.liftCp_plain b3 Cp.cacheRsp (Cp.cps_cacheRsp_shape _)
  rw [← CpS.cacheRsp_of_not_shoot _ b3.shoot b3.l1Inv] at hk
  obtain ⟨k1, k2, k3⟩ := hk
  have hh := CpS.hShoot_plain b3
  have hu := CpS.rCU_plain b3
  have ht := CpS.rAT_plain b3
  have hl := CpS.rTLB_plain k3
  simp only [CpS.pass, Cp.pass, CpS.handle_of_reqs s h.shoot h.later, CpS.dmaRsp, hh, hu, ht, hl, Bool.or_false]
  refine ⟨?_, ?_, k3⟩
  · rw [k1, b1, a1]
  · rw [k2, b2, a2, b1, a1]

theorem CpS.tick_plain {s : CpS} (h : s.Plain) :
    s.tick.1.c = s.c.tick.1 ∧ s.tick.2 = s.c.tick.2 ∧ s.tick.1.Plain := by
  unfold CpS.tick Cp.tick
  by_cases hf : s.c.fault.isSome = true
  · rw [if_pos hf, if_pos hf]; exact ⟨rfl, rfl, h⟩
  · rw [if_neg hf, if_neg hf]
    by_cases hd : s.c.drvIn.isEmpty = true
    · simp only [hd, h.later, List.isEmpty_nil, Bool.and_self, if_true, Bool.false_or]
      exact CpS.pass_plain h
    · simp only [hd, Bool.false_and, Bool.false_eq_true, if_false]
      obtain ⟨p1, p2, p3⟩ := CpS.pass_plain h
      obtain ⟨q1, q2, q3⟩ := CpS.pass_plain p3
      exact ⟨by rw [q1, p1], by rw [q2, p2, p1], q3⟩

/-- the copy / flush environment inside the shared environment -/
def CpSEnv.toCp (e : CpSEnv) : CpEnv :=
  { s := e.s.c, sent := e.sent, atDma := e.atDma, atCaches := e.atCaches,
    drained := e.drained.filterMap SOut.ans?, dmaSeen := e.dmaSeen, answered := e.answered }

structure CpSEnv.Plain (e : CpSEnv) : Prop where
  s : e.s.Plain
  atCU : e.atCU = []
  atAT : e.atAT = []
  atTLB : e.atTLB = []

theorem cps_filterMap_ans_map (l : List CpMsg) : (l.map SOut.ans).filterMap SOut.ans? = l := by
  induction l with
  | nil => rfl
  | cons a l ih => simp [SOut.ans?, ih]

macro "cps_plain_close" : tactic =>
  `(tactic| (refine ⟨⟨?_, ?_, ?_, ?_, ?_, ?_, ?_, ?_, ?_, ?_⟩, ?_, ?_, ?_⟩ <;> first | assumption | rfl | (simp_all; done)))

theorem CpSEnv.step_plain {e : CpSEnv} (h : e.Plain) (op : CpOp) :
    (e.step (.cp op)).1.toCp = (e.toCp.step op).1 ∧ (e.step (.cp op)).1.Plain := by
  obtain ⟨⟨p1, p2, p3, p4, p5, p6, p7, p8, p9, p10⟩, h1, h2, h3⟩ := h
  cases op with
  | req k =>
    by_cases hc : e.s.c.drvIn.length < e.s.c.capIn
    · simp only [CpSEnv.step, CpEnv.step, CpS.portLen, p2, List.length_nil, Nat.add_zero, List.isEmpty_nil,
        if_true, CpSEnv.toCp, hc]
      exact ⟨trivial, by cps_plain_close⟩
    · simp only [CpSEnv.step, CpEnv.step, CpS.portLen, p2, List.length_nil, Nat.add_zero, List.isEmpty_nil,
        if_true, CpSEnv.toCp, hc, if_false]
      exact ⟨trivial, by cps_plain_close⟩
  | tick =>
    obtain ⟨t1, t2, t3⟩ := CpS.tick_plain ⟨p1, p2, p3, p4, p5, p6, p7, p8, p9, p10⟩
    refine ⟨?_, ⟨t3, h1, h2, h3⟩⟩
    simp only [CpSEnv.step, CpEnv.step, CpSEnv.toCp, t1]
  | takeDma k => exact ⟨rfl, by cps_plain_close⟩
  | takeCache k => exact ⟨rfl, by cps_plain_close⟩
  | takeDrv k =>
    refine ⟨?_, ?_⟩
    · simp only [CpSEnv.step, CpEnv.step, CpSEnv.toCp, p3, List.take_nil, List.length_nil, Nat.sub_zero,
        List.nil_append, List.filterMap_append, cps_filterMap_ans_map]
    · simp only [CpSEnv.step, p3, List.drop_nil]
      cps_plain_close
  | ack j =>
    cases hA : e.atCaches with
    | nil =>
      simp only [CpSEnv.step, CpEnv.step, CpSEnv.toCp, hA]
      exact ⟨trivial, by cps_plain_close⟩
    | cons a l =>
      by_cases hc : e.s.c.cacheIn.length ≥ e.s.c.capIn
      · simp only [CpSEnv.step, CpEnv.step, CpSEnv.toCp, hA, hc, if_true]
        exact ⟨trivial, by cps_plain_close⟩
      · simp only [CpSEnv.step, CpEnv.step, CpSEnv.toCp, hA, hc, if_false]
        exact ⟨trivial, by cps_plain_close⟩
  | rsp j =>
    cases hA : e.atDma with
    | nil =>
      simp only [CpSEnv.step, CpEnv.step, CpSEnv.toCp, hA]
      exact ⟨trivial, by cps_plain_close⟩
    | cons a l =>
      by_cases hc : e.s.c.dmaIn.length ≥ e.s.c.capIn
      · simp only [CpSEnv.step, CpEnv.step, CpSEnv.toCp, hA, hc, if_true]
        exact ⟨trivial, by cps_plain_close⟩
      · simp only [CpSEnv.step, CpEnv.step, CpSEnv.toCp, hA, hc, if_false]
        cases hj : (a :: l)[j % (a :: l).length]? with
        | none => exact ⟨by simp [hA], by cps_plain_close⟩
        | some c => exact ⟨rfl, by cps_plain_close⟩

theorem cps_cacheStr_small {l : List Nat} (h : ∀ x ∈ l, x < resetBase) : l.map cacheStr = l.map toString := by
  apply List.map_congr_left
  intro x hx
  unfold cacheStr
  rw [if_pos (h x hx)]

theorem CpSEnv.step_plain_str {e : CpSEnv} (h : e.Plain) (hs : ∀ x ∈ e.s.c.cacheOut, x < resetBase) (op : CpOp) :
    (e.step (.cp op)).2 = (e.toCp.step op).2 := by
  obtain ⟨⟨p1, p2, p3, p4, p5, p6, p7, p8, p9, p10⟩, h1, h2, h3⟩ := h
  cases op with
  | req k =>
    simp only [CpSEnv.step, CpEnv.step, CpS.portLen, p2, List.length_nil, Nat.add_zero, CpSEnv.toCp]
    split <;> simp [*]
  | tick =>
    obtain ⟨t1, t2, t3⟩ := CpS.tick_plain ⟨p1, p2, p3, p4, p5, p6, p7, p8, p9, p10⟩
    simp only [CpSEnv.step, CpEnv.step, CpSEnv.toCp]
    rw [t1, t2]
    rfl
  | takeDma k => rfl
  | takeCache k =>
    simp only [CpSEnv.step, CpEnv.step, CpSEnv.toCp]
    rw [cps_cacheStr_small (fun x hx => hs x (List.mem_of_mem_take hx))]
  | takeDrv k =>
    simp only [CpSEnv.step, CpEnv.step, CpSEnv.toCp, p3, List.take_nil, List.length_nil, Nat.sub_zero,
      List.nil_append, List.map_map]
    rfl
  | ack j =>
    cases hA : e.atCaches with
    | nil => simp only [CpSEnv.step, CpEnv.step, CpSEnv.toCp, hA]
    | cons a l =>
      simp only [CpSEnv.step, CpEnv.step, CpSEnv.toCp, hA]
      split <;> simp [*]
  | rsp j =>
    cases hA : e.atDma with
    | nil => simp only [CpSEnv.step, CpEnv.step, CpSEnv.toCp, hA]
    | cons a l =>
      by_cases hc : e.s.c.dmaIn.length ≥ e.s.c.capIn
      · simp only [CpSEnv.step, CpEnv.step, CpSEnv.toCp, hA, hc, if_true]
      · cases hj : (a :: l)[j % (a :: l).length]? with
        | none => simp only [CpSEnv.step, CpEnv.step, CpSEnv.toCp, hA, hc, if_false, hj]
        | some c => simp only [CpSEnv.step, CpEnv.step, CpSEnv.toCp, hA, hc, if_false, hj]

/-- the ops of the copy / flush environment among the ops of the shared environment -/
def SOp.cp? : SOp → Option CpOp
  | .cp op => some op
  | _ => none

/-- a move that is neither a shootdown nor a move of the copy / flush environment finds nothing -/
theorem CpSEnv.step_plain_other {e : CpSEnv} (h : e.Plain) (op : SOp) (hop : op ≠ .shoot) (hop2 : op ≠ .launch)
    (hc : op.cp? = none) :
    (e.step op).1.toCp = e.toCp ∧ (e.step op).1.Plain := by
  obtain ⟨⟨p1, p2, p3, p4, p5, p6, p7, p8, p9, p10⟩, h1, h2, h3⟩ := h
  cases op with
  | cp op => simp [SOp.cp?] at hc
  | shoot => exact absurd rfl hop
  | launch => exact absurd rfl hop2
  | kdone =>
    simp only [CpSEnv.step]
    split
    · exact ⟨rfl, by cps_plain_close⟩
    · exact ⟨rfl, by cps_plain_close⟩
  | query => exact ⟨rfl, by cps_plain_close⟩
  | take c k =>
    cases c <;> simp only [CpSEnv.step, CpS.out, CpS.setOut, CpSEnv.setPend, CpSEnv.pend, p7, p8, p9, List.take_nil,
      List.drop_nil, List.append_nil] <;> exact ⟨rfl, by cps_plain_close⟩
  | ack c j =>
    cases c <;> simp only [CpSEnv.step, CpSEnv.pend, h1, h2, h3] <;> exact ⟨trivial, by cps_plain_close⟩

theorem CpSEnv.run_plain (ops : List SOp) {e : CpSEnv} (h : e.Plain)
    (hn : ∀ op ∈ ops, op ≠ SOp.shoot ∧ op ≠ SOp.launch) :
    (e.run ops).toCp = e.toCp.run (ops.filterMap SOp.cp?) ∧ (e.run ops).Plain := by
  induction ops generalizing e with
  | nil => exact ⟨rfl, h⟩
  | cons op ops ih =>
    have hn' : ∀ o ∈ ops, o ≠ SOp.shoot ∧ o ≠ SOp.launch := fun o ho => hn o (List.mem_cons_of_mem _ ho)
    cases hc : op.cp? with
    | none =>
      obtain ⟨a, b⟩ := CpSEnv.step_plain_other h op (hn op (List.mem_cons_self ..)).1 (hn op (List.mem_cons_self ..)).2 hc
      obtain ⟨c, d⟩ := ih b hn'
      simp only [CpSEnv.run, List.filterMap_cons, hc]
      exact ⟨by rw [c, a], d⟩
    | some o =>
      have : op = .cp o := by
        cases op <;> simp [SOp.cp?] at hc
        rw [hc]
      subst this
      obtain ⟨a, b⟩ := CpSEnv.step_plain h o
      obtain ⟨c, d⟩ := ih b hn'
      simp only [CpSEnv.run, List.filterMap_cons, hc, CpEnv.run]
      exact ⟨by rw [c, a], d⟩

/-- the observable strings of a run of the copy / flush environment -/
def CpEnv.cpsTrace (e : CpEnv) : List CpOp → List String
  | [] => []
  | op :: rest => (e.step op).2 :: ((e.step op).1).cpsTrace rest

/-- every cache request in ToCaches names one of the `nCaches` caches -/
def CpEnv.CpsSmall (e : CpEnv) : Prop := ∀ x ∈ e.s.cacheOut, x < e.s.nCaches

theorem CpEnv.CpsSmall.tr {e e' : CpEnv} (h : e.CpsSmall) (t : CpTr e e') : e'.CpsSmall ∧ e'.s.nCaches = e.s.nCaches := by
  cases t with
  | flushFault m rest k hf hd hn hk hkn hcap =>
    refine ⟨?_, rfl⟩
    intro x hx
    simp only [CpEnv.withS_s, Cp.flushAsk, List.mem_append, List.mem_range] at hx
    rcases hx with hx | hx
    · exact h x hx
    · exact Nat.lt_trans hx hkn
  | flushOk m rest hf hd hn hk hpos =>
    refine ⟨?_, rfl⟩
    intro x hx
    simp only [CpEnv.withS_s, Cp.flushAsk, List.mem_append, List.mem_range] at hx
    rcases hx with hx | hx
    · exact h x hx
    · exact hx
  | takeCache k => exact ⟨fun x hx => h x (List.mem_of_mem_drop hx), rfl⟩
  | flushZero m rest b hf hd hn hk hz hb => exact ⟨h, rfl⟩
  | copy m rest b hf hd hn hk hb => exact ⟨h, rfl⟩
  | done c rest o k b hf hd hl hb => exact ⟨h, rfl⟩
  | never c rest hf hd hH hD => exact ⟨h, rfl⟩
  | ackDec x rest n' hf hd hn hz => exact ⟨h, rfl⟩
  | nilderef x rest n' hf hd hn hz hcur => exact ⟨h, rfl⟩
  | ackFinal x rest n' f b hf hd hn hz hc hb => exact ⟨h, rfl⟩
  | req k hlt => exact ⟨h, rfl⟩
  | takeDma k => exact ⟨h, rfl⟩
  | takeDrv k => exact ⟨h, rfl⟩
  | ackEnv j x hj => exact ⟨h, rfl⟩
  | rspEnv j c hj => exact ⟨h, rfl⟩

theorem CpEnv.CpsSmall.steps {e e' : CpEnv} (t : CpSteps e e') (h : e.CpsSmall) :
    e'.CpsSmall ∧ e'.s.nCaches = e.s.nCaches := by
  induction t with
  | refl => exact ⟨h, rfl⟩
  | tail _ t ih =>
    obtain ⟨a, b⟩ := ih
    obtain ⟨c, d⟩ := a.tr t
    exact ⟨c, d.trans b⟩

theorem CpSEnv.trace_plain (ops : List CpOp) {e : CpSEnv} (h : e.Plain) (hs : e.toCp.CpsSmall)
    (hn : e.s.c.nCaches ≤ resetBase) : e.trace (ops.map SOp.cp) = e.toCp.cpsTrace ops := by
  induction ops generalizing e with
  | nil => rfl
  | cons op ops ih =>
    obtain ⟨a, b⟩ := CpSEnv.step_plain h op
    have hstr := CpSEnv.step_plain_str h (fun x hx => Nat.lt_of_lt_of_le (hs x hx) hn) op
    obtain ⟨c, d⟩ := hs.steps (step_steps e.toCp op)
    simp only [List.map_cons, CpSEnv.trace, CpEnv.cpsTrace, hstr]
    rw [ih b (by rw [a]; exact c) (by
      have : (e.step (.cp op)).1.s.c.nCaches = (e.step (.cp op)).1.toCp.s.nCaches := rfl
      rw [this, a, d]; exact hn), a]

/-! ## 3. stage shapes of the shared component -/

/-- a new state of the copy / flush path and its new events put into the shared state -/
def CpS.withC (s : CpS) (c : Cp) (evs : List CpEv) : CpS := { s with c := c, log := s.log ++ evs.map SEv.cp }

theorem CpS.withC_self (s : CpS) : s.withC s.c [] = s := by
  simp [CpS.withC]

/-- the copy / flush part of `cpMiddleware.Handle` (the whole of it before the kernel-start
    invalidation and the flush / shootdown exclusion were added) -/
def CpS.handleCp (s : CpS) : CpS × Bool := s.liftCp s.cpView.handle

theorem CpS.handleCp_cases (s : CpS) :
    s.handleCp = (s, false) ∨
    (∃ m rest, s.c.fault = none ∧ s.c.drvIn = m :: rest ∧ s.c.numAck = 0 ∧ m.kind = .flush ∧
      ((∃ k, k < s.c.nCaches ∧ s.c.capCache ≤ s.c.cacheOut.length + k ∧
          s.handleCp = (s.withC { s.c.flushAsk m.id k with fault := some "cache_send" }
            (.flushStart m.id :: (List.range k).map CpEv.cacheReq), true)) ∨
       (0 < s.c.nCaches ∧
          s.handleCp = (s.withC { s.c.flushAsk m.id s.c.nCaches with curFlush := some m.id, drvIn := rest }
            (.flushStart m.id :: (List.range s.c.nCaches).map CpEv.cacheReq), true)) ∨
       (s.c.nCaches = 0 ∧ s.outLen < s.c.capDrv ∧
          s.handleCp = (s.withC
            { s.c with
              log := s.c.log ++ [.flushStart m.id, .flushDone m.id true]
              curFlush := some m.id
              drvIn := rest
              drvOut := s.c.drvOut ++ [m] }
            [.flushStart m.id, .flushDone m.id true], true)))) ∨
    (∃ m rest, s.c.fault = none ∧ s.c.drvIn = m :: rest ∧ s.c.numAck = 0 ∧ m.kind ≠ .flush ∧
      s.c.dmaOut.length < s.c.capDma ∧
      s.handleCp = (s.withC (s.c.copyFwd m rest true) [.fwd m.id s.c.nextCid m.kind true], true)) := by
  have hroom : (s.cpView.drvOut.length < s.cpView.capDrv) ↔ s.outLen < s.c.capDrv := by
    show s.c.drvOut.length < s.c.capDrv - s.outEarlier.length ↔ _
    unfold CpS.outLen; omega
  unfold CpS.handleCp
  rcases Cp.handle_cases s.cpView with h | ⟨m, rest, hf, hd, hn, hk, ⟨k, h1, h2, h⟩ | ⟨h1, h⟩ | ⟨h1, h2, h⟩⟩ |
    ⟨m, rest, hf, hd, hn, hk, hb, h⟩
  · left; rw [h, CpS.liftCp_noop]
  · right; left
    refine ⟨m, rest, hf, hd, hn, hk, .inl ⟨k, h1, h2, ?_⟩⟩
    rw [h, CpS.liftCp_eq s _ (.flushStart m.id :: (List.range k).map CpEv.cacheReq) rfl]
    rfl
  · right; left
    refine ⟨m, rest, hf, hd, hn, hk, .inr (.inl ⟨h1, ?_⟩)⟩
    rw [h, CpS.liftCp_eq s _ (.flushStart m.id :: (List.range s.c.nCaches).map CpEv.cacheReq) rfl]
    rfl
  · right; left
    refine ⟨m, rest, hf, hd, hn, hk, .inr (.inr ⟨h1, hroom.1 h2, ?_⟩)⟩
    rw [h, CpS.liftCp_eq s _ [.flushStart m.id, .flushDone m.id true] rfl]
    rfl
  · right; right
    refine ⟨m, rest, hf, hd, hn, hk, hb, ?_⟩
    rw [h, CpS.liftCp_eq s _ [.fwd m.id s.c.nextCid m.kind true] rfl]
    rfl

/-- `cpMiddleware.Handle`: nothing happens, or the copy / flush path handles the head of the port (a flush
    only without `shootDownInProcess`), or a kernel launch request is at the head of the port -/
theorem CpS.handle_split (s : CpS) :
    s.handle = (s, false) ∨
    (∃ m rest, s.c.drvIn = m :: rest ∧ (m.kind = .flush → s.shoot = false) ∧ s.handle = s.handleCp) ∨
    (∃ id rest, s.c.fault = none ∧ s.c.drvIn = [] ∧ s.later = .launch id :: rest ∧ s.handle = s.launch id rest) := by
  unfold CpS.handle
  by_cases hf : s.c.fault.isSome = true
  · left; rw [if_pos hf]
  · rw [if_neg hf]
    have hfn : s.c.fault = none := by
      cases h : s.c.fault with
      | none => rfl
      | some x => rw [h] at hf; simp at hf
    cases hd : s.c.drvIn with
    | nil =>
      cases hl : s.later with
      | nil => left; rfl
      | cons x rest =>
        cases x with
        | req m => left; rfl
        | shoot id => left; rfl
        | launch id => right; right; exact ⟨id, rest, hfn, rfl, rfl, rfl⟩
    | cons m rest =>
      simp only
      by_cases hk : m.kind = .flush ∧ s.shoot = true
      · left; rw [if_pos hk]
      · right; left
        rw [if_neg hk]
        refine ⟨m, rest, rfl, ?_, ?_⟩
        · intro hfl
          cases hs : s.shoot with
          | false => rfl
          | true => exact absurd ⟨hfl, hs⟩ hk
        · rfl

theorem CpS.dmaRsp_cases (s : CpS) :
    s.dmaRsp = (s, false) ∨
    (∃ c rest, s.c.fault = none ∧ s.c.dmaIn = c :: rest ∧ s.outLen < s.c.capDrv ∧
      ((∃ o k, (k = .h2d ∧ s.c.mapH.lookup c = some o ∨
                  k = .d2h ∧ s.c.mapH.lookup c = none ∧ s.c.mapD.lookup c = some o) ∧
          s.dmaRsp = (s.withC (s.c.copyDone c o k rest true) [.done o c k true], true)) ∨
       (s.c.mapH.lookup c = none ∧ s.c.mapD.lookup c = none ∧
          s.dmaRsp = (s.withC { s.c with fault := some "never" } [], true)))) := by
  have hroom : (s.cpView.drvOut.length < s.cpView.capDrv) ↔ s.outLen < s.c.capDrv := by
    show s.c.drvOut.length < s.c.capDrv - s.outEarlier.length ↔ _
    unfold CpS.outLen; omega
  unfold CpS.dmaRsp
  rcases Cp.dmaRsp_cases s.cpView with h | ⟨c, rest, hf, hd, hb, ⟨o, k, hl, h⟩ | ⟨hH, hD, h⟩⟩
  · left; rw [h, CpS.liftCp_noop]
  · right
    refine ⟨c, rest, hf, hd, hroom.1 hb, .inl ⟨o, k, hl, ?_⟩⟩
    rw [h, CpS.liftCp_eq s _ [.done o c k true] rfl]
    rfl
  · right
    refine ⟨c, rest, hf, hd, hroom.1 hb, .inr ⟨hH, hD, ?_⟩⟩
    rw [h, CpS.liftCp_eq s _ [] (by simp; rfl)]
    rfl

/-- `processCacheFlushRsp` without `shootDownInProcess` -/
theorem CpS.cacheRsp_cases (s : CpS) (hs : s.shoot = false) (hl1 : s.l1Inv = none) :
    s.cacheRsp = (s, false) ∨
    (∃ x rest n', s.c.fault = none ∧ s.c.cacheIn = x :: rest ∧ (0 < s.c.numAck → n' = s.c.numAck - 1) ∧
      ((n' ≠ 0 ∧ s.cacheRsp = (s.withC { s.c with numAck := n', cacheIn := rest, log := s.c.log ++ [.ack] } [.ack], true)) ∨
       (n' = 0 ∧ s.c.curFlush = none ∧
          s.cacheRsp = (s.withC
            { s.c with
              numAck := n'
              cacheIn := rest
              log := s.c.log ++ [.ack]
              fault := some "nilderef" } [.ack], true)) ∨
       (n' = 0 ∧ ∃ f, s.c.curFlush = some f ∧ s.outLen < s.c.capDrv ∧
          s.cacheRsp = (s.withC
            { s.c with
              numAck := 0
              cacheIn := rest
              curFlush := none
              drvOut := s.c.drvOut ++ [⟨f, .flush⟩]
              log := s.c.log ++ [.ack, .flushDone f true] }
            [.ack, .flushDone f true], true)))) := by
  have hroom : (s.cpView.drvOut.length < s.cpView.capDrv) ↔ s.outLen < s.c.capDrv := by
    show s.c.drvOut.length < s.c.capDrv - s.outEarlier.length ↔ _
    unfold CpS.outLen; omega
  rw [CpS.cacheRsp_of_not_shoot s hs hl1]
  rcases Cp.cacheRsp_cases s.cpView with h | ⟨x, rest, n', hf, hd, hn, ⟨hz, h⟩ | ⟨hz, hc, h⟩ | ⟨hz, f, hc, hb, h⟩⟩
  · left; rw [h, CpS.liftCp_noop]
  · right
    refine ⟨x, rest, n', hf, hd, hn, .inl ⟨hz, ?_⟩⟩
    rw [h, CpS.liftCp_eq s _ [.ack] rfl]
    rfl
  · right
    refine ⟨x, rest, n', hf, hd, hn, .inr (.inl ⟨hz, hc, ?_⟩)⟩
    rw [h, CpS.liftCp_eq s _ [.ack] rfl]
    rfl
  · right
    refine ⟨x, rest, n', hf, hd, hn, .inr (.inr ⟨hz, f, hc, hroom.1 hb, ?_⟩)⟩
    rw [h, CpS.liftCp_eq s _ [.ack, .flushDone f true] rfl]
    rfl

/-! ## 4. invariants of the shared component: stage by stage -/

def CpSEnv.withS (e : CpSEnv) (s : CpS) : CpSEnv := { e with s := s }

@[simp] theorem CpSEnv.withS_s (e : CpSEnv) (s : CpS) : (e.withS s).s = s := rfl
@[simp] theorem CpSEnv.withS_sent (e : CpSEnv) (s : CpS) : (e.withS s).sent = e.sent := rfl
@[simp] theorem CpSEnv.withS_shootSent (e : CpSEnv) (s : CpS) : (e.withS s).shootSent = e.shootSent := rfl
@[simp] theorem CpSEnv.withS_atDma (e : CpSEnv) (s : CpS) : (e.withS s).atDma = e.atDma := rfl
@[simp] theorem CpSEnv.withS_atCaches (e : CpSEnv) (s : CpS) : (e.withS s).atCaches = e.atCaches := rfl
@[simp] theorem CpSEnv.withS_atCU (e : CpSEnv) (s : CpS) : (e.withS s).atCU = e.atCU := rfl
@[simp] theorem CpSEnv.withS_atAT (e : CpSEnv) (s : CpS) : (e.withS s).atAT = e.atAT := rfl
@[simp] theorem CpSEnv.withS_atTLB (e : CpSEnv) (s : CpS) : (e.withS s).atTLB = e.atTLB := rfl
@[simp] theorem CpSEnv.withS_drained (e : CpSEnv) (s : CpS) : (e.withS s).drained = e.drained := rfl
@[simp] theorem CpSEnv.withS_dmaSeen (e : CpSEnv) (s : CpS) : (e.withS s).dmaSeen = e.dmaSeen := rfl
@[simp] theorem CpSEnv.withS_answered (e : CpSEnv) (s : CpS) : (e.withS s).answered = e.answered := rfl
@[simp] theorem CpSEnv.withS_withS (e : CpSEnv) (s t : CpS) : (e.withS s).withS t = e.withS t := rfl
@[simp] theorem CpSEnv.withS_self (e : CpSEnv) : e.withS e.s = e := rfl

/-- a predicate on the component and its environment that every stage of a pass preserves -/
structure CpsStagePres (P : CpSEnv → Prop) : Prop where
  handle : ∀ e, P e → P (e.withS e.s.handle.1)
  dmaRsp : ∀ e, P e → P (e.withS e.s.dmaRsp.1)
  hShoot : ∀ e, P e → P (e.withS e.s.hShoot.1)
  rCU : ∀ e, P e → P (e.withS e.s.rCU.1)
  rAT : ∀ e, P e → P (e.withS e.s.rAT.1)
  cacheRsp : ∀ e, P e → P (e.withS e.s.cacheRsp.1)
  rTLB : ∀ e, P e → P (e.withS e.s.rTLB.1)

theorem CpsStagePres.pass {P : CpSEnv → Prop} (h : CpsStagePres P) (e : CpSEnv) (he : P e) : P (e.withS e.s.pass.1) := by
  have h1 := h.handle e he
  have h2 := h.dmaRsp _ h1
  have h3 := h.hShoot _ h2
  have h4 := h.rCU _ h3
  have h5 := h.rAT _ h4
  have h6 := h.cacheRsp _ h5
  have h7 := h.rTLB _ h6
  simp only [CpSEnv.withS_s, CpSEnv.withS_withS] at h7
  exact h7

theorem CpsStagePres.tick {P : CpSEnv → Prop} (h : CpsStagePres P) (e : CpSEnv) (he : P e) : P (e.withS e.s.tick.1) := by
  unfold CpS.tick
  split
  · exact he
  · split
    · exact h.pass e he
    · have h1 := h.pass e he
      have h2 := h.pass _ h1
      simpa only [CpSEnv.withS_s, CpSEnv.withS_withS] using h2

/-- state after an arbitrary list of environment moves, arbitrary configuration -/
def reachCps (g : CpSCfg) (ops : List SOp) : CpSEnv := (CpSEnv.init g).run ops

theorem CpSEnv.run_append (e : CpSEnv) (a b : List SOp) : e.run (a ++ b) = (e.run a).run b := by
  induction a generalizing e with
  | nil => rfl
  | cons op a ih => exact ih _

theorem CpSEnv.run_pres {P : CpSEnv → Prop} (hstep : ∀ e op, P e → P (e.step op).1) (ops : List SOp) (e : CpSEnv)
    (h0 : P e) : P (e.run ops) := by
  induction ops generalizing e with
  | nil => exact h0
  | cons op ops ih => exact ih _ (hstep e op h0)

/-! ### events of the shared counter -/

/-- `numCacheACK++`: a cache flush request of the flush path, a reset request of the shootdown path or a
    kernel-start invalidation request -/
def SEv.isCacheAsk : SEv → Bool
  | .cp (.cacheReq _) => true
  | .reset _ _ => true
  | .inval _ _ => true
  | _ => false

/-- `numCacheACK--` -/
def SEv.isCacheAck : SEv → Bool
  | .cp .ack => true
  | .ackS => true
  | .ackI => true
  | _ => false

/-- a reset request lost by the unchecked `ToCaches.Send` -/
def SEv.isResetDrop : SEv → Bool
  | .reset _ false => true
  | _ => false

/-- a copy request handed to the DMA engine -/
def SEv.isFwd : SEv → Bool
  | .cp (.fwd ..) => true
  | _ => false

theorem cps_countP_sendEvs (p : SEv → Bool) (ev : Nat → Bool → SEv) (r : Nat) (ms : List Nat) :
    (sendEvs ev r ms).countP p =
      (ms.take r).countP (fun i => p (ev i true)) + (ms.drop r).countP (fun i => p (ev i false)) := by
  simp only [sendEvs, List.countP_append, List.countP_map]
  rfl

theorem cps_countP_map_cp (p : SEv → Bool) (l : List CpEv) : (l.map SEv.cp).countP p = l.countP (fun ev => p (.cp ev)) := by
  rw [List.countP_map]; rfl

theorem cps_countP_cacheReqs (l : List Nat) : (l.map CpEv.cacheReq).countP (fun ev => SEv.isCacheAsk (.cp ev)) = l.length := by
  rw [List.countP_map]
  have : ((fun ev => SEv.isCacheAsk (SEv.cp ev)) ∘ CpEv.cacheReq) = fun _ => true := by
    funext i; rfl
  rw [this, List.countP_true]

theorem cps_countP_cacheReqs_ack (l : List Nat) : (l.map CpEv.cacheReq).countP (fun ev => SEv.isCacheAck (.cp ev)) = 0 := by
  rw [List.countP_map]
  have : ((fun ev => SEv.isCacheAck (SEv.cp ev)) ∘ CpEv.cacheReq) = fun _ => false := by
    funext i; rfl
  rw [this, List.countP_false]
  rfl

theorem cps_countP_cacheReqs_drop (l : List Nat) : (l.map CpEv.cacheReq).countP (fun ev => SEv.isResetDrop (.cp ev)) = 0 := by
  rw [List.countP_map]
  have : ((fun ev => SEv.isResetDrop (SEv.cp ev)) ∘ CpEv.cacheReq) = fun _ => false := by
    funext i; rfl
  rw [this, List.countP_false]
  rfl

/-- before every forwarded copy in the log: as many `numCacheACK++` as `numCacheACK--`, no reset lost -/
def CpsFwdOk (log : List SEv) : Prop :=
  ∀ pre ev post, log = pre ++ ev :: post → ev.isFwd = true →
    pre.countP SEv.isCacheAsk = pre.countP SEv.isCacheAck ∧ pre.countP SEv.isResetDrop = 0

theorem CpsFwdOk.append_nofwd {l l2 : List SEv} (h : CpsFwdOk l) (h2 : ∀ ev ∈ l2, ev.isFwd = false) : CpsFwdOk (l ++ l2) := by
  intro pre ev post heq hf
  rcases List.append_eq_append_iff.1 heq with ⟨a', h1, h3⟩ | ⟨c', h1, h3⟩
  · -- pre = l ++ a', l2 = a' ++ ev :: post
    have : ev ∈ l2 := by rw [h3]; simp
    rw [h2 ev this] at hf; cases hf
  · -- l = pre ++ c', ev :: post = c' ++ l2
    cases c' with
    | nil =>
      simp only [List.nil_append] at h3
      have : ev ∈ l2 := by rw [← h3]; simp
      rw [h2 ev this] at hf; cases hf
    | cons x c' =>
      simp only [List.cons_append, List.cons.injEq] at h3
      obtain ⟨rfl, _⟩ := h3
      exact h pre ev c' h1 hf

theorem CpsFwdOk.snoc {l : List SEv} (h : CpsFwdOk l) (ev : SEv) (h1 : l.countP SEv.isCacheAsk = l.countP SEv.isCacheAck)
    (h2 : l.countP SEv.isResetDrop = 0) : CpsFwdOk (l ++ [ev]) := by
  intro pre ev' post heq hf
  rcases List.append_eq_append_iff.1 heq with ⟨a', h3, h4⟩ | ⟨c', h3, h4⟩
  · cases a' with
    | nil =>
      simp only [List.append_nil] at h3
      subst h3
      exact ⟨h1, h2⟩
    | cons x a' =>
      simp only [List.cons_append, List.cons.injEq] at h4
      have := h4.2
      simp at this
  · cases c' with
    | nil =>
      simp only [List.append_nil] at h3
      subst h3
      exact ⟨h1, h2⟩
    | cons x c' =>
      simp only [List.cons_append, List.cons.injEq] at h4
      obtain ⟨rfl, _⟩ := h4
      exact h pre ev' c' h3 hf

/-! ### the shared counter `numCacheACK` in every reachable state -/

structure CpsCacheInv (e : CpSEnv) : Prop where
  /-- the counter = requests in ToCaches + at the caches + acknowledgements waiting + requests lost -/
  count : e.s.c.numAck = e.s.c.cacheOut.length + e.atCaches.length + e.s.c.cacheIn.length + e.s.dropC
  asked : e.s.log.countP SEv.isCacheAsk = e.s.log.countP SEv.isCacheAck + e.s.c.numAck
  drops : e.s.log.countP SEv.isResetDrop = e.s.dropC
  fwd : CpsFwdOk e.s.log

theorem cps_countP_map_cp_drop (l : List CpEv) : (l.map SEv.cp).countP SEv.isResetDrop = 0 := by
  rw [List.countP_map]
  have : (SEv.isResetDrop ∘ SEv.cp) = fun _ => false := by
    funext ev; rfl
  rw [this, List.countP_false]
  rfl

theorem CpsCacheInv.withC {e : CpSEnv} (h : CpsCacheInv e) (c' : Cp) (evs : List CpEv) (a k : Nat)
    (ha : evs.countP (fun ev => SEv.isCacheAsk (.cp ev)) = a)
    (hk : evs.countP (fun ev => SEv.isCacheAck (.cp ev)) = k)
    (hn : c'.numAck + k = e.s.c.numAck + a)
    (hl : c'.cacheOut.length + c'.cacheIn.length + k = e.s.c.cacheOut.length + e.s.c.cacheIn.length + a)
    (hf : (∀ ev ∈ evs, SEv.isFwd (.cp ev) = false) ∨ (e.s.c.numAck = 0 ∧ ∃ ev, evs = [ev])) :
    CpsCacheInv (e.withS (e.s.withC c' evs)) := by
  obtain ⟨h1, h2, h3, h4⟩ := h
  refine ⟨?_, ?_, ?_, ?_⟩
  · show c'.numAck = c'.cacheOut.length + e.atCaches.length + c'.cacheIn.length + e.s.dropC
    omega
  · show (e.s.log ++ evs.map SEv.cp).countP SEv.isCacheAsk = (e.s.log ++ evs.map SEv.cp).countP SEv.isCacheAck + c'.numAck
    rw [List.countP_append, List.countP_append, cps_countP_map_cp, cps_countP_map_cp, ha, hk]
    omega
  · show (e.s.log ++ evs.map SEv.cp).countP SEv.isResetDrop = e.s.dropC
    rw [List.countP_append, cps_countP_map_cp_drop, Nat.add_zero]
    exact h3
  · show CpsFwdOk (e.s.log ++ evs.map SEv.cp)
    rcases hf with hf | ⟨hz, ev, rfl⟩
    · apply h4.append_nofwd
      intro ev hev
      obtain ⟨ev', hev', rfl⟩ := List.mem_map.1 hev
      exact hf ev' hev'
    · apply h4.snoc
      · omega
      · omega

theorem CpsCacheInv.of_eq {e e' : CpSEnv} (h : CpsCacheInv e) (h1 : e'.s.c.numAck = e.s.c.numAck)
    (h2 : e'.s.c.cacheOut = e.s.c.cacheOut) (h3 : e'.atCaches = e.atCaches) (h4 : e'.s.c.cacheIn = e.s.c.cacheIn)
    (h5 : e'.s.dropC = e.s.dropC) (h6 : e'.s.log = e.s.log) : CpsCacheInv e' := by
  obtain ⟨a, b, c, d⟩ := h
  exact ⟨by rw [h1, h2, h3, h4, h5]; exact a, by rw [h1, h6]; exact b, by rw [h5, h6]; exact c, by rw [h6]; exact d⟩

/-- appending events that do not concern the counter -/
theorem CpsCacheInv.of_log {e e' : CpSEnv} (h : CpsCacheInv e) (evs : List SEv) (h1 : e'.s.c.numAck = e.s.c.numAck)
    (h2 : e'.s.c.cacheOut = e.s.c.cacheOut) (h3 : e'.atCaches = e.atCaches) (h4 : e'.s.c.cacheIn = e.s.c.cacheIn)
    (h5 : e'.s.dropC = e.s.dropC) (h6 : e'.s.log = e.s.log ++ evs)
    (n1 : evs.countP SEv.isCacheAsk = 0) (n2 : evs.countP SEv.isCacheAck = 0) (n3 : evs.countP SEv.isResetDrop = 0)
    (n4 : ∀ ev ∈ evs, ev.isFwd = false) : CpsCacheInv e' := by
  obtain ⟨a, b, c, d⟩ := h
  refine ⟨by rw [h1, h2, h3, h4, h5]; exact a, ?_, ?_, ?_⟩
  · rw [h1, h6, List.countP_append, List.countP_append, n1, n2]; omega
  · rw [h5, h6, List.countP_append, n3]; exact c
  · rw [h6]; exact d.append_nofwd n4

theorem CpsCacheInv.handleCp (e : CpSEnv) (h : CpsCacheInv e) : CpsCacheInv (e.withS e.s.handleCp.1) := by
  rcases CpS.handleCp_cases e.s with h0 | ⟨m, rest, hf, hd, hn, hk, ⟨k, h1, h2, h0⟩ | ⟨h1, h0⟩ | ⟨h1, h2, h0⟩⟩ |
    ⟨m, rest, hf, hd, hn, hk, hb, h0⟩
  all_goals rw [h0]
  · exact h
  · refine h.withC _ _ k 0 ?_ ?_ ?_ ?_ (.inl ?_)
    · simp only [List.countP_cons, cps_countP_cacheReqs, List.length_range]
      simp [SEv.isCacheAsk]
    · simp only [List.countP_cons, cps_countP_cacheReqs_ack]
      simp [SEv.isCacheAck]
    · simp [Cp.flushAsk, hn]
    · simp [Cp.flushAsk]; omega
    · intro ev hev
      simp only [List.mem_cons, List.mem_map] at hev
      rcases hev with rfl | ⟨i, _, rfl⟩ <;> rfl
  · refine h.withC _ _ e.s.c.nCaches 0 ?_ ?_ ?_ ?_ (.inl ?_)
    · simp only [List.countP_cons, cps_countP_cacheReqs, List.length_range]
      simp [SEv.isCacheAsk]
    · simp only [List.countP_cons, cps_countP_cacheReqs_ack]
      simp [SEv.isCacheAck]
    · simp [Cp.flushAsk, hn]
    · simp [Cp.flushAsk]; omega
    · intro ev hev
      simp only [List.mem_cons, List.mem_map] at hev
      rcases hev with rfl | ⟨i, _, rfl⟩ <;> rfl
  · refine h.withC _ _ 0 0 ?_ ?_ ?_ ?_ (.inl ?_)
    · simp [SEv.isCacheAsk]
    · simp [SEv.isCacheAck]
    · simp
    · simp
    · intro ev hev
      simp only [List.mem_cons, List.mem_nil_iff, or_false] at hev
      rcases hev with rfl | rfl <;> rfl
  · refine h.withC _ _ 0 0 ?_ ?_ ?_ ?_ (.inr ⟨hn, _, rfl⟩)
    · simp [SEv.isCacheAsk]
    · simp [SEv.isCacheAck]
    · simp [Cp.copyFwd]
    · simp [Cp.copyFwd]

/-- the loop of `invalidateCache`: `k` requests were sent (all of them unless ToCaches ran full: panic) -/
theorem CpS.foldl_invalidate_shape (id : Nat) : ∀ (ms : List Nat) (s : CpS), s.c.fault = none →
    ∃ k, k ≤ ms.length ∧
      (ms.foldl (CpS.invalidate id) s).c.cacheOut = s.c.cacheOut ++ (ms.take k).map (invBase + ·) ∧
      (ms.foldl (CpS.invalidate id) s).c.numAck = s.c.numAck + k ∧
      (ms.foldl (CpS.invalidate id) s).c.cacheIn = s.c.cacheIn ∧
      (ms.foldl (CpS.invalidate id) s).dropC = s.dropC ∧
      (ms.foldl (CpS.invalidate id) s).log = s.log ++ (ms.take k).map (SEv.inval id) ∧
      ((ms.foldl (CpS.invalidate id) s).c.fault = none → k = ms.length)
  | [], s, _ => ⟨0, Nat.le_refl _, by simp, rfl, rfl, rfl, by simp, fun _ => rfl⟩
  | i :: ms, s, hf => by
    simp only [List.foldl_cons]
    by_cases hroom : s.c.cacheOut.length < s.c.capCache
    · have e1 : CpS.invalidate id s i =
          { s with c := { s.c with cacheOut := s.c.cacheOut ++ [invBase + i], numAck := s.c.numAck + 1 },
                   log := s.log ++ [.inval id i] } := by
        unfold CpS.invalidate; rw [hf]; simp [hroom]
      obtain ⟨k, hk, a1, a2, a3, a4, a5, a6⟩ := CpS.foldl_invalidate_shape id ms (CpS.invalidate id s i) (by rw [e1]; exact hf)
      refine ⟨k + 1, by simp; omega, ?_, ?_, ?_, ?_, ?_, ?_⟩
      · rw [a1, e1]; simp
      · rw [a2, e1]; simp; omega
      · rw [a3, e1]
      · rw [a4, e1]
      · rw [a5, e1]; simp
      · intro h; rw [a6 h]; simp
    · have e1 : CpS.invalidate id s i = { s with c := { s.c with fault := some "cache_send" } } := by
        unfold CpS.invalidate; rw [hf]; simp [hroom]
      have hstuck : ∀ (l : List Nat) (t : CpS), t.c.fault.isSome = true → l.foldl (CpS.invalidate id) t = t := by
        intro l
        induction l with
        | nil => intro t _; rfl
        | cons x xs ih =>
          intro t ht
          simp only [List.foldl_cons]
          have : CpS.invalidate id t x = t := by unfold CpS.invalidate; rw [if_pos ht]
          rw [this]; exact ih t ht
      rw [hstuck ms _ (by rw [e1]; rfl), e1]
      exact ⟨0, Nat.zero_le _, by simp, rfl, rfl, rfl, by simp, fun h => by simp at h⟩

/-- a stage that asks `k` caches (or none) and appends events that are not forwards -/
theorem CpsCacheInv.ofAsk {e e' : CpSEnv} (h : CpsCacheInv e) (k : Nat) (evs : List SEv)
    (h1 : e'.s.c.numAck = e.s.c.numAck + k) (h2 : e'.s.c.cacheOut.length = e.s.c.cacheOut.length + k)
    (h3 : e'.atCaches = e.atCaches) (h4 : e'.s.c.cacheIn = e.s.c.cacheIn) (h5 : e'.s.dropC = e.s.dropC)
    (h6 : e'.s.log = e.s.log ++ evs) (n1 : evs.countP SEv.isCacheAsk = k) (n2 : evs.countP SEv.isCacheAck = 0)
    (n3 : evs.countP SEv.isResetDrop = 0) (n4 : ∀ ev ∈ evs, ev.isFwd = false) : CpsCacheInv e' := by
  obtain ⟨a, b, c, d⟩ := h
  refine ⟨by rw [h1, h2, h3, h4, h5]; omega, ?_, ?_, ?_⟩
  · rw [h1, h6, List.countP_append, List.countP_append, n1, n2]; omega
  · rw [h5, h6, List.countP_append, n3]; exact c
  · rw [h6]; exact d.append_nofwd n4

theorem cps_countP_inval (id : Nat) (l : List Nat) :
    (l.map (SEv.inval id)).countP SEv.isCacheAsk = l.length ∧ (l.map (SEv.inval id)).countP SEv.isCacheAck = 0 ∧
    (l.map (SEv.inval id)).countP SEv.isResetDrop = 0 ∧ ∀ ev ∈ l.map (SEv.inval id), ev.isFwd = false := by
  refine ⟨?_, ?_, ?_, ?_⟩
  · rw [List.countP_map]
    have : (SEv.isCacheAsk ∘ SEv.inval id) = fun _ => true := by funext i; rfl
    rw [this, List.countP_true]
  · rw [List.countP_map]
    have : (SEv.isCacheAck ∘ SEv.inval id) = fun _ => false := by funext i; rfl
    rw [this, List.countP_false]; rfl
  · rw [List.countP_map]
    have : (SEv.isResetDrop ∘ SEv.inval id) = fun _ => false := by funext i; rfl
    rw [this, List.countP_false]; rfl
  · intro ev hev
    obtain ⟨i, _, rfl⟩ := List.mem_map.1 hev
    rfl

/-- `invalidateL1CachesBeforeKernel` keeps the account of the shared counter -/
theorem CpsCacheInv.launchGo (e : CpSEnv) (h : CpsCacheInv e) (hf : e.s.c.fault = none) (id : Nat) (rest : List SIn) :
    CpsCacheInv (e.withS (e.s.launchGo id rest).1) := by
  have hk : ∀ t : CpS, CpsCacheInv (e.withS t) → CpsCacheInv (e.withS (t.kstart id rest)) := by
    intro t ht
    refine ht.of_log [.kstart id] rfl rfl rfl rfl rfl rfl (by simp [SEv.isCacheAsk]) (by simp [SEv.isCacheAck])
      (by simp [SEv.isResetDrop]) ?_
    intro ev hev; simp at hev; subst hev; rfl
  unfold CpS.launchGo
  split
  · exact hk e.s h
  · split
    · exact hk e.s h
    · obtain ⟨k, hkl, a1, a2, a3, a4, a5, a6⟩ := CpS.foldl_invalidate_shape id e.s.ordInval e.s hf
      obtain ⟨c1, c2, c3, c4⟩ := cps_countP_inval id (e.s.ordInval.take k)
      have h1 : CpsCacheInv (e.withS (e.s.ordInval.foldl (CpS.invalidate id) e.s)) := by
        refine h.ofAsk k _ a2 (by simp only [CpSEnv.withS_s]; rw [a1]; simp; omega) rfl a3 a4 a5 ?_ c2 c3 c4
        rw [c1]; simp; omega
      simp only
      split
      · exact h1
      · split
        · exact hk _ h1
        · exact h1.of_eq rfl rfl rfl rfl rfl rfl

/-- `processLaunchKernelReq` keeps the account of the shared counter -/
theorem CpsCacheInv.launch (e : CpSEnv) (h : CpsCacheInv e) (hf : e.s.c.fault = none) (id : Nat) (rest : List SIn) :
    CpsCacheInv (e.withS (e.s.launch id rest).1) := by
  unfold CpS.launch
  split
  · exact h
  · split
    · exact h
    · split
      · exact h
      · exact CpsCacheInv.launchGo e h hf id rest

theorem CpsCacheInv.handle (e : CpSEnv) (h : CpsCacheInv e) : CpsCacheInv (e.withS e.s.handle.1) := by
  rcases CpS.handle_split e.s with h0 | ⟨m, rest, _, _, h0⟩ | ⟨id, rest, hf, _, _, h0⟩
  · rw [h0]; exact h
  · rw [h0]; exact CpsCacheInv.handleCp e h
  · rw [h0]; exact CpsCacheInv.launch e h hf id rest

theorem CpsCacheInv.dmaRsp (e : CpSEnv) (h : CpsCacheInv e) : CpsCacheInv (e.withS e.s.dmaRsp.1) := by
  rcases CpS.dmaRsp_cases e.s with h0 | ⟨c, rest, hf, hd, hb, ⟨o, k, hl, h0⟩ | ⟨hH, hD, h0⟩⟩
  all_goals rw [h0]
  · exact h
  · refine h.withC _ _ 0 0 ?_ ?_ ?_ ?_ (.inl ?_)
    · simp [SEv.isCacheAsk]
    · simp [SEv.isCacheAck]
    · simp [Cp.copyDone]
    · simp [Cp.copyDone]
    · intro ev hev
      simp only [List.mem_cons, List.mem_nil_iff, or_false] at hev
      subst hev; rfl
  · refine h.withC _ _ 0 0 ?_ ?_ ?_ ?_ (.inl ?_)
    · simp
    · simp
    · simp
    · simp
    · intro ev hev; cases hev

theorem cps_sendEvs_nofwd (ev : Nat → Bool → SEv) (hev : ∀ i b, (ev i b).isFwd = false) (r : Nat) (ms : List Nat) :
    ∀ x ∈ sendEvs ev r ms, x.isFwd = false := by
  intro x hx
  simp only [sendEvs, List.mem_append, List.mem_map] at hx
  rcases hx with ⟨i, _, rfl⟩ | ⟨i, _, rfl⟩ <;> exact hev _ _

theorem CpsCacheInv.hShoot (e : CpSEnv) (h : CpsCacheInv e) : CpsCacheInv (e.withS e.s.hShoot.1) := by
  unfold CpS.hShoot
  split
  · exact h
  · split
    · split
      · exact h
      · split
        · exact h
        · unfold CpS.shootAccept
          refine h.of_log _ rfl rfl rfl rfl rfl rfl ?_ ?_ ?_ ?_
          · rw [List.countP_cons, cps_countP_sendEvs]; simp [SEv.isCacheAsk]
          · rw [List.countP_cons, cps_countP_sendEvs]; simp [SEv.isCacheAck]
          · rw [List.countP_cons, cps_countP_sendEvs]; simp [SEv.isResetDrop]
          · intro ev hev
            rcases List.mem_cons.1 hev with rfl | hev
            · rfl
            · exact cps_sendEvs_nofwd _ (fun _ _ => rfl) _ _ ev hev
    · exact h

theorem CpsCacheInv.rCU (e : CpSEnv) (h : CpsCacheInv e) : CpsCacheInv (e.withS e.s.rCU.1) := by
  unfold CpS.rCU
  split
  · exact h
  · split
    · exact h
    · simp only []
      split
      · refine h.of_log (.cuAck :: sendEvs .atReq (e.s.capAT - e.s.atOut.length) (List.range e.s.nAT))
          rfl rfl rfl rfl rfl (by simp) ?_ ?_ ?_ ?_
        · rw [List.countP_cons, cps_countP_sendEvs]; simp [SEv.isCacheAsk]
        · rw [List.countP_cons, cps_countP_sendEvs]; simp [SEv.isCacheAck]
        · rw [List.countP_cons, cps_countP_sendEvs]; simp [SEv.isResetDrop]
        · intro ev hev
          rcases List.mem_cons.1 hev with rfl | hev
          · rfl
          · exact cps_sendEvs_nofwd _ (fun _ _ => rfl) _ _ ev hev
      · refine h.of_log [.cuAck] rfl rfl rfl rfl rfl rfl ?_ ?_ ?_ ?_
        · simp [SEv.isCacheAsk]
        · simp [SEv.isCacheAck]
        · simp [SEv.isResetDrop]
        · intro ev hev; simp at hev; subst hev; rfl

theorem CpsCacheInv.rTLB (e : CpSEnv) (h : CpsCacheInv e) : CpsCacheInv (e.withS e.s.rTLB.1) := by
  unfold CpS.rTLB
  split
  · exact h
  · split
    · exact h
    · simp only []
      split
      · split
        · refine h.of_log [.tlbAck, .shootDone (e.s.curShoot.getD 0) true] rfl rfl rfl rfl rfl (by simp) ?_ ?_ ?_ ?_
          · simp [SEv.isCacheAsk]
          · simp [SEv.isCacheAck]
          · simp [SEv.isResetDrop]
          · intro ev hev; simp at hev; rcases hev with rfl | rfl <;> rfl
        · refine h.of_log [.tlbAck, .shootDone (e.s.curShoot.getD 0) false] rfl rfl rfl rfl rfl (by simp) ?_ ?_ ?_ ?_
          · simp [SEv.isCacheAsk]
          · simp [SEv.isCacheAck]
          · simp [SEv.isResetDrop]
          · intro ev hev; simp at hev; rcases hev with rfl | rfl <;> rfl
      · refine h.of_log [.tlbAck] rfl rfl rfl rfl rfl rfl ?_ ?_ ?_ ?_
        · simp [SEv.isCacheAsk]
        · simp [SEv.isCacheAck]
        · simp [SEv.isResetDrop]
        · intro ev hev; simp at hev; subst hev; rfl

theorem cps_length_take_add_drop {α} (r : Nat) (l : List α) : (l.take r).length + (l.drop r).length = l.length := by
  rw [← List.length_append, List.take_append_drop]

theorem CpsCacheInv.rAT (e : CpSEnv) (h : CpsCacheInv e) : CpsCacheInv (e.withS e.s.rAT.1) := by
  unfold CpS.rAT
  split
  · exact h
  · split
    · exact h
    · split
      · simp only []
        split
        · obtain ⟨h1, h2, h3, h4⟩ := h
          have hl := cps_length_take_add_drop (e.s.c.capCache - e.s.c.cacheOut.length) e.s.ordReset
          simp only [CpS.ordReset] at hl
          refine ⟨?_, ?_, ?_, ?_⟩
          · simp only [CpSEnv.withS_s, CpSEnv.withS_atCaches, List.length_append, List.length_map, CpS.ordReset]
              at hl ⊢
            omega
          · simp only [CpSEnv.withS_s, List.countP_append, cps_countP_sendEvs, CpS.ordReset]
            simp only [SEv.isCacheAsk, SEv.isCacheAck, List.countP_true, List.countP_false, List.countP_cons,
              List.countP_nil]
            simp only [List.length_append] at hl ⊢
            simp
            omega
          · simp only [CpSEnv.withS_s, List.countP_append, cps_countP_sendEvs, CpS.ordReset]
            simp only [SEv.isResetDrop, List.countP_true, List.countP_false, List.countP_cons, List.countP_nil]
            simp
            omega
          · simp only [CpSEnv.withS_s]
            apply CpsFwdOk.append_nofwd
            · apply h4.append_nofwd
              intro ev hev; simp at hev; subst hev; rfl
            · exact cps_sendEvs_nofwd _ (fun _ _ => rfl) _ _
        · refine h.of_log [.atAck] rfl rfl rfl rfl rfl rfl ?_ ?_ ?_ ?_
          · simp [SEv.isCacheAsk]
          · simp [SEv.isCacheAck]
          · simp [SEv.isResetDrop]
          · intro ev hev; simp at hev; subst hev; rfl
      · exact h.of_eq rfl rfl rfl rfl rfl rfl

theorem CpsCacheInv.cacheRsp (e : CpSEnv) (h : CpsCacheInv e) : CpsCacheInv (e.withS e.s.cacheRsp.1) := by
  by_cases hs : e.s.shoot = false ∧ e.s.l1Inv = none
  · rcases CpS.cacheRsp_cases e.s hs.1 hs.2 with h0 | ⟨x, rest, n', hf, hd, hn, ⟨hz, h0⟩ | ⟨hz, hc, h0⟩ | ⟨hz, f, hc, hb, h0⟩⟩
    all_goals rw [h0]
    · exact h
    all_goals
      have hpos : 0 < e.s.c.numAck := by
        have := h.count; rw [hd] at this; simp at this; omega
      have hn' := hn hpos
    · refine h.withC _ _ 0 1 ?_ ?_ ?_ ?_ (.inl ?_)
      · simp [SEv.isCacheAsk]
      · simp [SEv.isCacheAck]
      · simp; omega
      · simp [hd]; omega
      · intro ev hev; simp at hev; subst hev; rfl
    · refine h.withC _ _ 0 1 ?_ ?_ ?_ ?_ (.inl ?_)
      · simp [SEv.isCacheAsk]
      · simp [SEv.isCacheAck]
      · simp; omega
      · simp [hd]; omega
      · intro ev hev; simp at hev; subst hev; rfl
    · refine h.withC _ _ 0 1 ?_ ?_ ?_ ?_ (.inl ?_)
      · simp [SEv.isCacheAsk]
      · simp [SEv.isCacheAck]
      · simp; omega
      · simp [hd]; omega
      · intro ev hev; simp at hev; rcases hev with rfl | rfl <;> rfl
  by_cases hs1 : e.s.shoot = false
  · -- an acknowledgement of the kernel-start invalidation: `numCacheACK--`, nothing else
    have hl : e.s.l1Inv.isSome = true := by
      cases hh : e.s.l1Inv with
      | none => exact absurd ⟨hs1, hh⟩ hs
      | some x => rfl
    unfold CpS.cacheRsp
    split
    · exact h
    · split
      · exact h
      · rename_i x rest hd
        have hpos : 0 < e.s.c.numAck := by
          have := h.count; rw [hd] at this; simp at this; omega
        have hdec : dec64 e.s.c.numAck = e.s.c.numAck - 1 := by
          unfold dec64; rw [if_neg (by omega)]
        split
        · exact h
        · simp only [hs1, Bool.false_eq_true, if_false, hl, if_true]
          obtain ⟨h1, h2, h3, h4⟩ := h
          rw [hd] at h1
          simp only [List.length_cons] at h1
          refine ⟨?_, ?_, ?_, ?_⟩
          · simp only [CpSEnv.withS_s, CpSEnv.withS_atCaches, hdec]; omega
          · simp only [CpSEnv.withS_s, List.countP_append, hdec]
            simp [SEv.isCacheAsk, SEv.isCacheAck]
            omega
          · simp only [CpSEnv.withS_s, List.countP_append]
            simp [SEv.isResetDrop]
            exact h3
          · simp only [CpSEnv.withS_s]
            apply h4.append_nofwd
            intro ev hev; simp at hev; subst hev; rfl
  · have hs' : e.s.shoot = true := by
      cases h : e.s.shoot <;> simp_all
    unfold CpS.cacheRsp
    split
    · exact h
    · split
      · exact h
      · rename_i x rest hd
        have hpos : 0 < e.s.c.numAck := by
          have := h.count; rw [hd] at this; simp at this; omega
        have hdec : dec64 e.s.c.numAck = e.s.c.numAck - 1 := by
          unfold dec64; rw [if_neg (by omega)]
        rw [if_neg (by rw [hs']; simp)]
        simp only [hs']
        obtain ⟨h1, h2, h3, h4⟩ := h
        rw [hd] at h1
        simp only [List.length_cons] at h1
        split
        · refine ⟨?_, ?_, ?_, ?_⟩
          · simp only [CpSEnv.withS_s, CpSEnv.withS_atCaches, hdec]; omega
          · simp only [CpSEnv.withS_s, List.countP_append, cps_countP_sendEvs, hdec]
            simp [SEv.isCacheAsk, SEv.isCacheAck]
            omega
          · simp only [CpSEnv.withS_s, List.countP_append, cps_countP_sendEvs]
            simp [SEv.isResetDrop]
            exact h3
          · simp only [CpSEnv.withS_s]
            apply CpsFwdOk.append_nofwd
            · apply h4.append_nofwd
              intro ev hev; simp at hev; subst hev; rfl
            · exact cps_sendEvs_nofwd _ (fun _ _ => rfl) _ _
        · refine ⟨?_, ?_, ?_, ?_⟩
          · simp only [CpSEnv.withS_s, CpSEnv.withS_atCaches, hdec]; omega
          · simp only [CpSEnv.withS_s, List.countP_append, hdec]
            simp [SEv.isCacheAsk, SEv.isCacheAck]
            omega
          · simp only [CpSEnv.withS_s, List.countP_append]
            simp [SEv.isResetDrop]
            exact h3
          · simp only [CpSEnv.withS_s]
            apply h4.append_nofwd
            intro ev hev; simp at hev; subst hev; rfl

theorem CpsCacheInv.stages : CpsStagePres CpsCacheInv :=
  ⟨CpsCacheInv.handle, CpsCacheInv.dmaRsp, CpsCacheInv.hShoot, CpsCacheInv.rCU, CpsCacheInv.rAT, CpsCacheInv.cacheRsp, CpsCacheInv.rTLB⟩

theorem CpsCacheInv.step (e : CpSEnv) (op : SOp) (h : CpsCacheInv e) : CpsCacheInv (e.step op).1 := by
  cases op with
  | cp op =>
    cases op with
    | req k =>
      simp only [CpSEnv.step]
      split
      · split
        · exact h.of_eq rfl rfl rfl rfl rfl rfl
        · exact h.of_eq rfl rfl rfl rfl rfl rfl
      · exact h
    | tick => exact CpsCacheInv.stages.tick e h
    | takeDma k => exact h.of_eq rfl rfl rfl rfl rfl rfl
    | takeCache k =>
      obtain ⟨h1, h2, h3, h4⟩ := h
      refine ⟨?_, h2, h3, h4⟩
      have := cps_length_take_add_drop k e.s.c.cacheOut
      simp only [CpSEnv.step, List.length_append]
      omega
    | takeDrv k => exact h.of_eq rfl rfl rfl rfl rfl rfl
    | ack j =>
      simp only [CpSEnv.step]
      split
      · exact h
      · split
        · exact h
        · rename_i hne _
          obtain ⟨h1, h2, h3, h4⟩ := h
          refine ⟨?_, h2, h3, h4⟩
          have hpos : 0 < e.atCaches.length := by
            cases hA : e.atCaches with
            | nil => exact absurd hA (by simpa using hne)
            | cons a l => simp
          have hlt := Nat.mod_lt j hpos
          simp only [List.length_append, List.length_singleton, List.length_eraseIdx, hlt, if_true]
          omega
    | rsp j =>
      simp only [CpSEnv.step]
      split
      · exact h
      · split
        · exact h
        · split
          · exact h
          · exact h.of_eq rfl rfl rfl rfl rfl rfl
  | shoot =>
    simp only [CpSEnv.step]
    split
    · exact h.of_eq rfl rfl rfl rfl rfl rfl
    · exact h
  | take c k => cases c <;> exact h.of_eq rfl rfl rfl rfl rfl rfl
  | ack c j =>
    simp only [CpSEnv.step]
    split
    · exact h
    · split
      · exact h
      · cases c <;> exact h.of_eq rfl rfl rfl rfl rfl rfl
  | query => exact h
  | launch =>
    simp only [CpSEnv.step]
    split
    · exact h.of_eq rfl rfl rfl rfl rfl rfl
    · exact h
  | kdone =>
    simp only [CpSEnv.step]
    split
    · exact h
    · exact h.of_eq rfl rfl rfl rfl rfl rfl

theorem CpsCacheInv.init (g : CpSCfg) : CpsCacheInv (CpSEnv.init g) := by
  refine ⟨rfl, rfl, rfl, ?_⟩
  intro pre ev post heq
  simp [CpSEnv.init] at heq

theorem cps_reach_cacheInv (g : CpSCfg) (ops : List SOp) : CpsCacheInv (reachCps g ops) :=
  CpSEnv.run_pres CpsCacheInv.step ops _ (CpsCacheInv.init g)

/-! ## 5. specification-side definitions for `Props/C11CpShare.lean` -/

/-- nothing in flight anywhere: all port buffers empty, no component holds an unacknowledged request -/
def CpSEnv.quiet (e : CpSEnv) : Prop :=
  e.s.c.drvIn = [] ∧ e.s.later = [] ∧ e.s.outEarlier = [] ∧ e.s.c.drvOut = [] ∧ e.s.c.dmaOut = [] ∧
  e.s.c.dmaIn = [] ∧ e.s.c.cacheOut = [] ∧ e.s.c.cacheIn = [] ∧ e.s.cuOut = [] ∧ e.s.cuIn = [] ∧ e.s.atOut = [] ∧
  e.s.atIn = [] ∧ e.s.tlbOut = [] ∧ e.s.tlbIn = [] ∧ e.atDma = [] ∧ e.atCaches = [] ∧ e.atCU = [] ∧ e.atAT = [] ∧
  e.atTLB = []

/-- every class has a component and every loop of `Send`s fits into an empty outgoing buffer -/
def CpSCfg.Roomy (g : CpSCfg) : Prop :=
  0 < g.nCU ∧ 0 < g.nAT ∧ 0 < g.nTLB ∧ 0 < g.nCaches ∧ g.nCU ≤ g.capCU ∧ g.nAT ≤ g.capAT ∧ g.nTLB ≤ g.capTLB ∧
  g.nCaches ≤ g.capCache

/-- the driver has taken exactly one answer per accepted copy / flush request and one
    `ShootdownCompleteRsp` per accepted shootdown command -/
def CpSEnv.allAnswered (e : CpSEnv) : Prop :=
  (e.drained.filterMap SOut.ans?).Perm e.sent ∧ e.drained.countP SOut.isDone = e.shootSent

/-! ## 6. serialised runs: the projection that hides the shootdown's use of `numCacheACK` -/

/-- the copy / flush environment seen through the shared component: the driver port without the
    shootdown commands and launch requests, ToDriver without the `ShootdownCompleteRsp`s, and — while
    `shootDownInProcess` or while a kernel-start invalidation is outstanding (`l1InvalidatedFor != nil`) —
    the counter and the cache port as the flush path left them (0 / empty: the users of the counter are
    serialised) -/
def CpSEnv.proj (e : CpSEnv) : CpEnv :=
  { s := { e.s.c with
           drvIn := e.s.c.drvIn ++ e.s.later.filterMap SIn.req?
           drvOut := e.s.outEarlier.filterMap SOut.ans? ++ e.s.c.drvOut
           numAck := if e.s.shoot || e.s.l1Inv.isSome then 0 else e.s.c.numAck
           cacheOut := if e.s.shoot || e.s.l1Inv.isSome then [] else e.s.c.cacheOut
           cacheIn := if e.s.shoot || e.s.l1Inv.isSome then [] else e.s.c.cacheIn }
    sent := e.sent
    atDma := e.atDma
    atCaches := if e.s.shoot || e.s.l1Inv.isSome then [] else e.atCaches
    drained := e.drained.filterMap SOut.ans?
    dmaSeen := e.dmaSeen
    answered := e.answered }

/-- the transitions of `CpTr` plus a change of `currFlushRequest` while `numCacheACK == 0` (where no
    invariant reads it) -/
inductive CpsTr : CpEnv → CpEnv → Prop
  | tr {a b : CpEnv} : CpTr a b → CpsTr a b
  | cur (a : CpEnv) (cf : Option Nat) (h : a.s.numAck = 0) : CpsTr a (a.withS { a.s with curFlush := cf })

inductive CpsSteps : CpEnv → CpEnv → Prop
  | refl (e : CpEnv) : CpsSteps e e
  | tail {a b c : CpEnv} : CpsSteps a b → CpsTr b c → CpsSteps a c

theorem CpsSteps.trans {a b c : CpEnv} (h1 : CpsSteps a b) (h2 : CpsSteps b c) : CpsSteps a c := by
  induction h2 with
  | refl => exact h1
  | tail _ t ih => exact .tail ih t

theorem CpsSteps.single {a b : CpEnv} (t : CpTr a b) : CpsSteps a b := .tail (.refl a) (.tr t)

theorem CpsSteps.single_eq {a b b' : CpEnv} (t : CpTr a b') (h : b' = b) : CpsSteps a b := h ▸ CpsSteps.single t

theorem CpsSteps.of_eq {a b : CpEnv} (h : a = b) : CpsSteps a b := h ▸ CpsSteps.refl a

theorem CpInvAll.cps_cur {a : CpEnv} (h : CpInvAll a) (cf : Option Nat) (hn : a.s.numAck = 0) :
    CpInvAll (a.withS { a.s with curFlush := cf }) := by
  obtain ⟨⟨ha, q, hq, hw, hg⟩, hp, hr, hc⟩ := h
  refine ⟨⟨ha, q, hq, hw, fun hf => ⟨(hg hf).1, fun hpos => ?_⟩⟩, ?_, ⟨hr.rsps⟩, ?_⟩
  · exact absurd hpos (by show ¬ 0 < a.s.numAck; omega)
  · exact hp.of_eq rfl rfl (fun hf => ⟨hf, rfl⟩)
  · exact ⟨hc.clones, hc.cids, hc.mapH_fwd, hc.mapD_fwd, hc.done_nokey, hc.done_ans, hc.done_pre, hc.done_orig,
      hc.flight_nodup, hc.flight_key, hc.atDma_seen, hc.dmaIn_ans, hc.ans_seen, hc.ans_nodup, hc.seen_acc⟩

theorem CpsTr.inv {a b : CpEnv} (t : CpsTr a b) (h : CpInvAll a) (hcap : a.s.nCaches ≤ a.s.capCache)
    (hf : a.s.fault = none) :
    CpInvAll b ∧ b.s.fault = none ∧ b.s.nCaches = a.s.nCaches ∧ b.s.capCache = a.s.capCache := by
  cases t with
  | tr t => exact ⟨h.tr t, h.no_fault_tr hcap hf t, t.cfg.1, t.cfg.2⟩
  | cur cf hn => exact ⟨h.cps_cur cf hn, hf, rfl, rfl⟩

theorem CpsSteps.inv {a b : CpEnv} (t : CpsSteps a b) (h : CpInvAll a) (hcap : a.s.nCaches ≤ a.s.capCache)
    (hf : a.s.fault = none) :
    CpInvAll b ∧ b.s.fault = none ∧ b.s.nCaches = a.s.nCaches ∧ b.s.capCache = a.s.capCache := by
  induction t with
  | refl => exact ⟨h, hf, rfl, rfl⟩
  | tail _ t ih =>
    obtain ⟨i1, i2, i3, i4⟩ := ih
    obtain ⟨j1, j2, j3, j4⟩ := t.inv i1 (by rw [i3, i4]; exact hcap) i2
    exact ⟨j1, j2, j3.trans i3, j4.trans i4⟩

/-! ## 7. what the driver has outstanding -/

def cpsIsFlushMsg (m : CpMsg) : Bool := decide (m.kind = .flush)

def SIn.isShoot : SIn → Bool
  | .shoot _ => true
  | _ => false

def SIn.isLaunch : SIn → Bool
  | .launch _ => true
  | _ => false

/-- the driver has sent a flush request whose answer it has not yet received -/
def CpSEnv.flushOut (e : CpSEnv) : Bool :=
  decide ((e.drained.filterMap SOut.ans?).countP cpsIsFlushMsg < e.sent.countP cpsIsFlushMsg)

/-- the driver has sent a shootdown command whose `ShootdownCompleteRsp` it has not yet received -/
def CpSEnv.shootOut (e : CpSEnv) : Bool := decide (e.drained.countP SOut.isDone < e.shootSent)

/-! ### what the flush-path invariants say about the driver's view -/

/-- copy events carry a copy kind -/
def CpEv.cpsKindOk : CpEv → Bool
  | .fwd _ _ .flush _ => false
  | .done _ _ .flush _ => false
  | _ => true

def CpsLogKinds (a : CpEnv) : Prop := ∀ ev ∈ a.s.log, ev.cpsKindOk = true

theorem CpsLogKinds.append {a b : CpEnv} (h : CpsLogKinds a) (l : List CpEv) (hl : b.s.log = a.s.log ++ l)
    (hk : ∀ ev ∈ l, ev.cpsKindOk = true) : CpsLogKinds b := by
  intro ev hev
  rw [hl] at hev
  rcases List.mem_append.1 hev with h1 | h1
  · exact h ev h1
  · exact hk ev h1

theorem CpsLogKinds.tr {a b : CpEnv} (h : CpsLogKinds a) (t : CpTr a b) : CpsLogKinds b := by
  cases t with
  | flushFault m rest k hf hd hn hk hkn hcap =>
    refine h.append (.flushStart m.id :: (List.range k).map CpEv.cacheReq) rfl ?_
    intro ev hev
    simp only [List.mem_cons, List.mem_map] at hev
    rcases hev with rfl | ⟨i, _, rfl⟩ <;> rfl
  | flushOk m rest hf hd hn hk hpos =>
    refine h.append (.flushStart m.id :: (List.range a.s.nCaches).map CpEv.cacheReq) rfl ?_
    intro ev hev
    simp only [List.mem_cons, List.mem_map] at hev
    rcases hev with rfl | ⟨i, _, rfl⟩ <;> rfl
  | flushZero m rest b hf hd hn hk hz hb =>
    refine h.append [.flushStart m.id, .flushDone m.id b] rfl ?_
    intro ev hev
    simp only [List.mem_cons, List.mem_nil_iff, or_false] at hev
    rcases hev with rfl | rfl <;> rfl
  | copy m rest b hf hd hn hk hb =>
    refine h.append [.fwd m.id a.s.nextCid m.kind b] rfl ?_
    intro ev hev
    simp only [List.mem_cons, List.mem_nil_iff, or_false] at hev
    subst hev
    cases hm : m.kind with
    | flush => exact absurd hm hk
    | h2d => rfl
    | d2h => rfl
  | done c rest o k b hf hd hl hb =>
    refine h.append [.done o c k b] rfl ?_
    intro ev hev
    simp only [List.mem_cons, List.mem_nil_iff, or_false] at hev
    subst hev
    rcases hl with ⟨rfl, _⟩ | ⟨rfl, _⟩ <;> rfl
  | never c rest hf hd hH hD => exact h
  | ackDec x rest n' hf hd hn hz =>
    refine h.append [.ack] rfl ?_
    intro ev hev; simp at hev; subst hev; rfl
  | nilderef x rest n' hf hd hn hz hcur =>
    refine h.append [.ack] rfl ?_
    intro ev hev; simp at hev; subst hev; rfl
  | ackFinal x rest n' f b hf hd hn hz hc hb =>
    refine h.append [.ack, .flushDone f b] rfl ?_
    intro ev hev
    simp only [List.mem_cons, List.mem_nil_iff, or_false] at hev
    rcases hev with rfl | rfl <;> rfl
  | req k hlt => exact h
  | takeDma k => exact h
  | takeCache k => exact h
  | takeDrv k => exact h
  | ackEnv j x hj => exact h
  | rspEnv j c hj => exact h

theorem cps_countP_popped (l : List CpEv) (hk : ∀ ev ∈ l, ev.cpsKindOk = true) :
    (l.filterMap CpEv.popped?).countP cpsIsFlushMsg = (l.filterMap CpEv.flushStart?).length := by
  induction l with
  | nil => rfl
  | cons ev l ih =>
    have ih := ih (fun ev' h' => hk ev' (List.mem_cons_of_mem _ h'))
    have h0 := hk ev (List.mem_cons_self ..)
    cases ev with
    | flushStart f => simp [CpEv.popped?, CpEv.flushStart?, cpsIsFlushMsg, ih]
    | fwd o c k b =>
      cases k with
      | flush => simp [CpEv.cpsKindOk] at h0
      | h2d => simp [List.filterMap_cons, CpEv.popped?, CpEv.flushStart?, cpsIsFlushMsg, ih]
      | d2h => simp [List.filterMap_cons, CpEv.popped?, CpEv.flushStart?, cpsIsFlushMsg, ih]
    | cacheReq i => simpa [List.filterMap_cons, CpEv.popped?, CpEv.flushStart?] using ih
    | ack => simpa [List.filterMap_cons, CpEv.popped?, CpEv.flushStart?] using ih
    | flushDone f b => simpa [List.filterMap_cons, CpEv.popped?, CpEv.flushStart?] using ih
    | done o c k b => simpa [List.filterMap_cons, CpEv.popped?, CpEv.flushStart?] using ih

theorem cps_countP_rsp_le (l : List CpEv) (hk : ∀ ev ∈ l, ev.cpsKindOk = true) :
    (l.filterMap CpEv.rsp?).countP cpsIsFlushMsg ≤ (l.filterMap CpEv.flushDone?).length := by
  induction l with
  | nil => exact Nat.le_refl _
  | cons ev l ih =>
    have ih := ih (fun ev' h' => hk ev' (List.mem_cons_of_mem _ h'))
    have h0 := hk ev (List.mem_cons_self ..)
    cases ev with
    | flushDone f b =>
      cases b <;> simp [List.filterMap_cons, CpEv.rsp?, CpEv.flushDone?, cpsIsFlushMsg] <;> omega
    | done o c k b =>
      cases k with
      | flush => simp [CpEv.cpsKindOk] at h0
      | h2d => cases b <;> simp [List.filterMap_cons, CpEv.rsp?, CpEv.flushDone?, cpsIsFlushMsg] <;> omega
      | d2h => cases b <;> simp [List.filterMap_cons, CpEv.rsp?, CpEv.flushDone?, cpsIsFlushMsg] <;> omega
    | flushStart f => simpa [List.filterMap_cons, CpEv.rsp?, CpEv.flushDone?] using ih
    | cacheReq i => simpa [List.filterMap_cons, CpEv.rsp?, CpEv.flushDone?] using ih
    | ack => simpa [List.filterMap_cons, CpEv.rsp?, CpEv.flushDone?] using ih
    | fwd o c k b => simpa [List.filterMap_cons, CpEv.rsp?, CpEv.flushDone?] using ih

/-- when the driver has an answer for every flush request it sent: no flush request waits in the
    port, no flush is open, `numCacheACK` is 0 and the cache port is empty -/
theorem CpInvAll.cps_flush_idle {a : CpEnv} (h : CpInvAll a) (hlk : CpsLogKinds a) (hf : a.s.fault = none)
    (hd : ¬ a.drained.countP cpsIsFlushMsg < a.sent.countP cpsIsFlushMsg) :
    (∀ m ∈ a.s.drvIn, m.kind ≠ .flush) ∧ a.s.numAck = 0 ∧ a.s.cacheOut = [] ∧ a.atCaches = [] ∧ a.s.cacheIn = [] := by
  obtain ⟨⟨ha, q, hq, hw, hg⟩, hp, hr, hc⟩ := h
  obtain ⟨r, hr1, hr2⟩ := hp.popped
  rw [hr2 hf] at hr1
  have hsi := specInv_of_run hq
  have h1 : a.sent.countP cpsIsFlushMsg = (a.s.log.filterMap CpEv.flushStart?).length + a.s.drvIn.countP cpsIsFlushMsg := by
    rw [hr1, List.countP_append, cps_countP_popped _ hlk]
  have h2 : a.drained.countP cpsIsFlushMsg ≤ (a.s.log.filterMap CpEv.flushDone?).length := by
    have := cps_countP_rsp_le a.s.log hlk
    rw [← hr.rsps, List.countP_append] at this
    omega
  have h3 : (a.s.log.filterMap CpEv.flushStart?).length = (a.s.log.filterMap CpEv.flushDone?).length + q.cur.toList.length := by
    rw [hsi.starts, List.length_append]
  have h4 : a.s.drvIn.countP cpsIsFlushMsg = 0 := by omega
  have h5 : q.cur = none := by
    cases hcur : q.cur with
    | none => rfl
    | some f => rw [hcur] at h3; simp at h3; omega
  have h6 : a.s.numAck = 0 := by rw [← hw]; exact hsi.idle h5
  refine ⟨?_, h6, ?_, ?_, ?_⟩
  · intro m hm hk
    have := List.countP_eq_zero.1 h4 m hm
    simp [cpsIsFlushMsg, hk] at this
  all_goals
    rw [h6] at ha
    apply List.eq_nil_of_length_eq_zero
    omega

/-! ## 8. the invariant of all runs: the three users of `numCacheACK` are serialised by the component itself -/

theorem CpsSteps.kinds {a b : CpEnv} (t : CpsSteps a b) (h : CpsLogKinds a) : CpsLogKinds b := by
  induction t with
  | refl => exact h
  | tail _ t ih =>
    cases t with
    | tr t => exact ih.tr t
    | cur cf hn => exact ih

/-- the configuration of the shared component -/
def CpS.cfg (s : CpS) : CpSCfg :=
  { nCU := s.nCU, nAT := s.nAT, nTLB := s.nTLB, nI := s.nI, nS := s.nS, nV := s.nV, n2 := s.n2,
    capIn := s.c.capIn, capDrv := s.c.capDrv, capDma := s.c.capDma, capCache := s.c.capCache,
    capCU := s.capCU, capAT := s.capAT, capTLB := s.capTLB, nDisp := s.nDisp }

/-- `l1InvalidatedFor != nil`: no shootdown is in process and the launch request is the head of the port -/
def CpsLinv (e : CpSEnv) : Prop :=
  ∀ id, e.s.l1Inv = some id → e.s.shoot = false ∧ e.s.c.drvIn = [] ∧ ∃ rest, e.s.later = .launch id :: rest

theorem cpsLinv_of_none {e : CpSEnv} (h : e.s.l1Inv = none) : CpsLinv e := by
  intro id hid; rw [h] at hid; cases hid

/-- the shootdown's bookkeeping in every run (configuration `g`, `g.Roomy`) -/
structure CpsSerRest (g : CpSCfg) (e : CpSEnv) : Prop where
  cache : CpsCacheInv e
  cfg : e.s.cfg = g
  ncaches : e.s.c.nCaches = g.nCaches
  /-- each counter = requests in the port + at the components + acknowledgements waiting -/
  kcu : e.s.numCU = e.s.cuOut.length + e.atCU.length + e.s.cuIn.length
  kat : e.s.numAT = e.s.atOut.length + e.atAT.length + e.s.atIn.length
  ktlb : e.s.numTLB = e.s.tlbOut.length + e.atTLB.length + e.s.tlbIn.length
  nodrop : e.s.dropCU = 0 ∧ e.s.dropAT = 0 ∧ e.s.dropC = 0 ∧ e.s.dropTLB = 0
  idle : e.s.shoot = false → e.s.numCU = 0 ∧ e.s.numAT = 0 ∧ e.s.numTLB = 0
  /-- the four phases of a shootdown exclude each other -/
  phase : e.s.shoot = true →
    (e.s.numCU = 0 ∨ (e.s.numAT = 0 ∧ e.s.c.numAck = 0 ∧ e.s.numTLB = 0)) ∧
    (e.s.numAT = 0 ∨ (e.s.c.numAck = 0 ∧ e.s.numTLB = 0)) ∧ (e.s.c.numAck = 0 ∨ e.s.numTLB = 0)
  /-- a shootdown in process waits for somebody -/
  live : e.s.shoot = true → 0 < e.s.numCU + e.s.numAT + e.s.c.numAck + e.s.numTLB
  book : e.shootSent = e.s.later.countP SIn.isShoot + e.drained.countP SOut.isDone +
    e.s.outEarlier.countP SOut.isDone + e.s.dropDone + (if e.s.shoot then 1 else 0)
  /-- while a kernel-start invalidation is outstanding no shootdown is in process and the launch request
      it belongs to is still the head of the driver port -/
  linv : CpsLinv e

structure CpsSerInv (g : CpSCfg) (e : CpSEnv) : Prop where
  inv : CpInvAll e.proj
  kinds : CpsLogKinds e.proj
  nf : e.s.c.fault = none
  rest : CpsSerRest g e

theorem CpsSerRest.l1_none_of_shoot {g : CpSCfg} {e : CpSEnv} (h : CpsSerRest g e) (hs : e.s.shoot = true) :
    e.s.l1Inv = none := by
  cases hl : e.s.l1Inv with
  | none => rfl
  | some id => have := (h.linv id hl).1; rw [hs] at this; cases this

theorem CpsSerRest.l1_none_of_drvIn {g : CpSCfg} {e : CpSEnv} (h : CpsSerRest g e) (m : CpMsg) (rest : List CpMsg)
    (hd : e.s.c.drvIn = m :: rest) : e.s.l1Inv = none := by
  cases hl : e.s.l1Inv with
  | none => rfl
  | some id => have := (h.linv id hl).2.1; rw [hd] at this; cases this

theorem CpsSerRest.l1_none_of_later {g : CpSCfg} {e : CpSEnv} (h : CpsSerRest g e)
    (hne : ∀ id rest, e.s.later ≠ .launch id :: rest) : e.s.l1Inv = none := by
  cases hl : e.s.l1Inv with
  | none => rfl
  | some id => obtain ⟨rest, hr⟩ := (h.linv id hl).2.2; exact absurd hr (hne id rest)

theorem CpsLinv.append {e e' : CpSEnv} (h : CpsLinv e) (x : List SIn) (h1 : e'.s.l1Inv = e.s.l1Inv)
    (h2 : e'.s.shoot = e.s.shoot) (h3 : e'.s.c.drvIn = e.s.c.drvIn) (h4 : e'.s.later = e.s.later ++ x) : CpsLinv e' := by
  intro id hid
  rw [h1] at hid
  obtain ⟨a, b, rest, c⟩ := h id hid
  exact ⟨h2.trans a, h3.trans b, rest ++ x, by rw [h4, c]; rfl⟩

theorem CpsSerInv.of_steps {g : CpSCfg} {e e' : CpSEnv} (h : CpsSerInv g e) (hr : g.Roomy) (t : CpsSteps e.proj e'.proj)
    (r : CpsSerRest g e') : CpsSerInv g e' := by
  have hcap : e.proj.s.nCaches ≤ e.proj.s.capCache := by
    show e.s.c.nCaches ≤ e.s.c.capCache
    have h1 := h.rest.ncaches
    have h2 : e.s.c.capCache = g.capCache := by rw [← h.rest.cfg]; rfl
    rw [h1, h2]; exact hr.2.2.2.2.2.2.2
  obtain ⟨i1, i2, _, _⟩ := t.inv h.inv hcap h.nf
  exact ⟨i1, t.kinds h.kinds, i2, r⟩

/-- with the counter at 0 and no shootdown in process the flush path's part of the cache port is empty -/
theorem CpsSerInv.idle_of_zero {g : CpSCfg} {e : CpSEnv} (h : CpsSerInv g e) (hs : e.s.shoot = false)
    (hl1 : e.s.l1Inv = none) (hn : e.s.c.numAck = 0) : e.s.c.cacheOut = [] ∧ e.atCaches = [] ∧ e.s.c.cacheIn = [] := by
  have := h.inv.flush.acks
  simp only [CpSEnv.proj, hs, hl1, Option.isSome_none, Bool.or_false, Bool.false_eq_true, if_false, hn] at this
  refine ⟨?_, ?_, ?_⟩ <;> apply List.eq_nil_of_length_eq_zero <;> omega

/-- a stage of the copy / flush path leaves the shootdown's bookkeeping alone -/
theorem CpsSerRest.withC {g : CpSCfg} {e : CpSEnv} (h : CpsSerRest g e) (c' : Cp) (evs : List CpEv)
    (hcfg : Cp.CpsSameCfg c' e.s.c) (hcache : CpsCacheInv (e.withS (e.s.withC c' evs)))
    (hnum : e.s.shoot = true → c'.numAck = e.s.c.numAck)
    (hdrv : ∀ id, e.s.l1Inv = some id → c'.drvIn = []) : CpsSerRest g (e.withS (e.s.withC c' evs)) := by
  obtain ⟨c1, c2, c3, c4, c5⟩ := hcfg
  refine ⟨hcache, ?_, c1.trans h.ncaches, h.kcu, h.kat, h.ktlb, h.nodrop, h.idle, ?_, ?_, h.book,
    fun id hid => ⟨(h.linv id hid).1, hdrv id hid, (h.linv id hid).2.2⟩⟩
  · rw [← h.cfg]
    simp only [CpS.cfg, CpSEnv.withS_s, CpS.withC, c2, c3, c4, c5]
  · intro hs
    have := h.phase hs
    simp only [CpSEnv.withS_s, CpS.withC, hnum hs]
    exact this
  · intro hs
    have := h.live hs
    simp only [CpSEnv.withS_s, CpS.withC, hnum hs]
    exact this

/-! ## 9. every stage of a pass, seen through the projection -/

theorem CpsSerInv.handleCp {g : CpSCfg} (hr : g.Roomy) (e : CpSEnv) (h : CpsSerInv g e) (hl1 : e.s.l1Inv = none)
    (hsf : ∀ m rest, e.s.c.drvIn = m :: rest → m.kind = .flush → e.s.shoot = false) :
    CpsSerInv g (e.withS e.s.handleCp.1) := by
  have hci := CpsCacheInv.handleCp e h.rest.cache
  rcases CpS.handleCp_cases e.s with h0 | ⟨m, rest, hf, hd, hn, hk, ⟨k, h1, h2, h0⟩ | ⟨h1, h0⟩ | ⟨h1, h2, h0⟩⟩ |
    ⟨m, rest, hf, hd, hn, hk, hb, h0⟩
  · rw [h0]; exact h
  all_goals
    rw [h0] at hci ⊢
    have hdp : e.proj.s.drvIn = m :: (rest ++ e.s.later.filterMap SIn.req?) := by
      simp [CpSEnv.proj, hd]
  · -- `processFlushReq`, ToCaches full
    have hs : e.s.shoot = false := hsf m rest hd hk
    refine h.of_steps hr ?_ (h.rest.withC _ _ ⟨rfl, rfl, rfl, rfl, rfl⟩ hci (fun hs' => by simp [hs] at hs') (fun id hid => by rw [hl1] at hid; cases hid))
    refine .single_eq (CpTr.flushFault e.proj m _ k hf hdp (by simp [CpSEnv.proj, hs, hl1, hn]) hk h1
      (by simp [CpSEnv.proj, hs, hl1]; exact h2)) ?_
    simp [CpSEnv.proj, CpEnv.withS, Cp.flushAsk, CpS.withC, hs, hl1, CpSEnv.withS]
  · -- `processFlushReq`, all caches asked
    have hs : e.s.shoot = false := hsf m rest hd hk
    refine h.of_steps hr ?_ (h.rest.withC _ _ ⟨rfl, rfl, rfl, rfl, rfl⟩ hci (fun hs' => by simp [hs] at hs') (fun id hid => by rw [hl1] at hid; cases hid))
    refine .single_eq (CpTr.flushOk e.proj m _ hf hdp (by simp [CpSEnv.proj, hs, hl1, hn]) hk h1) ?_
    simp [CpSEnv.proj, CpEnv.withS, Cp.flushAsk, CpS.withC, hs, hl1, CpSEnv.withS]
  · -- `processFlushReq` without caches
    have hs : e.s.shoot = false := hsf m rest hd hk
    refine h.of_steps hr ?_ (h.rest.withC _ _ ⟨rfl, rfl, rfl, rfl, rfl⟩ hci (fun hs' => by simp [hs] at hs') (fun id hid => by rw [hl1] at hid; cases hid))
    have hroom : e.proj.s.drvOut.length < e.proj.s.capDrv := by
      have := List.length_filterMap_le SOut.ans? e.s.outEarlier
      simp only [CpSEnv.proj, List.length_append]
      unfold CpS.outLen at h2
      omega
    refine .single_eq (CpTr.flushZero e.proj m _ true hf hdp (by simp [CpSEnv.proj, hs, hl1, hn]) hk h1 (by simp [hroom])) ?_
    simp [CpSEnv.proj, CpEnv.withS, CpS.withC, hs, hl1, CpSEnv.withS]
  · -- `processMemCopyReq`
    refine h.of_steps hr ?_ (h.rest.withC _ _ ⟨rfl, rfl, rfl, rfl, rfl⟩ hci (fun _ => rfl) (fun id hid => by rw [hl1] at hid; cases hid))
    have hnp : e.proj.s.numAck = 0 := by
      simp only [CpSEnv.proj]; split <;> simp [hn]
    refine .single_eq (CpTr.copy e.proj m _ true hf hdp hnp hk (by simp [CpSEnv.proj]; exact hb)) ?_
    simp [CpSEnv.proj, CpEnv.withS, Cp.copyFwd, CpS.withC, CpSEnv.withS]

theorem CpS.proj_room {e : CpSEnv} (h : e.s.outLen < e.s.c.capDrv) : e.proj.s.drvOut.length < e.proj.s.capDrv := by
  have := List.length_filterMap_le SOut.ans? e.s.outEarlier
  simp only [CpSEnv.proj, List.length_append]
  unfold CpS.outLen at h
  omega

theorem CpsSerInv.dmaRsp {g : CpSCfg} (hr : g.Roomy) (e : CpSEnv) (h : CpsSerInv g e) : CpsSerInv g (e.withS e.s.dmaRsp.1) := by
  have hci := CpsCacheInv.dmaRsp e h.rest.cache
  rcases CpS.dmaRsp_cases e.s with h0 | ⟨c, rest, hf, hd, hb, ⟨o, k, hl, h0⟩ | ⟨hH, hD, h0⟩⟩
  · rw [h0]; exact h
  all_goals
    rw [h0] at hci ⊢
    refine h.of_steps hr ?_ (h.rest.withC _ _ ⟨rfl, rfl, rfl, rfl, rfl⟩ hci (fun _ => rfl)
      (fun id hid => (h.rest.linv id hid).2.1))
  · refine .single_eq (CpTr.done e.proj c rest o k true hf hd hl (by simp [CpS.proj_room hb])) ?_
    simp [CpSEnv.proj, CpEnv.withS, Cp.copyDone, CpS.withC, CpSEnv.withS]
  · refine .single_eq (CpTr.never e.proj c rest hf hd hH hD) ?_
    simp [CpSEnv.proj, CpEnv.withS, CpS.withC, CpSEnv.withS]

/-- `processCacheFlushRsp` while `shootDownInProcess` -/
theorem CpS.cacheRsp_shoot (s : CpS) (hs : s.shoot = true) (x : Nat) (rest : List Nat) (hd : s.c.cacheIn = x :: rest)
    (hf : s.c.fault = none) (hpos : 0 < s.c.numAck) :
    s.cacheRsp =
      if s.c.numAck - 1 = 0 then
        ({ s with
           c := { s.c with numAck := s.c.numAck - 1, cacheIn := rest, curFlush := none }
           numTLB := s.numTLB + s.nTLB
           tlbOut := s.tlbOut ++ (List.range s.nTLB).take (s.capTLB - s.tlbOut.length)
           dropTLB := s.dropTLB + ((List.range s.nTLB).drop (s.capTLB - s.tlbOut.length)).length
           log := s.log ++ [.ackS] ++ sendEvs .tlbReq (s.capTLB - s.tlbOut.length) (List.range s.nTLB) }, true)
      else
        ({ s with c := { s.c with numAck := s.c.numAck - 1, cacheIn := rest }, log := s.log ++ [.ackS] }, true) := by
  have hdec : dec64 s.c.numAck = s.c.numAck - 1 := by
    unfold dec64; rw [if_neg (by omega)]
  unfold CpS.cacheRsp
  rw [if_neg (by simp [hf])]
  simp only [hd, hs, hdec]
  rw [if_neg (by simp)]
  simp only [if_true]

theorem cps_seg_length (a n : Nat) : (cpsSeg a n).length = n := by simp [cpsSeg]

theorem CpsSerRest.roomy {g : CpSCfg} {e : CpSEnv} (h : CpsSerRest g e) (hr : g.Roomy) :
    0 < e.s.nCU ∧ 0 < e.s.nAT ∧ 0 < e.s.nTLB ∧ 0 < e.s.c.nCaches ∧ e.s.nCU ≤ e.s.capCU ∧ e.s.nAT ≤ e.s.capAT ∧
      e.s.nTLB ≤ e.s.capTLB ∧ e.s.c.nCaches ≤ e.s.c.capCache ∧ e.s.ordReset.length = e.s.c.nCaches := by
  have hn := h.ncaches
  have hc := h.cfg
  subst hc
  obtain ⟨r1, r2, r3, r4, r5, r6, r7, r8⟩ := hr
  rw [← hn] at r4 r8
  refine ⟨r1, r2, r3, r4, r5, r6, r7, r8, ?_⟩
  rw [hn]
  simp only [CpS.ordReset, List.length_append, cps_seg_length, CpSCfg.nCaches, CpS.cfg]
  omega

theorem cps_length_take_of_le {α} {r : Nat} {l : List α} (h : l.length ≤ r) : (l.take r).length = l.length := by
  rw [List.length_take]; omega

theorem cps_length_drop_of_le {α} {r : Nat} {l : List α} (h : l.length ≤ r) : (l.drop r).length = 0 := by
  rw [List.length_drop]; omega

theorem CpsSteps.cur_eq {a b : CpEnv} (cf : Option Nat) (h : a.s.numAck = 0)
    (heq : a.withS { a.s with curFlush := cf } = b) : CpsSteps a b :=
  heq ▸ CpsSteps.tail (.refl a) (.cur a cf h)

/-- `processCacheFlushRsp` while a kernel-start invalidation is outstanding (no shootdown in process) -/
theorem CpS.cacheRsp_inval (s : CpS) (hs : s.shoot = false) (id : Nat) (hl : s.l1Inv = some id) :
    s.cacheRsp = (s, false) ∨
    ∃ x rest, s.c.cacheIn = x :: rest ∧
      s.cacheRsp = ({ s with c := { s.c with numAck := dec64 s.c.numAck, cacheIn := rest }, log := s.log ++ [.ackI] }, true) := by
  unfold CpS.cacheRsp
  by_cases hf : s.c.fault.isSome = true
  · left; rw [if_pos hf]
  · rw [if_neg hf]
    cases hd : s.c.cacheIn with
    | nil => left; rfl
    | cons x rest =>
      simp only
      by_cases hg : s.c.numAck = 1 ∧ s.shoot = false ∧ ¬ s.outLen < s.c.capDrv
      · left; rw [if_pos hg]
      · right
        rw [if_neg hg]
        refine ⟨x, rest, rfl, ?_⟩
        simp [hs, hl]

theorem CpsSerInv.cacheRsp {g : CpSCfg} (hr : g.Roomy) (e : CpSEnv) (h : CpsSerInv g e) :
    CpsSerInv g (e.withS e.s.cacheRsp.1) := by
  have hci := CpsCacheInv.cacheRsp e h.rest.cache
  cases hs : e.s.shoot with
  | false =>
    cases hl1 : e.s.l1Inv with
    | some id =>
      rcases CpS.cacheRsp_inval e.s hs id hl1 with h0 | ⟨x, rest, hd, h0⟩
      · rw [h0]; exact h
      · rw [h0] at hci ⊢
        refine h.of_steps hr (.of_eq ?_) ?_
        · simp [CpSEnv.proj, CpSEnv.withS, hs, hl1]
        · refine ⟨hci, h.rest.cfg, h.rest.ncaches, h.rest.kcu, h.rest.kat, h.rest.ktlb, h.rest.nodrop, h.rest.idle,
            ?_, ?_, h.rest.book, h.rest.linv⟩
          · intro hs'
            have : e.s.shoot = true := hs'
            rw [hs] at this; cases this
          · intro hs'
            have : e.s.shoot = true := hs'
            rw [hs] at this; cases this
    | none =>
    rcases CpS.cacheRsp_cases e.s hs hl1 with h0 | ⟨x, rest, n', hf, hd, hn, ⟨hz, h0⟩ | ⟨hz, hc, h0⟩ | ⟨hz, f, hc, hb, h0⟩⟩
    · rw [h0]; exact h
    all_goals
      rw [h0] at hci ⊢
      refine h.of_steps hr ?_ (h.rest.withC _ _ ⟨rfl, rfl, rfl, rfl, rfl⟩ hci (fun hs' => by simp [hs] at hs')
        (fun id hid => by rw [hl1] at hid; cases hid))
      have hdp : e.proj.s.cacheIn = x :: rest := by simp [CpSEnv.proj, hs, hl1, hd]
      have hnp : 0 < e.proj.s.numAck → n' = e.proj.s.numAck - 1 := by simpa [CpSEnv.proj, hs, hl1] using hn
    · refine .single_eq (CpTr.ackDec e.proj x rest n' hf hdp hnp hz) ?_
      simp [CpSEnv.proj, CpEnv.withS, CpS.withC, CpSEnv.withS, hs, hl1]
    · refine .single_eq (CpTr.nilderef e.proj x rest n' hf hdp hnp hz hc) ?_
      simp [CpSEnv.proj, CpEnv.withS, CpS.withC, CpSEnv.withS, hs, hl1]
    · refine .single_eq (CpTr.ackFinal e.proj x rest n' f true hf hdp hnp hz hc (by simp [CpS.proj_room hb])) ?_
      simp [CpSEnv.proj, CpEnv.withS, CpS.withC, CpSEnv.withS, hs, hl1]
  | true =>
    cases hd : e.s.c.cacheIn with
    | nil =>
      have : e.s.cacheRsp = (e.s, false) := by
        unfold CpS.cacheRsp; simp [hd]
      rw [this]; exact h
    | cons x rest =>
      have hl1 := h.rest.l1_none_of_shoot hs
      obtain ⟨ro1, ro2, ro3, ro4, ro5, ro6, ro7, ro8, ro9⟩ := h.rest.roomy hr
      have hcnt := h.rest.cache.count
      rw [hd] at hcnt
      simp only [List.length_cons] at hcnt
      have hpos : 0 < e.s.c.numAck := by omega
      have hph := h.rest.phase hs
      have hcu : e.s.numCU = 0 := by omega
      have hat : e.s.numAT = 0 := by omega
      have htl : e.s.numTLB = 0 := by omega
      have hkt := h.rest.ktlb
      have hto : e.s.tlbOut = [] := List.eq_nil_of_length_eq_zero (by omega)
      rw [CpS.cacheRsp_shoot e.s hs x rest hd h.nf hpos] at hci ⊢
      split
      · rename_i hz
        rw [if_pos hz] at hci
        refine h.of_steps hr ?_ ?_
        · have hnp : e.proj.s.numAck = 0 := by simp [CpSEnv.proj, hs]
          refine CpsSteps.cur_eq none hnp ?_
          simp [CpSEnv.proj, CpEnv.withS, CpSEnv.withS, hs]
        · have hlen : ((List.range e.s.nTLB).take (e.s.capTLB - e.s.tlbOut.length)).length = e.s.nTLB := by
            rw [cps_length_take_of_le (by rw [hto]; simp; omega)]; simp
          have hdrop : ((List.range e.s.nTLB).drop (e.s.capTLB - e.s.tlbOut.length)).length = 0 :=
            cps_length_drop_of_le (by rw [hto]; simp; omega)
          refine ⟨hci, h.rest.cfg, h.rest.ncaches, h.rest.kcu, h.rest.kat, ?_, ?_, ?_, ?_, ?_, h.rest.book, cpsLinv_of_none hl1⟩
          · show e.s.numTLB + e.s.nTLB = (e.s.tlbOut ++ _).length + e.atTLB.length + e.s.tlbIn.length
            rw [List.length_append, hlen]; omega
          · obtain ⟨d1, d2, d3, d4⟩ := h.rest.nodrop
            exact ⟨d1, d2, d3, by show e.s.dropTLB + _ = 0; rw [hdrop, d4]⟩
          · intro hs'; exact absurd hs (by simpa using hs')
          · intro _
            show (e.s.numCU = 0 ∨ _) ∧ (e.s.numAT = 0 ∨ _) ∧ (e.s.c.numAck - 1 = 0 ∨ _)
            exact ⟨.inl hcu, .inl hat, .inl hz⟩
          · intro _
            show 0 < e.s.numCU + e.s.numAT + (e.s.c.numAck - 1) + (e.s.numTLB + e.s.nTLB)
            omega
      · rename_i hz
        rw [if_neg hz] at hci
        refine h.of_steps hr (.of_eq ?_) ?_
        · simp [CpSEnv.proj, CpSEnv.withS, hs]
        · refine ⟨hci, h.rest.cfg, h.rest.ncaches, h.rest.kcu, h.rest.kat, h.rest.ktlb, h.rest.nodrop, ?_, ?_, ?_,
            h.rest.book, cpsLinv_of_none hl1⟩
          · intro hs'; exact absurd hs (by simpa using hs')
          · intro _
            show (e.s.numCU = 0 ∨ _) ∧ (e.s.numAT = 0 ∨ _) ∧ (_ ∨ e.s.numTLB = 0)
            exact ⟨.inl hcu, .inl hat, .inr htl⟩
          · intro _
            show 0 < e.s.numCU + e.s.numAT + (e.s.c.numAck - 1) + e.s.numTLB
            omega

theorem cps_filterMap_req_split (l : List SIn) :
    (l.takeWhile SIn.isReq).filterMap SIn.req? ++ (l.dropWhile SIn.isReq).filterMap SIn.req? = l.filterMap SIn.req? := by
  rw [← List.filterMap_append, List.takeWhile_append_dropWhile]

theorem cps_countP_shoot_dropWhile (l : List SIn) :
    (l.dropWhile SIn.isReq).countP SIn.isShoot = l.countP SIn.isShoot := by
  induction l with
  | nil => rfl
  | cons a l ih =>
    cases a with
    | req m => simp [List.dropWhile_cons, SIn.isReq, SIn.isShoot, ih]
    | shoot id => simp [SIn.isReq]
    | launch id => simp [SIn.isReq]

/-- `processShootdownCommand` accepted -/
theorem CpS.hShoot_accept (s : CpS) (hf : s.c.fault = none) (hd : s.c.drvIn = []) (id : Nat) (rest : List SIn)
    (hl : s.later = .shoot id :: rest) (hs : s.shoot = false) (hn : s.c.numAck = 0) :
    s.hShoot =
      ({ s with
         shoot := true
         curShoot := some id
         numCU := s.numCU + s.nCU
         cuOut := s.cuOut ++ (List.range s.nCU).take (s.capCU - s.cuOut.length)
         dropCU := s.dropCU + ((List.range s.nCU).drop (s.capCU - s.cuOut.length)).length
         c := { s.c with drvIn := (rest.takeWhile SIn.isReq).filterMap SIn.req? }
         later := rest.dropWhile SIn.isReq
         log := s.log ++ .shootStart id :: sendEvs .cuReq (s.capCU - s.cuOut.length) (List.range s.nCU) }, true) := by
  unfold CpS.hShoot
  rw [if_neg (by simp [hf])]
  simp only [hd, hl, hs]
  rw [if_neg (by decide), if_neg (by omega)]
  rfl

theorem CpS.hShoot_noop (s : CpS)
    (h : s.c.fault.isSome = true ∨ s.c.drvIn ≠ [] ∨ s.shoot = true ∨ 0 < s.c.numAck ∨
      ∀ id rest, s.later ≠ .shoot id :: rest) :
    s.hShoot = (s, false) := by
  unfold CpS.hShoot
  split
  · rfl
  · split
    · split
      · rfl
      · split
        · rfl
        · exfalso
          rcases h with h | h | h | h | h
          · simp_all
          · simp_all
          · simp_all
          · omega
          · simp_all
    · rfl

theorem CpsSerInv.hShoot {g : CpSCfg} (hr : g.Roomy) (e : CpSEnv) (h : CpsSerInv g e) : CpsSerInv g (e.withS e.s.hShoot.1) := by
  have hci := CpsCacheInv.hShoot e h.rest.cache
  by_cases hno : e.s.c.fault.isSome = true ∨ e.s.c.drvIn ≠ [] ∨ e.s.shoot = true ∨ 0 < e.s.c.numAck ∨
      ∀ id rest, e.s.later ≠ .shoot id :: rest
  · rw [CpS.hShoot_noop e.s hno]; exact h
  · have hd : e.s.c.drvIn = [] := by
      cases hd : e.s.c.drvIn with
      | nil => rfl
      | cons a l => exact absurd (.inr (.inl (by simp [hd]))) hno
    have hs : e.s.shoot = false := by
      cases hs : e.s.shoot with
      | false => rfl
      | true => exact absurd (.inr (.inr (.inl hs))) hno
    have f2 : e.s.c.numAck = 0 := by
      apply Decidable.byContradiction; intro hne
      exact hno (.inr (.inr (.inr (.inl (by omega)))))
    have hl : ∃ id rest, e.s.later = .shoot id :: rest := by
      apply Classical.byContradiction
      intro hc
      exact hno (.inr (.inr (.inr (.inr (fun id rest heq => hc ⟨id, rest, heq⟩)))))
    obtain ⟨id, rest, hl⟩ := hl
    obtain ⟨ro1, ro2, ro3, ro4, ro5, ro6, ro7, ro8, ro9⟩ := h.rest.roomy hr
    have hl1 : e.s.l1Inv = none := h.rest.l1_none_of_later (by rw [hl]; intro id' rest' hc; cases hc)
    obtain ⟨f3, f4, f5⟩ := h.idle_of_zero hs hl1 f2
    obtain ⟨i1, i2, i3⟩ := h.rest.idle hs
    have hkc := h.rest.kcu
    have hco : e.s.cuOut = [] := List.eq_nil_of_length_eq_zero (by omega)
    have hlen : ((List.range e.s.nCU).take (e.s.capCU - e.s.cuOut.length)).length = e.s.nCU := by
      rw [cps_length_take_of_le (by rw [hco]; simp; omega)]; simp
    have hdrop : ((List.range e.s.nCU).drop (e.s.capCU - e.s.cuOut.length)).length = 0 :=
      cps_length_drop_of_le (by rw [hco]; simp; omega)
    rw [CpS.hShoot_accept e.s h.nf hd id rest hl hs f2] at hci ⊢
    refine h.of_steps hr (.of_eq ?_) ?_
    · simp [CpSEnv.proj, CpSEnv.withS, hs, hl1, hd, hl, f2, f3, f4, f5, SIn.req?, cps_filterMap_req_split, List.filterMap_cons]
    · refine ⟨hci, h.rest.cfg, h.rest.ncaches, ?_, h.rest.kat, h.rest.ktlb, ?_, ?_, ?_, ?_, ?_,
        cpsLinv_of_none hl1⟩
      · show e.s.numCU + e.s.nCU = (e.s.cuOut ++ _).length + e.atCU.length + e.s.cuIn.length
        rw [List.length_append, hlen]; omega
      · obtain ⟨d1, d2, d3, d4⟩ := h.rest.nodrop
        exact ⟨by show e.s.dropCU + _ = 0; rw [hdrop, d1], d2, d3, d4⟩
      · intro hs'; cases hs'
      · intro _
        show (_ ∨ (e.s.numAT = 0 ∧ e.s.c.numAck = 0 ∧ e.s.numTLB = 0)) ∧ (e.s.numAT = 0 ∨ _) ∧ (e.s.c.numAck = 0 ∨ _)
        exact ⟨.inr ⟨i2, f2, i3⟩, .inl i2, .inl f2⟩
      · intro _
        show 0 < e.s.numCU + e.s.nCU + e.s.numAT + e.s.c.numAck + e.s.numTLB
        omega
      · have hb := h.rest.book
        rw [hl, hs] at hb
        simp only [List.countP_cons, SIn.isShoot, if_true, Bool.false_eq_true, if_false] at hb
        show e.shootSent = (rest.dropWhile SIn.isReq).countP SIn.isShoot + e.drained.countP SOut.isDone +
          e.s.outEarlier.countP SOut.isDone + e.s.dropDone + (if true = true then 1 else 0)
        rw [cps_countP_shoot_dropWhile]
        simp only [if_true]
        omega

theorem cps_dec64_pos {n : Nat} (h : 0 < n) : dec64 n = n - 1 := by
  unfold dec64; rw [if_neg (by omega)]

/-- `processCUPipelineFlushRsp` -/
theorem CpS.rCU_cons (s : CpS) (hf : s.c.fault = none) (x : Nat) (rest : List Nat) (hd : s.cuIn = x :: rest)
    (hpos : 0 < s.numCU) :
    s.rCU =
      if s.numCU - 1 = 0 then
        ({ s with
           numCU := s.numCU - 1
           cuIn := rest
           numAT := s.numAT + s.nAT
           atOut := s.atOut ++ (List.range s.nAT).take (s.capAT - s.atOut.length)
           dropAT := s.dropAT + ((List.range s.nAT).drop (s.capAT - s.atOut.length)).length
           log := s.log ++ [.cuAck] ++ sendEvs .atReq (s.capAT - s.atOut.length) (List.range s.nAT) }, true)
      else ({ s with numCU := s.numCU - 1, cuIn := rest, log := s.log ++ [.cuAck] }, true) := by
  unfold CpS.rCU
  rw [if_neg (by simp [hf])]
  simp only [hd, cps_dec64_pos hpos]

theorem CpsSerInv.rCU {g : CpSCfg} (hr : g.Roomy) (e : CpSEnv) (h : CpsSerInv g e) : CpsSerInv g (e.withS e.s.rCU.1) := by
  have hci := CpsCacheInv.rCU e h.rest.cache
  cases hd : e.s.cuIn with
  | nil =>
    have : e.s.rCU = (e.s, false) := by unfold CpS.rCU; simp [hd]
    rw [this]; exact h
  | cons x rest =>
    obtain ⟨ro1, ro2, ro3, ro4, ro5, ro6, ro7, ro8, ro9⟩ := h.rest.roomy hr
    have hkc := h.rest.kcu
    rw [hd] at hkc
    simp only [List.length_cons] at hkc
    have hpos : 0 < e.s.numCU := by omega
    have hs : e.s.shoot = true := by
      cases hs : e.s.shoot with
      | true => rfl
      | false => have := (h.rest.idle hs).1; omega
    have hph := h.rest.phase hs
    have hl1 := h.rest.l1_none_of_shoot hs
    have hat : e.s.numAT = 0 := by omega
    have hak : e.s.c.numAck = 0 := by omega
    have htl : e.s.numTLB = 0 := by omega
    have hka := h.rest.kat
    have hao : e.s.atOut = [] := List.eq_nil_of_length_eq_zero (by omega)
    rw [CpS.rCU_cons e.s h.nf x rest hd hpos] at hci ⊢
    split
    · rename_i hz
      rw [if_pos hz] at hci
      have hlen : ((List.range e.s.nAT).take (e.s.capAT - e.s.atOut.length)).length = e.s.nAT := by
        rw [cps_length_take_of_le (by rw [hao]; simp; omega)]; simp
      have hdrop : ((List.range e.s.nAT).drop (e.s.capAT - e.s.atOut.length)).length = 0 :=
        cps_length_drop_of_le (by rw [hao]; simp; omega)
      refine h.of_steps hr (.of_eq rfl) ?_
      refine ⟨hci, h.rest.cfg, h.rest.ncaches, ?_, ?_, h.rest.ktlb, ?_, ?_, ?_, ?_, h.rest.book, cpsLinv_of_none hl1⟩
      · show e.s.numCU - 1 = e.s.cuOut.length + e.atCU.length + rest.length
        omega
      · show e.s.numAT + e.s.nAT = (e.s.atOut ++ _).length + e.atAT.length + e.s.atIn.length
        rw [List.length_append, hlen]; omega
      · obtain ⟨d1, d2, d3, d4⟩ := h.rest.nodrop
        exact ⟨d1, by show e.s.dropAT + _ = 0; rw [hdrop, d2], d3, d4⟩
      · intro hs'; exact absurd hs (by simpa using hs')
      · intro _
        show (e.s.numCU - 1 = 0 ∨ _) ∧ (_ ∨ (e.s.c.numAck = 0 ∧ e.s.numTLB = 0)) ∧ (e.s.c.numAck = 0 ∨ _)
        exact ⟨.inl hz, .inr ⟨hak, htl⟩, .inl hak⟩
      · intro _
        show 0 < e.s.numCU - 1 + (e.s.numAT + e.s.nAT) + e.s.c.numAck + e.s.numTLB
        omega
    · rename_i hz
      rw [if_neg hz] at hci
      refine h.of_steps hr (.of_eq rfl) ?_
      refine ⟨hci, h.rest.cfg, h.rest.ncaches, ?_, h.rest.kat, h.rest.ktlb, h.rest.nodrop, ?_, ?_, ?_, h.rest.book, cpsLinv_of_none hl1⟩
      · show e.s.numCU - 1 = e.s.cuOut.length + e.atCU.length + rest.length
        omega
      · intro hs'; exact absurd hs (by simpa using hs')
      · intro _
        show (_ ∨ (e.s.numAT = 0 ∧ e.s.c.numAck = 0 ∧ e.s.numTLB = 0)) ∧ (e.s.numAT = 0 ∨ _) ∧ (e.s.c.numAck = 0 ∨ _)
        exact ⟨.inr ⟨hat, hak, htl⟩, .inl hat, .inl hak⟩
      · intro _
        show 0 < e.s.numCU - 1 + e.s.numAT + e.s.c.numAck + e.s.numTLB
        omega

/-- `processAddressTranslatorFlushRsp` -/
theorem CpS.rAT_cons (s : CpS) (hf : s.c.fault = none) (x : Nat) (rest : List Nat) (hd : s.atIn = x :: rest)
    (hpos : 0 < s.numAT) :
    s.rAT =
      if s.numAT - 1 = 0 then
        ({ s with
           numAT := s.numAT - 1
           atIn := rest
           c := { s.c with
                  cacheOut := s.c.cacheOut ++ (s.ordReset.take (s.c.capCache - s.c.cacheOut.length)).map (resetBase + ·)
                  numAck := s.c.numAck + s.ordReset.length }
           dropC := s.dropC + (s.ordReset.drop (s.c.capCache - s.c.cacheOut.length)).length
           log := s.log ++ [.atAck] ++ sendEvs .reset (s.c.capCache - s.c.cacheOut.length) s.ordReset }, true)
      else ({ s with numAT := s.numAT - 1, atIn := rest, log := s.log ++ [.atAck] }, true) := by
  unfold CpS.rAT
  rw [if_neg (by simp [hf])]
  simp only [hd]
  rw [if_pos hpos]
  rfl

theorem CpsSerInv.rAT {g : CpSCfg} (hr : g.Roomy) (e : CpSEnv) (h : CpsSerInv g e) : CpsSerInv g (e.withS e.s.rAT.1) := by
  have hci := CpsCacheInv.rAT e h.rest.cache
  cases hd : e.s.atIn with
  | nil =>
    have : e.s.rAT = (e.s, false) := by unfold CpS.rAT; simp [hd]
    rw [this]; exact h
  | cons x rest =>
    obtain ⟨ro1, ro2, ro3, ro4, ro5, ro6, ro7, ro8, ro9⟩ := h.rest.roomy hr
    have hka := h.rest.kat
    rw [hd] at hka
    simp only [List.length_cons] at hka
    have hpos : 0 < e.s.numAT := by omega
    have hs : e.s.shoot = true := by
      cases hs : e.s.shoot with
      | true => rfl
      | false => have := (h.rest.idle hs).2.1; omega
    have hph := h.rest.phase hs
    have hl1 := h.rest.l1_none_of_shoot hs
    have hcu : e.s.numCU = 0 := by omega
    have hak : e.s.c.numAck = 0 := by omega
    have htl : e.s.numTLB = 0 := by omega
    have hcnt := h.rest.cache.count
    have hco : e.s.c.cacheOut = [] := List.eq_nil_of_length_eq_zero (by omega)
    rw [CpS.rAT_cons e.s h.nf x rest hd hpos] at hci ⊢
    split
    · rename_i hz
      rw [if_pos hz] at hci
      have hdrop : (e.s.ordReset.drop (e.s.c.capCache - e.s.c.cacheOut.length)).length = 0 :=
        cps_length_drop_of_le (by rw [hco]; simp; omega)
      refine h.of_steps hr (.of_eq ?_) ?_
      · simp [CpSEnv.proj, CpSEnv.withS, hs]
      refine ⟨hci, h.rest.cfg, h.rest.ncaches, h.rest.kcu, ?_, h.rest.ktlb, ?_, ?_, ?_, ?_, h.rest.book, cpsLinv_of_none hl1⟩
      · show e.s.numAT - 1 = e.s.atOut.length + e.atAT.length + rest.length
        omega
      · obtain ⟨d1, d2, d3, d4⟩ := h.rest.nodrop
        exact ⟨d1, d2, by show e.s.dropC + _ = 0; rw [hdrop, d3], d4⟩
      · intro hs'; exact absurd hs (by simpa using hs')
      · intro _
        show (e.s.numCU = 0 ∨ _) ∧ (e.s.numAT - 1 = 0 ∨ _) ∧ (_ ∨ e.s.numTLB = 0)
        exact ⟨.inl hcu, .inl hz, .inr htl⟩
      · intro _
        show 0 < e.s.numCU + (e.s.numAT - 1) + (e.s.c.numAck + e.s.ordReset.length) + e.s.numTLB
        omega
    · rename_i hz
      rw [if_neg hz] at hci
      refine h.of_steps hr (.of_eq rfl) ?_
      refine ⟨hci, h.rest.cfg, h.rest.ncaches, h.rest.kcu, ?_, h.rest.ktlb, h.rest.nodrop, ?_, ?_, ?_, h.rest.book, cpsLinv_of_none hl1⟩
      · show e.s.numAT - 1 = e.s.atOut.length + e.atAT.length + rest.length
        omega
      · intro hs'; exact absurd hs (by simpa using hs')
      · intro _
        show (e.s.numCU = 0 ∨ _) ∧ (_ ∨ (e.s.c.numAck = 0 ∧ e.s.numTLB = 0)) ∧ (e.s.c.numAck = 0 ∨ _)
        exact ⟨.inl hcu, .inr ⟨hak, htl⟩, .inl hak⟩
      · intro _
        show 0 < e.s.numCU + (e.s.numAT - 1) + e.s.c.numAck + e.s.numTLB
        omega

theorem cps_countP_done_map_ans (l : List CpMsg) : (l.map SOut.ans).countP SOut.isDone = 0 := by
  rw [List.countP_map]
  have : (SOut.isDone ∘ SOut.ans) = fun _ => false := by funext m; rfl
  rw [this, List.countP_false]; rfl

theorem cps_filterMap_ans_comp (l : List CpMsg) : List.filterMap (SOut.ans? ∘ SOut.ans) l = l := by
  have : (SOut.ans? ∘ SOut.ans) = some := by funext m; rfl
  rw [this, List.filterMap_some]

/-- `processTLBFlushRsp` -/
theorem CpS.rTLB_cons (s : CpS) (hf : s.c.fault = none) (x : Nat) (rest : List Nat) (hd : s.tlbIn = x :: rest)
    (hpos : 0 < s.numTLB) :
    s.rTLB =
      if s.numTLB - 1 = 0 then
        if s.outLen < s.c.capDrv then
          ({ s with
             numTLB := s.numTLB - 1
             tlbIn := rest
             outEarlier := s.outEarlier ++ s.c.drvOut.map SOut.ans ++ [.sdone (s.curShoot.getD 0)]
             c := { s.c with drvOut := [] }
             shoot := false
             log := s.log ++ [.tlbAck] ++ [.shootDone (s.curShoot.getD 0) true] }, true)
        else
          ({ s with
             numTLB := s.numTLB - 1
             tlbIn := rest
             dropDone := s.dropDone + 1
             shoot := false
             log := s.log ++ [.tlbAck] ++ [.shootDone (s.curShoot.getD 0) false] }, true)
      else ({ s with numTLB := s.numTLB - 1, tlbIn := rest, log := s.log ++ [.tlbAck] }, true) := by
  unfold CpS.rTLB
  rw [if_neg (by simp [hf])]
  simp only [hd, cps_dec64_pos hpos]
  rfl

theorem CpsSerInv.rTLB {g : CpSCfg} (hr : g.Roomy) (e : CpSEnv) (h : CpsSerInv g e) : CpsSerInv g (e.withS e.s.rTLB.1) := by
  have hci := CpsCacheInv.rTLB e h.rest.cache
  cases hd : e.s.tlbIn with
  | nil =>
    have : e.s.rTLB = (e.s, false) := by unfold CpS.rTLB; simp [hd]
    rw [this]; exact h
  | cons x rest =>
    have hkt := h.rest.ktlb
    rw [hd] at hkt
    simp only [List.length_cons] at hkt
    have hpos : 0 < e.s.numTLB := by omega
    have hs : e.s.shoot = true := by
      cases hs : e.s.shoot with
      | true => rfl
      | false => have := (h.rest.idle hs).2.2; omega
    have hph := h.rest.phase hs
    have hl1 := h.rest.l1_none_of_shoot hs
    have hcu : e.s.numCU = 0 := by omega
    have hat : e.s.numAT = 0 := by omega
    have hak : e.s.c.numAck = 0 := by omega
    have hcnt := h.rest.cache.count
    have hco : e.s.c.cacheOut = [] := List.eq_nil_of_length_eq_zero (by omega)
    have hca : e.atCaches = [] := List.eq_nil_of_length_eq_zero (by omega)
    have hcin : e.s.c.cacheIn = [] := List.eq_nil_of_length_eq_zero (by omega)
    have hb := h.rest.book
    rw [hs] at hb
    simp only [if_true] at hb
    rw [CpS.rTLB_cons e.s h.nf x rest hd hpos] at hci ⊢
    split
    · rename_i hz
      rw [if_pos hz] at hci
      split
      · rename_i hroom
        rw [if_pos hroom] at hci
        refine h.of_steps hr (.of_eq ?_) ?_
        · simp [CpSEnv.proj, CpSEnv.withS, hs, hak, hco, hca, hcin, List.filterMap_append, cps_filterMap_ans_comp, List.filterMap_cons, SOut.ans?]
        refine ⟨hci, h.rest.cfg, h.rest.ncaches, h.rest.kcu, h.rest.kat, ?_, h.rest.nodrop, ?_, ?_, ?_, ?_, cpsLinv_of_none hl1⟩
        · show e.s.numTLB - 1 = e.s.tlbOut.length + e.atTLB.length + rest.length
          omega
        · intro _
          exact ⟨hcu, hat, hz⟩
        · intro hs'; cases hs'
        · intro hs'; cases hs'
        · show e.shootSent = e.s.later.countP SIn.isShoot + e.drained.countP SOut.isDone +
            (e.s.outEarlier ++ e.s.c.drvOut.map SOut.ans ++ [SOut.sdone (e.s.curShoot.getD 0)]).countP SOut.isDone +
            e.s.dropDone + (if false = true then 1 else 0)
          rw [List.countP_append, List.countP_append, cps_countP_done_map_ans]
          simp [SOut.isDone]
          omega
      · rename_i hroom
        rw [if_neg hroom] at hci
        refine h.of_steps hr (.of_eq ?_) ?_
        · simp [CpSEnv.proj, CpSEnv.withS, hs, hak, hco, hca, hcin]
        refine ⟨hci, h.rest.cfg, h.rest.ncaches, h.rest.kcu, h.rest.kat, ?_, h.rest.nodrop, ?_, ?_, ?_, ?_, cpsLinv_of_none hl1⟩
        · show e.s.numTLB - 1 = e.s.tlbOut.length + e.atTLB.length + rest.length
          omega
        · intro _
          exact ⟨hcu, hat, hz⟩
        · intro hs'; cases hs'
        · intro hs'; cases hs'
        · show e.shootSent = e.s.later.countP SIn.isShoot + e.drained.countP SOut.isDone +
            e.s.outEarlier.countP SOut.isDone + (e.s.dropDone + 1) + (if false = true then 1 else 0)
          simp
          omega
    · rename_i hz
      rw [if_neg hz] at hci
      refine h.of_steps hr (.of_eq rfl) ?_
      refine ⟨hci, h.rest.cfg, h.rest.ncaches, h.rest.kcu, h.rest.kat, ?_, h.rest.nodrop, ?_, ?_, ?_, ?_, cpsLinv_of_none hl1⟩
      · show e.s.numTLB - 1 = e.s.tlbOut.length + e.atTLB.length + rest.length
        omega
      · intro hs'; exact absurd hs (by simpa using hs')
      · intro _
        show (e.s.numCU = 0 ∨ _) ∧ (e.s.numAT = 0 ∨ _) ∧ (e.s.c.numAck = 0 ∨ _)
        exact ⟨.inl hcu, .inl hat, .inl hak⟩
      · intro _
        show 0 < e.s.numCU + e.s.numAT + e.s.c.numAck + (e.s.numTLB - 1)
        omega
      · show e.shootSent = e.s.later.countP SIn.isShoot + e.drained.countP SOut.isDone +
          e.s.outEarlier.countP SOut.isDone + e.s.dropDone + (if e.s.shoot = true then 1 else 0)
        rw [hs]; simp; omega

/-! ### kernel launch requests: the third user of the counter -/

/-- the loop of `invalidateCache` when ToCaches has room for all of it -/
theorem CpS.foldl_invalidate_ok (id : Nat) : ∀ (ms : List Nat) (s : CpS), s.c.fault = none →
    s.c.cacheOut.length + ms.length ≤ s.c.capCache →
    ms.foldl (CpS.invalidate id) s =
      { s with c := { s.c with cacheOut := s.c.cacheOut ++ ms.map (invBase + ·), numAck := s.c.numAck + ms.length },
               log := s.log ++ ms.map (SEv.inval id) }
  | [], s, _, _ => by simp
  | i :: ms, s, hf, hc => by
    have hroom : s.c.cacheOut.length < s.c.capCache := by
      simp only [List.length_cons] at hc; omega
    have e1 : CpS.invalidate id s i =
        { s with c := { s.c with cacheOut := s.c.cacheOut ++ [invBase + i], numAck := s.c.numAck + 1 },
                 log := s.log ++ [.inval id i] } := by
      unfold CpS.invalidate; rw [hf]; simp [hroom]
    simp only [List.foldl_cons]
    rw [e1, CpS.foldl_invalidate_ok id ms
      { s with c := { s.c with cacheOut := s.c.cacheOut ++ [invBase + i], numAck := s.c.numAck + 1 },
               log := s.log ++ [.inval id i] } hf
      (by simp only [List.length_append, List.length_cons, List.length_nil] at hc ⊢; omega)]
    simp [Nat.add_assoc, Nat.add_comm 1]

/-- `processLaunchKernelReq`: the request waits, or the counter is 0 and no shootdown is in process -/
theorem CpS.launch_cases (s : CpS) (id : Nat) (rest : List SIn) :
    s.launch id rest = (s, false) ∨
    (s.c.numAck = 0 ∧ s.shoot = false ∧ s.launch id rest = s.launchGo id rest) := by
  unfold CpS.launch
  split
  · left; rfl
  · split
    · left; rfl
    · split
      · left; rfl
      · rename_i h1 h2
        right
        exact ⟨by omega, by simpa using h2, rfl⟩

/-- `invalidateL1CachesBeforeKernel` with room in ToCaches: the kernel starts, or every L1S / L1V cache
    is asked and the request waits -/
theorem CpS.launchGo_cases (s : CpS) (id : Nat) (rest : List SIn) (hf : s.c.fault = none)
    (hroom : s.c.cacheOut.length + s.ordInval.length ≤ s.c.capCache) :
    s.launchGo id rest = (s.kstart id rest, true) ∨
    (s.l1Inv ≠ some id ∧
      s.launchGo id rest =
        ({ s with c := { s.c with cacheOut := s.c.cacheOut ++ s.ordInval.map (invBase + ·),
                                  numAck := s.c.numAck + s.ordInval.length },
                  log := s.log ++ s.ordInval.map (SEv.inval id), l1Inv := some id }, true)) := by
  unfold CpS.launchGo
  split
  · left; rfl
  · rename_i hne
    split
    · left; rfl
    · simp only
      rw [CpS.foldl_invalidate_ok id s.ordInval s hf hroom]
      rw [if_neg (by simp [hf])]
      split
      · rename_i hz
        left
        have hlen : s.ordInval.length = 0 := by
          have : s.c.numAck + s.ordInval.length = 0 := hz
          omega
        have hnil : s.ordInval = [] := List.eq_nil_of_length_eq_zero hlen
        simp [hnil]
      · right; exact ⟨hne, rfl⟩

/-- a kernel starts: its request leaves the head of the port -/
theorem CpsSerInv.kstart {g : CpSCfg} (hr : g.Roomy) (e : CpSEnv) (h : CpsSerInv g e) (id : Nat) (rest : List SIn)
    (hd : e.s.c.drvIn = []) (hl : e.s.later = .launch id :: rest) (hs : e.s.shoot = false) (hn : e.s.c.numAck = 0)
    (hci : CpsCacheInv (e.withS (e.s.kstart id rest))) : CpsSerInv g (e.withS (e.s.kstart id rest)) := by
  have hcnt := h.rest.cache.count
  obtain ⟨_, _, d3, _⟩ := h.rest.nodrop
  have hco : e.s.c.cacheOut = [] := List.eq_nil_of_length_eq_zero (by omega)
  have hca : e.atCaches = [] := List.eq_nil_of_length_eq_zero (by omega)
  have hcin : e.s.c.cacheIn = [] := List.eq_nil_of_length_eq_zero (by omega)
  refine h.of_steps hr (.of_eq ?_) ?_
  · simp [CpSEnv.proj, CpSEnv.withS, CpS.kstart, hs, hd, hl, hn, hco, hca, hcin, SIn.req?, cps_filterMap_req_split,
      List.filterMap_cons]
  · refine ⟨hci, h.rest.cfg, h.rest.ncaches, h.rest.kcu, h.rest.kat, h.rest.ktlb, h.rest.nodrop, h.rest.idle,
      h.rest.phase, h.rest.live, ?_, cpsLinv_of_none rfl⟩
    have hb := h.rest.book
    rw [hl] at hb
    simp only [List.countP_cons, SIn.isShoot, Bool.false_eq_true, if_false] at hb
    show e.shootSent = (rest.dropWhile SIn.isReq).countP SIn.isShoot + e.drained.countP SOut.isDone +
      e.s.outEarlier.countP SOut.isDone + e.s.dropDone + (if e.s.shoot = true then 1 else 0)
    rw [cps_countP_shoot_dropWhile]
    omega

/-- `processLaunchKernelReq` on the launch request at the head of the port -/
theorem CpsSerInv.launch {g : CpSCfg} (hr : g.Roomy) (e : CpSEnv) (h : CpsSerInv g e) (id : Nat) (rest : List SIn)
    (hd : e.s.c.drvIn = []) (hl : e.s.later = .launch id :: rest) : CpsSerInv g (e.withS (e.s.launch id rest).1) := by
  have hci := CpsCacheInv.launch e h.rest.cache h.nf id rest
  rcases CpS.launch_cases e.s id rest with h0 | ⟨hn, hs, h0⟩
  · rw [h0]; exact h
  rw [h0] at hci ⊢
  have hcnt := h.rest.cache.count
  obtain ⟨_, _, d3, _⟩ := h.rest.nodrop
  have hco : e.s.c.cacheOut = [] := List.eq_nil_of_length_eq_zero (by omega)
  have hca : e.atCaches = [] := List.eq_nil_of_length_eq_zero (by omega)
  have hcin : e.s.c.cacheIn = [] := List.eq_nil_of_length_eq_zero (by omega)
  obtain ⟨_, _, _, _, _, _, _, ro8, ro9⟩ := h.rest.roomy hr
  have hlen : e.s.ordInval.length ≤ e.s.c.capCache := by
    have : e.s.ordInval.length ≤ e.s.ordReset.length := by
      simp only [CpS.ordInval, CpS.ordReset, List.length_append, cps_seg_length]; omega
    omega
  rcases CpS.launchGo_cases e.s id rest h.nf (by rw [hco]; simpa using hlen) with h1 | ⟨hne, h1⟩
  · rw [h1] at hci ⊢
    exact h.kstart hr e id rest hd hl hs hn hci
  · rw [h1] at hci ⊢
    have hl1 : e.s.l1Inv = none := by
      cases hq : e.s.l1Inv with
      | none => rfl
      | some id' =>
        obtain ⟨rest', hr'⟩ := (h.rest.linv id' hq).2.2
        rw [hl] at hr'
        cases hr'
        exact absurd hq hne
    refine h.of_steps hr (.of_eq ?_) ?_
    · simp [CpSEnv.proj, CpSEnv.withS, hs, hl1, hn, hco, hca, hcin]
    · refine ⟨hci, h.rest.cfg, h.rest.ncaches, h.rest.kcu, h.rest.kat, h.rest.ktlb, h.rest.nodrop, h.rest.idle,
        ?_, ?_, h.rest.book, ?_⟩
      · intro hs'
        have : e.s.shoot = true := hs'
        rw [hs] at this; cases this
      · intro hs'
        have : e.s.shoot = true := hs'
        rw [hs] at this; cases this
      · intro id' hid
        have : some id = some id' := hid
        cases this
        exact ⟨hs, hd, rest, hl⟩

theorem CpsSerInv.handle {g : CpSCfg} (hr : g.Roomy) (e : CpSEnv) (h : CpsSerInv g e) : CpsSerInv g (e.withS e.s.handle.1) := by
  rcases CpS.handle_split e.s with h0 | ⟨m, rest, hd, hsf, h0⟩ | ⟨id, rest, _, _, hl, _⟩
  · rw [h0]; exact h
  · rw [h0]
    refine CpsSerInv.handleCp hr e h (h.rest.l1_none_of_drvIn m rest hd) ?_
    intro m' rest' hd' hk'
    rw [hd] at hd'
    cases hd'
    exact hsf hk'
  · rename_i hd h0
    rw [h0]
    exact CpsSerInv.launch hr e h id rest hd hl

theorem CpsSerInv.stages {g : CpSCfg} (hr : g.Roomy) : CpsStagePres (CpsSerInv g) :=
  ⟨CpsSerInv.handle hr, CpsSerInv.dmaRsp hr, CpsSerInv.hShoot hr, CpsSerInv.rCU hr, CpsSerInv.rAT hr, CpsSerInv.cacheRsp hr, CpsSerInv.rTLB hr⟩

/-! ## 10. the environment's moves, seen through the projection -/

theorem cps_take_drop_two (A : List SOut) (B : List CpMsg) (k : Nat) :
    (A.filterMap SOut.ans? ++ B).take (((A.take k).filterMap SOut.ans?).length + (B.take (k - (A.take k).length)).length) =
      (A.take k).filterMap SOut.ans? ++ B.take (k - (A.take k).length) ∧
    (A.filterMap SOut.ans? ++ B).drop (((A.take k).filterMap SOut.ans?).length + (B.take (k - (A.take k).length)).length) =
      (A.drop k).filterMap SOut.ans? ++ B.drop (k - (A.take k).length) := by
  have hA : A.filterMap SOut.ans? = (A.take k).filterMap SOut.ans? ++ (A.drop k).filterMap SOut.ans? := by
    rw [← List.filterMap_append, List.take_append_drop]
  by_cases hk : k ≤ A.length
  · have h1 : (A.take k).length = k := by rw [List.length_take]; omega
    have h2 : k - (A.take k).length = 0 := by omega
    rw [h2]
    simp only [List.take_zero, List.length_nil, Nat.add_zero, List.append_nil, List.drop_zero]
    rw [hA, List.append_assoc]
    exact ⟨List.take_left, List.drop_left⟩
  · have h1 : A.take k = A := List.take_of_length_le (by omega)
    have h2 : A.drop k = [] := List.drop_of_length_le (by omega)
    rw [h1, h2]
    simp only [List.filterMap_nil, List.nil_append]
    constructor
    · rw [List.take_append, List.take_of_length_le (by omega)]
      congr 1
      rw [Nat.add_sub_cancel_left, List.length_take]
      by_cases hb : k - A.length ≤ B.length
      · rw [Nat.min_eq_left hb]
      · rw [Nat.min_eq_right (by omega), List.take_of_length_le (Nat.le_refl _), List.take_of_length_le (by omega)]
    · rw [List.drop_append, List.drop_of_length_le (by omega), List.nil_append, Nat.add_sub_cancel_left]
      rw [List.length_take]
      by_cases hb : k - A.length ≤ B.length
      · rw [Nat.min_eq_left hb]
      · rw [Nat.min_eq_right (by omega), List.drop_of_length_le (Nat.le_refl _), List.drop_of_length_le (by omega)]

theorem cps_countP_le_append {α} (p : α → Bool) (l l2 : List α) : l.countP p ≤ (l ++ l2).countP p := by
  rw [List.countP_append]; omega

theorem CpsSerInv.step {g : CpSCfg} (hr : g.Roomy) (e : CpSEnv) (op : SOp) (h : CpsSerInv g e) :
    CpsSerInv g (e.step op).1 := by
  have hci := CpsCacheInv.step e op h.rest.cache
  have hR := h.rest
  cases op with
  | query => exact h
  | shoot =>
    simp only [CpSEnv.step] at hci ⊢
    split
    · rename_i hlt
      rw [if_pos hlt] at hci
      refine h.of_steps hr (.of_eq ?_) ?_
      · simp [CpSEnv.proj, List.filterMap_append, List.filterMap_cons, SIn.req?]
      refine ⟨hci, hR.cfg, hR.ncaches, hR.kcu, hR.kat, hR.ktlb, hR.nodrop, hR.idle, hR.phase, hR.live, ?_, ?_⟩
      · have hb := hR.book
        show e.shootSent + 1 = (e.s.later ++ [SIn.shoot e.shootSent]).countP SIn.isShoot + e.drained.countP SOut.isDone +
          e.s.outEarlier.countP SOut.isDone + e.s.dropDone + (if e.s.shoot = true then 1 else 0)
        rw [List.countP_append]
        simp [SIn.isShoot]
        omega
      · exact hR.linv.append [.shoot e.shootSent] rfl rfl rfl rfl
    · exact h
  | launch =>
    simp only [CpSEnv.step] at hci ⊢
    split
    · rename_i hlt
      rw [if_pos hlt] at hci
      refine h.of_steps hr (.of_eq ?_) ?_
      · simp [CpSEnv.proj, List.filterMap_append, List.filterMap_cons, SIn.req?]
      refine ⟨hci, hR.cfg, hR.ncaches, hR.kcu, hR.kat, hR.ktlb, hR.nodrop, hR.idle, hR.phase, hR.live, ?_,
        hR.linv.append [.launch e.launchSent] rfl rfl rfl rfl⟩
      have hb := hR.book
      show e.shootSent = (e.s.later ++ [SIn.launch e.launchSent]).countP SIn.isShoot + e.drained.countP SOut.isDone +
        e.s.outEarlier.countP SOut.isDone + e.s.dropDone + (if e.s.shoot = true then 1 else 0)
      rw [List.countP_append]
      simp [SIn.isShoot]
      omega
    · exact h
  | kdone =>
    simp only [CpSEnv.step] at hci ⊢
    split
    · exact h
    · rename_i hb
      rw [if_neg hb] at hci
      refine h.of_steps hr (.of_eq rfl) ?_
      exact ⟨hci, hR.cfg, hR.ncaches, hR.kcu, hR.kat, hR.ktlb, hR.nodrop, hR.idle, hR.phase, hR.live, hR.book, hR.linv⟩
  | take c k =>
    have hl := cps_length_take_add_drop k (e.s.out c)
    cases c <;> simp only [CpS.out] at hl <;> refine h.of_steps hr (.of_eq rfl) ?_
    · refine ⟨hci, hR.cfg, hR.ncaches, ?_, hR.kat, hR.ktlb, hR.nodrop, hR.idle, hR.phase, hR.live, hR.book, hR.linv⟩
      have := hR.kcu
      show e.s.numCU = (e.s.cuOut.drop k).length + (e.atCU ++ e.s.cuOut.take k).length + e.s.cuIn.length
      rw [List.length_append]; omega
    · refine ⟨hci, hR.cfg, hR.ncaches, hR.kcu, ?_, hR.ktlb, hR.nodrop, hR.idle, hR.phase, hR.live, hR.book, hR.linv⟩
      have := hR.kat
      show e.s.numAT = (e.s.atOut.drop k).length + (e.atAT ++ e.s.atOut.take k).length + e.s.atIn.length
      rw [List.length_append]; omega
    · refine ⟨hci, hR.cfg, hR.ncaches, hR.kcu, hR.kat, ?_, hR.nodrop, hR.idle, hR.phase, hR.live, hR.book, hR.linv⟩
      have := hR.ktlb
      show e.s.numTLB = (e.s.tlbOut.drop k).length + (e.atTLB ++ e.s.tlbOut.take k).length + e.s.tlbIn.length
      rw [List.length_append]; omega
  | ack c j =>
    simp only [CpSEnv.step] at hci ⊢
    split
    · exact h
    · rename_i hne
      split
      · exact h
      · rename_i hfull
        have hpos : 0 < (e.pend c).length := by
          cases hA : e.pend c with
          | nil => exact absurd hA (by simpa using hne)
          | cons a l => simp
        have hlt := Nat.mod_lt j hpos
        have hne' : ¬ e.pend c = [] := by
          intro h0; rw [h0] at hpos; simp at hpos
        have hci' : CpsCacheInv ((({ e with s := e.s.setIn c (e.s.inn c ++ [(e.pend c).getD (j % (e.pend c).length) 0]) } : CpSEnv)).setPend c
            ((e.pend c).eraseIdx (j % (e.pend c).length))) := by
          cases c <;> exact h.rest.cache.of_eq rfl rfl rfl rfl rfl rfl
        cases c <;> simp only [CpSEnv.pend] at hlt hpos <;> refine h.of_steps hr (.of_eq rfl) ?_
        · refine ⟨hci', hR.cfg, hR.ncaches, ?_, hR.kat, hR.ktlb, hR.nodrop, hR.idle, hR.phase, hR.live, hR.book, hR.linv⟩
          have := hR.kcu
          show e.s.numCU = e.s.cuOut.length + (e.atCU.eraseIdx (j % e.atCU.length)).length + (e.s.cuIn ++ [_]).length
          rw [List.length_append, List.length_eraseIdx, if_pos hlt]; simp; omega
        · refine ⟨hci', hR.cfg, hR.ncaches, hR.kcu, ?_, hR.ktlb, hR.nodrop, hR.idle, hR.phase, hR.live, hR.book, hR.linv⟩
          have := hR.kat
          show e.s.numAT = e.s.atOut.length + (e.atAT.eraseIdx (j % e.atAT.length)).length + (e.s.atIn ++ [_]).length
          rw [List.length_append, List.length_eraseIdx, if_pos hlt]; simp; omega
        · refine ⟨hci', hR.cfg, hR.ncaches, hR.kcu, hR.kat, ?_, hR.nodrop, hR.idle, hR.phase, hR.live, hR.book, hR.linv⟩
          have := hR.ktlb
          show e.s.numTLB = e.s.tlbOut.length + (e.atTLB.eraseIdx (j % e.atTLB.length)).length + (e.s.tlbIn ++ [_]).length
          rw [List.length_append, List.length_eraseIdx, if_pos hlt]; simp; omega
  | cp op =>
    cases op with
    | tick => exact (CpsSerInv.stages hr).tick e h
    | req k =>
      simp only [CpSEnv.step] at hci ⊢
      split
      · rename_i hlt
        rw [if_pos hlt] at hci
        have hlt' : e.proj.s.drvIn.length < e.proj.s.capIn := by
          have := List.length_filterMap_le SIn.req? e.s.later
          simp only [CpSEnv.proj, List.length_append]
          unfold CpS.portLen at hlt
          omega
        cases hle : e.s.later with
        | nil =>
          simp only [hle, List.isEmpty_nil, if_true] at hci ⊢
          refine h.of_steps hr (.single_eq (CpTr.req e.proj k hlt') ?_) ?_
          · simp [CpSEnv.proj, hle]
          · exact ⟨hci, hR.cfg, hR.ncaches, hR.kcu, hR.kat, hR.ktlb, hR.nodrop, hR.idle, hR.phase, hR.live,
              by simpa [hle] using hR.book,
              cpsLinv_of_none (hR.l1_none_of_later (by rw [hle]; intro id' rest' hc; cases hc))⟩
        | cons a l =>
          simp only [hle, List.isEmpty_cons, Bool.false_eq_true, if_false] at hci ⊢
          refine h.of_steps hr (.single_eq (CpTr.req e.proj k hlt') ?_) ?_
          · cases a <;> simp [CpSEnv.proj, hle, List.filterMap_append, List.filterMap_cons, SIn.req?]
          · refine ⟨hci, hR.cfg, hR.ncaches, hR.kcu, hR.kat, hR.ktlb, hR.nodrop, hR.idle, hR.phase, hR.live, ?_,
              hR.linv.append [.req ⟨e.sent.length, k⟩] rfl rfl rfl (by rw [hle])⟩
            · have hb := hR.book
              rw [hle] at hb
              show e.shootSent = (a :: l ++ [SIn.req ⟨e.sent.length, k⟩]).countP SIn.isShoot + e.drained.countP SOut.isDone +
                e.s.outEarlier.countP SOut.isDone + e.s.dropDone + (if e.s.shoot = true then 1 else 0)
              rw [List.countP_append]
              simp only [List.countP_cons, List.countP_nil, SIn.isShoot, Bool.false_eq_true, if_false] at hb ⊢
              omega
      · exact h
    | takeDma k =>
      refine h.of_steps hr (.single_eq (CpTr.takeDma e.proj k) ?_) ?_
      · simp [CpSEnv.proj, CpSEnv.step]
      · exact ⟨hci, hR.cfg, hR.ncaches, hR.kcu, hR.kat, hR.ktlb, hR.nodrop, hR.idle, hR.phase, hR.live, hR.book, hR.linv⟩
    | takeCache k =>
      have hrest : CpsSerRest g (e.step (.cp (.takeCache k))).1 :=
        ⟨hci, hR.cfg, hR.ncaches, hR.kcu, hR.kat, hR.ktlb, hR.nodrop, hR.idle, hR.phase, hR.live, hR.book, hR.linv⟩
      cases hs : e.s.shoot with
      | true =>
        refine h.of_steps hr (.of_eq ?_) hrest
        simp [CpSEnv.proj, CpSEnv.step, hs]
      | false =>
        cases hl1 : e.s.l1Inv with
        | some id =>
          refine h.of_steps hr (.of_eq ?_) hrest
          simp [CpSEnv.proj, CpSEnv.step, hs, hl1]
        | none =>
          refine h.of_steps hr (.single_eq (CpTr.takeCache e.proj k) ?_) hrest
          simp [CpSEnv.proj, CpSEnv.step, hs, hl1]
    | takeDrv k =>
      obtain ⟨t1, t2⟩ := cps_take_drop_two e.s.outEarlier e.s.c.drvOut k
      refine h.of_steps hr (.single_eq (CpTr.takeDrv e.proj
        (((e.s.outEarlier.take k).filterMap SOut.ans?).length + (e.s.c.drvOut.take (k - (e.s.outEarlier.take k).length)).length)) ?_) ?_
      · simp only [CpSEnv.proj, CpSEnv.step, t1, t2, List.filterMap_append, cps_filterMap_ans_map]
        rfl
      · refine ⟨hci, hR.cfg, hR.ncaches, hR.kcu, hR.kat, hR.ktlb, hR.nodrop, hR.idle, hR.phase, hR.live, ?_, ?_⟩
        · have hb := hR.book
          have hsplit : e.s.outEarlier.countP SOut.isDone =
              (e.s.outEarlier.take k).countP SOut.isDone + (e.s.outEarlier.drop k).countP SOut.isDone := by
            rw [← List.countP_append, List.take_append_drop]
          show e.shootSent = e.s.later.countP SIn.isShoot +
            (e.drained ++ (e.s.outEarlier.take k ++ (e.s.c.drvOut.take (k - (e.s.outEarlier.take k).length)).map SOut.ans)).countP SOut.isDone +
            (e.s.outEarlier.drop k).countP SOut.isDone + e.s.dropDone + (if e.s.shoot = true then 1 else 0)
          rw [List.countP_append, List.countP_append, cps_countP_done_map_ans]
          omega
        · exact hR.linv
    | ack j =>
      simp only [CpSEnv.step] at hci ⊢
      split
      · exact h
      · rename_i hne
        split
        · exact h
        · rename_i hfull
          have hpos : 0 < e.atCaches.length := by
            cases hA : e.atCaches with
            | nil => exact absurd hA (by simpa using hne)
            | cons a l => simp
          have hlt := Nat.mod_lt j hpos
          have hci : CpsCacheInv { e with
              s := { e.s with c := { e.s.c with cacheIn := e.s.c.cacheIn ++ [e.atCaches.getD (j % e.atCaches.length) 0] } }
              atCaches := e.atCaches.eraseIdx (j % e.atCaches.length) } := by
            obtain ⟨c1, c2, c3, c4⟩ := h.rest.cache
            refine ⟨?_, c2, c3, c4⟩
            simp only [List.length_append, List.length_singleton, List.length_eraseIdx, hlt, if_true]
            omega
          rcases Bool.eq_false_or_eq_true e.s.shoot with hs | hs
          · refine h.of_steps hr (.of_eq ?_)
              ⟨hci, hR.cfg, hR.ncaches, hR.kcu, hR.kat, hR.ktlb, hR.nodrop, hR.idle, hR.phase, hR.live, hR.book, hR.linv⟩
            simp [CpSEnv.proj, hs]
          · rcases Option.eq_none_or_eq_some e.s.l1Inv with hl1 | ⟨id, hl1⟩
            rotate_left
            · refine h.of_steps hr (.of_eq ?_)
                ⟨hci, hR.cfg, hR.ncaches, hR.kcu, hR.kat, hR.ktlb, hR.nodrop, hR.idle, hR.phase, hR.live, hR.book, hR.linv⟩
              simp [CpSEnv.proj, hs, hl1]
            · refine h.of_steps hr (.single_eq (CpTr.ackEnv e.proj (j % e.atCaches.length)
                (e.atCaches.getD (j % e.atCaches.length) 0) (by simpa [CpSEnv.proj, hs, hl1] using hlt)) ?_)
                ⟨hci, hR.cfg, hR.ncaches, hR.kcu, hR.kat, hR.ktlb, hR.nodrop, hR.idle, hR.phase, hR.live, hR.book, hR.linv⟩
              simp [CpSEnv.proj, hs, hl1]
    | rsp j =>
      simp only [CpSEnv.step] at hci ⊢
      split
      · exact h
      · split
        · exact h
        · split
          · exact h
          · rename_i c hc
            refine h.of_steps hr (.single_eq (CpTr.rspEnv e.proj _ c hc) ?_) ?_
            · simp [CpSEnv.proj]
            · exact ⟨h.rest.cache.of_eq rfl rfl rfl rfl rfl rfl, hR.cfg, hR.ncaches, hR.kcu, hR.kat, hR.ktlb, hR.nodrop,
                hR.idle, hR.phase, hR.live, hR.book, hR.linv⟩

theorem CpsSerInv.init (g : CpSCfg) : CpsSerInv g (CpSEnv.init g) := by
  have hp : (CpSEnv.init g).proj = CpEnv.init g.nCaches g.capIn g.capDrv g.capDma g.capCache := rfl
  refine ⟨?_, ?_, rfl, ⟨CpsCacheInv.init g, rfl, rfl, rfl, rfl, rfl, ⟨rfl, rfl, rfl, rfl⟩, fun _ => ⟨rfl, rfl, rfl⟩,
    (fun hs => by cases hs), (fun hs => by cases hs), rfl, ?_⟩⟩
  · rw [hp]
    exact (reach_all g.nCaches g.capIn g.capDrv g.capDma g.capCache []).1
  · intro ev hev
    rw [hp] at hev
    cases hev
  · exact cpsLinv_of_none rfl

theorem CpsSerInv.run {g : CpSCfg} (hr : g.Roomy) (ops : List SOp) (e : CpSEnv) (h : CpsSerInv g e) :
    CpsSerInv g (e.run ops) := by
  induction ops generalizing e with
  | nil => exact h
  | cons op ops ih => exact ih _ (h.step hr e op)

/-- the invariant holds after EVERY list of environment moves — kernel launch requests included since the
    repair of finding `C11-cp-launch-in-shootdown` (`processLaunchKernelReq` waits while `shootDownInProcess`) -/
theorem cps_reach_serInv (g : CpSCfg) (hr : g.Roomy) (ops : List SOp) : CpsSerInv g (reachCps g ops) :=
  (CpsSerInv.init g).run hr ops _

/-! ### no `Send` of the copy / flush path fails silently (all runs) -/

theorem CpS.liftCp_log (s : CpS) (r : Cp × Bool) : (s.liftCp r).1.c.log = r.1.log := rfl

theorem CpS.invalidate_clog (id : Nat) (s : CpS) (i : Nat) : (CpS.invalidate id s i).c.log = s.c.log := by
  unfold CpS.invalidate
  split
  · rfl
  · split <;> rfl

theorem CpS.foldl_invalidate_clog (id : Nat) : ∀ (ms : List Nat) (s : CpS),
    (ms.foldl (CpS.invalidate id) s).c.log = s.c.log
  | [], _ => rfl
  | i :: ms, s => by
    simp only [List.foldl_cons]
    rw [CpS.foldl_invalidate_clog id ms, CpS.invalidate_clog]

theorem CpS.launchGo_clog (s : CpS) (id : Nat) (rest : List SIn) : (s.launchGo id rest).1.c.log = s.c.log := by
  unfold CpS.launchGo
  split
  · rfl
  · split
    · rfl
    · simp only
      split
      · exact CpS.foldl_invalidate_clog id _ s
      · split
        · exact CpS.foldl_invalidate_clog id _ s
        · exact CpS.foldl_invalidate_clog id _ s

theorem CpS.launch_clog (s : CpS) (id : Nat) (rest : List SIn) : (s.launch id rest).1.c.log = s.c.log := by
  unfold CpS.launch
  split
  · rfl
  · split
    · rfl
    · split
      · rfl
      · exact CpS.launchGo_clog s id rest

theorem cps_nodrop_handle (e : CpSEnv) (h : NoDrop e.s.c) : NoDrop (e.withS e.s.handle.1).s.c := by
  rcases CpS.handle_split e.s with h0 | ⟨m, rest, _, _, h0⟩ | ⟨id, rest, _, _, _, h0⟩
  · rw [h0]; exact h
  · rw [h0]
    have : NoDrop e.s.cpView := h
    exact handle_nodrop this
  · rw [h0]
    intro ev hev
    rw [CpSEnv.withS_s, CpS.launch_clog] at hev
    exact h ev hev

theorem cps_nodrop_dmaRsp (e : CpSEnv) (h : NoDrop e.s.c) : NoDrop (e.withS e.s.dmaRsp.1).s.c := by
  have : NoDrop e.s.cpView := h
  exact dmaRsp_nodrop this

theorem cps_nodrop_cacheRsp (e : CpSEnv) (h : NoDrop e.s.c) : NoDrop (e.withS e.s.cacheRsp.1).s.c := by
  rcases Bool.eq_false_or_eq_true e.s.shoot with hs | hs
  · have hl : (e.s.cacheRsp).1.c.log = e.s.c.log := by
      unfold CpS.cacheRsp
      split
      · rfl
      · split
        · rfl
        · split
          · rfl
          · simp only [hs]
            split <;> rfl
    intro ev hev
    rw [CpSEnv.withS_s, hl] at hev
    exact h ev hev
  · cases hl1 : e.s.l1Inv with
    | none =>
      rw [CpSEnv.withS_s, CpS.cacheRsp_of_not_shoot _ hs hl1]
      have : NoDrop e.s.cpView := h
      exact cacheRsp_nodrop this
    | some x =>
      have hl : (e.s.cacheRsp).1.c.log = e.s.c.log := by
        unfold CpS.cacheRsp
        split
        · rfl
        · split
          · rfl
          · split
            · rfl
            · simp only [hs, hl1, Bool.false_eq_true, if_false, Option.isSome_some, if_true]
      intro ev hev
      rw [CpSEnv.withS_s, hl] at hev
      exact h ev hev

theorem cps_nodrop_stages : CpsStagePres (fun e => NoDrop e.s.c) := by
  refine ⟨cps_nodrop_handle, cps_nodrop_dmaRsp, ?_, ?_, ?_, cps_nodrop_cacheRsp, ?_⟩
  · intro e h
    have hl : (e.s.hShoot).1.c.log = e.s.c.log := by
      unfold CpS.hShoot
      split
      · rfl
      · split
        · split
          · rfl
          · split <;> rfl
        · rfl
    intro ev hev
    rw [CpSEnv.withS_s, hl] at hev
    exact h ev hev
  · intro e h
    have hl : (e.s.rCU).1.c.log = e.s.c.log := by
      unfold CpS.rCU
      split
      · rfl
      · split
        · rfl
        · simp only []
          split <;> rfl
    intro ev hev
    rw [CpSEnv.withS_s, hl] at hev
    exact h ev hev
  · intro e h
    have hl : (e.s.rAT).1.c.log = e.s.c.log := by
      unfold CpS.rAT
      split
      · rfl
      · split
        · rfl
        · split
          · simp only []
            split <;> rfl
          · rfl
    intro ev hev
    rw [CpSEnv.withS_s, hl] at hev
    exact h ev hev
  · intro e h
    have hl : (e.s.rTLB).1.c.log = e.s.c.log := by
      unfold CpS.rTLB
      split
      · rfl
      · split
        · rfl
        · simp only []
          split
          · split <;> rfl
          · rfl
    intro ev hev
    rw [CpSEnv.withS_s, hl] at hev
    exact h ev hev

theorem CpSEnv.step_log (e : CpSEnv) (op : SOp) (hop : op ≠ .cp .tick) : (e.step op).1.s.c.log = e.s.c.log := by
  cases op with
  | query => rfl
  | shoot => simp only [CpSEnv.step]; split <;> rfl
  | launch => simp only [CpSEnv.step]; split <;> rfl
  | kdone => simp only [CpSEnv.step]; split <;> rfl
  | take c k => cases c <;> rfl
  | ack c j =>
    simp only [CpSEnv.step]
    split
    · rfl
    · split
      · rfl
      · cases c <;> rfl
  | cp op =>
    cases op with
    | tick => exact absurd rfl hop
    | req k =>
      simp only [CpSEnv.step]
      split
      · split <;> rfl
      · rfl
    | takeDma k => rfl
    | takeCache k => rfl
    | takeDrv k => rfl
    | ack j =>
      simp only [CpSEnv.step]
      split
      · rfl
      · split <;> rfl
    | rsp j =>
      simp only [CpSEnv.step]
      split
      · rfl
      · split
        · rfl
        · split <;> rfl

theorem cps_reach_nodrop (g : CpSCfg) (ops : List SOp) : NoDrop (reachCps g ops).s.c := by
  refine CpSEnv.run_pres (P := fun e => NoDrop e.s.c) ?_ ops _ ?_
  · intro e op h
    by_cases hop : op = .cp .tick
    · subst hop
      exact cps_nodrop_stages.tick e h
    · intro ev hev
      rw [CpSEnv.step_log e op hop] at hev
      exact h ev hev
  · intro ev hev
    cases hev

/-- in a quiet state everything the driver port accepted has been answered once -/
theorem CpsSerInv.quiet_answered {g : CpSCfg} {e : CpSEnv} (hr : g.Roomy) (h : CpsSerInv g e) (hnd : NoDrop e.s.c)
    (hq : e.quiet) (hdd : e.s.dropDone = 0) : e.allAnswered := by
  obtain ⟨q1, q2, q3, q4, q5, q6, q7, q8, q9, q10, q11, q12, q13, q14, q15, q16, q17, q18, q19⟩ := hq
  obtain ⟨ro1, ro2, ro3, ro4, _⟩ := h.rest.roomy hr
  have hR := h.rest
  have k1 := hR.kcu
  have k2 := hR.kat
  have k3 := hR.ktlb
  have k4 := hR.cache.count
  obtain ⟨_, _, d3, _⟩ := hR.nodrop
  rw [q9, q17, q10] at k1
  rw [q11, q18, q12] at k2
  rw [q13, q19, q14] at k3
  rw [q7, q16, q8, d3] at k4
  simp only [List.length_nil] at k1 k2 k3 k4
  have hs : e.s.shoot = false := by
    rcases Bool.eq_false_or_eq_true e.s.shoot with hs | hs
    · have := hR.live hs; omega
    · exact hs
  refine ⟨?_, ?_⟩
  · have hpq : e.proj.quiet := by
      unfold CpEnv.quiet
      simp [CpSEnv.proj, q1, q2, q3, q4, q5, q6, q7, q8, q15, q16]
    exact h.inv.quiet_perm hpq h.nf hnd
  · have hb := hR.book
    rw [q2, q3, hdd, hs] at hb
    simp at hb
    exact hb.symm

/-! ## 11. launch-free runs, the third user of the counter, the code before the repairs -/

/-- a list of moves that delivers no kernel launch request -/
def cpsNoLaunch (ops : List SOp) : Prop := ∀ op ∈ ops, op ≠ SOp.launch

/-- state of the code BEFORE repair 0728adcb after a list of environment moves -/
def reachCpsOld (g : CpSCfg) (ops : List SOp) : CpSEnv := (CpSEnv.init g).runOld ops

/-- state of the code before the repair of finding `C11-cp-launch-in-shootdown` (`processLaunchKernelReq`
    without the `shootDownInProcess` guard) after a list of environment moves -/
def reachCpsOldL (g : CpSCfg) (ops : List SOp) : CpSEnv := (CpSEnv.init g).runOldL ops

/-- **while `numCacheACK > 0` nothing is taken from the driver port** — neither a copy, nor a flush
    request, nor a kernel launch request (`cpMiddleware.Handle`), nor a shootdown command
    (`processShootdownCommand`): every user of the counter waits for whoever holds it -/
theorem CpS.counter_blocks (s : CpS) (h : 0 < s.c.numAck) : s.handle = (s, false) ∧ s.hShoot = (s, false) := by
  refine ⟨?_, CpS.hShoot_noop s (.inr (.inr (.inr (.inl h))))⟩
  rcases CpS.handle_split s with h0 | ⟨m, rest, hd, _, h0⟩ | ⟨id, rest, _, _, _, h0⟩
  · exact h0
  · rw [h0]
    unfold CpS.handleCp
    have : s.cpView.handle = (s.cpView, false) := by
      unfold Cp.handle
      split
      · rfl
      · have hd' : s.cpView.drvIn = m :: rest := hd
        simp only [hd']
        rw [if_pos (by exact h)]
    rw [this, CpS.liftCp_noop]
  · rw [h0]
    unfold CpS.launch
    split
    · rfl
    · first
      | rfl
      | (rw [if_pos h])

/-- **nothing is answered for the kernel-start invalidation**: an acknowledgement processed while
    `l1InvalidatedFor != nil` (and no shootdown is in process) only decrements the counter — ToDriver, the
    flush in `currFlushRequest` and the copy / flush path's event log are untouched -/
theorem CpS.invalidation_answers_nothing (s : CpS) (hs : s.shoot = false) (hl : s.l1Inv.isSome = true) :
    s.cacheRsp.1.c.drvOut = s.c.drvOut ∧ s.cacheRsp.1.outEarlier = s.outEarlier ∧
    s.cacheRsp.1.c.curFlush = s.c.curFlush ∧ s.cacheRsp.1.c.log = s.c.log ∧ s.cacheRsp.1.l1Inv = s.l1Inv := by
  unfold CpS.cacheRsp
  split
  · exact ⟨rfl, rfl, rfl, rfl, rfl⟩
  · split
    · exact ⟨rfl, rfl, rfl, rfl, rfl⟩
    · split
      · exact ⟨rfl, rfl, rfl, rfl, rfl⟩
      · simp [hs, hl]

theorem CpSEnv.init_plain (g : CpSCfg) : (CpSEnv.init g).Plain :=
  ⟨⟨rfl, rfl, rfl, rfl, rfl, rfl, rfl, rfl, rfl, rfl⟩, rfl, rfl, rfl⟩

end C11
