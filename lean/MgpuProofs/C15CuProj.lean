import MgpuProofs.C15CuDefs
import MgpuProofs.Props.C14Flush
import MgpuProofs.Props.C15Deep
/-! # C15 ∘ C14 — a composed run projects onto a run of each component; the compute unit's flush
invariant holds in the composition; the reorder buffer discards only while every unanswered scalar
request of the compute unit is saved in its shadow list. -/
namespace C15.Cu

/-! ## T1 / T2: the two projections -/

/-- one composed event is at most one event of the compute unit -/
theorem cstep_cu (c : Cfg) (σ : Comp) (e : CEv) :
    (cstep c σ e).cu = match cuOp c σ e with
      | none => σ.cu
      | some o => C14.Flush.step c.cu σ.cu o := by
  cases e with
  | cu o =>
    unfold cstep cuOp
    by_cases h : isLink o = true
    · simp [h]
    · simp [h]
  | xfer =>
    unfold cstep cuOp
    rcases σ.cu.s.out with _ | ⟨r, rest⟩
    · rfl
    · simp only
      by_cases hf : σ.cu.fault = true
      · simp [hf]
      · by_cases hr : σ.sys.rob.topIn.length < c.rob.topInCap
        · simp [hf, hr]
        · simp [hf, hr]
  | back =>
    unfold cstep cuOp
    rcases σ.sys.rob.topOut with _ | ⟨d, rest⟩
    · rfl
    · simp only
      rcases nameOf σ d.rspTo with _ | r
      · rfl
      · simp only
        by_cases hf : σ.cu.fault = true
        · simp [hf]
        · by_cases hr : σ.cu.s.inp.length < c.cu.capS
          · simp [hf, hr]
          · simp [hf, hr]
  | rob e =>
    cases e <;> rfl

/-- one composed event is at most one event of the closed system around the reorder buffer -/
theorem cstep_sys (c : Cfg) (σ : Comp) (e : CEv) :
    (cstep c σ e).sys = match robEv c σ e with
      | none => σ.sys
      | some e' => sysStep c.rob σ.sys e' := by
  cases e with
  | cu o =>
    unfold cstep robEv
    by_cases h : isLink o = true
    · simp [h]
    · simp [h]
  | xfer =>
    unfold cstep robEv
    rcases σ.cu.s.out with _ | ⟨r, rest⟩
    · rfl
    · simp only
      by_cases hf : σ.cu.fault = true
      · simp [hf]
      · by_cases hr : σ.sys.rob.topIn.length < c.rob.topInCap
        · simp [hf, hr]
        · simp [hf, hr]
  | back =>
    unfold cstep robEv
    rcases σ.sys.rob.topOut with _ | ⟨d, rest⟩
    · rfl
    · simp only
      rcases nameOf σ d.rspTo with _ | r
      · rfl
      · simp only
        by_cases hf : σ.cu.fault = true
        · simp [hf]
        · by_cases hr : σ.cu.s.inp.length < c.cu.capS
          · simp [hf, hr]
          · simp [hf, hr]
  | rob e =>
    cases e <;> rfl

theorem run_append (c : C14.Flush.Cfg) (s : C14.Flush.St) (a b : List C14.Flush.Op) :
    C14.Flush.run c s (a ++ b) = C14.Flush.run c (C14.Flush.run c s a) b := by
  unfold C14.Flush.run; rw [List.foldl_append]

theorem fold_cu (c : Cfg) (evs : List CEv) (σ : Comp) :
    (evs.foldl (cstep c) σ).cu = C14.Flush.run c.cu σ.cu (cuOps c σ evs) := by
  induction evs generalizing σ with
  | nil => rfl
  | cons e es ih =>
    rw [List.foldl_cons, ih, cuOps, run_append, cstep_cu]
    cases cuOp c σ e <;> rfl

theorem fold_sys (c : Cfg) (evs : List CEv) (σ : Comp) :
    (evs.foldl (cstep c) σ).sys = (robEvs c σ evs).foldl (sysStep c.rob) σ.sys := by
  induction evs generalizing σ with
  | nil => rfl
  | cons e es ih =>
    rw [List.foldl_cons, ih, robEvs, List.foldl_append, cstep_sys]
    cases robEv c σ e <;> rfl

/-- **T1. The compute unit of a composed run performs a run of property C14's model**: the events
    `.cu o`, and `take .s 1` / `deliver .s i g` for each accepted move of the connection. -/
theorem comp_cu_is_run (c : Cfg) (evs : List CEv) :
    (crun c evs).cu = C14.Flush.run c.cu C14.Flush.St.init (cuOps c {} evs) :=
  fold_cu c evs {}

/-- **T2. The reorder buffer and the memory below it perform a run of the closed system of property
    C15** (`sysRun`): every theorem about `sysRun c.rob evs` holds of the composition. -/
theorem comp_rob_is_sysRun (c : Cfg) (evs : List CEv) :
    (crun c evs).sys = sysRun c.rob (robEvs c {} evs) :=
  fold_sys c evs {}

/-! ## T3: the projected run of the compute unit is legal -/

theorem nameOf_mem {σ : Comp} {n : Nat} {r : C14.Flush.Req} (h : nameOf σ n = some r) :
    ∃ x ∈ σ.named, x.2 = r := by
  unfold nameOf at h
  rcases hf : σ.named.find? (fun x => x.1 == n) with _ | x
  · rw [hf] at h; cases h
  · rw [hf] at h
    exact ⟨x, List.mem_of_find?_eq_some hf, by simpa using h⟩

/-- the event of the compute unit a legal composed event projects to is legal for it -/
theorem cuOp_legal (c : Cfg) (σ : Comp) (e : CEv) (hl : legalB c σ e = true)
    (hn : ∀ x ∈ σ.named, x.2 ∈ σ.cu.s.sent) (o : C14.Flush.Op) (ho : cuOp c σ e = some o) :
    C14.Flush.Legal σ.cu o := by
  cases e with
  | cu o' =>
    simp only [cuOp] at ho
    by_cases hk : isLink o' = true
    · simp [hk] at ho
    · simp only [hk, Bool.false_eq_true, if_false, Option.some.injEq] at ho
      subst ho
      apply C14.Flush.legalB_sound
      cases o' with
      | deliver k i g => cases k <;> simp_all [legalB, C14.Flush.legalB, isLink]
      | take k n => rfl
      | foreign k n => rfl
      | tick => rfl
      | _ => simp_all [legalB, C14.Flush.legalB, isLink]
  | xfer =>
    simp only [cuOp] at ho
    split at ho
    · cases ho
    · split at ho
      · cases ho
      · split at ho
        · cases ho; trivial
        · cases ho
  | back =>
    simp only [cuOp] at ho
    split at ho
    · cases ho
    · split at ho
      · cases ho
      · rename_i r hnm
        split at ho
        · cases ho
        · split at ho
          · cases ho
            obtain ⟨x, hx, rfl⟩ := nameOf_mem hnm
            exact hn x hx
          · cases ho
  | rob e' => cases ho

theorem fold_cu_legal (c : Cfg) (evs : List CEv) (σ : Comp) (hl : legalRunB c σ evs = true)
    (hs : ∀ k, ∀ x ∈ ((evs.take k).foldl (cstep c) σ).named,
      x.2 ∈ ((evs.take k).foldl (cstep c) σ).cu.s.sent) :
    C14.Flush.LegalRun c.cu σ.cu (cuOps c σ evs) := by
  induction evs generalizing σ with
  | nil => trivial
  | cons e es ih =>
    simp only [legalRunB, Bool.and_eq_true] at hl
    have h0 := hs 0
    simp only [List.take_zero, List.foldl_nil] at h0
    have ih' := ih (cstep c σ e) hl.2 (fun k => by simpa using hs (k + 1))
    have hleg := cuOp_legal c σ e hl.1 h0
    have hcu := cstep_cu c σ e
    rw [cuOps]
    rcases hop : cuOp c σ e with _ | o
    · rw [hop] at hcu
      simp only at hcu
      rw [hcu] at ih'
      simpa using ih'
    · rw [hop] at hcu
      simp only at hcu
      rw [hcu] at ih'
      exact ⟨hleg o hop, ih'⟩

/-- **T3. The compute unit's projected run is legal in the sense of C14** when the composed run is
    legal (`legalRunB`) and every response the reorder buffer built names a request the compute unit
    really sent (`SentNames`). -/
theorem comp_cu_legal (c : Cfg) (evs : List CEv) (hl : legalRunB c {} evs = true) (hs : SentNames c evs) :
    C14.Flush.LegalRun c.cu C14.Flush.St.init (cuOps c {} evs) :=
  fold_cu_legal c evs {} hl hs

/-! ## T4: C14's invariant and theorems hold of the compute unit in the composition -/

/-- **T4. The flush / restart invariant of C14 holds of the compute unit of every legal composed run.** -/
theorem comp_cu_inv (c : Cfg) (evs : List CEv) (hl : legalRunB c {} evs = true) (hs : SentNames c evs)
    (hcap : 0 < c.cu.capCP) : C14.Flush.Inv (crun c evs).cu := by
  rw [comp_cu_is_run]
  exact C14.Flush.flush_inv c.cu hcap _ (comp_cu_legal c evs hl hs)

/-- (T4, corollary) `C14.Flush.resent_exactly_once` for the scalar path connected to the reorder
    buffer: what the last flush saved is what was re-sent followed by what still waits, no request
    ID twice on the port, no in-flight record without its request, every record created is answered
    or in exactly one list. -/
theorem comp_scalar_resent_exactly_once (c : Cfg) (evs : List CEv) (hl : legalRunB c {} evs = true)
    (hs : SentNames c evs) (hcap : 0 < c.cu.capCP) :
    let ch := (crun c evs).cu.s
    ch.resent ++ C14.Flush.ids ch.sh = ch.flushed ∧ ch.flushed.Nodup ∧ ch.sent.Nodup ∧
    (∀ e ∈ ch.inf, e.id ∈ ch.unit ∨ (e.id, e.gen) ∈ ch.sent) ∧
    (ch.applied ++ C14.Flush.ids (ch.inf ++ ch.sh)).Perm ch.issued ∧ ch.issued.Nodup := by
  have h := C14.Flush.resent_exactly_once c.cu hcap _ (comp_cu_legal c evs hl hs)
    (C14.Flush.run c.cu C14.Flush.St.init (cuOps c {} evs)).s (by simp [C14.Flush.chans])
  rw [← comp_cu_is_run] at h
  exact h

/-- (T4) **the two wait counters of every wavefront are exact after EVERY composed event list** (no
    legality, no `SentNames`, no capacity hypothesis): `bookkeeping_any_run` through T1. -/
theorem comp_counters_exact (c : Cfg) (evs : List CEv) (w : Nat) :
    (crun c evs).cu.vm w =
      (C14.Flush.cnt ((crun c evs).cu.v.inf ++ (crun c evs).cu.v.sh) w : Int) ∧
    (crun c evs).cu.lgkm w =
      (C14.Flush.cnt ((crun c evs).cu.v.inf ++ (crun c evs).cu.v.sh) w : Int) +
      (C14.Flush.cnt ((crun c evs).cu.s.inf ++ (crun c evs).cu.s.sh) w : Int) := by
  rw [comp_cu_is_run]
  exact C14.Flush.bookkeeping_any_run c.cu _ w

/-! ## T5: the command processor's round between the compute unit and the reorder buffer -/

/-- the Control side of the reorder buffer: incoming messages, acknowledgements not yet taken, flag -/
def cv (s : C15.St) : List Ctl × Nat × Bool := (s.ctlIn, s.ctlOut, s.flushing)

theorem bottomUp_cv (c : C15.Cfg) (s : C15.St) : cv (bottomUp c s).1 = cv s := by
  unfold bottomUp; repeat' split
  all_goals rfl

theorem parseBottom_cv (s : C15.St) : cv (parseBottom s).1 = cv s := by
  unfold parseBottom; repeat' split
  all_goals rfl

theorem topDown_cv (c : C15.Cfg) (s : C15.St) : cv (topDown c s).1 = cv s := by
  unfold topDown; repeat' split
  all_goals rfl

theorem runPipeline_cv (c : C15.Cfg) (s : C15.St) : cv (runPipeline c s).1 = cv s := by
  unfold runPipeline
  have h1 := iterP_pres (P := fun s' => cv s' = cv s) (f := bottomUp c)
    (fun s' hs => by rw [bottomUp_cv]; exact hs) c.width (s, false) rfl
  have h2 := iterP_pres (P := fun s' => cv s' = cv s) (f := parseBottom)
    (fun s' hs => by rw [parseBottom_cv]; exact hs) c.width _ h1
  exact iterP_pres (P := fun s' => cv s' = cv s) (f := topDown c)
    (fun s' hs => by rw [topDown_cv]; exact hs) c.width _ h2

/-- a tick touches the Control side only in `processControlMsg` -/
theorem tick_cv (c : C15.Cfg) (s : C15.St) :
    cv (tick c s).1 = cv s ∨ cv (tick c s).1 = cv (processCtl c s).1 := by
  unfold tick
  split
  · exact Or.inl rfl
  · simp only
    split
    · exact Or.inr rfl
    · split
      · exact Or.inr rfl
      · exact Or.inr (runPipeline_cv c _)

/-- `processControlMsg`: nothing, or the head message is consumed, one acknowledgement is pushed and
    the flag is set (discard) / cleared (restart) -/
theorem processCtl_cv (c : C15.Cfg) (s : C15.St) :
    cv (processCtl c s).1 = cv s ∨
    ∃ m rest, s.ctlIn = m :: rest ∧
      ((m.discard = true ∧ cv (processCtl c s).1 = (rest, s.ctlOut + 1, true)) ∨
       (m.discard = false ∧ m.restart = true ∧ cv (processCtl c s).1 = (rest, s.ctlOut + 1, false))) := by
  unfold processCtl
  split
  · exact Or.inl rfl
  · rename_i m rest hin
    split
    · rename_i hd
      split
      · exact Or.inl rfl
      · exact Or.inr ⟨m, rest, hin, Or.inl ⟨hd, rfl⟩⟩
    · rename_i hd
      split
      · rename_i hr
        split
        · exact Or.inl rfl
        · exact Or.inr ⟨m, rest, hin, Or.inr ⟨by simpa using hd, hr, rfl⟩⟩
      · exact Or.inl rfl

/-- events of the closed system other than a tick, a control message and the taking of an
    acknowledgement leave the Control side alone -/
theorem sysStep_cv (c : C15.Cfg) (σ : Sys) (e : Ev) (h1 : e ≠ .tick) (h2 : ∀ m, e ≠ .ctl m) (h3 : e ≠ .takeAck) :
    cv (sysStep c σ e).rob = cv σ.rob := by
  cases e with
  | tick => exact absurd rfl h1
  | ctl m => exact absurd rfl (h2 m)
  | takeAck => exact absurd rfl h3
  | arrive q => simp only [sysStep, C15.step]; split <;> rfl
  | memTake => simp only [sysStep]; split <;> rfl
  | memAnswer j p =>
    simp only [sysStep]
    split
    · rfl
    · split
      · simp only [C15.step]; split <;> rfl
      · rfl
  | takeRsp => simp only [sysStep]; split <;> rfl

/-! ### the compute unit's side: the command processor's state `cp` -/

theorem cpRecvAll_acked (ms : List C14.Flush.CPMsg) : C14.Flush.cpRecvAll .acked ms = .acked := by
  unfold C14.Flush.cpRecvAll
  induction ms with
  | nil => rfl
  | cons m ms ih => cases m <;> exact ih

theorem sendToCP_cp (c : C14.Flush.Cfg) (s : C14.Flush.St) : (C14.Flush.sendToCP c s).cp = s.cp := by
  unfold C14.Flush.sendToCP; split <;> rfl

theorem procCP_cp (c : C14.Flush.Cfg) (s : C14.Flush.St) : (C14.Flush.procCP c s).cp = s.cp := by
  unfold C14.Flush.procCP; repeat' split
  all_goals rfl

theorem processInput_cp (c : C14.Flush.Cfg) (s : C14.Flush.St) : (C14.Flush.processInput c s).cp = s.cp := by
  unfold C14.Flush.processInput
  rw [procCP_cp]
  have := C14.Flush.ctl_memIn s
  simp only [C14.Flush.ctl, Prod.mk.injEq] at this
  exact this.2.2.2.2.2.2.2.2.2.2.2.2.2

theorem flushPipeline_cp (s : C14.Flush.St) : (C14.Flush.flushPipeline s).cp = s.cp := by
  unfold C14.Flush.flushPipeline; repeat' split
  all_goals rfl

theorem checkShadow_cp (c : C14.Flush.Cfg) (s : C14.Flush.St) : (C14.Flush.checkShadow c s).cp = s.cp := by
  unfold C14.Flush.checkShadow; split <;> rfl

theorem doFlush_cp (c : C14.Flush.Cfg) (s : C14.Flush.St) : (C14.Flush.doFlush c s).cp = s.cp := by
  unfold C14.Flush.doFlush
  have h1 : (if s.isFlushing then C14.Flush.flushPipeline (if s.isSending then C14.Flush.reinsert s else s)
      else s).cp = s.cp := by
    split
    · rw [flushPipeline_cp]; split <;> rfl
    · rfl
  have h2 : ∀ t : C14.Flush.St, (if t.isSending then C14.Flush.checkShadow c t else t).cp = t.cp := by
    intro t; split
    · exact checkShadow_cp c t
    · rfl
  simp only
  rw [h2]; exact h1

theorem tick_cp (c : C14.Flush.Cfg) (s : C14.Flush.St) : (C14.Flush.tick c s).cp = s.cp := by
  unfold C14.Flush.tick
  rw [doFlush_cp, processInput_cp, sendToCP_cp]

/-- once the flush is acknowledged only an accepted restart request changes the command processor's state -/
theorem step_cp_acked (c : C14.Flush.Cfg) (s : C14.Flush.St) (o : C14.Flush.Op) (h : s.cp = .acked)
    (ho : o ≠ .cpRestart) : (C14.Flush.step c s o).cp = .acked := by
  unfold C14.Flush.step
  split
  · exact h
  · cases o with
    | issS w n => simp only [C14.Flush.issS]; split <;> exact h
    | issV w n => simp only [C14.Flush.issV]; split <;> exact h
    | fetch w => simp only [C14.Flush.fetch]; split <;> exact h
    | usendS => exact h
    | usendV n => exact h
    | deliver k i g => cases k <;> exact h
    | cpFlush => simp only; split <;> simp [h]
    | cpRestart => exact absurd rfl ho
    | take k n =>
      cases k
      · exact h
      · exact h
      · exact h
      · simp only [h]; exact cpRecvAll_acked _
    | foreign k n => cases k <;> exact h
    | tick => simp only; rw [tick_cp]; exact h

/-- **The protocol invariant** of the command processor's round: its ghost phase `robPh` against the
    Control port of the reorder buffer (`ctlIn`, acknowledgements `ctlOut`), the ROB's `isFlushing`,
    and its state towards the compute unit. -/
def ProtoV (ph : Nat) (cp : C14.Flush.CPSt) (ci : List Ctl) (co : Nat) (fl : Bool) : Prop :=
  (ph = 0 ∧ ci = [] ∧ co = 0 ∧ fl = false) ∨
  (cp = .acked ∧
    ((ph = 1 ∧ ci = [⟨true, false⟩] ∧ co = 0 ∧ fl = false) ∨
     (ph = 1 ∧ ci = [] ∧ co = 1 ∧ fl = true) ∨
     (ph = 2 ∧ ci = [] ∧ co = 0 ∧ fl = true) ∨
     (ph = 3 ∧ ci = [⟨false, true⟩] ∧ co = 0 ∧ fl = true) ∨
     (ph = 3 ∧ ci = [] ∧ co = 1 ∧ fl = false) ∨
     (ph = 4 ∧ ci = [] ∧ co = 0 ∧ fl = false)))

def Proto (σ : Comp) : Prop :=
  ProtoV σ.robPh σ.cu.cp σ.sys.rob.ctlIn σ.sys.rob.ctlOut σ.sys.rob.flushing

theorem Proto_init : Proto {} := Or.inl ⟨rfl, rfl, rfl, rfl⟩

theorem ProtoV_cp {ph cp cp' ci co fl} (h : ProtoV ph cp ci co fl) (hc : cp = .acked → cp' = .acked) :
    ProtoV ph cp' ci co fl := by
  rcases h with h | ⟨h1, h⟩
  · exact Or.inl h
  · exact Or.inr ⟨hc h1, h⟩

theorem ProtoV_cv {ph cp} {s s' : C15.St} (h : ProtoV ph cp s.ctlIn s.ctlOut s.flushing) (hc : cv s' = cv s) :
    ProtoV ph cp s'.ctlIn s'.ctlOut s'.flushing := by
  simp only [cv, Prod.mk.injEq] at hc
  rw [hc.1, hc.2.1, hc.2.2]; exact h

/-- a compute-unit event other than an accepted restart request keeps the invariant -/
theorem Proto_cu_step (c : Cfg) (σ : Comp) (o : C14.Flush.Op) (ho : o ≠ .cpRestart) (ph : Nat) (hp : Proto σ)
    (hph : ph = σ.robPh) (sys : Sys) (hsys : cv sys.rob = cv σ.sys.rob) (idOf named) :
    Proto { cu := C14.Flush.step c.cu σ.cu o, sys := sys, idOf := idOf, named := named, robPh := ph } := by
  unfold Proto at hp ⊢
  subst hph
  exact ProtoV_cv (s := σ.sys.rob) (ProtoV_cp hp (fun h => step_cp_acked c.cu σ.cu o h ho)) hsys

/-- **every legal composed event keeps the protocol invariant** (no capacity hypothesis, no
    `SentNames`: a refused message leaves phase and ports as they were) -/
theorem cstep_Proto (c : Cfg) (σ : Comp) (e : CEv) (hl : legalB c σ e = true) (hp : Proto σ) :
    Proto (cstep c σ e) := by
  cases e with
  | cu o =>
    simp only [cstep]
    by_cases hk : isLink o = true
    · simp only [hk, if_true]; exact hp
    · simp only [hk, Bool.false_eq_true, if_false]
      by_cases ho : o = .cpRestart
      · subst ho
        simp only [legalB, isLink, Bool.not_false, Bool.true_and, Bool.and_eq_true, decide_eq_true_eq] at hl
        obtain ⟨hcp, h4⟩ := hl
        unfold Proto ProtoV at hp
        have h := hp
        rw [h4] at h
        simp only [show ¬ (4 = 0) by decide, show ¬ (4 = 1) by decide, show ¬ (4 = 2) by decide,
          show ¬ (4 = 3) by decide, false_and, false_or, true_and] at h
        obtain ⟨_, hci, hco, hfl⟩ := h
        simp only [robPhStep, h4, and_true]
        by_cases hroom : σ.cu.cpIn.length < c.cu.capCP
        · simp only [hroom, if_true]
          exact Or.inl ⟨rfl, hci, hco, hfl⟩
        · simp only [hroom, if_false]
          have : C14.Flush.step c.cu σ.cu .cpRestart = σ.cu := by
            unfold C14.Flush.step; split
            · rfl
            · simp only
          rw [this]
          unfold Proto ProtoV
          exact Or.inr ⟨hcp, Or.inr (Or.inr (Or.inr (Or.inr (Or.inr ⟨rfl, hci, hco, hfl⟩))))⟩
      · have hph : robPhStep σ c (.cu o) = σ.robPh := by
          cases o <;> first | rfl | exact absurd rfl ho
        exact Proto_cu_step c σ o ho _ hp hph σ.sys rfl _ _
  | xfer =>
    simp only [cstep]
    split
    · exact hp
    · split
      · exact hp
      · split
        · exact Proto_cu_step c σ _ (by intro h; cases h) _ hp rfl _
            (sysStep_cv c.rob σ.sys _ (by intro h; cases h) (by intro m h; cases h) (by intro h; cases h)) _ _
        · exact hp
  | back =>
    simp only [cstep]
    split
    · exact hp
    · split
      · exact hp
      · split
        · exact hp
        · split
          · exact Proto_cu_step c σ _ (by intro h; cases h) _ hp rfl _
              (sysStep_cv c.rob σ.sys _ (by intro h; cases h) (by intro m h; cases h) (by intro h; cases h)) _ _
          · exact hp
  | rob e =>
    cases e with
    | arrive q => exact hp
    | takeRsp => exact hp
    | memTake =>
      unfold Proto at hp ⊢
      exact ProtoV_cv (s := σ.sys.rob) hp
        (sysStep_cv c.rob σ.sys .memTake (by intro h; cases h) (by intro m h; cases h) (by intro h; cases h))
    | memAnswer j p =>
      unfold Proto at hp ⊢
      exact ProtoV_cv (s := σ.sys.rob) hp
        (sysStep_cv c.rob σ.sys (.memAnswer j p) (by intro h; cases h) (by intro m h; cases h) (by intro h; cases h))
    | tick =>
      unfold Proto at hp ⊢
      show ProtoV σ.robPh σ.cu.cp (tick c.rob σ.sys.rob).1.ctlIn (tick c.rob σ.sys.rob).1.ctlOut
        (tick c.rob σ.sys.rob).1.flushing
      rcases tick_cv c.rob σ.sys.rob with ht | ht
      · exact ProtoV_cv hp ht
      · rcases processCtl_cv c.rob σ.sys.rob with hq | ⟨m, rest, hin, hq⟩
        · exact ProtoV_cv hp (ht.trans hq)
        · have ht' : ∀ x, cv (processCtl c.rob σ.sys.rob).1 = x → (tick c.rob σ.sys.rob).1.ctlIn = x.1 ∧
              (tick c.rob σ.sys.rob).1.ctlOut = x.2.1 ∧ (tick c.rob σ.sys.rob).1.flushing = x.2.2 := by
            intro x hx
            rw [hx] at ht
            simp only [cv] at ht
            rw [← ht]; exact ⟨rfl, rfl, rfl⟩
          unfold ProtoV at hp
          rw [hin] at hp
          rcases hq with ⟨hd, hq⟩ | ⟨hd, hr, hq⟩
          · obtain ⟨e1, e2, e3⟩ := ht' _ hq
            rw [e1, e2, e3]
            rcases hp with hp | ⟨hcp, hp | hp | hp | hp | hp | hp⟩
            · simp at hp
            · obtain ⟨h1, h2, h3, h4⟩ := hp
              simp only [List.cons.injEq] at h2
              obtain ⟨_, rfl⟩ := h2
              exact Or.inr ⟨hcp, Or.inr (Or.inl ⟨h1, rfl, by rw [h3], rfl⟩)⟩
            · simp at hp
            · simp at hp
            · obtain ⟨h1, h2, h3, h4⟩ := hp
              simp only [List.cons.injEq] at h2
              rw [h2.1] at hd; cases hd
            · simp at hp
            · simp at hp
          · obtain ⟨e1, e2, e3⟩ := ht' _ hq
            rw [e1, e2, e3]
            rcases hp with hp | ⟨hcp, hp | hp | hp | hp | hp | hp⟩
            · simp at hp
            · obtain ⟨h1, h2, h3, h4⟩ := hp
              simp only [List.cons.injEq] at h2
              rw [h2.1] at hd; cases hd
            · simp at hp
            · simp at hp
            · obtain ⟨h1, h2, h3, h4⟩ := hp
              simp only [List.cons.injEq] at h2
              obtain ⟨_, rfl⟩ := h2
              exact Or.inr ⟨hcp, Or.inr (Or.inr (Or.inr (Or.inr (Or.inl ⟨h1, rfl, by rw [h3], rfl⟩))))⟩
            · simp at hp
            · simp at hp
    | ctl m =>
      unfold Proto at hp ⊢
      show ProtoV (robPhStep σ c (.rob (.ctl m))) σ.cu.cp (C15.step c.rob σ.sys.rob (.ctl m)).ctlIn
        (C15.step c.rob σ.sys.rob (.ctl m)).ctlOut (C15.step c.rob σ.sys.rob (.ctl m)).flushing
      unfold ProtoV at hp ⊢
      obtain ⟨d, r⟩ := m
      simp only [legalB, Bool.or_eq_true, Bool.and_eq_true, decide_eq_true_eq, Bool.not_eq_true'] at hl
      by_cases hroom : σ.sys.rob.ctlIn.length < c.rob.ctlInCap
      · simp only [robPhStep, C15.step, hroom, if_true]
        rcases hl with ⟨⟨⟨hd, hr⟩, hcp⟩, h0⟩ | ⟨⟨hd, hr⟩, h2⟩
        · subst hd; subst hr
          rw [h0] at hp
          simp only [show ¬ (0 = 1) by decide, show ¬ (0 = 2) by decide, show ¬ (0 = 3) by decide,
            show ¬ (0 = 4) by decide, false_and, or_false, and_false, true_and] at hp
          obtain ⟨hci, hco, hfl⟩ := hp
          simp [h0, hci, hco, hfl, hcp]
        · subst hd; subst hr
          rw [h2] at hp
          simp only [show ¬ (2 = 0) by decide, show ¬ (2 = 1) by decide, show ¬ (2 = 3) by decide,
            show ¬ (2 = 4) by decide, false_and, false_or, or_false, true_and] at hp
          obtain ⟨hcp, hci, hco, hfl⟩ := hp
          simp [h2, hci, hco, hfl, hcp]
      · simp only [robPhStep, C15.step, hroom, if_false]
        exact hp
    | takeAck =>
      unfold Proto at hp ⊢
      show ProtoV (robPhStep σ c (.rob .takeAck)) σ.cu.cp σ.sys.rob.ctlIn (σ.sys.rob.ctlOut - 1) σ.sys.rob.flushing
      unfold ProtoV at hp ⊢
      simp only [robPhStep]
      rcases hp with hp | ⟨hcp, hp | hp | hp | hp | hp | hp⟩
      · obtain ⟨h1, h2, h3, h4⟩ := hp
        simp [h1, h2, h3, h4]
      all_goals
        obtain ⟨h1, h2, h3, h4⟩ := hp
        simp [h1, h2, h3, h4, hcp]

theorem fold_Proto (c : Cfg) (evs : List CEv) (σ : Comp) (hl : legalRunB c σ evs = true) (hp : Proto σ) :
    Proto (evs.foldl (cstep c) σ) := by
  induction evs generalizing σ with
  | nil => exact hp
  | cons e es ih =>
    simp only [legalRunB, Bool.and_eq_true] at hl
    exact ih _ hl.2 (cstep_Proto c σ e hl.1 hp)

/-- the protocol invariant holds after every legal composed run -/
theorem comp_proto (c : Cfg) (evs : List CEv) (hl : legalRunB c {} evs = true) : Proto (crun c evs) :=
  fold_Proto c evs {} hl Proto_init

/-- **T5. The reorder buffer discards only requests the compute unit has saved.** After every legal
    composed run that satisfies `SentNames`: whenever the command processor's round towards the
    reorder buffer is open (`robPh ≠ 0`), or the ROB holds a control message it has not processed,
    or it is flushing — so at every moment at which it throws transactions, waiting requests or
    waiting responses away — the compute unit is paused, is not re-sending, has nothing queued in its
    scalar unit, and its in-flight list of scalar requests is empty: every unanswered scalar record
    is in the shadow list (`comp_scalar_resent_exactly_once`: answered, in flight or saved), from
    which it is re-sent after the restart. -/
theorem rob_discards_only_saved_requests (c : Cfg) (evs : List CEv) (hl : legalRunB c {} evs = true)
    (hs : SentNames c evs) (hcap : 0 < c.cu.capCP) :
    let σ := crun c evs
    (σ.robPh ≠ 0 ∨ σ.sys.rob.ctlIn ≠ [] ∨ σ.sys.rob.flushing = true) →
      σ.cu.isPaused = true ∧ σ.cu.isSending = false ∧ σ.cu.s.inf = [] ∧ σ.cu.s.unit = [] := by
  intro σ h
  have hp : Proto σ := comp_proto c evs hl
  have hinv : C14.Flush.Inv σ.cu := comp_cu_inv c evs hl hs hcap
  have hcp : σ.cu.cp = .acked := by
    rcases hp with ⟨h0, hci, _, hfl⟩ | ⟨hcp, _⟩
    · rcases h with h | h | h
      · exact absurd h0 h
      · exact absurd hci h
      · rw [hfl] at h; cases h
    · exact hcp
  obtain ⟨_, _, _, _, p5⟩ := hinv.1.2.1
  have hpq : σ.cu.isPaused = true ∧ σ.cu.isSending = false := by
    rcases p5 with h5 | h5 | h5 | h5 | h5 | h5 | h5 | h5 <;> simp_all
  exact ⟨hpq.1, hpq.2, hinv.1.1.cs.pausedIdle hpq.1 hpq.2, hinv.1.1.cs.pausedUnit hpq.1⟩

/-- (T5, the round as the command processor sees it) In every legal composed run the phase of the
    round determines the Control port and the flag of the reorder buffer; a `DiscardTransactions` or
    `Restart` message the port refused leaves everything as it was (`ctlInCap`, `ctlOutCap`
    arbitrary, also 0). -/
theorem rob_round (c : Cfg) (evs : List CEv) (hl : legalRunB c {} evs = true) :
    let σ := crun c evs
    (σ.robPh = 0 → σ.sys.rob.ctlIn = [] ∧ σ.sys.rob.ctlOut = 0 ∧ σ.sys.rob.flushing = false) ∧
    (σ.robPh = 2 → σ.sys.rob.ctlIn = [] ∧ σ.sys.rob.ctlOut = 0 ∧ σ.sys.rob.flushing = true) ∧
    (σ.robPh = 4 → σ.sys.rob.ctlIn = [] ∧ σ.sys.rob.ctlOut = 0 ∧ σ.sys.rob.flushing = false) ∧
    (σ.robPh ≠ 0 → σ.cu.cp = .acked) ∧ σ.robPh ≤ 4 ∧ σ.sys.rob.ctlIn.length + σ.sys.rob.ctlOut ≤ 1 := by
  intro σ
  have hp : Proto σ := comp_proto c evs hl
  unfold Proto ProtoV at hp
  rcases hp with hp | ⟨hcp, hp | hp | hp | hp | hp | hp⟩
  all_goals
    obtain ⟨h1, h2, h3, h4⟩ := hp
    simp [h1, h2, h3, h4]
  all_goals exact hcp

/-! ### non-vacuity -/

/-- a reorder buffer with the shipped Control port (one message each way), in front of a compute unit
    with the shipped port sizes -/
def demoCfg : Cfg :=
  { rob := { cap := 4, width := 2, topInCap := 4, topOutCap := 4, botInCap := 4, botOutCap := 4,
             ctlInCap := 1, ctlOutCap := 1, bottomUnit := true } }

/-- one scalar load sent to the ROB; the compute unit is flushed and acknowledges; the command
    processor sends `DiscardTransactions`; the ROB processes it -/
def demoEvs : List CEv :=
  [.cu (.issS 0 1), .cu .usendS, .xfer, .cu .cpFlush, .cu .tick, .cu .tick, .cu (.take .c 1),
   .rob (.ctl ⟨true, false⟩), .rob .tick]

theorem demo_legal : legalRunB demoCfg {} demoEvs = true := by decide

theorem sentNames_of_prefixes (c : Cfg) (evs : List CEv)
    (h : ∀ k, k ≤ evs.length → ∀ x ∈ (crun c (evs.take k)).named, x.2 ∈ (crun c (evs.take k)).cu.s.sent) :
    SentNames c evs := by
  intro k
  by_cases hk : k ≤ evs.length
  · exact h k hk
  · have : evs.take k = evs.take evs.length := by
      rw [List.take_of_length_le (by omega), List.take_length]
    rw [this]; exact h _ (Nat.le_refl _)

theorem demo_sentNames : SentNames demoCfg demoEvs :=
  sentNames_of_prefixes _ _ (by decide)

/-- the hypotheses of T5 hold and its premise is true: the ROB is flushing (phase 1, acknowledgement
    not yet taken); the compute unit is paused and the load's record is in the shadow list, not in
    the in-flight list -/
example : (crun demoCfg demoEvs).sys.rob.flushing = true ∧ (crun demoCfg demoEvs).robPh = 1 ∧
    (crun demoCfg demoEvs).sys.rob.ctlOut = 1 ∧
    (crun demoCfg demoEvs).cu.s.sh.map (fun e => (e.id, e.gen)) = [(0, 0)] ∧
    (crun demoCfg demoEvs).cu.s.inf = [] ∧ (crun demoCfg demoEvs).cu.isPaused = true := by decide

example : (crun demoCfg demoEvs).cu.isPaused = true ∧ (crun demoCfg demoEvs).cu.isSending = false ∧
    (crun demoCfg demoEvs).cu.s.inf = [] ∧ (crun demoCfg demoEvs).cu.s.unit = [] :=
  rob_discards_only_saved_requests demoCfg demoEvs demo_legal demo_sentNames (by decide) (Or.inr (Or.inr (by decide)))

/-- a whole round: the ROB has accepted the load (a transaction) when the flush comes; it throws the
    transaction away (`discarded = [0]`); acknowledgement, `Restart`, acknowledgement, restart of the
    compute unit, which re-sends the saved record under a new request ID -/
def roundEvs : List CEv :=
  [.cu (.issS 0 1), .cu .usendS, .xfer, .rob .tick, .cu .cpFlush, .cu .tick, .cu .tick, .cu (.take .c 1),
   .rob (.ctl ⟨true, false⟩), .rob .tick, .rob .takeAck, .rob (.ctl ⟨false, true⟩), .rob .tick, .rob .takeAck,
   .cu .cpRestart, .cu .tick, .cu .tick, .cu (.take .c 1), .cu .tick]

theorem round_legal : legalRunB demoCfg {} roundEvs = true := by decide

theorem round_sentNames : SentNames demoCfg roundEvs :=
  sentNames_of_prefixes _ _ (by decide)

example : (roundEvs.length = 19) ∧
    ((List.range 20).map fun k => (crun demoCfg (roundEvs.take k)).robPh) =
      [0, 0, 0, 0, 0, 0, 0, 0, 0, 1, 1, 2, 3, 3, 4, 0, 0, 0, 0, 0] ∧
    (crun demoCfg (roundEvs.take 10)).sys.rob.discarded = [0] ∧
    (crun demoCfg (roundEvs.take 10)).cu.s.sh.map (fun e => (e.id, e.gen)) = [(0, 0)] ∧
    (crun demoCfg roundEvs).cu.s.inf.map (fun e => (e.id, e.gen)) = [(0, 1)] ∧
    (crun demoCfg roundEvs).cu.s.sent = [(0, 0), (0, 1)] ∧ (crun demoCfg roundEvs).cu.s.out = [(0, 1)] ∧
    (crun demoCfg roundEvs).cu.isPaused = false ∧ (crun demoCfg roundEvs).cu.cp = .idle := by decide

end C15.Cu
