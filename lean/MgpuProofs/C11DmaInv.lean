import MgpuProofs.C11Dma
/-! # C11 helper: the bookkeeping invariant of the DMA engine and its preservation -/
namespace C11

theorem pairwise_mem' {α} {R : α → α → Prop} {l : List α} (h : l.Pairwise R) {a b : α}
    (ha : a ∈ l) (hb : b ∈ l) : a = b ∨ R a b ∨ R b a := by
  induction h with
  | nil => cases ha
  | cons hx _ ih =>
    rcases List.mem_cons.1 ha with rfl | ha' <;> rcases List.mem_cons.1 hb with rfl | hb'
    · exact .inl rfl
    · exact .inr (.inl (hx _ hb'))
    · exact .inr (.inr (hx _ ha'))
    · exact ih ha' hb'

theorem nodup_map_inj {α β} {f : α → β} {l : List α} (h : (l.map f).Nodup) {a b : α}
    (ha : a ∈ l) (hb : b ∈ l) (e : f a = f b) : a = b := by
  induction l with
  | nil => cases ha
  | cons x l ih =>
    simp only [List.map_cons, List.nodup_cons, List.mem_map, not_exists, not_and] at h
    rcases List.mem_cons.1 ha with rfl | ha' <;> rcases List.mem_cons.1 hb with rfl | hb'
    · rfl
    · exact absurd e.symm (h.1 b hb')
    · exact absurd e (h.1 a ha')
    · exact ih h.2 ha' hb'

/-- removing `id` from the pending set lowers the number of still-pending members of a
    duplicate-free list containing `id` by exactly one -/
theorem count_remove' (l P Q : List Nat) (id : Nat) (hQ : ∀ x, x ∈ Q ↔ x ∈ P ∧ x ≠ id)
    (hl : l.Nodup) (hid : id ∈ l) (hP : id ∈ P) :
    (l.filter (fun x => decide (x ∈ Q))).length + 1 = (l.filter (fun x => decide (x ∈ P))).length := by
  induction l with
  | nil => cases hid
  | cons a l ih =>
    simp only [List.nodup_cons] at hl
    have hidQ : id ∉ Q := fun h => ((hQ id).1 h).2 rfl
    rcases List.mem_cons.1 hid with rfl | hm
    · have h1 : (l.filter (fun x => decide (x ∈ Q))) = l.filter (fun x => decide (x ∈ P)) := by
        apply List.filter_congr
        intro x hx
        have : x ≠ id := fun e => hl.1 (e ▸ hx)
        simp [hQ, this]
      simp [hP, hidQ, h1]
    · have hne : a ≠ id := fun e => hl.1 (e ▸ hm)
      have := ih hl.2 hm
      by_cases ha : a ∈ P
      · have : a ∈ Q := (hQ a).2 ⟨ha, hne⟩
        simp [ha, this]; omega
      · have : a ∉ Q := fun h => ha ((hQ a).1 h).1
        simp [ha, this]; omega

theorem count_same' (l P Q : List Nat) (id : Nat) (hQ : ∀ x, x ∈ Q ↔ x ∈ P ∧ x ≠ id) (hid : id ∉ l) :
    (l.filter (fun x => decide (x ∈ Q))) = l.filter (fun x => decide (x ∈ P)) := by
  apply List.filter_congr
  intro x hx
  have : x ≠ id := fun e => hid (e ▸ hx)
  simp [hQ, this]

theorem mem_filter_ne (P : List Nat) (id x : Nat) : x ∈ P.filter (· != id) ↔ x ∈ P ∧ x ≠ id := by
  simp

theorem pendIds_filter (s : Dma) (id : Nat) :
    (s.pending.filter (·.id != id)).map (·.id) = (pendIds s).filter (· != id) := by
  unfold pendIds; rw [List.filter_map]; rfl

/-- bookkeeping invariant of the engine; `nextCp` = number of copy requests the environment has
    issued (ids `0..nextCp-1`), `drained` = completions already collected by the CP side -/
structure DInv (s : Dma) (nextCp : Nat) (drained : List Nat) : Prop where
  pend_nodup : (pendIds s).Nodup
  pend_lt : ∀ x ∈ pendIds s, x < s.nextId
  subs_nodup : ∀ c ∈ s.processing, c.subs.Nodup
  subs_lt : ∀ c ∈ s.processing, ∀ x ∈ c.subs, x < s.nextId
  subs_disj : s.processing.Pairwise (fun c d => ∀ x ∈ c.subs, x ∉ d.subs)
  count_eq : ∀ c ∈ s.processing,
    c.count = ((c.subs.filter (fun x => decide (x ∈ pendIds s))).length : Int)
  pend_owner : ∀ r ∈ s.pending, ∃ c ∈ s.processing, r.id ∈ c.subs ∧ c.sup.id = r.owner
  ids_nodup : (s.completed ++ procIds s ++ s.cpIn.map (·.id)).Nodup
  ids_lt : ∀ x ∈ s.completed ++ procIds s ++ s.cpIn.map (·.id), x < nextCp
  cap_proc : s.processing.length ≤ s.maxReq
  cap_mem : s.memOut.length ≤ s.memCap
  emitted : s.completed = drained ++ s.cpOut ++ s.toCP

/-- transfer along a change that leaves the bookkeeping fields alone -/
theorem DInv.congr {s s' : Dma} {n : Nat} {d d' : List Nat} (h : DInv s n d)
    (hp : s'.pending = s.pending) (hpr : s'.processing = s.processing) (hn : s'.nextId = s.nextId)
    (hc : s'.completed = s.completed) (hi : s'.cpIn = s.cpIn) (hm : s'.maxReq = s.maxReq)
    (hmo : s'.memOut.length ≤ s'.memCap) (hem : s'.completed = d' ++ s'.cpOut ++ s'.toCP) :
    DInv s' n d' := by
  have e1 : pendIds s' = pendIds s := by simp [pendIds, hp]
  have e2 : procIds s' = procIds s := by simp [procIds, hpr]
  constructor
  · rw [e1]; exact h.pend_nodup
  · rw [e1, hn]; exact h.pend_lt
  · rw [hpr]; exact h.subs_nodup
  · rw [hpr, hn]; exact h.subs_lt
  · rw [hpr]; exact h.subs_disj
  · rw [hpr, e1]; exact h.count_eq
  · rw [hpr, hp]; exact h.pend_owner
  · rw [hc, e2, hi]; exact h.ids_nodup
  · rw [hc, e2, hi]; exact h.ids_lt
  · rw [hpr, hm]; exact h.cap_proc
  · exact hmo
  · exact hem

theorem DInv.sendCP {s : Dma} {n : Nat} {d : List Nat} (h : DInv s n d) : DInv s.sendCP.1 n d := by
  unfold Dma.sendCP
  cases ht : s.toCP with
  | nil => exact h
  | cons r rest =>
    refine h.congr rfl rfl rfl rfl rfl rfl h.cap_mem ?_
    simp [h.emitted, ht]

theorem DInv.sendMem {s : Dma} {n : Nat} {d : List Nat} (h : DInv s n d) : DInv s.sendMem.1 n d := by
  unfold Dma.sendMem
  cases ht : s.toMem with
  | nil => exact h
  | cons r rest =>
    simp only
    split
    · rename_i hlt
      refine h.congr rfl rfl rfl rfl rfl rfl ?_ h.emitted
      simp; omega
    · exact h

theorem mem_map_decOne {cs : List Coll} {id : Nat} {c : Coll} (h : c ∈ cs.map (decOne id)) :
    ∃ c1 ∈ cs, c = decOne id c1 := by
  simp only [List.mem_map] at h
  obtain ⟨c1, h1, rfl⟩ := h
  exact ⟨c1, h1, rfl⟩

theorem procIds_map_decOne (cs : List Coll) (id : Nat) :
    (cs.map (decOne id)).map (·.sup.id) = cs.map (·.sup.id) := by
  rw [List.map_map]; apply List.map_congr_left; intro c _; simp [decOne_sup]

theorem procIds_filter_decOne (cs : List Coll) (id k : Nat) :
    ((cs.map (decOne id)).filter (·.sup.id != k)).map (·.sup.id) =
      (cs.map (·.sup.id)).filter (· != k) := by
  induction cs with
  | nil => rfl
  | cons c cs ih =>
    simp only [List.map_cons, List.filter_cons, decOne_sup]
    split
    · simp only [List.map_cons, decOne_sup, ih]
    · exact ih

/-- what the "response parsed" branch of `parseFromMem` does to the bookkeeping, abstractly:
    `id` leaves `pending`, the collection holding it is decremented, and when `fin` the finished
    collection `cid` is removed and `cid` appended to `completed`/`toCP` -/
theorem DInv.answer {s s' : Dma} {n : Nat} {d : List Nat} (h : DInv s n d) {id : Nat}
    (hid : id ∈ pendIds s) {c0 : Coll} (hc0 : c0 ∈ s.processing) (hin : id ∈ c0.subs)
    (hp : s'.pending = s.pending.filter (·.id != id)) (hn : s'.nextId = s.nextId)
    (hi : s'.cpIn = s.cpIn) (hm : s'.maxReq = s.maxReq) (hmo : s'.memOut.length ≤ s'.memCap)
    (hco : s'.cpOut = s.cpOut)
    (hcase :
      (c0.count - 1 ≠ 0 ∧ s'.processing = s.processing.map (decOne id) ∧
        s'.completed = s.completed ∧ s'.toCP = s.toCP) ∨
      (c0.count - 1 = 0 ∧
        s'.processing = (s.processing.map (decOne id)).filter (·.sup.id != c0.sup.id) ∧
        s'.completed = s.completed ++ [c0.sup.id] ∧ s'.toCP = s.toCP ++ [c0.sup.id])) :
    DInv s' n d := by
  have hQ : ∀ x, x ∈ pendIds s' ↔ x ∈ pendIds s ∧ x ≠ id := by
    intro x
    have : pendIds s' = (pendIds s).filter (· != id) := by
      rw [← pendIds_filter, ← hp]; rfl
    rw [this]; exact mem_filter_ne _ _ _
  have hsub : ∀ c ∈ s'.processing, ∃ c1 ∈ s.processing, c = decOne id c1 := by
    intro c hc
    rcases hcase with ⟨_, e, _, _⟩ | ⟨_, e, _, _⟩
    · rw [e] at hc; exact mem_map_decOne hc
    · rw [e] at hc; exact mem_map_decOne (List.mem_filter.1 hc).1
  have hpsub : (s'.processing).Sublist (s.processing.map (decOne id)) := by
    rcases hcase with ⟨_, e, _, _⟩ | ⟨_, e, _, _⟩
    · rw [e]; exact List.Sublist.refl _
    · rw [e]; exact List.filter_sublist
  -- the new counts
  have hcount : ∀ c1 ∈ s.processing, (decOne id c1).count =
      (((decOne id c1).subs.filter (fun x => decide (x ∈ pendIds s'))).length : Int) := by
    intro c1 hc1
    rw [decOne_subs]
    by_cases hc : id ∈ c1.subs
    · have : (decOne id c1).count = c1.count - 1 := by simp [decOne, hc]
      rw [this, h.count_eq c1 hc1]
      have := count_remove' c1.subs (pendIds s) (pendIds s') id hQ (h.subs_nodup c1 hc1) hc hid
      omega
    · have : (decOne id c1).count = c1.count := by simp [decOne, hc]
      rw [this, h.count_eq c1 hc1, count_same' c1.subs (pendIds s) (pendIds s') id hQ hc]
  -- uniqueness of the collection holding a given sub id
  have huniq : ∀ c1 ∈ s.processing, ∀ x, x ∈ c1.subs → x ∈ c0.subs → c1 = c0 := by
    intro c1 hc1 x hx1 hx0
    rcases pairwise_mem' h.subs_disj hc1 hc0 with e | r | r
    · exact e
    · exact absurd hx0 (r x hx1)
    · exact absurd hx1 (r x hx0)
  constructor
  · have : pendIds s' = (pendIds s).filter (· != id) := by rw [← pendIds_filter, ← hp]; rfl
    rw [this]; exact h.pend_nodup.sublist List.filter_sublist
  · intro x hx; rw [hn]; exact h.pend_lt x ((hQ x).1 hx).1
  · intro c hc
    obtain ⟨c1, h1, rfl⟩ := hsub c hc
    rw [decOne_subs]; exact h.subs_nodup c1 h1
  · intro c hc
    obtain ⟨c1, h1, rfl⟩ := hsub c hc
    rw [decOne_subs, hn]; exact h.subs_lt c1 h1
  · refine List.Pairwise.sublist hpsub ?_
    rw [List.pairwise_map]
    refine h.subs_disj.imp ?_
    intro a b hab
    rw [decOne_subs, decOne_subs]; exact hab
  · intro c hc
    obtain ⟨c1, h1, rfl⟩ := hsub c hc
    exact hcount c1 h1
  · intro r hr
    rw [hp] at hr
    have hr' := List.mem_filter.1 hr
    obtain ⟨c1, hc1, hrid, hown⟩ := h.pend_owner r hr'.1
    have hmem : decOne id c1 ∈ s.processing.map (decOne id) := List.mem_map_of_mem hc1
    refine ⟨decOne id c1, ?_, by rw [decOne_subs]; exact hrid, by rw [decOne_sup]; exact hown⟩
    rcases hcase with ⟨_, e, _, _⟩ | ⟨hz, e, _, _⟩
    · rw [e]; exact hmem
    · rw [e]; refine List.mem_filter.2 ⟨hmem, ?_⟩
      rw [decOne_sup]
      simp only [bne_iff_ne, ne_eq]
      intro heq
      have hnd : (s.processing.map (·.sup.id)).Nodup :=
        ((List.nodup_append.1 (List.nodup_append.1 h.ids_nodup).1).2).1
      have : c1 = c0 := nodup_map_inj hnd hc1 hc0 heq
      subst this
      -- all subs of c1 have left pending
      have hc := hcount c1 hc1
      have hd : (decOne id c1).count = c1.count - 1 := by simp [decOne, hin]
      rw [hd, hz, decOne_subs] at hc
      have hnil : c1.subs.filter (fun x => decide (x ∈ pendIds s')) = [] := by
        apply List.eq_nil_of_length_eq_zero; omega
      have hrin : r.id ∈ pendIds s' := by
        unfold pendIds; rw [hp]; exact List.mem_map_of_mem hr
      have : r.id ∈ c1.subs.filter (fun x => decide (x ∈ pendIds s')) :=
        List.mem_filter.2 ⟨hrid, by simpa using hrin⟩
      rw [hnil] at this; cases this
  · have hnd := h.ids_nodup
    rcases hcase with ⟨_, e, ec, _⟩ | ⟨_, e, ec, _⟩
    · have : procIds s' = procIds s := by unfold procIds; rw [e, procIds_map_decOne]
      rw [ec, this, hi]; exact hnd
    · have hpi : procIds s' = (procIds s).filter (· != c0.sup.id) := by
        unfold procIds; rw [e]; exact procIds_filter_decOne _ _ _
      have hcin : c0.sup.id ∈ procIds s := List.mem_map_of_mem (f := fun c => c.sup.id) hc0
      rw [ec, hpi, hi]
      simp only [List.nodup_append, List.mem_append, List.mem_filter, bne_iff_ne, ne_eq,
        List.mem_singleton, List.nodup_cons, List.not_mem_nil, not_false_eq_true, List.nodup_nil,
        and_true, true_and] at hnd ⊢
      obtain ⟨⟨h1, h2, h3⟩, h4, h5⟩ := hnd
      refine ⟨⟨⟨h1, ?_⟩, h2.sublist List.filter_sublist, ?_⟩, h4, ?_⟩
      · intro a ha b hb; subst hb; exact h3 a ha _ hcin
      · intro a ha b hb
        rcases ha with ha | ha
        · exact h3 a ha b hb.1
        · subst ha; exact fun e => hb.2 e.symm
      · intro a ha b hb
        rcases ha with (ha | ha) | ha
        · exact h5 a (.inl ha) b hb
        · subst ha; exact h5 _ (.inr hcin) b hb
        · exact h5 a (.inr ha.1) b hb
  · intro x hx
    apply h.ids_lt
    rcases hcase with ⟨_, e, ec, _⟩ | ⟨_, e, ec, _⟩
    · have : procIds s' = procIds s := by unfold procIds; rw [e, procIds_map_decOne]
      rw [ec, this, hi] at hx; exact hx
    · have hpi : procIds s' = (procIds s).filter (· != c0.sup.id) := by
        unfold procIds; rw [e]; exact procIds_filter_decOne _ _ _
      have hcin : c0.sup.id ∈ procIds s := List.mem_map_of_mem (f := fun c => c.sup.id) hc0
      rw [ec, hpi, hi] at hx
      simp only [List.mem_append, List.mem_filter, List.mem_singleton] at hx ⊢
      rcases hx with ((hx | hx) | hx) | hx
      · exact .inl (.inl hx)
      · subst hx; exact .inl (.inr hcin)
      · exact .inl (.inr hx.1)
      · exact .inr hx
  · have := hpsub.length_le
    rw [List.length_map] at this
    rw [hm]; exact Nat.le_trans this h.cap_proc
  · exact hmo
  · rcases hcase with ⟨_, _, ec, et⟩ | ⟨_, _, ec, et⟩
    · rw [ec, et, hco]; exact h.emitted
    · rw [ec, et, hco, h.emitted]; simp

/-- under the invariant the collection of a pending id always exists: the
    "couldn't find requestcollection" panic is unreachable -/
theorem DInv.coll_exists {s : Dma} {n : Nat} {d : List Nat} (h : DInv s n d) {id : Nat}
    (hid : id ∈ pendIds s) : ∃ c0 ∈ s.processing, id ∈ c0.subs := by
  simp only [pendIds, List.mem_map] at hid
  obtain ⟨r, hr, rfl⟩ := hid
  obtain ⟨c, hc, hin, _⟩ := h.pend_owner r hr
  exact ⟨c, hc, hin⟩

theorem DInv.decAll_some {s : Dma} {n : Nat} {d : List Nat} (h : DInv s n d) {id : Nat} {c' : Coll}
    (hd : (decAll s.processing id).2 = some c') :
    ∃ c0 ∈ s.processing, id ∈ c0.subs ∧ c'.count = c0.count - 1 ∧ c'.sup = c0.sup := by
  obtain ⟨c0, h0, hin, rfl⟩ := (decAll_spec s.processing id).2.2 c' hd
  exact ⟨c0, h0, hin, rfl, rfl⟩

theorem DInv.parseFromMem {s : Dma} {n : Nat} {d : List Nat} (h : DInv s n d) :
    DInv s.parseFromMem.1 n d := by
  rcases parseFromMem_cases s with ⟨_, e⟩ | ⟨id, rest, hm, hc⟩
  · rw [e]; exact h
  · rcases hc with ⟨_, e⟩ | ⟨hid, hnone, _⟩ | ⟨hid, c', hd, hcnt, e⟩ | ⟨hid, c', hd, hcnt, e⟩
    · rw [e]; exact h.congr rfl rfl rfl rfl rfl rfl h.cap_mem h.emitted
    · exfalso
      obtain ⟨c0, h0, hin⟩ := h.coll_exists hid
      exact (decAll_spec s.processing id).2.1 hnone c0 h0 hin
    · obtain ⟨c0, h0, hin, hc, hs⟩ := h.decAll_some hd
      rw [e]
      exact h.answer hid h0 hin rfl rfl rfl rfl h.cap_mem rfl (.inl ⟨by rw [← hc]; exact hcnt, rfl, rfl, rfl⟩)
    · obtain ⟨c0, h0, hin, hc, hs⟩ := h.decAll_some hd
      rw [e]
      exact h.answer hid h0 hin rfl rfl rfl rfl h.cap_mem rfl
        (.inr ⟨by rw [← hc]; exact hcnt, by rw [hs], by rw [hs], by rw [hs]⟩)

/-- the only fault `parseFromMem` can raise under the invariant is "not_found" -/
theorem DInv.parseFromMem_fault {s : Dma} {n : Nat} {d : List Nat} (h : DInv s n d) :
    s.parseFromMem.1.fault = s.fault ∨
    (s.parseFromMem.1.fault = some "not_found" ∧ ∃ id rest, s.memIn = id :: rest ∧ id ∉ pendIds s) := by
  rcases parseFromMem_cases s with ⟨_, e⟩ | ⟨id, rest, hm, hc⟩
  · rw [e]; exact .inl rfl
  · rcases hc with ⟨hn, e⟩ | ⟨hid, hnone, _⟩ | ⟨hid, c', hd, hcnt, e⟩ | ⟨hid, c', hd, hcnt, e⟩
    · rw [e]; exact .inr ⟨rfl, id, rest, hm, hn⟩
    · exfalso
      obtain ⟨c0, h0, hin⟩ := h.coll_exists hid
      exact (decAll_spec s.processing id).2.1 hnone c0 h0 hin
    · rw [e]; exact .inl rfl
    · rw [e]; exact .inl rfl

theorem DInv.parseFromCP {s : Dma} {n : Nat} {d : List Nat} (h : DInv s n d) :
    DInv s.parseFromCP.1 n d := by
  rcases parseFromCP_cases s with ⟨e, _⟩ | ⟨r, rest, hcp, hlt, e⟩
  · rw [e]; exact h
  · rw [e]
    have hids := subReqs_ids s r
    have hpi : pendIds { s with
        cpIn := rest, nextId := s.nextId + (subReqs s r).length,
        toMem := s.toMem ++ subReqs s r, pending := s.pending ++ subReqs s r,
        processing := s.processing ++
          [{ sup := r, subs := (subReqs s r).map (·.id), count := (subReqs s r).length }] } =
        pendIds s ++ List.range' s.nextId (subReqs s r).length := by
      simp only [pendIds, List.map_append]; rw [hids]
    have hnew : ∀ x ∈ List.range' s.nextId (subReqs s r).length, x ∉ pendIds s := by
      intro x hx hp
      have := h.pend_lt x hp
      rw [List.mem_range'_1] at hx; omega
    constructor
    · rw [hpi, List.nodup_append]
      refine ⟨h.pend_nodup, List.nodup_range' .., ?_⟩
      intro a ha b hb e; subst e; exact hnew a hb ha
    · intro x hx
      rw [hpi, List.mem_append] at hx
      simp only
      rcases hx with hx | hx
      · have := h.pend_lt x hx; omega
      · rw [List.mem_range'_1] at hx; omega
    · intro c hc
      simp only [List.mem_append, List.mem_singleton] at hc
      rcases hc with hc | rfl
      · exact h.subs_nodup c hc
      · simp only; rw [hids]; exact List.nodup_range' ..
    · intro c hc x hx
      simp only [List.mem_append, List.mem_singleton] at hc
      simp only
      rcases hc with hc | rfl
      · have := h.subs_lt c hc x hx; omega
      · simp only at hx; rw [hids, List.mem_range'_1] at hx; omega
    · simp only
      rw [List.pairwise_append]
      refine ⟨h.subs_disj, by simp, ?_⟩
      intro a ha b hb x hx
      simp only [List.mem_singleton] at hb; subst hb
      simp only; rw [hids, List.mem_range'_1]
      have := h.subs_lt a ha x hx; omega
    · intro c hc
      rw [hpi]
      simp only [List.mem_append, List.mem_singleton] at hc
      rcases hc with hc | rfl
      · rw [h.count_eq c hc]
        congr 2
        apply List.filter_congr
        intro x hx
        have := h.subs_lt c hc x hx
        simp only [List.mem_append, List.mem_range'_1, decide_eq_decide]
        constructor
        · exact fun hh => .inl hh
        · rintro (hh | hh)
          · exact hh
          · omega
      · simp only
        rw [hids]
        have : (List.range' s.nextId (subReqs s r).length).filter
            (fun x => decide (x ∈ pendIds s ++ List.range' s.nextId (subReqs s r).length)) =
            List.range' s.nextId (subReqs s r).length := by
          apply List.filter_eq_self.2
          intro x hx; simp [hx]
        rw [this]; simp
    · intro q hq
      simp only [List.mem_append] at hq
      rcases hq with hq | hq
      · obtain ⟨c, hc, h1, h2⟩ := h.pend_owner q hq
        exact ⟨c, List.mem_append_left _ hc, h1, h2⟩
      · refine ⟨_, List.mem_append_right _ (List.mem_singleton.2 rfl), ?_, ?_⟩
        · exact List.mem_map_of_mem hq
        · exact ((subReqs_mem s r q hq).1).symm
    · have := h.ids_nodup
      rw [hcp] at this
      simpa [procIds, List.append_assoc] using this
    · intro x hx
      apply h.ids_lt
      rw [hcp]
      simpa [procIds, List.append_assoc] using hx
    · simp only [List.length_append, List.length_singleton]; omega
    · exact h.cap_mem
    · exact h.emitted

theorem DInv.tick {s : Dma} {n : Nat} {d : List Nat} (h : DInv s n d) : DInv s.tick.1 n d := by
  unfold Dma.tick
  split
  · exact h
  · simp only
    split
    · exact h.sendCP.sendMem.parseFromMem
    · exact h.sendCP.sendMem.parseFromMem.parseFromCP

/-! ## the environment level -/

structure Env.Inv (e : Env) : Prop where
  d : DInv e.s e.nextCp e.drained
  cps_ids : e.cps.map (·.id) = List.range e.nextCp

theorem DInv.copy {s : Dma} {n : Nat} {d : List Nat} (h : DInv s n d) (k : Kind) (a l : Nat) :
    DInv { s with cpIn := s.cpIn ++ [{ id := n, kind := k, addr := a, len := l }] } (n + 1) d := by
  constructor
  · exact h.pend_nodup
  · exact h.pend_lt
  · exact h.subs_nodup
  · exact h.subs_lt
  · exact h.subs_disj
  · exact h.count_eq
  · exact h.pend_owner
  · have := h.ids_nodup
    show (s.completed ++ procIds s ++ (s.cpIn ++ [({ id := n, kind := k, addr := a, len := l } : CpReq)]).map (·.id)).Nodup
    rw [List.map_append, ← List.append_assoc, List.nodup_append]
    refine ⟨this, by simp, ?_⟩
    intro x hx b hb
    simp only [List.map_cons, List.map_nil, List.mem_singleton] at hb
    subst hb
    have := h.ids_lt x hx; omega
  · intro x hx
    have hx' : x ∈ s.completed ++ procIds s ++ (s.cpIn ++ [({ id := n, kind := k, addr := a, len := l } : CpReq)]).map (·.id) := hx
    rw [List.map_append, ← List.append_assoc, List.mem_append] at hx'
    rcases hx' with hx' | hx'
    · have := h.ids_lt x hx'; omega
    · simp only [List.map_cons, List.map_nil, List.mem_singleton] at hx'; omega
  · exact h.cap_proc
  · exact h.cap_mem
  · exact h.emitted

theorem Env.Inv.step {e : Env} (h : e.Inv) (op : EnvOp) : (e.step op).Inv := by
  cases op with
  | copy k a l =>
    refine ⟨h.d.copy k a l, ?_⟩
    show (e.cps ++ [({ id := e.nextCp, kind := k, addr := a, len := l } : CpReq)]).map (·.id) = List.range (e.nextCp + 1)
    rw [List.map_append, h.cps_ids, List.range_succ]; rfl
  | tick => exact ⟨h.d.tick, h.cps_ids⟩
  | take k =>
    refine ⟨h.d.congr rfl rfl rfl rfl rfl rfl ?_ h.d.emitted, h.cps_ids⟩
    show (e.s.memOut.drop k).length ≤ e.s.memCap
    have := h.d.cap_mem
    rw [List.length_drop]; omega
  | respond j =>
    unfold Env.step
    simp only
    split
    · exact h
    · split
      · exact h
      · exact ⟨h.d.congr rfl rfl rfl rfl rfl rfl h.d.cap_mem h.d.emitted, h.cps_ids⟩
  | drain =>
    refine ⟨h.d.congr rfl rfl rfl rfl rfl rfl h.d.cap_mem ?_, h.cps_ids⟩
    show e.s.completed = e.drained ++ e.s.cpOut ++ [] ++ e.s.toCP
    rw [List.append_nil]; exact h.d.emitted
  | inject id => exact ⟨h.d.congr rfl rfl rfl rfl rfl rfl h.d.cap_mem h.d.emitted, h.cps_ids⟩

theorem Env.init_inv (log2 maxReq memCap : Nat) : (Env.init log2 maxReq memCap).Inv := by
  refine ⟨?_, rfl⟩
  constructor <;> simp [Env.init, pendIds, procIds]

theorem Env.run_inv {e : Env} (h : e.Inv) (ops : List EnvOp) : (e.run ops).Inv := by
  induction ops generalizing e with
  | nil => exact h
  | cons op ops ih => exact ih (h.step op)

end C11
