import MgpuModel.C01_Kernels
import MgpuProofs.C01CopyFinal
import MgpuProofs.Props.C01Emu
/-! # C01 — the repaired `EnqueueMemCopyD2D`, the never-written hidden kernel argument, the page queue

Helper definitions and lemmas for `MgpuProofs/Props/C01D2D.lean`:

* `d2dCfgW`, `d2dRun`, `d2dStart`, `d2d_exact`: the repaired copy (kernel on `num / 4` dwords, `num % 4`
  tail bytes through the host) copies exactly `num` bytes and changes nothing else;
* `driverImage`, `driverMem`, `get_driverMem`, `fresh_kernarg_runE`: the driver writes 24 bytes of kernel
  arguments only; the kernel reads 8 more, which are zero on a never-used page;
* `qrun_prefix`, `qrun_take`: the free-page queue hands out the pages of the initial queue, in order, before
  it hands out anything that was given back. -/
set_option linter.unusedSimpArgs false
set_option linter.unusedVariables false
set_option maxRecDepth 100000
namespace C01.Emu.Copy
open C03V

/-! ## the plan -/

theorem d2dPlan_sum (num : Nat) :
    4 * (d2dPlan num).words + (d2dPlan num).tailLen = num ∧ (d2dPlan num).tailOff = 4 * (d2dPlan num).words ∧
      (d2dPlan num).tailLen < 4 := by
  show 4 * (num / 4) + num % 4 = num ∧ num / 4 * 4 = 4 * (num / 4) ∧ num % 4 < 4
  omega

/-! ## a copy through the host -/

theorem readBytes_length (m : Mem) (a n : Nat) : (readBytes m a n).length = n := by
  unfold readBytes
  rw [List.length_map, List.length_range]

theorem readBytes_getD (m : Mem) (a n i : Nat) (hi : i < n) : (readBytes m a n).getD i 0 = get m (a + i) := by
  unfold readBytes get
  simp [List.getD_eq_getElem?_getD, hi]

/-- memory after a device-to-host copy of `n` bytes at `s` followed by a host-to-device copy of them to `d` -/
theorem get_copyBytes (d s n : Nat) (m : Mem) (x : Nat) :
    get (copyBytes d s n m) x = if d ≤ x ∧ x < d + n then get m (s + (x - d)) else get m x := by
  unfold copyBytes
  rw [get_install, readBytes_length]
  by_cases h : d ≤ x ∧ x < d + n
  · rw [if_pos h, if_pos h, readBytes_getD _ _ _ _ (by omega)]
  · rw [if_neg h, if_neg h]

/-! ## the repaired `EnqueueMemCopyD2D` -/

/-- the launch the repaired EnqueueMemCopyD2D creates: num/4 work-items, N = num/4 -/
def d2dCfgW (co ka pa src dst num : Nat) : Cfg := ⟨co, ka, pa, src, dst, num / 4, num / 4⟩

/-- final memory of the repaired `EnqueueMemCopyD2D(dst, src, num)` + drain: kernel (if num ≥ 4), then the
    tail bytes through the host -/
def d2dRun (co ka pa src dst num : Nat) (tail pk : List Nat) (m : Mem) : Mem :=
  let p := d2dPlan num
  let c := d2dCfgW co ka pa src dst num
  let m1 := if p.words = 0 then m else run P (disp c (kernargImage c ++ tail) pk) m
  if p.tailLen = 0 then m1 else copyBytes (dst + p.tailOff) (src + p.tailOff) p.tailLen m1

/-- the memory the copy starts on: with kernel arguments and packet installed when a kernel is launched -/
def d2dStart (co ka pa src dst num : Nat) (tail pk : List Nat) (m : Mem) : Mem :=
  if num / 4 = 0 then m else launchMem (d2dCfgW co ka pa src dst num) tail pk m

theorem d2dCfgW_K (co ka pa src dst num : Nat) : (d2dCfgW co ka pa src dst num).K = num / 4 := by
  show min (num / 4) (num / 4) = num / 4
  exact Nat.min_self _

/-- the tail copy applied to a memory `m1` -/
def d2dTail (src dst num : Nat) (m1 : Mem) : Mem :=
  if num % 4 = 0 then m1 else copyBytes (dst + num / 4 * 4) (src + num / 4 * 4) (num % 4) m1

theorem d2dRun_eq (co ka pa src dst num : Nat) (tail pk : List Nat) (m : Mem) :
    d2dRun co ka pa src dst num tail pk m =
      d2dTail src dst num (if num / 4 = 0 then m else
        run P (disp (d2dCfgW co ka pa src dst num) (kernargImage (d2dCfgW co ka pa src dst num) ++ tail) pk) m) := rfl

/-- elementary conditions under which the launch of the repaired copy is a valid configuration -/
theorem d2dCfgW_valid (co ka pa src dst num : Nat) (hnum : num < 2 ^ 33)
    (hsE : src + num ≤ 2 ^ 64) (hdE : dst + num ≤ 2 ^ 64) (hka : ka + 32 ≤ 2 ^ 64) (hpa : pa + 8 ≤ 2 ^ 64)
    (hco : co + 140 < 2 ^ 64) (hka4 : ka % 4 = 0) (hpa4 : pa % 4 = 0)
    (hdisj : src + num ≤ dst ∨ dst + num ≤ src)
    (hdka : ka + 32 ≤ dst ∨ dst + num ≤ ka) (hdpa : pa + 8 ≤ dst ∨ dst + num ≤ pa + 4) :
    (d2dCfgW co ka pa src dst num).Valid := by
  have hK := d2dCfgW_K co ka pa src dst num
  refine ⟨show num / 4 < 2 ^ 31 by omega, show num / 4 ≤ 2 ^ 31 by omega, ?_, ?_, hka, hpa, hco, hka4, hpa4, ?_, ?_, ?_⟩
  · rw [hK]; show src + 4 * (num / 4) ≤ 2 ^ 64; omega
  · rw [hK]; show dst + 4 * (num / 4) ≤ 2 ^ 64; omega
  · intro a h
    simp only [Cfg.inDst, Cfg.K, d2dCfgW, Nat.min_self] at h ⊢
    omega
  · intro a h
    simp only [Cfg.inDst, Cfg.K, d2dCfgW, Nat.min_self] at h ⊢
    omega
  · intro a h
    simp only [Cfg.inDst, Cfg.K, d2dCfgW, Nat.min_self] at h ⊢
    omega

/-- the tail copy completes a copy of the first `4·(num/4)` bytes to a copy of exactly `num` bytes -/
theorem tail_exact (src dst num : Nat) (hdisj : src + num ≤ dst ∨ dst + num ≤ src) (f0 : Nat → Nat) (m1 : Mem)
    (h1 : ∀ i, i < 4 * (num / 4) → get m1 (dst + i) = f0 (src + i))
    (h2 : ∀ a, ¬ (dst ≤ a ∧ a < dst + 4 * (num / 4)) → get m1 a = f0 a) :
    (∀ i, i < num → get (d2dTail src dst num m1) (dst + i) = f0 (src + i)) ∧
    (∀ a, (a < dst ∨ dst + num ≤ a) → get (d2dTail src dst num m1) a = f0 a) := by
  by_cases ht : num % 4 = 0
  · have hm2 : d2dTail src dst num m1 = m1 := if_pos ht
    rw [hm2]
    exact ⟨fun i hi => h1 i (by omega), fun a ha => h2 a (by omega)⟩
  · have hm2 : d2dTail src dst num m1 = copyBytes (dst + num / 4 * 4) (src + num / 4 * 4) (num % 4) m1 := if_neg ht
    rw [hm2]
    constructor
    · intro i hi
      rw [get_copyBytes]
      by_cases hin : dst + num / 4 * 4 ≤ dst + i ∧ dst + i < dst + num / 4 * 4 + num % 4
      · rw [if_pos hin]
        have e : src + num / 4 * 4 + (dst + i - (dst + num / 4 * 4)) = src + i := by omega
        rw [e]
        exact h2 _ (by omega)
      · rw [if_neg hin]
        exact h1 i (by omega)
    · intro a ha
      rw [get_copyBytes, if_neg (by omega)]
      exact h2 a (by omega)

/-- the repaired copy is exact -/
theorem d2d_exact (co ka pa src dst num : Nat)
    (hsE : src + num ≤ 2 ^ 64) (hdE : dst + num ≤ 2 ^ 64)
    (hdisj : src + num ≤ dst ∨ dst + num ≤ src)
    (hv : 0 < num / 4 → (d2dCfgW co ka pa src dst num).Valid) (tail pk : List Nat) (m : Mem)
    (hpk : 8 ≤ pk.length) (h4 : pk.getD 4 0 = 64) (h5 : pk.getD 5 0 = 0)
    (hsep : ka + 32 ≤ pa ∨ pa + pk.length ≤ ka)
    (hbytes : ∀ i, i < num → get (d2dStart co ka pa src dst num tail pk m) (src + i) < 256) :
    (∀ i, i < num → get (d2dRun co ka pa src dst num tail pk m) (dst + i) =
      get (d2dStart co ka pa src dst num tail pk m) (src + i)) ∧
    (∀ a, (a < dst ∨ dst + num ≤ a) → get (d2dRun co ka pa src dst num tail pk m) a =
      get (d2dStart co ka pa src dst num tail pk m) a) := by
  by_cases hw : num / 4 = 0
  · have hs : d2dStart co ka pa src dst num tail pk m = m := if_pos hw
    rw [d2dRun_eq, hs, if_pos hw]
    exact tail_exact src dst num hdisj (get m) m (fun i hi => absurd hi (by omega)) (fun a _ => rfl)
  · have hpos : 0 < num / 4 := Nat.pos_of_ne_zero hw
    have hv' := hv hpos
    have hs : d2dStart co ka pa src dst num tail pk m = launchMem (d2dCfgW co ka pa src dst num) tail pk m := if_neg hw
    rw [hs] at hbytes
    rw [d2dRun_eq, hs, if_neg hw]
    have hK := d2dCfgW_K co ka pa src dst num
    obtain ⟨h1, h2⟩ := copyKernel_run (d2dCfgW co ka pa src dst num) hv' hpos tail pk m hpk h4 h5 hsep
      (show src < 2 ^ 64 by omega) (show dst < 2 ^ 64 by omega)
      (by rw [hK]; intro i hi; exact hbytes i (by omega))
    exact tail_exact src dst num hdisj (get (launchMem (d2dCfgW co ka pa src dst num) tail pk m))
      (run P (disp (d2dCfgW co ka pa src dst num) (kernargImage (d2dCfgW co ka pa src dst num) ++ tail) pk) m)
      (fun i hi => h1 i (by rw [hK]; exact hi))
      (fun a ha => h2 a (by
        rintro ⟨x, y⟩
        rw [hK] at y
        exact ha ⟨x, y⟩))

/-! ## the hidden global offset: never written by the driver BEFORE the repair of `C01-hidden-kernarg-stale-page` -/

/-- the 24 bytes of kernel arguments `EnqueueMemCopyD2D` wrote before the repair (`KernelMemCopyArgs{src, dst, n}`
    without the hidden words) -/
def driverImageOld (c : Cfg) : List Nat := le8 c.src ++ le8 c.dst ++ le8 c.N

/-- the memory the kernel started on before the repair: only the 24 argument bytes and the packet are installed -/
def driverMemOld (c : Cfg) (pk : List Nat) (m : Mem) : Mem := install c.pa pk (install c.ka (driverImageOld c) m)

theorem zeros_getD (j : Nat) : ([0, 0, 0, 0, 0, 0, 0, 0] : List Nat).getD j 0 = 0 := by
  match j with
  | 0 | 1 | 2 | 3 | 4 | 5 | 6 | 7 => rfl
  | j + 8 => rfl

theorem le8_zero : le8 0 = [0, 0, 0, 0, 0, 0, 0, 0] := by decide

theorem kernargImage_split (c : Cfg) : kernargImage c ++ [] = driverImageOld c ++ le8 0 := by
  rw [List.append_nil]; rfl

theorem driverImageOld_length (c : Cfg) : (driverImageOld c).length = 24 := rfl

/-- on a page whose bytes `ka+24 .. ka+31` are zero, installing 24 bytes gives the same memory content as
    installing the 32-byte image with an explicit zero offset -/
theorem get_driverMemOld (c : Cfg) (pk : List Nat) (m : Mem)
    (hfresh : ∀ j, j < 8 → get m (c.ka + 24 + j) = 0) :
    get (driverMemOld c pk m) = get (launchMem c [] pk m) := by
  funext x
  unfold driverMemOld launchMem
  rw [get_install, get_install c.pa]
  by_cases hp : c.pa ≤ x ∧ x < c.pa + pk.length
  · rw [if_pos hp, if_pos hp]
  · rw [if_neg hp, if_neg hp, get_install, get_install, kernargImage_split, List.length_append, driverImageOld_length,
      show (le8 0).length = 8 from rfl]
    by_cases hk : c.ka ≤ x ∧ x < c.ka + 24
    · rw [if_pos hk, if_pos ⟨hk.1, by omega⟩, List.getD_eq_getElem?_getD, List.getD_eq_getElem?_getD,
        List.getElem?_append_left (by rw [driverImageOld_length]; omega)]
    · rw [if_neg hk]
      by_cases hk2 : c.ka ≤ x ∧ x < c.ka + (24 + 8)
      · rw [if_pos hk2]
        have e : x = c.ka + 24 + (x - c.ka - 24) := by omega
        have hz : get m x = 0 := by rw [e]; exact hfresh _ (by omega)
        rw [hz, List.getD_eq_getElem?_getD, List.getElem?_append_right (by rw [driverImageOld_length]; omega),
          ← List.getD_eq_getElem?_getD, le8_zero, zeros_getD]
      · rw [if_neg hk2]

/-- `copy_final` for the kernel-argument bytes the driver really writes -/
theorem fresh_kernarg_runE (c : Cfg) (hv : c.Valid) (hG : 0 < c.G) (pk : List Nat) (m : Mem) (fuel : Nat)
    (hpk : 8 ≤ pk.length) (h4 : pk.getD 4 0 = 64) (h5 : pk.getD 5 0 = 0)
    (hsep : c.ka + 32 ≤ c.pa ∨ c.pa + pk.length ≤ c.ka)
    (hsrc : c.src < 2 ^ 64) (hdst : c.dst < 2 ^ 64)
    (hfresh : ∀ j, j < 8 → get m (c.ka + 24 + j) = 0)
    (hbytes : ∀ i, i < 4 * c.K → get (driverMemOld c pk m) (c.src + i) < 256) :
    ∃ m', runE P (disp c (driverImageOld c) pk) (fuel + 27) m = .ok m' ∧
      (∀ i, i < 4 * c.K → get m' (c.dst + i) = get (driverMemOld c pk m) (c.src + i)) ∧
      (∀ a, ¬ c.inDst a → get m' a = get (driverMemOld c pk m) a) := by
  have himg : Img c (get (driverMemOld c pk m)) := by
    rw [get_driverMemOld c pk m hfresh]
    exact img_of_install c hv [] pk m hpk h4 h5 hsep hsrc hdst
  obtain ⟨m', hrun, hget⟩ := runE_effect c hv hG (driverImageOld c) pk m fuel himg
  change get m' = applyWrites (allPairs c (get (driverMemOld c pk m))) (get (driverMemOld c pk m)) at hget
  refine ⟨m', hrun, ?_, ?_⟩
  · intro i hi
    have hin : c.inDst (c.dst + i) := ⟨Nat.le_add_right _ _, by omega⟩
    rw [hget, copy_result c hG _ hbytes, if_pos hin, Nat.add_sub_cancel_left]
  · intro a ha
    rw [hget, copy_result c hG _ hbytes, if_neg ha]

theorem fresh_kernarg_run (c : Cfg) (hv : c.Valid) (hG : 0 < c.G) (pk : List Nat) (m : Mem)
    (hpk : 8 ≤ pk.length) (h4 : pk.getD 4 0 = 64) (h5 : pk.getD 5 0 = 0)
    (hsep : c.ka + 32 ≤ c.pa ∨ c.pa + pk.length ≤ c.ka)
    (hsrc : c.src < 2 ^ 64) (hdst : c.dst < 2 ^ 64)
    (hfresh : ∀ j, j < 8 → get m (c.ka + 24 + j) = 0)
    (hbytes : ∀ i, i < 4 * c.K → get (driverMemOld c pk m) (c.src + i) < 256) :
    (∀ i, i < 4 * c.K → get (run P (disp c (driverImageOld c) pk) m) (c.dst + i) = get (driverMemOld c pk m) (c.src + i)) ∧
    (∀ a, ¬ c.inDst a → get (run P (disp c (driverImageOld c) pk) m) a = get (driverMemOld c pk m) a) := by
  obtain ⟨m', hrun, h1, h2⟩ := fresh_kernarg_runE c hv hG pk m 999973 hpk h4 h5 hsep hsrc hdst hfresh hbytes
  have hr : run P (disp c (driverImageOld c) pk) m = m' := by
    unfold run
    rw [show defaultFuel = 999973 + 27 from rfl, hrun]
  rw [hr]
  exact ⟨h1, h2⟩

/-! ## the repaired driver writes the hidden words -/

/-- the 48 bytes of kernel arguments the repaired `EnqueueMemCopyD2D` writes:
    `KernelMemCopyArgs{Src, Dst, N, HiddenGlobalOffsetX: 0, HiddenGlobalOffsetY: 0, HiddenGlobalOffsetZ: 0}` -/
def driverImage (c : Cfg) : List Nat := le8 c.src ++ le8 c.dst ++ le8 c.N ++ le8 0 ++ le8 0 ++ le8 0

/-- the memory the kernel really starts on: the 48 argument bytes and the packet are installed -/
def driverMem (c : Cfg) (pk : List Nat) (m : Mem) : Mem := install c.pa pk (install c.ka (driverImage c) m)

/-- the image the driver writes is the image of the program proof (`kernargImage`: explicit arguments and a
    zero hidden global offset x) followed by the zero offsets y and z -/
theorem driverImage_eq (c : Cfg) : driverImage c = kernargImage c ++ (le8 0 ++ le8 0) := by
  simp [driverImage, kernargImage, List.append_assoc]

theorem driverMem_eq (c : Cfg) (pk : List Nat) (m : Mem) : driverMem c pk m = launchMem c (le8 0 ++ le8 0) pk m := by
  unfold driverMem launchMem; rw [driverImage_eq]

/-- whatever the page held before, the hidden global offset the kernel loads (bytes 24..31 of the
    kernel-argument buffer) is zero in the memory the repaired driver installs -/
theorem driverMem_hidden_zero (c : Cfg) (pk : List Nat) (m : Mem)
    (hsep : c.ka + 32 ≤ c.pa ∨ c.pa + pk.length ≤ c.ka) (j : Nat) (hj : j < 8) :
    get (driverMem c pk m) (c.ka + 24 + j) = 0 := by
  unfold driverMem
  rw [get_install, if_neg (by omega), get_install]
  have hlen : (driverImage c).length = 48 := rfl
  rw [if_pos ⟨by omega, by rw [hlen]; omega⟩]
  have e : c.ka + 24 + j - c.ka = 24 + j := by omega
  rw [e]
  have : ∀ j, j < 8 → (driverImage c).getD (24 + j) 0 = 0 := by
    intro j hj
    match j, hj with
    | 0, _ | 1, _ | 2, _ | 3, _ | 4, _ | 5, _ | 6, _ | 7, _ => rfl
  exact this j hj

/-- `copy_final` for the kernel-argument bytes the repaired driver writes: EVERY memory, no hypothesis on what
    the kernel-argument page held before -/
theorem driver_kernarg_runE (c : Cfg) (hv : c.Valid) (hG : 0 < c.G) (pk : List Nat) (m : Mem) (fuel : Nat)
    (hpk : 8 ≤ pk.length) (h4 : pk.getD 4 0 = 64) (h5 : pk.getD 5 0 = 0)
    (hsep : c.ka + 32 ≤ c.pa ∨ c.pa + pk.length ≤ c.ka)
    (hsrc : c.src < 2 ^ 64) (hdst : c.dst < 2 ^ 64)
    (hbytes : ∀ i, i < 4 * c.K → get (driverMem c pk m) (c.src + i) < 256) :
    ∃ m', runE P (disp c (driverImage c) pk) (fuel + 27) m = .ok m' ∧
      (∀ i, i < 4 * c.K → get m' (c.dst + i) = get (driverMem c pk m) (c.src + i)) ∧
      (∀ a, ¬ c.inDst a → get m' a = get (driverMem c pk m) a) := by
  rw [driverMem_eq] at hbytes
  rw [driverImage_eq, driverMem_eq]
  exact copy_final c hv hG (le8 0 ++ le8 0) pk m fuel hpk h4 h5 hsep hsrc hdst hbytes

theorem driver_kernarg_run (c : Cfg) (hv : c.Valid) (hG : 0 < c.G) (pk : List Nat) (m : Mem)
    (hpk : 8 ≤ pk.length) (h4 : pk.getD 4 0 = 64) (h5 : pk.getD 5 0 = 0)
    (hsep : c.ka + 32 ≤ c.pa ∨ c.pa + pk.length ≤ c.ka)
    (hsrc : c.src < 2 ^ 64) (hdst : c.dst < 2 ^ 64)
    (hbytes : ∀ i, i < 4 * c.K → get (driverMem c pk m) (c.src + i) < 256) :
    (∀ i, i < 4 * c.K → get (run P (disp c (driverImage c) pk) m) (c.dst + i) = get (driverMem c pk m) (c.src + i)) ∧
    (∀ a, ¬ c.inDst a → get (run P (disp c (driverImage c) pk) m) a = get (driverMem c pk m) a) := by
  obtain ⟨m', hrun, h1, h2⟩ := driver_kernarg_runE c hv hG pk m 999973 hpk h4 h5 hsep hsrc hdst hbytes
  have hr : run P (disp c (driverImage c) pk) m = m' := by
    unfold run
    rw [show defaultFuel = 999973 + 27 from rfl, hrun]
  rw [hr]
  exact ⟨h1, h2⟩

end C01.Emu.Copy

/-! ## the free-page queue -/
namespace C01.Emu

theorem qrun_nil (q : List Nat) : qrun q [] = some (q, []) := rfl

theorem qrun_pop_nil (ops : List QOp) : qrun [] (.pop :: ops) = none := rfl

theorem qrun_pop_cons (x : Nat) (r : List Nat) (ops : List QOp) :
    qrun (x :: r) (.pop :: ops) = (qrun r ops).map fun v => (v.1, x :: v.2) := by
  show (match qrun r ops with
    | none => none
    | some (q'', outs) => some (q'', [x] ++ outs)) = _
  cases qrun r ops with
  | none => rfl
  | some v => rcases v with ⟨q'', outs⟩; rfl

theorem qrun_push (q : List Nat) (p : Nat) (ops : List QOp) :
    qrun q (.push p :: ops) = qrun (q ++ [p]) ops := by
  show (match qrun (q ++ [p]) ops with
    | none => none
    | some (q'', outs) => some (q'', [] ++ outs)) = _
  cases qrun (q ++ [p]) ops with
  | none => rfl
  | some v => rcases v with ⟨q'', outs⟩; rfl

/-- the pages handed out are the pages of the front part `a` of the queue, in order, as long as there are any;
    what is behind (`b`, and everything given back in between) comes later -/
theorem qrun_prefix : ∀ (ops : List QOp) (a b q' outs : List Nat), qrun (a ++ b) ops = some (q', outs) →
    ∀ k, k < outs.length → k < a.length → outs[k]? = a[k]? := by
  intro ops
  induction ops with
  | nil =>
    intro a b q' outs h k hk
    rw [qrun_nil] at h
    injection h with h
    injection h with _ h
    subst h
    exact absurd hk (Nat.not_lt_zero _)
  | cons op ops ih =>
    intro a b q' outs h k hk hka
    cases op with
    | pop =>
      cases a with
      | nil => exact absurd hka (Nat.not_lt_zero _)
      | cons x a' =>
        rw [List.cons_append, qrun_pop_cons] at h
        cases hr : qrun (a' ++ b) ops with
        | none => rw [hr] at h; exact absurd h (by simp)
        | some v =>
          rw [hr] at h
          rcases v with ⟨q'', outs'⟩
          simp only [Option.map_some, Option.some.injEq, Prod.mk.injEq] at h
          obtain ⟨_, rfl⟩ := h
          cases k with
          | zero => rfl
          | succ k =>
            rw [List.getElem?_cons_succ, List.getElem?_cons_succ]
            exact ih a' b q'' outs' hr k (by simpa using hk) (by simpa using hka)
    | push p =>
      rw [qrun_push, List.append_assoc] at h
      exact ih a (b ++ [p]) q' outs h k hk hka

/-- the first `|q0|` pages handed out are a prefix of the initial queue -/
theorem qrun_take (q0 : List Nat) (ops : List QOp) (q' outs : List Nat) (h : qrun q0 ops = some (q', outs)) :
    outs.take q0.length = q0.take outs.length := by
  have hp := qrun_prefix ops q0 [] q' outs (by rw [List.append_nil]; exact h)
  apply List.ext_getElem?
  intro k
  rw [List.getElem?_take, List.getElem?_take]
  by_cases h1 : k < q0.length
  · by_cases h2 : k < outs.length
    · rw [if_pos h1, if_pos h2, hp k h2 h1]
    · rw [if_pos h1, if_neg h2, List.getElem?_eq_none (by omega)]
  · by_cases h2 : k < outs.length
    · rw [if_neg h1, if_pos h2, List.getElem?_eq_none (by omega)]
    · rw [if_neg h1, if_neg h2]

/-- the unrestricted claim: the queue never hands out the same page twice -/
def fresh_always_full : Prop :=
  ∀ (q0 : List Nat) (ops : List QOp) (q' outs : List Nat), q0.Nodup → qrun q0 ops = some (q', outs) → outs.Nodup

end C01.Emu
