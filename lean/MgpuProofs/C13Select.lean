import MgpuProofs.C13
/-! Kernel-symbol selection of property C13 as a total function: first match, fault classes,
bytes inside `.text`. -/
namespace C13

/-- the selection step and the rest of `loadNamed` are the same computation -/
theorem loadNamed_via_select (secs : List Section) (text : Section) (td : Bytes) (syms : List Symbol) (k : String) :
    loadNamed secs text td syms k =
      match selectKernel secs text.addr td syms k with
      | .err .notFound => .fatal "notfound"
      | .err _ => .fault
      | .ok s kdata =>
        match findV5 secs k syms with
        | .fault => .fault
        | .found m => .ok { data := kdata, md := overrideRegs k m syms, version := 5, sym := some s }
        | .none => withSym (fromEntireText kdata) s := by
  unfold loadNamed selectKernel firstKernelSym sliceU64
  cases (syms.filter (isKernelSym secs)).find? (·.name == k) with
  | none => rfl
  | some s =>
    simp only
    by_cases h1 : (wrapSub s.value text.addr + s.size) % U64 > td.length
    · rw [if_pos h1, if_neg (by omega)]
    · rw [if_neg h1]
      by_cases h2 : wrapSub s.value text.addr > (wrapSub s.value text.addr + s.size) % U64
      · rw [if_pos h2, if_neg (by omega)]
      · rw [if_neg h2, if_pos (by omega)]
        rfl

/-- sizes the Go types guarantee: symbol values and sizes are `uint64`, and the section's
bytes lie inside the 64-bit address space -/
structure SelFits (textAddr : Nat) (td : Bytes) (syms : List Symbol) : Prop where
  sect : textAddr + td.length < U64
  syms : ∀ s ∈ syms, s.value < U64 ∧ s.size < U64

theorem slice_arith (A V Z L : Nat) (hA : A + L < U64) (hV : V < U64) (hZ : Z < U64) :
    (A ≤ V ∧ V + Z ≤ A + L →
      ¬ (wrapSub V A + Z) % U64 > L ∧ ¬ wrapSub V A > (wrapSub V A + Z) % U64 ∧ wrapSub V A = V - A ∧
      (wrapSub V A + Z) % U64 - wrapSub V A = Z) ∧
    (¬ (A ≤ V ∧ V + Z ≤ A + L) →
      (wrapSub V A + Z) % U64 > L ∨ wrapSub V A > (wrapSub V A + Z) % U64) := by
  unfold wrapSub U64 at *
  split <;> constructor <;> intro h <;> omega

theorem firstKernelSym_mem {secs : List Section} {syms : List Symbol} {k : String} {s : Symbol}
    (h : firstKernelSym secs syms k = some s) : s ∈ syms ∧ isKernelSym secs s = true ∧ s.name = k := by
  unfold firstKernelSym at h
  have hm := List.mem_filter.mp (List.mem_of_find?_eq_some h)
  have hn := List.find?_some h
  exact ⟨hm.1, hm.2, by simpa using hn⟩

/-- closed form of the selection on every symbol table -/
theorem selectKernel_spec (secs : List Section) (A : Nat) (td : Bytes) (syms : List Symbol) (k : String)
    (fits : SelFits A td syms) :
    selectKernel secs A td syms k =
      match firstKernelSym secs syms k with
      | none => .err .notFound
      | some s =>
        if symInside A td.length s then .ok s ((td.drop (s.value - A)).take s.size)
        else .err (if (wrapSub s.value A + s.size) % U64 > td.length then .hiPastCap else .loPastHi) := by
  unfold selectKernel
  cases hf : firstKernelSym secs syms k with
  | none => rfl
  | some s =>
    obtain ⟨hm, _, _⟩ := firstKernelSym_mem hf
    obtain ⟨hv, hz⟩ := fits.syms s hm
    obtain ⟨ar1, ar2⟩ := slice_arith A s.value s.size td.length fits.sect hv hz
    simp only [symInside]
    by_cases hin : A ≤ s.value ∧ s.value + s.size ≤ A + td.length
    · obtain ⟨a1, a2, a3, a4⟩ := ar1 hin
      rw [if_neg a1, if_neg a2, a3] at *
      simp only [hin, and_self, decide_true, if_true]
      rw [a3] at a4
      rw [a4]
    · have := ar2 hin
      simp only [hin, decide_false, Bool.false_eq_true, if_false]
      by_cases h1 : (wrapSub s.value A + s.size) % U64 > td.length
      · rw [if_pos h1, if_pos h1]
      · rw [if_neg h1, if_neg h1, if_pos (by omega)]


/-- **the well-formedness predicate is exactly the no-fault condition** -/
theorem select_nofault_iff_wf (secs : List Section) (A : Nat) (td : Bytes) (syms : List Symbol) (k : String)
    (fits : SelFits A td syms) :
    (selectKernel secs A td syms k ≠ .err .hiPastCap ∧ selectKernel secs A td syms k ≠ .err .loPastHi) ↔
      selWF secs A td syms k = true := by
  rw [selectKernel_spec secs A td syms k fits]
  unfold selWF
  cases firstKernelSym secs syms k with
  | none => simp
  | some s =>
    simp only
    cases symInside A td.length s
    · simp only [Bool.false_eq_true, if_false, iff_false, not_and]
      split <;> simp
    · simp

/-- every fault is one of the two Go slice panics, every non-fault is a result or "not found" -/
theorem select_total (secs : List Section) (A : Nat) (td : Bytes) (syms : List Symbol) (k : String)
    (fits : SelFits A td syms) :
    (firstKernelSym secs syms k = none ∧ selectKernel secs A td syms k = .err .notFound) ∨
    (∃ s, firstKernelSym secs syms k = some s ∧ symInside A td.length s = true ∧
        selectKernel secs A td syms k = .ok s ((td.drop (s.value - A)).take s.size)) ∨
    (∃ s, firstKernelSym secs syms k = some s ∧ symInside A td.length s = false ∧
        (selectKernel secs A td syms k = .err .hiPastCap ∨ selectKernel secs A td syms k = .err .loPastHi)) := by
  rw [selectKernel_spec secs A td syms k fits]
  cases firstKernelSym secs syms k with
  | none => exact Or.inl ⟨rfl, rfl⟩
  | some s =>
    simp only
    cases h : symInside A td.length s
    · refine Or.inr (Or.inr ⟨s, rfl, h, ?_⟩)
      simp only [Bool.false_eq_true, if_false]
      split
      · exact Or.inl rfl
      · exact Or.inr rfl
    · exact Or.inr (Or.inl ⟨s, rfl, h, by simp⟩)

/-- **the returned bytes are bytes of `.text`, at the symbol's offset, and nothing else** -/
theorem select_bytes_inside (secs : List Section) (A : Nat) (td : Bytes) (syms : List Symbol) (k : String)
    (fits : SelFits A td syms) (s : Symbol) (bytes : Bytes)
    (h : selectKernel secs A td syms k = .ok s bytes) :
    firstKernelSym secs syms k = some s ∧ A ≤ s.value ∧ s.value - A + s.size ≤ td.length ∧
    bytes = (td.drop (s.value - A)).take s.size ∧ bytes.length = s.size ∧
    ∀ i, i < s.size → bytes[i]? = td[s.value - A + i]? ∧ s.value - A + i < td.length := by
  rw [selectKernel_spec secs A td syms k fits] at h
  cases hf : firstKernelSym secs syms k with
  | none => rw [hf] at h; cases h
  | some s' =>
    rw [hf] at h
    simp only at h
    cases hin : symInside A td.length s'
    · rw [hin] at h; simp at h
    · rw [hin] at h
      simp only [if_true, Sel.ok.injEq] at h
      obtain ⟨rfl, rfl⟩ := h
      unfold symInside at hin
      simp only [decide_eq_true_eq] at hin
      refine ⟨rfl, hin.1, by omega, rfl, ?_, ?_⟩
      · simp only [List.length_take, List.length_drop]; omega
      · intro i hi
        refine ⟨?_, by omega⟩
        rw [List.getElem?_take_of_lt hi, List.getElem?_drop]

/-- the selected symbol is the FIRST one in table order that passes the kernel filter and has
the name: nothing before it qualifies (duplicates after it are never looked at) -/
theorem firstKernelSym_is_first {secs : List Section} {syms : List Symbol} {k : String} {s : Symbol}
    (h : firstKernelSym secs syms k = some s) :
    ∃ pre post, syms = pre ++ s :: post ∧ isKernelSym secs s = true ∧ s.name = k ∧
      ∀ x ∈ pre, ¬ (isKernelSym secs x = true ∧ x.name = k) := by
  unfold firstKernelSym at h
  rw [List.find?_filter] at h
  obtain ⟨hp, pre, post, hsplit, hpre⟩ := List.find?_eq_some_iff_append.mp h
  simp only [beq_iff_eq, decide_eq_true_eq] at hp
  refine ⟨pre, post, hsplit, hp.1, hp.2, ?_⟩
  intro x hx hq
  have := hpre x hx
  simp [hq.1, hq.2] at this

theorem firstKernelSym_none_iff (secs : List Section) (syms : List Symbol) (k : String) :
    firstKernelSym secs syms k = none ↔ ∀ x ∈ syms, ¬ (isKernelSym secs x = true ∧ x.name = k) := by
  unfold firstKernelSym
  rw [List.find?_filter, List.find?_eq_none]
  simp

/-- what the kernel filter lets through: defined symbols of positive size whose section index
names a section called `.text` -/
theorem isKernelSym_iff (secs : List Section) (s : Symbol) :
    isKernelSym secs s = true ↔ s.shndx ≠ 0 ∧ s.size > 0 ∧ ∃ sec, secs[s.shndx]? = some sec ∧ sec.name = ".text" := by
  unfold isKernelSym
  cases h : secs[s.shndx]? with
  | none => simp
  | some sec =>
    simp only [Bool.and_eq_true, bne_iff_ne, ne_eq, beq_iff_eq, decide_eq_true_eq, Option.some.injEq, exists_eq_left']
    constructor
    · rintro ⟨a, b, c⟩; exact ⟨a, c, b⟩
    · rintro ⟨a, b, c⟩; exact ⟨a, c, b⟩

/-- the empty-name path: when exactly one symbol passes the filter, looking its name up finds it -/
theorem auto_detect_selects_the_only (secs : List Section) (syms : List Symbol) (s : Symbol)
    (h : syms.filter (isKernelSym secs) = [s]) : firstKernelSym secs syms s.name = some s := by
  unfold firstKernelSym
  rw [h]
  simp


/-! ## where the whole named load faults -/

theorem withSym_eq_fault_iff (o : Outcome) (s : Symbol) : withSym o s = .fault ↔ o = .fault := by
  cases o <;> simp [withSym]

/-- a named load panics exactly when the symbol slice panics (the repaired descriptor lookup never does) -/
theorem loadNamed_fault_iff (secs : List Section) (text : Section) (td : Bytes) (syms : List Symbol) (k : String) :
    loadNamed secs text td syms k = .fault ↔
      (selectKernel secs text.addr td syms k = .err .hiPastCap ∨ selectKernel secs text.addr td syms k = .err .loPastHi) := by
  rw [loadNamed_via_select]
  cases hs : selectKernel secs text.addr td syms k with
  | err e => cases e <;> simp
  | ok s b =>
    simp only [reduceCtorEq, or_self, iff_false]
    cases hv : findV5 secs k syms with
    | none =>
      simp only [withSym_eq_fault_iff]
      exact fromEntireText_ne_fault b
    | fault => exact absurd hv (findV5_never_faults secs k syms)
    | found m => simp

/-- BEFORE THE REPAIR the descriptor lookup panicked exactly when the first `<k>.kd` symbol of size 64 sits in a
section named `.rodata` and its offset from the first `.rodata` (uint64 subtraction) is
within 64 of 2^64, with the wrapped end still inside the data: `kdOffset+64` overflows, passes
the length check, and the slice has lo > hi.  (`kd_offset_wraps_iff`: that is a symbol 1..64
bytes *below* the section address, or ≥ 2^64−64 above it.) -/
theorem findV5Old_fault_iff (secs : List Section) (k : String) (syms : List Symbol)
    (hv : ∀ s ∈ syms, s.value < U64) :
    findV5Old secs k syms = .fault ↔
      ∃ ro rod s sec, findSection secs ".rodata" = some ro ∧ ro.data = some rod ∧
        syms.find? (fun s => s.name == k ++ ".kd" && s.size == 64) = some s ∧ secs[s.shndx]? = some sec ∧
        sec.name = ".rodata" ∧ U64 ≤ wrapSub s.value ro.addr + 64 ∧
        wrapSub s.value ro.addr + 64 - U64 ≤ rod.length := by
  unfold findV5Old
  cases hro : findSection secs ".rodata" with
  | none => simp
  | some ro =>
    cases hrd : ro.data with
    | none => simp [hrd]
    | some rod =>
      cases hf : syms.find? (fun s => s.name == k ++ ".kd" && s.size == 64) with
      | none => simp [hrd]
      | some s =>
        have hsv := hv s (List.mem_of_find?_eq_some hf)
        have hoff := wrapSub_lt (b := ro.addr) hsv
        cases hsec : secs[s.shndx]? with
        | none => simp [hrd, hsec]
        | some sec =>
          simp only [hrd, hsec, Option.some.injEq, exists_and_left, exists_eq_left', beq_iff_eq]
          by_cases hn : sec.name = ".rodata"
          · simp only [hn, if_true, true_and]
            generalize wrapSub s.value ro.addr = off at *
            unfold parseV5KernelDescriptor?
            unfold U64 at *
            split
            · split
              · rw [if_neg (by simp only [List.length_take, List.length_drop]; omega)]
                simp only [reduceCtorEq, false_iff]; omega
              · simp only [true_iff]; omega
            · simp only [reduceCtorEq, false_iff]; omega
          · simp [hn]

theorem kd_offset_wraps_iff (V A : Nat) (hV : V < U64) (hA : A < U64) :
    U64 ≤ wrapSub V A + 64 ↔ (V < A ∧ A - V ≤ 64) ∨ (A ≤ V ∧ U64 - 64 ≤ V - A) := by
  unfold wrapSub U64 at *
  split <;> omega


/-- the descriptor lookup succeeds on a descriptor symbol lying inside `.rodata` -/
theorem findV5_found (secs : List Section) (k : String) (syms : List Symbol) (ro : Section) (rod : Bytes)
    (ks : Symbol) (sec : Section)
    (hro : findSection secs ".rodata" = some ro) (hrd : ro.data = some rod)
    (hks : syms.find? (fun s => s.name == k ++ ".kd" && s.size == 64) = some ks)
    (hsec : secs[ks.shndx]? = some sec) (hname : sec.name = ".rodata")
    (hlo : ro.addr ≤ ks.value) (hhi : ks.value + 64 ≤ ro.addr + rod.length) (hfit : ro.addr + rod.length < U64) :
    findV5 secs k syms = .found (parseV5KernelDescriptor ((rod.drop (ks.value - ro.addr)).take 64)) := by
  unfold findV5
  simp only [hro, hrd, hks, hsec, hname, beq_self_eq_true, if_true]
  rw [if_pos hlo, if_pos (by omega)]
  unfold parseV5KernelDescriptor?
  rw [if_neg (by simp only [List.length_take, List.length_drop]; omega)]

/-- the repair changes nothing but the panicking inputs: wherever the old lookup did not
panic, the repaired one gives the same answer -/
theorem findV5_eq_old (secs : List Section) (k : String) (syms : List Symbol)
    (hv : ∀ s ∈ syms, s.value < U64) (ha : ∀ sec ∈ secs, ∀ d, sec.data = some d → sec.addr + d.length < U64)
    (h : findV5Old secs k syms ≠ .fault) : findV5 secs k syms = findV5Old secs k syms := by
  unfold findV5 findV5Old at *
  cases hro : findSection secs ".rodata" with
  | none => rfl
  | some ro =>
    have hrom := (findSection_spec hro).1
    simp only [hro] at h ⊢
    cases hrd : ro.data with
    | none => rfl
    | some rod =>
      have hal := ha ro hrom rod hrd
      simp only [hrd] at h ⊢
      cases hf : syms.find? (fun s => s.name == k ++ ".kd" && s.size == 64) with
      | none => rfl
      | some s =>
        have hsv := hv s (List.mem_of_find?_eq_some hf)
        simp only [hf] at h ⊢
        cases hsec : secs[s.shndx]? with
        | none => rfl
        | some sec =>
          simp only [hsec] at h ⊢
          by_cases hn : (sec.name == ".rodata") = true
          · simp only [hn, if_true] at h ⊢
            unfold wrapSub at h ⊢
            unfold U64 at *
            by_cases hle : ro.addr ≤ s.value
            · simp only [hle, if_true] at h ⊢
              by_cases hfit : s.value - ro.addr + 64 ≤ rod.length
              · have hm : (s.value - ro.addr + 64) % 18446744073709551616 = s.value - ro.addr + 64 :=
                  Nat.mod_eq_of_lt (by omega)
                rw [hm, if_pos (by omega), if_pos (by omega), if_pos (by omega)]
              · rw [if_neg (by omega)]
                by_cases hw : s.value - ro.addr + 64 < 18446744073709551616
                · have hm : (s.value - ro.addr + 64) % 18446744073709551616 = s.value - ro.addr + 64 :=
                    Nat.mod_eq_of_lt hw
                  rw [hm, if_neg (by omega)]
                · by_cases hh : (s.value - ro.addr + 64) % 18446744073709551616 ≤ rod.length
                  · rw [if_pos hh, if_neg (by omega)] at h
                    exact absurd rfl h
                  · rw [if_neg hh]
            · simp only [hle, if_false] at h ⊢
              by_cases hh : (18446744073709551616 - (ro.addr - s.value) + 64) % 18446744073709551616 ≤ rod.length
              · rw [if_pos hh] at h
                by_cases h2 : 18446744073709551616 - (ro.addr - s.value) ≤
                    (18446744073709551616 - (ro.addr - s.value) + 64) % 18446744073709551616
                · omega
                · rw [if_neg h2] at h
                  exact absurd rfl h
              · rw [if_neg hh]
          · simp only [hn] at h ⊢
            rfl

end C13
