import MgpuProofs.C10Free
/-!
The initial driver state of C10 (`driver.Builder.Build` + any list of `RegisterGPU`) satisfies every
run-level invariant.
-/
namespace C10

/-- configuration hypothesis: a positive page size that divides every device size -/
structure Cfg (ps cpu : Nat) (gpus : List Nat) : Prop where
  pspos : 0 < ps
  cpu : ps ∣ cpu
  gpus : ∀ g ∈ gpus, ps ∣ g

def regGPUs (gpus : List Nat) (s : State) : State := gpus.foldl (fun s g => registerDevice s .gpu g []) s

theorem regGPUs_spec : ∀ (gpus : List Nat) (s : State), PInv s.ps s.devs s.pool.frees s.pt → Layout s →
    (∀ g ∈ gpus, s.ps ∣ g) →
    PInv (regGPUs gpus s).ps (regGPUs gpus s).devs (regGPUs gpus s).pool.frees (regGPUs gpus s).pt ∧
    Layout (regGPUs gpus s) ∧ (regGPUs gpus s).ps = s.ps ∧ (regGPUs gpus s).pt = s.pt ∧
    (regGPUs gpus s).mirror = s.mirror ∧ (regGPUs gpus s).ctxs = s.ctxs ∧ (regGPUs gpus s).npid = s.npid ∧
    (regGPUs gpus s).cursors = s.cursors ∧ (regGPUs gpus s).npages = s.npages ∧
    (regGPUs gpus s).devs.map (·.kind) = s.devs.map (·.kind) ++ gpus.map (fun _ => Kind.gpu) := by
  intro gpus
  induction gpus with
  | nil => intro s hP hL _; exact ⟨hP, hL, rfl, rfl, rfl, rfl, rfl, rfl, rfl, by simp [regGPUs]⟩
  | cons g gs ih =>
    intro s hP hL hg
    obtain ⟨a, b⟩ := registerDevice_pres (kind := .gpu) (actual := []) hP hL (hg g (List.mem_cons_self ..))
    obtain ⟨p, l, e1, e2, e3, e4, e5, e6, e7, e8⟩ := ih (registerDevice s .gpu g []) a b
      (fun x hx => hg x (List.mem_cons_of_mem _ hx))
    refine ⟨p, l, e1, e2, e3, e4, e5, e6, e7, ?_⟩
    show (regGPUs gs (registerDevice s .gpu g [])).devs.map (·.kind) = _
    rw [e8]
    show (s.devs ++ [_]).map Dev.kind ++ _ = _
    simp

/-- the state of `NewMemoryAllocator` before any device is registered -/
def initBase (ps : Nat) : State :=
  { ps := ps, total := ps, devs := [], pool := { frees := [], nexts := [] }, cursors := [],
    mirror := [], npages := [], pt := [], ctxs := [], npid := 0 }

theorem initState_eq (ps cpu : Nat) (gpus : List Nat) :
    initState ps cpu gpus = regGPUs gpus (registerDevice (initBase ps) .cpu cpu []) := rfl

/-- everything the run-level theorems need about the initial state, for every registration list -/
theorem init_all {ps cpu : Nat} {gpus : List Nat} (h : Cfg ps cpu gpus) :
    let s := initState ps cpu gpus
    WInv s ∧ GpuOK gpus.length s ∧ OneProc s ∧ MirrorOK s ∧ BufInv s ∧ AllocInv s ∧ s.npid = 0 ∧ s.ps = ps := by
  intro s
  have hP0 : PInv (initBase ps).ps (initBase ps).devs (initBase ps).pool.frees (initBase ps).pt :=
    ⟨h.pspos, rfl, by simp [initBase], by simp [initBase], by simp [initBase], by simp [initBase],
      by simp [initBase], by simp [initBase], by simp [initBase], by simp [initBase]⟩
  have hL0 : Layout (initBase ps) := ⟨Nat.dvd_refl _, by simp [initBase]⟩
  obtain ⟨a, b⟩ := registerDevice_pres (kind := .cpu) (actual := []) hP0 hL0 h.cpu
  obtain ⟨p, l, e1, e2, e3, e4, e5, e6, e7, e8⟩ := regGPUs_spec gpus (registerDevice (initBase ps) .cpu cpu []) a b h.gpus
  have hs : s = regGPUs gpus (registerDevice (initBase ps) .cpu cpu []) := initState_eq ps cpu gpus
  rw [← hs] at p l e1 e2 e3 e4 e5 e6 e7 e8
  have hpt : s.pt = [] := e2
  have hmi : s.mirror = [] := e3
  have hcx : s.ctxs = [] := e4
  have hnp : s.npid = 0 := e5
  refine ⟨⟨p, ?_, l⟩, ?_, ⟨?_, ?_, ?_⟩, ⟨?_, ?_⟩, ⟨?_, ?_, ?_⟩, ?_, hnp, e1⟩
  · rw [hpt, hmi]; exact ⟨by simp, by simp [lookup]⟩
  · intro g hg
    have hk : (s.devs.map (·.kind))[g + 1]? = some Kind.gpu := by
      rw [e8]
      show ([Kind.cpu] ++ gpus.map (fun _ => Kind.gpu))[g + 1]? = some Kind.gpu
      rw [List.getElem?_append_right (by simp)]
      simp [hg]
    rw [List.getElem?_map] at hk
    cases hd : s.devs[g + 1]? with
    | none => rw [hd] at hk; simp at hk
    | some dv => rw [hd] at hk; simp at hk; exact ⟨dv, rfl, hk⟩
  · rw [hcx]; simp
  · intro e he; rw [hpt] at he; simp at he
  · intro _; exact ⟨hcx, hpt⟩
  · rw [hpt]; simp
  · rw [hmi]; simp
  · rw [hcx]; simp
  · rw [hcx]; simp
  · rw [hcx]; simp
  · intro c hc; rw [hcx] at hc; simp at hc

/-! ### executable form of the caller discipline (for concrete histories) -/

def opOKb (s : State) : Op → Bool
  | .free c ptr =>
    match s.ctxs[c]? with
    | some cx => cx.bufs.any fun b => b.vaddr == ptr && !b.freed
    | none => false
  | .rmpage _ => false
  | _ => true

def disciplinedB : State → List Op → Bool
  | _, [] => true
  | s, op :: ops =>
    opOKb s op && match step s op with
      | .ok (_, s') => disciplinedB s' ops
      | .error _ => true

theorem opOKb_sound {s : State} {op : Op} (h : opOKb s op = true) : OpOK s op := by
  cases op <;> simp only [opOKb, OpOK] at h ⊢ <;> try trivial
  · rename_i c ptr
    split at h
    · rename_i cx hc
      obtain ⟨b, hb, hbb⟩ := List.any_eq_true.mp h
      simp at hbb
      exact ⟨cx, hc, b, hb, hbb.1, hbb.2⟩
    · simp at h

theorem disciplinedB_sound : ∀ (ops : List Op) (s : State), disciplinedB s ops = true → Disciplined s ops := by
  intro ops
  induction ops with
  | nil => intro s _; trivial
  | cons op ops ih =>
    intro s h
    simp only [disciplinedB, Bool.and_eq_true] at h
    refine ⟨opOKb_sound h.1, fun r s' hs => ?_⟩
    have h2 := h.2
    rw [hs] at h2
    exact ih s' h2

/-- all run-level invariants after any history from any initial registration -/
theorem run_all {ps cpu : Nat} {gpus : List Nat} {ops : List Op} {s' : State} (h : Cfg ps cpu gpus)
    (hm : ∀ op ∈ ops, MigOK gpus.length op) (hr : run (initState ps cpu gpus) ops = .ok s') :
    WInv s' ∧ BufInv s' ∧ (inits ops ≤ 1 → OneProc s' ∧ MirrorOK s' ∧
      (Disciplined (initState ps cpu gpus) ops → AllocInv s')) := by
  obtain ⟨hW, hG, hO, hM, hB, hA, hn, _⟩ := init_all h
  refine ⟨(run_w ops _ s' hW hG hm hr).1, run_buf ops _ s' hW hG hm hB hr, fun hi => ?_⟩
  have hb : (initState ps cpu gpus).npid + inits ops ≤ 1 := by rw [hn]; omega
  obtain ⟨a, b⟩ := run_one ops _ s' hW hG hm hO hM hb hr
  exact ⟨a, b, fun hD => run_intact ops _ s' hW hG hm hO hM hb hB hA hD hr⟩

end C10
