import MgpuProofs.C19SysRank
import MgpuProofs.C19SysRankT1
/-! # C19 — the closed system: the rank under connection, controller and MMU moves -/
namespace C19
namespace SY
open CP (Cp Cls K Sub Cmd Ans)
open DR (Drv MmuReq MigCmd)

/-- pigeonhole: a duplicate-free list of numbers below `n` has at most `n` elements -/
theorem nodup_lt_length : ∀ (n : Nat) (l : List Nat), l.Nodup → (∀ x ∈ l, x < n) → l.length ≤ n := by
  intro n
  induction n with
  | zero =>
    intro l _ h
    cases l with
    | nil => simp
    | cons a _ => exact absurd (h a (List.mem_cons_self ..)) (Nat.not_lt_zero _)
  | succ n ih =>
    intro l hn h
    have h1 := ih (l.erase n) (hn.erase n) (fun x hx => by
      have := (hn.mem_erase_iff).mp hx
      have := h x this.2
      omega)
    by_cases e : n ∈ l
    · rw [List.length_erase_of_mem e] at h1
      have : 0 < l.length := List.length_pos_of_mem e
      omega
    · rw [List.erase_of_not_mem e] at h1; omega

theorem wq_congr {s s' : Sys} (hc : ∀ g, SameCfg (s.cp g) (s'.cp g)) (hm : s'.drv.migLog = s.drv.migLog)
    (e : Nat × Cmd) : wq s' e = wq s e := by
  unfold wq wmOf
  rw [hm]
  exact wCmd_same (hc e.1) _ _

theorem gsum_upd2 (s s' : Sys) (g : Nat) (hg : g < s.drv.ngpu) (hn : s'.drv.ngpu = s.drv.ngpu)
    (hm : s'.drv.migLog = s.drv.migLog)
    (hcp : ∀ x, x ≠ g → s'.cp x = s.cp x) (hcm : ∀ x, x ≠ g → s'.cm x = s.cm x) :
    gsum s' + gmeas (wmOf s.drv) (s.cp g) (s.cm g) = gsum s + gmeas (wmOf s.drv) (s'.cp g) (s'.cm g) := by
  have hw : wmOf s'.drv = wmOf s.drv := by funext i; unfold wmOf; rw [hm]
  unfold gsum
  rw [hn, hw]
  exact sumN_map_upd (fun g => gmeas (wmOf s.drv) (s.cp g) (s.cm g)) (fun g => gmeas (wmOf s.drv) (s'.cp g) (s'.cm g))
    _ g hg (fun x hx => by simp only [hcp x hx, hcm x hx])

theorem gsum_same (s s' : Sys) (hn : s'.drv.ngpu = s.drv.ngpu) (hm : s'.drv.migLog = s.drv.migLog)
    (hcp : s'.cp = s.cp) (hcm : s'.cm = s.cm) : gsum s' = gsum s := by
  have hw : wmOf s'.drv = wmOf s.drv := by funext i; unfold wmOf; rw [hm]
  unfold gsum
  rw [hn, hw, hcp, hcm]

theorem sameCfg_upd {s : Sys} {g : Nat} {c' : Cp} (h : SameCfg (s.cp g) c') (g' : Nat) :
    SameCfg (s.cp g') (upd s.cp g c' g') := by
  by_cases e : g' = g
  · subst e; rw [upd_same]; exact h
  · rw [upd_other _ _ _ _ e]; exact SameCfg.refl _

theorem sumN_cons (f : Nat × Cmd → Nat) (x : Nat × Cmd) (l : List (Nat × Cmd)) :
    sumN ((x :: l).map f) = f x + sumN (l.map f) := by simp [sumN]

/-- the driver's part of `L`, with the queue weights read in another state of the same configuration -/
theorem drvL_eq (s s' : Sys) (hq : ∀ e, wq s' e = wq s e) :
    drvL s' = sumN (s'.drv.toSend.map fun e => wq s e + 2) + sumN (s'.drv.gpuOut.map fun e => wq s e + 1) +
      s'.drv.gpuIn.length + (if s'.drv.toMMU.isSome then 2 else 0) + s'.drv.mmuOut.length := by
  have h1 : (fun e => wq s' e + 2) = fun e => wq s e + 2 := funext fun e => by rw [hq e]
  have h2 : (fun e => wq s' e + 1) = fun e => wq s e + 1 := funext fun e => by rw [hq e]
  unfold drvL
  rw [h1, h2]

theorem lexLt_of {s s' : Sys} (hR : R s' = R s) (hL : L s' < L s) : LexLt (rank s') (rank s) := Or.inr ⟨hR, hL⟩
theorem lexLt_of_R {s s' : Sys} (hR : R s' < R s) : LexLt (rank s') (rank s) := Or.inl hR
theorem lexLe_of {s s' : Sys} (hR : R s' = R s) (hL : L s' ≤ L s) : LexLe (rank s') (rank s) := Or.inr ⟨hR, hL⟩

/-- the GPUs that are not idle are below `ngpu` -/
theorem busy_lt {s : Sys} (I : Inv s) {g : Nat} (h : ∀ rq gq, ¬ GIdle rq gq (s.cp g) (s.cm g)) : g < s.drv.ngpu := by
  cases I.ph with
  | idle _ hg _ _ => exact absurd (hg g) (h _ _)
  | bcast p r σ loc hp hh hc hr hct htc hone hb hw hm hpg hrh =>
    by_cases e : g ∈ σ.atG
    · have : g ∈ targets p s.drv.ngpu r := hb.perm.subset (by simp [Split.all, e])
      cases p <;> simp only [targets] at this
      · exact List.mem_range.mp this
      · exact accT_lt hr this
      · cases this
      · exact accT_lt hr this
      · exact List.mem_range.mp this
    · exact absurd (hb.idle g e) (h _ _)
  | mig r fl ws hh hc hr hct hmp hw hm hrh =>
    by_cases hfl : ∃ m loc, fl = some (m, .atG loc) ∧ g = m.gpu
    · obtain ⟨m, loc, rfl, rfl⟩ := hfl
      have := (hmp.fly m _ rfl).gpu
      have := I.ng.1
      omega
    · exact absurd (hmp.idle g (fun m loc hx e => hfl ⟨m, loc, hx, e⟩)) (h _ _)

theorem rank_mmuTake {s : Sys} (I : Inv s) :
    LexLe (rank (step s .mmuTake)) (rank s) ∧ (s.drv.mmuOut ≠ [] → LexLt (rank (step s .mmuTake)) (rank s)) := by
  have _ := I
  simp only [step]
  split
  · rename_i h; exact ⟨LexLe.refl _, fun x => absurd h x⟩
  · rename_i a rest hout
    have hR : R { s with drv := { s.drv with mmuOut := rest }, mmuGot := s.mmuGot ++ [a.1] } = R s := rfl
    have hL : L { s with drv := { s.drv with mmuOut := rest }, mmuGot := s.mmuGot ++ [a.1] } + 1 = L s := by
      have hg : gsum { s with drv := { s.drv with mmuOut := rest }, mmuGot := s.mmuGot ++ [a.1] } = gsum s :=
        gsum_same _ _ rfl rfl rfl rfl
      have hq : ∀ e, wq { s with drv := { s.drv with mmuOut := rest }, mmuGot := s.mmuGot ++ [a.1] } e = wq s e :=
        fun e => wq_congr (fun g => SameCfg.refl _) rfl e
      unfold L
      rw [hg, drvL_eq s _ hq, drvL_eq s s (fun _ => rfl)]
      simp only [hout, List.length_cons]
      omega
    have : LexLt (rank { s with drv := { s.drv with mmuOut := rest }, mmuGot := s.mmuGot ++ [a.1] }) (rank s) :=
      lexLt_of hR (by omega)
    exact ⟨this.le, fun _ => this⟩

/-- the GPU a queued command is addressed to is idle -/
theorem head_idle {s : Sys} (I : Inv s) {g0 : Nat} {c : Cmd} {rest : List (Nat × Cmd)}
    (hout : s.drv.gpuOut = (g0, c) :: rest) : ∃ rq gq, GIdle rq gq (s.cp g0) (s.cm g0) := by
  cases I.ph with
  | idle hd hg _ _ => exact ⟨_, _, hg g0⟩
  | bcast p r σ loc hp hh hc hr hct htc hone hb hw hm hpg hrh =>
    have hso := hb.gpuOut
    rw [hout] at hso
    cases hse : σ.sent with
    | nil => rw [hse] at hso; cases hso
    | cons g1 s' =>
      rw [hse, List.map_cons] at hso
      injection hso with e1 e2
      injection e1 with e3 e4
      subst e3
      have hnd := split_nodup hb.perm (targets_nodup hr p)
      have hcnt := (List.nodup_iff_count.mp hnd) g0
      simp only [Split.all, hse, List.count_append, List.count_cons_self] at hcnt
      have n1 : g0 ∉ σ.atG := not_mem_of_count (by omega)
      exact ⟨_, _, hb.idle g0 n1⟩
  | mig r fl ws hh hc hr hct hmp hw hm hrh =>
    have hso := hmp.gpuOut
    rw [hout] at hso
    match fl, hso with
    | some (m, .sent), hso =>
      simp only [flOut, List.cons.injEq, Prod.mk.injEq] at hso
      obtain ⟨⟨e1, _⟩, _⟩ := hso
      subst e1
      exact ⟨_, _, hmp.idle m.gpu (fun x l hx => by simp at hx)⟩
    | some (m, .atG l), hso => simp [flOut] at hso
    | some (m, .bk), hso => simp [flOut] at hso
    | none, hso => simp [flOut] at hso

/-- the state after `.toCp` moved `(g0, c)` / after `.toDrv g` moved `a` -/
def stCp (s : Sys) (g0 : Nat) (c : Cmd) (rest : List (Nat × Cmd)) : Sys :=
  { s with drv := { s.drv with gpuOut := rest }, cp := upd s.cp g0 { s.cp g0 with drvIn := (s.cp g0).drvIn ++ [c] } }
def stDrv (s : Sys) (g : Nat) (a : Ans) (rest : List Ans) : Sys :=
  { s with drv := { s.drv with gpuIn := s.drv.gpuIn ++ [a] }, cp := upd s.cp g { s.cp g with drvOut := rest } }

theorem rank_toCp {s : Sys} (I : Inv s) :
    LexLe (rank (step s .toCp)) (rank s) ∧ (s.drv.gpuOut ≠ [] → LexLt (rank (step s .toCp)) (rank s)) := by
  have I' := inv_toCp I
  simp only [step] at I' ⊢
  split
  · rename_i h; exact ⟨LexLe.refl _, fun x => absurd h x⟩
  · rename_i g0 c rest hout
    obtain ⟨rq, gq, hid⟩ := head_idle I hout
    have hroom : (s.cp g0).drvIn.length < (s.cp g0).capIn := by
      rw [(idle_drvOut hid).2.2]
      have := (I.cfg g0).capIn.1
      simp only [List.length_nil]; omega
    rw [hout] at I'
    simp only [if_pos hroom] at I' ⊢
    change Inv (stCp s g0 c rest) at I'
    show LexLe (rank (stCp s g0 c rest)) (rank s) ∧ (_ → LexLt (rank (stCp s g0 c rest)) (rank s))
    have hg : g0 < s.drv.ngpu := by
      have := busy_lt I' (g := g0) (fun rq gq h => by
        have := (idle_drvOut h).2.2
        simp [stCp, upd_same] at this)
      exact this
    have hsc : SameCfg (s.cp g0) { s.cp g0 with drvIn := (s.cp g0).drvIn ++ [c] } :=
      ⟨rfl, rfl, rfl, rfl, rfl, rfl, rfl, rfl, rfl, rfl, rfl, rfl, rfl, rfl, rfl⟩
    have hq := fun e => wq_congr (s := s)
      (s' := (stCp s g0 c rest))
      (fun g => sameCfg_upd hsc g) rfl e
    have hgs := gsum_upd2 s (stCp s g0 c rest) g0 hg rfl rfl
      (fun x hx => upd_other _ _ _ _ hx) (fun _ _ => rfl)
    have e1 : (stCp s g0 c rest).cp g0 = { s.cp g0 with drvIn := (s.cp g0).drvIn ++ [c] } := upd_same _ _ _
    have e2 : (stCp s g0 c rest).cm g0 = s.cm g0 := rfl
    rw [e1, e2, gmeas_recv] at hgs
    have hL : L (stCp s g0 c rest) + 1 = L s := by
      unfold L
      rw [drvL_eq s _ hq, drvL_eq s s (fun _ => rfl)]
      have e3 : (stCp s g0 c rest).drv.gpuOut = rest := rfl
      have e4 : (stCp s g0 c rest).drv.toSend = s.drv.toSend := rfl
      have e5 : (stCp s g0 c rest).drv.gpuIn = s.drv.gpuIn := rfl
      have e6 : (stCp s g0 c rest).drv.toMMU = s.drv.toMMU := rfl
      have e7 : (stCp s g0 c rest).drv.mmuOut = s.drv.mmuOut := rfl
      have e8 : (stCp s g0 c rest).w = s.w := rfl
      have e9 : (stCp s g0 c rest).back = s.back := rfl
      rw [e3, e4, e5, e6, e7, e8, e9, hout, sumN_cons]
      have : wq s (g0, c) = wCmd (s.cp g0) (wmOf s.drv) c := rfl
      omega
    have := lexLt_of (s := s) (s' := (stCp s g0 c rest)) rfl (by omega)
    exact ⟨this.le, fun _ => this⟩

theorem rank_toDrv {s : Sys} (I : Inv s) (g : Nat) :
    LexLe (rank (step s (.toDrv g))) (rank s) ∧
    ((s.cp g).drvOut ≠ [] → LexLt (rank (step s (.toDrv g))) (rank s)) := by
  simp only [step]
  split
  · rename_i h; exact ⟨LexLe.refl _, fun x => absurd h x⟩
  · rename_i a rest hout
    have hg : g < s.drv.ngpu := busy_lt I (fun rq gq h => by
      have := (idle_drvOut h).1
      rw [hout] at this; cases this)
    have hroom : s.drv.gpuIn.length < s.drv.capGpuIn := by
      have hcap := I.caps.1
      cases I.ph with
      | idle hd _ _ _ => rw [hd.gpuIn]; simp only [List.length_nil]; omega
      | bcast p r σ loc hp hh hc hr hct htc hone hb hw hm hpg hrh =>
        rw [hb.gpuIn, List.length_replicate]
        have hnd := split_nodup hb.perm (targets_nodup hr p)
        have hbk : σ.bk.Nodup := by
          simp only [Split.all] at hnd
          exact (List.nodup_append.mp (List.nodup_append.mp hnd).1).2.1
        have hlt : ∀ x ∈ σ.bk, x < s.drv.ngpu := by
          intro x hx
          have : x ∈ targets p s.drv.ngpu r := hb.perm.subset (by simp [Split.all, hx])
          cases p <;> simp only [targets] at this
          · exact List.mem_range.mp this
          · exact accT_lt hr this
          · cases this
          · exact accT_lt hr this
          · exact List.mem_range.mp this
        have := nodup_lt_length _ _ hbk hlt
        omega
      | mig r fl ws hh hc hr hct hmp hw hm hrh =>
        rw [hmp.gpuIn]
        have := I.ng.1
        match fl with
        | some (_, .bk) => simp only [flIn, List.length_singleton]; omega
        | some (_, .sent) => simp only [flIn, List.length_nil]; omega
        | some (_, .atG _) => simp only [flIn, List.length_nil]; omega
        | none => simp only [flIn, List.length_nil]; omega
    simp only [if_pos hroom]
    show LexLe (rank (stDrv s g a rest)) (rank s) ∧ (_ → LexLt (rank (stDrv s g a rest)) (rank s))
    have hsc : SameCfg (s.cp g) { s.cp g with drvOut := rest } :=
      ⟨rfl, rfl, rfl, rfl, rfl, rfl, rfl, rfl, rfl, rfl, rfl, rfl, rfl, rfl, rfl⟩
    have hq := fun e => wq_congr (s := s)
      (s' := (stDrv s g a rest))
      (fun g' => sameCfg_upd hsc g') rfl e
    have hgs := gsum_upd2 s (stDrv s g a rest) g hg rfl rfl
      (fun x hx => upd_other _ _ _ _ hx) (fun _ _ => rfl)
    have e1 : (stDrv s g a rest).cp g = { s.cp g with drvOut := rest } := upd_same _ _ _
    have e2 : (stDrv s g a rest).cm g = s.cm g := rfl
    have hm2 : gmeas (wmOf s.drv) ((stDrv s g a rest).cp g) ((stDrv s g a rest).cm g) + 2 =
        gmeas (wmOf s.drv) (s.cp g) (s.cm g) := by
      rw [e1, e2]; exact gmeas_drvOut (wmOf s.drv) (s.cp g) (s.cm g) a rest hout
    have hL : L (stDrv s g a rest) + 1 = L s := by
      unfold L
      rw [drvL_eq s _ hq, drvL_eq s s (fun _ => rfl)]
      have e3 : (stDrv s g a rest).drv.gpuOut = s.drv.gpuOut := rfl
      have e4 : (stDrv s g a rest).drv.toSend = s.drv.toSend := rfl
      have e5 : (stDrv s g a rest).drv.gpuIn = s.drv.gpuIn ++ [a] := rfl
      have e6 : (stDrv s g a rest).drv.toMMU = s.drv.toMMU := rfl
      have e7 : (stDrv s g a rest).drv.mmuOut = s.drv.mmuOut := rfl
      have e8 : (stDrv s g a rest).w = s.w := rfl
      have e9 : (stDrv s g a rest).back = s.back := rfl
      rw [e3, e4, e5, e6, e7, e8, e9, List.length_append, List.length_singleton]
      omega
    have := lexLt_of (s := s) (s' := (stDrv s g a rest)) rfl (by omega)
    exact ⟨this.le, fun _ => this⟩

end SY

/-! ## inside the two-controller world -/

/-- a quiet tick of a controller did not find a request to take, nor one to start -/
theorem tick_ctl_quiet (q : Pmc) (hf : (tick q).1.fault = none) (h2 : (tick q).2 = false) :
    (fromCtrl q).2 = false ∧ (fromCtrl q).1.fault = none := by
  unfold tick at hf h2
  obtain ⟨a13, b13, c13, d13, e13⟩ := stage_back writeDone _ hf h2
  obtain ⟨a12, b12, c12, d12, e12⟩ := stage_back pullRsp _ a13 b13
  obtain ⟨a11, b11, c11, d11, e11⟩ := stage_back dataReadyRsp _ a12 b12
  obtain ⟨a10, b10, c10, d10, e10⟩ := stage_back readPage _ a11 b11
  obtain ⟨a9, b9, c9, d9, e9⟩ := stage_back startMigration _ a10 b10
  obtain ⟨a8, b8, c8, d8, e8⟩ := stage_back fromMem _ a9 b9
  obtain ⟨a7, b7, c7, d7, e7⟩ := stage_back fromCtrl _ a8 b8
  obtain ⟨a6, b6, c6, d6, e6⟩ := stage_back fromOutside _ a7 b7
  obtain ⟨a5, b5, c5, d5, e5⟩ := stage_back sendWrite _ a6 b6
  obtain ⟨a4, b4, c4, d4, e4⟩ := stage_back sendRsp _ a5 b5
  obtain ⟨a3, b3, c3, d3, e3⟩ := stage_back sendComplete _ a4 b4
  obtain ⟨a2, b2, c2, d2, e2⟩ := stage_back sendRead _ a3 b3
  obtain ⟨a1, b1, c1, d1, e1⟩ := stage_back sendPull _ a2 b2
  simp only at a1 c1 d1 e1
  have i1 := (e1.trans (id_sendPull q c1 d1 a1))
  rw [i1] at c2 d2 e2
  have i2 := e2.trans (id_sendRead q c2)
  rw [i2] at c3 d3 e3
  have i3 := e3.trans (id_sendComplete q c3)
  rw [i3] at c4 d4 e4
  have i4 := e4.trans (id_sendRsp q c4 d4 a1)
  rw [i4] at c5 d5 e5
  have i5 := e5.trans (id_sendWrite q c5)
  rw [i5] at c6 d6 e6
  have i6 := e6.trans (id_fromOutside q c6 d6)
  rw [i6] at c7 d7 e7
  exact ⟨c7, d7⟩

/-- an idle controller with a request in its control port takes it -/
theorem tick_ctl (q : Pmc) (hf : (tick q).1.fault = none) (hh : q.handling = false) (r : MigReq) (rest : List CMsg)
    (hc : q.ctlIn = .mig r :: rest) : (tick q).2 = true := by
  cases h2 : (tick q).2 with
  | true => rfl
  | false =>
    exfalso
    have := (tick_ctl_quiet q hf h2).1
    unfold fromCtrl at this
    simp [hh, hc] at this

theorem migsOf_ne {l : List CMsg} (hj : CMsg.junk ∉ l) (h : l ≠ []) : ∃ r rest, l = .mig r :: rest := by
  cases l with
  | nil => exact absurd rfl h
  | cons c rest =>
    cases c with
    | mig r => exact ⟨r, rest, rfl⟩
    | junk => exact absurd (List.mem_cons_self ..) hj

theorem migsOf_nil {l : List CMsg} (h : migsOf l = []) (hj : CMsg.junk ∉ l) : l = [] := by
  cases l with
  | nil => rfl
  | cons c rest =>
    cases c with
    | mig r => simp [migsOf] at h
    | junk => exact absurd (List.mem_cons_self ..) hj

/-- while a request is inside the two-controller system something can move there -/
theorem world_enabled {w : World} (h : WReach w) (hl : w.live ≠ []) :
    ∃ o : Op, o.honest = true ∧ o.isSubmit = false ∧ productive w.sys o = true := by
  have I := wreach_inv h
  obtain ⟨ℓ, hℓ⟩ := List.exists_mem_of_ne_nil _ hl
  have hp := I.lp ℓ hℓ
  have side : ∀ (v : DirV) (q : Pmc) (cq : List CMsg) (i : Nat), Dir v w.live → v.rq = q → v.cq = cq → v.p = i →
      ℓ.p = i → Phase (key q) → q = w.sys.pmc i → cq = w.sys.cq i → i < 2 →
      (q.completed.length < q.started.length → Enabled w.sys) → ((tick q).1.fault = none) → Enabled w.sys := by
    intro v q cq i d hq hcq hvp hlp ph hqi hcqi hi2 hinc htf
    subst hq; subst hcq
    cases ph with
    | moving S r g1 g2 g3 g4 =>
      simp only [key] at g3 g4
      exact hinc (by rw [g3, g4]; simp)
    | done S r g1 g2 g3 g4 =>
      simp only [key] at g3 g4
      exact hinc (by rw [g3, g4]; simp)
    | idle g1 g2 g3 g4 g5 =>
      simp only [key] at g1 g2 g3
      have hlk := d.lk
      have hact : activeId v.rq = none := by simp [activeId, g2, g3]
      rw [hact] at hlk
      have hne : (w.live.filter (fun x => x.p == v.p)).map (·.r.id) ≠ [] := by
        have : ℓ ∈ w.live.filter (fun x => x.p == v.p) := by
          rw [List.mem_filter]; exact ⟨hℓ, by rw [hvp, hlp]; simp⟩
        intro e
        have := List.map_eq_nil_iff.mp e
        rw [this] at *
        simp_all
      rw [hlk] at hne
      by_cases h1 : v.rq.ctlOut = []
      · by_cases h2 : v.rq.ctlIn = []
        · -- the request is still on its way to the control port
          have h3 : v.cq ≠ [] := by
            intro e
            apply hne
            simp [h1, h2, e, migsOf]
          refine ⟨.ctl i, by simp [Op.honest, hi2], rfl, ?_⟩
          simp only [productive]
          rw [← hcqi, ← hqi, h2]
          cases hcq : v.cq with
          | nil => exact absurd hcq h3
          | cons a b => simp
        · obtain ⟨r, rest, hr⟩ := migsOf_ne d.cj.1 h2
          refine ⟨.tick i, by simp [Op.honest, hi2], rfl, ?_⟩
          simp only [productive]
          rw [← hqi]
          exact tick_ctl _ htf g1 r rest hr
      · refine ⟨.coll i, by simp [Op.honest, hi2], rfl, ?_⟩
        simp only [productive]
        rw [← hqi]
        cases hco : v.rq.ctlOut with
        | nil => exact absurd hco h1
        | cons a b => simp
  have : ℓ.p = 0 ∨ ℓ.p = 1 := by omega
  rcases this with e | e
  · exact side w.sys.v0 w.sys.p0 w.sys.cq0 0 I.d0 rfl rfl rfl e I.ph0 rfl rfl (by omega)
      (enabled_of_incomplete0 I)
      (both_tick (vx := w.sys.v0) (vy := w.sys.v1) (q := w.sys.p0) ⟨I.d0, I.d1⟩ I.ph0 I.f0).1
  · exact side w.sys.v1 w.sys.p1 w.sys.cq1 1 I.d1 rfl rfl rfl e I.ph1 rfl rfl (by omega)
      (enabled_of_incomplete1 I)
      (both_tick (vx := w.sys.v1) (vy := w.sys.v0) (q := w.sys.p1) ⟨I.d1, I.d0⟩ I.ph1 I.f1).1

/-- a submission adds the weight of its request to the world's measure -/
theorem measure_submit (s : C19.Sys) (i rd wr size peer : Nat) :
    measure (C19.step s (.submit i rd wr size peer)).1 = measure s + (24 * (size / unit) + 7) := by
  unfold C19.step
  simp only [measure, Sys.setCq, Sys.cq]
  split <;> simp [sumW, wCtl, wReq] <;> omega

namespace SY
open CP (Cp Cls K Sub Cmd Ans)
open DR (Drv MmuReq MigCmd)

theorem inv_wreach {s : Sys} (I : Inv s) : WReach s.w := by
  cases I.ph with
  | idle _ _ hw _ => exact hw.reach
  | bcast _ _ _ _ _ _ _ _ _ _ _ _ hw _ _ _ => exact hw.reach
  | mig _ _ _ _ _ _ _ _ hw _ _ => exact hw.reach

theorem rank_world {s : Sys} (I : Inv s) (o : Op) (ho : o.honest = true) (hs : o.isSubmit = false)
    (hc : Op.isColl o = false) :
    LexLe (rank (step s (.world o))) (rank s) ∧
    (productive s.w.sys o = true → LexLt (rank (step s (.world o))) (rank s)) := by
  have hm := (migration_progress (inv_wreach I)).1 o ho hs
  have hl := d_live_step s.w o hs hc
  simp only [step]
  generalize hs' : ({ s with w := s.w.step o } : Sys) = s'
  have e0 : s'.drv = s.drv := by rw [← hs']
  have e1 : s'.cp = s.cp := by rw [← hs']
  have e2 : s'.cm = s.cm := by rw [← hs']
  have e3 : s'.w = s.w.step o := by rw [← hs']
  have e4 : s'.back = s.back := by rw [← hs']
  have hR : R s' = R s := by unfold R; rw [e0]
  have hL : L s' + measure s.w.sys = L s + measure (s.w.step o).sys := by
    have hg : gsum s' = gsum s := gsum_same _ _ (by rw [e0]) (by rw [e0]) e1 e2
    have hd : drvL s' = drvL s := by
      rw [drvL_eq s s' (fun e => wq_congr (fun g => by rw [e1]; exact SameCfg.refl _) (by rw [e0]) e),
        drvL_eq s s (fun _ => rfl), e0]
    unfold L
    rw [hg, hd, e3, e4, hl]
    omega
  refine ⟨lexLe_of hR (by omega), fun hp => lexLt_of hR ?_⟩
  have := hm.2 hp
  omega

theorem rank_pmcBack {s : Sys} (I : Inv s) (g : Nat) :
    LexLe (rank (step s (.pmcBack g))) (rank s) ∧ (0 < s.back g → LexLt (rank (step s (.pmcBack g))) (rank s)) := by
  by_cases hb : 0 < s.back g
  rotate_left
  · simp only [step]
    rw [if_neg (fun x => hb x.1)]
    exact ⟨LexLe.refl _, fun x => absurd x hb⟩
  · -- the completion belongs to the GPU that waits for its controller
    have key : g < 2 ∧ ∃ x rq gq, GS x .pmcWait rq gq (s.cp g) (s.cm g) := by
      cases I.ph with
      | idle _ _ hw _ => have := hw.back g; simp [WSt.backOf] at this; omega
      | bcast _ _ _ _ _ _ _ _ _ _ _ _ hw _ _ _ => have := hw.back g; simp [WSt.backOf] at this; omega
      | mig r fl ws hh hc hr hct hmp hw hm hrh =>
        have hbk := hw.back g
        have hne : ws ≠ .none := by
          intro e; rw [e] at hbk; simp [WSt.backOf] at hbk; omega
        obtain ⟨m, rfl, hws⟩ := d_flWs_ne hmp.ws hne
        rcases hws with e | e
        · rw [e] at hbk; simp [WSt.backOf] at hbk; omega
        · rw [e] at hbk
          simp only [WSt.backOf] at hbk
          by_cases e2 : g = m.gpu
          · subst e2
            exact ⟨(hmp.fly m _ rfl).gpu, _, _, _, hmp.busy m .pmcWait rfl⟩
          · rw [if_neg e2] at hbk; omega
    obtain ⟨hg2, x, rq, gq, hgs⟩ := key
    obtain ⟨hroom, _⟩ := busy_pmcBack (I.cfg g) hgs
    have hg : g < s.drv.ngpu := by have := I.ng.1; omega
    simp only [step]
    rw [if_pos ⟨hb, hroom⟩]
    have hsc : SameCfg (s.cp g) { s.cp g with pmcIn := (s.cp g).pmcIn ++ [⟨.flush, 0, 0⟩] } :=
      ⟨rfl, rfl, rfl, rfl, rfl, rfl, rfl, rfl, rfl, rfl, rfl, rfl, rfl, rfl, rfl⟩
    generalize hs' : ({ s with back := upd s.back g (s.back g - 1), cp := upd s.cp g { s.cp g with pmcIn := (s.cp g).pmcIn ++ [⟨.flush, 0, 0⟩] } } : Sys) = s'
    have e0 : s'.drv = s.drv := by rw [← hs']
    have e1 : s'.cp = upd s.cp g { s.cp g with pmcIn := (s.cp g).pmcIn ++ [⟨.flush, 0, 0⟩] } := by rw [← hs']
    have e2 : s'.cm = s.cm := by rw [← hs']
    have e3 : s'.w = s.w := by rw [← hs']
    have e4 : s'.back = upd s.back g (s.back g - 1) := by rw [← hs']
    have hq : ∀ e, wq s' e = wq s e := fun e => wq_congr (fun g' => by rw [e1]; exact sameCfg_upd hsc g') (by rw [e0]) e
    have hgs2 := gsum_upd2 s s' g hg (by rw [e0]) (by rw [e0]) (fun x hx => by rw [e1]; exact upd_other _ _ _ _ hx)
      (fun _ _ => by rw [e2])
    rw [e1, e2, upd_same, gmeas_pmcIn] at hgs2
    have hR : R s' = R s := by unfold R; rw [e0]
    have hbk : s'.back 0 + s'.back 1 + 1 = s.back 0 + s.back 1 := by
      rw [e4]
      have : g = 0 ∨ g = 1 := by omega
      rcases this with rfl | rfl <;> simp [upd] <;> omega
    have hL : L s' + 1 = L s := by
      unfold L
      rw [drvL_eq s s' hq, drvL_eq s s (fun _ => rfl), e0, e3]
      omega
    have := lexLt_of hR (show L s' < L s by omega)
    exact ⟨this.le, fun _ => this⟩

theorem rank_pmcColl {s : Sys} (I : Inv s) (g : Nat) :
    LexLe (rank (step s (.pmcColl g))) (rank s) ∧
    (g < 2 → (s.w.sys.pmc g).ctlOut ≠ [] → LexLt (rank (step s (.pmcColl g))) (rank s)) := by
  by_cases hc : g < 2 ∧ (s.w.sys.pmc g).ctlOut ≠ []
  rotate_left
  · simp only [step]
    rw [if_neg hc]
    exact ⟨LexLe.refl _, fun a b => absurd ⟨a, b⟩ hc⟩
  · obtain ⟨hg2, hne⟩ := hc
    have hW := inv_wreach I
    -- exactly one request is live, and its completion is the one collected
    have hlive : ∃ ℓ, s.w.live = [ℓ] := by
      cases I.ph with
      | idle _ _ hw _ => exact absurd (d_ctlOut_nil hW hw.live g hg2) hne
      | bcast _ _ _ _ _ _ _ _ _ _ _ _ hw _ _ _ => exact absurd (d_ctlOut_nil hW hw.live g hg2) hne
      | mig r fl ws hh hc hr hct hmp hw hm hrh =>
        have := hw.live
        cases ws with
        | none => exact absurd (d_ctlOut_nil hW this g hg2) hne
        | back g' => exact absurd (d_ctlOut_nil hW this g hg2) hne
        | copying g' m => obtain ⟨ℓ, e, _⟩ := this; exact ⟨ℓ, e⟩
    obtain ⟨ℓ, hl⟩ := hlive
    obtain ⟨c, rest, hco⟩ : ∃ c rest, (s.w.sys.pmc g).ctlOut = c :: rest := by
      cases h : (s.w.sys.pmc g).ctlOut with
      | nil => exact absurd h hne
      | cons c rest => exact ⟨c, rest, rfl⟩
    obtain ⟨_, hl'⟩ := d_coll_live hW hl hg2 hco
    have hm := ((migration_progress hW).1 (.coll g) (by simp [Op.honest, hg2]) rfl).2
      (by simp [productive, hco])
    simp only [step]
    rw [if_pos ⟨hg2, hne⟩]
    generalize hs' : ({ s with w := s.w.step (.coll g), back := upd s.back g (s.back g + 1) } : Sys) = s'
    have e0 : s'.drv = s.drv := by rw [← hs']
    have e1 : s'.cp = s.cp := by rw [← hs']
    have e2 : s'.cm = s.cm := by rw [← hs']
    have e3 : s'.w = s.w.step (.coll g) := by rw [← hs']
    have e4 : s'.back = upd s.back g (s.back g + 1) := by rw [← hs']
    have hR : R s' = R s := by unfold R; rw [e0]
    have hbk : s'.back 0 + s'.back 1 = s.back 0 + s.back 1 + 1 := by
      rw [e4]
      have : g = 0 ∨ g = 1 := by omega
      rcases this with rfl | rfl <;> simp [upd] <;> omega
    have hL : L s' < L s := by
      have hg : gsum s' = gsum s := gsum_same _ _ (by rw [e0]) (by rw [e0]) e1 e2
      have hd : drvL s' = drvL s := by
        rw [drvL_eq s s' (fun e => wq_congr (fun g => by rw [e1]; exact SameCfg.refl _) (by rw [e0]) e),
          drvL_eq s s (fun _ => rfl), e0]
      unfold L
      rw [hg, hd, e3, hl', hl]
      simp only [List.length_nil, List.length_singleton]
      omega
    have := lexLt_of hR hL
    exact ⟨this.le, fun _ _ => this⟩

theorem rank_pmcTake {s : Sys} (I : Inv s) (g : Nat) :
    LexLe (rank (step s (.pmcTake g))) (rank s) ∧
    ((s.cp g).pmcOut ≠ [] → LexLt (rank (step s (.pmcTake g))) (rank s)) := by
  cases hpo : (s.cp g).pmcOut with
  | nil =>
    simp only [step, hpo]
    exact ⟨LexLe.refl _, fun x => absurd rfl x⟩
  | cons x rest =>
    -- the GPU is the one that serves the migrate command in flight
    have key : ∃ r m rq gq, MigOK s r m ∧ g = m.gpu ∧ GS (.mig m.id) .pmcOut rq gq (s.cp g) (s.cm g) := by
      cases I.ph with
      | idle _ hg _ _ => have := (idle_drvOut (hg g)).2.1; rw [hpo] at this; cases this
      | bcast p r σ loc hp hh hc hr hct htc hone hb hw hm hpg hrh =>
        by_cases e : g ∈ σ.atG
        · rcases busy_pmcOut (hb.busy g e) with ⟨h1, _⟩ | ⟨_, id, h2, _⟩
          · rw [hpo] at h1; cases h1
          · cases p <;> simp [cmdOf] at h2
            exact absurd rfl hp
        · have := (idle_drvOut (hb.idle g e)).2.1; rw [hpo] at this; cases this
      | mig r fl ws hh hc hr hct hmp hw hm hrh =>
        rcases d_mig_cases hmp g with hid | ⟨m, loc, rfl, rfl⟩
        · have := (idle_drvOut hid).2.1; rw [hpo] at this; cases this
        · have hgs := hmp.busy m loc rfl
          rcases busy_pmcOut hgs with ⟨h1, _⟩ | ⟨hloc, _⟩
          · rw [hpo] at h1; cases h1
          · subst hloc
            exact ⟨r, m, _, _, hmp.fly m _ rfl, rfl, hgs⟩
    obtain ⟨r, m, rq, gq, hok, rfl, hgs⟩ := key
    rcases busy_pmcOut hgs with ⟨h1, _⟩ | ⟨_, id, hid, hpo2, _⟩
    · rw [hpo] at h1; cases h1
    · rw [hpo] at hpo2
      injection hpo2 with e1 e2
      injection hid with hid
      subst hid; subst e1; subst e2
      have hlog := hok.log
      have hg2 := hok.gpu
      have hg : m.gpu < s.drv.ngpu := by have := I.ng.1; omega
      simp only [step, hpo, hlog, if_pos hg2]
      generalize hs' : ({ s with cp := upd s.cp m.gpu { s.cp m.gpu with pmcOut := [] }, w := s.w.step (.submit m.gpu m.rd m.wr m.size m.peer) } : Sys) = s'
      have e0 : s'.drv = s.drv := by rw [← hs']
      have e1 : s'.cp = upd s.cp m.gpu { s.cp m.gpu with pmcOut := [] } := by rw [← hs']
      have e2 : s'.cm = s.cm := by rw [← hs']
      have e3 : s'.w = s.w.step (.submit m.gpu m.rd m.wr m.size m.peer) := by rw [← hs']
      have e4 : s'.back = s.back := by rw [← hs']
      have hsc : SameCfg (s.cp m.gpu) { s.cp m.gpu with pmcOut := [] } :=
        ⟨rfl, rfl, rfl, rfl, rfl, rfl, rfl, rfl, rfl, rfl, rfl, rfl, rfl, rfl, rfl⟩
      have hq : ∀ e, wq s' e = wq s e :=
        fun e => wq_congr (fun g' => by rw [e1]; exact sameCfg_upd hsc g') (by rw [e0]) e
      have hgs2 := gsum_upd2 s s' m.gpu hg (by rw [e0]) (by rw [e0])
        (fun x hx => by rw [e1]; exact upd_other _ _ _ _ hx) (fun _ _ => by rw [e2])
      have e5 : s'.cp m.gpu = { s.cp m.gpu with pmcOut := [] } := by rw [e1, upd_same]
      have hwm : wmOf s.drv m.id = 24 * (m.size / unit) + 13 := by
        unfold wmOf; rw [hlog]
      have hm2 : gmeas (wmOf s.drv) (s'.cp m.gpu) (s'.cm m.gpu) + (24 * (m.size / unit) + 13) =
          gmeas (wmOf s.drv) (s.cp m.gpu) (s.cm m.gpu) := by
        rw [e5, e2, ← hwm]
        exact gmeas_pmcOut (wmOf s.drv) (s.cp m.gpu) (s.cm m.gpu) ⟨.flush, 0, m.id⟩ [] hpo
      have hR : R s' = R s := by unfold R; rw [e0]
      have hms : measure s'.w.sys = measure s.w.sys + (24 * (m.size / unit) + 7) := by
        rw [e3, World.step_sys]; exact measure_submit _ _ _ _ _ _
      have hlv : s'.w.live.length = s.w.live.length + 1 := by
        rw [e3, d_live_submit]; simp
      have hL : L s' + 1 = L s := by
        unfold L
        rw [drvL_eq s s' hq, drvL_eq s s (fun _ => rfl), e0, hms, hlv, e4]
        omega
      have := lexLt_of hR (show L s' < L s by omega)
      exact ⟨this.le, fun _ => this⟩

end SY
end C19
