import MgpuProofs.C07Cells
set_option linter.unusedSimpArgs false
/-! # C07 helper lemmas: the emulator's store refines the flat cells -/
namespace C07
open Gen

/-! ## facts about `insts.Regs` (regenerated table) -/

theorem byteSize_sv : ∀ r < 360, 2 ≤ r → byteSize r = 4 := by decide +kernel

theorem cnt_pos (rc : Nat) : 1 ≤ cnt rc := by unfold cnt; split <;> omega
theorem cnt_le (rc : Nat) (h : rc ≤ 16) : cnt rc ≤ 16 := by unfold cnt; split <;> omega

theorem isSReg_s (i : Nat) (h : i < 102) : isSReg (R_S0 + i) = true := by
  unfold isSReg; simp only [R_S0, R_S101, Bool.and_eq_true]
  constructor <;> (apply decide_eq_true; omega)
theorem isVReg_s (i : Nat) : isVReg (R_S0 + i) = false := by
  unfold isVReg; rw [Bool.and_eq_false_iff]; right
  simp only [R_S0, R_V255]; apply decide_eq_false; omega
theorem isSReg_v (i : Nat) (h : i < 256) : isSReg (R_V0 + i) = false := by
  unfold isSReg; rw [Bool.and_eq_false_iff]; left
  simp only [R_S0, R_V0]; apply decide_eq_false; omega
theorem isVReg_v (i : Nat) (h : i < 256) : isVReg (R_V0 + i) = true := by
  unfold isVReg; simp only [R_V0, R_V255, Bool.and_eq_true]
  constructor <;> (apply decide_eq_true; omega)
theorem regIndex_s (i : Nat) (h : i < 102) : regIndex (R_S0 + i) = i := by
  simp [regIndex, isSReg_s i h]
theorem regIndex_v (i : Nat) (h : i < 256) : regIndex (R_V0 + i) = i := by
  simp [regIndex, isSReg_v i h]
theorem byteSize_s (i : Nat) (h : i < 102) : byteSize (R_S0 + i) = 4 :=
  byteSize_sv _ (by simp only [R_S0]; omega) (by simp only [R_S0]; omega)
theorem byteSize_v (i : Nat) (h : i < 256) : byteSize (R_V0 + i) = 4 :=
  byteSize_sv _ (by simp only [R_V0]; omega) (by simp only [R_V0]; omega)

theorem numBytes_of4 (r rc : Nat) (h : byteSize r = 4) : numBytes r rc = 4 * cnt rc := by
  unfold numBytes cnt; rw [h]; split <;> split <;> omega

theorem s_not_special (i : Nat) (h : i < 102) :
    (R_S0 + i == R_SCC) = false ∧ (R_S0 + i == R_VCC) = false ∧ (R_S0 + i == R_VCCLO) = false ∧
    (R_S0 + i == R_VCCHI) = false ∧ (R_S0 + i == R_EXEC) = false ∧ (R_S0 + i == R_EXECLO) = false ∧
    (R_S0 + i == R_EXECHI) = false ∧ (R_S0 + i == R_M0) = false := by
  simp [R_S0, R_SCC, R_VCC, R_VCCLO, R_VCCHI, R_EXEC, R_EXECLO, R_EXECHI, R_M0]; omega

theorem v_not_special (i : Nat) (h : i < 256) :
    (R_V0 + i == R_SCC) = false ∧ (R_V0 + i == R_VCC) = false ∧ (R_V0 + i == R_VCCLO) = false ∧
    (R_V0 + i == R_VCCHI) = false ∧ (R_V0 + i == R_EXEC) = false ∧ (R_V0 + i == R_EXECLO) = false ∧
    (R_V0 + i == R_EXECHI) = false ∧ (R_V0 + i == R_M0) = false := by
  simp [R_V0, R_SCC, R_VCC, R_VCCLO, R_VCCHI, R_EXEC, R_EXECLO, R_EXECHI, R_M0]; omega

theorem take_rd (f : File) (p m n : Nat) (h : m ≤ n) : (rd f p n).take m = rd f p m := by
  obtain ⟨d, rfl⟩ := Nat.exists_eq_add_of_le h
  rw [rd_add, List.take_left' (rd_length _ _ _)]

theorem regsBytes_length (g : Nat → Nat) (i k : Nat) : (regsBytes g i k).length = 4 * k := by
  induction k with
  | zero => rfl
  | succ k ih =>
    unfold regsBytes at *
    rw [List.range_succ, List.flatMap_append, List.length_append, ih]; simp; omega

theorem leNat_lo (v : UInt64) : leNat (toLE 4 (lo32 v)) = lo32 v := by
  rw [leNat_toLE]; exact Nat.mod_eq_of_lt (lo32_lt v)
theorem leNat_hi (v : UInt64) : leNat (toLE 4 (hi32 v)) = hi32 v := by
  rw [leNat_toLE]; exact Nat.mod_eq_of_lt (hi32_lt v)
theorem leNat_pair (v : UInt64) : leNat (toLE 4 (lo32 v) ++ toLE 4 (hi32 v)) = v.toNat := by
  rw [← toLE8_eq, leNat_toLE]; exact Nat.mod_eq_of_lt v.toNat_lt

theorem toLE4_lo (v : UInt64) : toLE 4 v.toNat = toLE 4 (lo32 v) := by
  rw [← take_toLE 4 8 v.toNat (by omega), toLE8_eq, List.take_left' (toLE_length _ _)]

theorem copy4_of8 (v : UInt64) : copyInto 4 (toLE 8 v.toNat) = toLE 4 (lo32 v) := by
  simp only [copyInto, toLE_length, take_toLE 4 8 _ (by omega : 4 ≤ 8), toLE4_lo]
  simp [zeros]

theorem copy4_pair (a b : Nat) : copyInto 4 (toLE 4 a ++ toLE 4 b) = toLE 4 a := by
  simp [copyInto, List.take_left' (toLE_length 4 a), zeros]

theorem bs_scc : byteSize 368 = 1 := by decide +kernel
theorem bs_m0 : byteSize 377 = 4 := by decide +kernel
theorem bs_vcc : byteSize 364 = 8 := by decide +kernel
theorem bs_vcclo : byteSize 365 = 4 := by decide +kernel
theorem bs_vcchi : byteSize 366 = 4 := by decide +kernel
theorem bs_exec : byteSize 360 = 8 := by decide +kernel
theorem bs_execlo : byteSize 361 = 4 := by decide +kernel
theorem bs_exechi : byteSize 362 = 4 := by decide +kernel
theorem nS_scc : isSReg 368 = false := by decide
theorem nV_scc : isVReg 368 = false := by decide
theorem nS_m0 : isSReg 377 = false := by decide
theorem nV_m0 : isVReg 377 = false := by decide
theorem nS_vcc : isSReg 364 = false := by decide
theorem nV_vcc : isVReg 364 = false := by decide
theorem nS_vcclo : isSReg 365 = false := by decide
theorem nV_vcclo : isVReg 365 = false := by decide
theorem nS_vcchi : isSReg 366 = false := by decide
theorem nV_vcchi : isVReg 366 = false := by decide
theorem nS_exec : isSReg 360 = false := by decide
theorem nV_exec : isVReg 360 = false := by decide
theorem nS_execlo : isSReg 361 = false := by decide
theorem nV_execlo : isVReg 361 = false := by decide
theorem nS_exechi : isSReg 362 = false := by decide
theorem nV_exechi : isVReg 362 = false := by decide

theorem numBytes_le1 (r rc : Nat) (h : rc ≤ 1) : numBytes r rc = byteSize r := by
  unfold numBytes; rw [if_neg (by omega)]

/-! ## abstraction -/

/-- the flat cells an emulator store holds -/
def absE (e : EmuRF) : Cells :=
  { s := winCells e.sfile 0 102, v := laneCells e.vfile 0 256,
    vcc := e.vcc, exec := e.exec, scc := e.scc, m0 := e.m0 }

/-- the file sizes `NewWavefront` allocates (no operation changes them) -/
def EmuRF.Sized (e : EmuRF) : Prop := e.sfile.size = 408 ∧ e.vfile.size = 65536

theorem take_or (l : List UInt8) (n : Nat) : (if l.length > n then l.take n else l) = l.take n := by
  split
  · rfl
  · rw [List.take_of_length_le (by omega)]

/-- `ReadReg` returns exactly the bytes of the cells the access denotes -/
theorem emu_readReg (e : EmuRF) (a : Acc) (hs : e.Sized) (ha : a.Supported 102 256) :
    e.readReg a.k.reg a.rc a.lane = .ok ((absE e).readBytes a) := by
  obtain ⟨k, rc, lane⟩ := a
  obtain ⟨hs1, hs2⟩ := hs
  cases k with
  | s i =>
    obtain ⟨h1, h2⟩ := ha
    have hc := cnt_pos rc
    have hc2 := cnt_le rc h1
    have hi : i < 102 := by simp only at h2; omega
    simp only [Kind.reg, EmuRF.readReg, numBytes_of4 _ rc (byteSize_s i hi), isSReg_s i hi, regIndex_s i hi,
      Cells.readBytes, absE, ↓reduceIte]
    simp only at h2
    rw [if_neg (by omega), if_pos (by omega)]
    rw [show i * 4 = 0 + 4 * i by omega, rd_window _ 0 102 i _ h2]
  | v i =>
    obtain ⟨h1, h2, h3⟩ := ha
    have hc := cnt_pos rc
    have hc2 := cnt_le rc h1
    simp only at h2 h3
    have hi : i < 256 := by omega
    simp only [Kind.reg, EmuRF.readReg, numBytes_of4 _ rc (byteSize_v i hi), isSReg_v i hi, isVReg_v i hi,
      regIndex_v i hi, Cells.readBytes, absE, laneCells, h3, Bool.false_eq_true, ↓reduceIte]
    rw [if_neg (by omega), if_pos (by omega)]
    rw [show lane * 256 * 4 + i * 4 = (0 + 1024 * lane) + 4 * i by omega, rd_window _ _ 256 i _ h2]
  | scc =>
    have hrc : rc ≤ 1 := ha
    have hnb : ∀ r, numBytes r rc = byteSize r := fun r => numBytes_le1 r rc hrc
    simp [hnb, hrc, Kind.reg, EmuRF.readReg, R_SCC, R_VCC, R_VCCLO, R_VCCHI, R_EXEC, R_EXECLO, R_EXECHI, R_M0, bs_scc, bs_m0, bs_vcc, bs_vcclo, bs_vcchi, bs_exec, bs_execlo, bs_exechi, nS_scc, nV_scc, Cells.readBytes, absE, zeros, copyInto_of_length, toLE8_eq, copy4_pair]
  | m0 =>
    have hrc : rc ≤ 1 := ha
    have hnb : ∀ r, numBytes r rc = byteSize r := fun r => numBytes_le1 r rc hrc
    simp [hnb, hrc, Kind.reg, EmuRF.readReg, R_SCC, R_VCC, R_VCCLO, R_VCCHI, R_EXEC, R_EXECLO, R_EXECHI, R_M0, bs_scc, bs_m0, bs_vcc, bs_vcclo, bs_vcchi, bs_exec, bs_execlo, bs_exechi, nS_m0, nV_m0, Cells.readBytes, absE, zeros, copyInto_of_length, toLE8_eq, copy4_pair]
  | vcc =>
    have hrc : rc ≤ 1 := ha
    have hnb : ∀ r, numBytes r rc = byteSize r := fun r => numBytes_le1 r rc hrc
    simp [hnb, hrc, Kind.reg, EmuRF.readReg, R_SCC, R_VCC, R_VCCLO, R_VCCHI, R_EXEC, R_EXECLO, R_EXECHI, R_M0, bs_scc, bs_m0, bs_vcc, bs_vcclo, bs_vcchi, bs_exec, bs_execlo, bs_exechi, nS_vcc, nV_vcc, Cells.readBytes, absE, zeros, copyInto_of_length, toLE8_eq, copy4_pair]
  | vcclo =>
    have hrc : rc = 0 ∨ rc = 1 ∨ rc = 2 := by have : rc ≤ 2 := ha; omega
    rcases hrc with rfl | rfl | rfl <;>
    simp [numBytes, Kind.reg, EmuRF.readReg, R_SCC, R_VCC, R_VCCLO, R_VCCHI, R_EXEC, R_EXECLO, R_EXECHI, R_M0, bs_scc, bs_m0, bs_vcc, bs_vcclo, bs_vcchi, bs_exec, bs_execlo, bs_exechi, nS_vcclo, nV_vcclo, Cells.readBytes, absE, zeros, copyInto_of_length, toLE8_eq, copy4_pair]
  | vcchi =>
    have hrc : rc ≤ 1 := ha
    have hnb : ∀ r, numBytes r rc = byteSize r := fun r => numBytes_le1 r rc hrc
    simp [hnb, hrc, Kind.reg, EmuRF.readReg, R_SCC, R_VCC, R_VCCLO, R_VCCHI, R_EXEC, R_EXECLO, R_EXECHI, R_M0, bs_scc, bs_m0, bs_vcc, bs_vcclo, bs_vcchi, bs_exec, bs_execlo, bs_exechi, nS_vcchi, nV_vcchi, Cells.readBytes, absE, zeros, copyInto_of_length, toLE8_eq, copy4_pair]
  | exec =>
    have hrc : rc ≤ 1 := ha
    have hnb : ∀ r, numBytes r rc = byteSize r := fun r => numBytes_le1 r rc hrc
    simp [hnb, hrc, Kind.reg, EmuRF.readReg, R_SCC, R_VCC, R_VCCLO, R_VCCHI, R_EXEC, R_EXECLO, R_EXECHI, R_M0, bs_scc, bs_m0, bs_vcc, bs_vcclo, bs_vcchi, bs_exec, bs_execlo, bs_exechi, nS_exec, nV_exec, Cells.readBytes, absE, zeros, copyInto_of_length, toLE8_eq, copy4_pair]
  | execlo =>
    have hrc : rc = 0 ∨ rc = 1 ∨ rc = 2 := by have : rc ≤ 2 := ha; omega
    rcases hrc with rfl | rfl | rfl <;>
    simp [numBytes, Kind.reg, EmuRF.readReg, R_SCC, R_VCC, R_VCCLO, R_VCCHI, R_EXEC, R_EXECLO, R_EXECHI, R_M0, bs_scc, bs_m0, bs_vcc, bs_vcclo, bs_vcchi, bs_exec, bs_execlo, bs_exechi, nS_execlo, nV_execlo, Cells.readBytes, absE, zeros, copyInto_of_length, toLE8_eq, copy4_pair]
  | exechi =>
    have hrc : rc ≤ 1 := ha
    have hnb : ∀ r, numBytes r rc = byteSize r := fun r => numBytes_le1 r rc hrc
    simp [hnb, hrc, Kind.reg, EmuRF.readReg, R_SCC, R_VCC, R_VCCLO, R_VCCHI, R_EXEC, R_EXECLO, R_EXECHI, R_M0, bs_scc, bs_m0, bs_vcc, bs_vcclo, bs_vcchi, bs_exec, bs_execlo, bs_exechi, nS_exechi, nV_exechi, Cells.readBytes, absE, zeros, copyInto_of_length, toLE8_eq, copy4_pair]

theorem sum_const4 (k : Nat) : (List.map (fun _ : Nat => 4) (List.range k)).sum = 4 * k := by
  induction k with
  | zero => rfl
  | succ k ih => rw [List.range_succ, List.map_append, List.sum_append, ih]; simp; omega

theorem width_s (i rc lane : Nat) : Acc.width ⟨.s i, rc, lane⟩ = 4 * cnt rc := by
  simp only [Acc.width, Acc.cells, List.map_map]
  exact sum_const4 _

theorem width_v (i rc lane : Nat) : Acc.width ⟨.v i, rc, lane⟩ = 4 * cnt rc := by
  simp only [Acc.width, Acc.cells, List.map_map]
  exact sum_const4 _

theorem take_len {α : Type} (l : List α) (n : Nat) (h : l.length = n) : l.take n = l := by
  subst h; exact List.take_length

/-- `WriteReg` with data of the operand's width succeeds and replaces exactly the denoted cells -/
theorem emu_writeReg (e : EmuRF) (a : Acc) (d : List UInt8) (hs : e.Sized) (ha : a.Supported 102 256)
    (hd : d.length = a.width) :
    (e.writeReg a.k.reg a.rc a.lane d).2 = none ∧
    absE (e.writeReg a.k.reg a.rc a.lane d).1 = (absE e).writeBytes a d ∧
    (e.writeReg a.k.reg a.rc a.lane d).1.Sized := by
  obtain ⟨k, rc, lane⟩ := a
  obtain ⟨hs1, hs2⟩ := hs
  cases k with
  | s i =>
    obtain ⟨h1, h2⟩ := ha
    have hc := cnt_pos rc
    have hc2 := cnt_le rc h1
    simp only at h2
    have hi : i < 102 := by omega
    rw [width_s] at hd
    simp only [Kind.reg, EmuRF.writeReg, numBytes_of4 _ rc (byteSize_s i hi), isSReg_s i hi, regIndex_s i hi,
      ↓reduceIte]
    rw [if_pos (by omega), take_len d _ hd]
    refine ⟨rfl, ?_, ?_⟩
    · simp only [absE, Cells.writeBytes]
      rw [show i * 4 = 0 + 4 * i by omega, win_wr _ 0 102 i _ d h2 hd (by omega)]
    · exact ⟨by simp [hs1], hs2⟩
  | v i =>
    obtain ⟨h1, h2, h3⟩ := ha
    have hc := cnt_pos rc
    have hc2 := cnt_le rc h1
    simp only at h2 h3
    have hi : i < 256 := by omega
    rw [width_v] at hd
    simp only [Kind.reg, EmuRF.writeReg, numBytes_of4 _ rc (byteSize_v i hi), isSReg_v i hi, isVReg_v i hi,
      regIndex_v i hi, Bool.false_eq_true, ↓reduceIte]
    rw [if_pos (by omega), take_len d _ hd]
    refine ⟨rfl, ?_, ?_⟩
    · simp only [absE, Cells.writeBytes]
      rw [show lane * 256 * 4 + i * 4 = 0 + 1024 * lane + 4 * i by omega,
        lane_wr _ 0 256 lane i _ d h3 h2 hd (by omega) (by omega)]
    · exact ⟨hs1, by simp [hs2]⟩
  | scc =>
    have hrc : rc ≤ 1 := ha
    simp [Acc.width, Acc.cells, CellId.bytes] at hd
    obtain ⟨b, rfl⟩ : ∃ b, d = [b] := by
      match d, hd with
      | [b], _ => exact ⟨b, rfl⟩
    simp [hrc, Kind.reg, EmuRF.writeReg, R_SCC, R_VCC, R_VCCLO, R_VCCHI, R_EXEC, R_EXECLO, R_EXECHI, R_M0, bs_scc, bs_m0, bs_vcc, bs_vcclo, bs_vcchi, bs_exec, bs_execlo, bs_exechi, nS_scc, nV_scc, Cells.writeBytes, absE, u32, u64, EmuRF.Sized, hs1, hs2]
    all_goals first
      | (rw [take_len d 4 hd] <;> first | rfl | exact setLo_eq _ _ (leNat4_lt d hd) | exact setHi_eq _ _ (leNat4_lt d hd))
      | (rw [take_len d 8 hd]; exact ofNat_leNat8 d hd)
  | m0 =>
    have hrc : rc ≤ 1 := ha
    simp [Acc.width, Acc.cells, CellId.bytes] at hd
    simp [hrc, hd, Kind.reg, EmuRF.writeReg, R_SCC, R_VCC, R_VCCLO, R_VCCHI, R_EXEC, R_EXECLO, R_EXECHI, R_M0, bs_scc, bs_m0, bs_vcc, bs_vcclo, bs_vcchi, bs_exec, bs_execlo, bs_exechi, nS_m0, nV_m0, Cells.writeBytes, absE, u32, u64, EmuRF.Sized, hs1, hs2]
    all_goals first
      | (rw [take_len d 4 hd] <;> first | rfl | exact setLo_eq _ _ (leNat4_lt d hd) | exact setHi_eq _ _ (leNat4_lt d hd))
      | (rw [take_len d 8 hd]; exact ofNat_leNat8 d hd)
  | vcc =>
    have hrc : rc ≤ 1 := ha
    simp [Acc.width, Acc.cells, CellId.bytes] at hd
    simp [hrc, hd, Kind.reg, EmuRF.writeReg, R_SCC, R_VCC, R_VCCLO, R_VCCHI, R_EXEC, R_EXECLO, R_EXECHI, R_M0, bs_scc, bs_m0, bs_vcc, bs_vcclo, bs_vcchi, bs_exec, bs_execlo, bs_exechi, nS_vcc, nV_vcc, Cells.writeBytes, absE, u32, u64, EmuRF.Sized, hs1, hs2]
    all_goals first
      | (rw [take_len d 4 hd] <;> first | rfl | exact setLo_eq _ _ (leNat4_lt d hd) | exact setHi_eq _ _ (leNat4_lt d hd))
      | (rw [take_len d 8 hd]; exact ofNat_leNat8 d hd)
  | vcclo =>
    have hrc : rc = 0 ∨ rc = 1 ∨ rc = 2 := by have : rc ≤ 2 := ha; omega
    rcases hrc with rfl | rfl | rfl <;> simp [Acc.width, Acc.cells, CellId.bytes] at hd <;>
    simp [numBytes, hd, Kind.reg, EmuRF.writeReg, R_SCC, R_VCC, R_VCCLO, R_VCCHI, R_EXEC, R_EXECLO, R_EXECHI, R_M0, bs_scc, bs_m0, bs_vcc, bs_vcclo, bs_vcchi, bs_exec, bs_execlo, bs_exechi, nS_vcclo, nV_vcclo, Cells.writeBytes, absE, u32, u64, EmuRF.Sized, hs1, hs2]
    all_goals first
      | (rw [take_len d 4 hd] <;> first | rfl | exact setLo_eq _ _ (leNat4_lt d hd) | exact setHi_eq _ _ (leNat4_lt d hd))
      | (rw [take_len d 8 hd]; exact ofNat_leNat8 d hd)
  | vcchi =>
    have hrc : rc ≤ 1 := ha
    simp [Acc.width, Acc.cells, CellId.bytes] at hd
    simp [hrc, hd, Kind.reg, EmuRF.writeReg, R_SCC, R_VCC, R_VCCLO, R_VCCHI, R_EXEC, R_EXECLO, R_EXECHI, R_M0, bs_scc, bs_m0, bs_vcc, bs_vcclo, bs_vcchi, bs_exec, bs_execlo, bs_exechi, nS_vcchi, nV_vcchi, Cells.writeBytes, absE, u32, u64, EmuRF.Sized, hs1, hs2]
    all_goals first
      | (rw [take_len d 4 hd] <;> first | rfl | exact setLo_eq _ _ (leNat4_lt d hd) | exact setHi_eq _ _ (leNat4_lt d hd))
      | (rw [take_len d 8 hd]; exact ofNat_leNat8 d hd)
  | exec =>
    have hrc : rc ≤ 1 := ha
    simp [Acc.width, Acc.cells, CellId.bytes] at hd
    simp [hrc, hd, Kind.reg, EmuRF.writeReg, R_SCC, R_VCC, R_VCCLO, R_VCCHI, R_EXEC, R_EXECLO, R_EXECHI, R_M0, bs_scc, bs_m0, bs_vcc, bs_vcclo, bs_vcchi, bs_exec, bs_execlo, bs_exechi, nS_exec, nV_exec, Cells.writeBytes, absE, u32, u64, EmuRF.Sized, hs1, hs2]
    all_goals first
      | (rw [take_len d 4 hd] <;> first | rfl | exact setLo_eq _ _ (leNat4_lt d hd) | exact setHi_eq _ _ (leNat4_lt d hd))
      | (rw [take_len d 8 hd]; exact ofNat_leNat8 d hd)
  | execlo =>
    have hrc : rc = 0 ∨ rc = 1 ∨ rc = 2 := by have : rc ≤ 2 := ha; omega
    rcases hrc with rfl | rfl | rfl <;> simp [Acc.width, Acc.cells, CellId.bytes] at hd <;>
    simp [numBytes, hd, Kind.reg, EmuRF.writeReg, R_SCC, R_VCC, R_VCCLO, R_VCCHI, R_EXEC, R_EXECLO, R_EXECHI, R_M0, bs_scc, bs_m0, bs_vcc, bs_vcclo, bs_vcchi, bs_exec, bs_execlo, bs_exechi, nS_execlo, nV_execlo, Cells.writeBytes, absE, u32, u64, EmuRF.Sized, hs1, hs2]
    all_goals first
      | (rw [take_len d 4 hd] <;> first | rfl | exact setLo_eq _ _ (leNat4_lt d hd) | exact setHi_eq _ _ (leNat4_lt d hd))
      | (rw [take_len d 8 hd]; exact ofNat_leNat8 d hd)
  | exechi =>
    have hrc : rc ≤ 1 := ha
    simp [Acc.width, Acc.cells, CellId.bytes] at hd
    simp [hrc, hd, Kind.reg, EmuRF.writeReg, R_SCC, R_VCC, R_VCCLO, R_VCCHI, R_EXEC, R_EXECLO, R_EXECHI, R_M0, bs_scc, bs_m0, bs_vcc, bs_vcclo, bs_vcchi, bs_exec, bs_execlo, bs_exechi, nS_exechi, nV_exechi, Cells.writeBytes, absE, u32, u64, EmuRF.Sized, hs1, hs2]
    all_goals first
      | (rw [take_len d 4 hd] <;> first | rfl | exact setLo_eq _ _ (leNat4_lt d hd) | exact setHi_eq _ _ (leNat4_lt d hd))
      | (rw [take_len d 8 hd]; exact ofNat_leNat8 d hd)

theorem take8_short (l : List UInt8) (h : l.length ≤ 8) : l.take 8 = l := List.take_of_length_le h

theorem leNat_m0 (m : UInt32) : leNat (toLE 4 m.toNat) = m.toNat := by
  rw [leNat_toLE]; exact Nat.mod_eq_of_lt m.toNat_lt

/-- `ReadOperand` returns the first 64 bits of the denoted cells -/
theorem emu_readOperand (e : EmuRF) (a : Acc) (hs : e.Sized) (ha : a.Supported 102 256) :
    e.readOperand a.k.reg a.rc a.lane = .ok ((absE e).read a) := by
  obtain ⟨k, rc, lane⟩ := a
  obtain ⟨hs1, hs2⟩ := hs
  cases k with
  | s i =>
    obtain ⟨h1, h2⟩ := ha
    have hc := cnt_pos rc
    simp only at h2
    have hi : i < 102 := by omega
    simp only [Kind.reg, EmuRF.readOperand, EmuRF.readRegOperand, isVReg_s, isSReg_s i hi, regIndex_s i hi,
      byteSize_s i hi, EmuRF.readFromRegFile, Cells.read, Cells.readBytes, absE, Bool.false_eq_true, ↓reduceIte]
    rw [← rd_window _ 0 102 i _ h2]
    by_cases hrc : rc ≥ 2
    · have : cnt rc = rc := by unfold cnt; rw [if_neg (by omega)]
      rw [this] at h2 ⊢
      rw [if_pos hrc, if_neg (by simp; omega), if_pos (by omega), take_rd _ _ 8 _ (by omega)]
      congr 3; omega
    · have : cnt rc = 1 := by unfold cnt; split <;> omega
      rw [this]
      rw [if_neg hrc, if_pos (by decide), if_pos (by omega), take8_short _ (by simp)]
      congr 3; omega
  | v i =>
    obtain ⟨h1, h2, h3⟩ := ha
    have hc := cnt_pos rc
    simp only at h2 h3
    have hi : i < 256 := by omega
    simp only [Kind.reg, EmuRF.readOperand, EmuRF.readRegOperand, isVReg_v i hi, regIndex_v i hi,
      byteSize_v i hi, EmuRF.readFromRegFile, Cells.read, Cells.readBytes, absE, laneCells, h3, ↓reduceIte]
    rw [← rd_window _ (0 + 1024 * lane) 256 i _ h2]
    by_cases hrc : rc ≥ 2
    · have : cnt rc = rc := by unfold cnt; rw [if_neg (by omega)]
      rw [this] at h2 ⊢
      rw [if_pos hrc, if_neg (by simp; omega), if_pos (by omega), take_rd _ _ 8 _ (by omega)]
      congr 3; omega
    · have : cnt rc = 1 := by unfold cnt; split <;> omega
      rw [this]
      rw [if_neg hrc, if_pos (by decide), if_pos (by omega), take8_short _ (by simp)]
      congr 3; omega
  | scc =>
    have hrc : rc ≤ 1 := ha
    simp [hrc, Kind.reg, EmuRF.readOperand, EmuRF.readRegOperand, R_SCC, R_VCC, R_VCCLO, R_VCCHI, R_EXEC, R_EXECLO, R_EXECHI, R_M0, nS_scc, nV_scc, Cells.read, Cells.readBytes, absE, take8_short, leNat_lo, leNat_hi, leNat_pair, leNat_m0, leNat]
  | m0 =>
    have hrc : rc ≤ 1 := ha
    simp [hrc, Kind.reg, EmuRF.readOperand, EmuRF.readRegOperand, R_SCC, R_VCC, R_VCCLO, R_VCCHI, R_EXEC, R_EXECLO, R_EXECHI, R_M0, nS_m0, nV_m0, Cells.read, Cells.readBytes, absE, take8_short, leNat_lo, leNat_hi, leNat_pair, leNat_m0, leNat]
  | vcc =>
    have hrc : rc ≤ 1 := ha
    simp [hrc, Kind.reg, EmuRF.readOperand, EmuRF.readRegOperand, R_SCC, R_VCC, R_VCCLO, R_VCCHI, R_EXEC, R_EXECLO, R_EXECHI, R_M0, nS_vcc, nV_vcc, Cells.read, Cells.readBytes, absE, take8_short, leNat_lo, leNat_hi, leNat_pair, leNat_m0, leNat]
  | vcclo =>
    have hrc : rc = 0 ∨ rc = 1 ∨ rc = 2 := by have : rc ≤ 2 := ha; omega
    rcases hrc with rfl | rfl | rfl <;> simp [Kind.reg, EmuRF.readOperand, EmuRF.readRegOperand, R_SCC, R_VCC, R_VCCLO, R_VCCHI, R_EXEC, R_EXECLO, R_EXECHI, R_M0, nS_vcclo, nV_vcclo, Cells.read, Cells.readBytes, absE, take8_short, leNat_lo, leNat_hi, leNat_pair, leNat_m0, leNat]
  | vcchi =>
    have hrc : rc ≤ 1 := ha
    simp [hrc, Kind.reg, EmuRF.readOperand, EmuRF.readRegOperand, R_SCC, R_VCC, R_VCCLO, R_VCCHI, R_EXEC, R_EXECLO, R_EXECHI, R_M0, nS_vcchi, nV_vcchi, Cells.read, Cells.readBytes, absE, take8_short, leNat_lo, leNat_hi, leNat_pair, leNat_m0, leNat]
  | exec =>
    have hrc : rc ≤ 1 := ha
    simp [hrc, Kind.reg, EmuRF.readOperand, EmuRF.readRegOperand, R_SCC, R_VCC, R_VCCLO, R_VCCHI, R_EXEC, R_EXECLO, R_EXECHI, R_M0, nS_exec, nV_exec, Cells.read, Cells.readBytes, absE, take8_short, leNat_lo, leNat_hi, leNat_pair, leNat_m0, leNat]
  | execlo =>
    have hrc : rc = 0 ∨ rc = 1 ∨ rc = 2 := by have : rc ≤ 2 := ha; omega
    rcases hrc with rfl | rfl | rfl <;> simp [Kind.reg, EmuRF.readOperand, EmuRF.readRegOperand, R_SCC, R_VCC, R_VCCLO, R_VCCHI, R_EXEC, R_EXECLO, R_EXECHI, R_M0, nS_execlo, nV_execlo, Cells.read, Cells.readBytes, absE, take8_short, leNat_lo, leNat_hi, leNat_pair, leNat_m0, leNat]
  | exechi =>
    have hrc : rc ≤ 1 := ha
    simp [hrc, Kind.reg, EmuRF.readOperand, EmuRF.readRegOperand, R_SCC, R_VCC, R_VCCLO, R_VCCHI, R_EXEC, R_EXECLO, R_EXECHI, R_M0, nS_exechi, nV_exechi, Cells.read, Cells.readBytes, absE, take8_short, leNat_lo, leNat_hi, leNat_pair, leNat_m0, leNat]

/-- `numBytes` of a supported access is the width of the cells it denotes -/
theorem numBytes_width (a : Acc) (ns nv : Nat) (hns : ns ≤ 102) (hnv : nv ≤ 256) (ha : a.Supported ns nv) :
    numBytes a.k.reg a.rc = a.width := by
  obtain ⟨k, rc, lane⟩ := a
  cases k with
  | s i =>
    have hc := cnt_pos rc
    obtain ⟨h1, h2⟩ := ha
    simp only at h2
    rw [width_s, Kind.reg, numBytes_of4 _ _ (byteSize_s i (by omega))]
  | v i =>
    have hc := cnt_pos rc
    obtain ⟨h1, h2, h3⟩ := ha
    simp only at h2
    rw [width_v, Kind.reg, numBytes_of4 _ _ (byteSize_v i (by omega))]
  | vcclo =>
    have hrc : rc = 0 ∨ rc = 1 ∨ rc = 2 := by have : rc ≤ 2 := ha; omega
    rcases hrc with rfl | rfl | rfl <;> simp [numBytes, Kind.reg, R_SCC, R_VCC, R_VCCLO, R_VCCHI, R_EXEC, R_EXECLO, R_EXECHI, R_M0, bs_scc, bs_m0, bs_vcc, bs_vcclo, bs_vcchi, bs_exec, bs_execlo, bs_exechi, Acc.width, Acc.cells, CellId.bytes]
  | execlo =>
    have hrc : rc = 0 ∨ rc = 1 ∨ rc = 2 := by have : rc ≤ 2 := ha; omega
    rcases hrc with rfl | rfl | rfl <;> simp [numBytes, Kind.reg, R_SCC, R_VCC, R_VCCLO, R_VCCHI, R_EXEC, R_EXECLO, R_EXECHI, R_M0, bs_scc, bs_m0, bs_vcc, bs_vcclo, bs_vcchi, bs_exec, bs_execlo, bs_exechi, Acc.width, Acc.cells, CellId.bytes]
  | scc | m0 | vcc | vcchi | exec | exechi =>
    have hrc : rc ≤ 1 := ha
    simp [numBytes_le1 _ _ hrc, Kind.reg, R_SCC, R_VCC, R_VCCLO, R_VCCHI, R_EXEC, R_EXECLO, R_EXECHI, R_M0, bs_scc, bs_m0, bs_vcc, bs_vcclo, bs_vcchi, bs_exec, bs_execlo, bs_exechi, Acc.width, Acc.cells, CellId.bytes]

/-- `WriteOperand` of an operand of at most 64 bits is `WriteOperandBytes` of the value's low bytes -/
theorem emu_writeOperand (e : EmuRF) (a : Acc) (v : Nat) (ha : a.Supported 102 256) (hw : a.width ≤ 8) :
    e.writeOperand a.k.reg a.rc a.lane v = e.writeOperandBytes a.k.reg a.rc a.lane ((toLE 8 v).take a.width) := by
  have := numBytes_width a 102 256 (by omega) (by omega) ha
  simp only [EmuRF.writeOperand, EmuRF.writeOperandBytes, this]
  rw [if_neg (by omega)]

end C07
