import MgpuProofs.C01CopyWave
import MgpuProofs.Props.C08
/-! # C01 — `copyKernel` on the whole grid

The dispatch of `EnqueueMemCopyD2D` (`G` work-items, 64-wide work-groups): the work-groups the grid
builder produces (C08 `wgs_enumerate`), the single wavefront each of them forms, its initial registers
(`initWfRegs`), the per-wavefront specification (`wave_run`) packaged as a `WaveSpec`, and the fold over
the work-groups (`runWG_effect`). -/
set_option linter.unusedSimpArgs false
set_option linter.unusedVariables false
set_option maxRecDepth 100000
namespace C01.Emu.Copy
open C03V

/-- the dispatch geometry of `EnqueueMemCopyD2D`: `G` work-items, 64-wide work-groups -/
def geo (G : Nat) : C08.Geo := ⟨G, 1, 1, 64, 1, 1⟩

theorem geo_valid (G : Nat) (hG : 0 < G) : (geo G).Valid := ⟨hG, Nat.one_pos, Nat.one_pos, show 0 < 64 by omega, Nat.one_pos, Nat.one_pos⟩

theorem geo_total (G : Nat) : (geo G).total = C08.nwg G 64 := by
  simp [C08.Geo.total, C08.Geo.nx, C08.Geo.ny, C08.Geo.nz, geo, C08.nwg]

theorem allWGs_geo (G : Nat) :
    C08.allWGs (geo G) = (List.range (C08.nwg G 64)).map fun k => ⟨(k, 0, 0), (min (G - k * 64) 64, 1, 1)⟩ := by
  unfold C08.allWGs
  rw [geo_total]
  apply List.map_congr_left
  intro k hk
  have hk' : k < C08.nwg G 64 := List.mem_range.mp hk
  have hnx : (geo G).nx = C08.nwg G 64 := rfl
  have hny : (geo G).ny = 1 := by simp [C08.Geo.ny, geo, C08.nwg]
  simp only [C08.wgAt, C08.coordOf, C08.sizesOf, hnx, hny, Nat.mod_eq_of_lt hk', Nat.div_eq_of_lt hk']
  simp [geo]

/-- the work-groups the grid builder produces (C08 `wgs_enumerate`): `(k,0,0)` with the clipped size -/
theorem wgList_geo (G : Nat) (hG : 0 < G) :
    wgList (geo G) = (List.range (C08.nwg G 64)).map fun k => ⟨(k, 0, 0), (min (G - k * 64) 64, 1, 1)⟩ := by
  unfold wgList
  have h := C08.wgs_enumerate (geo G) (geo_valid G hG) (fun _ => true) 0 ((geo G).total + 1)
  have hs : C08.skip (geo G) (fun _ => true) 0 ⟨0, 0, 0⟩ = ⟨0, 0, 0⟩ := rfl
  rw [hs] at h
  rw [h, List.drop_zero]
  have hf : (C08.allWGs (geo G)).filter (fun w => (fun _ => true) w.id) = C08.allWGs (geo G) :=
    List.filter_eq_self.mpr (fun _ _ => rfl)
  rw [hf, List.take_of_length_le (by simp [C08.allWGs])]
  exact allWGs_geo G

end C01.Emu.Copy
namespace C01.Emu.Copy
open C03V

theorem spawn_row (s : Nat) : C08.spawn (s, 1, 1) = (List.range s).map fun x => (x, 0, 0) := by
  simp [C08.spawn, show List.range 1 = [0] from rfl]

theorem or_next_bit (k : Nat) : (2 ^ k - 1) ||| (1 <<< k) = 2 ^ (k + 1) - 1 := by
  have hlt : 2 ^ k - 1 < 2 ^ k := by have := Nat.pow_pos (a := 2) (n := k) (by decide); omega
  have h := Nat.shiftLeft_add_eq_or_of_lt (i := k) hlt 1
  rw [Nat.or_comm, ← h, Nat.one_shiftLeft, Nat.pow_succ]
  have := Nat.pow_pos (a := 2) (n := k) (by decide)
  omega

theorem formRev_row (k : Nat) (hk : k + 1 ≤ 64) :
    C08.formWfsRev 64 1 ((List.range (k + 1)).map fun x => (x, 0, 0)) = [⟨0, 2 ^ (k + 1) - 1, k + 1⟩] := by
  induction k with
  | zero => rfl
  | succ k ih =>
    unfold C08.formWfsRev at ih ⊢
    rw [List.range_succ, List.map_append, List.foldl_append, ih (by omega)]
    simp only [List.map_cons, List.map_nil, List.foldl_cons, List.foldl_nil, C08.formStep, C08.flatId]
    have h1 : (0 * 64 * 1 + 0 * 64 + (k + 1)) = k + 1 := by omega
    have h2 : (k + 1) / 64 = 0 / 64 := by rw [Nat.div_eq_of_lt (by omega)]
    simp only [h1, h2, ne_eq, not_true_eq_false, if_false, Nat.mod_eq_of_lt (show k + 1 < 64 by omega), or_next_bit]

/-- a work-group row of `s ≤ 64` items forms one wavefront with the low `s` lanes enabled -/
theorem formWfs_row (s : Nat) (h1 : 1 ≤ s) (h2 : s ≤ 64) :
    C08.formWfs 64 1 (C08.spawn (s, 1, 1)) = [⟨0, 2 ^ s - 1, s⟩] := by
  obtain ⟨k, rfl⟩ : ∃ k, s = k + 1 := ⟨s - 1, by omega⟩
  unfold C08.formWfs
  rw [spawn_row, formRev_row k h2]
  rfl

end C01.Emu.Copy
namespace C01.Emu.Copy
open C03V

/-- the dispatch `EnqueueMemCopyD2D` creates for `copyKernel` (flags as the loader reads them from memcopy.hsaco) -/
def disp (c : Cfg) (kernarg packet : List Nat) : Dispatch :=
  { geo := geo c.G, kernelObject := c.co, entry := 0, kernargAddr := c.ka, kernarg := kernarg,
    packetAddr := c.pa, packet := packet,
    privSegBuf := true, dispatchPtr := true, queuePtr := false, kernargPtr := true, dispatchID := false,
    flatScratch := false, privSegSize := false, wgCountX := false, wgCountY := false, wgCountZ := false,
    wgIDX := true, wgIDY := false, wgIDZ := false, v5 := false, vgprWI := 0 }

theorem sgprInit_disp (c : Cfg) (ka pk : List Nat) (k : Nat) :
    sgprInit (disp c ka pk) (k, 0, 0) =
      [(4, c.pa % two32), (5, c.pa / two32 % two32), (6, c.ka % two32), (7, c.ka / two32 % two32), (8, k % two32)] := rfl

/-- the state a wavefront of work-group `k` starts in, running on memory `m` and LDS `l` -/
def wave0 (c : Cfg) (ka pk : List Nat) (k s : Nat) : Wave :=
  initWave (disp c ka pk) ⟨(k, 0, 0), (s, 1, 1)⟩ ⟨0, 2 ^ s - 1, s⟩

theorem foldl_set_size (l : List (Nat × Nat)) (a : Array Nat) :
    (l.foldl (fun a p => a.setIfInBounds p.1 p.2) a).size = a.size := by
  induction l generalizing a with
  | nil => rfl
  | cons p ps ih => rw [List.foldl_cons, ih, Array.size_setIfInBounds]

theorem initWave_ssz (D : Dispatch) (wg : C08.WG) (wf : C08.Wf) : (initWave D wg wf).st.s.size = 128 := by
  unfold initWave
  simp only [foldl_set_size, Array.size_replicate]

theorem initWave_vsz (D : Dispatch) (wg : C08.WG) (wf : C08.Wf) : (initWave D wg wf).st.v.size = 16384 := by
  unfold initWave
  simp only [Array.size_ofFn]

theorem initWave_rv0 (D : Dispatch) (wg : C08.WG) (wf : C08.Wf) (lane : Nat) (hl : lane < 64) :
    (initWave D wg wf).st.rv 0 lane = vgprInit D wf.first 0 lane := by
  unfold St.rv initWave
  simp only [Array.getD_eq_getD_getElem?, Array.getElem?_ofFn]
  have h1 : 0 * 64 + lane < 256 * 64 := by omega
  have h2 : 0 * 64 + lane < 3 * 64 := by omega
  have h3 : (0 * 64 + lane) / 64 = 0 := by omega
  have h4 : (0 * 64 + lane) % 64 = lane := by omega
  simp only [h1, dite_true, Option.getD_some, h2, if_true, h3, h4]

theorem wave0_rs (c : Cfg) (ka pk : List Nat) (k s i : Nat) :
    (wave0 c ka pk k s).st.rs i = if i = 8 then k % two32 else if i = 7 then c.ka / two32 % two32 else if i = 6 then c.ka % two32
      else if i = 5 then c.pa / two32 % two32 else if i = 4 then c.pa % two32 else 0 := by
  unfold St.rs wave0 initWave
  simp only [sgprInit_disp, List.foldl_cons, List.foldl_nil]
  rw [getD_setIfInBounds, getD_setIfInBounds, getD_setIfInBounds, getD_setIfInBounds, getD_setIfInBounds]
  simp only [Array.size_setIfInBounds, Array.size_replicate]
  by_cases h8 : i = 8
  · subst h8; simp
  by_cases h7 : i = 7
  · subst h7; simp
  by_cases h6 : i = 6
  · subst h6; simp
  by_cases h5 : i = 5
  · subst h5; simp
  by_cases h4 : i = 4
  · subst h4; simp
  have e8 : ¬ 8 = i := fun e => h8 e.symm
  have e7 : ¬ 7 = i := fun e => h7 e.symm
  have e6 : ¬ 6 = i := fun e => h6 e.symm
  have e5 : ¬ 5 = i := fun e => h5 e.symm
  have e4 : ¬ 4 = i := fun e => h4 e.symm
  simp only [h8, h7, h6, h5, h4, e8, e7, e6, e5, e4, false_and, if_false]
  rw [Array.getD_eq_getD_getElem?, Array.getElem?_replicate]
  split <;> rfl

theorem wave0_pc (c : Cfg) (ka pk : List Nat) (k s : Nat) : (wave0 c ka pk k s).st.pc = c.co := Nat.add_zero _
theorem wave0_exec (c : Cfg) (ka pk : List Nat) (k s : Nat) : (wave0 c ka pk k s).st.exec = 2 ^ s - 1 := rfl
theorem wave0_completed (c : Cfg) (ka pk : List Nat) (k s : Nat) : (wave0 c ka pk k s).completed = false := rfl

theorem wave0_rv0 (c : Cfg) (ka pk : List Nat) (k s lane : Nat) (hl : lane < 64) :
    (wave0 c ka pk k s).st.rv 0 lane = lane := by
  unfold wave0
  rw [initWave_rv0 _ _ _ lane hl]
  show (C08.laneRegs false 0 (C08.decodeId 64 1 (0 + lane))).1 = lane
  simp only [C08.laneRegs, C08.decodeId, Bool.false_eq_true, if_false]
  omega

theorem wave0_tracks (c : Cfg) (ka pk : List Nat) (k s : Nat) (m l : Mem)
    (hpa : c.pa < 2 ^ 64) (hka : c.ka < 2 ^ 64) (hk : k < 2 ^ 32) :
    ∃ t, Tracks { (wave0 c ka pk k s).st with mem := m, lds := l } t ∧ t.pc = c.co ∧ t.exec = 2 ^ s - 1 ∧
      t.s4 = c.pa % 2 ^ 32 ∧ t.s5 = c.pa / 2 ^ 32 ∧ t.s6 = c.ka % 2 ^ 32 ∧ t.s7 = c.ka / 2 ^ 32 ∧ t.s8 = k ∧
      (∀ lane, lane < 64 → t.v0 lane = lane) ∧ t.mem = get m := by
  have hpc := wave0_pc c ka pk k s
  have hexec := wave0_exec c ka pk k s
  have hssz : (wave0 c ka pk k s).st.s.size = 128 := initWave_ssz _ _ _
  have hvsz : (wave0 c ka pk k s).st.v.size = 16384 := initWave_vsz _ _ _
  have hrs := wave0_rs c ka pk k s
  have hrv0 := wave0_rv0 c ka pk k s
  generalize wave0 c ka pk k s = w at hpc hexec hssz hvsz hrs hrv0 ⊢
  refine ⟨{ pc := c.co, exec := 2 ^ s - 1, vcc := w.st.vcc, s0 := w.st.rs 0, s1 := w.st.rs 1, s2 := w.st.rs 2, s3 := w.st.rs 3,
            s4 := w.st.rs 4, s5 := w.st.rs 5, s6 := w.st.rs 6, s7 := w.st.rs 7, s8 := w.st.rs 8,
            v0 := w.st.rv 0, v1 := w.st.rv 1, v2 := w.st.rv 2, v3 := w.st.rv 3, mem := get m }, ?_, rfl, rfl, ?_, ?_, ?_, ?_, ?_, ?_, rfl⟩
  · refine ⟨{ pc := c.co, exec := 2 ^ s - 1, vcc := w.st.vcc, rs := w.st.rs, rv := w.st.rv, mem := get m },
      ⟨hssz, hvsz, hpc, hexec, rfl, fun _ _ => rfl, fun _ _ _ _ => rfl, fun _ => rfl⟩,
      rfl, rfl, rfl, ?_, ?_, fun _ => rfl⟩
    · intro i hi
      have : i = 0 ∨ i = 1 ∨ i = 2 ∨ i = 3 ∨ i = 4 ∨ i = 5 ∨ i = 6 ∨ i = 7 ∨ i = 8 := by omega
      rcases this with rfl | rfl | rfl | rfl | rfl | rfl | rfl | rfl | rfl <;> rfl
    · intro r lane hr hl
      have : r = 0 ∨ r = 1 ∨ r = 2 ∨ r = 3 := by omega
      rcases this with rfl | rfl | rfl | rfl
      · rw [T.v_0]
      · rw [T.v_1]
      · rw [T.v_2]
      · rw [T.v_3]
  · show w.st.rs 4 = _
    rw [hrs]; rfl
  · show w.st.rs 5 = _
    rw [hrs]
    simp only [show ¬ (5 : Nat) = 8 by decide, show ¬ (5 : Nat) = 7 by decide, show ¬ (5 : Nat) = 6 by decide, if_false, if_true]
    exact Nat.mod_eq_of_lt (by unfold two32; omega)
  · show w.st.rs 6 = _
    rw [hrs]; rfl
  · show w.st.rs 7 = _
    rw [hrs]
    simp only [show ¬ (7 : Nat) = 8 by decide, if_false, if_true]
    exact Nat.mod_eq_of_lt (by unfold two32; omega)
  · show w.st.rs 8 = _
    rw [hrs]
    simp only [if_true]
    exact Nat.mod_eq_of_lt (by unfold two32; omega)
  · exact hrv0

/-- admissible memories: agree with the launch image outside the destination range -/
def Ok (c : Cfg) (f0 : Nat → Nat) (m : Mem) : Prop := Agree c f0 (get m)

theorem applyWrites_not_key (ps : List (Nat × Nat)) (f : Nat → Nat) (a : Nat) (h : ∀ p ∈ ps, p.1 ≠ a) :
    applyWrites ps f a = f a := by
  induction ps generalizing f with
  | nil => rfl
  | cons p ps ih =>
    show applyWrites ps (fun x => if x = p.1 then p.2 else f x) a = f a
    rw [ih _ (fun q hq => h q (List.mem_cons_of_mem _ hq))]
    have : ¬ a = p.1 := fun e => h p (List.mem_cons_self ..) e.symm
    simp [this]

theorem testBit_low (s l : Nat) : (2 ^ s - 1).testBit l = decide (l < s) := Nat.testBit_two_pow_sub_one s l

theorem low_mask_lt (s : Nat) (hs : s ≤ 64) : 2 ^ s - 1 < 18446744073709551616 := by
  have h1 : 2 ^ s ≤ 2 ^ 64 := Nat.pow_le_pow_right (by decide) hs
  have h2 : 0 < 2 ^ s := Nat.pow_pos (by decide)
  have h3 : (2 : Nat) ^ 64 = 18446744073709551616 := rfl
  omega

theorem storePairs_keys (a x : Nat) (p : Nat × Nat) (h : p ∈ storePairs a x) : a ≤ p.1 ∧ p.1 < a + 4 := by
  simp only [storePairs, List.mem_cons, List.mem_nil_iff, or_false] at h
  rcases h with rfl | rfl | rfl | rfl <;> (constructor <;> simp only <;> omega)

/-- lanes of the wavefront that store: enabled and in range -/
theorem mem_exec_lanes (c : Cfg) (k s l : Nat) (hs : s ≤ 64) :
    l ∈ lanesOf (execMask c k (2 ^ s - 1)) ↔ l < s ∧ 64 * k + l < c.N := by
  rw [mem_lanesOf]
  constructor
  · rintro ⟨hl, hb⟩
    rw [execMask_bit c k _ l hl, testBit_low] at hb
    simpa using hb
  · rintro ⟨h1, h2⟩
    have hl : l < 64 := by omega
    refine ⟨hl, ?_⟩
    rw [execMask_bit c k _ l hl, testBit_low]
    simp [h1, h2]

theorem wavePairs_keys (c : Cfg) (m : Nat → Nat) (k s : Nat) (hs : s ≤ 64) (hkG : 64 * k + s ≤ c.G)
    (p : Nat × Nat) (h : p ∈ wavePairs c m k (2 ^ s - 1)) : c.inDst p.1 := by
  unfold wavePairs at h
  obtain ⟨l, hl, hp⟩ := List.mem_flatMap.mp h
  obtain ⟨h1, h2⟩ := (mem_exec_lanes c k s l hs).mp hl
  obtain ⟨h3, h4⟩ := storePairs_keys _ _ p hp
  unfold Cfg.inDst Cfg.K
  constructor <;> omega

theorem wavePairs_congr (c : Cfg) (hv : c.Valid) (f0 m : Nat → Nat) (hag : Agree c f0 m) (k s : Nat) (hs : s ≤ 64)
    (hkG : 64 * k + s ≤ c.G) : wavePairs c m k (2 ^ s - 1) = wavePairs c f0 k (2 ^ s - 1) := by
  unfold wavePairs
  apply flatMap_congr'
  intro l hl
  obtain ⟨h1, h2⟩ := (mem_exec_lanes c k s l hs).mp hl
  rw [rd32_agree c f0 m hag]
  intro j hj hin
  refine hv.dSrc _ hin ⟨by omega, ?_⟩
  unfold Cfg.K
  omega

theorem fuel_bound (k s G : Nat) (h : 64 * k + s ≤ G) (hs : 1 ≤ s) (hG : G ≤ 2 ^ 31) :
    64 * k + 64 ≤ 2 ^ 31 ∧ k < 2 ^ 32 := by omega

/-- the wavefront of work-group `k` (row of `s` items) has a write description -/
theorem wave_spec (c : Cfg) (hv : c.Valid) (f0 : Nat → Nat) (himg : Img c f0) (ka pk : List Nat) (k s : Nat)
    (hs1 : 1 ≤ s) (hs64 : s ≤ 64) (hkG : 64 * k + s ≤ c.G) (fuel : Nat) :
    WaveSpec P c.co (fuel + 27) (Ok c f0) (wave0 c ka pk k s) (wavePairs c f0 k (2 ^ s - 1)) := by
  intro m l hok
  obtain ⟨hn, hk32⟩ := fuel_bound k s c.G hkG hs1 hv.g31
  obtain ⟨t, ht, hpc, hexec, h4, h5, h6, h7, h8, hv0, hmem⟩ := wave0_tracks c ka pk k s m l
    (by have := hv.paEnd; omega) (by have := hv.kaEnd; omega) hk32
  have hag : Agree c f0 t.mem := by rw [hmem]; exact hok
  obtain ⟨st', hrun, hmem'⟩ := wave_run c hv f0 himg k (2 ^ s - 1) hn (low_mask_lt s hs64)
    (by
      intro lane hl hb
      rw [testBit_low] at hb
      have : lane < s := by simpa using hb
      omega)
    _ t ht hpc hexec h4 h5 h6 h7 h8 hv0 hag fuel
  have hget : get st'.mem = applyWrites (wavePairs c f0 k (2 ^ s - 1)) (get m) := by
    funext a
    have := hmem' a
    rw [wavePairs_congr c hv f0 t.mem hag k s hs64 hkG, hmem] at this
    exact this
  refine ⟨Wave.mk { st' with mem := [], lds := [] } (Ctl.endpgm == Ctl.endpgm) (Ctl.endpgm == Ctl.barrier),
    st'.mem, st'.lds, ?_, ?_, hget, ?_⟩
  · unfold runWave
    rw [wave0_completed, hrun]
    rfl
  · rfl
  · intro a ha
    show get st'.mem a = f0 a
    rw [hget, applyWrites_not_key _ _ _ (fun p hp e => ha (by rw [← e]; exact wavePairs_keys c f0 k s hs64 hkG p hp))]
    exact hok a ha


theorem foldlM_effect {α : Type} (step : Mem → α → Except String Mem) (Ok : Mem → Prop) (pairs : α → List (Nat × Nat)) :
    ∀ (l : List α), (∀ x ∈ l, ∀ m, Ok m → ∃ m', step m x = .ok m' ∧ get m' = applyWrites (pairs x) (get m) ∧ Ok m') →
    ∀ m, Ok m → ∃ m', l.foldlM step m = .ok m' ∧ get m' = applyWrites (l.flatMap pairs) (get m) ∧ Ok m' := by
  intro l
  induction l with
  | nil => intro _ m hok; exact ⟨m, rfl, rfl, hok⟩
  | cons x xs ih =>
    intro h m hok
    obtain ⟨m1, h1, g1, ok1⟩ := h x (List.mem_cons_self ..) m hok
    obtain ⟨m2, h2, g2, ok2⟩ := ih (fun y hy => h y (List.mem_cons_of_mem _ hy)) m1 ok1
    refine ⟨m2, ?_, ?_, ok2⟩
    · rw [List.foldlM_cons, h1]
      exact h2
    · rw [g2, g1, List.flatMap_cons, applyWrites_append]

/-- size of the row of work-group `k` -/
def rowSize (G k : Nat) : Nat := min (G - k * 64) 64

theorem rowSize_ok (G k : Nat) (hG : 0 < G) (hk : k < C08.nwg G 64) :
    1 ≤ rowSize G k ∧ rowSize G k ≤ 64 ∧ 64 * k + rowSize G k ≤ G := by
  have := (C08.lt_nwg G 64 k hG (by decide)).mp hk
  unfold rowSize
  omega

/-- all byte writes of the dispatch, work-group by work-group -/
def allPairs (c : Cfg) (f0 : Nat → Nat) : List (Nat × Nat) :=
  (List.range (C08.nwg c.G 64)).flatMap fun k => wavePairs c f0 k (2 ^ rowSize c.G k - 1)

theorem wavesOf_disp (c : Cfg) (ka pk : List Nat) (k s : Nat) (h1 : 1 ≤ s) (h2 : s ≤ 64) :
    wavesOf (disp c ka pk) ⟨(k, 0, 0), (s, 1, 1)⟩ = [wave0 c ka pk k s] := by
  unfold wavesOf
  show (C08.formWfs 64 1 (C08.spawn (s, 1, 1))).map _ = _
  rw [formWfs_row s h1 h2]
  rfl

/-- the whole dispatch: the emulator succeeds and the final memory is the launch image with all the
    wavefronts' writes applied -/
theorem runE_effect (c : Cfg) (hv : c.Valid) (hG : 0 < c.G) (ka pk : List Nat) (m : Mem) (fuel : Nat)
    (himg : Img c (get (install c.pa pk (install c.ka ka m)))) :
    ∃ m', runE P (disp c ka pk) (fuel + 27) m = .ok m' ∧
      get m' = applyWrites (allPairs c (get (install c.pa pk (install c.ka ka m))))
        (get (install c.pa pk (install c.ka ka m))) := by
  generalize hm0 : install c.pa pk (install c.ka ka m) = m0 at himg ⊢
  unfold runE
  show ∃ m', (wgList (geo c.G)).foldlM _ (install c.pa pk (install c.ka ka m)) = _ ∧ _
  rw [hm0, wgList_geo c.G hG]
  obtain ⟨m', hf, hg, _⟩ := foldlM_effect
    (fun m wg => runWG P (disp c ka pk).kernelObject (fuel + 27) (fuel + 27) (wavesOf (disp c ka pk) wg) m [])
    (Ok c (get m0)) (fun wg => wavePairs c (get m0) wg.id.1 (2 ^ wg.sz.1 - 1))
    ((List.range (C08.nwg c.G 64)).map fun k => ⟨(k, 0, 0), (min (c.G - k * 64) 64, 1, 1)⟩)
    (by
      intro wg hwg mm hok
      obtain ⟨k, hk, rfl⟩ := List.mem_map.mp hwg
      have hk' := List.mem_range.mp hk
      obtain ⟨h1, h2, h3⟩ := rowSize_ok c.G k hG hk'
      show ∃ m', runWG P c.co (fuel + 27) (fuel + 26 + 1) (wavesOf (disp c ka pk) ⟨(k, 0, 0), (rowSize c.G k, 1, 1)⟩) mm [] = _ ∧ _
      rw [wavesOf_disp c ka pk k _ h1 h2]
      obtain ⟨m', hr, hg, hok'⟩ := runWG_effect P c.co (fuel + 27) (fuel + 26) (Ok c (get m0))
        (fun _ => wavePairs c (get m0) k (2 ^ rowSize c.G k - 1)) [wave0 c ka pk k (rowSize c.G k)]
        (by
          intro w hw
          rw [List.mem_singleton] at hw
          subst hw
          exact wave_spec c hv (get m0) himg ka pk k _ h1 h2 h3 fuel)
        mm [] hok
      refine ⟨m', hr, ?_, hok'⟩
      rw [hg]
      simp only [List.flatMap_cons, List.flatMap_nil, List.append_nil]
      rfl)
    m0 (fun a _ => rfl)
  refine ⟨m', hf, ?_⟩
  rw [hg, List.flatMap_map]
  rfl


/-- every grid point `g < G` is the item `x` of exactly the work-group row it lies in — obtained from
    the C08 partition theorem `items_cover` -/
theorem grid_point (G g : Nat) (hG : 0 < G) (hg : g < G) :
    ∃ k x, k < C08.nwg G 64 ∧ x < rowSize G k ∧ g = 64 * k + x := by
  have hperm := C08.items_cover (geo G) (geo_valid G hG)
  have hmem : ((g, 0, 0) : C08.Coord) ∈ C08.spawn ((geo G).gx, (geo G).gy, (geo G).gz) := by
    rw [C08.mem_spawn]
    exact ⟨hg, Nat.one_pos, Nat.one_pos⟩
  have hin := hperm.mem_iff.mpr hmem
  unfold C08.allItems at hin
  rw [allWGs_geo] at hin
  obtain ⟨w, hw, hit⟩ := List.mem_flatMap.mp hin
  obtain ⟨k, hk, rfl⟩ := List.mem_map.mp hw
  obtain ⟨it, hit1, hit2⟩ := List.mem_map.mp hit
  have hk' := List.mem_range.mp hk
  rw [C08.mem_spawn] at hit1
  obtain ⟨x, y, z⟩ := it
  simp only [C08.globalOf, geo, Prod.mk.injEq] at hit2
  refine ⟨k, x, hk', hit1.1, ?_⟩
  omega

theorem allPairs_mem (c : Cfg) (hG : 0 < c.G) (f0 : Nat → Nat) (p : Nat × Nat) :
    p ∈ allPairs c f0 ↔ ∃ g, g < c.K ∧ p ∈ storePairs (c.dst + 4 * g) (rd32 f0 (c.src + 4 * g) % 2 ^ 32) := by
  unfold allPairs
  constructor
  · intro h
    obtain ⟨k, hk, hp⟩ := List.mem_flatMap.mp h
    have hk' := List.mem_range.mp hk
    obtain ⟨h1, h2, h3⟩ := rowSize_ok c.G k hG hk'
    unfold wavePairs at hp
    obtain ⟨l, hl, hp'⟩ := List.mem_flatMap.mp hp
    obtain ⟨h4, h5⟩ := (mem_exec_lanes c k _ l h2).mp hl
    exact ⟨64 * k + l, by unfold Cfg.K; omega, hp'⟩
  · rintro ⟨g, hg, hp⟩
    have hgG : g < c.G := by unfold Cfg.K at hg; omega
    have hgN : g < c.N := by unfold Cfg.K at hg; omega
    obtain ⟨k, x, hk, hx, rfl⟩ := grid_point c.G g hG hgG
    obtain ⟨h1, h2, h3⟩ := rowSize_ok c.G k hG hk
    apply List.mem_flatMap.mpr
    refine ⟨k, List.mem_range.mpr hk, ?_⟩
    unfold wavePairs
    apply List.mem_flatMap.mpr
    exact ⟨x, (mem_exec_lanes c k _ x h2).mpr ⟨hx, hgN⟩, hp⟩

theorem applyWrites_consistent (ps : List (Nat × Nat)) (a v : Nat) (hall : ∀ p ∈ ps, p.1 = a → p.2 = v) :
    ∀ f, applyWrites ps f a = if (∃ p ∈ ps, p.1 = a) then v else f a := by
  induction ps with
  | nil => intro f; simp [applyWrites]
  | cons p ps ih =>
    intro f
    show applyWrites ps (fun x => if x = p.1 then p.2 else f x) a = _
    rw [ih (fun q hq => hall q (List.mem_cons_of_mem _ hq))]
    by_cases hex : ∃ q ∈ ps, q.1 = a
    · have : ∃ q ∈ p :: ps, q.1 = a := by
        obtain ⟨q, hq, e⟩ := hex
        exact ⟨q, List.mem_cons_of_mem _ hq, e⟩
      rw [if_pos hex, if_pos this]
    · rw [if_neg hex]
      by_cases hp : p.1 = a
      · have : ∃ q ∈ p :: ps, q.1 = a := ⟨p, List.mem_cons_self .., hp⟩
        rw [if_pos this]
        simp only [hp, if_true]
        exact hall p (List.mem_cons_self ..) hp
      · have : ¬ ∃ q ∈ p :: ps, q.1 = a := by
          rintro ⟨q, hq, e⟩
          rcases List.mem_cons.mp hq with rfl | hq'
          · exact hp e
          · exact hex ⟨q, hq', e⟩
        rw [if_neg this]
        have : ¬ a = p.1 := fun e => hp e.symm
        simp [this]

/-- the bytes a lane stores are the bytes it loaded -/
theorem store_bytes (b0 b1 b2 b3 D : Nat) (h0 : b0 < 256) (h1 : b1 < 256) (h2 : b2 < 256) (h3 : b3 < 256)
    (p : Nat × Nat) (hp : p ∈ storePairs D ((b0 + b1 * 2 ^ 8 + b2 * 2 ^ 16 + b3 * 2 ^ 24) % 2 ^ 32)) :
    D ≤ p.1 ∧ p.1 < D + 4 ∧
      p.2 = (if p.1 - D = 0 then b0 else if p.1 - D = 1 then b1 else if p.1 - D = 2 then b2 else b3) := by
  simp only [storePairs, List.mem_cons, List.mem_nil_iff, or_false] at hp
  rcases hp with rfl | rfl | rfl | rfl
  · refine ⟨by simp, by simp, ?_⟩
    simp only [Nat.sub_self, if_true]
    omega
  · refine ⟨by simp, by simp, ?_⟩
    simp only [Nat.add_sub_cancel_left, show ¬ (1 : Nat) = 0 by decide, if_false, if_true]
    omega
  · refine ⟨by simp, by simp, ?_⟩
    simp only [Nat.add_sub_cancel_left, show ¬ (2 : Nat) = 0 by decide, show ¬ (2 : Nat) = 1 by decide, if_false, if_true]
    omega
  · refine ⟨by simp, by simp, ?_⟩
    simp only [Nat.add_sub_cancel_left, show ¬ (3 : Nat) = 0 by decide, show ¬ (3 : Nat) = 1 by decide,
      show ¬ (3 : Nat) = 2 by decide, if_false]
    omega


instance (c : Cfg) (a : Nat) : Decidable (c.inDst a) := by unfold Cfg.inDst; infer_instance

theorem pair_spec (c : Cfg) (hG : 0 < c.G) (f0 : Nat → Nat) (hb : ∀ i, i < 4 * c.K → f0 (c.src + i) < 256)
    (p : Nat × Nat) (hp : p ∈ allPairs c f0) : c.inDst p.1 ∧ p.2 = f0 (c.src + (p.1 - c.dst)) := by
  obtain ⟨g, hg, hps⟩ := (allPairs_mem c hG f0 p).mp hp
  have h0 := hb (4 * g) (by omega)
  have h1 := hb (4 * g + 1) (by omega)
  have h2 := hb (4 * g + 2) (by omega)
  have h3 := hb (4 * g + 3) (by omega)
  rw [← Nat.add_assoc] at h1 h2 h3
  unfold rd32 at hps
  obtain ⟨k1, k2, k3⟩ := store_bytes _ _ _ _ _ h0 h1 h2 h3 p hps
  refine ⟨⟨by omega, by omega⟩, ?_⟩
  rw [k3]
  have hj : p.1 - (c.dst + 4 * g) = 0 ∨ p.1 - (c.dst + 4 * g) = 1 ∨ p.1 - (c.dst + 4 * g) = 2 ∨ p.1 - (c.dst + 4 * g) = 3 := by
    omega
  rcases hj with e | e | e | e
  · rw [if_pos e, show p.1 - c.dst = 4 * g by omega]
  · rw [if_neg (by omega), if_pos e, show p.1 - c.dst = 4 * g + 1 by omega, ← Nat.add_assoc]
  · rw [if_neg (by omega), if_neg (by omega), if_pos e, show p.1 - c.dst = 4 * g + 2 by omega, ← Nat.add_assoc]
  · rw [if_neg (by omega), if_neg (by omega), if_neg (by omega), show p.1 - c.dst = 4 * g + 3 by omega, ← Nat.add_assoc]

theorem pair_exists (c : Cfg) (hG : 0 < c.G) (f0 : Nat → Nat) (a : Nat) (ha : c.inDst a) :
    ∃ p ∈ allPairs c f0, p.1 = a := by
  obtain ⟨h1, h2⟩ := ha
  have hg : (a - c.dst) / 4 < c.K := by omega
  have hj : (a - c.dst) % 4 = 0 ∨ (a - c.dst) % 4 = 1 ∨ (a - c.dst) % 4 = 2 ∨ (a - c.dst) % 4 = 3 := by omega
  generalize hx : rd32 f0 (c.src + 4 * ((a - c.dst) / 4)) % 2 ^ 32 = x
  have hmem : ∀ q, q ∈ storePairs (c.dst + 4 * ((a - c.dst) / 4)) x → q ∈ allPairs c f0 :=
    fun q hq => (allPairs_mem c hG f0 q).mpr ⟨_, hg, by rw [hx]; exact hq⟩
  rcases hj with e | e | e | e
  · exact ⟨_, hmem (c.dst + 4 * ((a - c.dst) / 4), x % 256) (by simp [storePairs]), by simp only; omega⟩
  · exact ⟨_, hmem (c.dst + 4 * ((a - c.dst) / 4) + 1, x / 256 % 256) (by simp [storePairs]), by simp only; omega⟩
  · exact ⟨_, hmem (c.dst + 4 * ((a - c.dst) / 4) + 2, x / 65536 % 256) (by simp [storePairs]), by simp only; omega⟩
  · exact ⟨_, hmem (c.dst + 4 * ((a - c.dst) / 4) + 3, x / 16777216 % 256) (by simp [storePairs]), by simp only; omega⟩

/-- the effect of all the wavefronts' writes on the launch image -/
theorem copy_result (c : Cfg) (hG : 0 < c.G) (f0 : Nat → Nat) (hb : ∀ i, i < 4 * c.K → f0 (c.src + i) < 256) (a : Nat) :
    applyWrites (allPairs c f0) f0 a = if c.inDst a then f0 (c.src + (a - c.dst)) else f0 a := by
  by_cases ha : c.inDst a
  · rw [if_pos ha, applyWrites_consistent (allPairs c f0) a (f0 (c.src + (a - c.dst)))
      (fun p hp e => by rw [(pair_spec c hG f0 hb p hp).2, e]), if_pos (pair_exists c hG f0 a ha)]
  · rw [if_neg ha, applyWrites_not_key]
    intro p hp e
    exact ha (e ▸ (pair_spec c hG f0 hb p hp).1)


end C01.Emu.Copy
