import MgpuProofs.C12_E2E
import MgpuProofs.C12_Full
/-! Helper lemmas for C12.E.F (composed model over ALL stages of `Driver.Tick`, `W.Full`): every step
    is at most one legitimate event of `W.Full.step`; the ghost flag `owed` implies
    `willSignal ∨ r = tick`; the id queues mirror the component's queues. -/
namespace C12
namespace E
namespace F

theorem sysOf_put (k : K.St) (y : W.Full.Sys) : sysOf (put k y) = y := rfl

theorem envOk_legit (ev : W.Full.Ev) (h : envOk ev = true) : ev.legit = true := by
  cases ev <;> simp [envOk] at h <;> rfl

/-- **every step is at most one LEGITIMATE event of `W.Full.step`** -/
theorem step_w (kind : Nat → W.Full.Cmd) (hk : ∀ n, (kind n).handled = true) (caps : W.Full.Caps) {s s' : St} {t : Th}
    (h : step kind caps s t = some s') :
    sysOf s' = sysOf s ∨ ∃ ev, ev.legit = true ∧ sysOf s' = W.Full.step caps (sysOf s) ev := by
  cases t with
  | app j =>
    simp only [step] at h
    cases ha : s.k.apps[j]? with
    | none => simp [ha] at h
    | some a =>
      simp only [ha] at h
      cases hk1 : K.step s.k (.app j) with
      | none => simp [hk1] at h
      | some k1 =>
        simp [hk1] at h
        have hk' : K.stepApp s.k j a = some k1 := by simpa [K.step, ha] using hk1
        obtain ⟨hev, _, _⟩ := stepApp_shape _ _ _ _ hk'
        by_cases hen : isEnq a = true
        · simp only [hen, if_true] at h; subst h
          exact Or.inr ⟨_, by simp [W.Full.Ev.legit, hk], sysOf_put _ _⟩
        · simp only [hen] at h; subst h
          exact Or.inl (by simp [sysOf, hev])
  | async =>
    simp only [step] at h
    cases hk1 : K.step s.k .async with
    | none => simp [hk1] at h
    | some k1 =>
      simp [hk1] at h
      by_cases hr : s.k.r = .tick
      · simp only [hr, if_true] at h; subst h
        exact Or.inr ⟨.kick, rfl, sysOf_put _ _⟩
      · simp only [hr, if_false] at h; subst h
        have : k1.evt = s.k.evt := by
          cases hr' : s.k.r <;> simp only [K.step, hr'] at hk1
          · cases hk1
          · exact absurd hr' hr
          · split at hk1 <;> (injection hk1 with hk1; subst hk1; rfl)
        exact Or.inl (by simp [sysOf, this])
  | eng =>
    simp only [step] at h
    split at h
    · injection h with h; subst h
      exact Or.inr ⟨.tick, rfl, rfl⟩
    · split at h
      · cases h
      · cases hk1 : K.step s.k .eng with
        | none => simp [hk1] at h
        | some k1 =>
          simp [hk1] at h; subst h
          rename_i hn ht
          obtain ⟨h3, _, _⟩ := G.eng_other s.k k1 hn (by simpa using ht) hk1
          exact Or.inl (by simp [sysOf, h3])
  | env ev =>
    simp only [step] at h
    split at h
    · rename_i hok
      injection h with h; subst h
      exact Or.inr ⟨ev, envOk_legit ev hok.1, sysOf_put _ _⟩
    · cases h

theorem sinv_reach {kind : Nat → W.Full.Cmd} (hk : ∀ n, (kind n).handled = true) {caps : W.Full.Caps} {s : St}
    (h : Reach kind caps s) : W.Full.SInv caps (sysOf s) := by
  induction h with
  | init cfg scripts h => exact W.Full.sinv_init caps cfg
  | step t _ hs ih =>
    rcases step_w kind hk caps hs with he | ⟨ev, hl, he⟩
    · rw [he]; exact ih
    · rw [he]; exact W.Full.sinv_step caps _ ev hl ih

/-! ### the link -/

theorem notifyN_will (i : Nat) (qs : List K.Qu) (ns : List Nat) (apps : List K.App)
    (h : ∃ b ∈ apps, K.willSignal b) : ∃ b ∈ notifyN i qs ns apps, K.willSignal b := by
  induction qs generalizing i ns apps with
  | nil => simpa [notifyN] using h
  | cons q qs ih =>
    cases ns with
    | nil => simpa [notifyN] using h
    | cons n ns =>
      simp only [notifyN]
      apply ih
      split
      · exact notifyAll_will _ _ h
      · exact h

theorem notifyN_aok (i : Nat) (qs : List K.Qu) (ns : List Nat) (apps : List K.App)
    (h : ∀ x ∈ apps, K.AppOk x) : ∀ x ∈ notifyN i qs ns apps, K.AppOk x := by
  induction qs generalizing i ns apps with
  | nil => simpa [notifyN] using h
  | cons q qs ih =>
    cases ns with
    | nil => simpa [notifyN] using h
    | cons n ns =>
      simp only [notifyN]
      apply ih
      split
      · exact G.notifyAll_aok _ _ h
      · exact h

theorem env_owed (caps : W.Full.Caps) (y : W.Full.Sys) (ev : W.Full.Ev) (h : envOk ev = true) :
    (W.Full.step caps y ev).owed = y.owed := by
  cases ev <;> simp [envOk] at h <;> simp only [W.Full.step]
  · split <;> rfl
  · split
    · rfl
    · split
      · unfold W.Full.deliverG; split <;> rfl
      · rfl
  · split <;> rfl
  · split <;> rfl

structure GInv (s : St) : Prop where
  aok : ∀ a ∈ s.k.apps, K.AppOk a
  link : s.owed = true → (∃ a ∈ s.k.apps, K.willSignal a) ∨ s.k.r = .tick

theorem ginv_step (kind : Nat → W.Full.Cmd) (caps : W.Full.Caps) {s s' : St} {t : Th} (hi : GInv s)
    (h : step kind caps s t = some s') : GInv s' := by
  cases t with
  | app j =>
    simp only [step] at h
    cases ha : s.k.apps[j]? with
    | none => simp [ha] at h
    | some a =>
      simp only [ha] at h
      cases hk : K.step s.k (.app j) with
      | none => simp [hk] at h
      | some k1 =>
        simp [hk] at h
        have hk' : K.stepApp s.k j a = some k1 := by simpa [K.step, ha] using hk
        have haok := G.stepApp_aok s.k k1 j a ha hi.aok hk'
        have hok := hi.aok a (K.mem_of_get _ _ _ ha)
        by_cases hen : isEnq a = true
        · simp only [hen, if_true] at h; subst h
          exact ⟨haok, fun _ => stepApp_link s.k k1 j a ha hok hk' (Or.inl hen)⟩
        · simp only [hen] at h; subst h
          exact ⟨haok, fun ho => stepApp_link s.k k1 j a ha hok hk' (Or.inr (hi.link ho))⟩
  | async =>
    simp only [step] at h
    cases hk : K.step s.k .async with
    | none => simp [hk] at h
    | some k1 =>
      simp [hk] at h
      cases hr' : s.k.r with
      | idle => simp [K.step, hr'] at hk
      | tick =>
        simp only [hr', if_true] at h; subst h
        simp only [K.step, hr'] at hk
        split at hk
        · cases hk
        · injection hk with hk; subst hk
          exact ⟨hi.aok, fun ho => by simp [put, W.Full.step] at ho⟩
      | chkFlag =>
        simp only [hr'] at h
        simp at h; subst h
        simp only [K.step, hr'] at hk
        split at hk <;>
        · injection hk with hk; subst hk
          refine ⟨hi.aok, fun ho => ?_⟩
          rcases hi.link ho with h1 | h1
          · exact Or.inl h1
          · rw [hr'] at h1; cases h1
  | eng =>
    simp only [step] at h
    split at h
    · rename_i hc
      injection h with h; subst h
      refine ⟨notifyN_aok _ _ _ _ hi.aok, fun ho => ?_⟩
      have ho' : s.owed = true := by simpa [W.Full.step, sysOf, hc.2] using ho
      rcases hi.link ho' with h1 | h1
      · exact Or.inl (notifyN_will _ _ _ _ h1)
      · exact Or.inr h1
    · split at h
      · cases h
      · cases hk : K.step s.k .eng with
        | none => simp [hk] at h
        | some k1 =>
          simp [hk] at h; subst h
          obtain ⟨h1, h2⟩ := eng_link s.k k1 hk
          rename_i hn ht
          obtain ⟨_, _, h5⟩ := G.eng_other s.k k1 hn (by simpa using ht) hk
          refine ⟨by simpa [h5] using hi.aok, fun ho => ?_⟩
          rcases hi.link ho with hw | hw
          · exact Or.inl (h2 hw)
          · exact Or.inr (h1.trans hw)
  | env ev =>
    simp only [step] at h
    split at h
    · rename_i hok
      injection h with h; subst h
      refine ⟨hi.aok, fun ho => ?_⟩
      have ho' : s.owed = true := by
        have h1 : (W.Full.step caps (sysOf s) ev).owed = s.owed := env_owed caps (sysOf s) ev hok.1
        have h2 : (put s.k (W.Full.step caps (sysOf s) ev)).owed = (W.Full.step caps (sysOf s) ev).owed := rfl
        rw [h2, h1] at ho; exact ho
      exact hi.link ho'
    · cases h

theorem ginv_reach {kind : Nat → W.Full.Cmd} {caps : W.Full.Caps} {s : St} (h : Reach kind caps s) : GInv s := by
  induction h with
  | init cfg scripts h =>
    exact ⟨(K.inv_init scripts _ h).aok, fun ho => by simp [init, W.Full.init] at ho⟩
  | step t _ hs ih => exact ginv_step _ _ ih hs

/-! ### the id queues of the protocol part mirror the component's queues -/

/-- pointwise `≥` on lists of queue lengths -/
inductive LeL : List Nat → List Nat → Prop
  | nil : LeL [] []
  | cons {a b : Nat} {l1 l2 : List Nat} : b ≤ a → LeL l1 l2 → LeL (a :: l1) (b :: l2)

theorem leL_refl (l : List Nat) : LeL l l := by
  induction l with
  | nil => exact .nil
  | cons a l ih => exact .cons (Nat.le_refl _) ih

theorem leL_of_eq {l l' : List Nat} (h : l' = l) : LeL l l' := h ▸ leL_refl l

theorem leL_trans {a b c : List Nat} (h1 : LeL a b) (h2 : LeL b c) : LeL a c := by
  induction h1 generalizing c with
  | nil => cases h2; exact .nil
  | cons hab _ ih =>
    cases h2 with
    | cons hbc h2 => exact .cons (Nat.le_trans hbc hab) (ih h2)

abbrev lenQ (q : W.Full.Q) : Nat := q.cmds.length

theorem leL_updAt_retQ (i : Nat) (qs : List W.Full.Q) :
    LeL (qs.map lenQ) ((W.Full.updAt W.Full.retQ i qs).map lenQ) := by
  induction qs generalizing i with
  | nil => rw [show W.Full.updAt W.Full.retQ i [] = [] by cases i <;> rfl]; exact .nil
  | cons w ws ih =>
    cases i with
    | zero =>
      refine .cons ?_ (leL_refl _)
      unfold W.Full.retQ lenQ
      split
      · split
        · simp
        · exact Nat.le_refl _
      · exact Nat.le_refl _
    | succ i => exact .cons (Nat.le_refl _) (ih i)

theorem procQ_le (d : W.Full.D) (i : Nat) (q : W.Full.Q) : lenQ (W.Full.procQ d i q).1 ≤ lenQ q := by
  unfold W.Full.procQ lenQ
  cases hc : q.cmds with
  | nil => simp [hc]
  | cons c cs =>
    cases hr : q.running with
    | true => simp [hc]
    | false =>
      cases c with
      | kern n => cases n <;> simp
      | copy d2h pieces => simp only [Bool.false_eq_true, if_false]; split <;> split <;> simp
      | fl => simp only [Bool.false_eq_true, if_false]; split <;> simp
      | unhandled => simp [hc]
      | _ => simp

theorem leL_procAll (d : W.Full.D) (i : Nat) (qs : List W.Full.Q) :
    LeL (qs.map lenQ) ((W.Full.procAll d i qs).2.1.map lenQ) := by
  induction qs generalizing d i with
  | nil => exact .nil
  | cons w ws ih => exact .cons (procQ_le d i w) (ih _ (i + 1))

theorem delay_qs (d : W.Full.D) : (W.Full.delay d).1.qs = d.qs := by
  unfold W.Full.delay; split <;> rfl

theorem stage_leL (caps : W.Full.Caps) : ∀ st ∈ W.Full.stages caps, ∀ c : W.Full.C, LeL (lens c) (lens (st c).1) := by
  intro st hst c
  simp only [W.Full.stages, List.mem_cons, List.mem_nil_iff, or_false] at hst
  rcases hst with rfl | rfl | rfl | rfl | rfl | rfl | rfl
  · apply leL_of_eq; unfold W.Full.sendToGPUs lens; split
    · rfl
    · split <;> rfl
  · apply leL_of_eq; unfold W.Full.sendToMMU lens; split
    · split <;> rfl
    · rfl
  · apply leL_of_eq; unfold W.Full.sendMigrationReqToCP lens; split
    · rfl
    · split
      · rfl
      · split <;> rfl
  · unfold W.Full.mwTick lens
    split
    · exact leL_of_eq (by simp [delay_qs])
    · split
      · simp only [delay_qs]; exact leL_updAt_retQ _ _
      · exact leL_of_eq (by simp [delay_qs])
      · exact leL_of_eq (by simp [delay_qs])
  · unfold W.Full.processReturnReq lens
    split
    · exact leL_refl _
    · split
      · exact leL_updAt_retQ _ _
      · apply leL_of_eq; unfold W.Full.onDrainRsp; simp only; split <;> rfl
      · apply leL_of_eq; unfold W.Full.onShootRsp; simp only; split <;> rfl
      · apply leL_of_eq; unfold W.Full.onMigRsp; simp only; split <;> rfl
      · apply leL_of_eq; unfold W.Full.onRestartRsp; simp only; split <;> rfl
      · apply leL_of_eq; unfold W.Full.onRdmaRsp; simp only; split <;> rfl
      · exact leL_refl _
  · exact leL_procAll _ _ _
  · apply leL_of_eq; unfold W.Full.parseFromMMU lens; split
    · rfl
    · split <;> rfl

theorem runStages_leL (l : List (W.Stage W.Full.D W.Full.GMsg W.Full.GReq))
    (h : ∀ st ∈ l, ∀ c : W.Full.C, LeL (lens c) (lens (st c).1)) (c : W.Full.C) :
    LeL (lens c) (lens (W.runStages l c).1) := by
  induction l generalizing c with
  | nil => exact leL_refl _
  | cons st rest ih =>
    simp only [W.runStages]
    exact leL_trans (h st (by simp) c) (ih (fun st' hs => h st' (by simp [hs])) _)

theorem tick_leL (caps : W.Full.Caps) (c : W.Full.C) : LeL (lens c) (lens (W.Full.tick caps c).1) :=
  runStages_leL _ (stage_leL caps) c

theorem sync_tick {ns ns' : List Nat} (hs : LeL ns ns') : ∀ (qs : List K.Qu),
    qs.map (fun q => q.cmds.length) = ns → (List.zipWith syncN qs ns').map (fun q => q.cmds.length) = ns' := by
  induction hs with
  | nil => intro qs h; cases qs <;> simp at h ⊢
  | cons hab _ ih =>
    intro qs h
    cases qs with
    | nil => simp at h
    | cons q qs =>
      simp only [List.map_cons, List.cons.injEq] at h
      simp only [List.zipWith_cons_cons, List.map_cons, List.cons.injEq]
      refine ⟨?_, ih qs h.2⟩
      simp only [syncN, G.repeat_deq_len]
      have := h.1
      omega

theorem sync_enq (id i : Nat) (c : W.Full.Cmd) (qs : List K.Qu) (ws : List W.Full.Q)
    (h : qs.map (fun q => q.cmds.length) = ws.map lenQ) :
    (K.updQ (K.enqQu id) i qs).map (fun q => q.cmds.length) =
      (W.Full.updAt (fun q => { q with cmds := q.cmds ++ [c] }) i ws).map lenQ := by
  induction qs generalizing ws i with
  | nil => cases ws <;> simp [K.updQ, W.Full.updAt] at h ⊢
  | cons q qs ih =>
    cases ws with
    | nil => simp at h
    | cons w ws =>
      simp only [List.map_cons, List.cons.injEq] at h
      cases i with
      | zero => simp [K.updQ, W.Full.updAt, K.enqQu, lenQ, h.1, h.2]
      | succ i => simp [K.updQ, W.Full.updAt, h.1, ih i ws h.2]

theorem env_lens (caps : W.Full.Caps) (y : W.Full.Sys) (ev : W.Full.Ev) (h : envOk ev = true) :
    lens (W.Full.step caps y ev).core = lens y.core := by
  cases ev <;> simp [envOk] at h <;> simp only [W.Full.step]
  · split <;> rfl
  · split
    · rfl
    · split
      · unfold W.Full.deliverG; split <;> rfl
      · rfl
  · split <;> rfl
  · split <;> rfl

theorem sync_step (kind : Nat → W.Full.Cmd) (caps : W.Full.Caps) {s s' : St} {t : Th} (hi : Sync s)
    (h : step kind caps s t = some s') : Sync s' := by
  unfold Sync at hi ⊢
  cases t with
  | app j =>
    simp only [step] at h
    cases ha : s.k.apps[j]? with
    | none => simp [ha] at h
    | some a =>
      simp only [ha] at h
      cases hk : K.step s.k (.app j) with
      | none => simp [hk] at h
      | some k1 =>
        simp [hk] at h
        have hk' : K.stepApp s.k j a = some k1 := by simpa [K.step, ha] using hk
        by_cases hen : isEnq a = true
        · simp only [hen, if_true] at h; subst h
          simp only [put, G.stepApp_enq_target _ _ _ _ hen hk', W.Full.step, W.Full.enqCmd, sysOf, lens]
          exact sync_enq _ _ _ _ _ hi
        · simp only [hen] at h; subst h
          obtain ⟨_, _, hq⟩ := stepApp_shape _ _ _ _ hk'
          rcases hq with ⟨h1, _⟩ | ⟨_, hq⟩
          · exact absurd h1 hen
          · simpa [hq] using hi
  | async =>
    simp only [step] at h
    cases hk : K.step s.k .async with
    | none => simp [hk] at h
    | some k1 =>
      simp [hk] at h
      have hq : k1.qs = s.k.qs := by
        cases hr' : s.k.r <;> simp only [K.step, hr'] at hk
        · cases hk
        · split at hk
          · cases hk
          · injection hk with hk; subst hk; rfl
        · split at hk <;> (injection hk with hk; subst hk; rfl)
      by_cases hr : s.k.r = .tick
      · simp only [hr, if_true] at h; subst h
        simpa [put, W.Full.step, sysOf, hq] using hi
      · simp only [hr, if_false] at h; subst h
        simpa [hq] using hi
  | eng =>
    simp only [step] at h
    split at h
    · rename_i hc
      injection h with h; subst h
      simp only [W.Full.step, sysOf, hc.2, if_true]
      exact sync_tick (tick_leL caps s.core) _ hi
    · split at h
      · cases h
      · cases hk : K.step s.k .eng with
        | none => simp [hk] at h
        | some k1 =>
          simp [hk] at h; subst h
          rename_i hn ht
          obtain ⟨_, h4, _⟩ := G.eng_other s.k k1 hn (by simpa using ht) hk
          simpa [h4] using hi
  | env ev =>
    simp only [step] at h
    split at h
    · rename_i hok
      injection h with h; subst h
      have h1 := env_lens caps (sysOf s) ev hok.1
      have h2 : lens (put s.k (W.Full.step caps (sysOf s) ev)).core = lens (W.Full.step caps (sysOf s) ev).core := rfl
      rw [h2, h1]; exact hi
    · cases h

theorem sync_reach {kind : Nat → W.Full.Cmd} {caps : W.Full.Caps} {s : St} (h : Reach kind caps s) : Sync s := by
  induction h with
  | init cfg scripts h =>
    have : ∀ l : List Nat, List.replicate l.length 0 =
        List.map ((fun q : W.Full.Q => q.cmds.length) ∘ fun c => ({ ctx := c } : W.Full.Q)) l := by
      intro l; induction l with
      | nil => rfl
      | cons a l ih => simp [List.replicate_succ, ih]
    simp [Sync, init, K.init, lens, W.Full.init, W.Full.initD, this]
  | step t _ hs ih => exact sync_step _ _ ih hs

theorem sync_empty (s : St) (hs : Sync s) (q : Nat) (hc : K.cmdsOf s.k q = []) (w : W.Full.Q)
    (hw : s.core.d.qs[q]? = some w) : w.cmds = [] := by
  unfold Sync lens at hs
  have h1 : (s.k.qs.map (fun q => q.cmds.length))[q]? = (s.core.d.qs.map (fun q => q.cmds.length))[q]? := by rw [hs]
  simp only [List.getElem?_map, hw, Option.map_some] at h1
  cases hx : s.k.qs[q]? with
  | none => simp [hx] at h1
  | some x =>
    simp only [hx, Option.map_some, Option.some.injEq] at h1
    have : x.cmds = [] := by simpa [K.cmdsOf, K.cmdsAt, hx] using hc
    rw [this] at h1
    exact List.eq_nil_of_length_eq_zero h1.symm

/-! ### a scheduled tick event is handled -/

theorem pinv_step (kind : Nat → W.Full.Cmd) (caps : W.Full.Caps) {s s' : St} {t : Th} (hi : PInv s.k)
    (h : step kind caps s t = some s') : PInv s'.k := by
  cases t with
  | app j =>
    simp only [step] at h
    cases ha : s.k.apps[j]? with
    | none => simp [ha] at h
    | some a =>
      simp only [ha] at h
      cases hk : K.step s.k (.app j) with
      | none => simp [hk] at h
      | some k1 =>
        simp [hk] at h
        have hk' : K.stepApp s.k j a = some k1 := by simpa [K.step, ha] using hk
        have hp := pinv_app s.k k1 j a hk' hi
        obtain ⟨_, _, _, hev, _⟩ := stepApp_proto s.k k1 j a hk'
        by_cases hen : isEnq a = true
        · simp only [hen, if_true] at h; subst h
          exact pinv_evt_same k1 hp _ hev.symm
        · simp only [hen] at h; subst h; exact hp
  | async =>
    simp only [step] at h
    cases hk : K.step s.k .async with
    | none => simp [hk] at h
    | some k1 =>
      simp [hk] at h
      have hp := pinv_async s.k k1 hk hi
      by_cases hr : s.k.r = .tick
      · simp only [hr, if_true] at h; subst h
        have hev : k1.evt = true := by
          simp only [K.step, hr] at hk
          split at hk
          · cases hk
          · injection hk with hk; subst hk; rfl
        exact pinv_evt_same k1 hp _ hev.symm
      · simp only [hr, if_false] at h; subst h; exact hp
  | eng =>
    simp only [step] at h
    split at h
    · rename_i hc
      injection h with h; subst h
      exact pinv_at_loop s.k hc.1 hi _ _ _
    · split at h
      · cases h
      · cases hk : K.step s.k .eng with
        | none => simp [hk] at h
        | some k1 =>
          simp [hk] at h; subst h
          rename_i hn ht
          exact pinv_eng_other s.k k1 hn (by simpa using ht) hk hi
  | env ev =>
    simp only [step] at h
    split at h
    · rename_i hc
      injection h with h; subst h
      exact pinv_at_loop s.k hc.2 hi _ s.k.qs s.k.apps
    · cases h

theorem pinv_reach {kind : Nat → W.Full.Cmd} {caps : W.Full.Caps} {s : St} (h : Reach kind caps s) : PInv s.k := by
  induction h with
  | init cfg scripts h => exact pinv_init scripts _
  | step t _ hs ih => exact pinv_step _ _ ih hs

/-! ### every reachable state is a state of a legitimate `W.Full` run from `Full.init` -/

theorem reach_run {kind : Nat → W.Full.Cmd} (hk : ∀ n, (kind n).handled = true) {caps : W.Full.Caps} {s : St}
    (h : Reach kind caps s) :
    ∃ cfg evs, (∀ ev ∈ evs, ev.legit = true) ∧ sysOf s = W.Full.run caps (W.Full.init cfg) evs := by
  induction h with
  | init cfg scripts h => exact ⟨cfg, [], by simp, rfl⟩
  | step t _ hs ih =>
    obtain ⟨cfg, evs, hl, he⟩ := ih
    rcases step_w kind hk caps hs with h1 | ⟨ev, hlev, h1⟩
    · exact ⟨cfg, evs, hl, h1.trans he⟩
    · refine ⟨cfg, evs ++ [ev], ?_, ?_⟩
      · intro e hm
        rcases List.mem_append.mp hm with hm | hm
        · exact hl e hm
        · simp at hm; subst hm; exact hlev
      · rw [h1, he]; simp [W.Full.run, List.foldl_append]

theorem sync_all_empty (s : St) (hs : Sync s) (h : ∀ q ∈ s.core.d.qs, q.cmds = []) (j : Nat) : K.cmdsOf s.k j = [] := by
  unfold Sync lens at hs
  have h1 : (s.k.qs.map (fun q => q.cmds.length))[j]? = (s.core.d.qs.map (fun q => q.cmds.length))[j]? := by rw [hs]
  simp only [List.getElem?_map] at h1
  cases hx : s.k.qs[j]? with
  | none => simp [K.cmdsOf, K.cmdsAt, hx]
  | some x =>
    cases hw : s.core.d.qs[j]? with
    | none => simp [hx, hw] at h1
    | some w =>
      simp only [hx, hw, Option.map_some, Option.some.injEq] at h1
      have hwe := h w (K.mem_of_get _ _ _ hw)
      rw [hwe] at h1
      simpa [K.cmdsOf, K.cmdsAt, hx] using List.eq_nil_of_length_eq_zero h1

end F
end E
end C12
