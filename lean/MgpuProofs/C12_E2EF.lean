import MgpuProofs.C12_E2E
import MgpuProofs.C12_Full
/-! Helper lemmas for C12.E.F (composed model over ALL stages of `Driver.Tick`, `W.Full`): every step
    is at most one legitimate event of `W.Full.step`; the ghost flag `owed` implies
    `willSignal ∨ r = tick`; the id queues mirror the component's queues. -/
namespace C12
namespace E
namespace F

theorem sysOf_put (k : K.St) (y : W.Full.Sys) : sysOf (put k y) = y := rfl

theorem envOk_legit (ev : W.Full.Ev) (h : envOk ev = true) : ev.legit = true := by
  cases ev <;> simp [envOk] at h <;> rfl

/-- **every step is at most one LEGITIMATE event of `W.Full.step`** -/
theorem step_w (kind : Nat → W.Full.Cmd) (hk : ∀ n, (kind n).handled = true) (caps : W.Full.Caps) {s s' : St} {t : Th}
    (h : step kind caps s t = some s') :
    sysOf s' = sysOf s ∨ ∃ ev, ev.legit = true ∧ sysOf s' = W.Full.step caps (sysOf s) ev := by
  cases t with
  | app j =>
    simp only [step] at h
    cases ha : s.k.apps[j]? with
    | none => simp [ha] at h
    | some a =>
      simp only [ha] at h
      cases hk1 : K.step s.k (.app j) with
      | none => simp [hk1] at h
      | some k1 =>
        simp [hk1] at h
        have hk' : K.stepApp s.k j a = some k1 := by simpa [K.step, ha] using hk1
        obtain ⟨hev, _, _⟩ := stepApp_shape _ _ _ _ hk'
        by_cases hen : isEnq a = true
        · simp only [hen, if_true] at h; subst h
          exact Or.inr ⟨_, by simp [W.Full.Ev.legit, hk], sysOf_put _ _⟩
        · simp only [hen] at h; subst h
          exact Or.inl (by simp [sysOf, hev])
  | async =>
    simp only [step] at h
    cases hk1 : K.step s.k .async with
    | none => simp [hk1] at h
    | some k1 =>
      simp [hk1] at h
      by_cases hr : s.k.r = .tick
      · simp only [hr, if_true] at h; subst h
        exact Or.inr ⟨.kick, rfl, sysOf_put _ _⟩
      · simp only [hr, if_false] at h; subst h
        have : k1.evt = s.k.evt := by
          cases hr' : s.k.r <;> simp only [K.step, hr'] at hk1
          · cases hk1
          · exact absurd hr' hr
          · split at hk1 <;> (injection hk1 with hk1; subst hk1; rfl)
        exact Or.inl (by simp [sysOf, this])
  | eng =>
    simp only [step] at h
    split at h
    · injection h with h; subst h
      exact Or.inr ⟨.tick, rfl, rfl⟩
    · split at h
      · cases h
      · cases hk1 : K.step s.k .eng with
        | none => simp [hk1] at h
        | some k1 =>
          simp [hk1] at h; obtain ⟨hg, h⟩ := h; subst h
          rename_i hn ht
          obtain ⟨h3, _, _⟩ := G.eng_other s.k k1 hn (by simpa using ht) hk1
          exact Or.inl (by simp [sysOf, h3])
  | env ev =>
    simp only [step] at h
    split at h
    · rename_i hok
      injection h with h; subst h
      exact Or.inr ⟨ev, envOk_legit ev hok.1, sysOf_put _ _⟩
    · cases h

theorem sinv_reach {kind : Nat → W.Full.Cmd} (hk : ∀ n, (kind n).handled = true) {caps : W.Full.Caps} {s : St}
    (h : Reach kind caps s) : W.Full.SInv caps (sysOf s) := by
  induction h with
  | init cfg scripts h => exact W.Full.sinv_init caps cfg
  | step t _ hs ih =>
    rcases step_w kind hk caps hs with he | ⟨ev, hl, he⟩
    · rw [he]; exact ih
    · rw [he]; exact W.Full.sinv_step caps _ ev hl ih

/-! ### the link -/

theorem notifyN_will (i : Nat) (qs : List K.Qu) (ns : List Nat) (apps : List K.App)
    (h : ∃ b ∈ apps, K.willSignal b) : ∃ b ∈ notifyN i qs ns apps, K.willSignal b := by
  induction qs generalizing i ns apps with
  | nil => simpa [notifyN] using h
  | cons q qs ih =>
    cases ns with
    | nil => simpa [notifyN] using h
    | cons n ns =>
      simp only [notifyN]
      apply ih
      split
      · exact notifyAll_will _ _ h
      · exact h

theorem notifyN_aok (i : Nat) (qs : List K.Qu) (ns : List Nat) (apps : List K.App)
    (h : ∀ x ∈ apps, K.AppOk x) : ∀ x ∈ notifyN i qs ns apps, K.AppOk x := by
  induction qs generalizing i ns apps with
  | nil => simpa [notifyN] using h
  | cons q qs ih =>
    cases ns with
    | nil => simpa [notifyN] using h
    | cons n ns =>
      simp only [notifyN]
      apply ih
      split
      · exact G.notifyAll_aok _ _ h
      · exact h

theorem env_owed (caps : W.Full.Caps) (y : W.Full.Sys) (ev : W.Full.Ev) (h : envOk ev = true) :
    (W.Full.step caps y ev).owed = y.owed := by
  cases ev <;> simp [envOk] at h <;> simp only [W.Full.step]
  · split <;> rfl
  · split
    · rfl
    · split
      · unfold W.Full.deliverG; split <;> rfl
      · rfl
  · split <;> rfl
  · split <;> rfl

structure GInv (s : St) : Prop where
  aok : ∀ a ∈ s.k.apps, K.AppOk a
  link : s.owed = true → (∃ a ∈ s.k.apps, K.willSignal a) ∨ s.k.r = .tick

theorem ginv_step (kind : Nat → W.Full.Cmd) (caps : W.Full.Caps) {s s' : St} {t : Th} (hi : GInv s)
    (h : step kind caps s t = some s') : GInv s' := by
  cases t with
  | app j =>
    simp only [step] at h
    cases ha : s.k.apps[j]? with
    | none => simp [ha] at h
    | some a =>
      simp only [ha] at h
      cases hk : K.step s.k (.app j) with
      | none => simp [hk] at h
      | some k1 =>
        simp [hk] at h
        have hk' : K.stepApp s.k j a = some k1 := by simpa [K.step, ha] using hk
        have haok := G.stepApp_aok s.k k1 j a ha hi.aok hk'
        have hok := hi.aok a (K.mem_of_get _ _ _ ha)
        by_cases hen : isEnq a = true
        · simp only [hen, if_true] at h; subst h
          exact ⟨haok, fun _ => stepApp_link s.k k1 j a ha hok hk' (Or.inl hen)⟩
        · simp only [hen] at h; subst h
          exact ⟨haok, fun ho => stepApp_link s.k k1 j a ha hok hk' (Or.inr (hi.link ho))⟩
  | async =>
    simp only [step] at h
    cases hk : K.step s.k .async with
    | none => simp [hk] at h
    | some k1 =>
      simp [hk] at h
      cases hr' : s.k.r with
      | idle => simp [K.step, hr'] at hk
      | tick =>
        simp only [hr', if_true] at h; subst h
        simp only [K.step, hr'] at hk
        split at hk
        · cases hk
        · injection hk with hk; subst hk
          exact ⟨hi.aok, fun ho => by simp [put, W.Full.step] at ho⟩
      | chkFlag =>
        simp only [hr'] at h
        simp at h; subst h
        simp only [K.step, hr'] at hk
        split at hk <;>
        · injection hk with hk; subst hk
          refine ⟨hi.aok, fun ho => ?_⟩
          rcases hi.link ho with h1 | h1
          · exact Or.inl h1
          · rw [hr'] at h1; cases h1
  | eng =>
    simp only [step] at h
    split at h
    · rename_i hc
      injection h with h; subst h
      refine ⟨notifyN_aok _ _ _ _ hi.aok, fun ho => ?_⟩
      have ho' : s.owed = true := by simpa [W.Full.step, sysOf, hc.2] using ho
      rcases hi.link ho' with h1 | h1
      · exact Or.inl (notifyN_will _ _ _ _ h1)
      · exact Or.inr h1
    · split at h
      · cases h
      · cases hk : K.step s.k .eng with
        | none => simp [hk] at h
        | some k1 =>
          simp [hk] at h; obtain ⟨hg, h⟩ := h; subst h
          obtain ⟨h1, h2⟩ := eng_link s.k k1 hk
          rename_i hn ht
          obtain ⟨_, _, h5⟩ := G.eng_other s.k k1 hn (by simpa using ht) hk
          refine ⟨by simpa [h5] using hi.aok, fun ho => ?_⟩
          rcases hi.link ho with hw | hw
          · exact Or.inl (h2 hw)
          · exact Or.inr (h1.trans hw)
  | env ev =>
    simp only [step] at h
    split at h
    · rename_i hok
      injection h with h; subst h
      refine ⟨hi.aok, fun ho => ?_⟩
      have ho' : s.owed = true := by
        have h1 : (W.Full.step caps (sysOf s) ev).owed = s.owed := env_owed caps (sysOf s) ev hok.1
        have h2 : (put s.k (W.Full.step caps (sysOf s) ev)).owed = (W.Full.step caps (sysOf s) ev).owed := rfl
        rw [h2, h1] at ho; exact ho
      exact hi.link ho'
    · cases h

theorem ginv_reach {kind : Nat → W.Full.Cmd} {caps : W.Full.Caps} {s : St} (h : Reach kind caps s) : GInv s := by
  induction h with
  | init cfg scripts h =>
    exact ⟨(K.inv_init scripts _ h).aok, fun ho => by simp [init, W.Full.init] at ho⟩
  | step t _ hs ih => exact ginv_step _ _ ih hs

/-! ### the id queues of the protocol part mirror the component's queues -/

/-- pointwise `≥` on lists of queue lengths -/
inductive LeL : List Nat → List Nat → Prop
  | nil : LeL [] []
  | cons {a b : Nat} {l1 l2 : List Nat} : b ≤ a → LeL l1 l2 → LeL (a :: l1) (b :: l2)

theorem leL_refl (l : List Nat) : LeL l l := by
  induction l with
  | nil => exact .nil
  | cons a l ih => exact .cons (Nat.le_refl _) ih

theorem leL_of_eq {l l' : List Nat} (h : l' = l) : LeL l l' := h ▸ leL_refl l

theorem leL_trans {a b c : List Nat} (h1 : LeL a b) (h2 : LeL b c) : LeL a c := by
  induction h1 generalizing c with
  | nil => cases h2; exact .nil
  | cons hab _ ih =>
    cases h2 with
    | cons hbc h2 => exact .cons (Nat.le_trans hbc hab) (ih h2)

abbrev lenQ (q : W.Full.Q) : Nat := q.cmds.length

theorem leL_updAt_retQ (i : Nat) (qs : List W.Full.Q) :
    LeL (qs.map lenQ) ((W.Full.updAt W.Full.retQ i qs).map lenQ) := by
  induction qs generalizing i with
  | nil => rw [show W.Full.updAt W.Full.retQ i [] = [] by cases i <;> rfl]; exact .nil
  | cons w ws ih =>
    cases i with
    | zero =>
      refine .cons ?_ (leL_refl _)
      unfold W.Full.retQ lenQ
      split
      · split
        · simp
        · exact Nat.le_refl _
      · exact Nat.le_refl _
    | succ i => exact .cons (Nat.le_refl _) (ih i)

theorem procQ_le (d : W.Full.D) (i : Nat) (q : W.Full.Q) : lenQ (W.Full.procQ d i q).1 ≤ lenQ q := by
  unfold W.Full.procQ lenQ
  cases hc : q.cmds with
  | nil => simp [hc]
  | cons c cs =>
    cases hr : q.running with
    | true => simp [hc]
    | false =>
      cases c with
      | kern n => cases n <;> simp
      | copy d2h pieces => simp only [Bool.false_eq_true, if_false]; split <;> split <;> simp
      | fl => simp only [Bool.false_eq_true, if_false]; split <;> simp
      | unhandled => simp [hc]
      | _ => simp

theorem leL_procAll (d : W.Full.D) (i : Nat) (qs : List W.Full.Q) :
    LeL (qs.map lenQ) ((W.Full.procAll d i qs).2.1.map lenQ) := by
  induction qs generalizing d i with
  | nil => exact .nil
  | cons w ws ih => exact .cons (procQ_le d i w) (ih _ (i + 1))

theorem delay_qs (d : W.Full.D) : (W.Full.delay d).1.qs = d.qs := by
  unfold W.Full.delay; split <;> rfl

theorem stage_leL (caps : W.Full.Caps) : ∀ st ∈ W.Full.stages caps, ∀ c : W.Full.C, LeL (lens c) (lens (st c).1) := by
  intro st hst c
  simp only [W.Full.stages, List.mem_cons, List.mem_nil_iff, or_false] at hst
  rcases hst with rfl | rfl | rfl | rfl | rfl | rfl | rfl
  · apply leL_of_eq; unfold W.Full.sendToGPUs lens; split
    · rfl
    · split <;> rfl
  · apply leL_of_eq; unfold W.Full.sendToMMU lens; split
    · split <;> rfl
    · rfl
  · apply leL_of_eq; unfold W.Full.sendMigrationReqToCP lens; split
    · rfl
    · split
      · rfl
      · split <;> rfl
  · unfold W.Full.mwTick lens
    split
    · exact leL_of_eq (by simp [delay_qs])
    · split
      · simp only [delay_qs]; exact leL_updAt_retQ _ _
      · exact leL_of_eq (by simp [delay_qs])
      · exact leL_of_eq (by simp [delay_qs])
  · unfold W.Full.processReturnReq lens
    split
    · exact leL_refl _
    · split
      · exact leL_updAt_retQ _ _
      · apply leL_of_eq; unfold W.Full.onDrainRsp; simp only; split <;> rfl
      · apply leL_of_eq; unfold W.Full.onShootRsp; simp only; split <;> rfl
      · apply leL_of_eq; unfold W.Full.onMigRsp; simp only; split <;> rfl
      · apply leL_of_eq; unfold W.Full.onRestartRsp; simp only; split <;> rfl
      · apply leL_of_eq; unfold W.Full.onRdmaRsp; simp only; split <;> rfl
      · exact leL_refl _
  · exact leL_procAll _ _ _
  · apply leL_of_eq; unfold W.Full.parseFromMMU lens; split
    · rfl
    · split <;> rfl

theorem runStages_leL (l : List (W.Stage W.Full.D W.Full.GMsg W.Full.GReq))
    (h : ∀ st ∈ l, ∀ c : W.Full.C, LeL (lens c) (lens (st c).1)) (c : W.Full.C) :
    LeL (lens c) (lens (W.runStages l c).1) := by
  induction l generalizing c with
  | nil => exact leL_refl _
  | cons st rest ih =>
    simp only [W.runStages]
    exact leL_trans (h st (by simp) c) (ih (fun st' hs => h st' (by simp [hs])) _)

theorem tick_leL (caps : W.Full.Caps) (c : W.Full.C) : LeL (lens c) (lens (W.Full.tick caps c).1) :=
  runStages_leL _ (stage_leL caps) c

theorem sync_tick {ns ns' : List Nat} (hs : LeL ns ns') : ∀ (qs : List K.Qu),
    qs.map (fun q => q.cmds.length) = ns → (List.zipWith syncN qs ns').map (fun q => q.cmds.length) = ns' := by
  induction hs with
  | nil => intro qs h; cases qs <;> simp at h ⊢
  | cons hab _ ih =>
    intro qs h
    cases qs with
    | nil => simp at h
    | cons q qs =>
      simp only [List.map_cons, List.cons.injEq] at h
      simp only [List.zipWith_cons_cons, List.map_cons, List.cons.injEq]
      refine ⟨?_, ih qs h.2⟩
      simp only [syncN, G.repeat_deq_len]
      have := h.1
      omega

theorem sync_enq (id i : Nat) (c : W.Full.Cmd) (qs : List K.Qu) (ws : List W.Full.Q)
    (h : qs.map (fun q => q.cmds.length) = ws.map lenQ) :
    (K.updQ (K.enqQu id) i qs).map (fun q => q.cmds.length) =
      (W.Full.updAt (fun q => { q with cmds := q.cmds ++ [c] }) i ws).map lenQ := by
  induction qs generalizing ws i with
  | nil => cases ws <;> simp [K.updQ, W.Full.updAt] at h ⊢
  | cons q qs ih =>
    cases ws with
    | nil => simp at h
    | cons w ws =>
      simp only [List.map_cons, List.cons.injEq] at h
      cases i with
      | zero => simp [K.updQ, W.Full.updAt, K.enqQu, lenQ, h.1, h.2]
      | succ i => simp [K.updQ, W.Full.updAt, h.1, ih i ws h.2]

theorem env_lens (caps : W.Full.Caps) (y : W.Full.Sys) (ev : W.Full.Ev) (h : envOk ev = true) :
    lens (W.Full.step caps y ev).core = lens y.core := by
  cases ev <;> simp [envOk] at h <;> simp only [W.Full.step]
  · split <;> rfl
  · split
    · rfl
    · split
      · unfold W.Full.deliverG; split <;> rfl
      · rfl
  · split <;> rfl
  · split <;> rfl

theorem sync_step (kind : Nat → W.Full.Cmd) (caps : W.Full.Caps) {s s' : St} {t : Th} (hi : Sync s)
    (h : step kind caps s t = some s') : Sync s' := by
  unfold Sync at hi ⊢
  cases t with
  | app j =>
    simp only [step] at h
    cases ha : s.k.apps[j]? with
    | none => simp [ha] at h
    | some a =>
      simp only [ha] at h
      cases hk : K.step s.k (.app j) with
      | none => simp [hk] at h
      | some k1 =>
        simp [hk] at h
        have hk' : K.stepApp s.k j a = some k1 := by simpa [K.step, ha] using hk
        by_cases hen : isEnq a = true
        · simp only [hen, if_true] at h; subst h
          simp only [put, G.stepApp_enq_target _ _ _ _ hen hk', W.Full.step, W.Full.enqCmd, sysOf, lens]
          exact sync_enq _ _ _ _ _ hi
        · simp only [hen] at h; subst h
          obtain ⟨_, _, hq⟩ := stepApp_shape _ _ _ _ hk'
          rcases hq with ⟨h1, _⟩ | ⟨_, hq⟩
          · exact absurd h1 hen
          · simpa [hq] using hi
  | async =>
    simp only [step] at h
    cases hk : K.step s.k .async with
    | none => simp [hk] at h
    | some k1 =>
      simp [hk] at h
      have hq : k1.qs = s.k.qs := by
        cases hr' : s.k.r <;> simp only [K.step, hr'] at hk
        · cases hk
        · split at hk
          · cases hk
          · injection hk with hk; subst hk; rfl
        · split at hk <;> (injection hk with hk; subst hk; rfl)
      by_cases hr : s.k.r = .tick
      · simp only [hr, if_true] at h; subst h
        simpa [put, W.Full.step, sysOf, hq] using hi
      · simp only [hr, if_false] at h; subst h
        simpa [hq] using hi
  | eng =>
    simp only [step] at h
    split at h
    · rename_i hc
      injection h with h; subst h
      simp only [W.Full.step, sysOf, hc.2, if_true]
      exact sync_tick (tick_leL caps s.core) _ hi
    · split at h
      · cases h
      · cases hk : K.step s.k .eng with
        | none => simp [hk] at h
        | some k1 =>
          simp [hk] at h; obtain ⟨hg, h⟩ := h; subst h
          rename_i hn ht
          obtain ⟨_, h4, _⟩ := G.eng_other s.k k1 hn (by simpa using ht) hk
          simpa [h4] using hi
  | env ev =>
    simp only [step] at h
    split at h
    · rename_i hok
      injection h with h; subst h
      have h1 := env_lens caps (sysOf s) ev hok.1
      have h2 : lens (put s.k (W.Full.step caps (sysOf s) ev)).core = lens (W.Full.step caps (sysOf s) ev).core := rfl
      rw [h2, h1]; exact hi
    · cases h

theorem sync_reach {kind : Nat → W.Full.Cmd} {caps : W.Full.Caps} {s : St} (h : Reach kind caps s) : Sync s := by
  induction h with
  | init cfg scripts h =>
    have : ∀ l : List Nat, List.replicate l.length 0 =
        List.map ((fun q : W.Full.Q => q.cmds.length) ∘ fun c => ({ ctx := c } : W.Full.Q)) l := by
      intro l; induction l with
      | nil => rfl
      | cons a l ih => simp [List.replicate_succ, ih]
    simp [Sync, init, K.init, lens, W.Full.init, W.Full.initD, this]
  | step t _ hs ih => exact sync_step _ _ ih hs

theorem sync_empty (s : St) (hs : Sync s) (q : Nat) (hc : K.cmdsOf s.k q = []) (w : W.Full.Q)
    (hw : s.core.d.qs[q]? = some w) : w.cmds = [] := by
  unfold Sync lens at hs
  have h1 : (s.k.qs.map (fun q => q.cmds.length))[q]? = (s.core.d.qs.map (fun q => q.cmds.length))[q]? := by rw [hs]
  simp only [List.getElem?_map, hw, Option.map_some] at h1
  cases hx : s.k.qs[q]? with
  | none => simp [hx] at h1
  | some x =>
    simp only [hx, Option.map_some, Option.some.injEq] at h1
    have : x.cmds = [] := by simpa [K.cmdsOf, K.cmdsAt, hx] using hc
    rw [this] at h1
    exact List.eq_nil_of_length_eq_zero h1.symm

/-! ### a scheduled tick event is handled -/

theorem pinv_step (kind : Nat → W.Full.Cmd) (caps : W.Full.Caps) {s s' : St} {t : Th} (hi : PInv s.k)
    (h : step kind caps s t = some s') : PInv s'.k := by
  cases t with
  | app j =>
    simp only [step] at h
    cases ha : s.k.apps[j]? with
    | none => simp [ha] at h
    | some a =>
      simp only [ha] at h
      cases hk : K.step s.k (.app j) with
      | none => simp [hk] at h
      | some k1 =>
        simp [hk] at h
        have hk' : K.stepApp s.k j a = some k1 := by simpa [K.step, ha] using hk
        have hp := pinv_app s.k k1 j a hk' hi
        obtain ⟨_, _, _, hev, _⟩ := stepApp_proto s.k k1 j a hk'
        by_cases hen : isEnq a = true
        · simp only [hen, if_true] at h; subst h
          exact pinv_evt_same k1 hp _ hev.symm
        · simp only [hen] at h; subst h; exact hp
  | async =>
    simp only [step] at h
    cases hk : K.step s.k .async with
    | none => simp [hk] at h
    | some k1 =>
      simp [hk] at h
      have hp := pinv_async s.k k1 hk hi
      by_cases hr : s.k.r = .tick
      · simp only [hr, if_true] at h; subst h
        have hev : k1.evt = true := by
          simp only [K.step, hr] at hk
          split at hk
          · cases hk
          · injection hk with hk; subst hk; rfl
        exact pinv_evt_same k1 hp _ hev.symm
      · simp only [hr, if_false] at h; subst h; exact hp
  | eng =>
    simp only [step] at h
    split at h
    · rename_i hc
      injection h with h; subst h
      exact pinv_at_loop s.k hc.1 hi _ _ _
    · split at h
      · cases h
      · cases hk : K.step s.k .eng with
        | none => simp [hk] at h
        | some k1 =>
          simp [hk] at h; obtain ⟨hg, h⟩ := h; subst h
          rename_i hn ht
          exact pinv_eng_other s.k k1 hn (by simpa using ht) hk hi
  | env ev =>
    simp only [step] at h
    split at h
    · rename_i hc
      injection h with h; subst h
      exact pinv_at_loop s.k hc.2 hi _ s.k.qs s.k.apps
    · cases h

theorem pinv_reach {kind : Nat → W.Full.Cmd} {caps : W.Full.Caps} {s : St} (h : Reach kind caps s) : PInv s.k := by
  induction h with
  | init cfg scripts h => exact pinv_init scripts _
  | step t _ hs ih => exact pinv_step _ _ ih hs

/-! ### every reachable state is a state of a legitimate `W.Full` run from `Full.init` -/

theorem reach_run {kind : Nat → W.Full.Cmd} (hk : ∀ n, (kind n).handled = true) {caps : W.Full.Caps} {s : St}
    (h : Reach kind caps s) :
    ∃ cfg evs, (∀ ev ∈ evs, ev.legit = true) ∧ sysOf s = W.Full.run caps (W.Full.init cfg) evs := by
  induction h with
  | init cfg scripts h => exact ⟨cfg, [], by simp, rfl⟩
  | step t _ hs ih =>
    obtain ⟨cfg, evs, hl, he⟩ := ih
    rcases step_w kind hk caps hs with h1 | ⟨ev, hlev, h1⟩
    · exact ⟨cfg, evs, hl, h1.trans he⟩
    · refine ⟨cfg, evs ++ [ev], ?_, ?_⟩
      · intro e hm
        rcases List.mem_append.mp hm with hm | hm
        · exact hl e hm
        · simp at hm; subst hm; exact hlev
      · rw [h1, he]; simp [W.Full.run, List.foldl_append]

theorem sync_all_empty (s : St) (hs : Sync s) (h : ∀ q ∈ s.core.d.qs, q.cmds = []) (j : Nat) : K.cmdsOf s.k j = [] := by
  unfold Sync lens at hs
  have h1 : (s.k.qs.map (fun q => q.cmds.length))[j]? = (s.core.d.qs.map (fun q => q.cmds.length))[j]? := by rw [hs]
  simp only [List.getElem?_map] at h1
  cases hx : s.k.qs[j]? with
  | none => simp [K.cmdsOf, K.cmdsAt, hx]
  | some x =>
    cases hw : s.core.d.qs[j]? with
    | none => simp [hx, hw] at h1
    | some w =>
      simp only [hx, hw, Option.map_some, Option.some.injEq] at h1
      have hwe := h w (K.mem_of_get _ _ _ hw)
      rw [hwe] at h1
      simpa [K.cmdsOf, K.cmdsAt, hx] using List.eq_nil_of_length_eq_zero h1

/-! ### deadlock freedom of the whole composition -/

/-- `K`'s "every waiter on an empty queue has its notification in flight", with the tick event atomic:
    nobody is (about to be) blocked in `Wait` on an empty queue -/
def Note (k : K.St) : Prop := ∀ a ∈ k.apps, K.blockedEmpty a → K.cmdsOf k a.q ≠ []

theorem stepApp_note (k k1 : K.St) (j : Nat) (a : K.App) (hj : k.apps[j]? = some a) (hn : Note k)
    (h : K.stepApp k j a = some k1) : Note k1 := by
  have ha := hn a (K.mem_of_get _ _ _ hj)
  obtain ⟨pc, script, q, sub, tok, ret⟩ := a
  cases pc
  case idle =>
    cases script with
    | nil => simp [K.stepApp] at h
    | cons op rest =>
      cases op with
      | enq q' =>
        simp only [K.stepApp] at h
        injection h with h; subst h
        refine G.set_all _ _ _ _ (fun x hx hb => ?_) (fun hb => by simp [K.blockedEmpty] at hb)
        intro hc
        exact hn x hx hb (K.cmdsOf_enq_nil k _ _ _ hc)
      | drain q' =>
        simp only [K.stepApp] at h
        injection h with h; subst h
        exact G.set_all _ _ _ _ (fun x hx hb => hn x hx hb) (fun hb => by simp [K.blockedEmpty] at hb)
  case enqN =>
    simp only [K.stepApp] at h
    injection h with h; subst h
    intro x hx hb
    obtain ⟨y, hy, rfl⟩ := List.mem_map.mp hx
    obtain ⟨he, _⟩ := K.notify1_blocked _ _ hb
    rw [he] at hb ⊢
    exact G.set_all (fun x => K.blockedEmpty x → K.cmdsOf k x.q ≠ []) _ _ _ (fun x hx hb => hn x hx hb)
      (fun hb => by simp [K.blockedEmpty] at hb) y hy hb
  case waiting => simp [K.stepApp] at h
  case chk =>
    simp only [K.stepApp] at h
    split at h
    · injection h with h; subst h
      exact G.set_all _ _ _ _ (fun x hx hb => hn x hx hb) (fun hb => by simp [K.blockedEmpty] at hb)
    · rename_i hne
      injection h with h; subst h
      exact G.set_all _ _ _ _ (fun x hx hb => hn x hx hb) (fun _ => hne)
  case toWait =>
    simp only [K.stepApp] at h
    split at h
    · injection h with h; subst h
      exact G.set_all _ _ _ _ (fun x hx hb => hn x hx hb) (fun hb => by simp [K.blockedEmpty] at hb)
    · rename_i htok
      injection h with h; subst h
      exact G.set_all _ _ _ _ (fun x hx hb => hn x hx hb) (fun _ => ha (Or.inl ⟨rfl, by simpa using htok⟩))
  all_goals
    simp only [K.stepApp] at h
    repeat (split at h)
    all_goals first
      | (injection h with h; subst h
         exact G.set_all _ _ _ _ (fun x hx hb => hn x hx hb) (fun hb => by simp [K.blockedEmpty] at hb))
      | cases h

/-- a thread still blocked after the notifications of a tick is one of the old threads, not
    subscribed to any queue a command was dequeued from -/
theorem notifyN_blocked (qs : List K.Qu) : ∀ (i : Nat) (ns : List Nat) (apps : List K.App) (x : K.App),
    x ∈ notifyN i qs ns apps → K.blockedEmpty x →
    x ∈ apps ∧ ∀ j q n, qs[j]? = some q → ns[j]? = some n → n < q.cmds.length → ¬ (x.subscribed = true ∧ x.q = i + j) := by
  induction qs with
  | nil => intro i ns apps x hx _; exact ⟨by simpa [notifyN] using hx, by simp⟩
  | cons q qs ih =>
    intro i ns apps x hx hb
    cases ns with
    | nil => exact ⟨by simpa [notifyN] using hx, by simp⟩
    | cons n ns =>
      simp only [notifyN] at hx
      obtain ⟨h1, h2⟩ := ih (i + 1) ns _ x hx hb
      by_cases hlt : n < q.cmds.length
      · simp only [hlt, if_true] at h1
        obtain ⟨y, hy, rfl⟩ := List.mem_map.mp h1
        obtain ⟨he, hns⟩ := K.notify1_blocked _ _ hb
        rw [he] at h2 ⊢
        refine ⟨hy, ?_⟩
        intro j q' n' hq hn hl
        cases j with
        | zero => simpa using hns
        | succ j =>
          have := h2 j q' n' (by simpa using hq) (by simpa using hn) hl
          rwa [show i + (j + 1) = i + 1 + j by omega]
      · simp only [hlt, if_false] at h1
        refine ⟨h1, ?_⟩
        intro j q' n' hq hn hl
        cases j with
        | zero =>
          simp at hq hn; subst hq; subst hn; exact absurd hl hlt
        | succ j =>
          have := h2 j q' n' (by simpa using hq) (by simpa using hn) hl
          rwa [show i + (j + 1) = i + 1 + j by omega]

theorem leL_length {a b : List Nat} (h : LeL a b) : b.length = a.length := by
  induction h with
  | nil => rfl
  | cons _ _ ih => simp [ih]

/-- the tick event keeps `Note`: the subscribers of every queue that lost a command are notified -/
theorem tick_note (k : K.St) (ns' : List Nat) (hn : Note k) (haok : ∀ a ∈ k.apps, K.AppOk a)
    (hle : LeL (k.qs.map fun q => q.cmds.length) ns') (b : Bool) :
    Note { k with evt := b, qs := List.zipWith syncN k.qs ns', apps := notifyN 0 k.qs ns' k.apps } := by
  intro x hx hb
  obtain ⟨hmem, hnot⟩ := notifyN_blocked k.qs 0 ns' k.apps x hx hb
  have hold := hn x hmem hb
  have hsub : x.subscribed = true := (haok x hmem).subd (by
    rcases hb with ⟨h1, _⟩ | h1
    · exact Or.inr (Or.inr (Or.inr (Or.inl h1)))
    · exact Or.inr (Or.inr (Or.inr (Or.inr h1))))
  cases hq : k.qs[x.q]? with
  | none => simp [K.cmdsOf, K.cmdsAt, hq] at hold
  | some q0 =>
    have hq0 : q0.cmds ≠ [] := by simpa [K.cmdsOf, K.cmdsAt, hq] using hold
    have hlen := leL_length hle
    simp only [List.length_map] at hlen
    have hlt : x.q < ns'.length := by rw [hlen]; exact K.lt_of_get _ _ _ hq
    have hn' : ns'[x.q]? = some ns'[x.q] := List.getElem?_eq_getElem hlt
    have hge : ¬ ns'[x.q] < q0.cmds.length := fun hl => hnot x.q q0 _ hq hn' hl ⟨hsub, by simp⟩
    have hz : (List.zipWith syncN k.qs ns')[x.q]? = some (syncN q0 ns'[x.q]) := by
      simp [List.getElem?_zipWith, hq, hn']
    have hs : syncN q0 ns'[x.q] = q0 := by
      unfold syncN
      have : q0.cmds.length - ns'[x.q] = 0 := by omega
      rw [this]; rfl
    simp only [K.cmdsOf, K.cmdsAt, hz, hs]
    exact hq0

structure DInv (s : St) : Prop where
  nomid : K.isTickPc s.k.e = false
  exit : (s.k.e = .afterRun ∨ s.k.e = .clear ∨ s.k.e = .none) → s.core.outb = [] ∧ s.ext = []
  note : Note s.k

theorem note_congr {k k1 : K.St} (ha : k1.apps = k.apps) (hq : k1.qs = k.qs) (h : Note k) : Note k1 := by
  unfold Note K.cmdsOf at h ⊢
  rw [ha, hq]; exact h

theorem async_shape (k k1 : K.St) (h : K.step k .async = some k1) :
    k1.apps = k.apps ∧ k1.qs = k.qs ∧ (k1.e = k.e ∨ k1.e = .start) := by
  cases hr : k.r <;> simp only [K.step, hr] at h
  · cases h
  · split at h
    · cases h
    · injection h with h; subst h; exact ⟨rfl, rfl, Or.inl rfl⟩
  · split at h
    · injection h with h; subst h; exact ⟨rfl, rfl, Or.inl rfl⟩
    · injection h with h; subst h; exact ⟨rfl, rfl, Or.inr rfl⟩

theorem dinv_step (kind : Nat → W.Full.Cmd) (caps : W.Full.Caps) {s s' : St} {t : Th} (hi : DInv s)
    (haok : ∀ a ∈ s.k.apps, K.AppOk a) (hsync : Sync s)
    (h : step kind caps s t = some s') : DInv s' := by
  cases t with
  | app j =>
    simp only [step] at h
    cases ha : s.k.apps[j]? with
    | none => simp [ha] at h
    | some a =>
      simp only [ha] at h
      cases hk : K.step s.k (.app j) with
      | none => simp [hk] at h
      | some k1 =>
        simp [hk] at h
        have hk' : K.stepApp s.k j a = some k1 := by simpa [K.step, ha] using hk
        have hnote := stepApp_note s.k k1 j a ha hi.note hk'
        obtain ⟨_, _, he, _, _⟩ := stepApp_proto s.k k1 j a hk'
        by_cases hen : isEnq a = true
        · simp only [hen, if_true] at h; subst h
          refine ⟨by simpa [put, he] using hi.nomid, fun hx => ?_, note_congr rfl rfl hnote⟩
          have hx' : s.k.e = .afterRun ∨ s.k.e = .clear ∨ s.k.e = .none := by simpa [put, he] using hx
          simpa [put, W.Full.step, sysOf] using hi.exit hx'
        · simp only [hen] at h; subst h
          exact ⟨by simpa [he] using hi.nomid, fun hx => hi.exit (by simpa [he] using hx), hnote⟩
  | async =>
    simp only [step] at h
    cases hk : K.step s.k .async with
    | none => simp [hk] at h
    | some k1 =>
      simp [hk] at h
      obtain ⟨h1, h2, h3⟩ := async_shape s.k k1 hk
      have hnm : K.isTickPc k1.e = false := by
        rcases h3 with h3 | h3
        · rw [h3]; exact hi.nomid
        · rw [h3]; rfl
      have hex : (k1.e = .afterRun ∨ k1.e = .clear ∨ k1.e = .none) → s.core.outb = [] ∧ s.ext = [] := by
        intro hx
        rcases h3 with h3 | h3
        · exact hi.exit (by rwa [h3] at hx)
        · rw [h3] at hx; simp at hx
      by_cases hr : s.k.r = .tick
      · simp only [hr, if_true] at h; subst h
        refine ⟨by simpa [put] using hnm, fun hx => ?_, note_congr h1 h2 hi.note⟩
        have := hex (by simpa [put] using hx)
        simpa [put, W.Full.step, sysOf] using this
      · simp only [hr, if_false] at h; subst h
        exact ⟨hnm, hex, note_congr h1 h2 hi.note⟩
  | eng =>
    simp only [step] at h
    split at h
    · rename_i hc
      injection h with h; subst h
      refine ⟨by simp [hc.1, K.isTickPc], fun hx => by simp [hc.1] at hx, ?_⟩
      have hcore : (W.Full.step caps (sysOf s) .tick).core = (W.Full.tick caps s.core).1 := by
        simp [W.Full.step, sysOf, hc.2]
      have hle : LeL (s.k.qs.map fun q => q.cmds.length) (lens (W.Full.step caps (sysOf s) .tick).core) := by
        rw [hcore, hsync]; exact tick_leL caps s.core
      exact tick_note s.k _ hi.note haok hle _
    · split at h
      · cases h
      · cases hk : K.step s.k .eng with
        | none => simp [hk] at h
        | some k1 =>
          simp [hk] at h; obtain ⟨hg, h⟩ := h; subst h
          rename_i hn ht
          obtain ⟨_, h4, h5⟩ := G.eng_other s.k k1 hn (by simpa using ht) hk
          have hnote : Note k1 := note_congr h5 h4 hi.note
          cases he : s.k.e <;> simp only [K.step, he] at hk
          case none => cases hk
          case deq i => simp [he, K.isTickPc] at ht
          case notify i => simp [he, K.isTickPc] at ht
          case start =>
            injection hk with hk; subst hk
            exact ⟨rfl, fun hx => by simp at hx, hnote⟩
          case loop =>
            split at hk
            · rename_i hv; exact absurd ⟨he, hv⟩ hn
            · injection hk with hk; subst hk
              exact ⟨rfl, fun _ => hg he, hnote⟩
          case afterRun =>
            injection hk with hk; subst hk
            exact ⟨rfl, fun _ => hi.exit (Or.inl he), hnote⟩
          case clear =>
            split at hk <;>
            · injection hk with hk; subst hk
              first
                | exact ⟨rfl, fun _ => hi.exit (Or.inr (Or.inl he)), hnote⟩
                | exact ⟨rfl, fun hx => by simp at hx, hnote⟩
  | env ev =>
    simp only [step] at h
    split at h
    · rename_i hc
      injection h with h; subst h
      exact ⟨by simp [put, hc.2, K.isTickPc], fun hx => by simp [put, hc.2] at hx, note_congr rfl rfl hi.note⟩
    · cases h

theorem dinv_reach {kind : Nat → W.Full.Cmd} {caps : W.Full.Caps} {s : St} (h : Reach kind caps s) : DInv s := by
  induction h with
  | init cfg scripts h =>
    refine ⟨by simp [init, K.init, K.isTickPc], fun _ => by simp [init, W.Full.init], ?_⟩
    intro a ha hb
    simp only [init, K.init, List.mem_map] at ha
    obtain ⟨sc, _, rfl⟩ := ha
    simp [K.blockedEmpty] at hb
  | step t hr hs ih => exact dinv_step _ _ ih (ginv_reach hr).aok (sync_reach hr) hs

theorem stepApp_none (k : K.St) (j : Nat) (a : K.App) (h : K.stepApp k j a = none) (hr : k.r = .idle) :
    K.appDone a ∨ a.pc = .waiting := by
  obtain ⟨pc, script, q, sub, tok, ret⟩ := a
  cases pc
  case idle =>
    cases script with
    | nil => exact Or.inl ⟨rfl, rfl⟩
    | cons op rest => cases op <;> simp [K.stepApp] at h
  case waiting => exact Or.inr rfl
  all_goals simp [K.stepApp, hr] at h
  all_goals (split at h <;> cases h)

theorem reach_of_runSched {kind : Nat → W.Full.Cmd} {caps : W.Full.Caps} (ts : List Th) :
    ∀ (s s' : St), Reach kind caps s → runSched kind caps s ts = some s' → Reach kind caps s' := by
  induction ts with
  | nil => intro s s' hr h; simp [runSched] at h; subst h; exact hr
  | cons t ts ih =>
    intro s s' hr h
    simp only [runSched] at h
    cases hs : step kind caps s t with
    | none => simp [hs] at h
    | some s1 => simp only [hs] at h; exact ih s1 s' (Reach.step t hr hs) h

end F
end E
end C12
