import MgpuProofs.C11MqLive
/-! Liveness of the multi-queue copy model under EVERY fair schedule (helpers for
`Props/C11MqFair.lean`): the measure `MqEnv.fairMeasure = 2·potential + |portOut|` never grows under a
move that is not an enqueue, it falls strictly unless the move is a no-op that leaves the state
unchanged (`MqEnv.noop`), and a state in which all three kinds of move are no-ops has every queue
empty. Hence in every infinite schedule in which ticks, takes (of at least one request) and answers
recur for ever, every queue becomes empty and stays empty. -/
namespace C11

/-! ## the measure -/

/-- `MqEnv.fairMeasure` with the queue list and the number of requests at the GPU side as parameters -/
def mqFm (s : Mq) (qs : List MqQueue) (o : Nat) : Nat := 2 * mqPot s qs o + s.portOut.length

/-- twice the potential plus the number of requests waiting in the GPU port: a request in the port
    weighs 5, one taken by the GPU side 4, so also `take` makes the measure fall -/
def MqEnv.fairMeasure (e : MqEnv) : Nat := 2 * e.potential + e.s.portOut.length

theorem MqEnv.fairMeasure_eq (e : MqEnv) : e.fairMeasure = mqFm e.s e.s.queues e.outstanding.length := rfl

/-- the tick does nothing: nothing can be sent (nothing to send, or the port's buffer is full), the
    delay line is idle, no answer waits, no queue can start a command -/
def Mq.quietTick (s : Mq) : Prop :=
  (s.toSend = [] ∨ ¬ s.portOut.length < 40960000) ∧ s.cyclesLeft < 0 ∧ s.portIn = [] ∧ s.noStart

/-- the move `op` does nothing in state `e` -/
def MqEnv.noop (e : MqEnv) : MqOp → Prop
  | .enq _ _ => False
  | .tick => e.s.quietTick
  | .take k => k = 0 ∨ e.s.portOut = []
  | .rsp _ => e.outstanding = []

instance (s : Mq) : Decidable s.noStart := by unfold Mq.noStart; infer_instance

instance (s : Mq) : Decidable s.quietTick := by unfold Mq.quietTick; infer_instance

instance (e : MqEnv) (op : MqOp) : Decidable (e.noop op) := by
  cases op <;> unfold MqEnv.noop <;> infer_instance

/-! ## the stages of a tick, without any assumption on the port -/

theorem Mq.sendToGPUs_fm (s : Mq) (qs : List MqQueue) (o : Nat) :
    mqFm s.sendToGPUs.1 qs o + 1 ≤ mqFm s qs o ∨
    (s.sendToGPUs.1 = s ∧ (s.toSend = [] ∨ ¬ s.portOut.length < 40960000)) := by
  rcases s.sendToGPUs_cases with ⟨e, h⟩ | ⟨r, rest, hts, _, e⟩
  · right; rw [e]; exact ⟨rfl, h⟩
  · left
    rw [e]
    simp only [mqFm, mqPot, hts, List.length_cons, List.length_append, List.length_nil]
    omega

theorem Mq.delay_portOut (s : Mq) : s.delay.1.portOut = s.portOut := by
  rcases s.delay_cases with ⟨_, e⟩ | ⟨_, e⟩ | ⟨_, e⟩ <;> rw [e]

theorem Mq.delay_fm (s : Mq) (qs : List MqQueue) (o : Nat) :
    mqFm s.delay.1 qs o + 1 ≤ mqFm s qs o ∨ (s.delay.1 = s ∧ s.cyclesLeft < 0) := by
  rcases s.delay_pot qs o with h | h
  · left
    unfold mqFm
    rw [s.delay_portOut]
    omega
  · right; exact h

theorem Mq.response_portOut (s : Mq) : s.response.1.portOut = s.portOut := by
  rcases s.response_cases with ⟨_, e⟩ | ⟨id, rest, _, _, e⟩ | ⟨id, rest, qs', c, _, _, e⟩ <;> rw [e]

theorem Mq.response_fm {g a b n : Nat} {s : Mq} {out : List MqReq} {en : List (Nat × MqCmd)}
    (h : MInv g a b n s s.queues out en) (o : Nat) :
    mqFm s.response.1 s.response.1.queues o + 1 ≤ mqFm s s.queues o ∨ (s.response.1 = s ∧ s.portIn = []) := by
  rcases Mq.response_pot h o with h1 | h1
  · left
    unfold mqFm
    rw [s.response_portOut]
    omega
  · right; exact h1

theorem Mq.startAll_portOut (s : Mq) : s.startAll.1.portOut = s.portOut :=
  (mqStartAll_acc s.queues s 0 rfl rfl).po

/-- `processNewCommand` either makes the potential fall or leaves the state as it is -/
theorem Mq.startAll_pot' (s : Mq) (o : Nat) :
    mqPot s.startAll.1 s.startAll.1.queues o + 1 ≤ mqPot s s.queues o ∨ (s.startAll.1 = s ∧ s.noStart) := by
  have acc := mqStartAll_acc s.queues s 0 rfl rfl
  cases hf : (mqStartAll s 0 s.queues).2.2 with
  | false =>
    obtain ⟨e1, e2, e3⟩ := acc.none hf
    right
    refine ⟨?_, e3⟩
    show ({ (mqStartAll s 0 s.queues).1 with queues := (mqStartAll s 0 s.queues).2.1 } : Mq) = s
    rw [e1, e2]
  | true =>
    left
    have hP : mqPot s.startAll.1 s.startAll.1.queues o =
        mqQW (max s.cycH2D s.cycD2H + 2) s.nGpus (mqStartAll s 0 s.queues).2.1 +
        mqTimer (mqStartAll s 0 s.queues).1.cyclesLeft + mqMass (mqStartAll s 0 s.queues).1 +
        2 * (s.portOut.length + o) + s.portIn.length := by
      show mqPot (mqStartAll s 0 s.queues).1 (mqStartAll s 0 s.queues).2.1 o = _
      unfold mqPot mqMass
      rw [acc.cfg_g, acc.cfg_a, acc.cfg_b, acc.po, acc.pin]
      omega
    have hQ : mqPot s s.queues o = mqQW (max s.cycH2D s.cycD2H + 2) s.nGpus s.queues + mqTimer s.cyclesLeft +
        mqMass s + 2 * (s.portOut.length + o) + s.portIn.length := by
      unfold mqPot mqMass; omega
    rw [hP, hQ]
    obtain ⟨a1, a2⟩ := acc.some hf
    omega

theorem Mq.startAll_fm (s : Mq) (o : Nat) :
    mqFm s.startAll.1 s.startAll.1.queues o + 1 ≤ mqFm s s.queues o ∨ (s.startAll.1 = s ∧ s.noStart) := by
  rcases s.startAll_pot' o with h | h
  · left
    unfold mqFm
    rw [s.startAll_portOut]
    omega
  · right; exact h

section
variable {g a b n : Nat} {s : Mq} {out : List MqReq} {en : List (Nat × MqCmd)}

/-- a tick makes the measure fall, or it is quiet and leaves the state as it is — whatever is in the
    GPU port (the port's outgoing buffer may be full) -/
theorem Mq.tick_fm (h : MInv g a b n s s.queues out en) (o : Nat) :
    mqFm s.tick.1 s.tick.1.queues o + 1 ≤ mqFm s s.queues o ∨ (s.tick.1 = s ∧ s.quietTick) := by
  rw [Mq.tick_eq h]
  have ha := h.sendToGPUs'
  have hb := ha.delay'
  have hA : mqFm s.sendToGPUs.1 s.sendToGPUs.1.queues o + 1 ≤ mqFm s s.queues o ∨
      (s.sendToGPUs.1 = s ∧ (s.toSend = [] ∨ ¬ s.portOut.length < 40960000)) := by
    rw [s.sendToGPUs_queues]; exact s.sendToGPUs_fm s.queues o
  have hB : mqFm s.sendToGPUs.1.delay.1 s.sendToGPUs.1.delay.1.queues o + 1 ≤
        mqFm s.sendToGPUs.1 s.sendToGPUs.1.queues o ∨
      (s.sendToGPUs.1.delay.1 = s.sendToGPUs.1 ∧ s.sendToGPUs.1.cyclesLeft < 0) := by
    rw [s.sendToGPUs.1.delay_queues]; exact s.sendToGPUs.1.delay_fm s.sendToGPUs.1.queues o
  have hC := Mq.response_fm hb o
  have hD := s.sendToGPUs.1.delay.1.response.1.startAll_fm o
  have hBw : mqFm s.sendToGPUs.1.delay.1 s.sendToGPUs.1.delay.1.queues o ≤
      mqFm s.sendToGPUs.1 s.sendToGPUs.1.queues o := by
    rcases hB with hB | ⟨eb, _⟩
    · omega
    · rw [eb]; exact Nat.le_refl _
  have hCw : mqFm s.sendToGPUs.1.delay.1.response.1 s.sendToGPUs.1.delay.1.response.1.queues o ≤
      mqFm s.sendToGPUs.1.delay.1 s.sendToGPUs.1.delay.1.queues o := by
    rcases hC with hC | ⟨ec, _⟩
    · omega
    · rw [ec]; exact Nat.le_refl _
  have hDw : mqFm s.sendToGPUs.1.delay.1.response.1.startAll.1
        s.sendToGPUs.1.delay.1.response.1.startAll.1.queues o ≤
      mqFm s.sendToGPUs.1.delay.1.response.1 s.sendToGPUs.1.delay.1.response.1.queues o := by
    rcases hD with hD | ⟨ed, _⟩
    · omega
    · rw [ed]; exact Nat.le_refl _
  rcases hA with hA | ⟨ea, hts⟩
  · left; omega
  · rw [ea] at hB hC hD hCw hDw ⊢
    rcases hB with hB | ⟨eb, hcyc⟩
    · left; omega
    · rw [eb] at hC hD hDw ⊢
      rcases hC with hC | ⟨ec, hpi⟩
      · left; omega
      · rw [ec] at hD ⊢
        rcases hD with hD | ⟨ed, hns⟩
        · left; exact hD
        · right; exact ⟨ed, hts, hcyc, hpi, hns⟩

theorem mqStartAll_noStart : ∀ (qs : List MqQueue) (s : Mq) (qi : Nat),
    (∀ q ∈ qs, q.cmds = [] ∨ q.running = true) → mqStartAll s qi qs = (s, qs, false)
  | [], _, _, _ => rfl
  | q :: rest, s, qi, h => by
    have e : s.start qi q = (s, q, false) := by
      rcases s.start_cases qi q with ⟨_, e⟩ | ⟨c, rest', hc, hr, _⟩ | ⟨c, rest', hc, hr, _⟩
      · exact e
      · rcases h q (List.mem_cons_self ..) with h1 | h1
        · rw [h1] at hc; cases hc
        · rw [h1] at hr; cases hr
      · rcases h q (List.mem_cons_self ..) with h1 | h1
        · rw [h1] at hc; cases hc
        · rw [h1] at hr; cases hr
    unfold mqStartAll
    simp only [e]
    rw [mqStartAll_noStart rest s (qi + 1) (fun q' hq' => h q' (List.mem_cons_of_mem _ hq'))]
    rfl

theorem Mq.startAll_quiet (s : Mq) (h : s.noStart) : s.startAll.1 = s := by
  show ({ (mqStartAll s 0 s.queues).1 with queues := (mqStartAll s 0 s.queues).2.1 } : Mq) = s
  rw [mqStartAll_noStart s.queues s 0 h]

/-- a quiet tick leaves the driver state as it is -/
theorem Mq.tick_quiet (h : MInv g a b n s s.queues out en) (hq : s.quietTick) : s.tick.1 = s := by
  obtain ⟨hts, hcyc, hpi, hns⟩ := hq
  have e1 : s.sendToGPUs.1 = s := by
    rcases s.sendToGPUs_cases with ⟨e, _⟩ | ⟨r, rest, hr, hl, _⟩
    · rw [e]
    · rcases hts with hts | hts
      · rw [hts] at hr; cases hr
      · exact absurd hl hts
  have e2 : s.delay.1 = s := by
    rcases s.delay_cases with ⟨hc, _⟩ | ⟨hc, _⟩ | ⟨_, e⟩
    · omega
    · omega
    · rw [e]
  have e3 : s.response.1 = s := by
    rcases s.response_cases with ⟨_, e⟩ | ⟨id, rest, hp, _⟩ | ⟨id, rest, qs', c, hp, _⟩
    · rw [e]
    · rw [hpi] at hp; cases hp
    · rw [hpi] at hp; cases hp
  rw [Mq.tick_eq h, e1, e2, e3, s.startAll_quiet hns]

end

/-! ## one move of the environment -/

section
variable {g a b n : Nat} {e : MqEnv}

theorem MqEnv.step_tick_fair (h : e.Inv g a b n) :
    (e.step .tick).1.fairMeasure + 1 ≤ e.fairMeasure ∨ ((e.step .tick).1 = e ∧ e.s.quietTick) := by
  rcases Mq.tick_fm h e.outstanding.length with h1 | ⟨h1, h2⟩
  · left; exact h1
  · right
    refine ⟨?_, h2⟩
    show ({ e with s := e.s.tick.1 } : MqEnv) = e
    rw [h1]

theorem MqEnv.step_take_noop (e : MqEnv) {k : Nat} (hk : k = 0 ∨ e.s.portOut = []) : (e.step (.take k)).1 = e := by
  have h1 : e.s.portOut.drop k = e.s.portOut := by
    rcases hk with rfl | hp
    · rfl
    · rw [hp, List.drop_nil]
  have h2 : e.s.portOut.take k = [] := by
    rcases hk with rfl | hp
    · rfl
    · rw [hp, List.take_nil]
  show ({ e with s := { e.s with portOut := e.s.portOut.drop k }, outstanding := e.outstanding ++ e.s.portOut.take k,
                 seen := e.seen ++ e.s.portOut.take k } : MqEnv) = e
  rw [h1, h2, List.append_nil, List.append_nil]

theorem MqEnv.step_take_fair (e : MqEnv) (k : Nat) :
    (e.step (.take k)).1.fairMeasure + 1 ≤ e.fairMeasure ∨
    ((e.step (.take k)).1 = e ∧ (k = 0 ∨ e.s.portOut = [])) := by
  by_cases hk : k = 0 ∨ e.s.portOut = []
  · exact .inr ⟨e.step_take_noop hk, hk⟩
  · left
    have hk0 : 0 < k := by
      apply Nat.pos_of_ne_zero
      intro h0; exact hk (.inl h0)
    have hlen : 0 < e.s.portOut.length := by
      apply List.length_pos_iff.2
      intro h0; exact hk (.inr h0)
    show mqFm { e.s with portOut := e.s.portOut.drop k } e.s.queues (e.outstanding ++ e.s.portOut.take k).length + 1 ≤
      mqFm e.s e.s.queues e.outstanding.length
    simp only [mqFm, mqPot, List.length_append, List.length_drop, List.length_take]
    omega

theorem MqEnv.step_rsp_noop (e : MqEnv) (j : Nat) (ho : e.outstanding = []) : (e.step (.rsp j)).1 = e := by
  simp only [MqEnv.step, ho]

theorem MqEnv.step_rsp_fair (e : MqEnv) (j : Nat) :
    (e.step (.rsp j)).1.fairMeasure + 1 ≤ e.fairMeasure ∨ ((e.step (.rsp j)).1 = e ∧ e.outstanding = []) := by
  by_cases ho : e.outstanding = []
  · exact .inr ⟨e.step_rsp_noop j ho, ho⟩
  · left
    have hlen : 0 < e.outstanding.length := List.length_pos_iff.2 ho
    have hj : j % e.outstanding.length < e.outstanding.length := Nat.mod_lt _ hlen
    simp only [MqEnv.step]
    split
    · rename_i hn
      rw [List.getElem?_eq_none_iff] at hn
      omega
    · rename_i r hr
      show mqFm { e.s with portIn := e.s.portIn ++ [r.id] } e.s.queues
          (e.outstanding.eraseIdx (j % e.outstanding.length)).length + 1 ≤
        mqFm e.s e.s.queues e.outstanding.length
      simp only [mqFm, mqPot, List.length_append, List.length_eraseIdx, if_pos hj, List.length_cons,
        List.length_nil]
      omega

/-- **One move.** A move that is not an enqueue makes the measure fall, or it is a no-op and leaves
    the state as it is. -/
theorem MqEnv.Inv.step_fair (h : e.Inv g a b n) (op : MqOp) (hop : ∀ q c, op ≠ .enq q c) :
    (e.step op).1.fairMeasure + 1 ≤ e.fairMeasure ∨ ((e.step op).1 = e ∧ e.noop op) := by
  cases op with
  | enq q c => exact absurd rfl (hop q c)
  | tick => exact MqEnv.step_tick_fair h
  | take k => exact e.step_take_fair k
  | rsp j => exact e.step_rsp_fair j

/-- a no-op leaves the state as it is -/
theorem MqEnv.Inv.step_noop (h : e.Inv g a b n) {op : MqOp} (hn : e.noop op) : (e.step op).1 = e := by
  cases op with
  | enq q c => exact absurd hn id
  | tick =>
    show ({ e with s := e.s.tick.1 } : MqEnv) = e
    rw [Mq.tick_quiet h hn]
  | take k => exact e.step_take_noop hn
  | rsp j => exact e.step_rsp_noop j hn

theorem MqEnv.Inv.step_fair_le (h : e.Inv g a b n) (op : MqOp) (hop : ∀ q c, op ≠ .enq q c) :
    (e.step op).1.fairMeasure ≤ e.fairMeasure := by
  rcases h.step_fair op hop with h1 | ⟨h1, _⟩
  · omega
  · rw [h1]; exact Nat.le_refl _

theorem MqEnv.Inv.step_fair_lt_iff (h : e.Inv g a b n) (op : MqOp) (hop : ∀ q c, op ≠ .enq q c) :
    (e.step op).1.fairMeasure < e.fairMeasure ↔ ¬ e.noop op := by
  constructor
  · intro hlt hn
    rw [h.step_noop hn] at hlt
    exact Nat.lt_irrefl _ hlt
  · intro hn
    rcases h.step_fair op hop with h1 | ⟨_, h2⟩
    · omega
    · exact absurd h2 hn

/-- the state changes exactly if the move is not a no-op -/
theorem MqEnv.Inv.step_ne_iff (h : e.Inv g a b n) (op : MqOp) (hop : ∀ q c, op ≠ .enq q c) :
    (e.step op).1 ≠ e ↔ ¬ e.noop op := by
  constructor
  · intro hne hn; exact hne (h.step_noop hn)
  · intro hn heq
    have := (h.step_fair_lt_iff op hop).2 hn
    rw [heq] at this
    exact Nat.lt_irrefl _ this

/-- **No deadlock.** If no kind of move can change the state — the tick is quiet, the GPU port holds
    no request, the GPU side holds no request — then every queue is empty. -/
theorem MqEnv.Inv.noop_allDone (h : e.Inv g a b n) (ht : e.s.quietTick) (hpo : e.s.portOut = [])
    (hout : e.outstanding = []) : e.allDone := by
  obtain ⟨hts, hcyc, hpi, hns⟩ := ht
  have hts' : e.s.toSend = [] := by
    rcases hts with hts | hts
    · exact hts
    · rw [hpo] at hts; exact absurd (by decide) hts
  exact h.quiet_allDone hts' hcyc hpi hout hpo hns

/-- once every queue is empty it stays empty under every move that is not an enqueue -/
theorem MqEnv.allDone_step (hd : e.allDone) (op : MqOp) (hop : ∀ q c, op ≠ .enq q c) : (e.step op).1.allDone := by
  cases op with
  | enq q c => exact absurd rfl (hop q c)
  | tick => exact Mq.tick_idle e.s hd
  | take k => exact hd
  | rsp j =>
    simp only [MqEnv.step]
    split
    · exact hd
    · split
      · exact hd
      · exact hd

end

/-! ## finite runs: the number of moves that change the state -/

/-- number of moves of `ops`, run from `e`, that change the state -/
def MqEnv.productive (e : MqEnv) : List MqOp → Nat
  | [] => 0
  | op :: rest => (if (e.step op).1 = e then 0 else 1) + (e.step op).1.productive rest

theorem MqEnv.Inv.productive_le {g a b n : Nat} : ∀ (ops : List MqOp) {e : MqEnv}, e.Inv g a b n →
    (∀ op ∈ ops, ∀ q c, op ≠ .enq q c) → e.productive ops + (e.run ops).fairMeasure ≤ e.fairMeasure
  | [], e, _, _ => by simp [MqEnv.productive, MqEnv.run]
  | op :: rest, e, h, hops => by
    have hop := hops op (List.mem_cons_self ..)
    have ih := MqEnv.Inv.productive_le rest (h.step op) (fun o ho => hops o (List.mem_cons_of_mem _ ho))
    show (if (e.step op).1 = e then 0 else 1) + (e.step op).1.productive rest +
      ((e.step op).1.run rest).fairMeasure ≤ e.fairMeasure
    rcases h.step_fair op hop with h1 | ⟨h1, _⟩
    · split <;> omega
    · rw [if_pos h1]
      rw [h1] at ih ⊢
      omega

/-! ## infinite schedules -/

/-- the state after the first `N` moves of the infinite schedule `σ` -/
def mqRunSched (e : MqEnv) (σ : Nat → MqOp) : Nat → MqEnv
  | 0 => e
  | N + 1 => ((mqRunSched e σ N).step (σ N)).1

/-- a fair schedule: no command is enqueued any more, and ticks, takes of at least one request, and
    answers each recur for ever -/
def MqFair (σ : Nat → MqOp) : Prop :=
  (∀ i, ∀ q c, σ i ≠ .enq q c) ∧
  ∀ i, (∃ j ≥ i, σ j = .tick) ∧ (∃ j ≥ i, ∃ k ≥ 1, σ j = .take k) ∧ (∃ j ≥ i, ∃ x, σ j = .rsp x)

theorem MqEnv.run_snoc : ∀ (l : List MqOp) (e : MqEnv) (op : MqOp), e.run (l ++ [op]) = ((e.run l).step op).1
  | [], _, _ => rfl
  | o :: l, e, op => by
    show ((e.step o).1).run (l ++ [op]) = _
    rw [MqEnv.run_snoc l]
    rfl

/-- the state after `N` moves of the schedule is the finite run of its first `N` moves -/
theorem mqRunSched_eq_run (e : MqEnv) (σ : Nat → MqOp) : ∀ N, mqRunSched e σ N = e.run ((List.range N).map σ)
  | 0 => rfl
  | N + 1 => by
    rw [List.range_succ, List.map_append, List.map_cons, List.map_nil, MqEnv.run_snoc, ← mqRunSched_eq_run e σ N]
    rfl

theorem mqRunSched_add (e : MqEnv) (σ : Nat → MqOp) (T : Nat) : ∀ M,
    mqRunSched e σ (T + M) = mqRunSched (mqRunSched e σ T) (fun i => σ (T + i)) M
  | 0 => rfl
  | M + 1 => by
    show ((mqRunSched e σ (T + M)).step (σ (T + M))).1 = _
    rw [mqRunSched_add e σ T M]
    rfl

theorem mqRunSched_fix {e : MqEnv} {σ : Nat → MqOp} (h : ∀ i, (e.step (σ i)).1 = e) : ∀ N, mqRunSched e σ N = e
  | 0 => rfl
  | N + 1 => by
    show ((mqRunSched e σ N).step (σ N)).1 = e
    rw [mqRunSched_fix h N, h N]

theorem MqFair.suffix {σ : Nat → MqOp} (h : MqFair σ) (T : Nat) : MqFair fun i => σ (T + i) := by
  refine ⟨fun i => h.1 (T + i), fun i => ?_⟩
  obtain ⟨⟨jt, hjt, ht⟩, ⟨jk, hjk, k, hk, hk'⟩, ⟨jr, hjr, x, hx⟩⟩ := h.2 (T + i)
  refine ⟨⟨jt - T, by omega, ?_⟩, ⟨jk - T, by omega, k, hk, ?_⟩, ⟨jr - T, by omega, x, ?_⟩⟩
  · show σ (T + (jt - T)) = _
    rw [show T + (jt - T) = jt by omega]; exact ht
  · show σ (T + (jk - T)) = _
    rw [show T + (jk - T) = jk by omega]; exact hk'
  · show σ (T + (jr - T)) = _
    rw [show T + (jr - T) = jr by omega]; exact hx

section
variable {g a b n : Nat} {e : MqEnv} {σ : Nat → MqOp}

theorem MqEnv.Inv.sched (h : e.Inv g a b n) (σ : Nat → MqOp) : ∀ N, (mqRunSched e σ N).Inv g a b n
  | 0 => h
  | N + 1 => (MqEnv.Inv.sched h σ N).step (σ N)

theorem MqEnv.allDone_sched (hd : e.allDone) (hσ : ∀ i, ∀ q c, σ i ≠ .enq q c) : ∀ N, (mqRunSched e σ N).allDone
  | 0 => hd
  | N + 1 => MqEnv.allDone_step (MqEnv.allDone_sched hd hσ N) (σ N) (hσ N)

/-- along a schedule without enqueues the measure never grows -/
theorem MqEnv.Inv.sched_le (h : e.Inv g a b n) (hσ : ∀ i, ∀ q c, σ i ≠ .enq q c) :
    ∀ N, (mqRunSched e σ N).fairMeasure ≤ e.fairMeasure
  | 0 => Nat.le_refl _
  | N + 1 => Nat.le_trans ((h.sched σ N).step_fair_le (σ N) (hσ N)) (MqEnv.Inv.sched_le h hσ N)

/-- under a fair schedule either every queue is empty already or the measure falls at some time -/
theorem MqEnv.Inv.fair_progress (h : e.Inv g a b n) (hσ : MqFair σ) :
    e.allDone ∨ ∃ T, (mqRunSched e σ T).fairMeasure < e.fairMeasure := by
  by_cases hT : ∃ T, (mqRunSched e σ T).fairMeasure < e.fairMeasure
  · exact .inr hT
  · left
    have hstep : ∀ T, mqRunSched e σ T = e → mqRunSched e σ (T + 1) = e ∧ e.noop (σ T) := by
      intro T hTe
      have hs : mqRunSched e σ (T + 1) = (e.step (σ T)).1 := by
        show ((mqRunSched e σ T).step (σ T)).1 = _
        rw [hTe]
      rcases h.step_fair (σ T) (hσ.1 T) with h1 | ⟨h1, h2⟩
      · exfalso
        apply hT
        refine ⟨T + 1, ?_⟩
        rw [hs]; omega
      · exact ⟨hs.trans h1, h2⟩
    have hfix : ∀ T, mqRunSched e σ T = e := by
      intro T
      induction T with
      | zero => rfl
      | succ T ih => exact (hstep T ih).1
    have hnoop : ∀ T, e.noop (σ T) := fun T => (hstep T (hfix T)).2
    obtain ⟨⟨jt, _, ht⟩, ⟨jk, _, k, hk, hk'⟩, ⟨jr, _, x, hx⟩⟩ := hσ.2 0
    have h1 := hnoop jt
    rw [ht] at h1
    have h2 := hnoop jk
    rw [hk'] at h2
    have h3 := hnoop jr
    rw [hx] at h3
    have hpo : e.s.portOut = [] := by
      rcases h2 with h2 | h2
      · omega
      · exact h2
    exact h.noop_allDone h1 hpo h3

/-- **Liveness under every fair schedule**, by induction on the measure -/
theorem MqEnv.Inv.fair_allDone (m : Nat) : ∀ {e : MqEnv}, e.Inv g a b n → e.fairMeasure ≤ m →
    ∀ σ, MqFair σ → ∃ N, ∀ M, M ≥ N → (mqRunSched e σ M).allDone := by
  induction m with
  | zero =>
    intro e h hm σ hσ
    rcases h.fair_progress hσ with hd | ⟨T, hT⟩
    · exact ⟨0, fun M _ => MqEnv.allDone_sched hd hσ.1 M⟩
    · omega
  | succ m ih =>
    intro e h hm σ hσ
    rcases h.fair_progress hσ with hd | ⟨T, hT⟩
    · exact ⟨0, fun M _ => MqEnv.allDone_sched hd hσ.1 M⟩
    · obtain ⟨N, hN⟩ := ih (h.sched σ T) (by omega) (fun i => σ (T + i)) (hσ.suffix T)
      refine ⟨T + N, fun M hM => ?_⟩
      have hMT : M = T + (M - T) := by omega
      rw [hMT, mqRunSched_add]
      exact hN _ (by omega)

end

/-! ## a schedule that is not fair can get stuck -/

/-- if from time `N0` on no move of the schedule changes the state, the state stays what it is -/
theorem mqRunSched_stuck {e : MqEnv} {σ : Nat → MqOp} (N0 : Nat)
    (h : ∀ i, ((mqRunSched e σ N0).step (σ (N0 + i))).1 = mqRunSched e σ N0) :
    ∀ M, mqRunSched e σ (N0 + M) = mqRunSched e σ N0 := by
  intro M
  rw [mqRunSched_add]
  exact mqRunSched_fix h M

theorem mqRunSched_stuck_not_live {e : MqEnv} {σ : Nat → MqOp} (N0 : Nat)
    (h : ∀ i, ((mqRunSched e σ N0).step (σ (N0 + i))).1 = mqRunSched e σ N0)
    (hnd : ¬ (mqRunSched e σ N0).allDone) : ¬ ∃ N, ∀ M, M ≥ N → (mqRunSched e σ M).allDone := by
  rintro ⟨N, hN⟩
  have := hN (N0 + N) (by omega)
  rw [mqRunSched_stuck N0 h N] at this
  exact hnd this

/-! ## when every queue is empty every enqueued command has completed -/

theorem MqEnv.step_enq (e : MqEnv) (op : MqOp) (hop : ∀ q c, op ≠ .enq q c) : (e.step op).1.enq = e.enq := by
  cases op with
  | enq q c => exact absurd rfl (hop q c)
  | tick => rfl
  | take k => rfl
  | rsp j =>
    simp only [MqEnv.step]
    split
    · rfl
    · split <;> rfl

theorem MqEnv.sched_enq (e : MqEnv) {σ : Nat → MqOp} (hσ : ∀ i, ∀ q c, σ i ≠ .enq q c) :
    ∀ N, (mqRunSched e σ N).enq = e.enq
  | 0 => rfl
  | N + 1 => ((mqRunSched e σ N).step_enq (σ N) (hσ N)).trans (MqEnv.sched_enq e hσ N)

/-- every queue empty: the completions of queue `qi` are exactly the commands enqueued on it -/
theorem MqEnv.Inv.allDone_completed {g a b n : Nat} {e : MqEnv} (h : e.Inv g a b n) (hd : e.allDone)
    {qi : Nat} {q : MqQueue} (hq : e.s.queues[qi]? = some q) :
    q.done = (e.enqOf qi).length ∧
    (e.s.completed.filter (·.1 = qi)).map (·.2) = List.range (e.enqOf qi).length := by
  have hc : q.cmds = [] := hd q (List.mem_of_getElem? hq)
  have h1 : (mqEnqOf e.enq qi).drop q.done = [] := (h.q.enq_drop qi q hq).trans hc
  have h2 : (mqEnqOf e.enq qi).length ≤ q.done := List.drop_eq_nil_iff.1 h1
  have h3 : q.done ≤ (mqEnqOf e.enq qi).length := h.q.enq_done qi q hq
  have h4 : q.done = (e.enqOf qi).length := Nat.le_antisymm h3 h2
  exact ⟨h4, h4 ▸ h.q.comp_range qi q hq⟩

/-! ## enqueues for ever keep a queue busy -/

theorem MqEnv.enq_not_allDone (e : MqEnv) {qi : Nat} (c : MqCmd) (hlt : qi < e.s.queues.length) :
    ¬ (e.step (.enq qi c)).1.allDone := by
  intro hd
  obtain ⟨q0, hk⟩ : ∃ q0, e.s.queues[qi]? = some q0 := ⟨_, List.getElem?_eq_getElem hlt⟩
  have hs : (e.step (.enq qi c)).1.s.queues = e.s.queues.set qi { q0 with cmds := q0.cmds ++ [c] } := by
    simp only [MqEnv.step, if_pos hlt]
    exact mq_modify_eq_set _ hk
  have hm : ({ q0 with cmds := q0.cmds ++ [c] } : MqQueue) ∈ (e.step (.enq qi c)).1.s.queues := by
    rw [hs]
    exact List.mem_of_getElem? (mq_set_self hk)
  have := hd _ hm
  simp at this

/-- a schedule that enqueues on queue 0 again and again finds a queue busy at arbitrarily late times -/
theorem MqEnv.Inv.enq_recurs_busy {g a b n : Nat} {e : MqEnv} (h : e.Inv g a b n) (hn : 1 ≤ n) {σ : Nat → MqOp}
    (hσ : ∀ i, ∃ j ≥ i, ∃ c, σ j = .enq 0 c) : ∀ N, ∃ M ≥ N, ¬ (mqRunSched e σ M).allDone := by
  intro N
  obtain ⟨j, hj, c, hc⟩ := hσ N
  refine ⟨j + 1, by omega, ?_⟩
  show ¬ ((mqRunSched e σ j).step (σ j)).1.allDone
  rw [hc]
  apply MqEnv.enq_not_allDone
  rw [(h.sched σ j).qlen]
  exact hn

end C11
