import MgpuProofs.C03VConfOps
import MgpuProofs.Props.C06Deep
/-! # C03 (vector half) — the translated lane bodies with an inner loop / a library sort equal the ISA lane functions

`translate/lanedeep.go` (property C06) translates the bit loops of `v_bfrev_b32` (both ALUs, two different loops) and
`v_ffbh_u32` (CDNA3: a downward scan with `break`) as `List.foldl` over the constant iteration range, and the
`sort.Ints` of a three-element slice in `v_med3_i32` as `C06.Go.sortInts3` (Go's insertion sort of < 12 elements).
This file proves the loops / the sort equal to the specification's `bfrev` (`BitVec.reverse`), `ffbh`
(`31 - log2`, −1 for 0) and `med3I` (`max(min(a,b), min(max(a,b),c))` on signed values) for ALL operands. -/
namespace C03V.Conf
open C03V C03V.I Gen.Lane
open C06 (Uni RawIn RawOut LaneHandler setBit)
set_option linter.unusedSimpArgs false

/-! ## loop-variable arithmetic: `j := BitVec.ofNat 64 n` for `n < 32` -/

theorem ofNat64_toNat32 (n : Nat) (hn : n < 32) : (BitVec.ofNat 64 n).toNat = n := by
  simp only [BitVec.toNat_ofNat]; omega

theorem sub31_toNat (n : Nat) (hn : n < 32) : ((31#64) - BitVec.ofNat 64 n).toNat = 31 - n := by
  simp only [BitVec.toNat_sub, BitVec.toNat_ofNat]; omega

theorem sub31_sw32 (n : Nat) (hn : n < 32) : ((31#64) - BitVec.ofNat 64 n).setWidth 32 = BitVec.ofNat 32 (31 - n) := by
  apply BitVec.eq_of_toNat_eq
  simp only [BitVec.toNat_setWidth, BitVec.toNat_sub, BitVec.toNat_ofNat]; omega

theorem range'_32 : List.range' 0 32 = List.range 32 := by decide

theorem foldl_congr_mem {α β} (f g : α → β → α) (l : List β) (a : α) (H : ∀ a, ∀ b ∈ l, f a b = g a b) :
    l.foldl f a = l.foldl g a := by
  induction l generalizing a with
  | nil => rfl
  | cons x xs ih =>
    simp only [List.foldl_cons]
    rw [H a x List.mem_cons_self]
    exact ih _ (fun a b hb => H a b (List.mem_cons_of_mem _ hb))

/-! ## `v_bfrev_b32` -/

/-- the GCN3 loop (`bit := 1 << (31-j); bit = src & bit; bit >>= 31-j; bit <<= j; dst |= bit`, aluvop1.go) -/
theorem gcn3_bfrev_fold (src : BitVec 32) :
    (List.range' 0 32).foldl (fun (st : BitVec 32) (n : Nat) =>
      st ||| (((src &&& ((1#32) <<< ((31#64) - BitVec.ofNat 64 n).toNat)) >>> ((31#64) - BitVec.ofNat 64 n).toNat)
        <<< (BitVec.ofNat 64 n).toNat)) (0#32) = bfrev src := by
  rw [bfrev, ← C03S.gcn3_brevLoop_eq, C03S.Hand.gcn3.brevLoop, range'_32]
  apply foldl_congr_mem
  intro a b hb
  have hb' : b < 32 := List.mem_range.1 hb
  simp only [sub31_toNat b hb', ofNat64_toNat32 b hb']

/-- the CDNA3 loop (`if src & (1<<j) != 0 { dst |= 1 << (31-j) }`, cdna3/vop1.go) -/
theorem cdna3_bfrev_fold (src : BitVec 32) :
    (List.range' 0 32).foldl (fun (st : BitVec 32) (n : Nat) =>
      if ((src &&& ((1#32) <<< (BitVec.ofNat 64 n).toNat)) != (0#32)) then
        st ||| ((1#32) <<< ((31#64) - BitVec.ofNat 64 n).toNat)
      else st) (0#32) = bfrev src := by
  rw [bfrev, ← C03S.cdna3_brevLoop_eq, C03S.Hand.cdna3.brevLoop, range'_32]
  apply foldl_congr_mem
  intro a b hb
  have hb' : b < 32 := List.mem_range.1 hb
  simp only [sub31_toNat b hb', ofNat64_toNat32 b hb']

/-! ## `v_ffbh_u32` (CDNA3): downward scan for the highest set bit -/

/-- one iteration of `for bit := 31; bit >= 0; bit-- { if src & (1<<bit) != 0 { pos = 31 - bit; break } }`; the
    Boolean is "the loop was left" -/
def ffbhStep (src : BitVec 32) (st : BitVec 32 × Bool) (n : Nat) : BitVec 32 × Bool :=
  if st.2 then st else
    if ((src &&& ((1#32) <<< (BitVec.ofNat 64 n).toNat)) != (0#32)) then
      (BitVec.setWidth 32 ((31#64) - BitVec.ofNat 64 n), true)
    else (st.1, false)

theorem log2_of_bounds (a s : Nat) (h1 : 2 ^ s ≤ a) (h2 : a < 2 ^ (s + 1)) : Nat.log2 a = s := by
  have ha : a ≠ 0 := by
    have : 0 < 2 ^ s := Nat.pow_pos (by decide)
    omega
  exact (Nat.log2_eq_iff ha).2 ⟨h1, h2⟩

/-- the scan over bits `31 … s`: nothing found iff `src < 2^s`, otherwise `31 - log2 src` -/
theorem ffbh_scan (src : BitVec 32) (m s : Nat) (hs : s + m = 32) :
    (List.range' s m).foldr (fun n st => ffbhStep src st n) (0#32, false)
      = if src.toNat / 2 ^ s = 0 then (0#32, false) else (BitVec.ofNat 32 (31 - Nat.log2 src.toNat), true) := by
  induction m generalizing s with
  | zero =>
    have : s = 32 := by omega
    subst this
    have := src.isLt
    have h0 : src.toNat / 2 ^ 32 = 0 := Nat.div_eq_of_lt this
    simp [h0]
  | succ m ih =>
    have ih' := ih (s + 1) (by omega)
    have hs32 : s < 32 := by omega
    rw [List.range'_succ, List.foldr_cons, ih']
    have hpos : 0 < 2 ^ s := Nat.pow_pos (by decide)
    have hp : 2 ^ (s + 1) = 2 * 2 ^ s := by rw [Nat.pow_succ]; omega
    by_cases hhi : src.toNat / 2 ^ (s + 1) = 0
    · have hlt : src.toNat < 2 ^ (s + 1) := by
        rcases Nat.lt_or_ge src.toNat (2 ^ (s + 1)) with h | h
        · exact h
        · have : 0 < src.toNat / 2 ^ (s + 1) := Nat.div_pos h (Nat.pow_pos (by decide))
          omega
      simp only [hhi, if_true, ffbhStep, Bool.false_eq_true, if_false]
      rw [C03S.and_onebit' src _ (by rw [ofNat64_toNat32 s hs32]; exact hs32), ofNat64_toNat32 s hs32,
        sub31_sw32 s hs32]
      by_cases hb : src.getLsbD s = true
      · have hge : 2 ^ s ≤ src.toNat := by
          have := Nat.ge_two_pow_of_testBit (by simpa [BitVec.getLsbD] using hb : src.toNat.testBit s = true)
          exact this
        have hne : src.toNat / 2 ^ s ≠ 0 := by
          have : 0 < src.toNat / 2 ^ s := Nat.div_pos hge hpos
          omega
        simp only [hb, if_true, hne, if_false, log2_of_bounds _ _ hge hlt]
      · have hb' : src.toNat.testBit s = false := by simpa [BitVec.getLsbD] using hb
        have hz : src.toNat / 2 ^ s = 0 := by
          apply Nat.div_eq_of_lt
          rcases Nat.lt_or_ge src.toNat (2 ^ s) with hl | hge
          · exact hl
          exfalso
          have : src.toNat.testBit s = true := by
            rw [Nat.testBit_eq_decide_div_mod_eq]
            have : src.toNat / 2 ^ s = 1 := by
              have h1 : 0 < src.toNat / 2 ^ s := Nat.div_pos hge hpos
              have h2 : src.toNat / 2 ^ s < 2 := by
                rw [Nat.div_lt_iff_lt_mul hpos]; omega
              omega
            simp [this]
          simp [this] at hb'
        simp only [hb, Bool.false_eq_true, if_false, hz, if_true]
    · have hne : src.toNat / 2 ^ s ≠ 0 := by
        intro hz
        have hlt : src.toNat < 2 ^ s := by
          rcases Nat.lt_or_ge src.toNat (2 ^ s) with h | h
          · exact h
          · have : 0 < src.toNat / 2 ^ s := Nat.div_pos h hpos
            omega
        have : src.toNat / 2 ^ (s + 1) = 0 := Nat.div_eq_of_lt (by omega)
        exact hhi this
      simp only [hhi, hne, if_false, ffbhStep, if_true]

/-- the whole CDNA3 loop, for a non-zero source -/
theorem ffbh_fold (src : BitVec 32) (h : src ≠ 0#32) :
    ((List.range' 0 32).reverse.foldl (ffbhStep src) (0#32, false)).1 = ffbh src := by
  rw [List.foldl_reverse, ffbh_scan src 32 0 (by decide)]
  have hne : src.toNat ≠ 0 := by
    intro hz; apply h; apply BitVec.eq_of_toNat_eq; simpa using hz
  have hb : (src == 0#32) = false := by simpa using h
  simp [ffbh, hne, hb]

/-! ## `v_med3_i32`: `sort.Ints` of the three sign-extended operands, middle element -/

theorem slt_se64 (a b : BitVec 32) : BitVec.slt (a.signExtend 64) (b.signExtend 64) = BitVec.slt a b := by
  simp only [BitVec.slt, BitVec.toInt_signExtend_of_le (show 32 ≤ 64 by decide)]

theorem med3I_sort (a b c : BitVec 32) :
    ((C06.Go.sortInts3 (a.signExtend 64) (b.signExtend 64) (c.signExtend 64)).2.1).setWidth 32 = med3I a b c := by
  simp only [C06.Go.sortInts3, C06.GoF.insertion3, med3I, maxI, minI]
  have ea : (a.signExtend 64).toInt = a.toInt := BitVec.toInt_signExtend_of_le (by decide)
  have eb : (b.signExtend 64).toInt = b.toInt := BitVec.toInt_signExtend_of_le (by decide)
  have ec : (c.signExtend 64).toInt = c.toInt := BitVec.toInt_signExtend_of_le (by decide)
  by_cases hba : BitVec.slt b a = true
  · have hba' : BitVec.slt (b.signExtend 64) (a.signExtend 64) = true := by rw [slt_se64]; exact hba
    simp only [hba', if_true, slt_se64]
    simp only [BitVec.slt, decide_eq_true_eq, BitVec.toInt_signExtend_of_le (show 32 ≤ 64 by decide)] at hba ⊢
    repeat' split
    all_goals first
      | contradiction
      | (simp only [sw32_se64]; done)
      | (simp only [sw32_se64]; apply BitVec.eq_of_toInt_eq; omega)
  · have hba' : ¬ BitVec.slt (b.signExtend 64) (a.signExtend 64) = true := by rw [slt_se64]; exact hba
    simp only [hba', if_false, slt_se64]
    simp only [BitVec.slt, decide_eq_true_eq, BitVec.toInt_signExtend_of_le (show 32 ≤ 64 by decide)] at hba ⊢
    repeat' split
    all_goals first
      | contradiction
      | (simp only [sw32_se64]; done)
      | (simp only [sw32_se64]; apply BitVec.eq_of_toInt_eq; omega)

/-! ## handlers without lane loop that hand a constant to `SetVCC` (CDNA3 `v_cmp_f_u64`) -/

/-- the lane view of `state.SetVCC(m)`: no VGPR write; lane `i`'s bit of the mask result is bit `i` of the constant.
    (C06's `no_lane_handlers_are_vexec` shows the only constant is 0, the skeleton instance "every lane false".) -/
def constLane (h : C06.NoLaneHandler) : LaneHandler :=
  { arch := h.arch, name := h.name, guard := .bitZero, accInit := .zero, msrc := .none, sink := .vcc
    ok := h.ok
    raw := fun _ r => { dst := none, acc := setBit r.acc r.i ((h.setVCC.getD r.acc).getLsbD r.i) } }

/-- the regenerated record of `cdna3.ALU.runVCmpFU64` (found by name in `Gen.Lane.noLaneHandlers`) -/
def nl_cdna3_runVCmpFU64 : C06.NoLaneHandler :=
  match Gen.Lane.noLaneHandlers.find? (fun h => h.arch == "cdna3" && h.name == "runVCmpFU64") with
  | some h => h
  | none => { arch := "", name := "", ok := fun _ => false, setVCC := none }

def lh_cdna3_runVCmpFU64_const : LaneHandler := constLane nl_cdna3_runVCmpFU64

theorem nl_cdna3_runVCmpFU64_facts :
    nl_cdna3_runVCmpFU64.arch = "cdna3" ∧ nl_cdna3_runVCmpFU64.name = "runVCmpFU64" ∧
    nl_cdna3_runVCmpFU64.setVCC = some 0#64 := by decide

/-! ## `v_readfirstlane_b32`: the scan loop of both ALUs selects the specification's lane -/

theorem rflScan_firstLane (exec : BitVec 64) : (C06.rflScan exec 64).1 = C03V.firstLane exec.toNat := by
  rw [C06.readfirstlane_scan_spec]
  simp only [C06.firstActive, C03V.firstLane, BitVec.getLsbD]

end C03V.Conf
