import MgpuProofs.C17WLive5
import MgpuProofs.C17Live4
/-! C17, every width: well-formed traffic (`opOk`: masks not shorter than the data, addresses the bank address converter
accepts, footprints the storage accepts) never makes a tick of the repaired component panic — so the `noPanicW`
hypothesis of the liveness theorems follows from `opOk` on the operations. -/
namespace C17
namespace WLive
open WBnd

def ROk (c : Cfg) (r : Req) : Prop :=
  maskOk r = true ∧ belongs c r = true ∧ capErr c.cap r.addr r.size = false

def ArrOk (c : Cfg) (s : WState) : Prop := ∀ r ∈ s.arrived, ROk c r

theorem stepW_arrOk (c : Cfg) (s : WState) (op : Op) (hok : opOk c op) (h : ArrOk c s) : ArrOk c (stepW c s op) := by
  cases op with
  | deliver k a l d m =>
    simp only [stepW, deliverW]
    split
    · intro r hr
      rcases List.mem_append.1 hr with hr | hr
      · exact h r hr
      · rw [List.mem_singleton.1 hr]
        exact hok
    · exact h
  | tick =>
    intro r hr
    simp only [stepW, tickW_arrived] at hr
    exact h r hr
  | out n => exact h

theorem fin_nofault (c : Cfg) : ∀ (fuel : Nat) (b : WBank) (log : List Req) (out resp : List Rsp) (pg : Bool),
    (∀ it ∈ b.post, ROk c it.req) → (∀ it ∈ b.early, ROk c it.req) →
    (finalizeBankW c fuel b log out resp pg).fault = none := by
  intro fuel
  induction fuel with
  | zero => intro b log out resp pg _ _; rfl
  | succ fuel ih =>
    intro b log out resp pg hp he
    cases ho : b.order with
    | nil => simp only [finalizeBankW, ho]
    | cons o os =>
      simp only [finalizeBankW, ho]
      cases hf : b.early.find? (fun it => decide (it.req = o)) with
      | some it =>
        have hmem := List.mem_of_find?_eq_some hf
        obtain ⟨m1, _, m3⟩ := he it hmem
        have hcf : capFault c it = false := by simp [capFault, m3]
        obtain ⟨p, hc⟩ := commit_ok it log m1
        obtain ⟨it', log'⟩ := p
        dsimp only
        rw [if_neg (by rw [hcf]; simp), hc]
        dsimp only
        split
        · apply ih
          · exact hp
          · intro x hx; exact he x (List.mem_filter.1 hx).1
        · rfl
      | none =>
        dsimp only
        cases hpo : b.post with
        | nil => rfl
        | cons hd t =>
          dsimp only
          rw [hpo] at hp
          split
          · obtain ⟨m1, _, m3⟩ := hp hd (by simp)
            have hcf : capFault c hd = false := by simp [capFault, m3]
            obtain ⟨p, hc⟩ := commit_ok hd log m1
            obtain ⟨h', log'⟩ := p
            rw [if_neg (by rw [hcf]; simp), hc]
            dsimp only
            split
            · apply ih
              · intro x hx; exact hp x (by simp [hx])
              · exact he
            · rfl
          · apply ih
            · intro x hx; exact hp x (by simp [hx])
            · intro x hx
              rcases List.mem_append.1 hx with hx | hx
              · exact he x hx
              · rw [List.mem_singleton.1 hx]; exact hp hd (by simp)

theorem bank_items_ok (c : Cfg) (s : WState) (h : InvW c s) (ha : ArrOk c s) (k : Nat) (b : WBank)
    (hb : s.banks[k]? = some b) : ∀ it ∈ wItems b, ROk c it.req := by
  intro it hit
  have hcore := (h.ok b (List.mem_of_getElem? hb)).core
  have h1 : it.req ∈ b.order := hcore.perm.mem_iff.1 (List.mem_map.2 ⟨it, hit, rfl⟩)
  exact ha _ (orderW_in_bank c s h k b hb it.req (by simp [wBankReqs, h1])).2

theorem finAtW_nofault (c : Cfg) (s : WState) (h : InvW c s) (ha : ArrOk c s) (k : Nat) (pg : Bool) :
    (finalizeAtW c s k pg).fault = none := by
  unfold finalizeAtW
  cases hb : s.banks[k]? with
  | none => rfl
  | some b =>
    dsimp only
    have := bank_items_ok c s h ha k b hb
    apply fin_nofault
    · intro it hit; exact this it (by simp [wItems, hit])
    · intro it hit; exact this it (by simp [wItems, hit])

theorem finFromW_nofault (c : Cfg) : ∀ (ks : List Nat) (s : WState) (pg : Bool), InvW c s → ArrOk c s →
    (finalizeFromW c ks s pg).fault = none
  | [], _, _, _, _ => rfl
  | k :: ks, s, pg, h, ha => by
    simp only [finalizeFromW]
    have h1 := finAtW_nofault c s h ha k pg
    rw [h1]
    simp only [Option.isSome_none, Bool.false_eq_true, if_false]
    apply finFromW_nofault c ks _ _ (finalizeAtW_inv c s k pg h)
    intro r hr
    rw [finalizeAtW_arrived] at hr
    exact ha r hr

theorem pending_arrived (c : Cfg) (s : WState) (h : InvW c s) : ∀ r ∈ s.pending, r ∈ s.arrived := by
  intro r hr
  have hrk := h.r (bankOf c r.addr)
  unfold RW at hrk
  have : r ∈ s.arrived.filter (inB c (bankOf c r.addr)) := by
    rw [← hrk]
    apply List.mem_append_right
    apply List.mem_append_right
    simp [chainW, inB, hr]
  exact (List.mem_filter.1 this).1

/-- no tick of a reachable state panics on well-formed traffic, whatever the width -/
theorem tick_nofaultW (c : Cfg) (s : WState) (h : InvW c s) (ha : ArrOk c s) : (tickFlagsW c s).2 = none := by
  have hf : (finalizeW c s).fault = none := finFromW_nofault c _ s false h ha
  have hi := finalizeW_inv c s h
  have hcv : convFault c (tickDelaysW c (tickPipesW c (finalizeW c s).st)).pending = false := by
    apply convFault_false
    intro r hr
    have hr' : r ∈ (finalizeW c s).st.pending := hr
    have := pending_arrived c _ hi r hr'
    rw [show (finalizeW c s).st.arrived = s.arrived from finalizeFromW_arrived c _ s false] at this
    exact (ha r this).2.1
  unfold tickFlagsW
  dsimp only
  rw [hf]
  simp only [Option.isSome_none, Bool.false_eq_true, if_false, hcv]

theorem noPanicW_of_ok (c : Cfg) : ∀ (ops : List Op) (s : WState), (∀ op ∈ ops, opOk c op) → InvW c s → ArrOk c s →
    noPanicW c s ops = true := by
  intro ops
  induction ops with
  | nil => intro s _ _ _; rfl
  | cons op ops ih =>
    intro s hok h ha
    have h' := step_invW c s op h
    have ha' := stepW_arrOk c s op (hok op (by simp)) ha
    have hrest := ih (stepW c s op) (fun o ho => hok o (by simp [ho])) h' ha'
    cases op with
    | tick =>
      simp only [noPanicW, Bool.and_eq_true, Option.isNone_iff_eq_none]
      exact ⟨tick_nofaultW c s h ha, hrest⟩
    | deliver k a l d m => simp only [noPanicW]; exact hrest
    | out n => simp only [noPanicW]; exact hrest

theorem run_arrOk (c : Cfg) : ∀ (ops : List Op) (s : WState), (∀ op ∈ ops, opOk c op) → ArrOk c s →
    ArrOk c (ops.foldl (stepW c) s)
  | [], _, _, h => h
  | op :: ops, s, hok, h =>
    run_arrOk c ops _ (fun o ho => hok o (by simp [ho])) (stepW_arrOk c s op (hok op (by simp)) h)

end WLive
end C17
