import MgpuModel.C08
import MgpuProofs.C08Enum
import MgpuProofs.C08WrapLemmas
/-! # C08 — hidden kernel arguments, packet layout, signed 64-bit split (helper lemmas) -/
namespace C08

/-! ## little-endian fields in a packed layout -/

theorem leBytes_length : ∀ (n v : Nat), (leBytes n v).length = n := by
  intro n
  induction n with
  | zero => intro v; rfl
  | succ n ih => intro v; simp [leBytes, ih]

theorem foldr_leBytes : ∀ (n v : Nat), (leBytes n v).foldr (fun b acc => b + 256 * acc) 0 = v % 256 ^ n := by
  intro n
  induction n with
  | zero => intro v; simp [leBytes, Nat.mod_one]
  | succ n ih =>
    intro v
    simp only [leBytes, List.foldr_cons, ih]
    rw [Nat.pow_succ', Nat.mod_mul]

theorem readLE_head (n v : Nat) (rest : List Nat) : readLE (leBytes n v ++ rest) 0 n = v % 256 ^ n := by
  unfold readLE
  rw [List.drop_zero, List.take_left' (leBytes_length n v)]
  exact foldr_leBytes n v

theorem readLE_skip (pre rest : List Nat) (off n : Nat) :
    readLE (pre ++ rest) (off + pre.length) n = readLE rest off n := by
  unfold readLE
  rw [Nat.add_comm, ← List.drop_drop, List.drop_left]

/-- reading a named field of a packed little-endian layout at its offset gives its value -/
theorem readLE_layout (val : String → Nat) (name : String) : ∀ (L : List (String × Nat)) (off sz : Nat),
    offsetOf name L = some off → L.lookup name = some sz →
    readLE (L.flatMap fun p => leBytes p.2 (val p.1)) off sz = val name % 256 ^ sz := by
  intro L
  induction L with
  | nil => intro off sz h; simp [offsetOf] at h
  | cons p rest ih =>
    obtain ⟨n0, s0⟩ := p
    intro off sz hoff hlk
    simp only [List.flatMap_cons]
    unfold offsetOf at hoff
    by_cases e : n0 = name
    · subst e
      simp only [if_true, Option.some.injEq] at hoff
      subst hoff
      simp only [List.lookup_cons, beq_self_eq_true, Option.some.injEq] at hlk
      subst hlk
      exact readLE_head _ _ _
    · rw [if_neg e] at hoff
      have hne : (name == n0) = false := by
        simp only [beq_eq_false_iff_ne, ne_eq]; exact fun h => e h.symm
      simp only [List.lookup_cons, hne] at hlk
      cases ho : offsetOf name rest with
      | none => rw [ho] at hoff; simp at hoff
      | some off' =>
        rw [ho] at hoff
        simp only [Option.map_some, Option.some.injEq] at hoff
        subst hoff
        have := readLE_skip (leBytes s0 (val n0)) (rest.flatMap fun p => leBytes p.2 (val p.1)) off' sz
        rw [leBytes_length] at this
        rw [this]
        exact ih off' sz ho hlk

/-! ## block counts, remainders and the clipped work-group sizes -/

theorem wgCount_fit' (g w : Nat) (h : g + w ≤ 4294967296) : C02.wgCount g w = nwgI g w := by
  have h1 : g + w - 1 < 18446744073709551616 := by omega
  have h2 : (g + w - 1) / w < 4294967296 := Nat.lt_of_le_of_lt (Nat.div_le_self _ _) (by omega)
  unfold C02.wgCount nwgI C02.M64 C02.M32
  rw [Nat.mod_eq_of_lt h1, Nat.mod_eq_of_lt h2]

/-- the repaired block count is the true count for every typed launch (`uint32` global size, `uint16`
    local size ≥ 1) -/
theorem wgCount_typed' (g w : Nat) (hg : g < 4294967296) (hw1 : 1 ≤ w) (hw : w < 65536) :
    C02.wgCount g w = nwgI g w := by
  have h1 : g ≤ g * w := Nat.le_mul_of_pos_right g hw1
  have h2 : (g + 1) * w = g * w + w := by rw [Nat.add_mul, Nat.one_mul]
  have h3 : (g + w - 1) / w < g + 1 := (Nat.div_lt_iff_lt_mul hw1).mpr (by rw [h2]; omega)
  have h4 : g + w - 1 < 18446744073709551616 := by omega
  have h5 : (g + w - 1) / w < 4294967296 := by omega
  unfold C02.wgCount nwgI C02.M64 C02.M32
  rw [Nat.mod_eq_of_lt h4, Nat.mod_eq_of_lt h5]

/-- the clipped size of work-group `i` along an axis, from count, size and remainder -/
theorem clip_eq_hiddenSize (G W i : Nat) (hG : 1 ≤ G) (hW : 1 ≤ W) (hi : i < nwg G W) :
    min (G - i * W) W = hiddenSize (nwg G W) W (G % W) i := by
  unfold hiddenSize
  have hiW : i * W < G := (lt_nwg G W i hG hW).mp hi
  have hdm := Nat.div_add_mod G W
  have hml := Nat.mod_lt G hW
  by_cases hlast : i + 1 = nwg G W
  · -- the last group: (i+1)*W ≥ G
    have hnot : ¬ (i + 1) * W < G := by
      intro h
      have := (lt_nwg G W (i + 1) hG hW).mpr h
      omega
    have hge : G ≤ i * W + W := by
      have : (i + 1) * W = i * W + W := by rw [Nat.add_mul, Nat.one_mul]
      omega
    by_cases hr : G % W = 0
    · rw [if_neg (by intro h; exact h.1 hr)]
      -- W ∣ G, i*W < G ≤ i*W + W ⇒ G = i*W + W
      have hGeq : G = W * (G / W) := by omega
      have h1 : i < G / W := by
        apply Classical.byContradiction
        intro hn
        have : G / W ≤ i := by omega
        have := Nat.mul_le_mul_left W this
        rw [Nat.mul_comm W i] at this
        omega
      have h2 : W * (i + 1) ≤ W * (G / W) := Nat.mul_le_mul_left W h1
      rw [Nat.mul_add, Nat.mul_one, Nat.mul_comm W i] at h2
      have : G - i * W = W := by omega
      rw [this, Nat.min_self]
    · rw [if_pos ⟨hr, hlast⟩]
      -- G = W*q + r, 0 < r < W, i*W < G ≤ i*W + W ⇒ i = q
      have hq : i = G / W := by
        have h1 : i ≤ G / W := by
          apply Classical.byContradiction
          intro hn
          have : G / W + 1 ≤ i := by omega
          have := Nat.mul_le_mul_left W this
          rw [Nat.mul_add, Nat.mul_one, Nat.mul_comm W i] at this
          omega
        have h2 : G / W ≤ i := by
          apply Classical.byContradiction
          intro hn
          have : i + 1 ≤ G / W := by omega
          have := Nat.mul_le_mul_left W this
          rw [Nat.mul_add, Nat.mul_one, Nat.mul_comm W i] at this
          omega
        omega
      have : G - i * W = G % W := by
        rw [hq, Nat.mul_comm]; omega
      rw [this]
      exact Nat.min_eq_left (Nat.le_of_lt hml)
  · -- not the last group: (i+1)*W < G
    have hlt : i + 1 < nwg G W := by omega
    have := (lt_nwg G W (i + 1) hG hW).mp hlt
    rw [Nat.add_mul, Nat.one_mul] at this
    rw [if_neg (by intro h; exact hlast h.2)]
    exact Nat.min_eq_right (by omega)

/-! ## signed 64-bit arithmetic inside the head-room -/

theorem hW : W64 = 18446744073709551616 := rfl
theorem hH : H63 = 9223372036854775808 := rfl

theorem sv_small (u : Nat) (h : u < H63) : sv u = (u : Int) := by
  unfold sv; rw [if_pos h]

theorem uv_nat (n : Nat) (h : n < W64) : uv (n : Int) = n := by
  unfold uv
  rw [Int.ofNat_mod_ofNat, Int.toNat_natCast, Nat.mod_eq_of_lt h]

theorem addS_small (a b : Nat) (h : a + b < W64) : addS a b = a + b := by
  unfold addS; exact Nat.mod_eq_of_lt h

theorem mulS_small (a b : Nat) (h : a * b < W64) : mulS a b = a * b := by
  unfold mulS; exact Nat.mod_eq_of_lt h

/-- `x + (2^64 - 1)` wraps to `x - 1` for `x ≥ 1` -/
theorem addS_minus_one (x : Nat) (h1 : 1 ≤ x) (h2 : x < W64) : addS x (W64 - 1) = x - 1 := by
  unfold addS
  have hw := hW
  have e : x + (W64 - 1) = (x - 1) + W64 := by omega
  rw [e, Nat.add_mod_right]
  exact Nat.mod_eq_of_lt (by omega)

theorem wgPerCUS_eq (total sum : Nat) (hs : 0 < sum) (hs2 : sum < H63) (hroom : total + sum ≤ H63) :
    wgPerCUS total sum = wgPerCUI total sum := by
  have hw := hW
  have hh := hH
  unfold wgPerCUS wgPerCUI
  rw [addS_small total sum (by omega), addS_minus_one (total + sum) (by omega) (by omega),
    sv_small _ (by omega), sv_small sum (by omega), ← Int.ofNat_tdiv]
  have : (total + sum - 1) / sum ≤ total + sum - 1 := Nat.div_le_self _ _
  exact uv_nat _ (by omega)

theorem wgDist_le (per : Nat) : ∀ (cus : List Nat) (acc : Nat), ∀ x ∈ wgDist per cus acc, x ≤ acc + cus.sum * per := by
  intro cus
  induction cus with
  | nil => intro acc x hx; simp [wgDist] at hx; omega
  | cons c cs ih =>
    intro acc x hx
    simp only [wgDist, List.mem_cons] at hx
    simp only [List.sum_cons, Nat.add_mul]
    rcases hx with rfl | hx
    · omega
    · have := ih _ x hx; omega

theorem wgDistS_eq (per : Nat) : ∀ (cus : List Nat) (acc : Nat), acc + cus.sum * per < W64 →
    wgDistS per cus acc = wgDist per cus acc := by
  intro cus
  induction cus with
  | nil => intro acc _; rfl
  | cons c cs ih =>
    intro acc h
    simp only [List.sum_cons, Nat.add_mul] at h
    simp only [wgDistS, wgDist]
    rw [mulS_small c per (by omega), addS_small _ _ (by omega)]
    rw [ih (acc + c * per) (by omega)]

theorem sum_per_lt (total sum : Nat) : sum * wgPerCUI total sum ≤ total + sum - 1 := by
  unfold wgPerCUI
  exact Nat.mul_div_le _ _

/-- **inside the head-room the signed driver split is the unsigned model** (helper form) -/
theorem distS_eq (g : Geo) (cus : List Nat) (hs : 0 < cus.sum) (hs2 : cus.sum < H63)
    (hroom : g.totalI + cus.sum ≤ H63) :
    distS g cus = (distI g cus).map (fun d => d.map Int.ofNat) := by
  have hw := hW
  have hh := hH
  unfold distS distI
  have hT : g.totalS = g.totalI := rfl
  by_cases hc : g.wx = 0 ∨ g.wy = 0 ∨ g.wz = 0 ∨ cus.sum = 0
  · rw [if_pos hc, if_pos hc]; rfl
  · rw [if_neg hc, if_neg hc]
    simp only [hT]
    rw [wgPerCUS_eq _ _ hs hs2 hroom]
    have hsp := sum_per_lt g.totalI cus.sum
    have hsp2 := hsp
    rw [Nat.mul_comm] at hsp2
    rw [wgDistS_eq _ cus 0 (by omega)]
    have hlast := wgDist_getLast (wgPerCUI g.totalI cus.sum) cus 0
    rw [Nat.zero_add] at hlast
    rw [hlast, sv_small _ (by omega), sv_small _ (by omega)]
    simp only [Int.ofNat_lt]
    split
    · rfl
    · simp only [Except.map]
      congr 1
      apply List.map_congr_left
      intro x hx
      have := wgDist_le _ cus 0 x hx
      exact sv_small x (by omega)

theorem getD_map_ofNat (l : List Nat) (i : Nat) : (l.map Int.ofNat).getD i 0 = ((l.getD i 0 : Nat) : Int) := by
  simp only [List.getD_eq_getElem?_getD, List.getElem?_map]
  cases l[i]? <;> rfl

/-- the closure on a flattened id below 2^63 -/
theorem gpuFilterS_eq (g : Geo) (d : List Nat) (i : Nat) (c : Coord)
    (hf : c.2.2 * nwgI g.gx g.wx * nwgI g.gy g.wy + c.2.1 * nwgI g.gx g.wx + c.1 < H63) :
    gpuFilterS g (d.map Int.ofNat) i c = gpuFilterI g d i c := by
  have hw := hW
  have hh := hH
  unfold gpuFilterS gpuFilterI
  simp only
  generalize nwgI g.gx g.wx = nx at hf ⊢
  generalize nwgI g.gy g.wy = ny at hf ⊢
  have h1 : c.2.2 * nx ≤ c.2.2 * nx * ny ∨ ny = 0 := by
    by_cases h : ny = 0
    · right; exact h
    · left; exact Nat.le_mul_of_pos_right _ (by omega)
  have e1 : mulS (mulS c.2.2 nx) ny = c.2.2 * nx * ny := by
    rcases h1 with h1 | h1
    · rw [mulS_small c.2.2 nx (by omega), mulS_small _ ny (by omega)]
    · subst h1; simp [mulS]
  rw [e1, mulS_small c.2.1 nx (by omega), addS_small (c.2.2 * nx * ny) (c.2.1 * nx) (by omega),
    addS_small _ c.1 (by omega), sv_small _ hf, getD_map_ofNat, getD_map_ofNat]
  simp only [Int.ofNat_le, Int.ofNat_lt]

end C08
