import MgpuModel.C13Drv
/-!
# C13 — "the instruction bytes are in device memory when the launch command is reached"

Helper definitions and lemmas for `MgpuProofs/Props/C13DrvExec.lean`.

Route:
* static invariant `SInv` of `run ops`: the writes of all copy commands of all queues are, up to
  order, the allocation list; every launch is preceded in its own queue by the copy of its code;
* dynamic invariant `DInv` of `exec`: executed writes + pending writes = all writes (as a
  permutation), the executed commands of every queue are a prefix of the original list and their
  writes are in memory;
* `codeAt_of_mem`: in a memory of pairwise disjoint writes, a code write is read back.
-/
namespace C13
namespace Drv

/-! ## hypotheses on histories -/

/-- queue indices used by launches exist when the launch is issued -/
def wfFromX (nq : Nat) : List Op → Bool
  | [] => true
  | .newQueue _ :: ops => wfFromX (nq + 1) ops
  | .launch q _ _ _ :: ops => decide (q < nq) && wfFromX nq ops
  | .launchUnified q _ _ _ :: ops => decide (q < nq) && wfFromX nq ops

/-- queue indices used by launches exist when the launch is issued -/
def WFX (ops : List Op) : Prop := wfFromX 0 ops = true

instance (ops : List Op) : Decidable (WFX ops) := by unfold WFX; exact inferInstance

/-- (queue, code object) of the ordinary (non-unified) launches, in order -/
def launchesOf (ops : List Op) : List (Nat × Co) :=
  ops.filterMap (fun | .launch q _ co _ => some (q, co) | _ => none)

/-- the code objects of all launches, unified or not -/
def cosOfX (ops : List Op) : List Co :=
  ops.filterMap (fun | .launch _ _ co _ => some co | .launchUnified _ _ co _ => some co | _ => none)

/-- same id ⇒ same object (`Data`, sizes unchanged between launches), over the code objects of all
`launch` / `launchUnified` operations -/
def ConsistentX (ops : List Op) : Prop :=
  ∀ a ∈ cosOfX ops, ∀ b ∈ cosOfX ops, a.id = b.id → a = b

instance (ops : List Op) : Decidable (ConsistentX ops) := by unfold ConsistentX; exact inferInstance

/-- the part of `ConsistentX` that the proof uses: only the ordinary launches (they share the
cache); the unified launches copy their own code every time -/
def ConsistentL (ops : List Op) : Prop :=
  ∀ x ∈ launchesOf ops, ∀ y ∈ launchesOf ops, x.2.id = y.2.id → x.2 = y.2

instance (ops : List Op) : Decidable (ConsistentL ops) := by unfold ConsistentL; exact inferInstance

/-- every code object is launched (ordinary `.launch` operations, the ones that go through the cache
`codeObjGPUAddrs`) through one queue only.  Nothing is asked of unified launches: they never read or
fill the cache and copy the code in front of every launch. -/
def OneQueuePerObjectX (ops : List Op) : Prop :=
  ∀ x ∈ launchesOf ops, ∀ y ∈ launchesOf ops, x.2.id = y.2.id → x.1 = y.1

instance (ops : List Op) : Decidable (OneQueuePerObjectX ops) := by
  unfold OneQueuePerObjectX; exact inferInstance

/-- two allocations of one process do not overlap -/
def DisjA (a b : Alloc) : Prop :=
  a.pid = b.pid → a.addr + a.size ≤ b.addr ∨ b.addr + b.size ≤ a.addr

instance : DecidableRel DisjA := fun a b => by unfold DisjA; exact inferInstance

/-- what C10 proves about the allocator: two different allocations of the same process do not
overlap -/
def DisjointAllocs (al : List Alloc) : Prop :=
  ∀ (i j : Nat) (a b : Alloc), al[i]? = some a → al[j]? = some b → i ≠ j → a.pid = b.pid →
    a.addr + a.size ≤ b.addr ∨ b.addr + b.size ≤ a.addr

theorem disjA_symm {a b : Alloc} (h : DisjA a b) : DisjA b a := by
  intro e; rcases h e.symm with h | h
  · exact Or.inr h
  · exact Or.inl h

/-- the index form and the `List.Pairwise` form (decidable) say the same -/
theorem disjointAllocs_iff_pairwise (al : List Alloc) : DisjointAllocs al ↔ al.Pairwise DisjA := by
  rw [List.pairwise_iff_getElem]
  unfold DisjointAllocs
  constructor
  · intro h i j hi hj hij
    exact h i j _ _ (List.getElem?_eq_getElem hi) (List.getElem?_eq_getElem hj) (by omega)
  · intro h i j a b ha hb hij
    obtain ⟨hi, rfl⟩ := List.getElem?_eq_some_iff.1 ha
    obtain ⟨hj, rfl⟩ := List.getElem?_eq_some_iff.1 hb
    rcases Nat.lt_or_gt_of_ne hij with l | l
    · exact h i j hi hj l
    · exact fun e => (disjA_symm (h j i hj hi l)) e

instance (al : List Alloc) : Decidable (DisjointAllocs al) :=
  decidable_of_iff _ (disjointAllocs_iff_pairwise al).symm

/-! ## writes -/

/-- a write into device memory: (pid, start, length, what) -/
abbrev W := Nat × Nat × Nat × Option Nat

/-- what a command writes when executed in address space `pid` -/
def writeOf (pid : Nat) : Cmd → Option W
  | .copyCode dst co len => some (pid, dst, len, some co)
  | .copyArgs dst size => some (pid, dst, size, none)
  | .copyPacket dst => some (pid, dst, packetSize, none)
  | _ => none

def writesOf (pid : Nat) (cs : List Cmd) : List W := cs.filterMap (writeOf pid)

/-- the writes still to be done, queue after queue -/
def pendW (qs : List Queue) : List W := qs.flatMap (fun qu => writesOf qu.pid qu.cmds)

/-- (pid, start, length) of a write -/
def untag (w : W) : Nat × Nat × Nat := (w.1, w.2.1, w.2.2.1)

def akey (a : Alloc) : Nat × Nat × Nat := (a.pid, a.addr, a.size)

def DisjK (a b : Nat × Nat × Nat) : Prop :=
  a.1 = b.1 → a.2.1 + a.2.2 ≤ b.2.1 ∨ b.2.1 + b.2.2 ≤ a.2.1

def DisjW (a b : W) : Prop := DisjK (untag a) (untag b)

theorem disjK_symm {a b : Nat × Nat × Nat} (h : DisjK a b) : DisjK b a := by
  intro e; rcases h e.symm with h | h
  · exact Or.inr h
  · exact Or.inl h

theorem writesOf_append (pid : Nat) (a b : List Cmd) :
    writesOf pid (a ++ b) = writesOf pid a ++ writesOf pid b := by
  simp [writesOf]

theorem pairwise_mem_cases {α : Type} {R : α → α → Prop} {l : List α} (h : l.Pairwise R)
    {a b : α} (ha : a ∈ l) (hb : b ∈ l) : a = b ∨ R a b ∨ R b a := by
  induction l with
  | nil => cases ha
  | cons x xs ih =>
    rw [List.pairwise_cons] at h
    rcases List.mem_cons.1 ha with rfl | ha'
    · rcases List.mem_cons.1 hb with rfl | hb'
      · exact Or.inl rfl
      · exact Or.inr (Or.inl (h.1 _ hb'))
    · rcases List.mem_cons.1 hb with rfl | hb'
      · exact Or.inr (Or.inr (h.1 _ ha'))
      · exact ih h.2 ha' hb'

/-- in a memory made of pairwise disjoint writes, a code write is read back whole -/
theorem codeAt_of_mem (m : Mem) (pid ko co len : Nat) (hp : List.Pairwise DisjW m)
    (hm : (pid, ko, len, some co) ∈ m) : codeAt m pid ko co len := by
  intro i hi
  unfold Mem.read
  cases hf : m.find? (fun w => w.1 == pid && decide (w.2.1 ≤ ko + i) && decide (ko + i < w.2.1 + w.2.2.1)) with
  | none =>
    rw [List.find?_eq_none] at hf
    have := hf _ hm
    simp at this
    omega
  | some w =>
    have hw := List.find?_some hf
    have hwm := List.mem_of_find?_eq_some hf
    simp only [Bool.and_eq_true, beq_iff_eq, decide_eq_true_eq] at hw
    obtain ⟨⟨h1, h2⟩, h3⟩ := hw
    rcases pairwise_mem_cases hp hwm hm with rfl | h | h
    · simp
    · have := h h1
      simp only [untag] at this
      omega
    · have := h h1.symm
      simp only [untag] at this
      omega

/-! ## "the code was copied earlier in the same queue" -/

/-- what a command needs among the commands `pre` in front of it in its queue -/
def needsOK (pre : List Cmd) : Cmd → Prop
  | .launch co len ko _ _ => .copyCode ko co len ∈ pre
  | .launchUnified co len parts => ∀ p ∈ parts, .copyCode p.1 co len ∈ pre
  | _ => True

/-- every launch of the list finds the copy of its code in front of it (`seen` = what is already in
front of the list) -/
def cbFrom (seen : List Cmd) : List Cmd → Prop
  | [] => True
  | c :: cs => needsOK seen c ∧ cbFrom (seen ++ [c]) cs

theorem cbFrom_append (seen a b : List Cmd) :
    cbFrom seen (a ++ b) ↔ cbFrom seen a ∧ cbFrom (seen ++ a) b := by
  induction a generalizing seen with
  | nil => simp [cbFrom]
  | cons c cs ih =>
    simp only [List.cons_append, cbFrom, ih, List.append_assoc, and_assoc, List.nil_append]

/-- a list of copies needs nothing -/
theorem cbFrom_copies (seen cs : List Cmd) (h : ∀ c ∈ cs, needsOK [] c) : cbFrom seen cs := by
  induction cs generalizing seen with
  | nil => trivial
  | cons c cs ih =>
    refine ⟨?_, ih _ (fun c hc => h c (List.mem_cons_of_mem _ hc))⟩
    have := h c (List.mem_cons_self ..)
    cases c <;> simp_all [needsOK]

theorem mem_writesOf_copyCode {pid ko co len : Nat} {cs : List Cmd}
    (h : Cmd.copyCode ko co len ∈ cs) : (pid, ko, len, some co) ∈ writesOf pid cs :=
  List.mem_filterMap.2 ⟨_, h, rfl⟩

/-! ## the dynamic invariant of `exec` -/

theorem execCmd_queues (pid q : Nat) (e : Exec) (c : Cmd) : (execCmd pid q e c).queues = e.queues := by
  cases c <;> rfl

theorem execCmd_mem (pid q : Nat) (e : Exec) (c : Cmd) :
    (execCmd pid q e c).mem = (writeOf pid c).toList ++ e.mem := by
  cases c <;> rfl

theorem pendW_cons (x : Queue) (xs : List Queue) :
    pendW (x :: xs) = writesOf x.pid x.cmds ++ pendW xs := by
  simp [pendW]

/-- replacing queue `q`: old pending writes + new queue's writes = new pending + old queue's -/
theorem pendW_set (qs : List Queue) (q : Nat) (qu qu' : Queue) (h : qs[q]? = some qu) :
    (pendW (qs.set q qu') ++ writesOf qu.pid qu.cmds).Perm
      (pendW qs ++ writesOf qu'.pid qu'.cmds) := by
  induction qs generalizing q with
  | nil => simp at h
  | cons x xs ih =>
    cases q with
    | zero =>
      simp at h; subst h
      simp only [List.set_cons_zero, pendW_cons]
      rw [List.perm_iff_count]; intro a
      simp only [List.count_append]; omega
    | succ q =>
      simp at h
      have := ih q h
      rw [List.perm_iff_count] at this ⊢
      intro a
      have := this a
      simp only [List.set_cons_succ, pendW_cons, List.count_append] at this ⊢
      omega

/-- facts about the history `s` that the dynamic invariant relies on -/
structure SFacts (s : State) : Prop where
  disj : (pendW s.queues).Pairwise DisjW
  cb : ∀ (q : Nat) (qu : Queue), s.queues[q]? = some qu → cbFrom [] qu.cmds

/-- what holds after any number of `execStep`s from `{ queues := s.queues }` -/
structure DInv (s : State) (e : Exec) : Prop where
  perm : (e.mem ++ pendW e.queues).Perm (pendW s.queues)
  pre : ∀ (q : Nat) (qu : Queue), e.queues[q]? = some qu → ∃ (done : List Cmd) (qu0 : Queue), s.queues[q]? = some qu0 ∧ qu0.pid = qu.pid ∧
    qu0.cmds = done ++ qu.cmds ∧ ∀ w ∈ writesOf qu.pid done, w ∈ e.mem
  seen : ∀ x ∈ e.seen, x.present = true

theorem writesOf_cons (pid : Nat) (c : Cmd) (cs : List Cmd) :
    writesOf pid (c :: cs) = (writeOf pid c).toList ++ writesOf pid cs := by
  cases h : writeOf pid c <;> simp [writesOf, h]

theorem execCmd_seen_ok (pid q : Nat) (e : Exec) (c : Cmd) (done : List Cmd)
    (hs : ∀ x ∈ e.seen, x.present = true) (hp : e.mem.Pairwise DisjW) (hn : needsOK done c)
    (hw : ∀ w ∈ writesOf pid done, w ∈ e.mem) :
    ∀ x ∈ (execCmd pid q e c).seen, x.present = true := by
  cases c with
  | copyCode _ _ _ => exact hs
  | copyArgs _ _ => exact hs
  | copyPacket _ => exact hs
  | launch co len ko ka dp =>
    intro x hx
    simp only [execCmd, List.mem_append, List.mem_singleton] at hx
    rcases hx with hx | rfl
    · exact hs x hx
    · simp only [decide_eq_true_eq]
      exact codeAt_of_mem _ _ _ _ _ hp (hw _ (mem_writesOf_copyCode hn))
  | launchUnified co len parts =>
    intro x hx
    simp only [execCmd, List.mem_append, List.mem_map] at hx
    rcases hx with hx | ⟨p, hp', rfl⟩
    · exact hs x hx
    · simp only [decide_eq_true_eq]
      exact codeAt_of_mem _ _ _ _ _ hp (hw _ (mem_writesOf_copyCode (hn p hp')))

theorem dinv_init (s : State) : DInv s { queues := s.queues } where
  perm := by simp
  pre := fun q qu h => ⟨[], qu, h, rfl, rfl, by simp [writesOf]⟩
  seen := by simp

theorem dinv_step (s : State) (sf : SFacts s) (e : Exec) (h : DInv s e) (q : Nat) :
    DInv s (execStep e q) := by
  unfold execStep
  split
  · exact h
  · rename_i qu hq
    split
    · exact h
    · rename_i c rest hc
      obtain ⟨done, qu0, h0, hpid, hcm, hw⟩ := h.pre q qu hq
      have hmemP : e.mem.Pairwise DisjW :=
        (List.pairwise_append.1 (h.perm.symm.pairwise sf.disj disjK_symm)).1
      constructor
      · rw [execCmd_mem, execCmd_queues]
        have h1 := pendW_set e.queues q qu ⟨qu.pid, rest⟩ hq
        have h2 := h.perm
        rw [hc, writesOf_cons] at h1
        rw [List.perm_iff_count] at h1 h2 ⊢
        intro a
        have h1 := h1 a
        have h2 := h2 a
        simp only [List.count_append] at h1 h2 ⊢
        omega
      · intro q' qu' hq'
        rw [execCmd_queues] at hq'
        simp only [List.getElem?_set] at hq'
        by_cases hqq : q = q'
        · subst hqq
          rw [if_pos rfl] at hq'
          split at hq'
          · injection hq' with hq'
            subst hq'
            refine ⟨done ++ [c], qu0, h0, hpid, ?_, ?_⟩
            · rw [hcm, hc]; simp
            · intro w hw'
              rw [writesOf_append, List.mem_append] at hw'
              rw [execCmd_mem, List.mem_append]
              rcases hw' with hw' | hw'
              · exact Or.inr (hw w hw')
              · left
                rw [writesOf_cons] at hw'
                simpa [writesOf] using hw'
          · cases hq'
        · rw [if_neg hqq] at hq'
          obtain ⟨done', qu0', a1, a2, a3, a4⟩ := h.pre q' qu' hq'
          refine ⟨done', qu0', a1, a2, a3, ?_⟩
          intro w hw'
          rw [execCmd_mem, List.mem_append]
          exact Or.inr (a4 w hw')
      · refine execCmd_seen_ok qu.pid q _ c done h.seen hmemP ?_ hw
        have := sf.cb q qu0 h0
        rw [hcm, hc, cbFrom_append] at this
        simpa using this.2.1

theorem dinv_foldl (s : State) (sf : SFacts s) (sched : List Nat) (e : Exec) (h : DInv s e) :
    DInv s (sched.foldl execStep e) := by
  induction sched generalizing e with
  | nil => exact h
  | cons q l ih => exact ih _ (dinv_step s sf e h q)

theorem dinv_exec (s : State) (sf : SFacts s) (sched : List Nat) : DInv s (exec s sched) :=
  dinv_foldl s sf sched _ (dinv_init s)

/-! ## the static invariant of `run` -/

theorem getElem?_pushCmds (qs : List Queue) (q : Nat) (cs : List Cmd) (i : Nat) :
    (pushCmds qs q cs)[i]? =
      qs[i]?.map (fun x => if i = q then { x with cmds := x.cmds ++ cs } else x) := by
  simp [pushCmds]

theorem length_pushCmds (qs : List Queue) (q : Nat) (cs : List Cmd) :
    (pushCmds qs q cs).length = qs.length := by
  simp [pushCmds]

theorem pushCmds_eq_set (qs : List Queue) (q : Nat) (cs : List Cmd) (qu : Queue)
    (h : qs[q]? = some qu) : pushCmds qs q cs = qs.set q ⟨qu.pid, qu.cmds ++ cs⟩ := by
  apply List.ext_getElem?
  intro i
  rw [getElem?_pushCmds, List.getElem?_set]
  by_cases hi : q = i
  · subst hi
    have hl : q < qs.length := (List.getElem?_eq_some_iff.1 h).1
    rw [h]
    simp [hl]
  · have hi' : ¬ i = q := fun e => hi e.symm
    simp only [hi, hi', if_false]
    cases qs[i]? <;> rfl

theorem pendW_pushCmds (qs : List Queue) (q : Nat) (cs : List Cmd) (qu : Queue)
    (h : qs[q]? = some qu) : (pendW (pushCmds qs q cs)).Perm (pendW qs ++ writesOf qu.pid cs) := by
  rw [pushCmds_eq_set qs q cs qu h]
  have h1 := pendW_set qs q qu ⟨qu.pid, qu.cmds ++ cs⟩ h
  simp only [writesOf_append] at h1
  rw [List.perm_iff_count] at h1 ⊢
  intro a
  have h1 := h1 a
  simp only [List.count_append] at h1 ⊢
  omega

/-- one-queue-per-object / consistency over a list of (queue, object) pairs -/
def OneQL (L : List (Nat × Co)) : Prop := ∀ x ∈ L, ∀ y ∈ L, x.2.id = y.2.id → x.1 = y.1

def ConsL (L : List (Nat × Co)) : Prop := ∀ x ∈ L, ∀ y ∈ L, x.2.id = y.2.id → x.2 = y.2

/-- what holds of the driver state after the launches `L` -/
structure SInv (L : List (Nat × Co)) (s : State) : Prop where
  cache : ∀ (id ko : Nat), (id, ko) ∈ s.cache → ∃ (q : Nat) (co : Co) (qu : Queue),
    (q, co) ∈ L ∧ co.id = id ∧ s.queues[q]? = some qu ∧ Cmd.copyCode ko id co.len ∈ qu.cmds
  cb : ∀ (q : Nat) (qu : Queue), s.queues[q]? = some qu → cbFrom [] qu.cmds
  perm : ((pendW s.queues).map untag).Perm (s.allocs.map akey)

theorem sinv_empty : SInv [] {} where
  cache := by simp
  cb := by simp
  perm := by simp [pendW]

/-- appending commands `cs` and allocations `a` for queue `q` -/
theorem sinv_push {L L' : List (Nat × Co)} {s s' : State} (h : SInv L s) (hL : ∀ x ∈ L, x ∈ L')
    (q : Nat) (qu : Queue) (hq : s.queues[q]? = some qu) (cs : List Cmd) (a : List Alloc)
    (hqs : s'.queues = pushCmds s.queues q cs) (hal : s'.allocs = s.allocs ++ a)
    (hca : ∀ (id ko : Nat), (id, ko) ∈ s'.cache → (id, ko) ∈ s.cache ∨
      ∃ co : Co, (q, co) ∈ L' ∧ co.id = id ∧ Cmd.copyCode ko id co.len ∈ cs)
    (hcb : cbFrom qu.cmds cs) (hw : (writesOf qu.pid cs).map untag = a.map akey) : SInv L' s' := by
  constructor
  · intro id ko hm
    rcases hca id ko hm with hm | ⟨co, h1, h2, h3⟩
    · obtain ⟨q', co, qu', h1, h2, h3, h4⟩ := h.cache id ko hm
      refine ⟨q', co, if q' = q then ⟨qu'.pid, qu'.cmds ++ cs⟩ else qu', hL _ h1, h2, ?_, ?_⟩
      · rw [hqs, getElem?_pushCmds, h3]; rfl
      · split
        · exact List.mem_append_left _ h4
        · exact h4
    · refine ⟨q, co, ⟨qu.pid, qu.cmds ++ cs⟩, h1, h2, ?_, List.mem_append_right _ h3⟩
      rw [hqs, getElem?_pushCmds, hq]; simp
  · intro i x hx
    rw [hqs, getElem?_pushCmds] at hx
    cases hy : s.queues[i]? with
    | none => rw [hy] at hx; cases hx
    | some y =>
      rw [hy] at hx
      simp only [Option.map_some, Option.some.injEq] at hx
      subst hx
      split
      · rename_i e
        subst e
        rw [hq] at hy; cases hy
        show cbFrom [] (qu.cmds ++ cs)
        rw [cbFrom_append]
        exact ⟨h.cb _ _ hq, by simpa using hcb⟩
      · exact h.cb _ _ hy
  · rw [hqs, hal, List.map_append, ← hw]
    have h1 := (pendW_pushCmds s.queues q cs qu hq).map untag
    rw [List.map_append] at h1
    exact h1.trans (h.perm.append_right _)

theorem unifiedParts_cons (pid : Nat) (co : Co) (g : Nat) (gs addrs : List Nat) :
    unifiedParts pid co (g :: gs) addrs =
      ([⟨pid, g, addrs.getD 0 0, co.len⟩, ⟨pid, g, addrs.getD 1 0, co.kernarg⟩,
          ⟨pid, g, addrs.getD 2 0, packetSize⟩] ++ (unifiedParts pid co gs (addrs.drop 3)).1,
       [.copyCode (addrs.getD 0 0) co.id co.len, .copyArgs (addrs.getD 1 0) co.kernarg,
          .copyPacket (addrs.getD 2 0)] ++ (unifiedParts pid co gs (addrs.drop 3)).2.1,
       (addrs.getD 0 0, addrs.getD 1 0, addrs.getD 2 0) ::
          (unifiedParts pid co gs (addrs.drop 3)).2.2) := rfl

/-- the copies of a unified launch write exactly its allocations, in order -/
theorem unifiedParts_writes (pid : Nat) (co : Co) (gs addrs : List Nat) :
    (writesOf pid (unifiedParts pid co gs addrs).2.1).map untag =
      (unifiedParts pid co gs addrs).1.map akey := by
  induction gs generalizing addrs with
  | nil => rfl
  | cons g gs ih =>
    rw [unifiedParts_cons]
    simp only [writesOf_append, List.map_append, ih]
    rfl

theorem unifiedParts_copies (pid : Nat) (co : Co) (gs addrs : List Nat) :
    ∀ c ∈ (unifiedParts pid co gs addrs).2.1, needsOK [] c := by
  induction gs generalizing addrs with
  | nil => intro c hc; cases hc
  | cons g gs ih =>
    rw [unifiedParts_cons]
    intro c hc
    simp only [List.mem_append, List.mem_cons, List.not_mem_nil, or_false] at hc
    rcases hc with (rfl | rfl | rfl) | hc
    · trivial
    · trivial
    · trivial
    · exact ih _ c hc

/-- every part of a unified launch has its own copy of the code among the copies -/
theorem unifiedParts_parts (pid : Nat) (co : Co) (gs addrs : List Nat) :
    ∀ p ∈ (unifiedParts pid co gs addrs).2.2,
      Cmd.copyCode p.1 co.id co.len ∈ (unifiedParts pid co gs addrs).2.1 := by
  induction gs generalizing addrs with
  | nil => intro p hp; cases hp
  | cons g gs ih =>
    rw [unifiedParts_cons]
    intro p hp
    rcases List.mem_cons.1 hp with rfl | hp
    · simp
    · exact List.mem_append_right _ (ih _ p hp)

theorem step_launchUnified (s : State) (q : Nat) (gpus : List Nat) (co : Co) (addrs : List Nat) :
    step s (.launchUnified q gpus co addrs) =
      { s with
        allocs := s.allocs ++ (unifiedParts (pidOf s.queues q) co gpus addrs).1
        queues := pushCmds s.queues q ((unifiedParts (pidOf s.queues q) co gpus addrs).2.1 ++
          [.launchUnified co.id co.len (unifiedParts (pidOf s.queues q) co gpus addrs).2.2]) } := rfl

theorem lookup_mem {c : List (Nat × Nat)} {k v : Nat} (h : lookup c k = some v) : (k, v) ∈ c := by
  unfold lookup at h
  cases hf : c.find? (·.1 == k) with
  | none => rw [hf] at h; cases h
  | some x =>
    rw [hf] at h
    have h1 := List.find?_some hf
    have h2 := List.mem_of_find?_eq_some hf
    simp only [Option.map_some, Option.some.injEq] at h
    simp only [beq_iff_eq] at h1
    obtain ⟨a, b⟩ := x
    simp only at h h1
    subst h h1
    exact h2

/-- the queue an operation uses exists -/
def opOK (nq : Nat) : Op → Prop
  | .newQueue _ => True
  | .launch q _ _ _ => q < nq
  | .launchUnified q _ _ _ => q < nq

theorem pidOf_eqX {qs : List Queue} {q : Nat} {qu : Queue} (h : qs[q]? = some qu) :
    pidOf qs q = qu.pid := by
  simp [pidOf, h]

theorem sinv_step (L : List (Nat × Co)) (s : State) (h : SInv L s) (op : Op)
    (ok : opOK s.queues.length op) (one : OneQL (L ++ launchesOf [op]))
    (con : ConsL (L ++ launchesOf [op])) : SInv (L ++ launchesOf [op]) (step s op) := by
  cases op with
  | newQueue pid =>
    simp only [launchesOf, List.filterMap_cons, List.filterMap_nil, List.append_nil]
    constructor
    · intro id ko hm
      obtain ⟨q', co, qu', h1, h2, h3, h4⟩ := h.cache id ko hm
      refine ⟨q', co, qu', h1, h2, ?_, h4⟩
      show (s.queues ++ [_])[q']? = some qu'
      rw [List.getElem?_append_left (List.getElem?_eq_some_iff.1 h3).1]
      exact h3
    · intro i x hx
      change (s.queues ++ [_])[i]? = some x at hx
      by_cases hi : i < s.queues.length
      · rw [List.getElem?_append_left hi] at hx
        exact h.cb _ _ hx
      · rw [List.getElem?_append_right (by omega)] at hx
        have hm := List.mem_of_getElem? hx
        simp only [List.mem_singleton] at hm
        subst hm
        trivial
    · show ((pendW (s.queues ++ [_])).map untag).Perm (s.allocs.map akey)
      simpa [pendW, writesOf] using h.perm
  | launch q gpu co addrs =>
    have hlt : q < s.queues.length := ok
    obtain ⟨qu, hq⟩ : ∃ qu, s.queues[q]? = some qu := ⟨_, List.getElem?_eq_getElem hlt⟩
    have hL : launchesOf [Op.launch q gpu co addrs] = [(q, co)] := rfl
    rw [hL] at one con ⊢
    cases hlk : lookup s.cache co.id with
    | some ko =>
      have hst : step s (.launch q gpu co addrs) =
          { s with
            allocs := s.allocs ++ [⟨qu.pid, gpu, addrs.getD 0 0, co.kernarg⟩,
              ⟨qu.pid, gpu, addrs.getD 1 0, packetSize⟩]
            queues := pushCmds s.queues q [.copyArgs (addrs.getD 0 0) co.kernarg,
              .copyPacket (addrs.getD 1 0),
              .launch co.id co.len ko (addrs.getD 0 0) (addrs.getD 1 0)] } := by
        simp only [step, hlk, pidOf_eqX hq]
      rw [hst]
      obtain ⟨q', co', qu', h1, h2, h3, h4⟩ := h.cache _ _ (lookup_mem hlk)
      have e1 : q' = q := one (q', co') (by simp [h1]) (q, co) (by simp) h2
      have e2 : co' = co := con (q', co') (by simp [h1]) (q, co) (by simp) h2
      subst e1 e2
      rw [hq] at h3; cases h3
      refine sinv_push h (fun x hx => List.mem_append_left _ hx) q' qu hq _ _ rfl rfl ?_ ?_ rfl
      · intro id ko' hm; exact Or.inl hm
      · simp [cbFrom, needsOK, h4]
    | none =>
      have hst : step s (.launch q gpu co addrs) =
          { cache := s.cache ++ [(co.id, addrs.getD 0 0)]
            allocs := s.allocs ++ [⟨qu.pid, gpu, addrs.getD 0 0, co.len⟩,
              ⟨qu.pid, gpu, addrs.getD 1 0, co.kernarg⟩,
              ⟨qu.pid, gpu, addrs.getD 2 0, packetSize⟩]
            queues := pushCmds s.queues q [.copyCode (addrs.getD 0 0) co.id co.len,
              .copyArgs (addrs.getD 1 0) co.kernarg, .copyPacket (addrs.getD 2 0),
              .launch co.id co.len (addrs.getD 0 0) (addrs.getD 1 0) (addrs.getD 2 0)] } := by
        simp only [step, hlk, pidOf_eqX hq]
      rw [hst]
      refine sinv_push h (fun x hx => List.mem_append_left _ hx) q qu hq _ _ rfl rfl ?_ ?_ rfl
      · intro id ko' hm
        simp only [List.mem_append, List.mem_singleton, Prod.mk.injEq] at hm
        rcases hm with hm | ⟨rfl, rfl⟩
        · exact Or.inl hm
        · exact Or.inr ⟨co, by simp, rfl, by simp⟩
      · simp [cbFrom, needsOK]
  | launchUnified q gpus co addrs =>
    have hlt : q < s.queues.length := ok
    obtain ⟨qu, hq⟩ : ∃ qu, s.queues[q]? = some qu := ⟨_, List.getElem?_eq_getElem hlt⟩
    have hL : launchesOf [Op.launchUnified q gpus co addrs] = [] := rfl
    rw [hL, List.append_nil, step_launchUnified, pidOf_eqX hq]
    refine sinv_push h (fun x hx => hx) q qu hq _ _ rfl rfl ?_ ?_ ?_
    · intro id ko' hm; exact Or.inl hm
    · rw [cbFrom_append]
      refine ⟨cbFrom_copies _ _ (unifiedParts_copies _ _ _ _), ?_, trivial⟩
      intro p hp
      exact List.mem_append_right _ (unifiedParts_parts _ _ _ _ p hp)
    · rw [writesOf_append, List.map_append, unifiedParts_writes]
      simp [writesOf, writeOf]

theorem launchesOf_cons (op : Op) (rest : List Op) :
    launchesOf (op :: rest) = launchesOf [op] ++ launchesOf rest := by
  unfold launchesOf
  rw [← List.filterMap_append]
  rfl

theorem step_queues_lengthX (s : State) (op : Op) :
    (step s op).queues.length = s.queues.length + (match op with | .newQueue _ => 1 | _ => 0) := by
  cases op with
  | newQueue pid => simp [step]
  | launch q gpu co addrs =>
    simp only [step]
    split <;> simp [length_pushCmds]
  | launchUnified q gpus co addrs =>
    rw [step_launchUnified]
    simp [length_pushCmds]

theorem sinv_foldl (ops : List Op) (L : List (Nat × Co)) (s : State) (h : SInv L s)
    (wf : wfFromX s.queues.length ops = true) (one : OneQL (L ++ launchesOf ops))
    (con : ConsL (L ++ launchesOf ops)) : SInv (L ++ launchesOf ops) (ops.foldl step s) := by
  induction ops generalizing L s with
  | nil => simpa [launchesOf] using h
  | cons op rest ih =>
    have hsplit : L ++ launchesOf (op :: rest) = (L ++ launchesOf [op]) ++ launchesOf rest := by
      rw [launchesOf_cons, List.append_assoc]
    rw [hsplit] at one con ⊢
    have ok : opOK s.queues.length op ∧ wfFromX (step s op).queues.length rest = true := by
      rw [step_queues_lengthX]
      cases op <;> simp_all [wfFromX, opOK]
    have h' := sinv_step L s h op ok.1
      (fun x hx y hy => one x (List.mem_append_left _ hx) y (List.mem_append_left _ hy))
      (fun x hx y hy => con x (List.mem_append_left _ hx) y (List.mem_append_left _ hy))
    exact ih (L ++ launchesOf [op]) (step s op) h' ok.2 one con

theorem sinv_run (ops : List Op) (wf : WFX ops) (con : ConsistentL ops)
    (one : OneQueuePerObjectX ops) : SInv (launchesOf ops) (run ops) := by
  have h := sinv_foldl ops [] {} sinv_empty wf
    (by rw [List.nil_append]; exact one) (by rw [List.nil_append]; exact con)
  rw [List.nil_append] at h
  exact h

theorem sfacts_run (ops : List Op) (wf : WFX ops) (con : ConsistentL ops)
    (one : OneQueuePerObjectX ops) (dis : DisjointAllocs (run ops).allocs) : SFacts (run ops) := by
  have h := sinv_run ops wf con one
  refine ⟨?_, h.cb⟩
  have h1 : ((run ops).allocs.map akey).Pairwise DisjK := by
    rw [List.pairwise_map]
    exact (disjointAllocs_iff_pairwise _).1 dis
  have h2 := h.perm.symm.pairwise h1 disjK_symm
  rw [List.pairwise_map] at h2
  exact h2

theorem consistentL_of_X (ops : List Op) (h : ConsistentX ops) : ConsistentL ops := by
  have key : ∀ x ∈ launchesOf ops, x.2 ∈ cosOfX ops := by
    intro x hx
    obtain ⟨op, ho, he⟩ := List.mem_filterMap.1 hx
    refine List.mem_filterMap.2 ⟨op, ho, ?_⟩
    cases op with
    | newQueue _ => cases he
    | launch _ _ _ _ => cases he; rfl
    | launchUnified _ _ _ _ => cases he
  intro x hx y hy e
  exact h _ (key x hx) _ (key y hy) e

end Drv
end C13
