import MgpuProofs.C07DispInit
set_option linter.unusedVariables false
set_option linter.unusedSimpArgs false
/-! # C07 helper lemmas: byte-level frames of dispatch / access / retire and the clean-window
invariant of a compute unit's life cycle -/
namespace C07
open Gen

/-! ## small facts -/

private theorem get_replicate_zero (n p : Nat) : get (Array.replicate n 0) p = 0 := by
  simp only [get, Array.getD_eq_getD_getElem?, Array.getElem?_replicate]
  split <;> rfl

private theorem get_empty (p : Nat) : get (#[] : File) p = 0 := by
  simp [get, Array.getD_eq_getD_getElem?]

theorem blank_alloc_clean : Alloc blankCU ∧ Clean blankCU := by
  refine ⟨⟨fun i hi => ?_, fun i j hi _ _ => ?_⟩, fun p _ => ?_, fun k p _ => ?_⟩
  · exact absurd hi (by simp [blankCU])
  · exact absurd hi (by simp [blankCU])
  · exact get_replicate_zero _ _
  · show get ((Array.replicate 4 (Array.replicate 65536 0)).getD k #[]) p = 0
    simp only [Array.getD_eq_getD_getElem?, Array.getElem?_replicate]
    split
    · exact get_replicate_zero _ _
    · exact get_empty _

/-- `Fits` only looks at the file sizes and the layout of the record; windows may shrink -/
theorem Fits.of_sizes {t t' : TimingRF} {w w' : TWf} (hf : Fits t w)
    (hs : t'.sfile.size = t.sfile.size) (hv : t'.vfiles.size = t.vfiles.size)
    (hvs : ∀ x : TWf, (t'.vfileOf x).size = (t.vfileOf x).size)
    (h1 : w'.simd = w.simd) (h2 : w'.soff = w.soff) (h3 : w'.voff = w.voff)
    (h4 : w'.ns ≤ w.ns) (h5 : w'.nv ≤ w.nv) : Fits t' w' := by
  obtain ⟨f1, f2, f3, f4, f5⟩ := hf
  refine ⟨by rw [hs, h2]; omega, by omega, by rw [hv, h1]; exact f3, ?_, by rw [h3]; omega⟩
  rw [hvs]
  have : t.vfileOf w' = t.vfileOf w := by simp only [TimingRF.vfileOf, h1]
  rw [this]; exact f4

theorem ownS_empty (w : TWf) (h : w.ns = 0) (p : Nat) : ¬ ownS w p := by
  unfold ownS; rw [h]; omega

theorem ownV_empty (w : TWf) (h : w.nv = 0) (p : Nat) : ¬ ownV w p := by
  rintro ⟨l, _, _, h3, h4⟩
  rw [h] at h4; omega

/-- an empty window shares no byte with anything -/
theorem windowsDisjoint_empty (w w' : TWf) (h1 : w.ns = 0) (h2 : w.nv = 0) : WindowsDisjoint w w' :=
  ⟨fun p ⟨a, _⟩ => ownS_empty w h1 p a, Or.inr fun p ⟨a, _⟩ => ownV_empty w h2 p a⟩

/-! ## a supported access -/

/-- byte-level frame of one supported access: only bytes of the accessing wavefront's own windows
    change -/
theorem step_frame (t : TimingRF) (wi : Nat) (o : Op) (hwi : wi < t.wfs.size) (hf : Fits t (t.wf wi))
    (ho : o.Ok (t.wf wi).ns (t.wf wi).nv) :
    (∀ p, ¬ ownS (t.wf wi) p → get (t.step wi o).1.sfile p = get t.sfile p) ∧
    (∀ k p, ¬ (k = (t.wf wi).simd ∧ ownV (t.wf wi) p) →
      get ((t.step wi o).1.vfiles.getD k #[]) p = get (t.vfiles.getD k #[]) p) := by
  have hnv : (t.wf wi).nv ≤ 256 := by have := hf.hrow; omega
  have hwrite : ∀ (a : Acc) (d : List UInt8), a.Supported (t.wf wi).ns (t.wf wi).nv →
      (∀ p, ¬ ownS (t.wf wi) p →
        get (t.writeOperandBytes wi a.k.reg a.rc a.lane d).1.sfile p = get t.sfile p) ∧
      (∀ k p, ¬ (k = (t.wf wi).simd ∧ ownV (t.wf wi) p) →
        get ((t.writeOperandBytes wi a.k.reg a.rc a.lane d).1.vfiles.getD k #[]) p =
          get (t.vfiles.getD k #[]) p) := by
    intro a d ha
    obtain ⟨f1, f2, _⟩ := tim_write_only_own t wi a d hf.hns hnv ha
    exact ⟨f1, fun k p hp => f2 { simd := k, soff := 0, voff := 0, ns := 0, nv := 0 } p hp⟩
  cases o with
  | rb a n => exact ⟨fun _ _ => rfl, fun _ _ _ => rfl⟩
  | r a => exact ⟨fun _ _ => rfl, fun _ _ _ => rfl⟩
  | wb a d => exact hwrite a d ho.1
  | w a v =>
    obtain ⟨ha, hw⟩ := ho
    have e := (timing_refines_cells t wi a hwi hf ha).2.2.2 v hw
    simp only [TimingRF.step, e]
    exact hwrite a _ ha

/-- a transition that keeps the layout and changes only bytes owned by wavefront `wi` keeps `Clean` -/
theorem clean_of_frame (t t' : TimingRF) (wi : Nat) (hwi : wi < t.wfs.size) (hC : Clean t)
    (hL : SameLayout t t')
    (hS : ∀ p, ¬ ownS (t.wf wi) p → get t'.sfile p = get t.sfile p)
    (hV : ∀ k p, ¬ (k = (t.wf wi).simd ∧ ownV (t.wf wi) p) →
      get (t'.vfiles.getD k #[]) p = get (t.vfiles.getD k #[]) p) : Clean t' := by
  refine ⟨fun p hp => ?_, fun k p hp => ?_⟩
  · have hp' : ∀ i, i < t.wfs.size → ¬ ownS (t.wf i) p := by
      intro i hi ho
      obtain ⟨_, a2, _, a4, _⟩ := hL.lay i
      exact hp i (by rw [hL.nwf]; exact hi) ((ownS_layout a2 a4 p).2 ho)
    rw [hS p (hp' wi hwi)]
    exact hC.1 p hp'
  · have hp' : ∀ i, i < t.wfs.size → ¬ ((t.wf i).simd = k ∧ ownV (t.wf i) p) := by
      rintro i hi ⟨hs, ho⟩
      obtain ⟨a1, _, a3, _, a5⟩ := hL.lay i
      exact hp i (by rw [hL.nwf]; exact hi) ⟨by rw [a1]; exact hs, (ownV_layout a3 a5 p).2 ho⟩
    rw [hV k p (fun ⟨e, ho⟩ => hp' wi hwi ⟨e.symm, ho⟩)]
    exact hC.2 k p hp'

theorem step_alloc_clean (t : TimingRF) (wi : Nat) (o : Op) (hA : Alloc t) (hC : Clean t)
    (hwi : wi < t.wfs.size) (ho : o.Ok (t.wf wi).ns (t.wf wi).nv) :
    SameLayout t (t.step wi o).1 ∧ Alloc (t.step wi o).1 ∧ Clean (t.step wi o).1 := by
  obtain ⟨_, _, hL⟩ := tim_step_refines t wi o hA hwi ho
  obtain ⟨hS, hV⟩ := step_frame t wi o hwi (hA.fits wi hwi) ho
  exact ⟨hL, hL.alloc hA, clean_of_frame t _ wi hwi hC hL hS hV⟩

/-- interleaved supported accesses of resident wavefronts keep `Clean` -/
theorem exec_clean (ops : List (Nat × Op)) : ∀ (t : TimingRF), Alloc t → Clean t → GOk t ops →
    Clean (t.exec ops).1 := by
  induction ops with
  | nil => intro t _ hC _; exact hC
  | cons p ops ih =>
    intro t hA hC hok
    obtain ⟨hwi, ho⟩ := hok p (by simp)
    obtain ⟨s1, s2, s3⟩ := step_alloc_clean t p.1 p.2 hA hC hwi ho
    have hok' : GOk (t.step p.1 p.2).1 ops := GOk.layout s1 (fun q hq => hok q (by simp [hq]))
    simp only [TimingRF.exec]
    exact ih _ s2 s3 hok'

/-! ## a wavefront retires -/

theorem retire_alloc_clean (t : TimingRF) (wi : Nat) (hA : Alloc t) (hC : Clean t) (hwi : wi < t.wfs.size) :
    Alloc (t.retire wi) ∧ Clean (t.retire wi) := by
  have hf := hA.fits wi hwi
  obtain ⟨r1, r2, r3, r4, r5, r6, r7, r8, r9⟩ := release_bytes t wi hf
  have hwf : ∀ j, (t.release wi).1.wf j = t.wf j := fun j => by simp only [TimingRF.wf, r2]
  have hwi' : wi < (t.release wi).1.wfs.size := by rw [r2]; exact hwi
  have hsz : (t.retire wi).wfs.size = t.wfs.size := by
    simp only [TimingRF.retire, TimingRF.setWf, Array.size_setIfInBounds, r2]
  have hsame : (t.retire wi).wf wi = { t.wf wi with ns := 0, nv := 0 } := by
    unfold TimingRF.retire
    rw [wf_setWf_same _ wi _ hwi', hwf]
  have hother : ∀ j, j ≠ wi → (t.retire wi).wf j = t.wf j := by
    intro j hj
    unfold TimingRF.retire
    rw [wf_setWf_other _ wi j _ hj, hwf]
  have hsf : (t.retire wi).sfile = (t.release wi).1.sfile := rfl
  have hvf : (t.retire wi).vfiles = (t.release wi).1.vfiles := rfl
  have hvfo : ∀ x : TWf, (t.retire wi).vfileOf x = (t.release wi).1.vfileOf x := fun _ => rfl
  have hfits : ∀ (w w' : TWf), Fits t w → w'.simd = w.simd → w'.soff = w.soff → w'.voff = w.voff →
      w'.ns ≤ w.ns → w'.nv ≤ w.nv → Fits (t.retire wi) w' := fun w w' h h1 h2 h3 h4 h5 =>
    h.of_sizes (by rw [hsf, r3]) (by rw [hvf, r4]) (fun x => by rw [hvfo, r5]) h1 h2 h3 h4 h5
  have hAlloc : Alloc (t.retire wi) := by
    refine ⟨fun i hi => ?_, fun i j hi hj hne => ?_⟩
    · rw [hsz] at hi
      by_cases e : i = wi
      · subst e
        rw [hsame]
        exact hfits _ _ hf rfl rfl rfl (Nat.zero_le _) (Nat.zero_le _)
      · rw [hother i e]
        exact hfits _ _ (hA.fits i hi) rfl rfl rfl (Nat.le_refl _) (Nat.le_refl _)
    · rw [hsz] at hi hj
      by_cases ei : i = wi
      · subst ei
        rw [hsame]
        exact windowsDisjoint_empty _ _ rfl rfl
      · by_cases ej : j = wi
        · subst ej
          rw [hsame]
          exact (windowsDisjoint_empty _ _ rfl rfl).symm
        · rw [hother i ei, hother j ej]
          exact hA.disj i j hi hj hne
  refine ⟨hAlloc, fun p hp => ?_, fun k p hp => ?_⟩
  · rw [hsf]
    by_cases ho : ownS (t.wf wi) p
    · exact r6 p ho
    · rw [r7 p ho]
      apply hC.1
      intro i hi
      by_cases e : i = wi
      · subst e; exact ho
      · have := hp i (by rw [hsz]; exact hi)
        rw [hother i e] at this
        exact this
  · rw [hvf]
    by_cases ho : k = (t.wf wi).simd ∧ ownV (t.wf wi) p
    · obtain ⟨hk, ho⟩ := ho
      subst hk
      exact r8 p ho
    · have := r9 { simd := k, soff := 0, voff := 0, ns := 0, nv := 0 } p ho
      show get ((t.release wi).1.vfiles.getD k #[]) p = 0
      have e2 : get ((t.release wi).1.vfiles.getD k #[]) p = get (t.vfiles.getD k #[]) p := this
      rw [e2]
      apply hC.2
      intro i hi
      by_cases e : i = wi
      · subst e; exact fun ⟨a, b⟩ => ho ⟨a.symm, b⟩
      · have := hp i (by rw [hsz]; exact hi)
        rw [hother i e] at this
        exact this

/-! ## a wavefront is dispatched -/

theorem newWf_wf_old (t : TimingRF) (ns nv i : Nat) (h : i < t.wfs.size) : (t.newWf ns nv).wf i = t.wf i := by
  simp [TimingRF.wf, TimingRF.newWf, Array.getD_eq_getD_getElem?, Array.getElem?_push, Nat.ne_of_lt h]

theorem newWf_wf_new (t : TimingRF) (ns nv : Nat) :
    (t.newWf ns nv).wf t.wfs.size = { simd := 0, soff := 0, voff := 0, ns := ns, nv := nv } := by
  simp [TimingRF.wf, TimingRF.newWf, Array.getD_eq_getD_getElem?, Array.getElem?_push]

/-- the compute unit after `wrapWG`'s new record received its location (`setWfInfo`), before
    `initRegisters` -/
abbrev TimingRF.mapPre (t : TimingRF) (ns nv simd soff voff : Nat) (d : DispInfo) : TimingRF :=
  (t.newWf ns nv).setWfInfo t.wfs.size simd soff voff d

/-- everything about the dispatch of a new wavefront: the state after `setWfInfo` has one more record
    (the new one, with the location), the old records and the files unchanged, satisfies `Alloc` and
    `Clean`; `DispatchWf` is the run of `initOps` by the new wavefront from there -/
theorem map_setup (t : TimingRF) (ns nv simd soff voff : Nat) (d : DispInfo) (hA : Alloc t) (hC : Clean t)
    (hok : (CUOp.map ns nv simd soff voff d).Ok t) :
    (t.mapPre ns nv simd soff voff d).wfs.size = t.wfs.size + 1 ∧
    (t.mapPre ns nv simd soff voff d).wf t.wfs.size =
      { simd := simd, soff := soff, voff := voff, ns := ns, nv := nv, exec := d.exec } ∧
    (∀ i, i < t.wfs.size → (t.mapPre ns nv simd soff voff d).wf i = t.wf i) ∧
    Alloc (t.mapPre ns nv simd soff voff d) ∧ Clean (t.mapPre ns nv simd soff voff d) ∧
    GOk (t.mapPre ns nv simd soff voff d) ((initOps d).map fun o => (t.wfs.size, o)) ∧
    t.cuStep (.map ns nv simd soff voff d) =
      ((t.mapPre ns nv simd soff voff d).exec ((initOps d).map fun o => (t.wfs.size, o))).1 := by
  obtain ⟨k1, k2, k3, k4, k5, k6, k7⟩ := hok
  have hn : t.wfs.size < (t.newWf ns nv).wfs.size := by simp [TimingRF.newWf]
  have hsz1 : ((t.newWf ns nv).setWfInfo t.wfs.size simd soff voff d).wfs.size = t.wfs.size + 1 := by
    simp [TimingRF.setWfInfo, TimingRF.setWf, TimingRF.newWf]
  have hnew : ((t.newWf ns nv).setWfInfo t.wfs.size simd soff voff d).wf t.wfs.size =
      { simd := simd, soff := soff, voff := voff, ns := ns, nv := nv, exec := d.exec } := by
    unfold TimingRF.setWfInfo
    rw [wf_setWf_same _ _ _ hn]
    have := newWf_wf_new t ns nv
    simp only [TimingRF.wf] at this
    rw [this]
  have hold : ∀ i, i < t.wfs.size → ((t.newWf ns nv).setWfInfo t.wfs.size simd soff voff d).wf i = t.wf i := by
    intro i hi
    unfold TimingRF.setWfInfo
    rw [wf_setWf_other _ _ i _ (Nat.ne_of_lt hi), newWf_wf_old t ns nv i hi]
  have hfits : ∀ (w w' : TWf), Fits t w → w'.simd = w.simd → w'.soff = w.soff → w'.voff = w.voff →
      w'.ns ≤ w.ns → w'.nv ≤ w.nv → Fits ((t.newWf ns nv).setWfInfo t.wfs.size simd soff voff d) w' :=
    fun w w' h h1 h2 h3 h4 h5 => h.of_sizes rfl rfl (fun _ => rfl) h1 h2 h3 h4 h5
  have hfnew : Fits t { simd := simd, soff := soff, voff := voff, ns := ns, nv := nv, exec := d.exec } :=
    ⟨k1, k2, k3, k4, k5⟩
  have hdnew : ∀ i, i < t.wfs.size → WindowsDisjoint (t.wf i)
      { simd := simd, soff := soff, voff := voff, ns := ns, nv := nv, exec := d.exec } := fun i hi => k6 i hi
  have hA1 : Alloc ((t.newWf ns nv).setWfInfo t.wfs.size simd soff voff d) := by
    refine ⟨fun i hi => ?_, fun i j hi hj hne => ?_⟩
    · rw [hsz1] at hi
      by_cases e : i = t.wfs.size
      · subst e
        rw [hnew]
        exact hfits _ _ hfnew rfl rfl rfl (Nat.le_refl _) (Nat.le_refl _)
      · have hi' : i < t.wfs.size := by omega
        rw [hold i hi']
        exact hfits _ _ (hA.fits i hi') rfl rfl rfl (Nat.le_refl _) (Nat.le_refl _)
    · rw [hsz1] at hi hj
      by_cases ei : i = t.wfs.size
      · have hj' : j < t.wfs.size := by omega
        subst ei
        rw [hnew, hold j hj']
        exact (hdnew j hj').symm
      · have hi' : i < t.wfs.size := by omega
        by_cases ej : j = t.wfs.size
        · subst ej
          rw [hnew, hold i hi']
          exact hdnew i hi'
        · have hj' : j < t.wfs.size := by omega
          rw [hold i hi', hold j hj']
          exact hA.disj i j hi' hj' hne
  have hC1 : Clean ((t.newWf ns nv).setWfInfo t.wfs.size simd soff voff d) := by
    refine ⟨fun p hp => hC.1 p (fun i hi => ?_), fun k p hp => hC.2 k p (fun i hi => ?_)⟩
    · have := hp i (by rw [hsz1]; omega)
      rw [hold i hi] at this
      exact this
    · have := hp i (by rw [hsz1]; omega)
      rw [hold i hi] at this
      exact this
  have hfit : AbiFits d ((t.newWf ns nv).wf t.wfs.size).ns ((t.newWf ns nv).wf t.wfs.size).nv := by
    rw [newWf_wf_new]; exact k7
  have hseq := dispatch_is_init_sequence (t.newWf ns nv) t.wfs.size simd soff voff d hn hA1 hfit
  have hgok : GOk ((t.newWf ns nv).setWfInfo t.wfs.size simd soff voff d)
      ((initOps d).map fun o => (t.wfs.size, o)) := by
    intro p hp
    simp only [List.mem_map] at hp
    obtain ⟨o, ho, rfl⟩ := hp
    refine ⟨by rw [hsz1]; omega, ?_⟩
    show o.Ok _ _
    rw [hnew]
    exact abiFits_ok d ns nv k7 o ho
  refine ⟨hsz1, hnew, hold, hA1, hC1, hgok, ?_⟩
  show ((t.newWf ns nv).dispatchWf t.wfs.size simd soff voff d).1 = _
  rw [hseq]

theorem map_alloc_clean (t : TimingRF) (ns nv simd soff voff : Nat) (d : DispInfo) (hA : Alloc t) (hC : Clean t)
    (hok : (CUOp.map ns nv simd soff voff d).Ok t) :
    Alloc (t.cuStep (.map ns nv simd soff voff d)) ∧ Clean (t.cuStep (.map ns nv simd soff voff d)) := by
  obtain ⟨_, _, _, hA1, hC1, hgok, hseq⟩ := map_setup t ns nv simd soff voff d hA hC hok
  rw [hseq]
  exact ⟨(timing_exec_refines _ _ hA1 hgok).2.2.2, exec_clean _ _ hA1 hC1 hgok⟩

/-- one life-cycle step keeps the allocation invariant and the clean-window invariant -/
theorem cuStep_alloc_clean (t : TimingRF) (o : CUOp) (hA : Alloc t) (hC : Clean t) (hok : o.Ok t) :
    Alloc (t.cuStep o) ∧ Clean (t.cuStep o) := by
  cases o with
  | map ns nv simd soff voff d => exact map_alloc_clean t ns nv simd soff voff d hA hC hok
  | acc wi o => exact (step_alloc_clean t wi o hA hC hok.1 hok.2).2
  | retire wi => exact retire_alloc_clean t wi hA hC hok

/-- **T7** every reachable state of a compute unit's life cycle (wavefronts dispatched to windows
    disjoint from the resident ones, supported accesses, wavefronts retiring) satisfies the allocation
    invariant, and every register byte no resident wavefront owns is zero -/
theorem cu_run_alloc_clean (ops : List CUOp) : ∀ (t : TimingRF), Alloc t → Clean t → CUOkAll t ops →
    Alloc (t.cuRun ops) ∧ Clean (t.cuRun ops) := by
  induction ops with
  | nil => intro t hA hC _; exact ⟨hA, hC⟩
  | cons o ops ih =>
    intro t hA hC hok
    simp only [CUOkAll] at hok
    obtain ⟨s1, s2⟩ := cuStep_alloc_clean t o hA hC hok.1
    simp only [TimingRF.cuRun]
    exact ih _ s1 s2 hok.2

end C07
