import MgpuProofs.C07DispInit
set_option linter.unusedVariables false
set_option linter.unusedSimpArgs false
/-! # C07 helper lemmas: byte-level frames of dispatch / access / retire and the clean-window
invariant of a compute unit's life cycle -/
namespace C07
open Gen

theorem blank_alloc_clean : Alloc blankCU ∧ Clean blankCU := by
  sorry

/-- one life-cycle step keeps the allocation invariant and the clean-window invariant -/
theorem cuStep_alloc_clean (t : TimingRF) (o : CUOp) (hA : Alloc t) (hC : Clean t) (hok : o.Ok t) :
    Alloc (t.cuStep o) ∧ Clean (t.cuStep o) := by
  sorry

/-- **T7** every reachable state of a compute unit's life cycle (wavefronts dispatched to windows
    disjoint from the resident ones, supported accesses, wavefronts retiring) satisfies the allocation
    invariant, and every register byte no resident wavefront owns is zero -/
theorem cu_run_alloc_clean (ops : List CUOp) : ∀ (t : TimingRF), Alloc t → Clean t → CUOkAll t ops →
    Alloc (t.cuRun ops) ∧ Clean (t.cuRun ops) := by
  sorry

end C07
