import MgpuProofs.C10Lemmas
/-! Per-operation preservation lemmas for C10 (allocator level). -/
namespace C10

/-- the page `allocatePages` / `allocateMultiplePagesWithGivenVAddrs` builds -/
abbrev mkPg (π v p dev : Nat) (u : Bool) : Page :=
  { pid := π, vaddr := v, paddr := p, dev := dev, unified := u, migrating := false }

/-- all page-table entries belong to process `π` -/
def SinglePID (π : Nat) (s : State) : Prop := ∀ e ∈ s.pt, e.pid = π

/-- the state invariant of property C10 -/
structure Inv (s : State) : Prop where
  phys : PInv s.ps s.devs s.pool.frees s.pt
  mirror : MirrorOK s

theorem ptInsert_ok {pt pt' : List Page} {pg : Page} (h : ptInsert pt pg = .ok pt') :
    ptFind pt pg.pid pg.vaddr = none ∧ pt' = pt ++ [pg] := by
  unfold ptInsert at h
  split at h
  · simp at h
  · rename_i hn; injection h with h; exact ⟨hn, h.symm⟩

theorem ptUpdate_ok {pt pt' : List Page} {pg : Page} (h : ptUpdate pt pg = .ok pt') :
    (∃ e, ptFind pt pg.pid pg.vaddr = some e) ∧ pt' = pt.map (upd pg) := by
  unfold ptUpdate at h
  split at h
  · simp at h
  · rename_i e hs; injection h with h; exact ⟨⟨e, hs⟩, h.symm⟩

theorem ptRemove_ok {pt pt' : List Page} {pid v : Nat} (h : ptRemove pt pid v = .ok pt') :
    (∃ e, ptFind pt pid v = some e) ∧ pt' = pt.filter fun p => !(p.pid == pid && p.vaddr == v) := by
  unfold ptRemove at h
  split at h
  · simp at h
  · rename_i e hs; injection h with h; exact ⟨⟨e, hs⟩, h.symm⟩

/-- what a loop over the allocator preserves: the physical invariant always, the mirror agreement
when every entry belongs to the one process that issues the operation -/
def Pres (π : Nat) (s s' : State) : Prop :=
  PInv s'.ps s'.devs s'.pool.frees s'.pt ∧
  (SinglePID π s → MirrorOK s → SinglePID π s' ∧ MirrorOK s')

theorem Pres.refl {π : Nat} {s : State} (h : PInv s.ps s.devs s.pool.frees s.pt) : Pres π s s :=
  ⟨h, fun a b => ⟨a, b⟩⟩

theorem Pres.trans {π : Nat} {a b c : State} (h1 : Pres π a b) (h2 : Pres π b c) : Pres π a c :=
  ⟨h2.1, fun hs hm => let ⟨x, y⟩ := h1.2 hs hm; h2.2 x y⟩

/-- one iteration of allocatePages' loop -/
theorem alloc_step {π d v p dev : Nat} {u : Bool} {s : State} {pool' : Pool} {pt' : List Page}
    (h : PInv s.ps s.devs s.pool.frees s.pt)
    (hp : allocPage s.devs s.pool d = .ok (p, pool')) (hd : devOf s.devs p = some dev)
    (hi : ptInsert s.pt (mkPg π v p dev u) = .ok pt') :
    Pres π s { s with pool := pool', pt := pt', mirror := (v, mkPg π v p dev u) :: s.mirror } := by
  obtain ⟨hfresh, rfl⟩ := ptInsert_ok hi
  constructor
  · obtain ⟨h1, _, h3⟩ := h.shrink (allocPage_took hp)
    exact h1.insert' (pg := (mkPg π v p dev u))
      (h3 p (List.mem_cons_self ..)) hd hfresh
  · intro hs hm
    constructor
    · intro e he
      rcases List.mem_append.mp he with he | he
      · exact hs e he
      · simp at he; subst he; rfl
    · refine ⟨?_, ?_⟩
      · intro e he
        rcases List.mem_append.mp he with he | he
        · exact mirror_push_other (pg := (mkPg π v p dev u))
            (hm.1 e he) (hs e he) rfl (fun hk => ptFind_none hfresh e he hk)
        · simp at he; subst he
          show agreesB (lookup ((v, _) :: s.mirror) v) _ = true
          rw [lookup_cons_eq]; exact agreesB_self _
      · intro x hx
        rcases List.mem_cons.mp hx with rfl | hx
        · rfl
        · exact hm.2 x hx

theorem allocLoop_pres (π d : Nat) (u : Bool) : ∀ (k v : Nat) (s s' : State),
    PInv s.ps s.devs s.pool.frees s.pt → allocLoop π d u k v s = .ok s' → Pres π s s' := by
  intro k
  induction k with
  | zero => intro v s s' hP h; simp [allocLoop] at h; subst h; exact Pres.refl hP
  | succ k ih =>
    intro v s s' hP h
    simp only [allocLoop] at h
    split at h
    · simp at h
    · rename_i p pool' hp
      split at h
      · simp at h
      · rename_i dev hd
        split at h
        · simp at h
        · rename_i pt' hi
          have hs := alloc_step hP hp hd hi
          refine hs.trans (ih _ _ s' ?_ h)
          exact hs.1

theorem allocatePages_pres {s s' : State} {n π d v : Nat} {u : Bool}
    (hP : PInv s.ps s.devs s.pool.frees s.pt)
    (h : allocatePages s n π d u = .ok (v, s')) : Pres π s s' ∧ v = cursorOf s π := by
  unfold allocatePages at h
  dsimp only at h
  split at h
  · simp at h
  · rename_i s1 hl
    injection h with h
    obtain ⟨rfl, rfl⟩ := Prod.mk.inj h
    have := allocLoop_pres π d u _ _ _ _ hP hl
    exact ⟨⟨this.1, this.2⟩, rfl⟩

/-- one iteration of allocateMultiplePagesWithGivenVAddrs' loop / AllocatePageWithGivenVAddr -/
theorem update_step {π v p dev : Nat} {u : Bool} {s : State} {pt' : List Page}
    (hd : devOf s.devs p = some dev)
    (hu : ptUpdate s.pt (mkPg π v p dev u) = .ok pt')
    (h : PInv s.ps s.devs s.pool.frees s.pt) (hf : Fresh s.ps s.devs s.pool.frees s.pt p) :
    Pres π s { s with pt := pt', mirror := (v, mkPg π v p dev u) :: s.mirror } := by
  obtain ⟨_, rfl⟩ := ptUpdate_ok hu
  constructor
  · exact h.update' (pg := (mkPg π v p dev u))
      hf (hf.dev _ hd)
  · intro hs hm
    constructor
    · intro e he
      rcases mem_map_upd he with rfl | he'
      · rfl
      · exact hs e he'
    · refine ⟨?_, ?_⟩
      · intro e he
        rcases mem_map_upd' he with rfl | ⟨he', hk⟩
        · show agreesB (lookup ((v, _) :: s.mirror) v) _ = true
          rw [lookup_cons_eq]; exact agreesB_self _
        · exact mirror_push_other (pg := (mkPg π v p dev u))
            (hm.1 e he') (hs e he') rfl hk
      · intro x hx
        rcases List.mem_cons.mp hx with rfl | hx
        · rfl
        · exact hm.2 x hx

/-- what `releaseReplaced` does when it succeeds: the recorded page of the calling process goes to the free list
of its device, or (no record / a record of another process) only the ghost counter moves -/
theorem releaseReplaced_ok {s s' : State} {π : Nat} {m : Option Page} (h : releaseReplaced s π m = .ok s') :
    (∃ old d, m = some old ∧ old.pid = π ∧ devOf s.devs old.paddr = some d ∧
      s' = { s with pool := { s.pool with frees := s.pool.frees.modify d (· ++ [old.paddr]) } }) ∨
    ((∀ old, m = some old → old.pid ≠ π) ∧ s' = { s with leaked := s.leaked + 1 }) := by
  unfold releaseReplaced at h
  split at h
  · rename_i old
    split at h
    · rename_i hp
      split at h
      · simp at h
      · rename_i d hd
        injection h with h
        exact Or.inl ⟨old, d, rfl, hp, hd, h.symm⟩
    · rename_i hp
      injection h with h
      refine Or.inr ⟨?_, h.symm⟩
      intro o ho
      injection ho with ho
      subst ho
      exact hp
  · injection h with h
    exact Or.inr ⟨fun o ho => (by cases ho), h.symm⟩

/-- one iteration of the repaired loop of allocateMultiplePagesWithGivenVAddrs: the entry is re-pointed to the
fresh page `p`, then the replaced page goes back to its device (the allocator's record is right about it:
`MirrorWeak`) — or is not given back when the record belongs to another process. Pages that were fresh and are
not `p` stay fresh. -/
theorem update_release_step {π v p dev : Nat} {u : Bool} {s s1 : State} {pt' : List Page}
    (hd : devOf s.devs p = some dev)
    (hu : ptUpdate s.pt (mkPg π v p dev u) = .ok pt')
    (hr : releaseReplaced { s with pt := pt', mirror := (v, mkPg π v p dev u) :: s.mirror } π (lookup s.mirror v) = .ok s1)
    (h : PInv s.ps s.devs s.pool.frees s.pt) (hM : MirrorWeak s.mirror s.pt)
    (hf : Fresh s.ps s.devs s.pool.frees s.pt p) :
    Pres π s s1 ∧ s1.ps = s.ps ∧ s1.devs = s.devs ∧
    (∀ q, Fresh s.ps s.devs s.pool.frees s.pt q → q ≠ p → Fresh s1.ps s1.devs s1.pool.frees s1.pt q) := by
  have hstep := update_step (π := π) (v := v) (u := u) hd hu h hf
  obtain ⟨⟨e, hfind⟩, hpt⟩ := ptUpdate_ok hu
  obtain ⟨he1, he2, he3⟩ := ptFind_some hfind
  subst hpt
  rcases releaseReplaced_ok hr with ⟨old, d, hl, hp, hdo, rfl⟩ | ⟨_, rfl⟩
  · -- the record belongs to the caller: it names the physical page of the entry that was overwritten
    have hpa : e.paddr = old.paddr := hM.2 v old hl e he1 (he2.trans hp.symm) he3
    have hlive : old.paddr ∈ s.pt.map (·.paddr) := hpa ▸ List.mem_map_of_mem he1
    have hnf : old.paddr ∉ s.pool.frees.flatten := fun hfree => h.disj _ hfree hlive
    have hnl : old.paddr ∉ (s.pt.map (upd (mkPg π v p dev u))).map (·.paddr) :=
      hpa ▸ replaced_not_live (pg := mkPg π v p dev u) h he1 ⟨he2, he3⟩ hf.notLive
    have hdlt : d < s.pool.frees.length := by
      obtain ⟨dv, hdv, _, _⟩ := devOf_spec hdo
      rw [h.len]
      rcases Nat.lt_or_ge d s.devs.length with hl' | hl'
      · exact hl'
      · simp [List.getElem?_eq_none hl'] at hdv
    refine ⟨⟨hstep.1.release hnf hnl (hpa ▸ h.palign e he1) hdo, fun hs hm => hstep.2 hs hm⟩, rfl, rfl, ?_⟩
    intro q hq hqp
    have hq1 := hq.after_update (pg := mkPg π v p dev u) hqp
    exact hq1.after_release (fun hqo => hq.notLive (hqo ▸ hlive)) hdlt
  · refine ⟨⟨hstep.1, fun hs hm => hstep.2 hs hm⟩, rfl, rfl, ?_⟩
    intro q hq hqp
    exact hq.after_update (pg := mkPg π v p dev u) hqp

theorem remapLoop_pres (π : Nat) (u : Bool) : ∀ (vs ps : List Nat) (s s' : State),
    PInv s.ps s.devs s.pool.frees s.pt → MirrorWeak s.mirror s.pt → ps.Nodup →
    (∀ p ∈ ps, Fresh s.ps s.devs s.pool.frees s.pt p) →
    remapLoop π u vs ps s = .ok s' → Pres π s s' := by
  intro vs
  induction vs with
  | nil => intro ps s s' hP _ _ _ h; simp [remapLoop] at h; subst h; exact Pres.refl hP
  | cons v vs ih =>
    intro ps s s' hP hM hnd hf h
    cases ps with
    | nil => simp [remapLoop] at h; subst h; exact Pres.refl hP
    | cons p ps =>
      simp only [remapLoop] at h
      split at h
      · simp at h
      · rename_i dev hd
        split at h
        · simp at h
        · rename_i pt' hu
          split at h
          · simp at h
          · rename_i s1 hr
            obtain ⟨hstep, e1, e2, hfr⟩ := update_release_step (π := π) (v := v) (u := u) hd hu hr hP hM
              (hf p (List.mem_cons_self ..))
            have hM1 : MirrorWeak s1.mirror s1.pt := by
              obtain ⟨_, rfl⟩ := ptUpdate_ok hu
              have hm0 : MirrorWeak ((v, mkPg π v p dev u) :: s.mirror) (s.pt.map (upd (mkPg π v p dev u))) :=
                hM.push_update rfl
              rcases releaseReplaced_ok hr with ⟨_, _, _, _, _, rfl⟩ | ⟨_, rfl⟩ <;> exact hm0
            refine hstep.trans (ih ps _ s' hstep.1 hM1 (List.nodup_cons.mp hnd).2 ?_ h)
            intro q hq
            exact hfr q (hf q (List.mem_cons_of_mem _ hq))
              (fun hqp => (List.nodup_cons.mp hnd).1 (by have hq' := hq; rw [hqp] at hq'; exact hq'))

theorem remap_pres {s s' : State} {π addr bytes d : Nat}
    (hP : PInv s.ps s.devs s.pool.frees s.pt) (hM : MirrorWeak s.mirror s.pt)
    (h : remap s π addr bytes d = .ok s') : Pres π s s' := by
  unfold remap at h
  dsimp only at h
  split at h
  · simp at h
  · rename_i ps pool' hm
    obtain ⟨h1, h2, h3⟩ := hP.shrink (allocMulti_took hm).1
    exact remapLoop_pres π false _ ps { s with pool := pool' } s' h1 hM h2 h3 h

theorem allocGiven_pres {s s' : State} {π d v : Nat} {u : Bool} {pg : Page}
    (hP : PInv s.ps s.devs s.pool.frees s.pt) (h : allocGiven s π d v u = .ok (pg, s')) :
    Pres π s s' ∧ pg ∈ s'.pt ∧ pg.pid = π ∧ pg.vaddr = v ∧
      (∀ dv, s.devs[d]? = some dv → dv.kind ≠ .unified → ∃ fl, s.pool.frees[d]? = some fl ∧ pg.paddr ∈ fl) := by
  unfold allocGiven at h
  split at h
  · simp at h
  · rename_i p pool' hp
    split at h
    · simp at h
    · rename_i dev hd
      dsimp only at h
      split at h
      · simp at h
      · rename_i pt' hu
        injection h with h
        obtain ⟨rfl, rfl⟩ := Prod.mk.inj h
        obtain ⟨h1, _, h3⟩ := hP.shrink (allocPage_took hp)
        have hstep := update_step (s := { s with pool := pool' }) (π := π) (v := v) (u := u) hd hu h1 (h3 p (List.mem_cons_self ..))
        refine ⟨hstep, ?_, rfl, rfl, fun dv hdv hk => allocPage_own hdv hk hp⟩
        obtain ⟨⟨e, he⟩, rfl⟩ := ptUpdate_ok hu
        obtain ⟨he1, he2, he3⟩ := ptFind_some he
        apply List.mem_map.mpr
        refine ⟨e, he1, ?_⟩
        simp [upd, he2, he3]

/-- removePage under mirror agreement -/
theorem removePage_pres {s s' : State} {v : Nat}
    (hP : PInv s.ps s.devs s.pool.frees s.pt) (hM : MirrorOK s) (h : removePage s v = .ok s') :
    PInv s'.ps s'.devs s'.pool.frees s'.pt ∧ MirrorOK s' ∧ (∀ π, SinglePID π s → SinglePID π s') ∧
    ∃ e ∈ s.pt, s'.pt = s.pt.filter (fun p => !(p.pid == e.pid && p.vaddr == e.vaddr)) ∧
      s'.pool.frees.flatten.Perm (e.paddr :: s.pool.frees.flatten) ∧ e.vaddr = v ∧ s'.mirror = s.mirror
      ∧ s'.ps = s.ps ∧ s'.npages = s.npages := by
  unfold removePage at h
  split at h
  · simp at h
  · rename_i pg hl
    split at h
    · simp at h
    · rename_i d hd
      split at h
      · simp at h
      · rename_i pt' hr
        injection h with h; subst h
        obtain ⟨⟨e, he⟩, rfl⟩ := ptRemove_ok hr
        obtain ⟨he1, he2, he3⟩ := ptFind_some he
        have hvk : pg.vaddr = v := hM.2 _ (lookup_mem hl)
        have hag := hM.1 e he1
        rw [he3, hvk, hl] at hag
        simp [agreesB] at hag
        obtain ⟨⟨hg1, hg2⟩, hg3⟩ := hag
        have hd' : devOf s.devs e.paddr = some d := by rw [← hg3]; exact hd
        have hfilter : (s.pt.filter fun p => !(p.pid == pg.pid && p.vaddr == pg.vaddr)) =
            s.pt.filter fun p => !(p.pid == e.pid && p.vaddr == e.vaddr) := by rw [he2, he3]
        have hrem := hP.remove he1 hd'
        have hdlt : d < s.pool.frees.length := by
          obtain ⟨dv, hdv, _, _⟩ := devOf_spec hd
          rw [hP.len]
          rcases Nat.lt_or_ge d s.devs.length with hl' | hl'
          · exact hl'
          · simp [List.getElem?_eq_none hl'] at hdv
        refine ⟨?_, ⟨?_, hM.2⟩, ?_, e, he1, hfilter, ?_, ?_, rfl, rfl, rfl⟩
        · show PInv s.ps s.devs (s.pool.frees.modify d (· ++ [pg.paddr])) _
          rw [hfilter, hg3]; exact hrem
        · intro x hx
          exact hM.1 x (List.mem_filter.mp hx).1
        · intro π hs x hx
          exact hs x (List.mem_filter.mp hx).1
        · show (s.pool.frees.modify d (· ++ [pg.paddr])).flatten.Perm _
          rw [hg3]; exact flatten_modify_perm _ _ _ hdlt
        · rw [he3, hvk]

/-- Free: every page of the allocation is removed -/
theorem removePages_pres : ∀ (vs : List Nat) (s s' : State),
    PInv s.ps s.devs s.pool.frees s.pt → MirrorOK s → removePages vs s = .ok s' →
    PInv s'.ps s'.devs s'.pool.frees s'.pt ∧ MirrorOK s' ∧ (∀ π, SinglePID π s → SinglePID π s') := by
  intro vs
  induction vs with
  | nil => intro s s' hP hM h; simp [removePages] at h; subst h; exact ⟨hP, hM, fun _ h => h⟩
  | cons v vs ih =>
    intro s s' hP hM h
    simp only [removePages] at h
    split at h
    · simp at h
    · rename_i s1 h1
      obtain ⟨a, b, c, _⟩ := removePage_pres hP hM h1
      obtain ⟨a', b', c'⟩ := ih s1 s' a b h
      exact ⟨a', b', fun π hs => c' π (c π hs)⟩

theorem free_pres {s s' : State} {ptr : Nat}
    (hP : PInv s.ps s.devs s.pool.frees s.pt) (hM : MirrorOK s) (h : free s ptr = .ok s') :
    PInv s'.ps s'.devs s'.pool.frees s'.pt ∧ MirrorOK s' ∧ (∀ π, SinglePID π s → SinglePID π s') := by
  unfold free at h
  exact removePages_pres _ { s with npages := (ptr, 0) :: s.npages } s' hP hM h

end C10
