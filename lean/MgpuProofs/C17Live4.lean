import MgpuProofs.C17Live3
/-! C17 liveness, part 4: the explicit latency bound, a sufficient condition for "the port accepts", and
conservation while the port is blocked. -/
namespace C17

/-! ### counters stay within their reload values -/

def StOk (c : Cfg) (st : Stage) : Prop := ∀ x, st = some x → x.2 ≤ c.lat - 1
def LaneBnd (c : Cfg) (l : Lane) : Prop := ∀ st ∈ l, StOk c st
def DqBnd (c : Cfg) (q : List (Item × Nat)) : Prop := ∀ d ∈ q, d.2 ≤ c.miss

structure BndOk (c : Cfg) (b : Bank) : Prop where
  lanes : ∀ l ∈ b.lanes, LaneBnd c l
  dq : DqBnd c b.dq
  post : b.post.length ≤ c.post

theorem StOk_none (c : Cfg) : StOk c none := fun _ h => by cases h

theorem advance_bnd (c : Cfg) (rest : Lane) : ∀ a, StOk c a → LaneBnd c rest → LaneBnd c (advance c.lat a rest) := by
  induction rest with
  | nil => intro a ha _ st hst; simp only [advance, List.mem_singleton] at hst; subst hst; exact ha
  | cons b rest ih =>
    intro a ha hr
    have hb : StOk c b := hr b (by simp)
    have hr' : LaneBnd c rest := fun st hst => hr st (by simp [hst])
    have consB : ∀ (x : Stage) (l : Lane), StOk c x → LaneBnd c l → LaneBnd c (x :: l) := by
      intro x l hx hl st hst
      simp only [List.mem_cons] at hst
      rcases hst with rfl | hst
      · exact hx
      · exact hl st hst
    cases b with
    | none =>
      simp only [advance]
      exact consB _ _ ha (ih none (StOk_none c) hr')
    | some p =>
      obtain ⟨it, left⟩ := p
      have hleft : left ≤ c.lat - 1 := hb (it, left) rfl
      simp only [advance]
      split
      · exact consB _ _ ha (ih _ (fun x hx => by cases hx; simp only; omega) hr')
      · cases a with
        | none => exact consB _ _ (fun x hx => by cases hx; exact Nat.le_refl _) (ih none (StOk_none c) hr')
        | some q => exact consB _ _ ha (ih _ hb hr')

theorem tickLane_bnd (c : Cfg) (post : List Item) (l : Lane) (hl : LaneBnd c l) (hp : post.length ≤ c.post) :
    LaneBnd c (tickLane c post l).2 ∧ (tickLane c post l).1.length ≤ c.post := by
  cases l with
  | nil => exact ⟨hl, hp⟩
  | cons e rest =>
    have he : StOk c e := hl e (by simp)
    have hr : LaneBnd c rest := fun st hst => hl st (by simp [hst])
    cases e with
    | none => exact ⟨advance_bnd c rest none (StOk_none c) hr, hp⟩
    | some p =>
      obtain ⟨it, left⟩ := p
      have hleft : left ≤ c.lat - 1 := he (it, left) rfl
      simp only [tickLane]
      split
      · exact ⟨advance_bnd c rest _ (fun x hx => by cases hx; simp only; omega) hr, hp⟩
      · split
        · exact ⟨advance_bnd c rest none (StOk_none c) hr, by simp; omega⟩
        · exact ⟨advance_bnd c rest _ he hr, hp⟩

theorem acceptLane_bnd (c : Cfg) (x : Item × Nat) (hx : x.2 ≤ c.lat - 1) : ∀ (l l' : Lane), LaneBnd c l →
    acceptLane x l = some l' → LaneBnd c l' := by
  intro l
  induction l with
  | nil => intro l' _ h; simp [acceptLane] at h
  | cons s rest ih =>
    intro l' hl h
    cases rest with
    | nil =>
      simp only [acceptLane] at h
      split at h
      · cases h
        intro st hst
        simp only [List.mem_singleton] at hst; subst hst
        intro y hy; cases hy; exact hx
      · cases h
    | cons s2 rest2 =>
      simp only [acceptLane, Option.map_eq_some_iff] at h
      obtain ⟨l2, h2, rfl⟩ := h
      have := ih l2 (fun st hst => hl st (by simp [hst])) (by simpa [acceptLane] using h2)
      intro st hst
      simp only [List.mem_cons] at hst
      rcases hst with rfl | hst
      · exact hl _ (by simp)
      · exact this st hst

theorem delayGo_bnd (c : Cfg) (dq : List (Item × Nat)) : ∀ (l : Lane) (rem : List (Item × Nat)),
    LaneBnd c l → DqBnd c rem → DqBnd c dq →
    (∀ l' ∈ (delayGo c dq [l] rem).1, LaneBnd c l') ∧ DqBnd c (delayGo c dq [l] rem).2 := by
  induction dq with
  | nil =>
    intro l rem hl hrem _
    exact ⟨fun l' hl' => by simp only [delayGo, List.mem_singleton] at hl'; subst hl'; exact hl, hrem⟩
  | cons d rest ih =>
    intro l rem hl hrem hdq
    obtain ⟨it, n⟩ := d
    have hn : n ≤ c.miss := hdq (it, n) (by simp)
    have hrest : DqBnd c rest := fun x hx => hdq x (by simp [hx])
    have hrem' : DqBnd c (rem ++ [(it, n - 1)]) := by
      intro x hx
      simp only [List.mem_append, List.mem_singleton] at hx
      rcases hx with hx | rfl
      · exact hrem x hx
      · simp only; omega
    simp only [delayGo]
    split
    · rw [acceptLanes_single]
      cases ha : acceptLane (it, c.lat - 1) l with
      | none => simpa using ih l _ hl hrem' hrest
      | some l2 => simpa using ih l2 rem (acceptLane_bnd c _ (Nat.le_refl _) l l2 hl ha) hrem hrest
    · exact ih l _ hl hrem' hrest

theorem pipe_bnd (c : Cfg) (b : Bank) (h : W1 b) (hb : BndOk c b) : BndOk c (tickBankPipe c b) := by
  obtain ⟨l, hl1⟩ := h
  obtain ⟨a1, a2⟩ := tickLane_bnd c b.post l (hb.lanes l (by simp [hl1])) hb.post
  refine ⟨?_, hb.dq, ?_⟩
  · intro l' hl'
    simp only [tickBankPipe, hl1, tickLanes, List.mem_singleton] at hl'
    subst hl'; exact a1
  · simpa [tickBankPipe, hl1, tickLanes] using a2

theorem delay_bnd (c : Cfg) (b : Bank) (h : W1 b) (hb : BndOk c b) : BndOk c (tickBankDelay c b) := by
  obtain ⟨l, hl1⟩ := h
  obtain ⟨a1, a2⟩ := delayGo_bnd c b.dq l [] (hb.lanes l (by simp [hl1])) (fun _ h => by simp at h) hb.dq
  refine ⟨?_, ?_, hb.post⟩
  · intro l' hl'
    simp only [tickBankDelay, hl1] at hl'
    exact a1 l' hl'
  · simpa [tickBankDelay, hl1] using a2

theorem dispatchBank_bnd (c : Cfg) (r : Req) (b b' : Bank) (h : W1 b) (hb : BndOk c b)
    (hd : dispatchBank c r b = some b') : BndOk c b' := by
  obtain ⟨l, hl1⟩ := h
  have hlb := hb.lanes l (by simp [hl1])
  have acc : ∀ l2 lr, acceptLane (fresh r, c.lat - 1) l = some l2 → BndOk c { b with lanes := [l2], lastRow := lr } := by
    intro l2 lr ha
    refine ⟨?_, hb.dq, hb.post⟩
    intro l' hl'
    simp only [List.mem_singleton] at hl'; rw [hl']
    exact acceptLane_bnd c _ (Nat.le_refl _) l l2 hlb ha
  have toq : ∀ n lr, n ≤ c.miss → BndOk c { b with dq := b.dq ++ [(fresh r, n)], lastRow := lr } := by
    intro n lr hn
    refine ⟨hb.lanes, ?_, hb.post⟩
    intro x hx
    simp only [List.mem_append, List.mem_singleton] at hx
    rcases hx with hx | rfl
    · exact hb.dq x hx
    · exact hn
  unfold dispatchBank at hd
  split at hd
  · dsimp only at hd
    split at hd
    · split at hd
      · rw [hl1, acceptLanes_single] at hd
        cases ha : acceptLane (fresh r, c.lat - 1) l with
        | none => rw [ha] at hd; simp only [Option.map_none, Option.some.injEq] at hd; subst hd; rw [← hl1]; exact toq 0 _ (by omega)
        | some l2 => rw [ha] at hd; simp only [Option.map_some, Option.some.injEq] at hd; subst hd; exact acc l2 _ ha
      · simp only [Option.some.injEq] at hd; subst hd; exact toq 0 _ (by omega)
    · simp only [Option.some.injEq] at hd; subst hd; exact toq c.miss _ (Nat.le_refl _)
  · rw [hl1, acceptLanes_single] at hd
    cases ha : acceptLane (fresh r, c.lat - 1) l with
    | none => rw [ha] at hd; simp at hd
    | some l2 => rw [ha] at hd; simp only [Option.map_some, Option.some.injEq] at hd; subst hd; exact acc l2 _ ha

def BndAll (c : Cfg) (bs : List Bank) : Prop := ∀ b ∈ bs, BndOk c b

theorem dispatch_fold_bnd (c : Cfg) : ∀ (todo : List Req) (st : List Bank × List Req),
    WF c st.1 → Nrem c st → BndAll c st.1 → BndAll c (todo.foldl (dispatchOne c) st).1 := by
  intro todo
  induction todo with
  | nil => intro st _ _ h; exact h
  | cons r rest ih =>
    intro st hw hn hb
    obtain ⟨hw', hn', _⟩ := dispatchOne_step c 0 st r hw hn
    simp only [List.foldl_cons]
    apply ih _ hw' hn'
    unfold dispatchOne
    split
    · exact hb
    · rename_i b hlook
      split
      · rename_i b' hd
        intro x hx
        have hbm := List.mem_of_getElem? hlook
        rcases List.mem_or_eq_of_mem_set hx with hx | rfl
        · exact hb x hx
        · exact dispatchBank_bnd c r b _ (hw b hbm).1 (hb b hbm) hd
      · exact hb

theorem finalizePost_length (c : Cfg) (post : List Item) (log : List Req) (out resp : List Rsp) :
    (finalizePost c post log out resp).post.length ≤ post.length := by
  obtain ⟨i, _, he⟩ := finalizePost_drop c post log out resp
  have := congrArg List.length he
  simp only [wPost, List.length_map, List.length_drop] at this
  omega

theorem finalizeAt_bnd (c : Cfg) (s : State) (j : Nat) (h : BndAll c s.banks) : BndAll c (finalizeAt c s j).1.banks := by
  unfold finalizeAt
  cases hb : s.banks[j]? with
  | none => exact h
  | some b =>
    intro x hx
    rcases List.mem_or_eq_of_mem_set hx with hx | rfl
    · exact h x hx
    · have hb' := h b (List.mem_of_getElem? hb)
      exact ⟨hb'.lanes, hb'.dq, Nat.le_trans (finalizePost_length c _ _ _ _) hb'.post⟩

theorem finalizeFrom_bnd (c : Cfg) : ∀ (ks : List Nat) (s : State), BndAll c s.banks → BndAll c (finalizeFrom c ks s).1.banks := by
  intro ks
  induction ks with
  | nil => intro s h; exact h
  | cons j ks ih =>
    intro s h
    simp only [finalizeFrom]
    split
    · exact finalizeAt_bnd c s j h
    · exact ih _ (finalizeAt_bnd c s j h)

theorem tick_bnd (c : Cfg) (s : State) (h : Inv c s) (hl : LI c s) (hb : BndAll c s.banks) : BndAll c (tick c s).banks := by
  rw [tick_eq c s h hl]
  have h1 := finalize_inv c s h
  have b1 : BndAll c (finalize c s).1.banks := finalizeFrom_bnd c _ s hb
  have h2 := tickPipes_inv c _ h1
  have b2 : BndAll c (tickPipes c (finalize c s).1).banks := by
    intro x hx
    simp only [tickPipes] at hx
    obtain ⟨b, hbm, rfl⟩ := List.mem_map.1 hx
    exact pipe_bnd c b (h1.wf b hbm).1 (b1 b hbm)
  have h3 := tickDelays_inv c _ h2
  have b3 : BndAll c (tickDelays c (tickPipes c (finalize c s).1)).banks := by
    intro x hx
    simp only [tickDelays] at hx
    obtain ⟨b, hbm, rfl⟩ := List.mem_map.1 hx
    exact delay_bnd c b (h2.wf b hbm).1 (b2 b hbm)
  exact dispatch_fold_bnd c _ _ h3.wf (by intro r' hr'; simp at hr') b3

theorem step_bnd (c : Cfg) (s : State) (op : Op) (h : Inv c s) (hl : LI c s) (hb : BndAll c s.banks) :
    BndAll c (step c s op).banks := by
  cases op with
  | deliver k a l d m => simp only [step, deliver]; split <;> exact hb
  | tick => exact tick_bnd c s h hl hb
  | out k => exact hb

theorem init_bnd (c : Cfg) : BndAll c (init c).banks := by
  intro b hb
  simp only [init] at hb
  have := (List.mem_replicate.1 hb).2
  subst this
  refine ⟨?_, fun _ h => by simp [emptyBank] at h, by simp [emptyBank]⟩
  intro l hl st hst
  simp only [emptyBank] at hl
  rw [(List.mem_replicate.1 hl).2] at hst
  rw [(List.mem_replicate.1 hst).2]
  exact StOk_none c

theorem run_bnd (c : Cfg) (ops : List Op) (hok : ∀ op ∈ ops, opOk c op) (hw : c.width = 1) : BndAll c (run c ops).banks := by
  unfold run
  have : ∀ (ops : List Op) (s : State), Inv c s → LI c s → BndAll c s.banks → (∀ op ∈ ops, opOk c op) →
      BndAll c (ops.foldl (step c) s).banks := by
    intro ops
    induction ops with
    | nil => intro s _ _ h _; exact h
    | cons o os ih =>
      intro s h hl hb hok
      exact ih _ (step_inv c s o h) (step_LI c s o (hok o (by simp)) h hl) (step_bnd c s o h hl hb)
        (fun op hop => hok op (by simp [hop]))
  exact this ops _ (init_inv c hw) (init_LI c) (init_bnd c) hok

/-! ### the explicit bound -/

/-- worst-case ticks one request adds: port buffer → pending → row-miss delay → `depth` stages → post buffer → answer -/
def latencyBound (c : Cfg) : Nat := max c.miss 1 + c.depth * stageCost c + 3

theorem latencyBound_eq (c : Cfg) : latencyBound c = wPend c + 1 := by
  simp only [latencyBound, wPend, wEntry]; omega

theorem wLane_le (c : Cfg) : ∀ (l : Lane) (j : Nat), LaneBnd c l →
    ∀ a ∈ wLane c j l, a.2 ≤ (c.lat - 1) + (j + l.length - 1) * stageCost c + 2 := by
  intro l
  induction l with
  | nil => intro j _ a ha; simp at ha
  | cons st rest ih =>
    intro j hl a ha
    have hr : LaneBnd c rest := fun x hx => hl x (by simp [hx])
    have e : j + 1 + rest.length - 1 = j + (st :: rest).length - 1 := by simp only [List.length_cons]; omega
    cases st with
    | none =>
      have := ih (j + 1) hr a (by simpa using ha)
      rw [e] at this; exact this
    | some x =>
      simp only [wLane_some, List.mem_cons] at ha
      rcases ha with rfl | ha
      · have hx : x.2 ≤ c.lat - 1 := hl (some x) (by simp) x rfl
        have : j * stageCost c ≤ (j + (some x :: rest).length - 1) * stageCost c :=
          Nat.mul_le_mul_right _ (by simp only [List.length_cons]; omega)
        simp only; omega
      · have := ih (j + 1) hr a ha
        rw [e] at this; exact this

theorem wBank_le (c : Cfg) (hd0 : 0 < c.depth) (b : Bank) (hl : LenOk c b) (hb : BndOk c b) :
    ∀ a ∈ wBank c b, a.2 ≤ latencyBound c := by
  intro a ha
  rw [latencyBound_eq]
  simp only [wBank, List.mem_append, wPost, wDq, List.mem_map, List.mem_flatMap] at ha
  rcases ha with (⟨it, _, rfl⟩ | ⟨l, hlm, h⟩) | ⟨d, hdm, rfl⟩
  · simp only [wPend]; omega
  · have h1 := wLane_le c l 0 (hb.lanes l hlm) a h
    rw [hl l hlm] at h1
    have h2 := wPend_gt c c.depth hd0 (Nat.le_refl _)
    omega
  · have := hb.dq d hdm
    simp only [wPend]; omega

theorem wChain_le (c : Cfg) (hd0 : 0 < c.depth) (s : State) (hl : LI c s) (hb : BndAll c s.banks) (k : Nat) :
    ∀ a ∈ wChain c s k, a.2 ≤ latencyBound c := by
  intro a ha
  simp only [wChain, List.mem_append] at ha
  rcases ha with (ha | ha) | ha
  · simp only [wBankAt] at ha
    cases hbk : s.banks[k]? with
    | none => simp [hbk] at ha
    | some b =>
      rw [hbk] at ha
      have hm := List.mem_of_getElem? hbk
      exact wBank_le c hd0 b (hl.len b hm) (hb b hm) a ha
  · simp only [wPendL, List.mem_map] at ha
    obtain ⟨_, _, rfl⟩ := ha
    rw [latencyBound_eq]; omega
  · simp only [wTopL, List.mem_map] at ha
    obtain ⟨_, _, rfl⟩ := ha
    rw [latencyBound_eq]; omega

theorem costTo_le (r : Req) (W : Nat) : ∀ (l : WL) (m : Nat), (∀ a ∈ l, a.2 ≤ W) → costTo r l = some m →
    m ≤ ((l.map (·.1)).idxOf r + 1) * W := by
  intro l
  induction l with
  | nil => intro m _ h; simp [costTo] at h
  | cons a l ih =>
    intro m hW h
    obtain ⟨q, w⟩ := a
    have hw : w ≤ W := hW (q, w) (by simp)
    simp only [costTo] at h
    simp only [List.map_cons, List.idxOf_cons]
    by_cases hq : q = r
    · simp only [hq, if_true] at h
      cases h
      simp [hq]; exact hw
    · simp only [hq, if_false] at h
      rw [Option.map_eq_some_iff] at h
      obtain ⟨m0, hm0, rfl⟩ := h
      have := ih m0 (fun a ha => hW a (by simp [ha])) hm0
      have hbeq : (q == r) = false := by simpa using hq
      simp only [hbeq, cond_false]
      have e : ((l.map (·.1)).idxOf r + 1 + 1) * W = ((l.map (·.1)).idxOf r + 1) * W + W := by
        rw [Nat.add_mul ((l.map (·.1)).idxOf r + 1) 1 W]; simp
      rw [e]
      omega

/-- requests of `r`'s bank that are in flight ahead of `r` (queue occupancy seen by `r`) -/
def ahead (c : Cfg) (s : State) (r : Req) : Nat := ((chain c s (bankOf c r.addr)).map (·.req)).idxOf r

theorem remaining_le (c : Cfg) (hd0 : 0 < c.depth) (s : State) (hl : LI c s) (hb : BndAll c s.banks) (r : Req) :
    remaining c s r ≤ (ahead c s r + 1) * latencyBound c := by
  unfold remaining ahead
  cases ho : costTo r (wChain c s (bankOf c r.addr)) with
  | none => simp
  | some m =>
    have := costTo_le r (latencyBound c) _ m (wChain_le c hd0 s hl hb _) ho
    rw [wChain_reqs] at this
    simpa using this

/-! ### when does the port accept? -/

theorem commit_ok (it : Item) (log : List Req) (h : maskOk it.req = true) : ∃ p, commit it log = some p := by
  unfold commit
  split
  · exact ⟨_, rfl⟩
  · split
    · exact ⟨_, rfl⟩
    · simp

/-- with enough room in the port buffer the whole post-pipeline buffer is answered -/
theorem finalizePost_all (c : Cfg) : ∀ (post : List Item) (log : List Req) (out resp : List Rsp),
    (∀ it ∈ post, maskOk it.req = true ∧ capErr c.cap it.req.addr it.req.size = false) →
    out.length + post.length ≤ c.top →
    (finalizePost c post log out resp).post = [] := by
  intro post
  induction post with
  | nil => intro log out resp _ _; rfl
  | cons it rest ih =>
    intro log out resp hok hroom
    obtain ⟨⟨it', log'⟩, hcm⟩ := commit_ok it log (hok it (by simp)).1
    have hcf : capFault c it = false := by simp [capFault, (hok it (by simp)).2]
    simp only [finalizePost, hcm, hcf, Bool.false_eq_true, if_false]
    have : out.length < c.top := by simp only [List.length_cons] at hroom; omega
    rw [if_pos this]
    exact ih _ _ _ (fun x hx => hok x (by simp [hx])) (by simp only [List.length_append, List.length_cons, List.length_nil] at hroom ⊢; omega)

theorem finalizePost_out_le (c : Cfg) : ∀ (post : List Item) (log : List Req) (out resp : List Rsp),
    (finalizePost c post log out resp).out.length ≤ out.length + post.length := by
  intro post
  induction post with
  | nil => intro log out resp; simp [finalizePost]
  | cons it rest ih =>
    intro log out resp
    simp only [finalizePost]
    split
    · simp
    cases hcm : commit it log with
    | none => simp
    | some p =>
      obtain ⟨it', log'⟩ := p
      simp only
      split
      · have := ih log' (out ++ [rspOf it']) (resp ++ [rspOf it'])
        simp only [List.length_append, List.length_cons, List.length_nil] at this ⊢
        omega
      · simp

/-- bank `j` has nothing left in its post-pipeline buffer -/
def PostEmpty (s : State) (j : Nat) : Prop := ∀ b, s.banks[j]? = some b → b.post = []

theorem finalizeAt_postEmpty_keep (c : Cfg) (s : State) (j j' : Nat) (h : PostEmpty s j) :
    PostEmpty (finalizeAt c s j').1 j := by
  unfold finalizeAt
  cases hb : s.banks[j']? with
  | none => exact h
  | some b =>
    intro x hx
    simp only at hx
    by_cases hj : j' = j
    · subst hj
      have hlt : j' < s.banks.length := (List.getElem?_eq_some_iff.1 hb).1
      rw [List.getElem?_set_self hlt] at hx
      cases hx
      have := h b hb
      simp [this, finalizePost]
    · rw [List.getElem?_set_ne hj] at hx
      exact h x hx

theorem finalizeFrom_postEmpty_keep (c : Cfg) (j : Nat) : ∀ (ks : List Nat) (s : State), PostEmpty s j →
    PostEmpty (finalizeFrom c ks s).1 j := by
  intro ks
  induction ks with
  | nil => intro s h; exact h
  | cons j' ks ih =>
    intro s h
    simp only [finalizeFrom]
    split
    · exact finalizeAt_postEmpty_keep c s j j' h
    · exact ih _ (finalizeAt_postEmpty_keep c s j j' h)

theorem items_ok (c : Cfg) (s : State) (h : Inv c s) (hl : LI c s) (j : Nat) (b : Bank) (hb : s.banks[j]? = some b) :
    ∀ it ∈ b.post, maskOk it.req = true ∧ capErr c.cap it.req.addr it.req.size = false := by
  intro it hit
  have : it.req ∈ s.arrived.filter (inB c j) := by
    rw [← h.r j]
    simp only [chain, bankChain, hb, List.mem_append, List.mem_map]
    exact Or.inr ⟨it, Or.inl (by simp [bItems, hit]), rfl⟩
  exact ⟨hl.ok _ (List.mem_filter.1 this).1, hl.cap _ (List.mem_filter.1 this).1⟩

theorem finalizeAt_room (c : Cfg) (s : State) (j : Nat) (h : Inv c s) (hl : LI c s) (hb : BndAll c s.banks)
    (hroom : s.outBuf.length + c.post ≤ c.top) :
    PostEmpty (finalizeAt c s j).1 j ∧ (finalizeAt c s j).1.outBuf.length ≤ s.outBuf.length + c.post := by
  unfold finalizeAt
  cases hbk : s.banks[j]? with
  | none => exact ⟨fun b hb' => (by simp only at hb'; rw [hbk] at hb'; cases hb'), by simp⟩
  | some b =>
    have hpl := (hb b (List.mem_of_getElem? hbk)).post
    have hlt : j < s.banks.length := (List.getElem?_eq_some_iff.1 hbk).1
    constructor
    · intro x hx
      simp only at hx
      rw [List.getElem?_set_self hlt] at hx
      cases hx
      exact finalizePost_all c b.post s.log s.outBuf s.resp (items_ok c s h hl j b hbk) (by omega)
    · have := finalizePost_out_le c b.post s.log s.outBuf s.resp
      simp only; omega

theorem finalizeFrom_room (c : Cfg) : ∀ (ks : List Nat) (s : State), Inv c s → LI c s → BndAll c s.banks →
    s.outBuf.length + ks.length * c.post ≤ c.top → ∀ j ∈ ks, PostEmpty (finalizeFrom c ks s).1 j := by
  intro ks
  induction ks with
  | nil => intro s _ _ _ _ j hj; simp at hj
  | cons j0 ks ih =>
    intro s h hl hb hroom j hj
    have hmul : (j0 :: ks).length * c.post = ks.length * c.post + c.post := by
      simp only [List.length_cons, Nat.add_mul, Nat.one_mul]
    obtain ⟨r1, r2⟩ := finalizeAt_room c s j0 h hl hb (by omega)
    simp only [finalizeFrom]
    rw [finalizeAt_nofault c s j0 h hl]
    simp only [Bool.false_eq_true, if_false]
    have h' := finalizeAt_inv c s j0 h
    have hl' := finalizeAt_LI c s j0 hl
    have hb' := finalizeAt_bnd c s j0 hb
    simp only [List.mem_cons] at hj
    by_cases hjk : j ∈ ks
    · exact ih _ h' hl' hb' (by omega) j hjk
    · rcases hj with rfl | hj
      · exact finalizeFrom_postEmpty_keep c j ks _ r1
      · exact absurd hj hjk

/-- **A sufficient condition for "the port accepts":** room for one full post-pipeline buffer per bank -/
theorem accepts_of_room (c : Cfg) (s : State) (h : Inv c s) (hl : LI c s) (hb : BndAll c s.banks)
    (hroom : s.outBuf.length + c.banks * c.post ≤ c.top) (k : Nat) : accepts c s k = true := by
  unfold accepts
  cases hk : (finalize c s).1.banks[k]? with
  | none => rfl
  | some b =>
    have hl1 : LI c (finalize c s).1 := (finalizeFrom_w c 0 _ s h hl).2.1
    have hlt : k < s.banks.length := by
      have := (List.getElem?_eq_some_iff.1 hk).1
      rw [hl1.nb] at this; rw [hl.nb]; exact this
    have := finalizeFrom_room c (List.range s.banks.length) s h hl hb (by simpa [hl.nb] using hroom) k
      (List.mem_range.2 hlt) b hk
    simp [this]

/-! ### the finer room condition: what is actually waiting in the post-pipeline buffers -/

def postLen (s : State) (j : Nat) : Nat := (s.banks[j]?.map (·.post.length)).getD 0

/-- responses waiting in all post-pipeline buffers -/
def postTotal (s : State) : Nat := (s.banks.map (·.post.length)).sum

theorem postLen_other (c : Cfg) (s : State) (j0 j : Nat) (h : j ≠ j0) : postLen (finalizeAt c s j0).1 j = postLen s j := by
  unfold finalizeAt postLen
  cases hb : s.banks[j0]? with
  | none => rfl
  | some b => simp only; rw [List.getElem?_set_ne (Ne.symm h)]

theorem finalizeAt_room' (c : Cfg) (s : State) (j : Nat) (h : Inv c s) (hl : LI c s)
    (hroom : s.outBuf.length + postLen s j ≤ c.top) :
    PostEmpty (finalizeAt c s j).1 j ∧ (finalizeAt c s j).1.outBuf.length ≤ s.outBuf.length + postLen s j := by
  unfold finalizeAt
  cases hbk : s.banks[j]? with
  | none => exact ⟨fun b hb' => (by simp only at hb'; rw [hbk] at hb'; cases hb'), by simp⟩
  | some b =>
    have hpl : postLen s j = b.post.length := by simp [postLen, hbk]
    have hlt : j < s.banks.length := (List.getElem?_eq_some_iff.1 hbk).1
    rw [hpl] at hroom
    constructor
    · intro x hx
      simp only at hx
      rw [List.getElem?_set_self hlt] at hx
      cases hx
      exact finalizePost_all c b.post s.log s.outBuf s.resp (items_ok c s h hl j b hbk) hroom
    · have := finalizePost_out_le c b.post s.log s.outBuf s.resp
      simp only; omega

theorem finalizeFrom_room' (c : Cfg) : ∀ (ks : List Nat) (s : State), ks.Nodup → Inv c s → LI c s →
    s.outBuf.length + (ks.map (postLen s)).sum ≤ c.top → ∀ j ∈ ks, PostEmpty (finalizeFrom c ks s).1 j := by
  intro ks
  induction ks with
  | nil => intro s _ _ _ _ j hj; simp at hj
  | cons j0 ks ih =>
    intro s hnd h hl hroom j hj
    obtain ⟨hj0, hnd'⟩ := List.nodup_cons.1 hnd
    simp only [List.map_cons, List.sum_cons] at hroom
    obtain ⟨r1, r2⟩ := finalizeAt_room' c s j0 h hl (by omega)
    simp only [finalizeFrom]
    rw [finalizeAt_nofault c s j0 h hl]
    simp only [Bool.false_eq_true, if_false]
    have h' := finalizeAt_inv c s j0 h
    have hl' := finalizeAt_LI c s j0 hl
    have hsum : (ks.map (postLen (finalizeAt c s j0).1)).sum = (ks.map (postLen s)).sum := by
      congr 1
      apply List.map_congr_left
      intro j hjm
      exact postLen_other c s j0 j (fun e => hj0 (e ▸ hjm))
    simp only [List.mem_cons] at hj
    by_cases hjk : j ∈ ks
    · exact ih _ hnd' h' hl' (by rw [hsum]; omega) j hjk
    · rcases hj with rfl | hj
      · exact finalizeFrom_postEmpty_keep c j ks _ r1
      · exact absurd hj hjk

theorem range_map_postLen (s : State) : (List.range s.banks.length).map (postLen s) = s.banks.map (·.post.length) := by
  apply List.ext_getElem
  · simp
  · intro i h1 h2
    simp only [List.length_map, List.length_range] at h1
    simp [postLen, List.getElem?_eq_getElem h1]

/-- the port accepts every bank's responses when the outgoing buffer has room for everything that is waiting -/
theorem accepts_of_room' (c : Cfg) (s : State) (h : Inv c s) (hl : LI c s)
    (hroom : s.outBuf.length + postTotal s ≤ c.top) (k : Nat) : accepts c s k = true := by
  unfold accepts
  cases hk : (finalize c s).1.banks[k]? with
  | none => rfl
  | some b =>
    have hl1 : LI c (finalize c s).1 := (finalizeFrom_w c 0 _ s h hl).2.1
    have hlt : k < s.banks.length := by
      have := (List.getElem?_eq_some_iff.1 hk).1
      rw [hl1.nb] at this; rw [hl.nb]; exact this
    have := finalizeFrom_room' c (List.range s.banks.length) s List.nodup_range h hl
      (by rw [range_map_postLen]; exact hroom) k (List.mem_range.2 hlt) b hk
    simp [this]

/-! ### nothing happens to the responses while the port is blocked -/

theorem finalizePost_blocked (c : Cfg) (post : List Item) (log : List Req) (out resp : List Rsp)
    (hfull : c.top ≤ out.length) :
    (finalizePost c post log out resp).resp = resp ∧ (finalizePost c post log out resp).out = out := by
  cases post with
  | nil => exact ⟨rfl, rfl⟩
  | cons it rest =>
    simp only [finalizePost]
    split
    · exact ⟨rfl, rfl⟩
    cases commit it log with
    | none => exact ⟨rfl, rfl⟩
    | some p =>
      simp only
      rw [if_neg (by omega)]
      exact ⟨rfl, rfl⟩

theorem finalizeAt_blocked (c : Cfg) (s : State) (j : Nat) (hfull : c.top ≤ s.outBuf.length) :
    (finalizeAt c s j).1.resp = s.resp ∧ (finalizeAt c s j).1.outBuf = s.outBuf := by
  unfold finalizeAt
  cases s.banks[j]? with
  | none => exact ⟨rfl, rfl⟩
  | some b => exact finalizePost_blocked c b.post s.log s.outBuf s.resp hfull

theorem finalizeFrom_blocked (c : Cfg) : ∀ (ks : List Nat) (s : State), c.top ≤ s.outBuf.length →
    (finalizeFrom c ks s).1.resp = s.resp ∧ (finalizeFrom c ks s).1.outBuf = s.outBuf := by
  intro ks
  induction ks with
  | nil => intro s _; exact ⟨rfl, rfl⟩
  | cons j ks ih =>
    intro s hfull
    obtain ⟨a1, a2⟩ := finalizeAt_blocked c s j hfull
    simp only [finalizeFrom]
    split
    · exact ⟨a1, a2⟩
    · obtain ⟨b1, b2⟩ := ih (finalizeAt c s j).1 (by rw [a2]; exact hfull)
      exact ⟨b1.trans a1, b2.trans a2⟩

theorem tick_blocked (c : Cfg) (s : State) (hfull : c.top ≤ s.outBuf.length) :
    (tick c s).resp = s.resp ∧ (tick c s).outBuf = s.outBuf := by
  obtain ⟨a1, a2⟩ := finalizeFrom_blocked c (List.range s.banks.length) s hfull
  unfold tick
  simp only
  split
  · exact ⟨a1, a2⟩
  · split
    · exact ⟨a1, a2⟩
    · exact ⟨a1, a2⟩

def noOut : Op → Prop
  | .out _ => False
  | _ => True

instance (op : Op) : Decidable (noOut op) := by cases op <;> unfold noOut <;> infer_instance

theorem step_arrived_prefix (c : Cfg) (s : State) (op : Op) : ∃ t, (step c s op).arrived = s.arrived ++ t := by
  cases op with
  | deliver k a l d m =>
    simp only [step, deliver]
    split
    · exact ⟨_, rfl⟩
    · exact ⟨[], by simp⟩
  | tick => exact ⟨[], by simp [step, tick_arrived]⟩
  | out k => exact ⟨[], by simp [step]⟩

theorem blocked_fold (c : Cfg) : ∀ (ops : List Op) (s : State), (∀ op ∈ ops, noOut op) → c.top ≤ s.outBuf.length →
    (ops.foldl (step c) s).resp = s.resp ∧ (ops.foldl (step c) s).outBuf = s.outBuf ∧
    ∃ t, (ops.foldl (step c) s).arrived = s.arrived ++ t := by
  intro ops
  induction ops with
  | nil => intro s _ _; exact ⟨rfl, rfl, [], by simp⟩
  | cons op ops ih =>
    intro s hno hfull
    have hstep : (step c s op).resp = s.resp ∧ (step c s op).outBuf = s.outBuf := by
      cases op with
      | deliver k a l d m => simp only [step, deliver]; split <;> exact ⟨rfl, rfl⟩
      | tick => exact tick_blocked c s hfull
      | out k => exact absurd (hno (.out k) (by simp)) (by simp [noOut])
    obtain ⟨t1, ht1⟩ := step_arrived_prefix c s op
    obtain ⟨a1, a2, t2, ht2⟩ := ih (step c s op) (fun o ho => hno o (by simp [ho])) (by rw [hstep.2]; exact hfull)
    simp only [List.foldl_cons]
    exact ⟨a1.trans hstep.1, a2.trans hstep.2, t1 ++ t2, by rw [ht2, ht1, List.append_assoc]⟩

theorem run_append (c : Cfg) (ops1 ops2 : List Op) : run c (ops1 ++ ops2) = ops2.foldl (step c) (run c ops1) := by
  simp [run, List.foldl_append]

/-- under the liveness side conditions no tick panics -/
theorem tick_nofault (c : Cfg) (s : State) (h : Inv c s) (hl : LI c s) : (tickFlags c s).2 = false := by
  obtain ⟨hf, hl1, _⟩ := finalizeFrom_w c 0 (List.range s.banks.length) s h hl
  have h1 := finalize_inv c s h
  have hcf : convFault c (tickDelays c (tickPipes c (finalize c s).1)).pending = false := by
    apply convFault_false
    intro r hr
    exact hl1.bel r (pending_sub_arrived c _ h1 r hr)
  unfold tickFlags
  simp only [finalize] at hcf
  simp only [finalize, hf, Bool.false_eq_true, if_false, hcf]

/-! ### counting the ticks in which the port refuses -/

def countTicks : List Op → Nat
  | [] => 0
  | .tick :: ops => 1 + countTicks ops
  | _ :: ops => countTicks ops

/-- ticks of `ops` (run from `s`) in which the port left a response of bank `k` in its post-pipeline buffer -/
def refusingTicks (c : Cfg) (k : Nat) : State → List Op → Nat
  | _, [] => 0
  | s, .tick :: ops => (if accepts c s k = true then 0 else 1) + refusingTicks c k (tick c s) ops
  | s, op :: ops => refusingTicks c k (step c s op) ops

theorem accepting_add_refusing (c : Cfg) (k : Nat) : ∀ (ops : List Op) (s : State),
    acceptingTicks c k s ops + refusingTicks c k s ops = countTicks ops := by
  intro ops
  induction ops with
  | nil => intro s; rfl
  | cons op ops ih =>
    intro s
    cases op with
    | tick =>
      simp only [acceptingTicks, refusingTicks, countTicks]
      have := ih (tick c s)
      split <;> omega
    | deliver k' a l d m => simp only [acceptingTicks, refusingTicks, countTicks]; exact ih _
    | out j => simp only [acceptingTicks, refusingTicks, countTicks]; exact ih _

/-- ticks of `ops` (run from `s`) at whose start the outgoing port buffer is empty: the environment has retrieved
every response sent so far -/
def drainedTicks (c : Cfg) : State → List Op → Nat
  | _, [] => 0
  | s, .tick :: ops => (if s.outBuf.isEmpty then 1 else 0) + drainedTicks c (tick c s) ops
  | s, op :: ops => drainedTicks c (step c s op) ops

end C17
