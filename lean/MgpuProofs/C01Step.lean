import MgpuModel.C01_Emu
import MgpuProofs.C01State
import MgpuProofs.C01Valu
/-! # C01 — one emulator step, by instruction class

`View` is what a program proof tracks of a wavefront state: PC, EXEC, VCC, the scalar and vector
registers (on their architectural domain) and the memory content.  `Sees st V` says the state `st` is
described by `V`.  The lemmas of this file turn a decoded instruction into a `View` update:
decoding facts (`DecV`, `DecS`), the scalar machine seen through `toM` / `ofM`, and the `step`
function for scalar, vector and memory instructions. -/
set_option linter.unusedSimpArgs false
namespace C01
namespace Emu
open C03V

/-! ## decoder facts in the form `step` consumes -/

/-- a vector / memory instruction: format, opcode, size -/
def DecV (buf : List Nat) (ft op sz : Nat) : Prop :=
  ∃ i, C04.decode false buf = .ok i ∧ i.ft = ft ∧ i.opcode = op ∧ i.size = sz

/-- a scalar instruction: additionally the operand fields handed to the scalar machine -/
def DecS (buf : List Nat) (ft op sz : Nat) (d : C03S.DInst) : Prop :=
  ∃ i, C04.decode false buf = .ok i ∧ i.ft = ft ∧ i.opcode = op ∧ i.size = sz ∧ toDInst i = d

def decOkV (o : C04.Outcome) (ft op sz : Nat) : Bool :=
  match o with
  | .ok i => i.ft == ft && i.opcode == op && i.size == sz
  | _ => false

def decOkS (o : C04.Outcome) (ft op sz : Nat) (d : C03S.DInst) : Bool :=
  match o with
  | .ok i => i.ft == ft && i.opcode == op && i.size == sz && decide (toDInst i = d)
  | _ => false

theorem DecV_of_ok {buf : List Nat} {ft op sz : Nat} (h : decOkV (C04.decode false buf) ft op sz = true) :
    DecV buf ft op sz := by
  unfold decOkV at h
  split at h
  · rename_i i hi
    simp only [Bool.and_eq_true, beq_iff_eq] at h
    exact ⟨i, hi, h.1.1, h.1.2, h.2⟩
  · cases h

theorem DecS_of_ok {buf : List Nat} {ft op sz : Nat} {d : C03S.DInst}
    (h : decOkS (C04.decode false buf) ft op sz d = true) : DecS buf ft op sz d := by
  unfold decOkS at h
  split at h
  · rename_i i hi
    simp only [Bool.and_eq_true, beq_iff_eq, decide_eq_true_eq] at h
    exact ⟨i, hi, h.1.1.1, h.1.1.2, h.1.2, h.2⟩
  · cases h

/-! ## the scalar machine seen through `toM` / `ofM` -/

theorem toM_sreg (st : St) (n : Nat) : (toM st).sreg n = st.rs n := by
  unfold toM C03S.MState.sreg
  simp only
  by_cases h : n < st.s.size
  · have : List.lookup n ((List.range st.s.size).map fun i => (i, st.rs i)) = some (st.rs n) := by
      generalize st.s.size = k at h
      induction k with
      | zero => omega
      | succ k ih =>
        rw [List.range_succ, List.map_append, List.lookup_append]
        by_cases hk : n < k
        · rw [ih hk]; rfl
        · have : n = k := by omega
          subst this
          have hn : List.lookup n ((List.range n).map fun i => (i, st.rs i)) = none := by
            rw [List.lookup_eq_none_iff]
            intro p hp
            simp only [List.mem_map, List.mem_range] at hp
            obtain ⟨i, hi, rfl⟩ := hp
            simp; omega
          rw [hn]
          simp
    rw [this]; rfl
  · have : List.lookup n ((List.range st.s.size).map fun i => (i, st.rs i)) = none := by
      rw [List.lookup_eq_none_iff]
      intro p hp
      simp only [List.mem_map, List.mem_range] at hp
      obtain ⟨i, hi, rfl⟩ := hp
      simp; omega
    rw [this]
    have hn : st.s[n]? = none := by rw [Array.getElem?_eq_none_iff]; omega
    simp [St.rs, Array.getD_eq_getD_getElem?, hn]

theorem setS_sreg (m : C03S.MState) (n v k : Nat) : (m.setS n v).sreg k = if k = n then v else m.sreg k := by
  unfold C03S.MState.setS C03S.MState.sreg
  simp only [List.lookup_cons]
  by_cases h : k = n
  · subst h; simp
  · have : (k == n) = false := by simpa using h
    simp only [this, h, if_false]
    congr 1
    induction m.s with
    | nil => rfl
    | cons p ps ih =>
      obtain ⟨pk, pv⟩ := p
      simp only [List.filter_cons]
      by_cases hp : pk = n
      · have h1 : (pk != n) = false := by simp [hp]
        have h2 : (k == pk) = false := by rw [hp]; simpa using h
        simp only [h1, Bool.false_eq_true, if_false, List.lookup_cons, ih, h2]
      · have h1 : (pk != n) = true := by simp [hp]
        simp only [h1, if_true, List.lookup_cons, ih]

theorem ofM_rs (st : St) (m : C03S.MState) (i : Nat) (hi : i < st.s.size) : (ofM st m).rs i = m.sreg i := by
  simp [ofM, St.rs, Array.getD_eq_getD_getElem?, hi]

@[simp] theorem setS_vcc (m : C03S.MState) (n v : Nat) : (m.setS n v).vcc = m.vcc := rfl
@[simp] theorem setS_exec (m : C03S.MState) (n v : Nat) : (m.setS n v).exec = m.exec := rfl
@[simp] theorem setS_scc (m : C03S.MState) (n v : Nat) : (m.setS n v).scc = m.scc := rfl
@[simp] theorem setS_pc (m : C03S.MState) (n v : Nat) : (m.setS n v).pc = m.pc := rfl
@[simp] theorem setS_m0 (m : C03S.MState) (n v : Nat) : (m.setS n v).m0 = m.m0 := rfl

/-! ## `View` -/

structure View where
  pc : Nat
  exec : Nat
  vcc : Nat
  rs : Nat → Nat
  rv : Nat → Nat → Nat
  mem : Nat → Nat

/-- the state `st` is described by `V` (registers on their architectural domain) -/
structure Sees (st : St) (V : View) : Prop where
  ssz : st.s.size = 128
  vsz : st.v.size = 16384
  pc : st.pc = V.pc
  exec : st.exec = V.exec
  vcc : st.vcc = V.vcc
  rs : ∀ i, i < 128 → st.rs i = V.rs i
  rv : ∀ r l, r < 256 → l < 64 → st.rv r l = V.rv r l
  mem : ∀ a, st.rmem a = V.mem a

/-- advancing the PC changes nothing else -/
theorem Sees.setPc {st : St} {V : View} (h : Sees st V) (n : Nat) :
    Sees { st with pc := n } { V with pc := n } :=
  ⟨h.ssz, h.vsz, rfl, h.exec, h.vcc, h.rs, h.rv, h.mem⟩

/-- a description may be replaced by one that agrees with it on the architectural domain -/
theorem Sees.congr {st : St} {V V' : View} (h : Sees st V) (hpc : V.pc = V'.pc) (hexec : V.exec = V'.exec)
    (hvcc : V.vcc = V'.vcc) (hrs : ∀ i, i < 128 → V.rs i = V'.rs i)
    (hrv : ∀ r l, r < 256 → l < 64 → V.rv r l = V'.rv r l) (hmem : ∀ a, V.mem a = V'.mem a) : Sees st V' :=
  ⟨h.ssz, h.vsz, h.pc.trans hpc, h.exec.trans hexec, h.vcc.trans hvcc,
   fun i hi => (h.rs i hi).trans (hrs i hi), fun r l hr hl => (h.rv r l hr hl).trans (hrv r l hr hl),
   fun a => (h.mem a).trans (hmem a)⟩

/-! ## `step` by instruction class -/

theorem fetch_at (P : Program) (base k : Nat) : fetch P base (base + k) = (P.code.drop k).take 8 := by
  unfold fetch
  rw [Nat.add_sub_cancel_left]

/-- a vector or memory instruction -/
theorem step_vec (P : Program) (hP : P.cdna3 = false) (base k : Nat) (st : St) (hpc : st.pc = base + k)
    (ft op sz : Nat) (hd : DecV ((P.code.drop k).take 8) ft op sz) (hft : 4 < ft)
    (name : String) (ws : List Wr)
    (hex : C03V.exec false { st with pc := base + k + sz } (((P.code.drop k).take 8).take sz) = some (name, ws)) :
    step P base st = .ok (applyWrs { st with pc := base + k + sz } ws, .next) := by
  obtain ⟨i, hdec, hift, hiop, hisz⟩ := hd
  unfold step
  rw [hpc, if_neg (by omega), fetch_at, hP]
  simp only [hdec]
  simp only [hift, hisz]
  have h1 : (ft == Gen.FT_SOPP) = false := by
    simp only [Gen.FT_SOPP, beq_eq_false_iff_ne, ne_eq]; omega
  have h2 : ¬ ft ≤ Gen.FT_SOPP := by simp only [Gen.FT_SOPP]; omega
  simp only [h1, Bool.false_and, Bool.false_eq_true, if_false, h2, hex]

/-- a scalar ALU / branch / wait instruction (not S_BARRIER, not S_ENDPGM) -/
theorem step_scalar (P : Program) (hP : P.cdna3 = false) (base k : Nat) (st : St) (hpc : st.pc = base + k)
    (ft op sz : Nat) (d : C03S.DInst) (hd : DecS ((P.code.drop k).take 8) ft op sz d) (hft : ft ≤ 4)
    (hnb : ¬ (ft = 4 ∧ (op = 10 ∨ op = 1)))
    (sem : C03S.Sem) (hsem : C03S.specSem d = some sem) (m' : C03S.MState)
    (hex : C03S.execute sem d (toM { st with pc := base + k + sz }) = some m') :
    step P base st = .ok (ofM { st with pc := base + k + sz } m', .next) := by
  obtain ⟨i, hdec, hift, hiop, hisz, hdi⟩ := hd
  unfold step
  rw [hpc, if_neg (by omega), fetch_at, hP]
  simp only [hdec]
  simp only [hift, hisz, hiop]
  have h1 : ((ft == Gen.FT_SOPP && op == 10) = true) = False := by
    simp only [Gen.FT_SOPP, Bool.and_eq_true, beq_iff_eq, eq_iff_iff, iff_false]
    intro h; exact hnb ⟨h.1, Or.inl h.2⟩
  have h2 : ((ft == Gen.FT_SOPP && op == 1) = true) = False := by
    simp only [Gen.FT_SOPP, Bool.and_eq_true, beq_iff_eq, eq_iff_iff, iff_false]
    intro h; exact hnb ⟨h.1, Or.inr h.2⟩
  have h3 : ft ≤ Gen.FT_SOPP := hft
  simp only [h1, h2, if_false, h3, if_true]
  unfold execScalar
  simp only [hdi, hsem, hex, Option.map_some]

/-- S_ENDPGM -/
theorem step_endpgm (P : Program) (hP : P.cdna3 = false) (base k : Nat) (st : St) (hpc : st.pc = base + k)
    (hd : DecV ((P.code.drop k).take 8) 4 1 4) :
    step P base st = .ok ({ st with pc := base + k + 4 }, .endpgm) := by
  obtain ⟨i, hdec, hift, hiop, hisz⟩ := hd
  unfold step
  rw [hpc, if_neg (by omega), fetch_at, hP]
  simp only [hdec]
  simp only [hift, hisz, hiop]
  rfl

end Emu
end C01
