import MgpuModel.C02Cfg
import MgpuProofs.C02WfStatic
import MgpuProofs.C02WfConcrete
/-! The dataflow form of the hazard check (`C02.Cfg.cfgCheck`) implies the address-exact dynamic check
    next to the emulator: the simulation invariant `Cov` and the concrete graph `cgraph`. -/
namespace C02.Cfg
open C02.Wf

/-- the graph describes the program: instruction `k` is what the emulator decodes at `addr k`, and
    wherever the emulator goes next is the address of a listed successor -/
structure GraphOK (P : Prog) (g : Graph) : Prop where
  inst : ∀ k i, g.code[k]? = some i → P.instAt (g.addr k) = some i
  next : ∀ k i, g.code[k]? = some i → i.kind ≠ .endpgm → i.kind ≠ .branch →
    ∃ j ∈ g.succ k, pcAdd (g.addr k) i.size = g.addr j
  br : ∀ k i, g.code[k]? = some i → i.kind = .branch →
    ∀ regs, ∃ j ∈ g.succ k, i.tgt regs (pcAdd (g.addr k) i.size) = g.addr j

/-- the dynamic in-flight set `H` is covered by the abstract state `A`: every vector entry is the
    instruction of a pair of `A` whose count is at most the number of younger entries; every scalar
    entry is an instruction whose index is in `A.ps` -/
structure Cov (g : Graph) (A : AState) (H : HState) : Prop where
  pv : ∀ pre q suf, H.pv = pre ++ q :: suf → ∃ p ∈ A.pv, g.code[p.1]? = some q.1 ∧ p.2 ≤ suf.length
  ps : ∀ q ∈ H.ps, ∃ x ∈ A.ps, g.code[x]? = some q.1

variable {g : Graph}

theorem Cov.empty (A : AState) : Cov g A {} where
  pv := by intro pre q suf h; cases pre <;> cases h
  ps := by intro q hq; cases hq

theorem pvCovered_true {p : Nat × Nat} {B : List (Nat × Nat)} (h : pvCovered p B = true) :
    ∃ q ∈ B, q.1 = p.1 ∧ q.2 ≤ p.2 := by
  simp only [pvCovered, List.any_eq_true, Bool.and_eq_true, beq_iff_eq, decide_eq_true_eq] at h
  exact h

theorem leA_true {X Y : AState} (h : leA X Y = true) :
    (∀ p ∈ X.pv, ∃ q ∈ Y.pv, q.1 = p.1 ∧ q.2 ≤ p.2) ∧ (∀ s ∈ X.ps, s ∈ Y.ps) := by
  simp only [leA, Bool.and_eq_true, List.all_eq_true, List.contains_iff_mem] at h
  exact ⟨fun p hp => pvCovered_true (h.1 p hp), h.2⟩

/-- coverage is monotone in the abstract state (so joins are sound) -/
theorem Cov.mono {X Y : AState} {H : HState} (hc : Cov g X H) (hle : leA X Y = true) : Cov g Y H := by
  obtain ⟨h1, h2⟩ := leA_true hle
  constructor
  · intro pre q suf h
    obtain ⟨p, hp, hcode, hy⟩ := hc.pv pre q suf h
    obtain ⟨p', hp', e1, e2⟩ := h1 p hp
    exact ⟨p', hp', by rw [e1]; exact hcode, by omega⟩
  · intro q hq
    obtain ⟨x, hx, hcode⟩ := hc.ps q hq
    exact ⟨x, h2 x hx, hcode⟩

theorem Cov.idx {A : AState} {H : HState} (hc : Cov g A H) (q : Inst × Ranges) (hq : q ∈ H.pv ++ H.ps) :
    ∃ x ∈ A.idxs, g.code[x]? = some q.1 := by
  rcases List.mem_append.1 hq with h | h
  · obtain ⟨pre, suf, e⟩ := List.append_of_mem h
    obtain ⟨p, hp, hcode, _⟩ := hc.pv pre q suf e
    exact ⟨p.1, List.mem_append_left _ (List.mem_map.2 ⟨p, hp, rfl⟩), hcode⟩
  · obtain ⟨x, hx, hcode⟩ := hc.ps q h
    exact ⟨x, List.mem_append_right _ hx, hcode⟩

theorem Cov.reg_ok {A : AState} {H : HState} (hc : Cov g A H) (i : Inst) (h : regOKA g A i = true) :
    regOK H i = true := by
  simp only [regOKA, List.all_eq_true] at h
  simp only [regOK, List.all_eq_true]
  intro q hq
  obtain ⟨x, hx, hcode⟩ := hc.idx q hq
  have := h x hx
  simp only [hcode] at this
  exact this

theorem Cov.mem_ok {A : AState} {H : HState} (hc : Cov g A H) (i : Inst) (fp : Ranges)
    (hreg : ∀ a ∈ g.code, a.region = i.region) (h : memOKA g A i = true) :
    memOK false H i fp = true := by
  simp only [memOKA, List.all_eq_true] at h
  simp only [memOK, List.all_eq_true]
  intro q hq
  obtain ⟨x, hx, hcode⟩ := hc.idx q hq
  have := h x hx
  simp only [hcode] at this
  have hr := hreg q.1 (List.mem_of_getElem? hcode)
  simp only [hr, bne_self_eq_false, Bool.or_false] at this
  simp only [this, Bool.false_eq_true, if_false, Bool.true_or]

theorem bump_le (y : Nat) : bump y ≤ y + 1 := by
  unfold bump; split <;> omega

/-- `s_waitcnt`: the dynamic check keeps the entries with fewer than `vm` younger ones, the abstract
    one the pairs whose lower bound is below `vm` -/
theorem Cov.after_wait {A : AState} {H : HState} (hc : Cov g A H) (vm lgkm : Nat) :
    Cov g (if lgkm = 0 then {} else { pv := A.pv.filter (fun p => decide (p.2 < vm)), ps := A.ps })
      (afterWait H vm lgkm) := by
  unfold C02.Wf.afterWait
  by_cases hb : lgkm = 0
  · simp only [hb, if_true]; exact Cov.empty _
  · simp only [hb, if_false]
    constructor
    · intro pre q suf h
      have h' : H.pv = (H.pv.take (H.pv.length - vm) ++ pre) ++ q :: suf := by
        rw [List.append_assoc, ← h, List.take_append_drop]
      obtain ⟨p, hp, hcode, hy⟩ := hc.pv _ q suf h'
      have hlen := congrArg List.length h
      simp only [List.length_drop, List.length_append, List.length_cons] at hlen
      refine ⟨p, ?_, hcode, hy⟩
      simp only [List.mem_filter, decide_eq_true_eq]
      exact ⟨hp, by omega⟩
    · exact hc.ps

/-- a vector access with transactions enters the set: every count grows by one -/
theorem Cov.push {A : AState} {H : HState} (hc : Cov g A H) (k : Nat) (i : Inst) (fp : Ranges)
    (hi : g.code[k]? = some i) :
    Cov g { pv := A.pv.map (fun p => (p.1, bump p.2)) ++ [(k, 0)], ps := A.ps }
      { H with pv := H.pv ++ [(i, fp)] } := by
  constructor
  · intro pre q suf h
    simp only at h
    rcases List.eq_nil_or_concat suf with rfl | ⟨suf', z, rfl⟩
    · have := List.append_inj' (t₁ := [(i, fp)]) (t₂ := [q]) h rfl
      have e : q = (i, fp) := by
        have := this.2
        simp only [List.cons.injEq, and_true] at this
        exact this.symm
      refine ⟨(k, 0), List.mem_append_right _ (List.mem_singleton.2 rfl), ?_, Nat.le_refl _⟩
      rw [e]; exact hi
    · rw [List.concat_eq_append] at h
      have h2 : H.pv ++ [(i, fp)] = (pre ++ q :: suf') ++ [z] := by
        rw [h]; simp
      have := (List.append_inj' h2 rfl).1
      obtain ⟨p, hp, hcode, hy⟩ := hc.pv pre q suf' this
      refine ⟨(p.1, bump p.2), List.mem_append_left _ (List.mem_map.2 ⟨p, hp, rfl⟩), hcode, ?_⟩
      have := bump_le p.2
      simp only [List.concat_eq_append, List.length_append, List.length_cons, List.length_nil]
      omega
  · exact hc.ps

/-- a vector access without transactions retires every older vector access -/
theorem Cov.clear {A A' : AState} {H : HState} (hc : Cov g A H) (hps : A'.ps = A.ps) :
    Cov g A' { H with pv := [] } := by
  constructor
  · intro pre q suf h; cases pre <;> cases h
  · rw [hps]; exact hc.ps

theorem Cov.pushS {A : AState} {H : HState} (hc : Cov g A H) (k : Nat) (i : Inst) (fp : Ranges)
    (hi : g.code[k]? = some i) :
    Cov g { pv := A.pv, ps := A.ps ++ [k] } { H with ps := H.ps ++ [(i, fp)] } := by
  constructor
  · exact hc.pv
  · intro q hq
    rcases List.mem_append.1 hq with h | h
    · obtain ⟨x, hx, hcode⟩ := hc.ps q h
      exact ⟨x, List.mem_append_left _ hx, hcode⟩
    · rw [List.mem_singleton.1 h]
      exact ⟨k, List.mem_append_right _ (List.mem_singleton.2 rfl), hi⟩

/-- one instruction: where the transfer function accepts, the address-exact step of the repaired compute
    unit accepts, and the coverage carries over -/
theorem xfer_dyn (hreg : ∀ a ∈ g.code, ∀ b ∈ g.code, a.region = b.region) (k : Nat) (i : Inst)
    (A out : AState) (H : HState) (fp : Ranges) (empty : Bool)
    (hi : g.code[k]? = some i) (hx : xfer g k A = some out) (hc : Cov g A H) :
    ∃ H', hstep false false H i fp empty = some H' ∧ Cov g out H' := by
  have hregi : ∀ a ∈ g.code, a.region = i.region := fun a ha => hreg a ha i (List.mem_of_getElem? hi)
  unfold xfer at hx
  simp only [hi] at hx
  unfold hstep
  cases hk : i.kind with
  | wait a b =>
    simp only [hk, Option.some.injEq] at hx ⊢
    exact ⟨_, rfl, hx ▸ hc.after_wait a b⟩
  | endpgm =>
    simp only [hk, Option.some.injEq] at hx ⊢
    exact ⟨_, rfl, Cov.empty _⟩
  | nop =>
    simp only [hk, Option.some.injEq] at hx ⊢
    exact ⟨_, rfl, hx ▸ hc⟩
  | alu u =>
    simp only [hk] at hx ⊢
    split at hx
    · rename_i hr
      simp only [Option.some.injEq] at hx
      rw [hc.reg_ok i hr]
      exact ⟨_, rfl, hx ▸ hc⟩
    · cases hx
  | branch =>
    simp only [hk] at hx ⊢
    split at hx
    · rename_i hr
      simp only [Option.some.injEq] at hx
      rw [hc.reg_ok i hr]
      exact ⟨_, rfl, hx ▸ hc⟩
    · cases hx
  | vload =>
    simp only [hk] at hx ⊢
    split at hx
    · rename_i hr
      simp only [Option.some.injEq] at hx
      simp only [Bool.and_eq_true] at hr
      rw [hc.reg_ok i hr.1, hc.mem_ok i fp hregi hr.2]
      subst hx
      cases empty
      · exact ⟨_, rfl, hc.push k i fp hi⟩
      · exact ⟨_, rfl, hc.clear rfl⟩
    · cases hx
  | vstore =>
    simp only [hk] at hx ⊢
    split at hx
    · rename_i hr
      simp only [Option.some.injEq] at hx
      simp only [Bool.and_eq_true] at hr
      rw [hc.reg_ok i hr.1, hc.mem_ok i fp hregi hr.2]
      subst hx
      cases empty
      · exact ⟨_, rfl, hc.push k i fp hi⟩
      · exact ⟨_, rfl, hc.clear rfl⟩
    · cases hx
  | sload =>
    simp only [hk] at hx ⊢
    split at hx
    · rename_i hr
      simp only [Option.some.injEq] at hx
      simp only [Bool.and_eq_true] at hr
      rw [hc.reg_ok i hr.1, hc.mem_ok i fp hregi hr.2]
      subst hx
      exact ⟨_, rfl, hc.pushS k i fp hi⟩
    · cases hx

/-- what `cfgCheck` says about instruction `k` -/
theorem cfgCheck_at {A : List AState} (h : cfgCheck g A = true) (k : Nat) (hk : k < g.code.length) :
    ∃ out, xfer g k (A.getD k {}) = some out ∧
      ∀ j ∈ g.succ k, j < g.code.length ∧ leA out (A.getD j {}) = true := by
  simp only [cfgCheck, Bool.and_eq_true, List.all_eq_true, List.mem_range] at h
  have := h.2 k hk
  unfold cfgCheckAt at this
  split at this
  · cases this
  · rename_i out hx
    simp only [List.all_eq_true, Bool.and_eq_true, decide_eq_true_eq] at this
    exact ⟨out, hx, this⟩

theorem estep_some' {P : Prog} {E : EState} {i : Inst} (hi : P.instAt E.pc = some i) (hd : E.done = false) :
    ∃ E', estep P E = some E' ∧ E'.done = decide (i.kind = .endpgm) ∧
      (i.kind ≠ .branch → E'.pc = pcAdd E.pc i.size) ∧
      (i.kind = .branch → E'.pc = i.tgt E.regs (pcAdd E.pc i.size)) := by
  unfold estep
  rw [if_neg (by simp [hd])]
  simp only [hi]
  cases hk : i.kind <;> simp [hd]

/-- the emulator halts within `n` instructions (decidable form of the termination hypothesis) -/
def haltsIn (P : Prog) : Nat → EState → Bool
  | 0, s => s.done
  | n + 1, s => s.done || match estep P s with
    | none => false
    | some s' => haltsIn P n s'

theorem haltsIn_spec (P : Prog) : ∀ (n : Nat) (E : EState), haltsIn P n E = true →
    ∃ m, m ≤ n ∧ ∃ Ef, erun P m E = some Ef ∧ Ef.done = true := by
  intro n
  induction n with
  | zero => intro E h; exact ⟨0, Nat.le_refl _, E, rfl, h⟩
  | succ n ih =>
    intro E h
    simp only [haltsIn, Bool.or_eq_true] at h
    rcases h with h | h
    · exact ⟨0, Nat.zero_le _, E, rfl, h⟩
    · cases he : estep P E with
      | none => simp [he] at h
      | some E' =>
        simp only [he] at h
        obtain ⟨m, hm, Ef, hr, hd⟩ := ih E' h
        exact ⟨m + 1, by omega, Ef, by simp only [erun, he]; exact hr, hd⟩

/-- the simulation: along the emulator's run the PC is the address of a node and the dynamic in-flight
    set is covered by the certificate's in-state of that node -/
theorem cfg_sound_aux {P : Prog} (hfix : P.oldCU = false) (hok : GraphOK P g)
    (hreg : ∀ a ∈ g.code, ∀ b ∈ g.code, a.region = b.region) {A : List AState}
    (hA : cfgCheck g A = true) :
    ∀ (n : Nat) (E : EState) (H : HState) (k : Nat), k < g.code.length → E.pc = g.addr k →
      Cov g (A.getD k {}) H → (∃ m, m ≤ n ∧ ∃ Ef, erun P m E = some Ef ∧ Ef.done = true) →
      accRun P n E = true → hazardFreeRun P n (E, H) = true := by
  intro n
  induction n with
  | zero =>
    intro E H k _ _ _ ht _
    obtain ⟨m, hm, Ef, hr, hd⟩ := ht
    have : m = 0 := by omega
    subst this
    simp only [erun, Option.some.injEq] at hr
    subst hr
    exact hd
  | succ n ih =>
    intro E H k hk hpc hcov ht hacc
    by_cases hd : E.done = true
    · exact hazardFreeRun_done _ _ hd
    · have hd : E.done = false := by simpa using hd
      have hik : g.code[k]? = some g.code[k] := List.getElem?_eq_getElem hk
      have hi : P.instAt E.pc = some g.code[k] := by rw [hpc]; exact hok.inst k _ hik
      obtain ⟨E', he, hd', hpc1, hpc2⟩ := estep_some' hi hd
      obtain ⟨out, hx, hsucc⟩ := cfgCheck_at hA k hk
      obtain ⟨H', hdyn, hcov'⟩ := xfer_dyn hreg k _ _ out H ((g.code[k]).fpl E.regs)
        ((g.code[k]).noTxn E.regs) hik hx hcov
      simp only [accRun, hd, Bool.false_eq_true, if_false, hi, he, Bool.and_eq_true] at hacc
      have hes : ehstep P (E, H) = some (E', H') := by
        unfold ehstep
        simp only [hd, Bool.false_eq_true, if_false, hi, hfix, hdyn, he, hacc.1, if_true]
      simp only [hazardFreeRun, hd, Bool.false_eq_true, if_false, hes]
      by_cases hend : (g.code[k]).kind = .endpgm
      · exact hazardFreeRun_done _ _ (by simp [hd', hend])
      · -- the emulator arrives at a listed successor
        have hj : ∃ j ∈ g.succ k, E'.pc = g.addr j := by
          by_cases hb : (g.code[k]).kind = .branch
          · obtain ⟨j, hj, e⟩ := hok.br k _ hik hb E.regs
            exact ⟨j, hj, by rw [hpc2 hb, hpc]; exact e⟩
          · obtain ⟨j, hj, e⟩ := hok.next k _ hik hend hb
            exact ⟨j, hj, by rw [hpc1 hb, hpc]; exact e⟩
        obtain ⟨j, hjs, hpcj⟩ := hj
        obtain ⟨hjlt, hle⟩ := hsucc j hjs
        obtain ⟨m, hm, Ef, hr, hdf⟩ := ht
        cases m with
        | zero =>
          simp only [erun, Option.some.injEq] at hr
          subst hr
          rw [hd] at hdf; cases hdf
        | succ m =>
          simp only [erun, he] at hr
          exact ih E' H' j hjlt hpcj (hcov'.mono hle) ⟨m, by omega, Ef, hr, hdf⟩ hacc.2

/-! ## the graph of a compiled program -/

theorem cfgCheck_succ_lt {A : List AState} (h : cfgCheck g A = true) (k : Nat) (hk : k < g.code.length) :
    ∀ j ∈ g.succ k, j < g.code.length := by
  obtain ⟨_, _, hs⟩ := cfgCheck_at h k hk
  exact fun j hj => (hs j hj).1

theorem offsets_length (cs : List CInst) (o : Nat) : (offsets cs o).length = cs.length := by
  induction cs generalizing o with
  | nil => rfl
  | cons c t ih => simp only [offsets, List.length_cons, ih]

theorem cgraph_code (base : Nat) (cs : List CInst) : (cgraph base cs).code = cs.map compile := rfl

theorem cgraph_addr (base : Nat) (cs : List CInst) (k : Nat) :
    (cgraph base cs).addr k = base + (offsets cs 0).getD k 0 := rfl

theorem cgraph_succ (base : Nat) (cs : List CInst) (k : Nat) (c : CInst) (hk : cs[k]? = some c) :
    (cgraph base cs).succ k = csucc (fun off => ((offsets cs 0).map fun o => base + o).idxOf
      (brTarget off (pcAdd (base + (offsets cs 0).getD k 0) 4))) k c := by
  simp only [cgraph, hk]

theorem cgraph_code_at (base : Nat) (cs : List CInst) (k : Nat) (i : Inst)
    (h : (cgraph base cs).code[k]? = some i) : ∃ c, cs[k]? = some c ∧ i = compile c := by
  rw [cgraph_code, List.getElem?_map] at h
  cases hc : cs[k]? with
  | none => rw [hc] at h; cases h
  | some c =>
    rw [hc] at h
    simp only [Option.map_some, Option.some.injEq] at h
    exact ⟨c, rfl, h.symm⟩

theorem getElem?_lt {α : Type} {l : List α} {k : Nat} {a : α} (h : l[k]? = some a) : k < l.length := by
  rcases Nat.lt_or_ge k l.length with h' | h'
  · exact h'
  · rw [List.getElem?_eq_none h'] at h; cases h

/-- a resolved target index points at the target PC -/
theorem idxOf_addr (base : Nat) (offs : List Nat) (t : Nat)
    (h : (offs.map fun o => base + o).idxOf t < offs.length) :
    base + offs.getD ((offs.map fun o => base + o).idxOf t) 0 = t := by
  have h' : (offs.map fun o => base + o).idxOf t < (offs.map fun o => base + o).length := by
    rw [List.length_map]; exact h
  have e := List.getElem_idxOf h'
  rw [List.getElem_map] at e
  rw [List.getD_eq_getElem?_getD, List.getElem?_eq_getElem h, Option.getD_some]
  exact e

/-- falling through: the PC behind instruction `k` is the start of instruction `k + 1` -/
theorem cgraph_fall (base : Nat) (cs : List CInst) (hsz : base + 8 * cs.length < PCM) (k : Nat) (c : CInst)
    (hk : cs[k]? = some c) (hk1 : k + 1 < cs.length) :
    pcAdd (base + (offsets cs 0).getD k 0) (compile c).size = base + (offsets cs 0).getD (k + 1) 0 := by
  have hs := offsets_getD_succ cs 0 k c hk hk1
  have hle := offsets_getD_le cs 0 (k + 1) hk1
  unfold pcAdd
  rw [hs, Nat.add_assoc]
  exact Nat.mod_eq_of_lt (by omega)

theorem csucc_plain (tgt : Nat → Nat) (k : Nat) (c : CInst) (h1 : (compile c).kind ≠ .endpgm)
    (h2 : (compile c).kind ≠ .branch) : csucc tgt k c = [k + 1] := by
  cases c <;> first | rfl | exact absurd rfl h1 | exact absurd rfl h2

theorem cgraph_ok_of_succ (base : Nat) (cs : List CInst) (foreign : Nat → Bool)
    (hlen : cs.length ≤ 65536) (hsz : base + 8 * cs.length < PCM)
    (hsucc : ∀ k, k < cs.length → ∀ j ∈ (cgraph base cs).succ k, j < cs.length) :
    GraphOK (cprog base cs foreign) (cgraph base cs) := by
  constructor
  · intro k i h
    obtain ⟨c, hc, rfl⟩ := cgraph_code_at base cs k i h
    rw [cgraph_addr]
    exact cprog_instAt base cs foreign k c hc hlen
  · intro k i h h1 h2
    obtain ⟨c, hc, rfl⟩ := cgraph_code_at base cs k i h
    have hk := getElem?_lt hc
    have hmem : k + 1 ∈ (cgraph base cs).succ k := by
      rw [cgraph_succ base cs k c hc, csucc_plain _ k c h1 h2]; exact List.mem_singleton.2 rfl
    refine ⟨k + 1, hmem, ?_⟩
    rw [cgraph_addr, cgraph_addr]
    exact cgraph_fall base cs hsz k c hc (hsucc k hk _ hmem)
  · intro k i h hb regs
    obtain ⟨c, hc, rfl⟩ := cgraph_code_at base cs k i h
    have hk := getElem?_lt hc
    have hs := hsucc k hk
    rw [cgraph_succ base cs k c hc] at hs ⊢
    simp only [cgraph_addr]
    -- the taken branch: the index found for the target PC
    have htaken : ∀ off, ((offsets cs 0).map fun o => base + o).idxOf
          (brTarget off (pcAdd (base + (offsets cs 0).getD k 0) 4)) < cs.length →
        brTarget off (pcAdd (base + (offsets cs 0).getD k 0) 4) =
          base + (offsets cs 0).getD (((offsets cs 0).map fun o => base + o).idxOf
            (brTarget off (pcAdd (base + (offsets cs 0).getD k 0) 4))) 0 := by
      intro off hlt
      exact (idxOf_addr base (offsets cs 0) _ (by rw [offsets_length]; exact hlt)).symm
    cases c with
    | br off =>
      simp only [csucc, List.mem_singleton, forall_eq] at hs
      exact ⟨_, List.mem_singleton.2 rfl, htaken off hs⟩
    | cbr on off =>
      simp only [csucc, List.mem_cons, List.not_mem_nil, or_false, forall_eq_or_imp, forall_eq] at hs
      by_cases hr : regs SCC = on
      · refine ⟨_, List.mem_cons_of_mem _ (List.mem_singleton.2 rfl), ?_⟩
        simp only [compile, hr, if_true]
        exact htaken off hs.2
      · refine ⟨k + 1, List.mem_cons_self .., ?_⟩
        simp only [compile, hr, if_false]
        exact cgraph_fall base cs hsz k (.cbr on off) hc hs.1
    | cbrv on off =>
      simp only [csucc, List.mem_cons, List.not_mem_nil, or_false, forall_eq_or_imp, forall_eq] at hs
      by_cases hr : decide (regs VCC % PCM ≠ 0) = decide (on ≠ 0)
      · refine ⟨_, List.mem_cons_of_mem _ (List.mem_singleton.2 rfl), ?_⟩
        simp only [compile, hr, if_true]
        exact htaken off hs.2
      · refine ⟨k + 1, List.mem_cons_self .., ?_⟩
        simp only [compile, hr, if_false]
        exact cgraph_fall base cs hsz k (.cbrv on off) hc hs.1
    | _ => simp [compile] at hb

theorem compile_region' (c : CInst) : (compile c).region = 0 := by cases c <;> rfl

theorem cgraph_region (base : Nat) (cs : List CInst) :
    ∀ a ∈ (cgraph base cs).code, ∀ b ∈ (cgraph base cs).code, a.region = b.region := by
  intro a ha b hb
  rw [cgraph_code] at ha hb
  simp only [List.mem_map] at ha hb
  obtain ⟨c, _, rfl⟩ := ha
  obtain ⟨c', _, rfl⟩ := hb
  rw [compile_region', compile_region']

theorem accRun_all' (P : Prog) (ho : ∀ a, P.own a = true) (hw : ∀ a, P.wown a = true) :
    ∀ (n : Nat) (E : EState), accRun P n E = true := by
  intro n
  induction n with
  | zero => intro E; rfl
  | succ n ih =>
    intro E
    simp only [accRun]
    split
    · rfl
    · split
      · rename_i i E' _ _
        have : accOK P i E.regs = true := by
          simp [accOK, List.all_eq_true, ho, hw]
        simp [this, ih]
      · rfl

/-! ## the dataflow check is not weaker than the straight-line check -/

/-- a straight-line instruction list as a graph: instruction `k` continues at `k + 1` -/
def lineGraph (l : List Inst) : Graph :=
  { code := l, addr := fun k => k, succ := fun k => if k + 1 < l.length then [k + 1] else [] }

/-- the in-states along the list, each the out-state of the instruction before -/
def lineWalk (g : Graph) : Nat → Nat → AState → List AState
  | 0, _, _ => []
  | n + 1, k, A => A :: lineWalk g n (k + 1) ((xfer g k A).getD {})

def lineCert (l : List Inst) : List AState := lineWalk (lineGraph l) l.length 0 {}

/-- the reverse of `Cov`: everything the abstract state holds is in the static in-flight list, at a
    position whose number of younger entries (capped) is at most the pair's count -/
structure RCov (g : Graph) (A : AState) (H : HState) : Prop where
  pv : ∀ p ∈ A.pv, ∃ pre q suf, H.pv = pre ++ q :: suf ∧ g.code[p.1]? = some q.1 ∧ min suf.length 64 ≤ p.2
  ps : ∀ x ∈ A.ps, ∃ q ∈ H.ps, g.code[x]? = some q.1

theorem RCov.empty (H : HState) : RCov g {} H where
  pv := by intro p hp; cases hp
  ps := by intro x hx; cases hx

theorem RCov.idx {A : AState} {H : HState} (hc : RCov g A H) (x : Nat) (hx : x ∈ A.idxs) :
    ∃ q ∈ H.pv ++ H.ps, g.code[x]? = some q.1 := by
  rcases List.mem_append.1 hx with h | h
  · obtain ⟨p, hp, rfl⟩ := List.mem_map.1 h
    obtain ⟨pre, q, suf, e, hcode, _⟩ := hc.pv p hp
    exact ⟨q, List.mem_append_left _ (by rw [e]; exact List.mem_append_right _ (List.mem_cons_self ..)), hcode⟩
  · obtain ⟨q, hq, hcode⟩ := hc.ps x h
    exact ⟨q, List.mem_append_right _ hq, hcode⟩

theorem RCov.reg_ok {A : AState} {H : HState} (hc : RCov g A H) (i : Inst) (h : regOK H i = true) :
    regOKA g A i = true := by
  simp only [regOK, List.all_eq_true] at h
  simp only [regOKA, List.all_eq_true]
  intro x hx
  obtain ⟨q, hq, hcode⟩ := hc.idx x hx
  simp only [hcode]
  exact h q hq

theorem RCov.mem_ok {A : AState} {H : HState} (hc : RCov g A H) (i : Inst) (fp : Ranges)
    (h : memOK true H i fp = true) : memOKA g A i = true := by
  simp only [memOK, if_true, List.all_eq_true] at h
  simp only [memOKA, List.all_eq_true]
  intro x hx
  obtain ⟨q, hq, hcode⟩ := hc.idx x hx
  simp only [hcode]
  exact h q hq

theorem RCov.after_wait {A : AState} {H : HState} (hc : RCov g A H) (vm lgkm : Nat) (hvm : vm ≤ 64) :
    RCov g (if lgkm = 0 then {} else { pv := A.pv.filter (fun p => decide (p.2 < vm)), ps := A.ps })
      (afterWait H vm lgkm) := by
  unfold C02.Wf.afterWait
  by_cases hb : lgkm = 0
  · simp only [hb, if_true]; exact RCov.empty _
  · simp only [hb, if_false]
    constructor
    · intro p hp
      simp only [List.mem_filter, decide_eq_true_eq] at hp
      obtain ⟨pre, q, suf, e, hcode, hmin⟩ := hc.pv p hp.1
      have hd : H.pv.length - vm ≤ pre.length := by
        rw [e]; simp only [List.length_append, List.length_cons]; omega
      refine ⟨pre.drop (H.pv.length - vm), q, suf, ?_, hcode, hmin⟩
      show List.drop (H.pv.length - vm) H.pv = _
      conv => lhs; arg 2; rw [e]
      exact List.drop_append_of_le_length hd
    · exact hc.ps

theorem bump_ge (s y : Nat) (h : min s 64 ≤ y) : min (s + 1) 64 ≤ bump y := by
  unfold bump; split <;> omega

theorem RCov.push {A : AState} {H : HState} (hc : RCov g A H) (k : Nat) (i : Inst) (fp : Ranges)
    (hi : g.code[k]? = some i) :
    RCov g { pv := A.pv.map (fun p => (p.1, bump p.2)) ++ [(k, 0)], ps := A.ps }
      { H with pv := H.pv ++ [(i, fp)] } := by
  constructor
  · intro p hp
    rcases List.mem_append.1 hp with h | h
    · obtain ⟨p0, hp0, rfl⟩ := List.mem_map.1 h
      obtain ⟨pre, q, suf, e, hcode, hmin⟩ := hc.pv p0 hp0
      refine ⟨pre, q, suf ++ [(i, fp)], ?_, hcode, ?_⟩
      · show H.pv ++ [(i, fp)] = _
        rw [e]; simp
      · simp only [List.length_append, List.length_cons, List.length_nil]
        exact bump_ge _ _ hmin
    · rw [List.mem_singleton.1 h]
      exact ⟨H.pv, (i, fp), [], rfl, hi, by simp⟩
  · exact hc.ps

theorem RCov.pushS {A : AState} {H : HState} (hc : RCov g A H) (k : Nat) (i : Inst) (fp : Ranges)
    (hi : g.code[k]? = some i) :
    RCov g { pv := A.pv, ps := A.ps ++ [k] } { H with ps := H.ps ++ [(i, fp)] } := by
  constructor
  · exact hc.pv
  · intro x hx
    rcases List.mem_append.1 hx with h | h
    · obtain ⟨q, hq, hcode⟩ := hc.ps x h
      exact ⟨q, List.mem_append_left _ hq, hcode⟩
    · rw [List.mem_singleton.1 h]
      exact ⟨(i, fp), List.mem_append_right _ (List.mem_singleton.2 rfl), hi⟩

/-- where the straight-line check accepts an instruction, the transfer function does -/
theorem xfer_static (k : Nat) (i : Inst) (A : AState) (Hs Hs' : HState) (hi : g.code[k]? = some i)
    (hvm : ∀ vm lgkm, i.kind = .wait vm lgkm → vm ≤ 64) (hc : RCov g A Hs)
    (hs : hstep true false Hs i [] false = some Hs') : ∃ out, xfer g k A = some out ∧ RCov g out Hs' := by
  unfold xfer
  simp only [hi]
  unfold hstep at hs
  cases hk : i.kind with
  | wait a b =>
    simp only [hk, Option.some.injEq] at hs ⊢
    subst hs
    exact ⟨_, rfl, hc.after_wait a b (hvm a b hk)⟩
  | endpgm =>
    simp only [hk, Option.some.injEq] at hs ⊢
    exact ⟨_, rfl, RCov.empty _⟩
  | nop =>
    simp only [hk, Option.some.injEq] at hs ⊢
    subst hs
    exact ⟨_, rfl, hc⟩
  | alu u =>
    simp only [hk] at hs ⊢
    split at hs
    · rename_i hr
      simp only [Option.some.injEq] at hs
      subst hs
      rw [if_pos (hc.reg_ok i hr)]
      exact ⟨_, rfl, hc⟩
    · cases hs
  | branch =>
    simp only [hk] at hs ⊢
    split at hs
    · rename_i hr
      simp only [Option.some.injEq] at hs
      subst hs
      rw [if_pos (hc.reg_ok i hr)]
      exact ⟨_, rfl, hc⟩
    · cases hs
  | vload =>
    simp only [hk] at hs ⊢
    split at hs
    · rename_i hr
      simp only [Option.some.injEq, Bool.false_eq_true, if_false] at hs
      subst hs
      simp only [Bool.and_eq_true] at hr
      rw [if_pos (by rw [hc.reg_ok i hr.1, hc.mem_ok i _ hr.2]; rfl)]
      exact ⟨_, rfl, hc.push k i [] hi⟩
    · cases hs
  | vstore =>
    simp only [hk] at hs ⊢
    split at hs
    · rename_i hr
      simp only [Option.some.injEq, Bool.false_eq_true, if_false] at hs
      subst hs
      simp only [Bool.and_eq_true] at hr
      rw [if_pos (by rw [hc.reg_ok i hr.1, hc.mem_ok i _ hr.2]; rfl)]
      exact ⟨_, rfl, hc.push k i [] hi⟩
    · cases hs
  | sload =>
    simp only [hk] at hs ⊢
    split at hs
    · rename_i hr
      simp only [Option.some.injEq] at hs
      subst hs
      simp only [Bool.and_eq_true] at hr
      rw [if_pos (by rw [hc.reg_ok i hr.1, hc.mem_ok i _ hr.2]; rfl)]
      exact ⟨_, rfl, hc.pushS k i [] hi⟩
    · cases hs

theorem lineWalk_length (g : Graph) (n k : Nat) (A : AState) : (lineWalk g n k A).length = n := by
  induction n generalizing k A with
  | zero => rfl
  | succ n ih => simp only [lineWalk, List.length_cons, ih]

theorem leA_refl (X : AState) : leA X X = true := by
  simp only [leA, pvCovered, Bool.and_eq_true, List.all_eq_true, List.any_eq_true, beq_iff_eq,
    decide_eq_true_eq, List.contains_iff_mem]
  exact ⟨fun p hp => ⟨p, hp, rfl, Nat.le_refl _⟩, fun s hs => hs⟩

theorem line_aux (l : List Inst) (hvm : ∀ i ∈ l, ∀ vm lgkm, i.kind = .wait vm lgkm → vm ≤ 64) :
    ∀ (rest : List Inst) (k : Nat) (Hs : HState) (A : AState), l.drop k = rest →
      RCov (lineGraph l) A Hs → hcheckFrom Hs rest = true → ∀ m, m < rest.length →
        ∃ out, xfer (lineGraph l) (k + m) ((lineWalk (lineGraph l) rest.length k A).getD m {}) = some out ∧
          (m + 1 < rest.length → (lineWalk (lineGraph l) rest.length k A).getD (m + 1) {} = out) := by
  intro rest
  induction rest with
  | nil => intro k Hs A _ _ _ m hm; cases hm
  | cons i rest' ih =>
    intro k Hs A hdrop hc hchk m hm
    have hik : l[k]? = some i := by
      have := List.getElem?_drop (xs := l) (i := k) (j := 0)
      rw [hdrop] at this
      simpa using this.symm
    have hdrop' : l.drop (k + 1) = rest' := by
      have := congrArg (List.drop 1) hdrop
      simpa [List.drop_drop, Nat.add_comm] using this
    simp only [hcheckFrom] at hchk
    cases hh : hstep true false Hs i [] false with
    | none => simp [hh] at hchk
    | some Hs' =>
      simp only [hh] at hchk
      obtain ⟨out, hx, hc'⟩ := xfer_static (g := lineGraph l) k i A Hs Hs' hik
        (hvm i (List.mem_of_getElem? hik)) hc hh
      have hw : lineWalk (lineGraph l) (i :: rest').length k A =
          A :: lineWalk (lineGraph l) rest'.length (k + 1) out := by
        simp only [List.length_cons, lineWalk, hx, Option.getD_some]
      rw [hw]
      cases m with
      | zero =>
        refine ⟨out, by simpa using hx, ?_⟩
        intro h1
        cases rest' with
        | nil => simp at h1
        | cons j r => simp only [List.length_cons, lineWalk, List.getD_cons_succ, List.getD_cons_zero]
      | succ m' =>
        obtain ⟨out', hx', hn'⟩ := ih (k + 1) Hs' out hdrop' hc' hchk m'
          (by simp only [List.length_cons] at hm; omega)
        have e : k + (m' + 1) = k + 1 + m' := by omega
        refine ⟨out', by rw [e, List.getD_cons_succ]; exact hx', ?_⟩
        intro h1
        rw [List.getD_cons_succ]
        exact hn' (by simp only [List.length_cons] at h1; omega)

theorem line_cert_ok (l : List Inst) (hvm : ∀ i ∈ l, ∀ vm lgkm, i.kind = .wait vm lgkm → vm ≤ 64)
    (h : hcheck l = true) : cfgCheck (lineGraph l) (lineCert l) = true := by
  have haux := line_aux l hvm l 0 {} {} (List.drop_zero ..) (RCov.empty _) h
  simp only [cfgCheck, Bool.and_eq_true, beq_iff_eq, List.all_eq_true, List.mem_range]
  refine ⟨lineWalk_length .., ?_⟩
  intro k hk
  obtain ⟨out, hx, hnext⟩ := haux k hk
  rw [Nat.zero_add] at hx
  unfold cfgCheckAt
  unfold lineCert
  rw [hx]
  simp only [List.all_eq_true, Bool.and_eq_true, decide_eq_true_eq]
  intro j hj
  have hj' : j ∈ (if k + 1 < l.length then [k + 1] else []) := hj
  split at hj'
  · rename_i hk1
    rw [List.mem_singleton.1 hj', hnext hk1]
    exact ⟨hk1, leA_refl _⟩
  · cases hj'

/-! ## sample programs with a loop -/

/-- `s2 = 0; L: v8 = load v[0:1]; wait; v9 = s3 ^ v8; s2 += s3; if s2 < s4 goto L; store v[0:1] = v9; wait; end` -/
def csLoop : List CInst :=
  [.smov 2 0, .fld 8 0, .wait 0 0, .vxor 9 3 8, .sadd 2 2 3, .scmp 2 4, .cbr 1 0xfff9, .fst 0 9, .wait 0 0, .endp]

/-- the load sits at the END of the loop body and the wait is outside the loop: the `v_xor` at the top of
    iteration n+1 reads v8 while the load of iteration n is in flight -/
def csLoopBad : List CInst :=
  [.smov 2 0, .vxor 9 3 8, .sadd 2 2 3, .fld 8 0, .scmp 2 4, .cbr 1 0xfffa, .wait 0 0, .fst 0 9, .wait 0 0, .endp]

/-- one iteration of `csLoopBad` as a straight line (the branch removed) -/
def csLoopBadOnce : List CInst :=
  [.smov 2 0, .vxor 9 3 8, .sadd 2 2 3, .fld 8 0, .scmp 2 4, .wait 0 0, .fst 0 9, .wait 0 0, .endp]

/-- two lanes active, v[0:1] = 4·lane, s3 = 1, s4 = 2: the loops above run twice -/
def loopRegs : RF := fun x =>
  if x = EXEC then 3 else if x = sreg 3 then 1 else if x = sreg 4 then 2
  else if vreg 0 0 ≤ x ∧ x < vreg 0 64 then 4 * (x - vreg 0 0) else 0

/-- a schedule the compute unit's rules accept for `csLoopBad`: the load of iteration 1 is performed and
    returns only when the wavefront sits in the `s_waitcnt` behind the loop, so the `v_xor` of iteration
    2 reads the old v8 (after each taken/untaken branch the instruction buffer is refetched) -/
def evsLoopBad : List Ev :=
  let alu : List Ev := [.decode, .issue, .exec, .complete]
  [.fetch, .fetchRet] ++ alu ++ alu ++ alu ++ [.decode, .issue, .exec] ++ alu ++ alu ++
  [.fetch, .fetchRet] ++ alu ++ alu ++ [.decode, .issue, .exec] ++ alu ++ alu ++
  [.fetch, .fetchRet] ++ [.decode, .issue, .serveV 0, .serveV 1, .retV, .retV, .complete] ++
  [.decode, .issue, .exec] ++ [.decode, .issue, .serveV 0, .retV, .complete] ++ [.decode, .issue, .complete]

/-- a schedule on which `csLoop` (two iterations on `loopRegs`) completes: each load returns while the
    wavefront sits in the `s_waitcnt` of the loop body; refetch after every branch -/
def evsLoop : List Ev :=
  let alu : List Ev := [.decode, .issue, .exec, .complete]
  let body : List Ev :=
    [.decode, .issue, .exec] ++ [.decode, .issue, .serveV 0, .retV, .complete] ++ alu ++ alu ++ alu ++ alu
  [.fetch, .fetchRet] ++ alu ++ body ++ [.fetch, .fetchRet] ++ body ++ [.fetch, .fetchRet] ++
  [.decode, .issue, .exec] ++ [.decode, .issue, .serveV 0, .retV, .complete] ++ [.decode, .issue, .complete]

end C02.Cfg
