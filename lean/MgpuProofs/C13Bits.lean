import MgpuModel.C13Bits
import MgpuProofs.C13Layout
/-! Bit-field and byte-level lemmas for the typed metadata layouts of property C13. -/
namespace C13

/-! ## bytes and little-endian words -/

theorem byteAt_lt (d : Bytes) (i : Nat) : byteAt d i < 256 := UInt8.toNat_lt _

theorem byteAt_eq_iff (a b : Bytes) (i : Nat) : byteAt a i = byteAt b i ↔ a.getD i 0 = b.getD i 0 := by
  unfold byteAt
  constructor
  · intro h; exact UInt8.toNat_inj.mp h
  · intro h; rw [h]

theorem u16_eq_iff (a b : Bytes) (o : Nat) :
    u16 a o = u16 b o ↔ byteAt a o = byteAt b o ∧ byteAt a (o + 1) = byteAt b (o + 1) := by
  unfold u16
  have := byteAt_lt a o; have := byteAt_lt a (o + 1); have := byteAt_lt b o; have := byteAt_lt b (o + 1)
  omega

theorem u32_eq_iff (a b : Bytes) (o : Nat) :
    u32 a o = u32 b o ↔ byteAt a o = byteAt b o ∧ byteAt a (o + 1) = byteAt b (o + 1) ∧
      byteAt a (o + 2) = byteAt b (o + 2) ∧ byteAt a (o + 3) = byteAt b (o + 3) := by
  unfold u32
  have := byteAt_lt a o; have := byteAt_lt a (o + 1); have := byteAt_lt a (o + 2); have := byteAt_lt a (o + 3)
  have := byteAt_lt b o; have := byteAt_lt b (o + 1); have := byteAt_lt b (o + 2); have := byteAt_lt b (o + 3)
  omega

theorem u32_lt (d : Bytes) (o : Nat) : u32 d o < 4294967296 := by
  unfold u32
  have := byteAt_lt d o; have := byteAt_lt d (o + 1); have := byteAt_lt d (o + 2); have := byteAt_lt d (o + 3)
  omega

theorem u16_lt (d : Bytes) (o : Nat) : u16 d o < 65536 := by
  unfold u16
  have := byteAt_lt d o; have := byteAt_lt d (o + 1)
  omega

theorem u64_lt (d : Bytes) (o : Nat) : u64 d o < 18446744073709551616 := by
  unfold u64
  have := u32_lt d o; have := u32_lt d (o + 4)
  omega

theorem u64_eq_iff (a b : Bytes) (o : Nat) :
    u64 a o = u64 b o ↔ u32 a o = u32 b o ∧ u32 a (o + 4) = u32 b (o + 4) := by
  unfold u64
  have := u32_lt a o; have := u32_lt a (o + 4); have := u32_lt b o; have := u32_lt b (o + 4)
  omega


theorem beq1_eq_iff (x y : Nat) : ((x % 2 == 1) = (y % 2 == 1)) ↔ x % 2 = y % 2 := by
  rcases Nat.mod_two_eq_zero_or_one x with hx | hx <;> rcases Nat.mod_two_eq_zero_or_one y with hy | hy <;>
    rw [hx, hy] <;> decide

theorem bits10 (a : Nat) : a % 1024 = a % 2 + 2 * (a / 2 % 2) + 4 * (a / 4 % 2) + 8 * (a / 8 % 2) + 16 * (a / 16 % 2) +
    32 * (a / 32 % 2) + 64 * (a / 64 % 2) + 128 * (a / 128 % 2) + 256 * (a / 256 % 2) + 512 * (a / 512 % 2) := by
  omega

theorem sum10_inj (a0 a1 a2 a3 a4 a5 a6 a7 a8 a9 b0 b1 b2 b3 b4 b5 b6 b7 b8 b9 : Nat)
    (h0 : a0 < 2) (h1 : a1 < 2) (h2 : a2 < 2) (h3 : a3 < 2) (h4 : a4 < 2) (h5 : a5 < 2) (h6 : a6 < 2) (h7 : a7 < 2)
    (h8 : a8 < 2) (_h9 : a9 < 2) (g0 : b0 < 2) (g1 : b1 < 2) (g2 : b2 < 2) (g3 : b3 < 2) (g4 : b4 < 2) (g5 : b5 < 2)
    (g6 : b6 < 2) (g7 : b7 < 2) (g8 : b8 < 2) (_g9 : b9 < 2) :
    (a0 = b0 ∧ a1 = b1 ∧ a2 = b2 ∧ a3 = b3 ∧ a4 = b4 ∧ a5 = b5 ∧ a6 = b6 ∧ a7 = b7 ∧ a8 = b8 ∧ a9 = b9) ↔
    a0 + 2 * a1 + 4 * a2 + 8 * a3 + 16 * a4 + 32 * a5 + 64 * a6 + 128 * a7 + 256 * a8 + 512 * a9 =
    b0 + 2 * b1 + 4 * b2 + 8 * b3 + 16 * b4 + 32 * b5 + 64 * b6 + 128 * b7 + 256 * b8 + 512 * b9 := by
  omega

theorem flags10_eq_iff (a b : Nat) :
    (testBit a 0 = testBit b 0 ∧ testBit a 1 = testBit b 1 ∧ testBit a 2 = testBit b 2 ∧
     testBit a 3 = testBit b 3 ∧ testBit a 4 = testBit b 4 ∧ testBit a 5 = testBit b 5 ∧
     testBit a 6 = testBit b 6 ∧ testBit a 7 = testBit b 7 ∧ testBit a 8 = testBit b 8 ∧
     testBit a 9 = testBit b 9) ↔ a % 1024 = b % 1024 := by
  unfold testBit
  simp only [beq1_eq_iff, Nat.reducePow, Nat.div_one]
  rw [bits10 a, bits10 b]
  exact sum10_inj _ _ _ _ _ _ _ _ _ _ _ _ _ _ _ _ _ _ _ _ (Nat.mod_lt _ (by decide)) (Nat.mod_lt _ (by decide))
    (Nat.mod_lt _ (by decide)) (Nat.mod_lt _ (by decide)) (Nat.mod_lt _ (by decide)) (Nat.mod_lt _ (by decide))
    (Nat.mod_lt _ (by decide)) (Nat.mod_lt _ (by decide)) (Nat.mod_lt _ (by decide)) (Nat.mod_lt _ (by decide))
    (Nat.mod_lt _ (by decide)) (Nat.mod_lt _ (by decide)) (Nat.mod_lt _ (by decide)) (Nat.mod_lt _ (by decide))
    (Nat.mod_lt _ (by decide)) (Nat.mod_lt _ (by decide)) (Nat.mod_lt _ (by decide)) (Nat.mod_lt _ (by decide))
    (Nat.mod_lt _ (by decide)) (Nat.mod_lt _ (by decide))

theorem flagsword_mod (d : Bytes) : u32 d 56 % 1024 = byteAt d 56 + 256 * (byteAt d 57 % 4) := by
  unfold u32
  simp only [Nat.reduceAdd]
  have := UInt8.toNat_lt (d.getD 56 0); have := UInt8.toNat_lt (d.getD 57 0)
  unfold byteAt
  omega

/-! ## `parseV2V3Header` is injective exactly on the bytes it interprets -/

/-- two byte strings agree on every header byte the loader interprets: the 53 bytes of
`hdrFullBytes` and the two low bits of byte 57 -/
def HdrAgree (a b : Bytes) : Prop :=
  (∀ i ∈ hdrFullBytes, byteAt a i = byteAt b i) ∧ byteAt a 57 % 4 = byteAt b 57 % 4

theorem parseV2V3Header_eq_iff (a b : Bytes) : parseV2V3Header a = parseV2V3Header b ↔ HdrAgree a b := by
  unfold parseV2V3Header HdrAgree
  simp only [Meta.mk.injEq, true_and]
  have hfl := flags10_eq_iff (u32 a 56) (u32 b 56)
  rw [flagsword_mod, flagsword_mod] at hfl
  simp only [hdrFullBytes, List.range', List.cons_append, List.nil_append, List.forall_mem_cons, Nat.reduceAdd,
    List.not_mem_nil, false_imp_iff, implies_true, and_true]
  simp only [u64_eq_iff, u32_eq_iff, u16_eq_iff, Nat.reduceAdd]
  have := byteAt_lt a 56; have := byteAt_lt b 56
  constructor
  · rintro ⟨r1, r2, ka, ld, pr, en, f0, f1, f2, f3, f4, f5, f6, f7, f8, f9, c1, c2, mk, m1, m2, m3, sg, vg⟩
    have hf := hfl.mp ⟨f0, f1, f2, f3, f4, f5, f6, f7, f8, f9⟩
    omega
  · intro h
    have hf := hfl.mpr (by omega)
    obtain ⟨f0, f1, f2, f3, f4, f5, f6, f7, f8, f9⟩ := hf
    refine ⟨?_, ?_, ?_, ?_, ?_, ?_, f0, f1, f2, f3, f4, f5, f6, f7, f8, f9, ?_, ?_, ?_, ?_, ?_, ?_, ?_, ?_⟩ <;> omega


/-! ## the two rsrc words as bit-fields -/

theorem Rsrc1.dec_enc (f : Rsrc1) : Rsrc1.dec f.enc = f := by
  obtain ⟨v, s, p, u⟩ := f
  have hv := v.isLt; have hs := s.isLt; have hp := p.isLt; have hu := u.isLt
  simp only [Rsrc1.dec, Rsrc1.enc, Rsrc1.mk.injEq]
  refine ⟨?_, ?_, ?_, ?_⟩ <;>
    (apply BitVec.eq_of_toNat_eq
     simp only [BitVec.extractLsb'_toNat, BitVec.toNat_ofNat, Nat.shiftRight_eq_div_pow, Nat.reducePow]
     omega)

theorem Rsrc1.enc_dec (w : BitVec 32) : (Rsrc1.dec w).enc = w := by
  have hw := w.isLt
  apply BitVec.eq_of_toNat_eq
  simp only [Rsrc1.dec, Rsrc1.enc, BitVec.extractLsb'_toNat, BitVec.toNat_ofNat, Nat.shiftRight_eq_div_pow, Nat.reducePow]
  omega

theorem getLsbD_eq_decide (w : BitVec 32) (i : Nat) : w.getLsbD i = decide (w.toNat / 2 ^ i % 2 = 1) := by
  rw [← BitVec.testBit_toNat, Nat.testBit_eq_decide_div_mod_eq]

theorem bool_of_bit (b : Bool) (x : Nat) (h : x % 2 = b.toNat) : decide (x % 2 = 1) = b := by
  cases b <;> simp_all

theorem Rsrc2.dec_enc (f : Rsrc2) : Rsrc2.dec f.enc = f := by
  obtain ⟨b0, us, b6, b7, b8, b9, b10, wi, b13, b14, up⟩ := f
  have h1 := us.isLt; have h2 := wi.isLt; have h3 := up.isLt
  have := Bool.toNat_le b0; have := Bool.toNat_le b6; have := Bool.toNat_le b7; have := Bool.toNat_le b8
  have := Bool.toNat_le b9; have := Bool.toNat_le b10; have := Bool.toNat_le b13; have := Bool.toNat_le b14
  simp only [Rsrc2.dec, Rsrc2.enc, Rsrc2.mk.injEq, getLsbD_eq_decide]
  refine ⟨?_, ?_, ?_, ?_, ?_, ?_, ?_, ?_, ?_, ?_, ?_⟩
  all_goals first
    | (apply bool_of_bit
       simp only [BitVec.toNat_ofNat, Nat.reducePow]
       omega)
    | (apply BitVec.eq_of_toNat_eq
       simp only [BitVec.extractLsb'_toNat, BitVec.toNat_ofNat, Nat.shiftRight_eq_div_pow, Nat.reducePow]
       omega)

theorem toNat_decide_bit (x : Nat) : (decide (x % 2 = 1)).toNat = x % 2 := by
  rcases Nat.mod_two_eq_zero_or_one x with h | h <;> simp [h]

theorem Rsrc2.enc_dec (w : BitVec 32) : (Rsrc2.dec w).enc = w := by
  have hw := w.isLt
  apply BitVec.eq_of_toNat_eq
  simp only [Rsrc2.dec, Rsrc2.enc, getLsbD_eq_decide, toNat_decide_bit, BitVec.extractLsb'_toNat, BitVec.toNat_ofNat,
    Nat.shiftRight_eq_div_pow, Nat.reducePow]
  omega


/-! ## the rsrc2 rewriting on fields -/


/-- the test `(rsrc2>>11)&3 == 0` of the loader, on bits -/
theorem wi_zero_iff (r : BitVec 32) :
    (((r >>> 11) &&& 3#32) == 0#32) = (!r.getLsbD 11 && !r.getLsbD 12) := by
  have h3 : ∀ x : Nat, x &&& 3 = x % 4 := fun x => Nat.and_two_pow_sub_one_eq_mod x 2
  have hw := r.isLt
  rw [getLsbD_eq_decide, getLsbD_eq_decide]
  have e : (((r >>> 11) &&& 3#32) == 0#32) = decide (r.toNat / 2048 % 4 = 0) := by
    rw [show (((r >>> 11) &&& 3#32) == 0#32) = decide (((r >>> 11) &&& 3#32) = 0#32) from rfl]
    congr 1
    rw [← BitVec.toNat_inj]
    simp only [BitVec.toNat_and, BitVec.toNat_ushiftRight, BitVec.toNat_ofNat, Nat.shiftRight_eq_div_pow]
    rw [show (3 % 2 ^ 32) = 3 from rfl, h3]
  rw [e]
  simp only [Nat.reducePow]
  rcases Nat.mod_two_eq_zero_or_one (r.toNat / 2048) with h1 | h1 <;>
    rcases Nat.mod_two_eq_zero_or_one (r.toNat / 4096) with h2 | h2 <;> simp [h1, h2] <;> omega


/-- `fixRsrc2` before its last conditional -/
def preFix (r : BitVec 32) (kernargPtr : Bool) : BitVec 32 :=
  let r := r &&& ~~~1#32
  let r := if kernargPtr then (r &&& ~~~(0x1F#32 <<< 1)) ||| (2#32 <<< 1) else r
  let r := r ||| (1#32 <<< 7)
  r ||| (1#32 <<< 8)

theorem fixRsrc2_eq_pre (r : BitVec 32) (b : Bool) :
    fixRsrc2 r b = if !(preFix r b).getLsbD 11 && !(preFix r b).getLsbD 12
      then (preFix r b &&& ~~~(3#32 <<< 11)) ||| (1#32 <<< 11) else preFix r b := by
  rw [← wi_zero_iff]; rfl

theorem preFix_bits (r : BitVec 32) (b : Bool) :
    (preFix r b).getLsbD 11 = r.getLsbD 11 ∧ (preFix r b).getLsbD 12 = r.getLsbD 12 := by
  unfold preFix
  cases b <;> simp

/-- every bit of the rewritten word -/
theorem fixRsrc2_bits (r : BitVec 32) (b : Bool) :
    (fixRsrc2 r b).getLsbD 0 = false ∧
    (fixRsrc2 r b).getLsbD 1 = (if b then false else r.getLsbD 1) ∧
    (fixRsrc2 r b).getLsbD 2 = (if b then true else r.getLsbD 2) ∧
    (fixRsrc2 r b).getLsbD 3 = (if b then false else r.getLsbD 3) ∧
    (fixRsrc2 r b).getLsbD 4 = (if b then false else r.getLsbD 4) ∧
    (fixRsrc2 r b).getLsbD 5 = (if b then false else r.getLsbD 5) ∧
    (fixRsrc2 r b).getLsbD 7 = true ∧ (fixRsrc2 r b).getLsbD 8 = true ∧
    (fixRsrc2 r b).getLsbD 11 = (r.getLsbD 11 || !r.getLsbD 12) ∧
    (fixRsrc2 r b).getLsbD 12 = r.getLsbD 12 := by
  rw [fixRsrc2_eq_pre]
  obtain ⟨p11, p12⟩ := preFix_bits r b
  rw [p11, p12]
  unfold preFix
  cases b <;> cases h11 : r.getLsbD 11 <;> cases h12 : r.getLsbD 12 <;> simp_all


theorem extract_eq {x : BitVec 32} {s n : Nat} {y : BitVec n}
    (h : ∀ i, i < n → x.getLsbD (s + i) = y.getLsbD i) : x.extractLsb' s n = y := by
  apply BitVec.eq_of_getLsbD_eq
  intro i hi
  rw [BitVec.getLsbD_extractLsb', h i hi]
  simp [hi]

theorem extract2_zero_iff (x : BitVec 32) :
    x.extractLsb' 11 2 = 0#2 ↔ (x.getLsbD 11 = false ∧ x.getLsbD 12 = false) := by
  constructor
  · intro h
    have h0 := congrArg (·.getLsbD 0) h
    have h1 := congrArg (·.getLsbD 1) h
    simp only [BitVec.getLsbD_extractLsb'] at h0 h1
    simpa using And.intro h0 h1
  · intro h
    apply extract_eq
    intro i hi
    have : i = 0 ∨ i = 1 := by omega
    rcases this with rfl | rfl <;> simp_all

/-- **the rewriting of compute_pgm_rsrc2, field by field** -/
theorem fixRsrc2_fields (w : BitVec 32) (b : Bool) : Rsrc2.dec (fixRsrc2 w b) = (Rsrc2.dec w).norm b := by
  obtain ⟨b0, b1, b2, b3, b4, b5, b7, b8, b11, b12⟩ := fixRsrc2_bits w b
  have p := fixRsrc2_preserved w b
  simp only [Rsrc2.dec, Rsrc2.norm, Rsrc2.mk.injEq]
  refine ⟨b0, ?_, p.1, b7, b8, p.2.1, p.2.2.1, ?_, p.2.2.2.1, p.2.2.2.2.1, ?_⟩
  · cases b
    · simp only [Bool.false_eq_true, if_false] at b1 b2 b3 b4 b5 ⊢
      apply extract_eq
      intro i hi
      rw [BitVec.getLsbD_extractLsb']
      have : i = 0 ∨ i = 1 ∨ i = 2 ∨ i = 3 ∨ i = 4 := by omega
      rcases this with rfl | rfl | rfl | rfl | rfl <;> simp_all
    · simp only [if_true] at b1 b2 b3 b4 b5 ⊢
      apply extract_eq
      intro i hi
      have : i = 0 ∨ i = 1 ∨ i = 2 ∨ i = 3 ∨ i = 4 := by omega
      rcases this with rfl | rfl | rfl | rfl | rfl <;> simp_all
  · by_cases hz : w.extractLsb' 11 2 = 0#2
    · simp only [hz, ↓reduceIte]
      obtain ⟨z1, z2⟩ := (extract2_zero_iff w).mp hz
      apply extract_eq
      intro i hi
      have : i = 0 ∨ i = 1 := by omega
      rcases this with rfl | rfl <;> simp_all
    · simp only [hz, ↓reduceIte]
      have hnz : ¬ (w.getLsbD 11 = false ∧ w.getLsbD 12 = false) := fun h => hz ((extract2_zero_iff w).mpr h)
      apply extract_eq
      intro i hi
      rw [BitVec.getLsbD_extractLsb']
      have : i = 0 ∨ i = 1 := by omega
      rcases this with rfl | rfl
      · cases h11 : w.getLsbD 11 <;> cases h12 : w.getLsbD 12 <;> simp_all
      · simp_all
  · apply extract_eq
    intro i hi
    rw [BitVec.getLsbD_extractLsb']
    have : i = 0 ∨ i = 1 ∨ i = 2 ∨ i = 3 ∨ i = 4 ∨ i = 5 ∨ i = 6 ∨ i = 7 ∨ i = 8 ∨ i = 9 ∨ i = 10 ∨ i = 11 ∨
        i = 12 ∨ i = 13 ∨ i = 14 ∨ i = 15 ∨ i = 16 := by omega
    obtain ⟨_, _, _, _, _, q15, q16, q17, q18, q19, q20, q21, q22, q23, q24, q25, q26, q27, q28, q29, q30, q31⟩ := p
    rcases this with rfl | rfl | rfl | rfl | rfl | rfl | rfl | rfl | rfl | rfl | rfl | rfl | rfl | rfl | rfl | rfl | rfl <;>
      simp_all


/-! ## typed header: parse ∘ serialise -/

theorem ofNat_toNat' {n : Nat} (x : BitVec n) : BitVec.ofNat n x.toNat = x := by
  rw [BitVec.ofNat_toNat, BitVec.setWidth_eq]

theorem HeaderV.toMeta_inRange (h : HeaderV) : HdrInRange h.toMeta := by
  constructor <;> first | rfl | exact BitVec.isLt _

theorem HeaderV.ofMeta_toMeta (h : HeaderV) : HeaderV.ofMeta h.toMeta = h := by
  obtain ⟨a, b, c, d, e, f, g, r1, r2, ⟨e0, e1, e2, e3, e4, e5, e6, e7, e8, e9⟩, i, j, k, l, m⟩ := h
  simp only [HeaderV.ofMeta, HeaderV.toMeta, ofNat_toNat', Rsrc1.dec_enc, Rsrc2.dec_enc]

section
variable (m : Meta) (s24 s32 s40 fhi gds bar : Nat) (tail : Bytes)
theorem hdr_u64_24 (h : s24 < 18446744073709551616) : u64 (renderHeader m s24 s32 s40 fhi gds bar tail) 24 = s24 := by
  read_hdr
theorem hdr_u64_32 (h : s32 < 18446744073709551616) : u64 (renderHeader m s24 s32 s40 fhi gds bar tail) 32 = s32 := by
  read_hdr
theorem hdr_u64_40 (h : s40 < 18446744073709551616) : u64 (renderHeader m s24 s32 s40 fhi gds bar tail) 40 = s40 := by
  read_hdr
theorem hdr_u32_68 (h : gds < 4294967296) : u32 (renderHeader m s24 s32 s40 fhi gds bar tail) 68 = gds := by
  read_hdr
theorem hdr_u32_80 (h : bar < 4294967296) : u32 (renderHeader m s24 s32 s40 fhi gds bar tail) 80 = bar := by
  read_hdr
theorem renderHeader_drop88 : (renderHeader m s24 s32 s40 fhi gds bar tail).drop 88 = tail := by
  unfold renderHeader le64 le32 le16
  simp only [List.cons_append, List.nil_append, List.drop_succ_cons, List.drop_zero]
end

theorem flagsOf_lt (m : Meta) : flagsOf m < 1024 := by
  unfold flagsOf
  have h0 := Bool.toNat_le m.enPrivSegBuf; have h1 := Bool.toNat_le m.enDispatchPtr
  have h2 := Bool.toNat_le m.enQueuePtr; have h3 := Bool.toNat_le m.enKernargPtr
  have h4 := Bool.toNat_le m.enDispatchID; have h5 := Bool.toNat_le m.enFlatScratch
  have h6 := Bool.toNat_le m.enPrivSegSize; have h7 := Bool.toNat_le m.enGridX
  have h8 := Bool.toNat_le m.enGridY; have h9 := Bool.toNat_le m.enGridZ
  omega

theorem encodeHeader_length (h : HeaderV) (g : HdrIgnored) : (encodeHeader h g).length = 88 + g.tail.length :=
  renderHeader_length _ _ _ _ _ _ _ _

/-- parse ∘ serialise = id, for every typed header and whatever the ignored fields hold -/
theorem decodeHeader_encodeHeader (h : HeaderV) (g : HdrIgnored) : decodeHeader (encodeHeader h g) = some h := by
  unfold decodeHeader parseV2V3Header?
  rw [if_neg (by rw [encodeHeader_length]; omega)]
  unfold encodeHeader
  rw [Option.map_some, parse_renderHeader _ _ _ _ _ _ _ _ h.toMeta_inRange (by have := g.propsHi.isLt; omega),
    HeaderV.ofMeta_toMeta]

/-- the ignored fields come back as well: the two projections split the bytes without overlap -/
theorem ignoredOfHeader_encodeHeader (h : HeaderV) (g : HdrIgnored) : ignoredOfHeader (encodeHeader h g) = g := by
  obtain ⟨a, b, c, p, gd, br, t⟩ := g
  have hp := p.isLt
  have hf := flagsOf_lt h.toMeta
  unfold ignoredOfHeader encodeHeader
  simp only [hdr_u64_24 _ _ _ _ _ _ _ _ a.isLt, hdr_u64_32 _ _ _ _ _ _ _ _ b.isLt, hdr_u64_40 _ _ _ _ _ _ _ _ c.isLt,
    hdr_u32_68 _ _ _ _ _ _ _ _ gd.isLt, hdr_u32_80 _ _ _ _ _ _ _ _ br.isLt, renderHeader_drop88,
    hdr_u32_56 _ _ _ _ _ _ _ _ (show flagsOf h.toMeta + 1024 * p.toNat < 4294967296 by omega), ofNat_toNat']
  rw [show (flagsOf h.toMeta + 1024 * p.toNat) / 1024 = p.toNat by omega, ofNat_toNat']



/-! ## typed header: serialise ∘ parse -/

theorem ofNat_byteAt (d : Bytes) (i : Nat) : UInt8.ofNat (byteAt d i) = d.getD i 0 := UInt8.ofNat_toNat

theorem le16_u16 (d : Bytes) (o : Nat) : le16 (u16 d o) = [d.getD o 0, d.getD (o + 1) 0] := by
  have h0 := byteAt_lt d o; have h1 := byteAt_lt d (o + 1)
  unfold le16 u16
  rw [show (byteAt d o + 256 * byteAt d (o + 1)) % 256 = byteAt d o by omega,
    show (byteAt d o + 256 * byteAt d (o + 1)) / 256 % 256 = byteAt d (o + 1) by omega, ofNat_byteAt, ofNat_byteAt]

theorem le32_u32 (d : Bytes) (o : Nat) :
    le32 (u32 d o) = [d.getD o 0, d.getD (o + 1) 0, d.getD (o + 2) 0, d.getD (o + 3) 0] := by
  have h0 := byteAt_lt d o; have h1 := byteAt_lt d (o + 1); have h2 := byteAt_lt d (o + 2); have h3 := byteAt_lt d (o + 3)
  unfold le32 u32
  rw [show (byteAt d o + 256 * byteAt d (o + 1) + 65536 * byteAt d (o + 2) + 16777216 * byteAt d (o + 3)) % 256 = byteAt d o by omega,
    show (byteAt d o + 256 * byteAt d (o + 1) + 65536 * byteAt d (o + 2) + 16777216 * byteAt d (o + 3)) / 256 % 256 = byteAt d (o + 1) by omega,
    show (byteAt d o + 256 * byteAt d (o + 1) + 65536 * byteAt d (o + 2) + 16777216 * byteAt d (o + 3)) / 65536 % 256 = byteAt d (o + 2) by omega,
    show (byteAt d o + 256 * byteAt d (o + 1) + 65536 * byteAt d (o + 2) + 16777216 * byteAt d (o + 3)) / 16777216 % 256 = byteAt d (o + 3) by omega,
    ofNat_byteAt, ofNat_byteAt, ofNat_byteAt, ofNat_byteAt]

theorem le64_u64 (d : Bytes) (o : Nat) : le64 (u64 d o) = le32 (u32 d o) ++ le32 (u32 d (o + 4)) := by
  have h0 := u32_lt d o; have h1 := u32_lt d (o + 4)
  unfold le64 u64
  rw [show (u32 d o + 4294967296 * u32 d (o + 4)) % 4294967296 = u32 d o by omega,
    show (u32 d o + 4294967296 * u32 d (o + 4)) / 4294967296 % 4294967296 = u32 d (o + 4) by omega]

theorem prefix_getD (n : Nat) (d : Bytes) (h : n ≤ d.length) :
    (List.range' 0 n).map (fun i => d.getD i 0) ++ d.drop n = d := by
  induction n with
  | zero => simp
  | succ n ih =>
    have hlt : n < d.length := by omega
    rw [List.range'_concat, List.map_append, List.append_assoc]
    simp only [Nat.zero_add, Nat.one_mul, List.map_cons, List.map_nil, List.cons_append, List.nil_append]
    have : d.getD n 0 :: d.drop (n + 1) = d.drop n := by
      rw [List.getD_eq_getElem?_getD, List.getElem?_eq_getElem hlt, Option.getD_some]
      exact (List.drop_eq_getElem_cons hlt).symm
    rw [this]
    exact ih (by omega)

theorem bit_toNat (x : Nat) : (x % 2 == 1).toNat = x % 2 := by
  rcases Nat.mod_two_eq_zero_or_one x with h | h <;> simp [h]

theorem flagsOf_parse (d : Bytes) : flagsOf (parseV2V3Header d) = u32 d 56 % 1024 := by
  unfold flagsOf parseV2V3Header testBit
  simp only [bit_toNat, Nat.reducePow, Nat.div_one]
  omega

theorem parseV2V3Header_inRange (d : Bytes) : HdrInRange (parseV2V3Header d) := by
  constructor <;> first | rfl | exact u32_lt _ _ | exact u16_lt _ _ | exact u64_lt _ _

theorem toNat_ofNat_lt {n x : Nat} (h : x < 2 ^ n) : (BitVec.ofNat n x).toNat = x := by
  rw [BitVec.toNat_ofNat, Nat.mod_eq_of_lt h]

theorem HeaderV.toMeta_ofMeta (m : Meta) (h : HdrInRange m) : (HeaderV.ofMeta m).toMeta = m := by
  obtain ⟨h1, h2, h3, h4, h5, h6, h7, h8, h9, h10, h11, h12, h13, h14, h15⟩ := h
  cases m
  simp only at *
  simp only [HeaderV.ofMeta, HeaderV.toMeta, Rsrc1.enc_dec, Rsrc2.enc_dec, Meta.mk.injEq, true_and]
  subst h10
  refine ⟨?_, ?_, rfl, ?_, ?_, ?_, ?_, ?_, ?_, ?_, ?_, ?_, ?_, ?_, ?_⟩ <;> exact toNat_ofNat_lt (by assumption)


/-- serialise ∘ parse = id on the header region: the 88 bytes are exactly the interpreted
fields plus the ignored fields, nothing is unaccounted for -/
theorem encodeHeader_decode (d : Bytes) (h : 88 ≤ d.length) :
    encodeHeader (HeaderV.ofMeta (parseV2V3Header d)) (ignoredOfHeader d) = d := by
  unfold encodeHeader ignoredOfHeader
  rw [HeaderV.toMeta_ofMeta _ (parseV2V3Header_inRange d)]
  have e64 : ∀ o, (BitVec.ofNat 64 (u64 d o)).toNat = u64 d o := fun o => toNat_ofNat_lt (u64_lt d o)
  have e32 : ∀ o, (BitVec.ofNat 32 (u32 d o)).toNat = u32 d o := fun o => toNat_ofNat_lt (u32_lt d o)
  simp only [e64, e32]
  have hp : (BitVec.ofNat 22 (u32 d 56 / 1024)).toNat = u32 d 56 / 1024 :=
    toNat_ofNat_lt (by have := u32_lt d 56; omega)
  rw [hp]
  unfold renderHeader
  rw [flagsOf_parse, show u32 d 56 % 1024 + 1024 * (u32 d 56 / 1024) = u32 d 56 by omega]
  unfold parseV2V3Header
  simp only [le64_u64, le32_u32, le16_u16, Nat.reduceAdd, List.cons_append, List.nil_append]
  exact prefix_getD 88 d h



/-! ## V5 descriptor, typed -/

theorem fixRsrc2_enc (f : Rsrc2) (b : Bool) : fixRsrc2 f.enc b = (f.norm b).enc := by
  have h := fixRsrc2_fields f.enc b
  rw [Rsrc2.dec_enc] at h
  rw [← h, Rsrc2.enc_dec]

theorem Rsrc1.enc_gran (f : Rsrc1) :
    f.enc.toNat % 64 = f.vgprGran.toNat ∧ f.enc.toNat / 64 % 16 = f.sgprGran.toNat := by
  obtain ⟨v, s, p, u⟩ := f
  have hv := v.isLt; have hs := s.isLt; have hp := p.isLt; have hu := u.isLt
  simp only [Rsrc1.enc, BitVec.toNat_ofNat, Nat.reducePow]
  omega

/-- what the loader derives from a serialised typed descriptor, for every value -/
theorem parse_encodeKd (k : KdV) (g : KdIgnored) : parseV5KernelDescriptor (encodeKd k g) = k.derived := by
  unfold encodeKd
  rw [parse_renderKd _ ⟨k.lds.isLt, k.priv.isLt, k.kernarg.isLt, k.entry.isLt, g.reserved40.isLt, k.rsrc3.isLt,
    k.rsrc1.enc.isLt, k.rsrc2.enc.isLt⟩]
  unfold kdLoaded KdV.derived
  simp only [ofNat_toNat', fixRsrc2_enc, (Rsrc1.enc_gran k.rsrc1).1, (Rsrc1.enc_gran k.rsrc1).2]

theorem encodeKd_length (k : KdV) (g : KdIgnored) : (encodeKd k g).length = 64 := renderKd_length _

/-- a descriptor as the loader hands it back: rsrc2 normalised -/
def KdV.normalised (k : KdV) : KdV := { k with rsrc2 := k.rsrc2.norm (decide (k.kernarg.toNat > 0)) }

theorem KdV.ofMeta_derived (k : KdV) : KdV.ofMeta k.derived = k.normalised := by
  obtain ⟨a, b, c, d, e, r1, r2⟩ := k
  simp only [KdV.ofMeta, KdV.derived, KdV.normalised, ofNat_toNat', Rsrc1.dec_enc, Rsrc2.dec_enc]

theorem decodeKd_encodeKd (k : KdV) (g : KdIgnored) : decodeKd (encodeKd k g) = some k.normalised := by
  unfold decodeKd parseV5KernelDescriptor?
  rw [if_neg (by rw [encodeKd_length]; omega), Option.map_some, parse_encodeKd, KdV.ofMeta_derived]

theorem Rsrc2.norm_idem (f : Rsrc2) (b : Bool) : (f.norm b).norm b = f.norm b := by
  obtain ⟨b0, us, b6, b7, b8, b9, b10, wi, b13, b14, up⟩ := f
  simp only [Rsrc2.norm, Rsrc2.mk.injEq, true_and, and_true]
  constructor
  · cases b <;> simp
  · by_cases h : wi = 0#2
    · simp [h]
    · simp [h]

/-- which stored rsrc2 values the loader cannot tell apart -/
theorem Rsrc2.norm_eq_iff (f g : Rsrc2) (c : Bool) :
    f.norm c = g.norm c ↔
      ((c = true ∨ f.userSgpr = g.userSgpr) ∧ f.trapHandler = g.trapHandler ∧ f.wgIdZ = g.wgIdZ ∧
       f.wgInfo = g.wgInfo ∧
       (if f.vgprWorkItemId = 0#2 then 1#2 else f.vgprWorkItemId) = (if g.vgprWorkItemId = 0#2 then 1#2 else g.vgprWorkItemId) ∧
       f.excAddrWatch = g.excAddrWatch ∧ f.excMemViol = g.excMemViol ∧ f.upper = g.upper) := by
  obtain ⟨b0, us, b6, b7, b8, b9, b10, wi, b13, b14, up⟩ := f
  obtain ⟨c0, vs, c6, c7, c8, c9, c10, xi, c13, c14, vp⟩ := g
  simp only [Rsrc2.norm, Rsrc2.mk.injEq, true_and]
  cases c <;> simp

theorem fixRsrc2_eq_iff (x y : BitVec 32) (c : Bool) :
    fixRsrc2 x c = fixRsrc2 y c ↔ (Rsrc2.dec x).norm c = (Rsrc2.dec y).norm c := by
  rw [← fixRsrc2_fields, ← fixRsrc2_fields]
  constructor
  · intro h; rw [h]
  · intro h
    have := congrArg Rsrc2.enc h
    rwa [Rsrc2.enc_dec, Rsrc2.enc_dec] at this

/-- descriptor bytes the loader interprets: 28 bytes copied verbatim, and bytes 52..55
through the rewriting -/
def KdAgree (a b : Bytes) : Prop :=
  (∀ i ∈ kdFullBytes, byteAt a i = byteAt b i) ∧
  (Rsrc2.dec (BitVec.ofNat 32 (u32 a 52))).norm (decide (u32 a 8 > 0)) =
    (Rsrc2.dec (BitVec.ofNat 32 (u32 b 52))).norm (decide (u32 a 8 > 0))

theorem parseV5KernelDescriptor_eq_iff (a b : Bytes) :
    parseV5KernelDescriptor a = parseV5KernelDescriptor b ↔ KdAgree a b := by
  unfold parseV5KernelDescriptor KdAgree
  simp only [Meta.mk.injEq, true_and, BitVec.toNat_inj]
  simp only [kdFullBytes, List.range', List.cons_append, List.nil_append, List.forall_mem_cons, Nat.reduceAdd,
    List.not_mem_nil, false_imp_iff, implies_true, and_true]
  rw [← fixRsrc2_eq_iff]
  have e0 := u32_eq_iff a b 0; have e4 := u32_eq_iff a b 4; have e8 := u32_eq_iff a b 8
  have e16 := u64_eq_iff a b 16; have e16a := u32_eq_iff a b 16; have e20 := u32_eq_iff a b 20
  have e40 := u32_eq_iff a b 44; have e44 := u32_eq_iff a b 48
  simp only [Nat.reduceAdd] at e0 e4 e8 e16 e16a e20 e40 e44
  constructor
  · rintro ⟨r1, r2, r3, ka, ld, pr, en, kp, sg, vg⟩
    rw [← ka] at r2
    refine ⟨?_, r2⟩
    have := e0.mp ld; have := e4.mp pr; have := e8.mp ka; have := e16.mp en
    have := e40.mp r3; have := e44.mp r1
    have := e16a.mp (by omega); have := e20.mp (by omega)
    omega
  · rintro ⟨h, r2⟩
    have hk : u32 a 8 = u32 b 8 := e8.mpr (by omega)
    have h44 : u32 a 48 = u32 b 48 := e44.mpr (by omega)
    rw [← hk, ← h44]
    exact ⟨rfl, r2, e40.mpr (by omega), rfl, e0.mpr (by omega), e4.mpr (by omega),
      e16.mpr ⟨e16a.mpr (by omega), e20.mpr (by omega)⟩, rfl, rfl, rfl⟩



theorem kd_u32_12 (f : KdFields) (h : f.reserved12 < 4294967296) : u32 (renderKd f) 12 = f.reserved12 := by read_kd
theorem kd_u64_24 (f : KdFields) (h : f.reserved24 < 18446744073709551616) : u64 (renderKd f) 24 = f.reserved24 := by read_kd
theorem kd_u64_32 (f : KdFields) (h : f.reserved32 < 18446744073709551616) : u64 (renderKd f) 32 = f.reserved32 := by read_kd
theorem kd_u32_40' (f : KdFields) (h : f.reserved40 < 4294967296) : u32 (renderKd f) 40 = f.reserved40 := by read_kd
theorem kd_u16_56 (f : KdFields) (h : f.props < 65536) : u16 (renderKd f) 56 = f.props := by read_kd
theorem kd_u16_58 (f : KdFields) (h : f.preload < 65536) : u16 (renderKd f) 58 = f.preload := by read_kd
theorem kd_u32_60 (f : KdFields) (h : f.reserved60 < 4294967296) : u32 (renderKd f) 60 = f.reserved60 := by read_kd

theorem ignoredOfKd_encodeKd (k : KdV) (g : KdIgnored) : ignoredOfKd (encodeKd k g) = g := by
  obtain ⟨a, b, c, d, e, f, h⟩ := g
  unfold ignoredOfKd encodeKd
  rw [kd_u32_12, kd_u64_24, kd_u64_32, kd_u32_40', kd_u16_56, kd_u16_58, kd_u32_60]
  · simp only [ofNat_toNat']
  all_goals exact BitVec.isLt _

/-! ## the accessor methods return the typed fields -/

theorem accessors_are_fields (r1 : Rsrc1) (r2 : Rsrc2) (m : Meta) (h1 : m.rsrc1 = r1.enc.toNat) (h2 : m.rsrc2 = r2.enc.toNat) :
    workItemVgprCount m = r1.vgprGran.toNat ∧ wavefrontSgprCount m = r1.sgprGran.toNat ∧
    priority m = r1.priority.toNat ∧ enPrivSegWaveByteOffset m = r2.privSegWaveOffset ∧
    userSgprCount m = r2.userSgpr.toNat ∧ enWorkGroupIDX m = r2.wgIdX ∧ enWorkGroupIDY m = r2.wgIdY ∧
    enWorkGroupIDZ m = r2.wgIdZ ∧ enWorkGroupInfo m = r2.wgInfo ∧ enVgprWorkItemID m = r2.vgprWorkItemId.toNat ∧
    enExceptionAddressWatch m = r2.excAddrWatch ∧ enExceptionMemoryViolation m = r2.excMemViol := by
  obtain ⟨v, s, p, u⟩ := r1
  obtain ⟨b0, us, b6, b7, b8, b9, b10, wi, b13, b14, up⟩ := r2
  have hv := v.isLt; have hs := s.isLt; have hp := p.isLt; have hu := u.isLt
  have g1 := us.isLt; have g2 := wi.isLt; have g3 := up.isLt
  have := Bool.toNat_le b0; have := Bool.toNat_le b6; have := Bool.toNat_le b7; have := Bool.toNat_le b8
  have := Bool.toNat_le b9; have := Bool.toNat_le b10; have := Bool.toNat_le b13; have := Bool.toNat_le b14
  simp only [workItemVgprCount, wavefrontSgprCount, priority, enPrivSegWaveByteOffset, userSgprCount, enWorkGroupIDX,
    enWorkGroupIDY, enWorkGroupIDZ, enWorkGroupInfo, enVgprWorkItemID, enExceptionAddressWatch,
    enExceptionMemoryViolation, extractBits, h1, h2, Rsrc1.enc, Rsrc2.enc, BitVec.toNat_ofNat, Nat.reducePow,
    Nat.reduceSub, Nat.reduceAdd, Nat.div_one]
  have nb : ∀ (x : Nat) (b : Bool), x = b.toNat → (x != 0) = b := by
    intro x b h; cases b <;> simp_all
  refine ⟨by omega, by omega, by omega, nb _ _ (by omega), by omega, nb _ _ (by omega), nb _ _ (by omega),
    nb _ _ (by omega), nb _ _ (by omega), by omega, nb _ _ (by omega), nb _ _ (by omega)⟩



/-! ## whole-buffer loads -/

theorem isV2V3Header_facts {d : Bytes} (h : isV2V3Header d = true) : 256 ≤ d.length ∧ u64 d 16 = 256 := by
  unfold isV2V3Header at h
  split at h
  · cases h
  · split at h
    · cases h
    · split at h
      · cases h
      · split at h
        · cases h
        · rename_i h1 _ _ h4
          simp only [bne_iff_ne, ne_eq, Decidable.not_not] at h4
          exact ⟨by omega, h4⟩

theorem fromEntireText_header {d : Bytes} (h : isV2V3Header d = true) :
    fromEntireText d = .ok { data := d.drop 256, md := { parseV2V3Header d with entry := 0 }, version := 3, sym := none } := by
  obtain ⟨hl, _⟩ := isV2V3Header_facts h
  unfold fromEntireText parseV2V3Header?
  rw [if_pos (by simp [h, hl]), if_neg (by omega)]

/-- **two recognised headers load equal iff they agree on every interpreted header byte and
on everything after byte 256** (bytes 88..255 and the ignored fields are free) -/
theorem fromEntireText_eq_iff (a b : Bytes) (ha : isV2V3Header a = true) (hb : isV2V3Header b = true) :
    fromEntireText a = fromEntireText b ↔ HdrAgree a b ∧ a.drop 256 = b.drop 256 := by
  rw [fromEntireText_header ha, fromEntireText_header hb, ← parseV2V3Header_eq_iff]
  have ea := (isV2V3Header_facts ha).2
  have eb := (isV2V3Header_facts hb).2
  have hea : (parseV2V3Header a).entry = 256 := ea
  have heb : (parseV2V3Header b).entry = 256 := eb
  generalize parseV2V3Header a = ma at *
  generalize parseV2V3Header b = mb at *
  cases ma; cases mb
  simp only at hea heb
  subst hea; subst heb
  simp only [Outcome.ok.injEq, Loaded.mk.injEq, Meta.mk.injEq, and_true, true_and]
  constructor
  · rintro ⟨h1, h2⟩; exact ⟨h2, h1⟩
  · rintro ⟨h1, h2⟩; exact ⟨h2, h1⟩


end C13
