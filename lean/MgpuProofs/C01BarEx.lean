import MgpuProofs.C01Step
import MgpuProofs.C01Bar
/-! # C01 — `S_BARRIER` as a step, and the smallest work-group that goes through a barrier round

`step_barrier`: the loop body of `runWfUntilBarrier` on `S_BARRIER` (advance the PC, stop with `.barrier`).
`barProg` = `s_barrier; s_endpgm`: every wavefront of ANY work-group running it has a `Phase1` and a `Phase2`
description, so the hypotheses of `runWG_barrier_round` are met by a real program on the emulator model
(two passes over the wavefronts, `resolveBarrier` in between). -/
set_option maxRecDepth 100000
namespace C01
namespace Emu
open C03V (St)

/-- S_BARRIER -/
theorem step_barrier (P : Program) (hP : P.cdna3 = false) (base k : Nat) (st : St) (hpc : st.pc = base + k)
    (hd : DecV ((P.code.drop k).take 8) 4 10 4) :
    step P base st = .ok ({ st with pc := base + k + 4 }, .barrier) := by
  obtain ⟨i, hdec, hift, hiop, hisz⟩ := hd
  unfold step
  rw [hpc, if_neg (by omega), fetch_at, hP]
  simp only [hdec]
  simp only [hift, hisz, hiop]
  rfl

namespace BarEx

/-- `s_barrier; s_endpgm` -/
def barProg : Program := ⟨[0x00, 0x00, 0x8a, 0xbf, 0x00, 0x00, 0x81, 0xbf], false⟩

theorem dec0 : DecV ((barProg.code.drop 0).take 8) 4 10 4 := DecV_of_ok (by decide +kernel)
theorem dec4 : DecV ((barProg.code.drop 4).take 8) 4 1 4 := DecV_of_ok (by decide +kernel)

/-- what phase 1 leaves: the wavefront stands behind the barrier -/
def Mid (base : Nat) (_ w1 : Wave) : Prop := w1.st.pc = base + 4

theorem phase1 (base fuel : Nat) (w : Wave) (hc : w.completed = false) (hpc : w.st.pc = base) :
    Phase1 barProg base (fuel + 1) (fun _ => True) w [] (Mid base w) := by
  refine ⟨hc, fun m l _ => ?_⟩
  have hs := step_barrier barProg rfl base 0 { w.st with mem := m, lds := l } hpc dec0
  have hrun : runWave barProg base (fuel + 1) w m l =
      .ok ({ st := { w.st with pc := base + 0 + 4, mem := [], lds := [] }, completed := false, atBarrier := true }, m, l) := by
    simp only [runWave, hc, Bool.false_eq_true, if_false, runWf, hs]
    rfl
  exact ⟨_, m, l, hrun, rfl, rfl, (by show base + 0 + 4 = base + 4; omega), rfl, trivial, rfl⟩

theorem phase2 (base fuel : Nat) (L : Nat → Nat) (w w1 : Wave) (hq : Mid base w w1) (hc : w1.completed = false) :
    Phase2 barProg base (fuel + 1) (fun _ => True) L { w1 with atBarrier := false } [] := by
  intro m l _ hl
  have hs := step_endpgm barProg rfl base 4 { w1.st with mem := m, lds := l } hq dec4
  have hrun : runWave barProg base (fuel + 1) { w1 with atBarrier := false } m l =
      .ok ({ st := { w1.st with pc := base + 4 + 4, mem := [], lds := [] }, completed := true, atBarrier := false }, m, l) := by
    simp only [runWave, hc, Bool.false_eq_true, if_false, runWf, hs]
    rfl
  exact ⟨_, m, l, hrun, rfl, rfl, trivial, hl⟩

end BarEx
end Emu
end C01
