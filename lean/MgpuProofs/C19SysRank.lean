import MgpuProofs.C19SysStep
/-! # C19 — the closed system: the progress measure (definitions and shared lemmas)

`rank s = (R s, L s)`, ordered lexicographically.
* `R s` = the number of driver-level steps the requests known to the driver still need: for the request
  being served the phase changes still to come (read off the five counters) plus two per page still to be
  migrated, for a request waiting in the MMU port all of them.
* `L s` = every message in flight weighted by the hops it, and everything it will spawn inside its command
  processor, still has to make: the per-GPU measure `gmeas` (tokens 5/4/3, queued commands `wCmd`, fan-outs
  to come `pot`, answers 2), the driver's queues, the hop-weighted measure of the two-controller world
  (`measure`), 5 per request in flight there, 4 per completion on its way back, the answer to the MMU.
Every move other than a new request of the MMU leaves `rank` unchanged or decreases it; it cannot grow. -/
namespace C19
namespace SY
open CP (Cp Cls K Sub Cmd Ans)
open DR (Drv MmuReq MigCmd)

/-- weight of the controller leg of migrate command `id`: what its request adds to the world's measure
    (`24·size/64 + 7`), the request in flight (5) and one to spare -/
def wmOf (d : Drv) (id : Nat) : Nat :=
  match d.migLog.find? (·.id == id) with
  | some m => 24 * (m.size / unit) + 13
  | none => 0

def sumN (l : List Nat) : Nat := l.sum

/-- the GPUs -/
def gsum (s : Sys) : Nat := sumN ((List.range s.drv.ngpu).map fun g => gmeas (wmOf s.drv) (s.cp g) (s.cm g))

/-- a command queued in the driver for GPU `e.1` -/
def wq (s : Sys) (e : Nat × Cmd) : Nat := wCmd (s.cp e.1) (wmOf s.drv) e.2

def drvL (s : Sys) : Nat :=
  sumN (s.drv.toSend.map fun e => wq s e + 2) + sumN (s.drv.gpuOut.map fun e => wq s e + 1) + s.drv.gpuIn.length +
  (if s.drv.toMMU.isSome then 2 else 0) + s.drv.mmuOut.length

def L (s : Sys) : Nat :=
  drvL s + gsum s + measure s.w.sys + 5 * s.w.live.length + 4 * (s.back 0 + s.back 1)

def pagesN (d : Drv) (r : MmuReq) : Nat := (migOrder d.ngpu r.map).length

/-- driver-level steps still to come for the request being served -/
def curRem (d : Drv) : Nat :=
  match d.cur with
  | none => 0
  | some r =>
    if d.drain > 0 then 2 * pagesN d r + 5
    else if d.shoot > 0 then 2 * pagesN d r + 4
    else if d.mig > 0 then 2 * d.toCP.length + (if d.one then 1 else 0) + 2
    else if d.restart > 0 then 2
    else if d.rdma > 0 then 1
    else 0

def R (s : Sys) : Nat := curRem s.drv + sumN (s.drv.mmuIn.map fun r => 2 * pagesN s.drv r + 7)

def rank (s : Sys) : Nat × Nat := (R s, L s)

def LexLt (a b : Nat × Nat) : Prop := a.1 < b.1 ∨ (a.1 = b.1 ∧ a.2 < b.2)
def LexLe (a b : Nat × Nat) : Prop := a.1 < b.1 ∨ (a.1 = b.1 ∧ a.2 ≤ b.2)

theorem LexLt.le {a b : Nat × Nat} (h : LexLt a b) : LexLe a b := by
  rcases h with h | ⟨h1, h2⟩
  · exact Or.inl h
  · exact Or.inr ⟨h1, Nat.le_of_lt h2⟩

theorem LexLe.refl (a : Nat × Nat) : LexLe a a := Or.inr ⟨rfl, Nat.le_refl _⟩

theorem LexLe.trans {a b c : Nat × Nat} (h1 : LexLe a b) (h2 : LexLe b c) : LexLe a c := by
  unfold LexLe at *; omega

theorem LexLt.trans_le {a b c : Nat × Nat} (h1 : LexLt a b) (h2 : LexLe b c) : LexLt a c := by
  unfold LexLe LexLt at *; omega

theorem LexLe.trans_lt {a b c : Nat × Nat} (h1 : LexLe a b) (h2 : LexLt b c) : LexLt a c := by
  unfold LexLe LexLt at *; omega

/-- the lexicographic order on pairs of naturals is well founded -/
theorem lexLt_wf : WellFounded LexLt := by
  have : ∀ n m : Nat, Acc LexLt (n, m) := by
    intro n
    induction n using Nat.strongRecOn with
    | _ n ihn =>
      intro m
      induction m using Nat.strongRecOn with
      | _ m ihm =>
        constructor
        intro ⟨a, b⟩ hab
        rcases hab with h | ⟨h1, h2⟩
        · exact ihn a h b
        · simp only at h1 h2
          subst h1
          exact ihm b h2
  exact ⟨fun ⟨n, m⟩ => this n m⟩

/-- the driver has nothing to do for the MMU: no request handled or waiting, no answer on its way -/
def Quiescent (s : Sys) : Prop :=
  s.drv.handling = false ∧ s.drv.mmuIn = [] ∧ s.drv.toMMU = none ∧ s.drv.mmuOut = []

def Mv.isSend : Mv → Bool
  | .mmuSend _ => true
  | _ => false

/-! ## shared lemmas -/

theorem wFan_same {c c' : Cp} (h : SameCfg c c') : wFan c' = wFan c := by
  obtain ⟨a1, a2, a3, a4, a5, a6, a7, _⟩ := h
  simp only [wFan, Cp.nCache, a1, a2, a3, a4, a5, a6, a7]

theorem wCmd_same {c c' : Cp} (h : SameCfg c c') (wm : Nat → Nat) (x : Cmd) : wCmd c' wm x = wCmd c wm x := by
  cases x <;> simp only [wCmd, wFan_same h]

theorem sumN_map_upd (f f' : Nat → Nat) (n g : Nat) (hg : g < n) (h : ∀ x, x ≠ g → f' x = f x) :
    sumN ((List.range n).map f') + f g = sumN ((List.range n).map f) + f' g := by
  induction n with
  | zero => omega
  | succ n ih =>
    simp only [sumN, List.range_succ, List.map_append, List.map_cons, List.map_nil, List.sum_append,
      List.sum_cons, List.sum_nil, Nat.add_zero] at ih ⊢
    by_cases e : g = n
    · subst e
      have : (List.range g).map f' = (List.range g).map f := by
        apply List.map_congr_left
        intro x hx
        exact h x (by have := List.mem_range.mp hx; omega)
      rw [this]; omega
    · have := ih (by omega)
      rw [h n (fun x => e x.symm)]
      omega

/-- the sum over the GPUs when only GPU `g < ngpu` changes (same driver) -/
theorem gsum_upd (s s' : Sys) (g : Nat) (hg : g < s.drv.ngpu) (hd : s'.drv = s.drv)
    (hcp : ∀ x, x ≠ g → s'.cp x = s.cp x) (hcm : ∀ x, x ≠ g → s'.cm x = s.cm x) :
    gsum s' + gmeas (wmOf s.drv) (s.cp g) (s.cm g) = gsum s + gmeas (wmOf s.drv) (s'.cp g) (s'.cm g) := by
  unfold gsum
  rw [hd]
  exact sumN_map_upd (fun g => gmeas (wmOf s.drv) (s.cp g) (s.cm g)) (fun g => gmeas (wmOf s.drv) (s'.cp g) (s'.cm g))
    _ g hg (fun x hx => by simp only [hcp x hx, hcm x hx])

/-- an idle GPU weighs nothing -/
theorem gmeas_idle {rq gq : Bool} {c : Cp} {m : Comps} (wm : Nat → Nat) (h : GIdle rq gq c m) : gmeas wm c m = 0 := by
  obtain ⟨a, b, c5, d, e⟩ := h.pe
  have hc := h.cp
  have f : ∀ {α : Type} (p : Cp → α), p c = p (base c) := fun p => congrArg p hc
  have e1 := f Cp.drvIn; have e2 := f Cp.rdmaOut; have e3 := f Cp.rdmaIn; have e4 := f Cp.cuOut
  have e5 := f Cp.cuIn; have e6 := f Cp.atOut; have e7 := f Cp.atIn; have e8 := f Cp.cacheOut
  have e9 := f Cp.cacheIn; have e10 := f Cp.tlbOut; have e11 := f Cp.tlbIn; have e12 := f Cp.pmcOut
  have e13 := f Cp.pmcIn; have e14 := f Cp.drvOut; have e15 := f Cp.shoot; have e16 := f Cp.numCU
  have e17 := f Cp.numATF; have e18 := f Cp.numCache; have e19 := f Cp.numTLB; have e20 := f Cp.numATR
  simp only [base] at e1 e2 e3 e4 e5 e6 e7 e8 e9 e10 e11 e12 e13 e14 e15 e16 e17 e18 e19 e20
  simp [gmeas, pot, wTok, e1, e2, e3, e4, e5, e6, e7, e8, e9, e10, e11, e12, e13, e14, e15, e18, e19,
    e20, a, b, c5, d, e]

end SY
end C19
