import MgpuProofs.C01Copy
import MgpuProofs.C01Track
/-! # C01 — one wavefront of `copyKernel`, symbolically executed

`wave_spec`: a wavefront of work-group `n` with EXEC mask `msk`, started on a memory that agrees with the
launch image `f0` outside the destination range, runs to `S_ENDPGM` (through the early exit at offset 60
when no lane is in range) and its effect on memory is: every lane `l` with `msk.testBit l` and global id
`g = 64·n + l < N` stores the dword it loaded from `src + 4g` at `dst + 4g`; nothing else is written. -/
set_option linter.unusedSimpArgs false
set_option linter.unusedVariables false
set_option maxRecDepth 100000
namespace C01.Emu.Copy
open C03V

/-- addresses and sizes of one launch of the copy kernel -/
structure Cfg where
  co : Nat
  ka : Nat
  pa : Nat
  src : Nat
  dst : Nat
  N : Nat
  G : Nat

/-- number of elements copied -/
def Cfg.K (c : Cfg) : Nat := min c.G c.N
/-- the destination range -/
def Cfg.inDst (c : Cfg) (a : Nat) : Prop := c.dst ≤ a ∧ a < c.dst + 4 * c.K

structure Cfg.Valid (c : Cfg) : Prop where
  n31 : c.N < 2 ^ 31
  g31 : c.G ≤ 2 ^ 31
  srcEnd : c.src + 4 * c.K ≤ 2 ^ 64
  dstEnd : c.dst + 4 * c.K ≤ 2 ^ 64
  kaEnd : c.ka + 32 ≤ 2 ^ 64
  paEnd : c.pa + 8 ≤ 2 ^ 64
  coEnd : c.co + 140 < 2 ^ 64
  /-- SMEM ignores the two low address bits: the packet and the kernel arguments are dword-aligned
      (the driver allocates them page-aligned) -/
  ka4 : c.ka % 4 = 0
  pa4 : c.pa % 4 = 0
  /-- the destination range is disjoint from everything the kernel reads -/
  dSrc : ∀ a, c.inDst a → ¬ (c.src ≤ a ∧ a < c.src + 4 * c.K)
  dKa : ∀ a, c.inDst a → ¬ (c.ka ≤ a ∧ a < c.ka + 32)
  dPa : ∀ a, c.inDst a → ¬ (c.pa + 4 ≤ a ∧ a < c.pa + 8)

/-- what the kernel reads from the dispatch packet and the kernel-argument segment -/
structure Img (c : Cfg) (f : Nat → Nat) : Prop where
  wg : rd32 f (c.pa + 4) % 65536 = 64
  n : rd32 f (c.ka + 16) % 2 ^ 32 = c.N
  goff : rd32 f (c.ka + 24) % 2 ^ 32 = 0
  srcLo : rd32 f c.ka % 2 ^ 32 = c.src % 2 ^ 32
  srcHi : rd32 f (c.ka + 4) % 2 ^ 32 = c.src / 2 ^ 32
  dstLo : rd32 f (c.ka + 8) % 2 ^ 32 = c.dst % 2 ^ 32
  dstHi : rd32 f (c.ka + 12) % 2 ^ 32 = c.dst / 2 ^ 32

/-- `m` agrees with `f0` outside the destination range -/
def Agree (c : Cfg) (f0 m : Nat → Nat) : Prop := ∀ a, ¬ c.inDst a → m a = f0 a

theorem rd32_agree (c : Cfg) (f0 m : Nat → Nat) (h : Agree c f0 m) (a : Nat)
    (hout : ∀ j, j < 4 → ¬ c.inDst (a + j)) : rd32 m a = rd32 f0 a := by
  unfold rd32
  rw [h a (hout 0 (by decide)), h (a + 1) (hout 1 (by decide)), h (a + 2) (hout 2 (by decide)),
    h (a + 3) (hout 3 (by decide))]

theorem agree_ka (c : Cfg) (hv : c.Valid) (f0 m : Nat → Nat) (h : Agree c f0 m) (off : Nat) (hoff : off + 4 ≤ 32) :
    rd32 m (c.ka + off) = rd32 f0 (c.ka + off) := by
  apply rd32_agree c f0 m h
  intro j hj hin
  exact hv.dKa _ hin ⟨by omega, by omega⟩

theorem agree_pa (c : Cfg) (hv : c.Valid) (f0 m : Nat → Nat) (h : Agree c f0 m) :
    rd32 m (c.pa + 4) = rd32 f0 (c.pa + 4) := by
  apply rd32_agree c f0 m h
  intro j hj hin
  exact hv.dPa _ hin ⟨by omega, by omega⟩

theorem split32 (x : Nat) : x % 2 ^ 32 + x / 2 ^ 32 * 2 ^ 32 = x := by
  rw [Nat.mul_comm]; exact Nat.mod_add_div x (2 ^ 32)

theorem pcadd (c a b d : Nat) (h : a + b = d) : c + a + b = c + d := by omega

theorem Cfg.Valid.pa4' {c : Cfg} (hv : c.Valid) : (c.pa + 4) % 4 = 0 := by have := hv.pa4; omega
theorem Cfg.Valid.ka16' {c : Cfg} (hv : c.Valid) : (c.ka + 16) % 4 = 0 := by have := hv.ka4; omega
theorem Cfg.Valid.ka24' {c : Cfg} (hv : c.Valid) : (c.ka + 24) % 4 = 0 := by have := hv.ka4; omega
theorem Cfg.Valid.ka0' {c : Cfg} (hv : c.Valid) : (c.ka + 0) % 4 = 0 := by have := hv.ka4; omega
theorem Cfg.Valid.pa8 {c : Cfg} (hv : c.Valid) : c.pa + 4 + 4 ≤ 2 ^ 64 := by have := hv.paEnd; omega
theorem Cfg.Valid.ka20 {c : Cfg} (hv : c.Valid) : c.ka + 16 + 4 ≤ 2 ^ 64 := by have := hv.kaEnd; omega
theorem Cfg.Valid.ka32 {c : Cfg} (hv : c.Valid) : c.ka + 24 + 8 ≤ 2 ^ 64 := by have := hv.kaEnd; omega
theorem Cfg.Valid.ka16 {c : Cfg} (hv : c.Valid) : c.ka + 0 + 16 ≤ 2 ^ 64 := by have := hv.kaEnd; omega
theorem Cfg.Valid.co136 {c : Cfg} (hv : c.Valid) : c.co + 60 + 76 < 18446744073709551616 := by
  have := hv.coEnd; omega

theorem mod_mod_16 (x : Nat) : x % 2 ^ 32 % 65536 = x % 65536 := by omega

theorem mul64 (n : Nat) (h : 64 * n + 64 ≤ 2 ^ 31) : n * 64 % 4294967296 = 64 * n := by omega

theorem add_lane (n l : Nat) (h : 64 * n + 64 ≤ 2 ^ 31) (hl : l < 64) :
    (64 * n % 2 ^ 32 + l % 2 ^ 32) % 2 ^ 32 = 64 * n + l := by omega

theorem add_zero_lane (x : Nat) (h : x < 2 ^ 31) : (0 % 2 ^ 32 + x % 2 ^ 32) % 2 ^ 32 = x := by omega

/-- `k` successive non-terminating steps -/
def stepsTo (P : Program) (base : Nat) : Nat → St → St → Prop
  | 0, st, st' => st = st'
  | k + 1, st, st' => ∃ m, step P base st = .ok (m, .next) ∧ stepsTo P base k m st'

theorem stepsTo_one {P : Program} {base : Nat} {st m : St} (h : step P base st = .ok (m, .next)) :
    stepsTo P base 1 st m := ⟨m, h, rfl⟩

theorem stepsTo_trans {P : Program} {base : Nat} {a b : Nat} {s1 s2 s3 : St}
    (h1 : stepsTo P base a s1 s2) (h2 : stepsTo P base b s2 s3) : stepsTo P base (b + a) s1 s3 := by
  induction a generalizing s1 with
  | zero => cases h1; exact h2
  | succ a ih =>
    obtain ⟨m, hm, hr⟩ := h1
    exact ⟨m, hm, ih hr⟩

theorem runWf_steps {P : Program} {base : Nat} {k : Nat} {st st' : St} (h : stepsTo P base k st st') (f : Nat) :
    runWf P base (f + k) st = runWf P base f st' := by
  induction k generalizing st with
  | zero => cases h; rfl
  | succ k ih =>
    obtain ⟨m, hm, hr⟩ := h
    show runWf P base (f + k + 1) st = _
    simp only [runWf, hm]
    exact ih hr

theorem lane_lt (n l : Nat) (h : 64 * n + 64 ≤ 2 ^ 31) (hl : l < 64) : 64 * n + l < 2 ^ 31 := by omega
theorem lane_lt32 (n l : Nat) (h : 64 * n + 64 ≤ 2 ^ 31) (hl : l < 64) : 64 * n + l < 2 ^ 32 := by omega
theorem n_lt32 (c : Cfg) (hv : c.Valid) : c.N < 2 ^ 32 := by have := hv.n31; omega

theorem testBit_mask (co : Nat → Bool) (l : Nat) : (maskUpTo co 64).testBit l = (decide (l < 64) && co l) :=
  testBit_maskUpTo co 64 l

theorem blockA (c : Cfg) (hv : c.Valid) (f0 : Nat → Nat) (himg : Img c f0) (n msk : Nat)
    (hn : 64 * n + 64 ≤ 2 ^ 31) (hmsk : msk < 18446744073709551616)
    (st : St) (t : T) (h : Tracks st t) (hpc : t.pc = c.co) (hexec : t.exec = msk)
    (hs4 : t.s4 = c.pa % 2 ^ 32) (hs5 : t.s5 = c.pa / 2 ^ 32) (hs6 : t.s6 = c.ka % 2 ^ 32)
    (hs7 : t.s7 = c.ka / 2 ^ 32) (hs8 : t.s8 = n) (hv0 : ∀ l, l < 64 → t.v0 l = l) (hag : Agree c f0 t.mem) :
    ∃ st', stepsTo P c.co 12 st st' ∧ Tracks st'
      { pc := if maskUpTo (fun l => msk.testBit l && decide (64 * n + l < c.N)) 64 &&& msk = 0 then c.co + 136 else c.co + 64,
        exec := maskUpTo (fun l => msk.testBit l && decide (64 * n + l < c.N)) 64 &&& msk,
        vcc := maskUpTo (fun l => msk.testBit l && decide (64 * n + l < c.N)) 64,
        s0 := msk % 4294967296, s1 := msk / 4294967296 % 4294967296, s2 := c.N, s3 := t.s3, s4 := t.s4, s5 := t.s5,
        s6 := t.s6, s7 := t.s7, s8 := 64 * n,
        v0 := fun l => if msk.testBit l = true then 64 * n + l else l,
        v1 := t.v1, v2 := t.v2, v3 := t.v3, mem := t.mem } := by
  have hpa : c.pa % 2 ^ 32 + c.pa / 2 ^ 32 * 2 ^ 32 + 4 = c.pa + 4 := by rw [split32]
  have hka16 : c.ka % 2 ^ 32 + c.ka / 2 ^ 32 * 2 ^ 32 + 16 = c.ka + 16 := by rw [split32]
  have hka24 : c.ka % 2 ^ 32 + c.ka / 2 ^ 32 * 2 ^ 32 + 24 = c.ka + 24 := by rw [split32]
  have hR1 : rd32 t.mem (c.pa + 4) % 2 ^ 32 % 65536 = 64 := by
    rw [mod_mod_16, agree_pa c hv f0 t.mem hag, himg.wg]
  have hR2 : rd32 t.mem (c.ka + 16) % 2 ^ 32 = c.N := by rw [agree_ka c hv f0 t.mem hag 16 (by decide), himg.n]
  have hR3 : rd32 t.mem (c.ka + 24) % 2 ^ 32 = 0 := by rw [agree_ka c hv f0 t.mem hag 24 (by decide), himg.goff]
  obtain ⟨s1, e1, h1⟩ := lift_smem1 P rfl c.co 0 0 0 4 4 (by decide) (by decide) dec0 _
    (fun st => by rw [wn0]; exact ex0 st) st t h (by rw [hpc]; rfl) (c.pa + 4) _ _ hs4 hs5 hpa hv.pa4' hv.pa8
  simp only [T.setS_0, T.s_0, T.setS_1, T.s_1, T.setS_2, T.s_2, T.setS_3, T.s_3, T.setS_4, T.s_4, T.setS_5, T.s_5, T.setS_6, T.s_6, T.setS_7, T.s_7, T.setS_8, T.s_8, T.setV_0, T.v_0, T.setV_1, T.v_1, T.setV_2, T.v_2, T.setV_3, T.v_3, T.setPc_eq, T.setVcc_eq, T.setExec_eq, T.setMem_eq, Nat.zero_add] at h1
  obtain ⟨s2, e2, h2⟩ := lift_wait P rfl c.co 8 _ dec8 s1 _ h1 (pcadd c.co 0 8 8 rfl)
  simp only [T.setS_0, T.s_0, T.setS_1, T.s_1, T.setS_2, T.s_2, T.setS_3, T.s_3, T.setS_4, T.s_4, T.setS_5, T.s_5, T.setS_6, T.s_6, T.setS_7, T.s_7, T.setS_8, T.s_8, T.setV_0, T.v_0, T.setV_1, T.v_1, T.setV_2, T.v_2, T.setV_3, T.v_3, T.setPc_eq, T.setVcc_eq, T.setExec_eq, T.setMem_eq, Nat.zero_add] at h2
  obtain ⟨s3, e3, h3⟩ := lift_and_ffff P rfl c.co 12 dec12 s2 _ h2 (pcadd c.co 8 4 12 rfl)
  simp only [T.setS_0, T.s_0, T.setS_1, T.s_1, T.setS_2, T.s_2, T.setS_3, T.s_3, T.setS_4, T.s_4, T.setS_5, T.s_5, T.setS_6, T.s_6, T.setS_7, T.s_7, T.setS_8, T.s_8, T.setV_0, T.v_0, T.setV_1, T.v_1, T.setV_2, T.v_2, T.setV_3, T.v_3, T.setPc_eq, T.setVcc_eq, T.setExec_eq, T.setMem_eq, Nat.zero_add] at h3
  rw [hR1] at h3
  obtain ⟨s4, e4, h4⟩ := lift_mul P rfl c.co 20 8 8 0 (by decide) (by decide) (by decide) dec20 s3 _ h3 (pcadd c.co 12 8 20 rfl)
  simp only [T.setS_0, T.s_0, T.setS_1, T.s_1, T.setS_2, T.s_2, T.setS_3, T.s_3, T.setS_4, T.s_4, T.setS_5, T.s_5, T.setS_6, T.s_6, T.setS_7, T.s_7, T.setS_8, T.s_8, T.setV_0, T.v_0, T.setV_1, T.v_1, T.setV_2, T.v_2, T.setV_3, T.v_3, T.setPc_eq, T.setVcc_eq, T.setExec_eq, T.setMem_eq, Nat.zero_add] at h4
  rw [hs8, mul64 n hn] at h4
  obtain ⟨s5, e5, h5⟩ := lift_smem1 P rfl c.co 24 0 2 6 16 (by decide) (by decide) dec24 _
    (fun st => by rw [wn24]; exact ex24 st) s4 _ h4 (pcadd c.co 20 4 24 rfl) (c.ka + 16) _ _ hs6 hs7 hka16 hv.ka16' hv.ka20
  simp only [T.setS_0, T.s_0, T.setS_1, T.s_1, T.setS_2, T.s_2, T.setS_3, T.s_3, T.setS_4, T.s_4, T.setS_5, T.s_5, T.setS_6, T.s_6, T.setS_7, T.s_7, T.setS_8, T.s_8, T.setV_0, T.v_0, T.setV_1, T.v_1, T.setV_2, T.v_2, T.setV_3, T.v_3, T.setPc_eq, T.setVcc_eq, T.setExec_eq, T.setMem_eq, Nat.zero_add] at h5
  rw [hR2] at h5
  obtain ⟨s6, e6, h6⟩ := lift_smem2 P rfl c.co 32 1 0 6 24 (by decide) (by decide) dec32 _
    (fun st => by rw [wn32]; exact ex32 st) s5 _ h5 (pcadd c.co 24 8 32 rfl) (c.ka + 24) _ _ hs6 hs7 hka24 hv.ka24' hv.ka32
  simp only [T.setS_0, T.s_0, T.setS_1, T.s_1, T.setS_2, T.s_2, T.setS_3, T.s_3, T.setS_4, T.s_4, T.setS_5, T.s_5, T.setS_6, T.s_6, T.setS_7, T.s_7, T.setS_8, T.s_8, T.setV_0, T.v_0, T.setV_1, T.v_1, T.setV_2, T.v_2, T.setV_3, T.v_3, T.setPc_eq, T.setVcc_eq, T.setExec_eq, T.setMem_eq, Nat.zero_add] at h6
  rw [hR3] at h6
  obtain ⟨s7, e7, h7⟩ := lift_vadd P rfl c.co 40 8 0 0 (by decide) (by decide) (by decide) dec40
    (fun st => by rw [wn40]; exact ex40 st) s6 _ h6 (pcadd c.co 32 8 40 rfl)
  simp only [T.setS_0, T.s_0, T.setS_1, T.s_1, T.setS_2, T.s_2, T.setS_3, T.s_3, T.setS_4, T.s_4, T.setS_5, T.s_5, T.setS_6, T.s_6, T.setS_7, T.s_7, T.setS_8, T.s_8, T.setV_0, T.v_0, T.setV_1, T.v_1, T.setV_2, T.v_2, T.setV_3, T.v_3, T.setPc_eq, T.setVcc_eq, T.setExec_eq, T.setMem_eq, Nat.zero_add] at h7
  rw [hexec] at h7
  replace h7 := h7.congr (t' :=
    { pc := c.co + 44, exec := msk, vcc := maskUpTo (fun l => msk.testBit l && decide (64 * n % 2 ^ 32 + t.v0 l % 2 ^ 32 ≥ 2 ^ 32)) 64, s0 := 0,
      s1 := rd32 t.mem (c.ka + 24 + 4) % 2 ^ 32, s2 := c.N, s3 := t.s3, s4 := t.s4, s5 := t.s5, s6 := t.s6, s7 := t.s7,
      s8 := 64 * n, v0 := fun l => if msk.testBit l = true then 64 * n + l else l,
      v1 := t.v1, v2 := t.v2, v3 := t.v3, mem := t.mem })
    (pcadd c.co 40 4 44 rfl) rfl rfl rfl rfl rfl rfl rfl rfl rfl rfl rfl
    (by
      intro l hl
      show (if msk.testBit l = true then (64 * n % 2 ^ 32 + t.v0 l % 2 ^ 32) % 2 ^ 32 else t.v0 l) = _
      rw [hv0 l hl, add_lane n l hn hl])
    (fun _ _ => rfl) (fun _ _ => rfl) (fun _ _ => rfl) (fun _ => rfl)
  obtain ⟨s8, e8, h8⟩ := lift_wait P rfl c.co 44 _ dec44 s7 _ h7 rfl
  simp only [T.setS_0, T.s_0, T.setS_1, T.s_1, T.setS_2, T.s_2, T.setS_3, T.s_3, T.setS_4, T.s_4, T.setS_5, T.s_5, T.setS_6, T.s_6, T.setS_7, T.s_7, T.setS_8, T.s_8, T.setV_0, T.v_0, T.setV_1, T.v_1, T.setV_2, T.v_2, T.setV_3, T.v_3, T.setPc_eq, T.setVcc_eq, T.setExec_eq, T.setMem_eq, Nat.zero_add] at h8
  obtain ⟨s9, e9, h9⟩ := lift_vadd P rfl c.co 48 0 0 0 (by decide) (by decide) (by decide) dec48
    (fun st => by rw [wn48]; exact ex48 st) s8 _ h8 (pcadd c.co 44 4 48 rfl)
  simp only [T.setS_0, T.s_0, T.setS_1, T.s_1, T.setS_2, T.s_2, T.setS_3, T.s_3, T.setS_4, T.s_4, T.setS_5, T.s_5, T.setS_6, T.s_6, T.setS_7, T.s_7, T.setS_8, T.s_8, T.setV_0, T.v_0, T.setV_1, T.v_1, T.setV_2, T.v_2, T.setV_3, T.v_3, T.setPc_eq, T.setVcc_eq, T.setExec_eq, T.setMem_eq, Nat.zero_add] at h9
  replace h9 := h9.congr (t' :=
    { pc := c.co + 52, exec := msk,
      vcc := maskUpTo (fun l => msk.testBit l && decide (0 % 2 ^ 32 + (if msk.testBit l = true then 64 * n + l else l) % 2 ^ 32 ≥ 2 ^ 32)) 64, s0 := 0,
      s1 := rd32 t.mem (c.ka + 24 + 4) % 2 ^ 32, s2 := c.N, s3 := t.s3, s4 := t.s4, s5 := t.s5, s6 := t.s6, s7 := t.s7,
      s8 := 64 * n, v0 := fun l => if msk.testBit l = true then 64 * n + l else l,
      v1 := t.v1, v2 := t.v2, v3 := t.v3, mem := t.mem })
    (pcadd c.co 48 4 52 rfl) rfl rfl rfl rfl rfl rfl rfl rfl rfl rfl rfl
    (by
      intro l hl
      show (if msk.testBit l = true then (0 % 2 ^ 32 + (if msk.testBit l = true then 64 * n + l else l) % 2 ^ 32) % 2 ^ 32
        else (if msk.testBit l = true then 64 * n + l else l)) = (if msk.testBit l = true then 64 * n + l else l)
      by_cases hx : msk.testBit l = true
      · rw [if_pos hx, if_pos hx, add_zero_lane _ (lane_lt n l hn hl)]
      · rw [if_neg hx, if_neg hx])
    (fun _ _ => rfl) (fun _ _ => rfl) (fun _ _ => rfl) (fun _ => rfl)
  obtain ⟨s10, e10, h10⟩ := lift_vcmp32 P rfl c.co 52 196 2 0 (by decide) (by decide) dec52 _ eCmp
    ⟨rfl, Or.inr (Or.inr (Or.inr rfl)), rfl⟩ rfl rfl rfl rfl rfl rfl rfl rfl
    (fun a b => I.cmpI 4 (w32 a) (w32 b)) (fun x => rfl)
    (fun st => by rw [wn52]; exact ex52 st) s9 _ h9 rfl
  simp only [T.setS_0, T.s_0, T.setS_1, T.s_1, T.setS_2, T.s_2, T.setS_3, T.s_3, T.setS_4, T.s_4, T.setS_5, T.s_5, T.setS_6, T.s_6, T.setS_7, T.s_7, T.setS_8, T.s_8, T.setV_0, T.v_0, T.setV_1, T.v_1, T.setV_2, T.v_2, T.setV_3, T.v_3, T.setPc_eq, T.setVcc_eq, T.setExec_eq, T.setMem_eq, Nat.zero_add] at h10
  replace h10 := h10.congr (t' :=
    { pc := c.co + 56, exec := msk,
      vcc := maskUpTo (fun l => msk.testBit l && decide (64 * n + l < c.N)) 64, s0 := 0,
      s1 := rd32 t.mem (c.ka + 24 + 4) % 2 ^ 32, s2 := c.N, s3 := t.s3, s4 := t.s4, s5 := t.s5, s6 := t.s6, s7 := t.s7,
      s8 := 64 * n, v0 := fun l => if msk.testBit l = true then 64 * n + l else l,
      v1 := t.v1, v2 := t.v2, v3 := t.v3, mem := t.mem })
    (pcadd c.co 52 4 56 rfl) rfl
    (by
      show maskUpTo _ 64 = maskUpTo _ 64
      apply maskUpTo_congr
      intro l hl
      by_cases hx : msk.testBit l = true
      · rw [hx, Bool.true_and, Bool.true_and, if_pos rfl, Nat.mod_eq_of_lt (n_lt32 c hv), Nat.mod_eq_of_lt (lane_lt32 n l hn hl),
          cmp_gt_small _ _ hv.n31 (lane_lt n l hn hl)]
      · have hx' : msk.testBit l = false := by simpa using hx
        rw [hx', Bool.false_and, Bool.false_and])
    rfl rfl rfl rfl rfl rfl rfl rfl rfl
    (fun _ _ => rfl) (fun _ _ => rfl) (fun _ _ => rfl) (fun _ _ => rfl) (fun _ => rfl)
  obtain ⟨s11, e11, h11⟩ := lift_saveexec P rfl c.co 56 dec56 s10 _ h10 rfl (maskUpTo_lt _ 64) hmsk
  simp only [T.setS_0, T.s_0, T.setS_1, T.s_1, T.setS_2, T.s_2, T.setS_3, T.s_3, T.setS_4, T.s_4, T.setS_5, T.s_5, T.setS_6, T.s_6, T.setS_7, T.s_7, T.setS_8, T.s_8, T.setV_0, T.v_0, T.setV_1, T.v_1, T.setV_2, T.v_2, T.setV_3, T.v_3, T.setPc_eq, T.setVcc_eq, T.setExec_eq, T.setMem_eq, Nat.zero_add] at h11
  obtain ⟨s12, e12, h12⟩ := lift_execz18 P rfl c.co 60 dec60 s11 _ h11 (pcadd c.co 56 4 60 rfl)
    (Nat.lt_of_le_of_lt (Nat.and_le_right) hmsk) hv.co136
  simp only [T.setS_0, T.s_0, T.setS_1, T.s_1, T.setS_2, T.s_2, T.setS_3, T.s_3, T.setS_4, T.s_4, T.setS_5, T.s_5, T.setS_6, T.s_6, T.setS_7, T.s_7, T.setS_8, T.s_8, T.setV_0, T.v_0, T.setV_1, T.v_1, T.setV_2, T.v_2, T.setV_3, T.v_3, T.setPc_eq, T.setVcc_eq, T.setExec_eq, T.setMem_eq, Nat.zero_add] at h12
  refine ⟨s12, ?_, ?_⟩
  · exact stepsTo_trans (stepsTo_one e1) (stepsTo_trans (stepsTo_one e2) (stepsTo_trans (stepsTo_one e3)
      (stepsTo_trans (stepsTo_one e4) (stepsTo_trans (stepsTo_one e5) (stepsTo_trans (stepsTo_one e6)
      (stepsTo_trans (stepsTo_one e7) (stepsTo_trans (stepsTo_one e8) (stepsTo_trans (stepsTo_one e9)
      (stepsTo_trans (stepsTo_one e10) (stepsTo_trans (stepsTo_one e11) (stepsTo_one e12)))))))))))
  · exact h12

theorem ashr_pos (g : Nat) (hg : g < 2 ^ 31) : 0 + g * 2 ^ 32 < 2 ^ 63 := by omega
theorem ashr_val (g : Nat) (hg : g < 2 ^ 31) : (0 + g * 2 ^ 32) / 2 ^ 30 = 4 * g := by omega

theorem add_lo (A x : Nat) : (A % 2 ^ 32 % 2 ^ 32 + x % 2 ^ 32 % 2 ^ 32) % 2 ^ 32 = (A + x) % 2 ^ 32 := by omega

theorem add_hi (A x : Nat) (h : A + x < 2 ^ 64) (b : Bool)
    (hb : b = decide (A % 2 ^ 32 % 2 ^ 32 + x % 2 ^ 32 % 2 ^ 32 ≥ 2 ^ 32)) :
    (A / 2 ^ 32 % 2 ^ 32 % 2 ^ 32 + x / 2 ^ 32 % 2 ^ 32 % 2 ^ 32 + b.toNat) % 2 ^ 32 = (A + x) / 2 ^ 32 := by
  by_cases hc : A % 2 ^ 32 % 2 ^ 32 + x % 2 ^ 32 % 2 ^ 32 ≥ 2 ^ 32
  · have : b = true := by rw [hb]; exact decide_eq_true hc
    subst this
    simp only [Bool.toNat_true]
    omega
  · have : b = false := by rw [hb]; exact decide_eq_false hc
    subst this
    simp only [Bool.toNat_false]
    omega

theorem carry_bit (E a : Nat) (f : Nat → Nat) (l : Nat) (hl : l < 64) (hx : E.testBit l = true) :
    (maskUpTo (fun l => E.testBit l && decide (a + f l % 2 ^ 32 ≥ 2 ^ 32)) 64).testBit l =
      decide (a + f l % 2 ^ 32 ≥ 2 ^ 32) := by
  rw [testBit_mask]
  simp only [hl, decide_true, Bool.true_and, hx]

theorem src_ok (c : Cfg) (hv : c.Valid) (g : Nat) (hg : g < c.K) : c.src + 4 * g + 4 ≤ 2 ^ 64 := by
  have := hv.srcEnd; omega
theorem dst_ok (c : Cfg) (hv : c.Valid) (g : Nat) (hg : g < c.K) : c.dst + 4 * g + 4 ≤ 2 ^ 64 := by
  have := hv.dstEnd; omega
theorem lt_of_ok (a g : Nat) (h : a + 4 * g + 4 ≤ 2 ^ 64) : a + 4 * g < 2 ^ 64 := by omega
theorem join32 (x : Nat) (h : x < 2 ^ 64) : (x % 2 ^ 32 + x / 2 ^ 32 * 2 ^ 32) % 2 ^ 64 = x := by
  rw [split32]; exact Nat.mod_eq_of_lt h

theorem blockB (c : Cfg) (hv : c.Valid) (f0 : Nat → Nat) (himg : Img c f0) (n E : Nat)
    (hn : 64 * n + 64 ≤ 2 ^ 31)
    (st : St) (t : T) (h : Tracks st t) (hpc : t.pc = c.co + 64) (hexec : t.exec = E)
    (hs6 : t.s6 = c.ka % 2 ^ 32) (hs7 : t.s7 = c.ka / 2 ^ 32)
    (hact : ∀ l, l < 64 → E.testBit l = true → t.v0 l = 64 * n + l ∧ 64 * n + l < c.K)
    (hag : Agree c f0 t.mem) :
    ∃ st' t', stepsTo P c.co 14 st st' ∧ Tracks st' t' ∧ t'.pc = c.co + 136 ∧
      t'.mem = applyWrites ((lanesOf E).flatMap fun l =>
        storePairs (c.dst + 4 * (64 * n + l)) (rd32 t.mem (c.src + 4 * (64 * n + l)) % 2 ^ 32)) t.mem := by
  have hka0 : c.ka % 2 ^ 32 + c.ka / 2 ^ 32 * 2 ^ 32 + 0 = c.ka + 0 := by rw [split32]
  have hR4 : rd32 t.mem (c.ka + 0) % 2 ^ 32 = c.src % 2 ^ 32 := by
    rw [agree_ka c hv f0 t.mem hag 0 (by decide)]; exact himg.srcLo
  have hR5 : rd32 t.mem (c.ka + 0 + 4) % 2 ^ 32 = c.src / 2 ^ 32 := by
    rw [Nat.add_assoc, agree_ka c hv f0 t.mem hag (0 + 4) (by decide)]; exact himg.srcHi
  have hR6 : rd32 t.mem (c.ka + 0 + 8) % 2 ^ 32 = c.dst % 2 ^ 32 := by
    rw [Nat.add_assoc, agree_ka c hv f0 t.mem hag (0 + 8) (by decide)]; exact himg.dstLo
  have hR7 : rd32 t.mem (c.ka + 0 + 12) % 2 ^ 32 = c.dst / 2 ^ 32 := by
    rw [Nat.add_assoc, agree_ka c hv f0 t.mem hag (0 + 12) (by decide)]; exact himg.dstHi
  obtain ⟨s1, e1, h1⟩ := lift_smem4 P rfl c.co 64 2 0 6 0 (by decide) (by decide) dec64 _
    (fun st => by rw [wn64]; exact ex64 st) st t h hpc (c.ka + 0) _ _ hs6 hs7 hka0 hv.ka0' hv.ka16
  simp only [Nat.reduceAdd, T.setS_0, T.s_0, T.setS_1, T.s_1, T.setS_2, T.s_2, T.setS_3, T.s_3, T.setS_4, T.s_4, T.setS_5, T.s_5, T.setS_6, T.s_6, T.setS_7, T.s_7, T.setS_8, T.s_8, T.setV_0, T.v_0, T.setV_1, T.v_1, T.setV_2, T.v_2, T.setV_3, T.v_3, T.setPc_eq, T.setVcc_eq, T.setExec_eq, T.setMem_eq, Nat.zero_add] at h1
  rw [hR4, hR5, hR6, hR7, hexec] at h1
  obtain ⟨s2, e2, h2⟩ := lift_vmov P rfl c.co 72 128 1 (by decide) dec72
    (fun st => by rw [wn72]; exact ex72 st) s1 _ h1 (pcadd c.co 64 8 72 rfl) (fun _ => 0)
    (fun st' V hV _ _ l hl => by rw [src_inline st' 128 l 32 0 false (by decide) (by decide)])
  simp only [Nat.reduceAdd, T.setS_0, T.s_0, T.setS_1, T.s_1, T.setS_2, T.s_2, T.setS_3, T.s_3, T.setS_4, T.s_4, T.setS_5, T.s_5, T.setS_6, T.s_6, T.setS_7, T.s_7, T.setS_8, T.s_8, T.setV_0, T.v_0, T.setV_1, T.v_1, T.setV_2, T.v_2, T.setV_3, T.v_3, T.setPc_eq, T.setVcc_eq, T.setExec_eq, T.setMem_eq, Nat.zero_add] at h2
  obtain ⟨s3, e3, h3⟩ := lift_vmov P rfl c.co 76 256 2 (by decide) dec76
    (fun st => by rw [wn76]; exact ex76 st) s2 _ h2 (pcadd c.co 72 4 76 rfl) (fun l => t.v0 l % 2 ^ 32)
    (fun st' V hV _ hrv l hl => by
      rw [show (256 : Nat) = 256 + 0 from rfl, src_vgpr, hV.rv 0 l (by decide) hl, hrv 0 l (by decide) hl]
      simp only [T.v_0])
  simp only [Nat.reduceAdd, T.setS_0, T.s_0, T.setS_1, T.s_1, T.setS_2, T.s_2, T.setS_3, T.s_3, T.setS_4, T.s_4, T.setS_5, T.s_5, T.setS_6, T.s_6, T.setS_7, T.s_7, T.setS_8, T.s_8, T.setV_0, T.v_0, T.setV_1, T.v_1, T.setV_2, T.v_2, T.setV_3, T.v_3, T.setPc_eq, T.setVcc_eq, T.setExec_eq, T.setMem_eq, Nat.zero_add] at h3
  replace h3 := h3.congr (t' :=
    { pc := c.co + 80, exec := E, vcc := t.vcc, s0 := c.src % 2 ^ 32, s1 := c.src / 2 ^ 32, s2 := c.dst % 2 ^ 32,
      s3 := c.dst / 2 ^ 32, s4 := t.s4, s5 := t.s5, s6 := t.s6, s7 := t.s7, s8 := t.s8, v0 := t.v0,
      v1 := fun l => if E.testBit l = true then 0 else t.v1 l,
      v2 := fun l => if E.testBit l = true then 64 * n + l else t.v2 l, v3 := t.v3, mem := t.mem })
    (pcadd c.co 76 4 80 rfl) rfl rfl rfl rfl rfl rfl rfl rfl rfl rfl rfl
    (fun _ _ => rfl) (fun _ _ => rfl)
    (by
      intro l hl
      show (if E.testBit l = true then t.v0 l % 2 ^ 32 else t.v2 l) = (if E.testBit l = true then 64 * n + l else t.v2 l)
      by_cases hx : E.testBit l = true
      · rw [if_pos hx, if_pos hx, (hact l hl hx).1, Nat.mod_eq_of_lt (lane_lt32 n l hn hl)]
      · rw [if_neg hx, if_neg hx])
    (fun _ _ => rfl) (fun _ => rfl)
  obtain ⟨s4, e4, h4⟩ := lift_vashr64 P rfl c.co 80 30 1 0 (by decide) (by decide) (by decide) dec80 _ eAshr
    ⟨rfl, Or.inl rfl, rfl⟩ rfl rfl rfl rfl rfl rfl rfl rfl rfl rfl (fun x => rfl)
    (fun st => by rw [wn80]; exact ex80 st) s3 _ h3 rfl
    (by
      intro l hl hx
      simp only [Nat.reduceAdd, T.setS_0, T.s_0, T.setS_1, T.s_1, T.setS_2, T.s_2, T.setS_3, T.s_3, T.setS_4, T.s_4, T.setS_5, T.s_5, T.setS_6, T.s_6, T.setS_7, T.s_7, T.setS_8, T.s_8, T.setV_0, T.v_0, T.setV_1, T.v_1, T.setV_2, T.v_2, T.setV_3, T.v_3, T.setPc_eq, T.setVcc_eq, T.setExec_eq, T.setMem_eq, Nat.zero_add]
      rw [if_pos hx, if_pos hx]
      exact ashr_pos _ (lane_lt n l hn hl))
  simp only [Nat.reduceAdd, T.setS_0, T.s_0, T.setS_1, T.s_1, T.setS_2, T.s_2, T.setS_3, T.s_3, T.setS_4, T.s_4, T.setS_5, T.s_5, T.setS_6, T.s_6, T.setS_7, T.s_7, T.setS_8, T.s_8, T.setV_0, T.v_0, T.setV_1, T.v_1, T.setV_2, T.v_2, T.setV_3, T.v_3, T.setPc_eq, T.setVcc_eq, T.setExec_eq, T.setMem_eq, Nat.zero_add] at h4
  replace h4 := h4.congr (t' :=
    { pc := c.co + 88, exec := E, vcc := t.vcc, s0 := c.src % 2 ^ 32, s1 := c.src / 2 ^ 32, s2 := c.dst % 2 ^ 32,
      s3 := c.dst / 2 ^ 32, s4 := t.s4, s5 := t.s5, s6 := t.s6, s7 := t.s7, s8 := t.s8,
      v0 := fun l => if E.testBit l = true then 4 * (64 * n + l) % 2 ^ 32 else t.v0 l,
      v1 := fun l => if E.testBit l = true then 4 * (64 * n + l) / 2 ^ 32 % 2 ^ 32 else t.v1 l,
      v2 := fun l => if E.testBit l = true then 64 * n + l else t.v2 l, v3 := t.v3, mem := t.mem })
    (pcadd c.co 80 8 88 rfl) rfl rfl rfl rfl rfl rfl rfl rfl rfl rfl rfl
    (by
      intro l hl
      by_cases hx : E.testBit l = true
      · simp only [if_pos hx]
        rw [ashr_val _ (lane_lt n l hn hl)]
      · simp only [if_neg hx])
    (by
      intro l hl
      by_cases hx : E.testBit l = true
      · simp only [if_pos hx]
        rw [ashr_val _ (lane_lt n l hn hl)]
      · simp only [if_neg hx])
    (fun _ _ => rfl) (fun _ _ => rfl) (fun _ => rfl)
  obtain ⟨s5, e5, h5⟩ := lift_wait P rfl c.co 88 _ dec88 s4 _ h4 rfl
  simp only [Nat.reduceAdd, T.setS_0, T.s_0, T.setS_1, T.s_1, T.setS_2, T.s_2, T.setS_3, T.s_3, T.setS_4, T.s_4, T.setS_5, T.s_5, T.setS_6, T.s_6, T.setS_7, T.s_7, T.setS_8, T.s_8, T.setV_0, T.v_0, T.setV_1, T.v_1, T.setV_2, T.v_2, T.setV_3, T.v_3, T.setPc_eq, T.setVcc_eq, T.setExec_eq, T.setMem_eq, Nat.zero_add] at h5
  obtain ⟨s6, e6, h6⟩ := lift_vmov P rfl c.co 92 1 3 (by decide) dec92
    (fun st => by rw [wn92]; exact ex92 st) s5 _ h5 (pcadd c.co 88 4 92 rfl) (fun _ => c.src / 2 ^ 32 % 2 ^ 32)
    (fun st' V hV hrs _ l hl => by
      rw [src_sgpr st' 1 l 32 0 false (by decide) rfl, hV.rs 1 (by decide), hrs 1 (by decide)]
      simp only [T.s_1])
  simp only [Nat.reduceAdd, T.setS_0, T.s_0, T.setS_1, T.s_1, T.setS_2, T.s_2, T.setS_3, T.s_3, T.setS_4, T.s_4, T.setS_5, T.s_5, T.setS_6, T.s_6, T.setS_7, T.s_7, T.setS_8, T.s_8, T.setV_0, T.v_0, T.setV_1, T.v_1, T.setV_2, T.v_2, T.setV_3, T.v_3, T.setPc_eq, T.setVcc_eq, T.setExec_eq, T.setMem_eq, Nat.zero_add] at h6
  obtain ⟨s7, e7, h7⟩ := lift_vadd P rfl c.co 96 0 0 2 (by decide) (by decide) (by decide) dec96
    (fun st => by rw [wn96]; exact ex96 st) s6 _ h6 (pcadd c.co 92 4 96 rfl)
  simp only [Nat.reduceAdd, T.setS_0, T.s_0, T.setS_1, T.s_1, T.setS_2, T.s_2, T.setS_3, T.s_3, T.setS_4, T.s_4, T.setS_5, T.s_5, T.setS_6, T.s_6, T.setS_7, T.s_7, T.setS_8, T.s_8, T.setV_0, T.v_0, T.setV_1, T.v_1, T.setV_2, T.v_2, T.setV_3, T.v_3, T.setPc_eq, T.setVcc_eq, T.setExec_eq, T.setMem_eq, Nat.zero_add] at h7
  obtain ⟨s8, e8, h8⟩ := lift_vaddc P rfl c.co 100 3 1 3 (by decide) (by decide) (by decide) dec100
    (fun st => by rw [wn100]; exact ex100 st) s7 _ h7 (pcadd c.co 96 4 100 rfl)
  simp only [Nat.reduceAdd, T.setS_0, T.s_0, T.setS_1, T.s_1, T.setS_2, T.s_2, T.setS_3, T.s_3, T.setS_4, T.s_4, T.setS_5, T.s_5, T.setS_6, T.s_6, T.setS_7, T.s_7, T.setS_8, T.s_8, T.setV_0, T.v_0, T.setV_1, T.v_1, T.setV_2, T.v_2, T.setV_3, T.v_3, T.setPc_eq, T.setVcc_eq, T.setExec_eq, T.setMem_eq, Nat.zero_add] at h8
  replace h8 := h8.upd (c.co + 104)
    (fun l => if E.testBit l = true then 4 * (64 * n + l) % 2 ^ 32 else t.v0 l)
    (fun l => if E.testBit l = true then 4 * (64 * n + l) / 2 ^ 32 % 2 ^ 32 else t.v1 l)
    (fun l => if E.testBit l = true then (c.src + 4 * (64 * n + l)) % 2 ^ 32 else t.v2 l)
    (fun l => if E.testBit l = true then (c.src + 4 * (64 * n + l)) / 2 ^ 32 else t.v3 l)
    (pcadd c.co 100 4 104 rfl) (fun _ _ => rfl) (fun _ _ => rfl)
    (by
      intro l hl
      by_cases hx : E.testBit l = true
      · simp only [if_pos hx]
        rw [add_lo]
      · simp only [if_neg hx])
    (by
      intro l hl
      by_cases hx : E.testBit l = true
      · have hk := (hact l hl hx).2
        have hcb := carry_bit E (c.src % 2 ^ 32 % 2 ^ 32)
          (fun l => if E.testBit l = true then 4 * (64 * n + l) % 2 ^ 32 else t.v0 l) l hl hx
        simp only [if_pos hx] at hcb ⊢
        rw [hcb]
        exact add_hi c.src (4 * (64 * n + l)) (lt_of_ok _ _ (src_ok c hv _ hk)) _ rfl
      · simp only [if_neg hx])
  simp only [Nat.reduceAdd, T.setS_0, T.s_0, T.setS_1, T.s_1, T.setS_2, T.s_2, T.setS_3, T.s_3, T.setS_4, T.s_4, T.setS_5, T.s_5, T.setS_6, T.s_6, T.setS_7, T.s_7, T.setS_8, T.s_8, T.setV_0, T.v_0, T.setV_1, T.v_1, T.setV_2, T.v_2, T.setV_3, T.v_3, T.setPc_eq, T.setVcc_eq, T.setExec_eq, T.setMem_eq, Nat.zero_add] at h8
  obtain ⟨s9, e9, h9⟩ := lift_flat_load P rfl c.co 104 2 2 (by decide) (by decide) dec104 _
    (fun st => by rw [wn104]; exact ex104 st) s8 _ h8 rfl (fun l => c.src + 4 * (64 * n + l))
    (by
      intro l hl hx
      have hk := (hact l hl hx).2
      simp only [Nat.reduceAdd, T.setS_0, T.s_0, T.setS_1, T.s_1, T.setS_2, T.s_2, T.setS_3, T.s_3, T.setS_4, T.s_4, T.setS_5, T.s_5, T.setS_6, T.s_6, T.setS_7, T.s_7, T.setS_8, T.s_8, T.setV_0, T.v_0, T.setV_1, T.v_1, T.setV_2, T.v_2, T.setV_3, T.v_3, T.setPc_eq, T.setVcc_eq, T.setExec_eq, T.setMem_eq, Nat.zero_add, if_pos hx]
      exact ⟨join32 _ (lt_of_ok _ _ (src_ok c hv _ hk)), src_ok c hv _ hk⟩)
  simp only [Nat.reduceAdd, T.setS_0, T.s_0, T.setS_1, T.s_1, T.setS_2, T.s_2, T.setS_3, T.s_3, T.setS_4, T.s_4, T.setS_5, T.s_5, T.setS_6, T.s_6, T.setS_7, T.s_7, T.setS_8, T.s_8, T.setV_0, T.v_0, T.setV_1, T.v_1, T.setV_2, T.v_2, T.setV_3, T.v_3, T.setPc_eq, T.setVcc_eq, T.setExec_eq, T.setMem_eq, Nat.zero_add] at h9
  replace h9 := h9.upd (c.co + 112)
    (fun l => if E.testBit l = true then 4 * (64 * n + l) % 2 ^ 32 else t.v0 l)
    (fun l => if E.testBit l = true then 4 * (64 * n + l) / 2 ^ 32 % 2 ^ 32 else t.v1 l)
    (fun l => if E.testBit l = true then rd32 t.mem (c.src + 4 * (64 * n + l)) % 2 ^ 32 else t.v2 l)
    (fun l => if E.testBit l = true then (c.src + 4 * (64 * n + l)) / 2 ^ 32 else t.v3 l)
    (pcadd c.co 104 8 112 rfl) (fun _ _ => rfl) (fun _ _ => rfl)
    (by
      intro l hl
      by_cases hx : E.testBit l = true
      · simp only [if_pos hx]
      · simp only [if_neg hx])
    (fun _ _ => rfl)
  simp only [Nat.reduceAdd, T.setS_0, T.s_0, T.setS_1, T.s_1, T.setS_2, T.s_2, T.setS_3, T.s_3, T.setS_4, T.s_4, T.setS_5, T.s_5, T.setS_6, T.s_6, T.setS_7, T.s_7, T.setS_8, T.s_8, T.setV_0, T.v_0, T.setV_1, T.v_1, T.setV_2, T.v_2, T.setV_3, T.v_3, T.setPc_eq, T.setVcc_eq, T.setExec_eq, T.setMem_eq, Nat.zero_add] at h9
  obtain ⟨s10, e10, h10⟩ := lift_vmov P rfl c.co 112 3 3 (by decide) dec112
    (fun st => by rw [wn112]; exact ex112 st) s9 _ h9 rfl (fun _ => c.dst / 2 ^ 32 % 2 ^ 32)
    (fun st' V hV hrs _ l hl => by
      rw [src_sgpr st' 3 l 32 0 false (by decide) rfl, hV.rs 3 (by decide), hrs 3 (by decide)]
      simp only [T.s_3])
  simp only [Nat.reduceAdd, T.setS_0, T.s_0, T.setS_1, T.s_1, T.setS_2, T.s_2, T.setS_3, T.s_3, T.setS_4, T.s_4, T.setS_5, T.s_5, T.setS_6, T.s_6, T.setS_7, T.s_7, T.setS_8, T.s_8, T.setV_0, T.v_0, T.setV_1, T.v_1, T.setV_2, T.v_2, T.setV_3, T.v_3, T.setPc_eq, T.setVcc_eq, T.setExec_eq, T.setMem_eq, Nat.zero_add] at h10
  obtain ⟨s11, e11, h11⟩ := lift_vadd P rfl c.co 116 2 0 0 (by decide) (by decide) (by decide) dec116
    (fun st => by rw [wn116]; exact ex116 st) s10 _ h10 (pcadd c.co 112 4 116 rfl)
  simp only [Nat.reduceAdd, T.setS_0, T.s_0, T.setS_1, T.s_1, T.setS_2, T.s_2, T.setS_3, T.s_3, T.setS_4, T.s_4, T.setS_5, T.s_5, T.setS_6, T.s_6, T.setS_7, T.s_7, T.setS_8, T.s_8, T.setV_0, T.v_0, T.setV_1, T.v_1, T.setV_2, T.v_2, T.setV_3, T.v_3, T.setPc_eq, T.setVcc_eq, T.setExec_eq, T.setMem_eq, Nat.zero_add] at h11
  obtain ⟨s12, e12, h12⟩ := lift_vaddc P rfl c.co 120 3 1 1 (by decide) (by decide) (by decide) dec120
    (fun st => by rw [wn120]; exact ex120 st) s11 _ h11 (pcadd c.co 116 4 120 rfl)
  simp only [Nat.reduceAdd, T.setS_0, T.s_0, T.setS_1, T.s_1, T.setS_2, T.s_2, T.setS_3, T.s_3, T.setS_4, T.s_4, T.setS_5, T.s_5, T.setS_6, T.s_6, T.setS_7, T.s_7, T.setS_8, T.s_8, T.setV_0, T.v_0, T.setV_1, T.v_1, T.setV_2, T.v_2, T.setV_3, T.v_3, T.setPc_eq, T.setVcc_eq, T.setExec_eq, T.setMem_eq, Nat.zero_add] at h12
  replace h12 := h12.upd (c.co + 124)
    (fun l => if E.testBit l = true then (c.dst + 4 * (64 * n + l)) % 2 ^ 32 else t.v0 l)
    (fun l => if E.testBit l = true then (c.dst + 4 * (64 * n + l)) / 2 ^ 32 else t.v1 l)
    (fun l => if E.testBit l = true then rd32 t.mem (c.src + 4 * (64 * n + l)) % 2 ^ 32 else t.v2 l)
    (fun l => if E.testBit l = true then c.dst / 2 ^ 32 % 2 ^ 32 else t.v3 l)
    (pcadd c.co 120 4 124 rfl)
    (by
      intro l hl
      by_cases hx : E.testBit l = true
      · simp only [if_pos hx]
        rw [add_lo]
      · simp only [if_neg hx])
    (by
      intro l hl
      by_cases hx : E.testBit l = true
      · have hk := (hact l hl hx).2
        have hcb := carry_bit E (c.dst % 2 ^ 32 % 2 ^ 32)
          (fun l => if E.testBit l = true then 4 * (64 * n + l) % 2 ^ 32 else t.v0 l) l hl hx
        simp only [if_pos hx] at hcb ⊢
        rw [hcb]
        exact add_hi c.dst (4 * (64 * n + l)) (lt_of_ok _ _ (dst_ok c hv _ hk)) _ rfl
      · simp only [if_neg hx])
    (fun _ _ => rfl)
    (by
      intro l hl
      by_cases hx : E.testBit l = true
      · simp only [if_pos hx]
      · simp only [if_neg hx])
  simp only [Nat.reduceAdd, T.setS_0, T.s_0, T.setS_1, T.s_1, T.setS_2, T.s_2, T.setS_3, T.s_3, T.setS_4, T.s_4, T.setS_5, T.s_5, T.setS_6, T.s_6, T.setS_7, T.s_7, T.setS_8, T.s_8, T.setV_0, T.v_0, T.setV_1, T.v_1, T.setV_2, T.v_2, T.setV_3, T.v_3, T.setPc_eq, T.setVcc_eq, T.setExec_eq, T.setMem_eq, Nat.zero_add] at h12
  obtain ⟨s13, e13, h13⟩ := lift_wait P rfl c.co 124 _ dec124 s12 _ h12 rfl
  simp only [Nat.reduceAdd, T.setS_0, T.s_0, T.setS_1, T.s_1, T.setS_2, T.s_2, T.setS_3, T.s_3, T.setS_4, T.s_4, T.setS_5, T.s_5, T.setS_6, T.s_6, T.setS_7, T.s_7, T.setS_8, T.s_8, T.setV_0, T.v_0, T.setV_1, T.v_1, T.setV_2, T.v_2, T.setV_3, T.v_3, T.setPc_eq, T.setVcc_eq, T.setExec_eq, T.setMem_eq, Nat.zero_add] at h13
  obtain ⟨s14, e14, h14⟩ := lift_flat_store P rfl c.co 128 0 2 (by decide) (by decide) dec128 _
    (fun st => by rw [wn128]; exact ex128 st) s13 _ h13 (pcadd c.co 124 4 128 rfl) (fun l => c.dst + 4 * (64 * n + l))
    (by
      intro l hl hx
      have hk := (hact l hl hx).2
      simp only [Nat.reduceAdd, T.setS_0, T.s_0, T.setS_1, T.s_1, T.setS_2, T.s_2, T.setS_3, T.s_3, T.setS_4, T.s_4, T.setS_5, T.s_5, T.setS_6, T.s_6, T.setS_7, T.s_7, T.setS_8, T.s_8, T.setV_0, T.v_0, T.setV_1, T.v_1, T.setV_2, T.v_2, T.setV_3, T.v_3, T.setPc_eq, T.setVcc_eq, T.setExec_eq, T.setMem_eq, Nat.zero_add, if_pos hx]
      exact ⟨join32 _ (lt_of_ok _ _ (dst_ok c hv _ hk)), dst_ok c hv _ hk⟩)
  simp only [Nat.reduceAdd, T.setS_0, T.s_0, T.setS_1, T.s_1, T.setS_2, T.s_2, T.setS_3, T.s_3, T.setS_4, T.s_4, T.setS_5, T.s_5, T.setS_6, T.s_6, T.setS_7, T.s_7, T.setS_8, T.s_8, T.setV_0, T.v_0, T.setV_1, T.v_1, T.setV_2, T.v_2, T.setV_3, T.v_3, T.setPc_eq, T.setVcc_eq, T.setExec_eq, T.setMem_eq, Nat.zero_add] at h14
  refine ⟨s14, _, ?_, h14, pcadd c.co 128 8 136 rfl, ?_⟩
  · exact stepsTo_trans (stepsTo_one e1) (stepsTo_trans (stepsTo_one e2) (stepsTo_trans (stepsTo_one e3)
      (stepsTo_trans (stepsTo_one e4) (stepsTo_trans (stepsTo_one e5) (stepsTo_trans (stepsTo_one e6)
      (stepsTo_trans (stepsTo_one e7) (stepsTo_trans (stepsTo_one e8) (stepsTo_trans (stepsTo_one e9)
      (stepsTo_trans (stepsTo_one e10) (stepsTo_trans (stepsTo_one e11) (stepsTo_trans (stepsTo_one e12)
      (stepsTo_trans (stepsTo_one e13) (stepsTo_one e14)))))))))))))
  · show applyWrites _ t.mem = applyWrites _ t.mem
    congr 1
    apply flatMap_congr'
    intro l hl
    have hx := ((mem_lanesOf _ _).mp hl).2
    simp only [if_pos hx]

theorem runWf_end {P : Program} {base : Nat} {st st' : St} (h : step P base st = .ok (st', .endpgm)) (f : Nat) :
    runWf P base (f + 1) st = .ok (st', .endpgm) := by
  simp only [runWf, h]

theorem Tracks.rmem {st : St} {t : T} (h : Tracks st t) (a : Nat) : st.rmem a = t.mem a := by
  obtain ⟨V, hV, _, _, _, _, _, e6⟩ := h
  rw [hV.mem a, e6 a]

theorem lanesOf_zero : lanesOf 0 = [] := by
  unfold lanesOf
  rw [List.filter_eq_nil_iff]
  intro l _
  simp

/-- the lanes that pass the bounds test -/
def execMask (c : Cfg) (n msk : Nat) : Nat :=
  maskUpTo (fun l => msk.testBit l && decide (64 * n + l < c.N)) 64 &&& msk

theorem execMask_bit (c : Cfg) (n msk l : Nat) (hl : l < 64) :
    (execMask c n msk).testBit l = (msk.testBit l && decide (64 * n + l < c.N)) := by
  unfold execMask
  rw [Nat.testBit_and, testBit_mask]
  simp only [hl, decide_true, Bool.true_and]
  cases msk.testBit l <;> simp

/-- the byte writes of one wavefront -/
def wavePairs (c : Cfg) (m : Nat → Nat) (n msk : Nat) : List (Nat × Nat) :=
  (lanesOf (execMask c n msk)).flatMap fun l =>
    storePairs (c.dst + 4 * (64 * n + l)) (rd32 m (c.src + 4 * (64 * n + l)) % 2 ^ 32)

/-- one wavefront of the copy kernel, from its initial registers to `S_ENDPGM` -/
theorem wave_run (c : Cfg) (hv : c.Valid) (f0 : Nat → Nat) (himg : Img c f0) (n msk : Nat)
    (hn : 64 * n + 64 ≤ 2 ^ 31) (hmsk : msk < 18446744073709551616)
    (hmskG : ∀ l, l < 64 → msk.testBit l = true → 64 * n + l < c.G)
    (st : St) (t : T) (h : Tracks st t) (hpc : t.pc = c.co) (hexec : t.exec = msk)
    (hs4 : t.s4 = c.pa % 2 ^ 32) (hs5 : t.s5 = c.pa / 2 ^ 32) (hs6 : t.s6 = c.ka % 2 ^ 32)
    (hs7 : t.s7 = c.ka / 2 ^ 32) (hs8 : t.s8 = n) (hv0 : ∀ l, l < 64 → t.v0 l = l) (hag : Agree c f0 t.mem)
    (fuel : Nat) :
    ∃ st', runWf P c.co (fuel + 27) st = .ok (st', .endpgm) ∧
      ∀ a, st'.rmem a = applyWrites (wavePairs c t.mem n msk) t.mem a := by
  obtain ⟨sA, hstA, hA⟩ := blockA c hv f0 himg n msk hn hmsk st t h hpc hexec hs4 hs5 hs6 hs7 hs8 hv0 hag
  by_cases hE : execMask c n msk = 0
  · -- no lane in range: the branch at offset 60 goes to S_ENDPGM
    have hE' : maskUpTo (fun l => msk.testBit l && decide (64 * n + l < c.N)) 64 &&& msk = 0 := hE
    rw [if_pos hE'] at hA
    obtain ⟨sE, eE, hEnd⟩ := lift_endpgm P rfl c.co 136 dec136 sA _ hA rfl
    refine ⟨sE, ?_, ?_⟩
    · rw [show fuel + 27 = (fuel + 14 + 1) + 12 from by omega, runWf_steps hstA, runWf_end eE]
    · intro a
      rw [Tracks.rmem hEnd a]
      show t.mem a = _
      unfold wavePairs
      rw [hE, lanesOf_zero]
      rfl
  · have hE' : ¬ maskUpTo (fun l => msk.testBit l && decide (64 * n + l < c.N)) 64 &&& msk = 0 := hE
    rw [if_neg hE'] at hA
    obtain ⟨sB, tB, hstB, hB, hpcB, hmemB⟩ := blockB c hv f0 himg n (execMask c n msk) hn sA _ hA rfl rfl hs6 hs7
      (by
        intro l hl hx
        rw [execMask_bit c n msk l hl] at hx
        simp only [Bool.and_eq_true, decide_eq_true_eq] at hx
        refine ⟨?_, ?_⟩
        · show (if msk.testBit l = true then 64 * n + l else l) = _
          rw [if_pos hx.1]
        · have := hmskG l hl hx.1
          unfold Cfg.K
          omega)
      hag
    obtain ⟨sE, eE, hEnd⟩ := lift_endpgm P rfl c.co 136 dec136 sB tB hB hpcB
    refine ⟨sE, ?_, ?_⟩
    · rw [show fuel + 27 = (fuel + 1 + 14) + 12 from by omega, runWf_steps hstA, runWf_steps hstB, runWf_end eE]
    · intro a
      rw [Tracks.rmem hEnd a]
      show tB.mem a = _
      rw [hmemB]
      rfl


end C01.Emu.Copy
