import MgpuProofs.C14Run
import MgpuProofs.C02Race
/-! # C14 ∘ C02 — the scheduler's barrier handling produces phase-cut schedules

`C02.Race.timing_phases_equal_emulator_order` is about a schedule that is already *cut into barrier
phases*. Here that hypothesis is discharged from the scheduler model: along every legal run the
instructions issued to execution units by the wavefronts of one work-group, tagged with the number of
`s_barrier`s the issuing wavefront has executed, appear in non-decreasing tag order (a wavefront is
past barrier `k` only when every unfinished wavefront of the group has arrived at it, and all
unfinished wavefronts of a group are released together) — early-exiting wavefronts included. Hence
the issue order is the concatenation of its phases, and performing race-free accesses in issue order
gives the emulator's result (phase by phase, wavefront by wavefront). -/
namespace C14
open C02.Race

/-- the instructions issued to execution units during a run, in issue order:
    (wavefront, work-group, barriers the wavefront has executed) -/
def accTrace (c : Cfg) : State → List Op → List (Nat × Nat × Nat)
  | _, [] => []
  | s, o :: ops =>
    (match o with
     | .issueUnit i =>
       match getWf s.wfs i with
       | some w => [(i, w.wg, w.arr)]
       | none => []
     | _ => []) ++ accTrace c (step c s o).1 ops

/-- the accesses of phase `k` of a tagged schedule -/
def phaseOf {α : Type} (l : List (α × Nat)) (k : Nat) : List α :=
  (l.filter (fun e => e.2 == k)).map (·.1)

/-- the schedule cut into phases `0 .. K-1` -/
def phasesOf {α : Type} (K : Nat) (l : List (α × Nat)) : List (List α) := (List.range K).map (phaseOf l)

/-- the unit instructions of work-group `g`, the `j`-th one performing the access `lab j`,
    tagged with its barrier phase -/
def tagged {L : Type} (c : Cfg) (s : State) (ops : List Op) (g : Nat) (lab : Nat → Act L) :
    List ((Nat × Act L) × Nat) :=
  (((accTrace c s ops).filter (fun e => e.2.1 == g)).zipIdx).map (fun p => ((p.1.1, lab p.2), p.1.2.2))


/-! ### list lemmas -/

theorem cmp_filter_split {α : Type} (K : Nat) : ∀ (l : List (α × Nat)), (l.map (·.2)).Pairwise (· ≤ ·) →
    l.filter (fun e => decide (e.2 < K + 1)) =
      l.filter (fun e => decide (e.2 < K)) ++ l.filter (fun e => e.2 == K) := by
  intro l
  induction l with
  | nil => intro _; rfl
  | cons x xs ih =>
    intro h
    rw [List.map_cons, List.pairwise_cons] at h
    obtain ⟨h1, h2⟩ := h
    have ih' := ih h2
    simp only [List.filter_cons]
    rcases Nat.lt_trichotomy x.2 K with hlt | heq | hgt
    · have a1 : decide (x.2 < K + 1) = true := decide_eq_true (by omega)
      have a2 : decide (x.2 < K) = true := decide_eq_true hlt
      have a3 : ¬ ((x.2 == K) = true) := by rw [beq_iff_eq]; omega
      rw [if_pos a1, if_pos a2, if_neg a3, ih']; rfl
    · have a1 : decide (x.2 < K + 1) = true := decide_eq_true (by omega)
      have a2 : ¬ (decide (x.2 < K) = true) := by rw [decide_eq_true_iff]; omega
      have a3 : (x.2 == K) = true := by rw [beq_iff_eq]; exact heq
      have hnil : xs.filter (fun e => decide (e.2 < K)) = [] := by
        rw [List.filter_eq_nil_iff]
        intro y hy
        have := h1 y.2 (List.mem_map.mpr ⟨y, hy, rfl⟩)
        rw [decide_eq_true_iff]; omega
      rw [if_pos a1, if_neg a2, if_pos a3, ih', hnil]; rfl
    · have a1 : ¬ (decide (x.2 < K + 1) = true) := by rw [decide_eq_true_iff]; omega
      have a2 : ¬ (decide (x.2 < K) = true) := by rw [decide_eq_true_iff]; omega
      have a3 : ¬ ((x.2 == K) = true) := by rw [beq_iff_eq]; omega
      rw [if_neg a1, if_neg a2, if_neg a3, ih']

theorem cmp_phase_prefix {α : Type} (l : List (α × Nat)) (hs : (l.map (·.2)).Pairwise (· ≤ ·)) :
    ∀ K, (l.filter (fun e => decide (e.2 < K))).map (·.1) = ((List.range K).map (phaseOf l)).flatten := by
  intro K
  induction K with
  | zero => simp
  | succ K ih =>
    rw [cmp_filter_split K l hs, List.map_append, ih, List.range_succ, List.map_append, List.flatten_append]
    simp [phaseOf]

theorem cmp_zipIdx_map {α β : Type} (f : α → β) : ∀ (l : List α) (k : Nat),
    (l.zipIdx k).map (fun p => f p.1) = l.map f := by
  intro l
  induction l with
  | nil => intro k; rfl
  | cons x xs ih => intro k; rw [List.zipIdx_cons, List.map_cons, List.map_cons, ih]

/-! ### the lower bound `cmpLow` on the barrier count of the unfinished wavefronts of a group -/

/-- every unfinished wavefront of group `g` has passed at least `b` barriers -/
def cmpLow (g b : Nat) (s : State) : Prop :=
  ∀ v ∈ s.wfs, v.wg = g → v.state ≠ .completed → b ≤ v.bar

/-- a wavefront map that keeps identity and group, never lowers `bar` and keeps ended wavefronts
    other than `j` ended -/
def cmpR (j : Nat) (F : Wf → Wf) : Prop :=
  ∀ v, (F v).id = v.id ∧ (F v).wg = v.wg ∧ v.bar ≤ (F v).bar ∧
    (v.state = .completed → v.id ≠ j → (F v).state = .completed)

theorem cmpR_id (j : Nat) : cmpR j (fun v => v) := fun _ => ⟨rfl, rfl, Nat.le_refl _, fun h _ => h⟩

theorem cmpR_comp {j : Nat} {F G : Wf → Wf} (hF : cmpR j F) (hG : cmpR j G) :
    cmpR j (fun v => G (F v)) := by
  intro v
  obtain ⟨a1, a2, a3, a4⟩ := hF v
  obtain ⟨b1, b2, b3, b4⟩ := hG (F v)
  exact ⟨b1.trans a1, b2.trans a2, Nat.le_trans a3 b3,
    fun h hn => b4 (a4 h hn) (by rw [a1]; exact hn)⟩

theorem cmpR_upd (j : Nat) (f : Wf → Wf)
    (hf : ∀ v, (f v).id = v.id ∧ (f v).wg = v.wg ∧ v.bar ≤ (f v).bar) :
    cmpR j (fun v => if v.id = j then f v else v) := by
  intro v
  dsimp only
  split
  · rename_i h
    obtain ⟨a, b, c⟩ := hf v
    exact ⟨a, b, c, fun _ hn => absurd h hn⟩
  · exact ⟨rfl, rfl, Nat.le_refl _, fun h _ => h⟩

theorem cmpR_release (j g : Nat) : cmpR j (release g) := by
  intro v
  refine ⟨release_id g v, release_wg g v, ?_, ?_⟩
  · unfold release
    split
    · show v.bar ≤ v.bar + 1
      omega
    · exact Nat.le_refl _
  · intro h _
    rw [release_miss _ _ (Or.inr h)]; exact h

theorem cmpR_clr (j g : Nat) : cmpR j (fun v => if v.wg = g then { v with inPool := false } else v) := by
  intro v
  dsimp only
  split <;> exact ⟨rfl, rfl, Nat.le_refl _, fun h _ => h⟩

/-- one evaluated instruction: the wavefront list is mapped by a `cmpR` map -/
theorem cmp_evalInst_up (c : Cfg) (s : State) (w : Wf) :
    ∃ F : Wf → Wf, (evalInst c s w).s.wfs = s.wfs.map F ∧ cmpR w.id F := by
  have idF : ∃ F : Wf → Wf, s.wfs = s.wfs.map F ∧ cmpR w.id F := ⟨fun v => v, by simp, cmpR_id _⟩
  have updF : ∀ f : Wf → Wf, (∀ v, (f v).id = v.id ∧ (f v).wg = v.wg ∧ v.bar ≤ (f v).bar) →
      ∃ F : Wf → Wf, updWf s.wfs w.id f = s.wfs.map F ∧ cmpR w.id F :=
    fun f hf => ⟨_, rfl, cmpR_upd _ f hf⟩
  have hc : ∀ v : Wf, (complete v).id = v.id ∧ (complete v).wg = v.wg ∧ v.bar ≤ (complete v).bar :=
    fun _ => ⟨rfl, rfl, Nat.le_refl _⟩
  have hp : ∀ v : Wf, (park v).id = v.id ∧ (park v).wg = v.wg ∧ v.bar ≤ (park v).bar :=
    fun _ => ⟨rfl, rfl, Nat.le_refl _⟩
  have hr : ∀ v : Wf, (setReady v).id = v.id ∧ (setReady v).wg = v.wg ∧ v.bar ≤ (setReady v).bar :=
    fun _ => ⟨rfl, rfl, Nat.le_refl _⟩
  unfold evalInst
  split
  · unfold evalSEndPgm
    split
    · exact idF
    · split
      · split
        · refine ⟨fun v => (fun v => if v.wg = w.wg then { v with inPool := false } else v)
            (if v.id = w.id then complete v else v), ?_, ?_⟩
          · show clearPool w.wg (updWf s.wfs w.id complete) = _
            unfold clearPool updWf
            rw [List.map_map]; rfl
          · exact cmpR_comp (cmpR_upd _ _ hc) (cmpR_clr _ _)
        · exact idF
      · split
        · refine ⟨fun v => (fun v => if v.id = w.id then complete v else v) (release w.wg v), ?_, ?_⟩
          · show updWf (s.wfs.map (release w.wg)) w.id complete = _
            unfold updWf
            rw [List.map_map]; rfl
          · exact cmpR_comp (cmpR_release _ _) (cmpR_upd _ _ hc)
        · split
          · exact updF complete hc
          · exact idF
  · split
    · unfold evalSBarrier
      simp only
      split
      · refine ⟨fun v => release w.wg (if v.id = w.id then park v else v), ?_, ?_⟩
        · show (updWf s.wfs w.id park).map (release w.wg) = _
          unfold updWf
          rw [List.map_map]; rfl
        · exact cmpR_comp (cmpR_upd _ _ hp) (cmpR_release _ _)
      · split
        · exact updF park hp
        · exact updF park hp
    · split
      · unfold evalSWaitCnt
        split
        · exact idF
        · exact updF setReady hr
      · exact updF setReady hr

theorem cmpLow_map' {g b : Nat} {s s' : State} {F : Wf → Wf} (h1 : s'.wfs = s.wfs.map F)
    (hF : ∀ v ∈ s.wfs, (F v).wg = v.wg ∧ v.bar ≤ (F v).bar ∧
      (v.state = .completed → (F v).state = .completed))
    (h : cmpLow g b s) : cmpLow g b s' := by
  intro v' hv' hg hc
  rw [h1] at hv'
  obtain ⟨v, hv, rfl⟩ := List.mem_map.mp hv'
  obtain ⟨a2, a3, a4⟩ := hF v hv
  rw [a2] at hg
  exact Nat.le_trans (h v hv hg (fun hcc => hc (a4 hcc))) a3

theorem cmpLow_map {g b j : Nat} {s s' : State} {F : Wf → Wf} (h1 : s'.wfs = s.wfs.map F)
    (hF : cmpR j F) (hj : ∀ v ∈ s.wfs, v.id = j → v.state ≠ .completed)
    (h : cmpLow g b s) : cmpLow g b s' := by
  refine cmpLow_map' h1 ?_ h
  intro v hv
  obtain ⟨_, a2, a3, a4⟩ := hF v
  refine ⟨a2, a3, ?_⟩
  intro hcc
  by_cases hvj : v.id = j
  · exact absurd hcc (hj v hv hvj)
  · exact a4 hcc hvj

theorem cmp_finishOne_wfs (i g : Nat) (e : Ev) : (finishOne i g e).wfs = e.s.wfs := by
  unfold finishOne
  simp only
  split <;> split <;> rfl

theorem cmp_evalOne_low {c : Cfg} (hB : c.fixB = true) {g b : Nat} {sp : State × Bool} {i : Nat}
    {rem : List Nat} (h : LInv sp.1 (i :: rem)) (hl : cmpLow g b sp.1) :
    cmpLow g b (evalOne c sp i).1 := by
  unfold evalOne
  split
  · exact hl
  · split
    · exact hl
    · rename_i w hget
      obtain ⟨hw, hi⟩ := getWf_some hget
      split
      · exact hl
      · rename_i hnr
        have hnready : w.state ≠ .ready := by
          intro hr; apply hnr; simp [hB, hr]
        have hg : Good w := by
          rcases h.remSt w hw (by rw [hi]; exact List.mem_cons_self) with hg | hr
          · exact hg
          · exact absurd hr hnready
        obtain ⟨F, hF1, hF2⟩ := cmp_evalInst_up c sp.1 w
        show cmpLow g b (finishOne i w.wg (evalInst c sp.1 w))
        refine cmpLow_map (F := F) (j := w.id) ?_ hF2 ?_ hl
        · rw [cmp_finishOne_wfs]; exact hF1
        · intro v hv hvi
          have : v = w := uniq h.ids hv hw hvi
          subst this
          exact good_not_completed hg

theorem cmp_foldl_low {c : Cfg} (hA : c.fixA = true) (hB : c.fixB = true) {g b : Nat} (l : List Nat)
    (sp : State × Bool) (h : LInv sp.1 l) (hl : cmpLow g b sp.1) :
    cmpLow g b (l.foldl (evalOne c) sp).1 := by
  induction l generalizing sp with
  | nil => exact hl
  | cons i l ih => exact ih _ (evalOne_LInv hA hB h) (cmp_evalOne_low hB h hl)

/-- the frame lemma: a legal step never lowers the bound -/
theorem cmp_step_low {c : Cfg} (hA : c.fixA = true) (hB : c.fixB = true) {s : State} {o : Op}
    (h : Inv s) (hl : legal s o = true) {g b : Nat} (hlow : cmpLow g b s) :
    cmpLow g b (step c s o).1 := by
  cases o with
  | eval =>
    show cmpLow g b (evalInternal c s).1
    unfold evalInternal
    apply cmp_foldl_low hA hB
    · constructor
      · exact h.ids
      · exact h.nofault
      · intro w _ hin; cases hin
      · intro w hw hin; exact Or.inl (h.execSt w hw hin)
      · have := h.nodup; simpa using this
      · exact h.ghost
      · exact h.bars
    · exact hlow
  | wfComp i => simp [legal] at hl
  | drain k => exact hlow
  | memIssue i v =>
    refine cmpLow_map' (F := fun w => if w.id = i then
        (if v then { w with osc := w.osc + 1, ovc := w.ovc + 1 } else { w with osc := w.osc + 1 }) else w)
      rfl ?_ hlow
    intro w _
    split
    · split <;> exact ⟨rfl, Nat.le_refl _, fun h => h⟩
    · exact ⟨rfl, Nat.le_refl _, fun h => h⟩
  | memRet i k l =>
    refine cmpLow_map' (F := fun w => if w.id = i then memRetWf k l w else w) rfl ?_ hlow
    intro w _
    split
    · obtain ⟨_, a2, a3, _, _, a6⟩ := memRetWf_fields k l w
      exact ⟨a2, by rw [a6]; exact Nat.le_refl _, fun h => by rw [a3]; exact h⟩
    · exact ⟨rfl, Nat.le_refl _, fun h => h⟩
  | issue i op lk vm =>
    simp only [legal, Bool.and_eq_true, List.any_eq_true, List.all_eq_true, beq_iff_eq, Bool.or_eq_true,
      bne_iff_ne] at hl
    refine cmpLow_map (j := i) rfl (cmpR_upd i (issueWf op lk vm) (fun _ => ⟨rfl, rfl, Nat.le_refl _⟩)) ?_ hlow
    intro v hv hvi
    rcases hl.2 v hv with hh | hh
    · exact absurd hvi hh
    · rw [hh]; decide
  | issueUnit i =>
    simp only [legal, Bool.and_eq_true, List.any_eq_true, List.all_eq_true, beq_iff_eq, Bool.or_eq_true,
      bne_iff_ne] at hl
    refine cmpLow_map (j := i) rfl
      (cmpR_upd i (fun w => { w with state := .running, op := 99, lk := 0, vm := 0 })
        (fun _ => ⟨rfl, rfl, Nat.le_refl _⟩)) ?_ hlow
    intro v hv hvi
    rcases hl.2 v hv with hh | hh
    · exact absurd hvi hh
    · rw [hh]; decide
  | unitDone i =>
    simp only [legal, Bool.and_eq_true, List.any_eq_true, List.all_eq_true, beq_iff_eq, Bool.or_eq_true,
      bne_iff_ne, Bool.not_eq_true', List.contains_eq_mem, decide_eq_false_iff_not] at hl
    refine cmpLow_map (j := i) rfl (cmpR_upd i setReady (fun _ => ⟨rfl, rfl, Nat.le_refl _⟩)) ?_ hlow
    intro v hv hvi
    rcases hl.1.2 v hv with hh | hh
    · exact absurd hvi hh
    · rw [hh.1]; decide

/-! ### the tags along a run -/

theorem cmp_accTrace_other (c : Cfg) (s : State) (o : Op) (ops : List Op) (h : ∀ i, o ≠ .issueUnit i) :
    accTrace c s (o :: ops) = accTrace c (step c s o).1 ops := by
  cases o with
  | issueUnit i => exact absurd rfl (h i)
  | _ => rfl

theorem cmp_accTrace_unit_some (c : Cfg) (s : State) (i : Nat) (ops : List Op) {w : Wf}
    (h : getWf s.wfs i = some w) :
    accTrace c s (.issueUnit i :: ops) = (i, w.wg, w.arr) :: accTrace c (step c s (.issueUnit i)).1 ops := by
  simp only [accTrace, h]; rfl

theorem cmp_accTrace_unit_none (c : Cfg) (s : State) (i : Nat) (ops : List Op)
    (h : getWf s.wfs i = none) :
    accTrace c s (.issueUnit i :: ops) = accTrace c (step c s (.issueUnit i)).1 ops := by
  simp only [accTrace, h]; rfl

/-- the barrier-phase tags of the unit instructions of group `g` along a run -/
def cmpTags (c : Cfg) (s : State) (ops : List Op) (g : Nat) : List Nat :=
  ((accTrace c s ops).filter (fun e => e.2.1 == g)).map (fun e => e.2.2)

/-- from any state with the invariant: the tags of group `g` are at least the current bound and
    non-decreasing -/
theorem cmp_phase_aux {c : Cfg} (hA : c.fixA = true) (hB : c.fixB = true) (g : Nat) :
    ∀ (ops : List Op) (s : State) (b : Nat), Inv s → legalRun c s ops = true → cmpLow g b s →
      (∀ t ∈ cmpTags c s ops g, b ≤ t) ∧ (cmpTags c s ops g).Pairwise (· ≤ ·) := by
  intro ops
  induction ops with
  | nil =>
    intro s b _ _ _
    exact ⟨fun t ht => (by cases ht), List.Pairwise.nil⟩
  | cons o ops ih =>
    intro s b hI hl hlow
    simp only [legalRun, Bool.and_eq_true] at hl
    have hI' := step_Inv (c := c) hA hB hI hl.1
    have hlow' := cmp_step_low (c := c) hA hB hI hl.1 hlow
    have other : (∀ i, o ≠ .issueUnit i) →
        (∀ t ∈ cmpTags c s (o :: ops) g, b ≤ t) ∧ (cmpTags c s (o :: ops) g).Pairwise (· ≤ ·) := by
      intro hne
      unfold cmpTags
      rw [cmp_accTrace_other c s o ops hne]
      exact ih _ b hI' hl.2 hlow'
    cases o with
    | issueUnit i =>
      cases hget : getWf s.wfs i with
      | none =>
        unfold cmpTags
        rw [cmp_accTrace_unit_none c s i ops hget]
        exact ih _ b hI' hl.2 hlow'
      | some w =>
        obtain ⟨hw, hi⟩ := getWf_some hget
        have hleg := hl.1
        simp only [legal, Bool.and_eq_true, List.any_eq_true, List.all_eq_true, beq_iff_eq,
          Bool.or_eq_true, bne_iff_ne] at hleg
        have hr : w.state = .ready := by
          rcases hleg.2 w hw with hh | hh
          · exact absurd hi hh
          · exact hh
        by_cases hg : w.wg = g
        · have htag : cmpTags c s (.issueUnit i :: ops) g =
              w.arr :: cmpTags c (step c s (.issueUnit i)).1 ops g := by
            unfold cmpTags
            rw [cmp_accTrace_unit_some c s i ops hget,
              List.filter_cons_of_pos (by simp [hg])]
            rfl
          have harr : w.arr = w.bar := (hI.ghost w hw).2.1 hr
          have hbw : b ≤ w.bar := hlow w hw hg (by rw [hr]; decide)
          have hlowW : cmpLow g w.bar s :=
            fun v hv hvg hvc => hI.bars w hw v hv (hg.trans hvg.symm) hvc
          have hlowW' := cmp_step_low (c := c) hA hB hI hl.1 hlowW
          obtain ⟨t1, t2⟩ := ih _ w.bar hI' hl.2 hlowW'
          rw [htag]
          constructor
          · intro t ht
            rcases List.mem_cons.mp ht with rfl | ht
            · rw [harr]; exact hbw
            · exact Nat.le_trans hbw (t1 t ht)
          · rw [List.pairwise_cons]
            exact ⟨fun t ht => by rw [harr]; exact t1 t ht, t2⟩
        · have htag : cmpTags c s (.issueUnit i :: ops) g =
              cmpTags c (step c s (.issueUnit i)).1 ops g := by
            unfold cmpTags
            rw [cmp_accTrace_unit_some c s i ops hget,
              List.filter_cons_of_neg (by simp [hg])]
          rw [htag]
          exact ih _ b hI' hl.2 hlow'
    | _ => exact other (by intro i hh; cases hh)

/-- **phase_cut.** Along every legal run of the repaired scheduler the barrier-phase tags of the unit
    instructions of one work-group are non-decreasing in issue order. -/
theorem phase_cut (c : Cfg) (hA : c.fixA = true) (hB : c.fixB = true) (s : State) (ops : List Op)
    (h0 : Init s) (hl : legalRun c s ops = true) (g : Nat) :
    (((accTrace c s ops).filter (fun e => e.2.1 == g)).map (fun e => e.2.2)).Pairwise (· ≤ ·) := by
  have hlow : cmpLow g 0 s := fun _ _ _ _ => Nat.zero_le _
  exact (cmp_phase_aux hA hB g ops s 0 (Init_Inv h0) hl hlow).2

/-- a schedule whose tags are non-decreasing is the concatenation of its phases -/
theorem sorted_is_phase_cut {α : Type} (K : Nat) (l : List (α × Nat))
    (hs : (l.map (·.2)).Pairwise (· ≤ ·)) (hK : ∀ e ∈ l, e.2 < K) :
    l.map (·.1) = (phasesOf K l).flatten := by
  unfold phasesOf
  rw [← cmp_phase_prefix l hs K, List.filter_eq_self.mpr]
  intro a ha
  exact decide_eq_true (hK a ha)

theorem runPhases_flatten {L : Type} (ps : List (List (Nat × Act L))) (σ : CfgS L) :
    runPhases ps σ = runS ps.flatten σ := by
  induction ps generalizing σ with
  | nil => rfl
  | cons p ps ih =>
    rw [runPhases_cons, ih, List.flatten_cons]
    unfold runS
    rw [List.foldl_append]

/-- **timing_issue_order_equals_emulator_phase_order.** Every legal run of the repaired scheduler,
    every work-group `g` (wavefront ids `< n`, fewer than `K` barrier phases), every assignment of
    accesses to its unit instructions such that the accesses of one phase have honest footprints and
    are race-free: performing the accesses in the order in which the scheduler issued them ends in
    the configuration of the emulator's order — phase by phase, inside a phase wavefront 0
    completely, then wavefront 1, …. -/
theorem timing_issue_order_equals_emulator_phase_order {L : Type} (c : Cfg) (hA : c.fixA = true)
    (hB : c.fixB = true) (s : State) (ops : List Op) (h0 : Init s) (hl : legalRun c s ops = true)
    (g n K : Nat) (lab : Nat → Act L)
    (hK : ∀ e ∈ tagged c s ops g lab, e.2 < K)
    (hps : ∀ p ∈ phasesOf K (tagged c s ops g lab), (∀ e ∈ p, e.2.WF) ∧ RaceFree p ∧ ∀ e ∈ p, e.1 < n)
    (σ : CfgS L) :
    runS ((tagged c s ops g lab).map (·.1)) σ =
      runPhases ((phasesOf K (tagged c s ops g lab)).map (emuOrder n)) σ := by
  have htags : (tagged c s ops g lab).map (·.2) =
      ((accTrace c s ops).filter (fun e => e.2.1 == g)).map (fun e => e.2.2) := by
    unfold tagged
    rw [List.map_map]
    exact cmp_zipIdx_map (fun e : Nat × Nat × Nat => e.2.2) _ 0
  have hsorted : ((tagged c s ops g lab).map (·.2)).Pairwise (· ≤ ·) := by
    rw [htags]; exact phase_cut c hA hB s ops h0 hl g
  rw [sorted_is_phase_cut K (tagged c s ops g lab) hsorted hK, ← runPhases_flatten]
  have hp : ∀ p ∈ phasesOf K (tagged c s ops g lab), (∀ e ∈ p, e.2.WF) ∧ RaceFree p :=
    fun p h => ⟨(hps p h).1, (hps p h).2.1⟩
  symm
  apply runPhases_sameThreads _ ((phasesOf K (tagged c s ops g lab)).map (emuOrder n)) hp (by simp)
  intro k p p' h1 h2
  rw [List.getElem?_map, h1] at h2
  simp only [Option.map_some, Option.some.injEq] at h2
  subst h2
  exact sameThreads_emuOrder n p (hps p (List.mem_of_getElem? h1)).2.2

end C14
