import MgpuProofs.C18SysHistNode
import MgpuProofs.C18SysHistGlob
import MgpuProofs.C18SysLive2
/-! C18 system level, part 7: every node is a run of the single-engine model; all invariants over
runs; the end-to-end chain from an answer at the L1 side back to the responder of the owner. -/
namespace C18

/-- a system move acts on a node only through the engine's own `step` -/
theorem sstep_node (y : Sys) (o : SOp) (b : Nat) (B' : Node) (hb : (sstep y o).nodes[b]? = some B') :
    ∃ B, y.nodes[b]? = some B ∧ B'.cfg = B.cfg ∧ (B'.s = B.s ∨ ∃ op, B'.s = step B.cfg B.s op) ∧
      (B'.l2done = B.l2done ∨ ∃ b j d, o = SOp.l2ans b j d) := by
  have keep : y.nodes[b]? = some B' → ∃ B, y.nodes[b]? = some B ∧ B'.cfg = B.cfg ∧
      (B'.s = B.s ∨ ∃ op, B'.s = step B.cfg B.s op) ∧
      (B'.l2done = B.l2done ∨ ∃ b j d, o = SOp.l2ans b j d) := fun h => ⟨B', h, rfl, Or.inl rfl, Or.inl rfl⟩
  have upd : ∀ (i : Nat) (A nd' : Node), y.nodes[i]? = some A → (y.nodes.set i nd')[b]? = some B' →
      nd'.cfg = A.cfg → (∃ op, nd'.s = step A.cfg A.s op) →
      (nd'.l2done = A.l2done ∨ ∃ b j d, o = SOp.l2ans b j d) →
      ∃ B, y.nodes[b]? = some B ∧ B'.cfg = B.cfg ∧ (B'.s = B.s ∨ ∃ op, B'.s = step B.cfg B.s op) ∧
      (B'.l2done = B.l2done ∨ ∃ b j d, o = SOp.l2ans b j d) := by
    intro i A nd' hA h hc hs hl
    rcases getElem?_set' h with ⟨h1, h2, _⟩ | ⟨_, h2⟩
    · subst h1; subst h2; exact ⟨A, hA, hc, Or.inr hs, hl⟩
    · exact keep h2
  cases o with
  | issue a src pl =>
    simp only [sstep] at hb
    split at hb
    · exact keep hb
    · next A hA =>
      split at hb
      · exact upd a A _ hA hb rfl ⟨Op.reqI src pl, rfl⟩ (Or.inl rfl)
      · exact keep hb
  | ctl a k =>
    simp only [sstep] at hb
    split at hb
    · exact keep hb
    · next A hA => exact upd a A _ hA hb rfl ⟨Op.ctl k, rfl⟩ (Or.inl rfl)
  | tick a =>
    simp only [sstep] at hb
    split at hb
    · exact keep hb
    · next A hA => exact upd a A _ hA hb rfl ⟨Op.tick, rfl⟩ (Or.inl rfl)
  | sendQ a =>
    simp only [sstep] at hb
    split at hb
    · exact keep hb
    · next A hA =>
      split at hb
      · exact keep hb
      · exact upd a A _ hA hb rfl ⟨Op.takeFwdI, rfl⟩ (Or.inl rfl)
  | delivQ j =>
    simp only [sstep] at hb
    split at hb
    · exact keep hb
    · split at hb
      · exact keep hb
      · next B hB =>
        split at hb
        · exact upd _ B _ hB hb rfl ⟨Op.reqO _ _, rfl⟩ (Or.inl rfl)
        · exact keep hb
  | l2take a =>
    simp only [sstep] at hb
    split at hb
    · exact keep hb
    · next A hA =>
      split at hb
      · exact keep hb
      · exact upd a A _ hA hb rfl ⟨Op.takeFwdO, rfl⟩ (Or.inl rfl)
  | l2ans a j d =>
    simp only [sstep] at hb
    split at hb
    · exact keep hb
    · next A hA =>
      split at hb
      · exact keep hb
      · split at hb
        · exact upd a A _ hA hb rfl ⟨Op.rspO _, rfl⟩ (Or.inr ⟨_, _, _, rfl⟩)
        · exact keep hb
  | sendR a =>
    simp only [sstep] at hb
    split at hb
    · exact keep hb
    · next A hA =>
      split at hb
      · exact keep hb
      · split at hb
        · exact keep hb
        · exact upd a A _ hA hb rfl ⟨Op.takeAnsO, rfl⟩ (Or.inl rfl)
  | delivR j =>
    simp only [sstep] at hb
    split at hb
    · exact keep hb
    · split at hb
      · exact keep hb
      · next A hA =>
        split at hb
        · exact upd _ A _ hA hb rfl ⟨Op.rspI _, rfl⟩ (Or.inl rfl)
        · exact keep hb
  | l1take a =>
    simp only [sstep] at hb
    split at hb
    · exact keep hb
    · next A hA =>
      split at hb
      · exact keep hb
      · exact upd a A _ hA hb rfl ⟨Op.takeAnsI, rfl⟩ (Or.inl rfl)
  | ctake a =>
    simp only [sstep] at hb
    split at hb
    · exact keep hb
    · next A hA =>
      split at hb
      · exact keep hb
      · exact upd a A _ hA hb rfl ⟨Op.takeCtl, rfl⟩ (Or.inl rfl)

/-- the engine state is reachable by the single-engine model -/
def Reach (c : Cfg) (s : St) : Prop := ∃ eops : List Op, s = run c eops

theorem reach_step {c : Cfg} {s : St} (h : Reach c s) (op : Op) : Reach c (step c s op) := by
  obtain ⟨eops, rfl⟩ := h
  exact ⟨eops ++ [op], by simp [run, List.foldl_append]⟩

/-- every node is a copy of the engine model -/
def NodesReach (cfgs : List Cfg) (y : Sys) : Prop :=
  ∀ (b : Nat) (B : Node), y.nodes[b]? = some B → cfgs[b]? = some B.cfg ∧ Reach B.cfg B.s

theorem nodesReach_init (cfgs : List Cfg) : NodesReach cfgs (initSys cfgs) := by
  intro b B hb
  simp only [initSys, List.getElem?_map, Option.map_eq_some_iff] at hb
  obtain ⟨c, hc, rfl⟩ := hb
  exact ⟨hc, [], rfl⟩

theorem nodesReach_step (cfgs : List Cfg) (y : Sys) (o : SOp) (h : NodesReach cfgs y) :
    NodesReach cfgs (sstep y o) := by
  intro b B' hb
  obtain ⟨B, hB, hc, hs, _⟩ := sstep_node y o b B' hb
  obtain ⟨h1, h2⟩ := h b B hB
  rw [hc]
  refine ⟨h1, ?_⟩
  rcases hs with hs | ⟨op, hs⟩
  · rw [hs]; exact h2
  · rw [hs]; exact reach_step h2 op

theorem cfgOk_step (y : Sys) (o : SOp) (h : CfgOk y) : CfgOk (sstep y o) := by
  constructor
  intro b B' hb
  obtain ⟨B, hB, hc, _, _⟩ := sstep_node y o b B' hb
  rw [hc]; exact h.ok b B hB

theorem shist_init (cfgs : List Cfg) : SHist (initSys cfgs) := by
  refine ⟨?_, ghist_init cfgs, ghistR_init cfgs⟩
  intro b B hb
  simp only [initSys, List.getElem?_map, Option.map_eq_some_iff] at hb
  obtain ⟨c, _, rfl⟩ := hb
  exact nodeHist_init b c

theorem shist_step (y : Sys) (o : SOp) (hs : SInv y) (h : SHist y) : SHist (sstep y o) :=
  ⟨nodeHist_step y o hs h.node, ghist_step y o h.gq, ghistR_step y o h.gr⟩

/-- everything that holds in every state of the closed system, whatever the schedule -/
structure AllInv (cfgs : List Cfg) (y : Sys) : Prop where
  inv : SInv y
  hist : SHist y
  reach : NodesReach cfgs y

theorem allInv_init (cfgs : List Cfg) : AllInv cfgs (initSys cfgs) :=
  ⟨sinv_init cfgs, shist_init cfgs, nodesReach_init cfgs⟩

theorem allInv_step (cfgs : List Cfg) (y : Sys) (o : SOp) (h : AllInv cfgs y) : AllInv cfgs (sstep y o) :=
  ⟨sinv_step y o h.inv, shist_step y o h.inv h.hist, nodesReach_step cfgs y o h.reach⟩

theorem allInv_run (cfgs : List Cfg) (ops : List SOp) : ∀ y, AllInv cfgs y → AllInv cfgs (srun y ops) := by
  unfold srun
  induction ops with
  | nil => intro y h; exact h
  | cons o os ih => intro y h; exact ih _ (allInv_step cfgs y o h)

theorem reach_inv {c : Cfg} {s : St} (h : Reach c s) : Inv c s := by
  obtain ⟨eops, rfl⟩ := h
  exact inv_run c eops

theorem fwd_unique {route : Nat → Option Nat} {c : Chan} (h : CInv route c) {f g : FwdRec}
    (hf : f ∈ c.fwd) (hg : g ∈ c.fwd) (he : f.out.fid = g.out.fid) : f = g := by
  have hn := h.fidNodup
  generalize c.fwd = l at hf hg hn
  induction l with
  | nil => cases hf
  | cons z zs ih =>
    simp only [List.map_cons, List.nodup_cons] at hn
    simp only [List.mem_cons] at hf hg
    rcases hf with rfl | hf <;> rcases hg with rfl | hg
    · rfl
    · exact absurd (List.mem_map.mpr ⟨g, hg, he.symm⟩) hn.1
    · exact absurd (List.mem_map.mpr ⟨f, hf, he⟩) hn.1
    · exact ih hf hg hn.2

theorem mem_of_count_pos {α} [BEq α] [LawfulBEq α] {l : List α} {x : α} (h : 0 < l.count x) : x ∈ l :=
  List.count_pos_iff.mp h

theorem count_pos_of_mem {α} [BEq α] [LawfulBEq α] {l : List α} {x : α} (h : x ∈ l) : 0 < l.count x :=
  List.count_pos_iff.mpr h

/-- what the end-to-end theorem says about one answer `x` received by the L1 side of node `a` -/
structure E2E (y : Sys) (a : Nat) (A : Node) (x : OutRsp) : Prop where
  /-- it answers a request `q` the L1 side of `a` issued, by its id, to its source; the owner `b` of
      `q`'s address according to `a`'s remote table received at its L2 side a clone `c'` with `q`'s
      payload, and `x` carries the data the responder of `b` gave for `c'` -/
  req : ∃ q ∈ A.sent, x.rspTo = q.id ∧ x.dst = q.src ∧
    ∃ (b : Nat) (B : Node), routeOut A.cfg (addrOf q.pl) = some b ∧ y.nodes[b]? = some B ∧
    ∃ c' ∈ B.l2all, c'.pl = q.pl ∧ (c', x.data) ∈ B.l2done

/-- the chain, link by link -/
theorem e2e_of_allInv (cfgs : List Cfg) (y : Sys) (h : AllInv cfgs y) (a : Nat) (A : Node)
    (hA : y.nodes[a]? = some A) (x : OutRsp) (hx : x ∈ A.got) : E2E y a A x := by
  have hAh := h.hist.node a A hA
  have hAc := reach_inv (h.reach a A hA).2
  -- x was sent by the engine: an answer record α
  have h1 : x ∈ A.s.io.ans.map (·.out) := by
    have := hAh.got x
    exact mem_of_count_pos (by have := count_pos_of_mem hx; omega)
  obtain ⟨α, hα, rfl⟩ := List.mem_map.mp h1
  obtain ⟨hid, hdst, r, hr, hrto, hrdata, hrbad⟩ := hAc.1.ansOk α hα
  obtain ⟨φ0, hφ0, hφ0o, hφ0f⟩ := cinv_ans_forwarded hAc.1 α hα
  -- the request was issued
  have hsent : α.orig ∈ A.sent := by
    have := hAh.sent α.orig
    have hp : 0 < (A.s.io.fwd.map (·.orig)).count α.orig :=
      count_pos_of_mem (List.mem_map.mpr ⟨φ0, hφ0, hφ0o⟩)
    exact mem_of_count_pos (by omega)
  -- the reply r came over the network from some node B
  have hr' : r = ⟨r.rspTo, r.data, false⟩ := by cases r; simp only [Rsp.mk.injEq, true_and]; exact hrbad
  have h2 : 0 < (y.nodes.flatMap outToks).count (a, r) := by
    have := h.hist.gr a A hA r
    have := count_pos_of_mem hr
    omega
  have h2' := mem_of_count_pos h2
  obtain ⟨B, hBm, hm⟩ := List.mem_flatMap.mp h2'
  obtain ⟨b, hb, rfl⟩ := List.mem_iff_getElem.mp hBm
  have hB : y.nodes[b]? = some y.nodes[b] := List.getElem?_eq_getElem hb
  generalize y.nodes[b] = B at hB hm
  have hBh := h.hist.node b B hB
  have hBc := reach_inv (h.reach b B hB).2
  simp only [outToks, List.mem_map] at hm
  obtain ⟨m, hmo, hme⟩ := hm
  simp only [tokRD, Prod.mk.injEq] at hme
  obtain ⟨hmd, hmr⟩ := hme
  obtain ⟨_, nm, hnm, hnk, hnf, hna⟩ := hBh.outName m hmo
  -- the answer record β of B
  have h3 : outOfNRsp m ∈ B.s.oi.ans.map (·.out) := by
    have := hBh.out (outOfNRsp m)
    have hp : 0 < (B.outAll.map outOfNRsp).count (outOfNRsp m) := count_pos_of_mem (List.mem_map.mpr ⟨m, hmo, rfl⟩)
    exact mem_of_count_pos (by omega)
  obtain ⟨β, hβ, hβo⟩ := List.mem_map.mp h3
  obtain ⟨hβid, hβdst, r', hr'm, hr'to, hr'data, _⟩ := hBc.2.ansOk β hβ
  obtain ⟨φ', hφ', hφ'o, hφ'f⟩ := cinv_ans_forwarded hBc.2 β hβ
  -- r' is an answer of B's responder
  rw [hBh.del] at hr'm
  obtain ⟨p, hp, hpr⟩ := List.mem_map.mp hr'm
  have hpl2 := hBh.doneSub p hp
  have h4 : p.1 ∈ B.s.oi.fwd.map (·.out) := by
    have := hBh.l2all p.1
    have := count_pos_of_mem hpl2
    exact mem_of_count_pos (by omega)
  obtain ⟨φ'', hφ'', hφ''o⟩ := List.mem_map.mp h4
  have hpfid : p.1.fid = β.fid := by rw [← hr'to, ← hpr]; rfl
  have hφeq : φ'' = φ' := fwd_unique hBc.2 hφ'' hφ' (by rw [hφ''o, hφ'f, hpfid])
  -- the request β.orig is the delivery nm
  have h5 : β.orig ∈ B.namesAll.map nameReq := by
    have := hBh.names β.orig
    have hpz : 0 < (B.s.oi.fwd.map (·.orig)).count β.orig := count_pos_of_mem (List.mem_map.mpr ⟨φ', hφ', hφ'o⟩)
    exact mem_of_count_pos (by omega)
  obtain ⟨nm', hnm', hnm'e⟩ := List.mem_map.mp h5
  have hβk : β.orig.id = m.k := by
    rw [← hβid, hβo]; rfl
  have hnmeq : nm' = nm := by
    apply names_unique hBh.allNodup hnm' hnm
    have : nm'.k = β.orig.id := by rw [← hnm'e]; rfl
    rw [this, hβk, hnk]
  -- the clone nm.c was sent by A
  have hnaa : nm.a = a := by rw [hna, hmd]
  have h6 : 0 < (A.s.io.fwd.map (·.out)).count nm.c := by
    have := h.hist.gq a A hA nm.c
    have hp6 : 0 < (y.nodes.flatMap nameToksAll).count (a, nm.c) := by
      apply count_pos_of_mem
      refine List.mem_flatMap.mpr ⟨B, List.mem_of_getElem? hB, ?_⟩
      simp only [nameToksAll, List.mem_map]
      exact ⟨nm, hnm, by rw [hnaa]⟩
    omega
  obtain ⟨φ, hφ, hφo⟩ := List.mem_map.mp (mem_of_count_pos h6)
  have hrfid : r.rspTo = m.fid := by rw [← hmr]
  have hφeq0 : φ = φ0 := fwd_unique hAc.1 hφ hφ0 (by rw [hφo, hφ0f, ← hrto, hrfid, hnf])
  have hfa := hAc.1.faithful φ0 hφ0
  have hfb := hBc.2.faithful φ' hφ'
  refine ⟨⟨α.orig, hsent, hid, hdst, b, B, ?_, hB, p.1, hpl2, ?_, ?_⟩⟩
  · -- owner
    have : φ0.out.dst = b := by rw [← hφeq0, hφo]; exact hBh.allDst nm hnm
    rw [← hφ0o, ← this]; exact hfa.2
  · -- payload
    have e1 : p.1.pl = φ'.orig.pl := by rw [← hφ''o, hφeq]; exact hfb.1
    have e2 : φ'.orig.pl = nm.c.pl := by
      rw [hφ'o, ← hnm'e, hnmeq]; rfl
    have e3 : nm.c.pl = φ0.orig.pl := by rw [← hφo, hφeq0]; exact hfa.1
    rw [e1, e2, e3, hφ0o]
  · -- data
    have e1 : p.2 = r'.data := by rw [← hpr]; rfl
    have e2 : β.out.data = m.data := by rw [hβo]; rfl
    have e3 : m.data = r.data := by rw [← hmr]
    have : p.2 = α.out.data := by rw [e1, hr'data, e2, e3, hrdata]
    rw [← this]
    exact hp

end C18
