import MgpuModel.C02Wf
/-! Hypotheses (`Inst.WF`, `Prog.WF`) and the simulation invariant for the wavefront machine of C02. -/
namespace C02.Wf

/-- what `emu.ALU` guarantees about an instruction with the declared operand lists -/
structure Inst.WF (i : Inst) : Prop where
  f_frame : ∀ p r x, x ∉ i.wr → i.f p r x = r x
  f_dep : ∀ p r r', (∀ x ∈ i.rd ++ i.wr, r x = r' x) → ∀ x ∈ i.wr, i.f p r x = i.f p r' x
  tgt_dep : ∀ r r' p, (∀ x ∈ i.rd, r x = r' x) → i.tgt r p = i.tgt r' p
  tgt_rel : ∀ r p, i.tgt r (pcAdd p i.size) = pcAdd (i.tgt r p) i.size
  wrD_sub : ∀ r x, x ∈ i.wrD r → x ∈ i.wr
  ld_frame : ∀ r m x, x ∉ i.wrD r → i.ld r m x = r x
  dep_static : ∀ r r', (∀ x ∈ i.rd, r x = r' x) →
    i.wrD r = i.wrD r' ∧ i.fpl r = i.fpl r' ∧ i.noTxn r = i.noTxn r'
  ld_depR : ∀ r r' m, (∀ x ∈ i.rd, r x = r' x) → ∀ x ∈ i.wrD r, i.ld r m x = i.ld r' m x
  ld_depM : ∀ r m m', (∀ a, i.fp r a = true → m a = m' a) → ∀ x ∈ i.wrD r, i.ld r m x = i.ld r m' x
  st_frame : i.isStore = true → ∀ r m a, i.fp r a = false → i.stf r m a = m a
  st_dep : i.isStore = true → ∀ r r' m m' a, (∀ x ∈ i.rd, r x = r' x) → i.fp r a = true →
    i.stf r m a = i.stf r' m' a
  noTxn_ld : ∀ r, i.noTxn r = true → i.wrD r = []
  noTxn_st : ∀ r a, i.noTxn r = true → i.fp r a = false
  size_le : i.size ≤ 8

/-- `alu.Run` does not look at the PC (false for `s_getpc_b64`) -/
def Inst.PcIndep (i : Inst) : Prop := ∀ p p' r, i.f p r = i.f p' r

/-- only the scalar unit presents the emulator's PC to `alu.Run`; instructions of the other ALU
    units must not look at it (none does) -/
def Inst.PcOK (i : Inst) : Prop := ∀ u, i.kind = .alu u → u ≠ 0 → i.PcIndep

structure Prog.WF (P : Prog) : Prop where
  /-- the repaired compute unit -/
  fixed : P.oldCU = false
  inst : ∀ l i, P.dec l = some i → i.WF ∧ i.PcOK
  /-- the decoder looks at the first `size` bytes only and needs them all -/
  pfx : ∀ l i, P.dec l = some i → i.size ≤ l.length ∧
    ∀ l', l'.take i.size = l.take i.size → P.dec l' = some i

/-! ## the invariant, by component -/

/-- counters, and the static over-approximation `H` of what is in flight -/
def Pend.key (p : Pend) : Inst × Ranges := (p.inst, p.inst.fpl p.r0)

structure InvC (vm lgkm : Nat) (vq sq : List Pend) (H : HState) : Prop where
  cvm : vm = vq.length
  clgkm : lgkm = vq.length + sq.length
  vsuf : vq.map Pend.key <:+ H.pv
  smem : ∀ p ∈ sq, p.key ∈ H.ps
  /-- a load and a store in flight together touch different bytes -/
  pls : ∀ p ∈ vq ++ sq, ∀ q ∈ vq ++ sq, p.inst.isLoad = true → q.inst.isStore = true →
    ∀ a, ¬ (p.inst.fp p.r0 a = true ∧ q.inst.fp q.r0 a = true)

/-- registers: the emulator's file is the timing file with every load in flight already applied -/
structure InvR (regs : RF) (mem : Mem) (pd : List Pend) (eregs : RF) : Prop where
  r1 : ∀ x, (∀ p ∈ pd, p.inst.isLoad = true → x ∉ p.inst.wrD p.r0) → eregs x = regs x
  r2 : ∀ p ∈ pd, p.inst.isLoad = true → ∀ x ∈ p.inst.wrD p.r0,
    eregs x = p.inst.ld p.r0 (p.served.getD mem) x

/-- memory: the emulator's memory is the timing memory with every unperformed store applied -/
structure InvM (own : Nat → Bool) (mem : Mem) (vq : List Pend) (emem : Mem) : Prop where
  m1 : ∀ a, own a = true →
    (∀ p ∈ vq, p.inst.isStore = true → p.served = none → p.inst.fp p.r0 a = false) → emem a = mem a
  m2 : ∀ p ∈ vq, p.inst.isStore = true → p.served = none → ∀ a, p.inst.fp p.r0 a = true →
    emem a = p.inst.stf p.r0 mem a

/-- instruction fetch: the buffer is a window of the (immutable) instruction memory, a decoded
    instruction is the emulator's instruction at the PC -/
structure InvF (P : Prog) (ibStart : Nat) (ib : List Nat) (toIssue : Option Inst) (ph : Phase) (pc : Nat) : Prop where
  ibok : ∀ k (h : k < ib.length), ib[k] = P.imem (ibStart + k)
  tok : ∀ i, toIssue = some i → ph = .ready ∧ P.instAt pc = some i

/-- control: where the emulator is relative to the wavefront's phase -/
def InvP (P : Prog) (ph : Phase) (cur : Option Inst) (pc : Nat) (trace : List Nat) (vq sq : List Pend)
    (E : EState) : Prop :=
  match ph with
  | .ready => E.pc = pc ∧ E.trace = trace ∧ E.done = false
  | .issued => ∃ i, cur = some i ∧ P.instAt pc = some i ∧ E.pc = pc ∧ trace = E.trace ++ [pc] ∧ E.done = false
  | .executed => ∃ i, cur = some i ∧ (i.kind = .branch ∨ ∃ u, i.kind = .alu u) ∧
      E.pc = (if i.kind = .alu 0 then pc else pcAdd pc i.size) ∧ trace = E.trace ∧ E.done = false
  | .done => E.done = true ∧ trace = E.trace ∧ vq = [] ∧ sq = []

def PendOK (P : Prog) (p : Pend) : Prop :=
  (∃ l, P.dec l = some p.inst) ∧ (∀ a, p.inst.fp p.r0 a = true → P.own a = true) ∧
  (p.inst.isStore = true → ∀ a, p.inst.fp p.r0 a = true → P.wown a = true)

structure Inv (P : Prog) (T : TState) (E : EState) (H : HState) : Prop where
  c : InvC T.vm T.lgkm T.vq T.sq H
  r : InvR T.regs T.mem (T.vq ++ T.sq) E.regs
  m : InvM P.own T.mem T.vq E.mem
  f : InvF P T.ibStart T.ib T.toIssue T.ph T.pc
  p : InvP P T.ph T.cur T.pc T.trace T.vq T.sq E
  /-- every instruction in flight came out of the decoder and touches owned memory only -/
  pdec : ∀ p ∈ T.vq ++ T.sq, PendOK P p

/-- the emulator (with the hazard check next to it) has executed some number of instructions and
    is in the relation with the timing state -/
def Sim (P : Prog) (x0 : EState × HState) (T : TState) : Prop :=
  ∃ n E H, ehrun P n x0 = some (E, H) ∧ Inv P T E H

end C02.Wf
