import MgpuModel.C05
import MgpuProofs.C12
/-! Helper lemmas for the schedule part of C05: the timed model has exactly the interleavings of
the protocol model `C12.step`; ids are handed out consecutively (so the completion order is a
function of the script); the ghost completion log of the timed model is the protocol's. -/
namespace C05
open C12 (APc RPc EPc Th)

/-! ## `T.step` is `C12.step` plus a clock -/

theorem T.step_proj {s s' : T.St} {t : Th} (h : T.step s t = some s') : C12.step s.p t = some s'.p := by
  unfold T.step at h
  cases hp : C12.step s.p t with
  | none => simp [hp] at h
  | some p' =>
    simp only [hp] at h
    injection h with h
    subst h
    congr 1
    unfold T.advance
    cases t
    · rfl
    · cases s.p.r <;> rfl
    · cases s.p.e
      case loop => by_cases he : s.p.evt = true <;> simp [he]
      case deq => cases s.p.cmds <;> rfl
      all_goals rfl

theorem T.step_lift (s : T.St) (t : Th) (p' : C12.St) (h : C12.step s.p t = some p') :
    ∃ s', T.step s t = some s' ∧ s'.p = p' := by
  refine ⟨T.advance s t p', by simp [T.step, h], ?_⟩
  unfold T.advance
  cases t
  · rfl
  · cases s.p.r <;> rfl
  · cases s.p.e
    case loop => by_cases he : s.p.evt = true <;> simp [he]
    case deq => cases s.p.cmds <;> rfl
    all_goals rfl

theorem T.reach_proj {s : T.St} (h : T.Reach s) : C12.Reach s.p := by
  induction h with
  | init rounds => exact C12.Reach.init rounds
  | step t _ hs ih => exact C12.Reach.step t ih (T.step_proj hs)

theorem T.runSched_proj (ts : List Th) : ∀ {s s' : T.St}, T.runSched s ts = some s' →
    C12.runSched s.p ts = some s'.p := by
  induction ts with
  | nil => intro s s' h; simp [T.runSched] at h; subst h; rfl
  | cons t ts ih =>
    intro s s' h
    simp only [T.runSched] at h
    cases hs : T.step s t with
    | none => simp [hs] at h
    | some s1 =>
      simp only [hs] at h
      simp only [C12.runSched, T.step_proj hs]
      exact ih h

theorem T.runSched_reach (ts : List Th) : ∀ {s s' : T.St}, T.Reach s → T.runSched s ts = some s' → T.Reach s' := by
  induction ts with
  | nil => intro s s' hr h; simp [T.runSched] at h; subst h; exact hr
  | cons t ts ih =>
    intro s s' hr h
    simp only [T.runSched] at h
    cases hs : T.step s t with
    | none => simp [hs] at h
    | some s1 =>
      simp only [hs] at h
      exact ih (T.Reach.step t hr hs) h

theorem runSched_reach12 (ts : List Th) : ∀ {s s' : C12.St}, C12.Reach s → C12.runSched s ts = some s' → C12.Reach s' := by
  induction ts with
  | nil => intro s s' hr h; simp [C12.runSched] at h; subst h; exact hr
  | cons t ts ih =>
    intro s s' hr h
    simp only [C12.runSched] at h
    cases hs : C12.step s t with
    | none => simp [hs] at h
    | some s1 =>
      simp only [hs] at h
      exact ih (C12.Reach.step t hr hs) h

/-- the ghost completion log of the timed model, without the times, is the protocol's -/
theorem T.ctimes_step {s s' : T.St} {t : Th} (h : T.step s t = some s')
    (hi : s.ctimes.map (·.1) = s.p.completed) : s'.ctimes.map (·.1) = s'.p.completed := by
  unfold T.step at h
  cases hp : C12.step s.p t with
  | none => simp [hp] at h
  | some p' =>
    simp only [hp] at h
    injection h with h
    subst h
    unfold T.advance
    cases t
    · -- app
      simp only [C12.step] at hp
      have : p'.completed = s.p.completed := by
        split at hp
        · split at hp
          · simp at hp
          · injection hp with hp; subst hp; rfl
          · injection hp with hp; subst hp; rfl
        · split at hp <;> (injection hp with hp; subst hp; rfl)
        · simp at hp
        · split at hp <;> (injection hp with hp; subst hp; rfl)
        · split at hp <;> (injection hp with hp; subst hp; rfl)
        · simp at hp
      simpa [this] using hi
    · -- async
      simp only [C12.step] at hp
      have : p'.completed = s.p.completed := by
        split at hp
        · simp at hp
        · split at hp
          · simp at hp
          · injection hp with hp; subst hp; rfl
        · by_cases hrun : s.p.running = true <;> by_cases hsend : s.p.a = .sending <;>
            simp only [hrun, hsend, if_true, if_false] at hp <;>
            (injection hp with hp; subst hp; rfl)
      cases hr : s.p.r <;> simpa [this] using hi
    · -- eng
      simp only [C12.step] at hp
      cases he : s.p.e <;> simp only [he] at hp ⊢
      · simp at hp
      · injection hp with hp; subst hp; simpa using hi
      · by_cases hev : s.p.evt = true <;> simp only [hev, if_true] at hp ⊢ <;>
          (injection hp with hp; subst hp; simpa using hi)
      · cases hc : s.p.cmds with
        | nil => simp only [hc] at hp; injection hp with hp; subst hp; simpa using hi
        | cons c cs =>
          simp only [hc] at hp; injection hp with hp; subst hp
          simp [hi]
      · split at hp
        · split at hp <;> (injection hp with hp; subst hp; simpa using hi)
        · injection hp with hp; subst hp; simpa using hi
      · injection hp with hp; subst hp; simpa using hi
      · split at hp <;> (injection hp with hp; subst hp; simpa using hi)

theorem T.ctimes_reach {s : T.St} (h : T.Reach s) : s.ctimes.map (·.1) = s.p.completed := by
  induction h with
  | init rounds => rfl
  | step t _ hs ih => exact T.ctimes_step hs ih

/-! ## ids are consecutive: the completion order is a function of the script -/

/-- `total` = number of commands the whole script submits -/
structure OInv (total : Nat) (s : C12.St) : Prop where
  pos : 1 ≤ s.nextId
  sub : s.submitted = List.range' 1 (s.nextId - 1)
  left : (s.nextId - 1) + s.rounds.sum = total
  idle_done : s.a = .idle → s.rounds = [] → s.cmds = []

theorem oinv_init (rounds : List Nat) : OInv rounds.sum (C12.init rounds) := by
  constructor <;> simp [C12.init]

theorem oinv_step (total : Nat) (s s' : C12.St) (t : Th) (h : OInv total s) (hs : C12.step s t = some s') :
    OInv total s' := by
  obtain ⟨h1, h2, h3, h4⟩ := h
  cases t <;> simp only [C12.step] at hs
  · split at hs
    · split at hs
      · simp at hs
      · -- drain starts
        rename_i ks hr
        injection hs with hs; subst hs
        exact ⟨h1, h2, by simpa [hr] using h3, by simp⟩
      · -- enqueue
        rename_i k ks hr
        injection hs with hs; subst hs
        refine ⟨by simp, ?_, ?_, by simp⟩
        · show s.submitted ++ [s.nextId] = List.range' 1 (s.nextId + 1 - 1)
          have : s.nextId + 1 - 1 = (s.nextId - 1) + 1 := by omega
          rw [this, List.range'_concat, h2]
          congr 2
          omega
        · show (s.nextId + 1 - 1) + (k :: ks).sum = total
          simp only [hr, List.sum_cons] at h3
          simp only [List.sum_cons]
          omega
    · split at hs <;> (injection hs with hs; subst hs; exact ⟨h1, h2, h3, by simp⟩)
    · simp at hs
    · split at hs
      · rename_i hc
        injection hs with hs; subst hs
        exact ⟨h1, h2, h3, fun _ _ => hc⟩
      · injection hs with hs; subst hs; exact ⟨h1, h2, h3, by simp⟩
    · split at hs <;> (injection hs with hs; subst hs; exact ⟨h1, h2, h3, by simp⟩)
    · simp at hs
  · split at hs
    · simp at hs
    · split at hs
      · simp at hs
      · injection hs with hs; subst hs; exact ⟨h1, h2, h3, h4⟩
    · by_cases hrun : s.running = true <;> by_cases hsend : s.a = .sending <;>
        simp only [hrun, hsend, if_true, if_false] at hs <;>
        (injection hs with hs; subst hs) <;>
        first
          | exact ⟨h1, h2, h3, h4⟩
          | exact ⟨h1, h2, h3, by simp⟩
  · split at hs
    · simp at hs
    · injection hs with hs; subst hs; exact ⟨h1, h2, h3, h4⟩
    · split at hs <;> (injection hs with hs; subst hs; exact ⟨h1, h2, h3, h4⟩)
    · split at hs
      · injection hs with hs; subst hs; exact ⟨h1, h2, h3, h4⟩
      · rename_i c cs hc
        injection hs with hs; subst hs
        refine ⟨h1, h2, h3, ?_⟩
        intro ha hr
        have := h4 ha hr
        simp [hc] at this
    · split at hs
      · split at hs
        · rename_i hw
          injection hs with hs; subst hs
          exact ⟨h1, h2, h3, by simp⟩
        · injection hs with hs; subst hs; exact ⟨h1, h2, h3, h4⟩
      · injection hs with hs; subst hs; exact ⟨h1, h2, h3, h4⟩
    · injection hs with hs; subst hs; exact ⟨h1, h2, h3, h4⟩
    · split at hs <;> (injection hs with hs; subst hs; exact ⟨h1, h2, h3, h4⟩)

theorem oinv_run (total : Nat) (ts : List Th) : ∀ {s s' : C12.St}, OInv total s →
    C12.runSched s ts = some s' → OInv total s' := by
  induction ts with
  | nil => intro s s' hi h; simp [C12.runSched] at h; subst h; exact hi
  | cons t ts ih =>
    intro s s' hi h
    simp only [C12.runSched] at h
    cases hs : C12.step s t with
    | none => simp [hs] at h
    | some s1 =>
      simp only [hs] at h
      exact ih (oinv_step total s s1 t hi hs) h

end C05
