import MgpuModel.Gen.AddrTrans
import MgpuProofs.C16Ctl
/-! # C16 — arithmetic helpers for the regenerated address computation -/
namespace C16
open Gen.AT

theorem u64_eq : U64 = 2 ^ 64 := by decide

theorem shr_shl_le (a lg : Nat) : (a >>> lg) <<< lg ≤ a := by
  rw [Nat.shiftLeft_eq, Nat.shiftRight_eq_div_pow]
  exact Nat.div_mul_le_self a (2 ^ lg)

theorem one_shl_mod (lg : Nat) (hlg : lg < 64) : (1 <<< lg) % U64 = 2 ^ lg := by
  rw [Nat.one_shiftLeft, u64_eq]
  exact Nat.mod_eq_of_lt (Nat.pow_lt_pow_right (by decide) hlg)

end C16
