import MgpuModel.C20_Sys
/-! # C20 — occupancy ("every child is in exactly one place") lemmas and leaf exclusivity -/
namespace C20

/-! ## `get` / `upd` -/

theorem get_nil {α} [Inhabited α] (k : Nat) : get ([] : List α) k = default := by
  cases k <;> rfl

theorem get_upd {α} [Inhabited α] (l : List α) (i : Nat) (v : α) (k : Nat) :
    get (upd l i v) k = if k = i then v else get l k := by
  induction l generalizing i k with
  | nil =>
    induction i generalizing k with
    | zero => cases k <;> simp [upd, get]
    | succ i ih =>
      cases k with
      | zero => simp [upd, get]
      | succ k => simp [upd, get, ih]
  | cons x xs ih =>
    cases i with
    | zero => cases k <;> simp [upd, get]
    | succ i =>
      cases k with
      | zero => simp [upd, get]
      | succ k => simp [upd, get, ih]

theorem get_upd_self {α} [Inhabited α] (l : List α) (i : Nat) (v : α) : get (upd l i v) i = v := by
  simp [get_upd]

theorem get_upd_ne {α} [Inhabited α] (l : List α) (i : Nat) (v : α) (k : Nat) (h : k ≠ i) :
    get (upd l i v) k = get l k := by
  simp [get_upd, h]

/-! ## occupancy of child `j` at one level -/

variable {α : Type}

/-- number of places child `j` is in: free list, a unit on its way to it, its incoming buffer,
    busy (`b j`), its outgoing buffer, completion message on its way to the parent -/
def occ (l : Level α) (b : Nat → Nat) (j : Nat) : Nat :=
  l.free.count j + (l.pOut.map Prod.fst).count j + (get l.cIn j).length + b j + get l.cOut j
    + l.pIn.count j

theorem occ_congr (l : Level α) {b b' : Nat → Nat} {j : Nat} (h : b j = b' j) :
    occ l b j = occ l b' j := by
  simp [occ, h]

/-- `occ` only looks at these fields -/
theorem occ_eq_of_fields {l l' : Level α} (b : Nat → Nat) (j : Nat)
    (h1 : l'.free = l.free) (h2 : l'.pOut = l.pOut) (h3 : l'.cIn = l.cIn) (h4 : l'.cOut = l.cOut)
    (h5 : l'.pIn = l.pIn) : occ l' b j = occ l b j := by
  simp [occ, h1, h2, h3, h4, h5]

theorem occ_dispatch (l : Level α) (b : Nat → Nat) (j : Nat) :
    occ l.dispatch.1 b j = occ l b j := by
  unfold Level.dispatch
  split
  · rename_i f fs u us hf hu
    split
    · rename_i l' hs
      unfold Level.send at hs
      split at hs
      · cases hs
      · cases hs
        simp [occ, hf, List.count_cons, List.count_append]
        omega
    · rfl
  · rfl

theorem occ_procUp (l : Level α) (b : Nat → Nat) (j : Nat) :
    occ l.procUp.1 b j = occ l b j := by
  unfold Level.procUp
  split
  · rfl
  · rename_i k rest hp
    simp [occ, hp, List.count_cons, List.count_append]
    omega

theorem occ_childSend {l l' : Level α} {i : Nat} (h : l.childSend i = some l')
    (b b' : Nat → Nat) (j : Nat) (hb : b' j + (if j = i then 1 else 0) = b j) :
    occ l' b' j = occ l b j := by
  unfold Level.childSend at h
  simp only at h
  split at h
  · cases h
  · cases h
    simp only [occ, get_upd]
    split <;> simp_all <;> omega

theorem occ_childTake {l l' : Level α} {i : Nat} {u : α} {wf : Bool}
    (h : l.childTake i = some (u, l', wf))
    (b b' : Nat → Nat) (j : Nat) (hb : b' j = b j + (if j = i then 1 else 0)) :
    occ l' b' j = occ l b j := by
  unfold Level.childTake at h
  split at h
  · cases h
  · rename_i u0 rest hc
    simp only [Option.some.injEq, Prod.mk.injEq] at h
    obtain ⟨_, h, _⟩ := h
    subst h
    simp only [occ, get_upd]
    split
    · rename_i hji
      subst hji
      simp [hc, hb]; omega
    · rename_i hji
      simp [hb, hji]

theorem fwdDown_count (pOut : List (Nat × α)) (cIn : List (List α)) (j : Nat) :
    ((Level.fwdDown pOut cIn).1.map Prod.fst).count j + (get (Level.fwdDown pOut cIn).2.1 j).length
      = (pOut.map Prod.fst).count j + (get cIn j).length := by
  induction pOut generalizing cIn with
  | nil => simp [Level.fwdDown]
  | cons p rest ih =>
    obtain ⟨i, u⟩ := p
    unfold Level.fwdDown
    simp only
    split
    · rfl
    · simp only [ih, get_upd, List.map_cons, List.count_cons]
      split <;> simp_all <;> omega

theorem occ_fwdPort (o : Level.ConnOut α) (p : Nat) (b : Nat → Nat) (j : Nat) :
    occ (Level.fwdPort o p).l b j = occ o.l b j := by
  unfold Level.fwdPort
  cases p with
  | zero =>
    simp only [occ]
    have := fwdDown_count o.l.pOut o.l.cIn j
    omega
  | succ k =>
    simp only [occ, get_upd, List.count_append, List.count_replicate]
    split <;> simp_all <;> omega

theorem occ_fwdPort_foldl (ps : List Nat) (f : Nat → Nat) (o : Level.ConnOut α) (b : Nat → Nat) (j : Nat) :
    occ (ps.foldl (fun o i => Level.fwdPort o (f i)) o).l b j = occ o.l b j := by
  induction ps generalizing o with
  | nil => rfl
  | cons p ps ih => simp only [List.foldl_cons, ih, occ_fwdPort]

theorem occ_connTick (l : Level α) (b : Nat → Nat) (j : Nat) :
    occ l.connTick.l b j = occ l b j := by
  unfold Level.connTick
  simp only
  rw [← occ_fwdPort_foldl (List.range (l.n + 1)) (fun i => (i + l.rr) % (l.n + 1)) { l := l } b j]
  exact occ_eq_of_fields b j rfl rfl rfl rfl rfl

/-! ## waking components changes nothing but `awake` flags -/

section wake
variable (f : Nat → Nat)

@[simp] theorem wakeGpu_l2 (s : Sys) (g : Nat) : (wakeGpu s g).l2 = s.l2 := rfl
@[simp] theorem wakeGpu_subs (s : Sys) (g : Nat) : (wakeGpu s g).subs = s.subs := rfl
@[simp] theorem wakeGpu_G (s : Sys) (g : Nat) : (wakeGpu s g).G = s.G := rfl
@[simp] theorem wakeGpu_S (s : Sys) (g : Nat) : (wakeGpu s g).S = s.S := rfl
@[simp] theorem wakeGpu_C (s : Sys) (g : Nat) : (wakeGpu s g).C = s.C := rfl
@[simp] theorem wakeGpu_legacy (s : Sys) (g : Nat) : (wakeGpu s g).legacy = s.legacy := rfl
@[simp] theorem wakeSm_l2 (s : Sys) (g : Nat) : (wakeSm s g).l2 = s.l2 := rfl
@[simp] theorem wakeSm_subs (s : Sys) (g : Nat) : (wakeSm s g).subs = s.subs := rfl
@[simp] theorem wakeSm_G (s : Sys) (g : Nat) : (wakeSm s g).G = s.G := rfl
@[simp] theorem wakeSm_S (s : Sys) (g : Nat) : (wakeSm s g).S = s.S := rfl
@[simp] theorem wakeSm_C (s : Sys) (g : Nat) : (wakeSm s g).C = s.C := rfl
@[simp] theorem wakeSm_legacy (s : Sys) (g : Nat) : (wakeSm s g).legacy = s.legacy := rfl
@[simp] theorem wakeSub_l2 (s : Sys) (g : Nat) : (wakeSub s g).l2 = s.l2 := rfl
@[simp] theorem wakeSub_G (s : Sys) (g : Nat) : (wakeSub s g).G = s.G := rfl
@[simp] theorem wakeSub_S (s : Sys) (g : Nat) : (wakeSub s g).S = s.S := rfl
@[simp] theorem wakeSub_C (s : Sys) (g : Nat) : (wakeSub s g).C = s.C := rfl
@[simp] theorem wakeSub_legacy (s : Sys) (g : Nat) : (wakeSub s g).legacy = s.legacy := rfl

/-- the part of a sub-core that is not the `awake` flag -/
def Sub.core (sc : Sub) : Nat × Nat × Nat := (sc.rem, sc.fin, sc.insts)

@[simp] theorem wakeSub_core (s : Sys) (u k : Nat) :
    (get (wakeSub s u).subs k).core = (get s.subs k).core := by
  simp only [wakeSub, get_upd]
  split
  · rename_i h; subst h; rfl
  · rfl

/-- what `occ` at level 2 and the sub-core counters can see of a system -/
structure Frame2 (a b : Sys) : Prop where
  l2 : b.l2 = a.l2
  G : b.G = a.G
  S : b.S = a.S
  C : b.C = a.C
  legacy : b.legacy = a.legacy
  core : ∀ k, (get b.subs k).core = (get a.subs k).core

theorem Frame2.refl (a : Sys) : Frame2 a a := ⟨rfl, rfl, rfl, rfl, rfl, fun _ => rfl⟩

theorem Frame2.wakeGpu {a b : Sys} (h : Frame2 a b) (g : Nat) : Frame2 a (wakeGpu b g) :=
  ⟨h.l2, h.G, h.S, h.C, h.legacy, h.core⟩

theorem Frame2.wakeSm {a b : Sys} (h : Frame2 a b) (g : Nat) : Frame2 a (wakeSm b g) :=
  ⟨h.l2, h.G, h.S, h.C, h.legacy, h.core⟩

theorem Frame2.wakeSub {a b : Sys} (h : Frame2 a b) (g : Nat) : Frame2 a (wakeSub b g) :=
  ⟨h.l2, h.G, h.S, h.C, h.legacy, fun k => by rw [wakeSub_core, h.core]⟩

theorem Frame2.wakeManyGpu {a b : Sys} (h : Frame2 a b) (ks : List Nat) :
    Frame2 a (wakeMany C20.wakeGpu f b ks) := by
  induction ks generalizing b with
  | nil => exact h
  | cons k ks ih => exact ih (h.wakeGpu _)

theorem Frame2.wakeManySm {a b : Sys} (h : Frame2 a b) (ks : List Nat) :
    Frame2 a (wakeMany C20.wakeSm f b ks) := by
  induction ks generalizing b with
  | nil => exact h
  | cons k ks ih => exact ih (h.wakeSm _)

theorem Frame2.wakeManySub {a b : Sys} (h : Frame2 a b) (ks : List Nat) :
    Frame2 a (wakeMany C20.wakeSub f b ks) := by
  induction ks generalizing b with
  | nil => exact h
  | cons k ks ih => exact ih (h.wakeSub _)

theorem Frame2.ite {a b c : Sys} (p : Prop) [Decidable p] (hb : Frame2 a b) (hc : Frame2 a c) :
    Frame2 a (if p then b else c) := by
  split <;> assumption

end wake

/-! ## leaf exclusivity -/

/-- a sub-core is busy with a warp (`rem > 0`) and/or holds unreported finished warps -/
def subBusy (sc : Sub) : Nat := (if sc.rem = 0 then 0 else 1) + sc.fin

theorem subBusy_core {a b : Sub} (h : a.core = b.core) : subBusy a = subBusy b := by
  simp only [Sub.core, Prod.mk.injEq] at h
  simp [subBusy, h.1, h.2.1]

/-- busy function of the sub-cores of SM `m` -/
def busy2 (s : Sys) (m : Nat) (k : Nat) : Nat := subBusy (get s.subs (m * s.C + k))

/-- every sub-core of every SM is in exactly one place -/
def Excl (s : Sys) : Prop :=
  ∀ m j, m < s.G * s.S → j < s.C → occ (get s.l2 m) (busy2 s m) j = 1

theorem Excl.frame {a b : Sys} (h : Frame2 a b) (ha : Excl a) : Excl b := by
  intro m j hm hj
  rw [h.G, h.S] at hm
  rw [h.C] at hj
  rw [h.l2, ← ha m j hm hj]
  apply occ_congr
  simp only [busy2, h.C]
  exact subBusy_core (h.core _)

theorem frame2_tickDriver (s : Sys) : Frame2 s (tickDriver s) := by
  unfold tickDriver
  dsimp only
  apply Frame2.ite
  · apply Frame2.wakeManyGpu
    exact ⟨rfl, rfl, rfl, rfl, rfl, fun _ => rfl⟩
  · exact ⟨rfl, rfl, rfl, rfl, rfl, fun _ => rfl⟩

theorem frame2_tickGpu (s : Sys) (g : Nat) : Frame2 s (tickGpu s g) := by
  unfold tickGpu
  dsimp only
  apply Frame2.ite
  · apply Frame2.wakeManySm
    apply Frame2.ite
    · apply Frame2.wakeManyGpu
      exact ⟨rfl, rfl, rfl, rfl, rfl, fun _ => rfl⟩
    · exact ⟨rfl, rfl, rfl, rfl, rfl, fun _ => rfl⟩
  · apply Frame2.ite
    · apply Frame2.wakeManyGpu
      exact ⟨rfl, rfl, rfl, rfl, rfl, fun _ => rfl⟩
    · exact ⟨rfl, rfl, rfl, rfl, rfl, fun _ => rfl⟩

theorem frame2_tickConn0 (s : Sys) : Frame2 s (tickConn0 s) := by
  unfold tickConn0
  dsimp only
  apply Frame2.wakeManyGpu
  exact ⟨rfl, rfl, rfl, rfl, rfl, fun _ => rfl⟩

theorem frame2_tickConn1 (s : Sys) (g : Nat) : Frame2 s (tickConn1 s g) := by
  unfold tickConn1
  dsimp only
  apply Frame2.wakeManySm
  apply Frame2.ite
  · apply Frame2.wakeGpu
    exact ⟨rfl, rfl, rfl, rfl, rfl, fun _ => rfl⟩
  · exact ⟨rfl, rfl, rfl, rfl, rfl, fun _ => rfl⟩

/-- replacing the level of SM `m` by one with the same occupancies keeps `Excl` -/
theorem Excl.updL2 {s : Sys} (m : Nat) (l' : Level Warp)
    (hl : ∀ b j, occ l' b j = occ (get s.l2 m) b j) (h : Excl s) :
    Excl { s with l2 := upd s.l2 m l' } := by
  intro m' j hm hj
  have := h m' j hm hj
  simp only [get_upd]
  split
  · rename_i e; subst e
    rw [hl]; exact this
  · exact this

theorem excl_tickConn2 (s : Sys) (m : Nat) (h : Excl s) : Excl (tickConn2 s m) := by
  unfold tickConn2
  dsimp only
  refine Excl.frame ?_ (Excl.updL2 m (get s.l2 m).connTick.l (fun b j => occ_connTick _ b j) h)
  apply Frame2.wakeManySub
  apply Frame2.ite
  · apply Frame2.wakeSm
    exact ⟨rfl, rfl, rfl, rfl, rfl, fun _ => rfl⟩
  · exact ⟨rfl, rfl, rfl, rfl, rfl, fun _ => rfl⟩

theorem occ_addWork (l : Level α) (us : List α) (n : Nat) (b : Nat → Nat) (j : Nat) :
    occ { l with undisp := l.undisp ++ us, unfin := l.unfin + n } b j = occ l b j := rfl

theorem excl_tickSm (s : Sys) (m : Nat) (h : Excl s) : Excl (tickSm s m) := by
  unfold tickSm
  extract_lets g j sm lg r d p2 d1 t p fin s1 s2
  have hoc : ∀ b j, occ p.1 b j = occ (get s.l2 m) b j := by
    intro b j
    rw [occ_procUp]
    show occ (t.2.1) b j = _
    simp only [t]
    split
    · exact occ_dispatch _ b j
    · exact (occ_addWork _ _ _ b j).trans (occ_dispatch _ b j)
  refine Excl.frame ?_ (Excl.updL2 m p.1 hoc h)
  apply Frame2.ite
  · apply Frame2.wakeManySub
    apply Frame2.ite
    · apply Frame2.wakeManySm
      apply Frame2.wakeGpu
      exact ⟨rfl, rfl, rfl, rfl, rfl, fun _ => rfl⟩
    · exact ⟨rfl, rfl, rfl, rfl, rfl, fun _ => rfl⟩
  · apply Frame2.ite
    · apply Frame2.wakeManySm
      apply Frame2.wakeGpu
      exact ⟨rfl, rfl, rfl, rfl, rfl, fun _ => rfl⟩
    · exact ⟨rfl, rfl, rfl, rfl, rfl, fun _ => rfl⟩

theorem Excl.of_C0 {s : Sys} (h : s.C = 0) : Excl s := by
  intro m j _ hj
  omega

theorem sub_index {C m j u : Nat} (hj : j < C) : m * C + j = u ↔ m = u / C ∧ j = u % C := by
  have hC : 0 < C := by omega
  constructor
  · intro e
    subst e
    constructor
    · rw [Nat.mul_comm, Nat.mul_add_div hC, Nat.div_eq_of_lt hj, Nat.add_zero]
    · rw [Nat.mul_comm, Nat.mul_add_mod, Nat.mod_eq_of_lt hj]
  · rintro ⟨rfl, rfl⟩
    rw [Nat.mul_comm]
    exact Nat.div_add_mod u C

/-- replacing the level of SM `u / C` and sub-core `u` (its child `u % C`) -/
theorem Excl.updSub {s : Sys} (u : Nat) (l' : Level Warp) (sc' : Sub)
    (hne : ∀ b j, j ≠ u % s.C → occ l' b j = occ (get s.l2 (u / s.C)) b j)
    (heq : ∀ b b', b (u % s.C) = subBusy (get s.subs u) → b' (u % s.C) = subBusy sc' →
      occ (get s.l2 (u / s.C)) b (u % s.C) = 1 → occ l' b' (u % s.C) = 1)
    (h : Excl s) : Excl { s with l2 := upd s.l2 (u / s.C) l', subs := upd s.subs u sc' } := by
  intro m j hm hj
  have h1 := h m j hm hj
  have hi := sub_index (m := m) (u := u) hj
  show occ (get (upd s.l2 (u / s.C) l') m) (fun k => subBusy (get (upd s.subs u sc') (m * s.C + k))) j = 1
  simp only [get_upd]
  by_cases hmm : m = u / s.C
  · subst hmm
    simp only [if_true]
    by_cases hjj : j = u % s.C
    · subst hjj
      refine heq (busy2 s (u / s.C)) _ ?_ ?_ h1
      · simp only [busy2]
        rw [hi.2 ⟨rfl, rfl⟩]
      · rw [if_pos (hi.2 ⟨rfl, rfl⟩)]
    · rw [← h1, ← hne _ j hjj]
      apply occ_congr
      have : ¬ (u / s.C * s.C + j = u) := fun e => hjj (hi.1 e).2
      simp only [this, if_false, busy2]
  · simp only [hmm, if_false]
    rw [← h1]
    apply occ_congr
    have : ¬ (m * s.C + j = u) := fun e => hmm (hi.1 e).1
    simp only [this, if_false, busy2]

theorem childTake_some_len {l l' : Level α} {i : Nat} {u : α} {wf : Bool}
    (h : l.childTake i = some (u, l', wf)) : 1 ≤ (get l.cIn i).length := by
  unfold Level.childTake at h
  split at h
  · cases h
  · rename_i hc; simp [hc]

theorem occ_ge (l : Level α) (b : Nat → Nat) (j : Nat) : (get l.cIn j).length + b j ≤ occ l b j := by
  simp only [occ]; omega

theorem childSend_cIn {l l' : Level α} {i : Nat} (h : l.childSend i = some l') : l'.cIn = l.cIn := by
  unfold Level.childSend at h
  simp only at h
  split at h
  · cases h
  · cases h; rfl

theorem excl_tickSub (s : Sys) (u : Nat) (hl : s.legacy = false) (h : Excl s) : Excl (tickSub s u) := by
  unfold tickSub
  extract_lets m j sc lm r q
  have hr : (r.1 = lm ∧ r.2.1 = sc.fin) ∨ (lm.childSend j = some r.1 ∧ r.2.1 + 1 = sc.fin) := by
    simp only [r]
    split
    · left; exact ⟨rfl, rfl⟩
    · split
      · left; exact ⟨rfl, rfl⟩
      · rename_i hfin _ l' hs
        right; exact ⟨hs, by simp only; omega⟩
  have hr1 : ∀ b k, k ≠ j → occ r.1 b k = occ lm b k := by
    intro b k hk
    rcases hr with ⟨e, _⟩ | ⟨e, _⟩
    · rw [e]
    · exact occ_childSend e b b k (by simp [hk])
  have hr2 : ∀ b b', b' j + (sc.fin - r.2.1) = b j → occ r.1 b' j = occ lm b j := by
    intro b b' hb
    rcases hr with ⟨e, e2⟩ | ⟨e, e2⟩
    · rw [e]; apply occ_congr; omega
    · exact occ_childSend e b b' j (by simp only [if_true]; omega)
  have hr3 : r.2.1 ≤ sc.fin := by
    rcases hr with ⟨_, e2⟩ | ⟨_, e2⟩ <;> omega
  have hq : (if q.1 = 0 then 0 else 1) + q.2.1 = (if sc.rem = 0 then 0 else 1) + r.2.1 := by
    simp only [q]
    split
    · simp_all
    · simp only
      split <;> simp_all
      omega
  split
  · rename_i ht
    refine Excl.updSub u r.1 _ hr1 ?_ h
    intro b b' hb hb' hocc
    refine (hr2 b b' ?_).trans hocc
    rw [hb, hb']
    simp only [subBusy]
    show _ = (if sc.rem = 0 then 0 else 1) + sc.fin
    omega
  · rename_i n lm' wf ht
    dsimp only
    refine Excl.frame (a := ?A0) ?FR ?H1
    case FR =>
      apply Frame2.ite
      · apply Frame2.wakeManySub
        apply Frame2.wakeSm
        exact Frame2.refl _
      · exact Frame2.refl _
    case H1 =>
      refine Excl.updSub u lm' _ ?_ ?_ h
      · intro b k hk
        have hk' : k ≠ j := hk
        rw [← hr1 b k hk]
        exact occ_childTake ht b b k (by simp [hk'])
      · intro b b' hb hb' hocc
        have hmid : occ r.1 (fun _ => (if sc.rem = 0 then 0 else 1) + r.2.1) j = 1 := by
          refine (hr2 b _ ?_).trans hocc
          rw [hb]
          simp only [subBusy]
          show _ = (if sc.rem = 0 then 0 else 1) + sc.fin
          omega
        have hlen := childTake_some_len ht
        have hge := occ_ge r.1 (fun _ => (if sc.rem = 0 then 0 else 1) + r.2.1) j
        have hz : (if sc.rem = 0 then 0 else 1) + r.2.1 = 0 := by omega
        refine (occ_childTake ht _ b' _ ?_).trans hmid
        rw [if_pos (show u % s.C = j from rfl)]
        rw [hb', hz]
        simp only [subBusy, hl]
        have : q.1 = 0 ∧ q.2.1 = 0 := by
          rw [hz] at hq
          constructor
          · by_cases h0 : q.1 = 0
            · exact h0
            · simp [h0] at hq
          · omega
        by_cases hn : n = 0 <;> simp [hn, this.2]

/-! ## the shape and the `legacy` flag never change -/

structure Shape (a b : Sys) : Prop where
  G : b.G = a.G
  S : b.S = a.S
  C : b.C = a.C
  legacy : b.legacy = a.legacy

theorem Shape.refl (a : Sys) : Shape a a := ⟨rfl, rfl, rfl, rfl⟩

theorem Frame2.shape {a b : Sys} (h : Frame2 a b) : Shape a b := ⟨h.G, h.S, h.C, h.legacy⟩

theorem Shape.wakeMany {a b : Sys} (wake : Sys → Nat → Sys) (hw : ∀ s k, Shape s (wake s k))
    (f : Nat → Nat) (h : Shape a b) (ks : List Nat) : Shape a (wakeMany wake f b ks) := by
  induction ks generalizing b with
  | nil => exact h
  | cons k ks ih =>
    have := hw b (f k)
    exact ih ⟨this.G.trans h.G, this.S.trans h.S, this.C.trans h.C, this.legacy.trans h.legacy⟩

theorem Shape.ite {a b c : Sys} (p : Prop) [Decidable p] (hb : Shape a b) (hc : Shape a c) :
    Shape a (if p then b else c) := by
  split <;> assumption

theorem shape_wakeSub (s : Sys) (k : Nat) : Shape s (wakeSub s k) := ⟨rfl, rfl, rfl, rfl⟩
theorem shape_wakeSm (s : Sys) (k : Nat) : Shape s (wakeSm s k) := ⟨rfl, rfl, rfl, rfl⟩
theorem shape_wakeGpu (s : Sys) (k : Nat) : Shape s (wakeGpu s k) := ⟨rfl, rfl, rfl, rfl⟩

theorem shape_tickSm (s : Sys) (m : Nat) : Shape s (tickSm s m) := by
  unfold tickSm
  extract_lets g j sm lg r d p2 d1 t p fin s1 s2
  apply Shape.ite
  · apply Shape.wakeMany _ shape_wakeSub
    apply Shape.ite
    · apply Shape.wakeMany _ shape_wakeSm
      exact ⟨rfl, rfl, rfl, rfl⟩
    · exact ⟨rfl, rfl, rfl, rfl⟩
  · apply Shape.ite
    · apply Shape.wakeMany _ shape_wakeSm
      exact ⟨rfl, rfl, rfl, rfl⟩
    · exact ⟨rfl, rfl, rfl, rfl⟩

theorem shape_tickSub (s : Sys) (u : Nat) : Shape s (tickSub s u) := by
  unfold tickSub
  extract_lets m j sc lm r q
  split
  · exact ⟨rfl, rfl, rfl, rfl⟩
  · dsimp only
    apply Shape.ite
    · apply Shape.wakeMany _ shape_wakeSub
      exact ⟨rfl, rfl, rfl, rfl⟩
    · exact ⟨rfl, rfl, rfl, rfl⟩

theorem shape_tickConn2 (s : Sys) (m : Nat) : Shape s (tickConn2 s m) := by
  unfold tickConn2
  dsimp only
  apply Shape.wakeMany _ shape_wakeSub
  apply Shape.ite <;> exact ⟨rfl, rfl, rfl, rfl⟩

theorem shape_step (s : Sys) (e : Ev) : Shape s (step s e) := by
  cases e with
  | drv => exact (frame2_tickDriver s).shape
  | gpu g => exact (frame2_tickGpu s g).shape
  | sm m => exact shape_tickSm s m
  | sub u => exact shape_tickSub s u
  | c0 => exact (frame2_tickConn0 s).shape
  | c1 g => exact (frame2_tickConn1 s g).shape
  | c2 m => exact shape_tickConn2 s m

theorem shape_run (s : Sys) (evs : List Ev) : Shape s (run s evs) := by
  induction evs generalizing s with
  | nil => exact Shape.refl s
  | cons e evs ih =>
    have h1 := shape_step s e
    have h2 := ih (step s e)
    exact ⟨h2.G.trans h1.G, h2.S.trans h1.S, h2.C.trans h1.C, h2.legacy.trans h1.legacy⟩

theorem excl_step (s : Sys) (e : Ev) (hl : s.legacy = false) (h : Excl s) : Excl (step s e) := by
  cases e with
  | drv => exact h.frame (frame2_tickDriver s)
  | gpu g => exact h.frame (frame2_tickGpu s g)
  | sm m => exact excl_tickSm s m h
  | sub u => exact excl_tickSub s u hl h
  | c0 => exact h.frame (frame2_tickConn0 s)
  | c1 g => exact h.frame (frame2_tickConn1 s g)
  | c2 m => exact excl_tickConn2 s m h

theorem excl_run (s : Sys) (evs : List Ev) (hl : s.legacy = false) (h : Excl s) :
    Excl (run s evs) := by
  induction evs generalizing s with
  | nil => exact h
  | cons e evs ih =>
    exact ih (step s e) ((shape_step s e).legacy.trans hl) (excl_step s e hl h)

theorem get_replicate {β} [Inhabited β] (n : Nat) (x : β) (k : Nat) (h : k < n) :
    get (List.replicate n x) k = x := by
  induction n generalizing k with
  | zero => omega
  | succ n ih =>
    cases k with
    | zero => rfl
    | succ k => exact ih k (by omega)

theorem get_replicate_default {β} [Inhabited β] (n : Nat) (k : Nat) :
    get (List.replicate n (default : β)) k = default := by
  induction n generalizing k with
  | zero => exact get_nil k
  | succ n ih =>
    cases k with
    | zero => rfl
    | succ k => exact ih k

theorem count_range (n j : Nat) : (List.range n).count j = if j < n then 1 else 0 := by
  induction n with
  | zero => simp
  | succ n ih =>
    rw [List.range_succ, List.count_append, ih]
    simp only [List.count_cons, List.count_nil]
    split <;> split <;> simp_all <;> omega

theorem excl_init (G S C : Nat) (trace : List Kernel) : Excl (init false G S C trace) := by
  intro m j hm hj
  have hm' : m < G * S := hm
  have hj' : j < C := hj
  simp only [init]
  rw [get_replicate _ _ _ hm']
  have hu : m * C + j < G * S * C := by
    calc m * C + j < m * C + C := by omega
      _ = (m + 1) * C := by rw [Nat.add_mul, Nat.one_mul]
      _ ≤ G * S * C := Nat.mul_le_mul_right _ hm'
  simp only [occ, mkLevel, busy2]
  rw [get_replicate _ _ _ hu]
  have hd : (default : List Warp) = [] := rfl
  have hd' : (default : Nat) = 0 := rfl
  simp [get_nil, subBusy, hj', hd, hd']

/-- **Leaf exclusivity invariant**: along every event sequence of the repaired code, every
    sub-core of every SM is in exactly one place. -/
theorem excl_reachable (G S C : Nat) (trace : List Kernel) (evs : List Ev) :
    Excl (run (init false G S C trace) evs) :=
  excl_run _ evs rfl (excl_init G S C trace)

/-- In a state satisfying `Excl`, a sub-core whose incoming buffer holds a warp is idle: it has no
    instructions left and no unreported finished warp, so `tickSub`'s `rem := n` overwrites `0`. -/
theorem leaf_exclusive_of_excl (s : Sys) (h : Excl s) (u : Nat) (hu : u < s.G * s.S * s.C)
    (hne : get (get s.l2 (u / s.C)).cIn (u % s.C) ≠ []) :
    (get s.subs u).rem = 0 ∧ (get s.subs u).fin = 0 := by
  have hC : 0 < s.C := by
    rcases Nat.eq_zero_or_pos s.C with h0 | h0
    · rw [h0] at hu; omega
    · exact h0
  have hm : u / s.C < s.G * s.S := (Nat.div_lt_iff_lt_mul hC).2 hu
  have hj : u % s.C < s.C := Nat.mod_lt _ hC
  have h1 := h _ _ hm hj
  have hge := occ_ge (get s.l2 (u / s.C)) (busy2 s (u / s.C)) (u % s.C)
  have hlen : 1 ≤ (get (get s.l2 (u / s.C)).cIn (u % s.C)).length := by
    cases hc : get (get s.l2 (u / s.C)).cIn (u % s.C) with
    | nil => exact absurd hc hne
    | cons x xs => simp
  have hb : busy2 s (u / s.C) (u % s.C) = 0 := by omega
  have hidx : u / s.C * s.C + u % s.C = u := (sub_index hj).2 ⟨rfl, rfl⟩
  simp only [busy2, hidx, subBusy] at hb
  constructor
  · by_cases h0 : (get s.subs u).rem = 0
    · exact h0
    · simp [h0] at hb
  · omega

/-- **Leaf exclusivity**: along every event sequence (any shape, any trace, any events, including
    ticks of sleeping components and out-of-range indices) of the repaired code, whenever the
    incoming buffer of an in-range sub-core `u` holds a warp – in particular whenever `tickSub`
    takes one – that sub-core's `rem` and `fin` are both `0`. -/
theorem leaf_exclusive (G S C : Nat) (trace : List Kernel) (evs : List Ev) (u : Nat)
    (hu : u < G * S * C)
    (hne : get (get (run (init false G S C trace) evs).l2 (u / C)).cIn (u % C) ≠ []) :
    (get (run (init false G S C trace) evs).subs u).rem = 0 ∧
    (get (run (init false G S C trace) evs).subs u).fin = 0 := by
  have hs := shape_run (init false G S C trace) evs
  have hG : (run (init false G S C trace) evs).G = G := hs.G
  have hS : (run (init false G S C trace) evs).S = S := hs.S
  have hC : (run (init false G S C trace) evs).C = C := hs.C
  apply leaf_exclusive_of_excl _ (excl_reachable G S C trace evs) u
  · rw [hG, hS, hC]; exact hu
  · rw [hC]; exact hne

/-- the take branch of `tickSub` is entered exactly when the sub-core's incoming buffer is non-empty
    (reporting a finished warp first does not touch it) -/
theorem tickSub_take_cIn {l : Level α} {i : Nat} {l' : Level α} (h : l.childSend i = some l')
    (k : Nat) : (l'.childTake k).isSome = (l.childTake k).isSome := by
  unfold Level.childTake
  rw [childSend_cIn h]
  split <;> rfl

/-! ## who is woken by one connection tick (generic, for the no-stuck argument) -/

/-- the port-forwarding loop of `connTick` -/
def connFold (l : Level α) : Level.ConnOut α :=
  (List.range (l.n + 1)).foldl (fun o i => Level.fwdPort o ((i + l.rr) % (l.n + 1))) { l := l }

theorem connTick_eq (l : Level α) :
    l.connTick = { connFold l with
      l := { (connFold l).l with rr := (l.rr + 1) % (l.n + 1), connAwake := (connFold l).progress } } := rfl

/-- induction principle for the forwarding loop -/
theorem connFold_induct (l : Level α) (P : Level.ConnOut α → Prop) (h0 : P { l := l })
    (hs : ∀ o p, P o → P (Level.fwdPort o p)) : P (connFold l) := by
  unfold connFold
  generalize List.range (l.n + 1) = ps
  generalize ({ l := l } : Level.ConnOut α) = o at h0
  induction ps generalizing o with
  | nil => exact h0
  | cons p ps ih => exact ih _ (hs _ _ h0)

theorem fwdPort_parent_fields (o : Level.ConnOut α) (p : Nat) :
    (Level.fwdPort o p).l.n = o.l.n ∧ (Level.fwdPort o p).l.undisp = o.l.undisp ∧
    (Level.fwdPort o p).l.unfin = o.l.unfin ∧ (Level.fwdPort o p).l.free = o.l.free := by
  cases p <;> exact ⟨rfl, rfl, rfl, rfl⟩

theorem connTick_parent_fields (l : Level α) :
    l.connTick.l.n = l.n ∧ l.connTick.l.undisp = l.undisp ∧ l.connTick.l.unfin = l.unfin ∧
    l.connTick.l.free = l.free := by
  rw [connTick_eq]
  refine connFold_induct l (fun o => o.l.n = l.n ∧ o.l.undisp = l.undisp ∧ o.l.unfin = l.unfin ∧
    o.l.free = l.free) ⟨rfl, rfl, rfl, rfl⟩ ?_
  intro o p h
  have := fwdPort_parent_fields o p
  exact ⟨this.1.trans h.1, this.2.1.trans h.2.1, this.2.2.1.trans h.2.2.1, this.2.2.2.trans h.2.2.2⟩

theorem fwdPort_wakeChi_mono (o : Level.ConnOut α) (p x : Nat) (h : x ∈ o.wakeChi) :
    x ∈ (Level.fwdPort o p).wakeChi := by
  cases p with
  | zero => exact List.mem_append_left _ h
  | succ k =>
    simp only [Level.fwdPort]
    split
    · exact List.mem_append_left _ h
    · exact h

theorem fwdPort_wakePar_mono (o : Level.ConnOut α) (p : Nat) (h : o.wakePar = true) :
    (Level.fwdPort o p).wakePar = true := by
  cases p <;> simp [Level.fwdPort, h]

/-- delivery into an empty child buffer reports the child -/
theorem fwdDown_wake (pOut : List (Nat × α)) (cIn : List (List α)) (j : Nat)
    (h : get (Level.fwdDown pOut cIn).2.1 j ≠ []) :
    get cIn j ≠ [] ∨ j ∈ (Level.fwdDown pOut cIn).2.2.1 := by
  induction pOut generalizing cIn with
  | nil => left; simpa [Level.fwdDown] using h
  | cons p rest ih =>
    obtain ⟨i, u⟩ := p
    unfold Level.fwdDown at h ⊢
    simp only at h ⊢
    split
    · rename_i hfull
      rw [if_pos hfull] at h
      left; exact h
    · rename_i hfull
      rw [if_neg hfull] at h
      rcases ih _ h with h1 | h1
      · rw [get_upd] at h1
        by_cases hji : j = i
        · subst hji
          cases hb : get cIn j with
          | nil => right; simp
          | cons x xs => left; simp
        · rw [if_neg hji] at h1
          left; exact h1
      · right
        split
        · exact List.mem_cons_of_mem _ h1
        · exact h1

/-- (C1) a child whose incoming buffer became non-empty during a connection tick is woken -/
theorem connTick_wake_child (l : Level α) (j : Nat) (h : get l.connTick.l.cIn j ≠ []) :
    get l.cIn j ≠ [] ∨ j ∈ l.connTick.wakeChi := by
  rw [connTick_eq] at h ⊢
  revert h
  refine connFold_induct l (fun o => get o.l.cIn j ≠ [] → get l.cIn j ≠ [] ∨ j ∈ o.wakeChi)
    (fun h => Or.inl h) ?_
  intro o p ih h
  cases p with
  | zero =>
    rcases fwdDown_wake o.l.pOut o.l.cIn j h with h1 | h1
    · rcases ih h1 with h2 | h2
      · exact Or.inl h2
      · exact Or.inr (List.mem_append_left _ h2)
    · exact Or.inr (List.mem_append_right _ h1)
  | succ k =>
    rcases ih h with h2 | h2
    · exact Or.inl h2
    · exact Or.inr (fwdPort_wakeChi_mono o (k + 1) j h2)

/-- (C2) a parent whose incoming buffer became non-empty during a connection tick is woken -/
theorem connTick_wake_parent (l : Level α) (h : l.connTick.l.pIn ≠ []) :
    l.pIn ≠ [] ∨ l.connTick.wakePar = true := by
  rw [connTick_eq] at h ⊢
  revert h
  refine connFold_induct l (fun o => o.l.pIn ≠ [] → l.pIn ≠ [] ∨ o.wakePar = true)
    (fun h => Or.inl h) ?_
  intro o p ih h
  cases p with
  | zero =>
    rcases ih h with h2 | h2
    · exact Or.inl h2
    · exact Or.inr (fwdPort_wakePar_mono o 0 h2)
  | succ k =>
    by_cases he : o.l.pIn = []
    · right
      have hk : min (get o.l.cOut k) (cap - o.l.pIn.length) ≠ 0 := by
        intro hk
        apply h
        simp only [Level.fwdPort, hk, List.replicate_zero, List.append_nil]
        exact he
      rw [he] at hk
      simp only [List.length_nil, Nat.sub_zero] at hk
      have h1 : get o.l.cOut k ≠ 0 := fun e => hk (by rw [e]; exact Nat.zero_min _)
      have h2 : cap ≠ 0 := fun e => hk (by rw [e]; exact Nat.min_zero _)
      simp [Level.fwdPort, he, h1, h2]
    · rcases ih he with h2 | h2
      · exact Or.inl h2
      · exact Or.inr (fwdPort_wakePar_mono o (k + 1) h2)

/-- (C3) a child whose outgoing buffer left the full state during a connection tick is woken -/
theorem connTick_unblock_child (l : Level α) (j : Nat) (hfull : cap ≤ get l.cOut j)
    (h : get l.connTick.l.cOut j < cap) : j ∈ l.connTick.wakeChi := by
  rw [connTick_eq] at h ⊢
  revert h
  refine connFold_induct l (fun o => get o.l.cOut j < cap → j ∈ o.wakeChi)
    (fun h => absurd hfull (Nat.not_le.2 h)) ?_
  intro o p ih h
  cases p with
  | zero => exact fwdPort_wakeChi_mono o 0 j (ih h)
  | succ k =>
    by_cases hlt : get o.l.cOut j < cap
    · exact fwdPort_wakeChi_mono o (k + 1) j (ih hlt)
    · simp only [Level.fwdPort, get_upd] at h ⊢
      by_cases hjk : j = k
      · subst hjk
        simp only [if_true] at h
        have hk : min (get o.l.cOut j) (cap - o.l.pIn.length) ≠ 0 := by omega
        have hc : cap ≤ get o.l.cOut j := by omega
        simp [hk, hc]
      · rw [if_neg hjk] at h
        exact absurd h hlt

theorem fwdDown_length (pOut : List (Nat × α)) (cIn : List (List α)) :
    (Level.fwdDown pOut cIn).1.length + (Level.fwdDown pOut cIn).2.2.2 = pOut.length := by
  induction pOut generalizing cIn with
  | nil => simp [Level.fwdDown]
  | cons p rest ih =>
    obtain ⟨i, u⟩ := p
    unfold Level.fwdDown
    simp only
    split
    · simp
    · have := ih (upd cIn i (get cIn i ++ [u]))
      simp only [List.length_cons]
      omega

/-- (C4) a parent whose outgoing buffer left the full state during a connection tick is woken -/
theorem connTick_unblock_parent (l : Level α) (hfull : cap ≤ l.pOut.length)
    (h : l.connTick.l.pOut.length < cap) : l.connTick.wakePar = true := by
  rw [connTick_eq] at h ⊢
  revert h
  refine connFold_induct l (fun o => o.l.pOut.length < cap → o.wakePar = true)
    (fun h => absurd hfull (Nat.not_le.2 h)) ?_
  intro o p ih h
  cases p with
  | zero =>
    by_cases hlt : o.l.pOut.length < cap
    · exact fwdPort_wakePar_mono o 0 (ih hlt)
    · have hlen := fwdDown_length o.l.pOut o.l.cIn
      simp only [Level.fwdPort] at h ⊢
      have hk : (Level.fwdDown o.l.pOut o.l.cIn).2.2.2 ≠ 0 := by omega
      have hc : cap ≤ o.l.pOut.length := by omega
      simp [hk, hc]
  | succ k => exact fwdPort_wakePar_mono o (k + 1) (ih h)

/-! ### a connection tick without progress: nothing moved and every port is blocked -/

/-- port `p` (0 = parent, `j+1` = child `j`) has nothing it can forward -/
def portBlocked (l : Level α) : Nat → Prop
  | 0 => ∀ j u rest, l.pOut = (j, u) :: rest → cap ≤ (get l.cIn j).length
  | j + 1 => get l.cOut j = 0 ∨ cap ≤ l.pIn.length

theorem fwdDown_zero (pOut : List (Nat × α)) (cIn : List (List α))
    (h : (Level.fwdDown pOut cIn).2.2.2 = 0) :
    (Level.fwdDown pOut cIn).1 = pOut ∧ (Level.fwdDown pOut cIn).2.1 = cIn ∧
    ∀ j u rest, pOut = (j, u) :: rest → cap ≤ (get cIn j).length := by
  cases pOut with
  | nil => exact ⟨rfl, rfl, fun _ _ _ e => by cases e⟩
  | cons p rest =>
    obtain ⟨i, u⟩ := p
    unfold Level.fwdDown at h ⊢
    simp only at h ⊢
    split
    · rename_i hf
      refine ⟨rfl, rfl, ?_⟩
      intro j u' rest' e
      cases e
      exact hf
    · rename_i hf
      rw [if_neg hf] at h
      simp at h

/-- same level as far as the buffers are concerned (`cOut` compared as a total map) -/
def SameBufs (a b : Level α) : Prop :=
  b.pOut = a.pOut ∧ b.pIn = a.pIn ∧ b.cIn = a.cIn ∧ ∀ i, get b.cOut i = get a.cOut i

theorem portBlocked_same {a b : Level α} (h : SameBufs a b) (p : Nat) (hb : portBlocked b p) :
    portBlocked a p := by
  obtain ⟨h1, h2, h3, h4⟩ := h
  cases p with
  | zero => simpa only [portBlocked, h1, h3] using hb
  | succ k => simpa only [portBlocked, h2, h4] using hb

theorem fwdPort_noprogress (o : Level.ConnOut α) (p : Nat)
    (h : (Level.fwdPort o p).progress = false) :
    o.progress = false ∧ SameBufs o.l (Level.fwdPort o p).l ∧ portBlocked o.l p := by
  cases p with
  | zero =>
    simp only [Level.fwdPort, Bool.or_eq_false_iff, bne_eq_false_iff_eq] at h
    have := fwdDown_zero o.l.pOut o.l.cIn h.2
    exact ⟨h.1, ⟨this.1, rfl, this.2.1, fun _ => rfl⟩, this.2.2⟩
  | succ k =>
    simp only [Level.fwdPort, Bool.or_eq_false_iff, bne_eq_false_iff_eq] at h
    refine ⟨h.1, ⟨rfl, ?_, rfl, ?_⟩, ?_⟩
    · simp only [Level.fwdPort, h.2, List.replicate_zero, List.append_nil]
    · intro i
      simp only [Level.fwdPort, h.2, Nat.sub_zero, get_upd]
      split
      · rename_i e; rw [e]
      · rfl
    · simp only [portBlocked]
      have := h.2
      omega

theorem foldl_noprogress (ps : List Nat) (o : Level.ConnOut α)
    (h : (ps.foldl (fun o p => Level.fwdPort o p) o).progress = false) :
    o.progress = false ∧ SameBufs o.l (ps.foldl (fun o p => Level.fwdPort o p) o).l ∧
    ∀ p ∈ ps, portBlocked o.l p := by
  induction ps generalizing o with
  | nil => exact ⟨h, ⟨rfl, rfl, rfl, fun _ => rfl⟩, fun _ hp => by cases hp⟩
  | cons q ps ih =>
    simp only [List.foldl_cons] at h ⊢
    obtain ⟨h1, h2, h3⟩ := ih _ h
    obtain ⟨g1, g2, g3⟩ := fwdPort_noprogress o q h1
    refine ⟨g1, ?_, ?_⟩
    · obtain ⟨a1, a2, a3, a4⟩ := h2
      obtain ⟨b1, b2, b3, b4⟩ := g2
      exact ⟨a1.trans b1, a2.trans b2, a3.trans b3, fun i => (a4 i).trans (b4 i)⟩
    · intro p hp
      rcases List.mem_cons.1 hp with e | e
      · rw [e]; exact g3
      · exact portBlocked_same g2 p (h3 p e)

theorem rot_surj (np rr p : Nat) (hp : p < np) :
    p ∈ (List.range np).map (fun i => (i + rr) % np) := by
  refine List.mem_map.2 ⟨(p + np - rr % np) % np, List.mem_range.2 (Nat.mod_lt _ (by omega)), ?_⟩
  have hlt : rr % np < np := Nat.mod_lt _ (by omega)
  have e := Nat.div_add_mod rr np
  show ((p + np - rr % np) % np + rr) % np = p
  rw [Nat.mod_add_mod]
  have : p + np - rr % np + rr = p + np * (rr / np + 1) := by
    rw [Nat.mul_add, Nat.mul_one]
    omega
  rw [this, Nat.add_mul_mod_self_left, Nat.mod_eq_of_lt hp]

/-- (C5) if a connection tick goes to sleep (reports no progress) it moved nothing and every port
    `p ≤ n` was blocked: the head of the parent's outgoing buffer faces a full child buffer, and every
    child `j < n` with a pending completion faces a full parent buffer -/
theorem connTick_noprogress (l : Level α) (h : l.connTick.l.connAwake = false) :
    SameBufs l l.connTick.l ∧ ∀ p, p ≤ l.n → portBlocked l p := by
  have hf : connFold l = ((List.range (l.n + 1)).map (fun i => (i + l.rr) % (l.n + 1))).foldl
      (fun o p => Level.fwdPort o p) { l := l } := by
    rw [List.foldl_map]; rfl
  have h' : (connFold l).progress = false := h
  rw [hf] at h'
  obtain ⟨_, h2, h3⟩ := foldl_noprogress _ _ h'
  rw [← hf] at h2
  refine ⟨?_, fun p hp => h3 p (rot_surj _ _ p (by omega))⟩
  rw [connTick_eq]
  exact h2

/-! ## exactly which `awake` flags `wakeMany` sets -/

theorem wakeSub_awake (s : Sys) (u k : Nat) :
    (get (wakeSub s u).subs k).awake = ((get s.subs k).awake || decide (k = u)) := by
  simp only [wakeSub, get_upd]
  split
  · rename_i h; subst h; simp
  · rename_i h; simp [h]

theorem wakeMany_wakeSub_awake (f : Nat → Nat) (s : Sys) (ks : List Nat) (k : Nat) :
    (get (wakeMany wakeSub f s ks).subs k).awake
      = ((get s.subs k).awake || ks.any (fun i => decide (k = f i))) := by
  induction ks generalizing s with
  | nil => simp [wakeMany]
  | cons i ks ih =>
    have := ih (wakeSub s (f i))
    simp only [wakeMany, List.foldl_cons] at this ⊢
    rw [this, wakeSub_awake, List.any_cons, Bool.or_assoc]

theorem wakeSm_awake (s : Sys) (u k : Nat) :
    (get (wakeSm s u).sms k).awake = ((get s.sms k).awake || decide (k = u)) := by
  simp only [wakeSm, get_upd]
  split
  · rename_i h; subst h; simp
  · rename_i h; simp [h]

theorem wakeMany_wakeSm_awake (f : Nat → Nat) (s : Sys) (ks : List Nat) (k : Nat) :
    (get (wakeMany wakeSm f s ks).sms k).awake
      = ((get s.sms k).awake || ks.any (fun i => decide (k = f i))) := by
  induction ks generalizing s with
  | nil => simp [wakeMany]
  | cons i ks ih =>
    have := ih (wakeSm s (f i))
    simp only [wakeMany, List.foldl_cons] at this ⊢
    rw [this, wakeSm_awake, List.any_cons, Bool.or_assoc]

theorem wakeGpu_awake (s : Sys) (u k : Nat) :
    (get (wakeGpu s u).gpus k).awake = ((get s.gpus k).awake || decide (k = u)) := by
  simp only [wakeGpu, get_upd]
  split
  · rename_i h; subst h; simp
  · rename_i h; simp [h]

theorem wakeMany_wakeGpu_awake (f : Nat → Nat) (s : Sys) (ks : List Nat) (k : Nat) :
    (get (wakeMany wakeGpu f s ks).gpus k).awake
      = ((get s.gpus k).awake || ks.any (fun i => decide (k = f i))) := by
  induction ks generalizing s with
  | nil => simp [wakeMany]
  | cons i ks ih =>
    have := ih (wakeGpu s (f i))
    simp only [wakeMany, List.foldl_cons] at this ⊢
    rw [this, wakeGpu_awake, List.any_cons, Bool.or_assoc]

/-! ## the `∀ j, occ … j = 1` forms of the level lemmas -/

theorem occ1_dispatch {l : Level α} {b : Nat → Nat} (h : ∀ j, occ l b j = 1) :
    ∀ j, occ l.dispatch.1 b j = 1 := fun j => (occ_dispatch l b j).trans (h j)

theorem occ1_procUp {l : Level α} {b : Nat → Nat} (h : ∀ j, occ l b j = 1) :
    ∀ j, occ l.procUp.1 b j = 1 := fun j => (occ_procUp l b j).trans (h j)

theorem occ1_connTick {l : Level α} {b : Nat → Nat} (h : ∀ j, occ l b j = 1) :
    ∀ j, occ l.connTick.l b j = 1 := fun j => (occ_connTick l b j).trans (h j)

theorem occ1_fwdPort {o : Level.ConnOut α} {b : Nat → Nat} (p : Nat) (h : ∀ j, occ o.l b j = 1) :
    ∀ j, occ (Level.fwdPort o p).l b j = 1 := fun j => (occ_fwdPort o p b j).trans (h j)

theorem occ1_childSend {l l' : Level α} {i : Nat} (hs : l.childSend i = some l') {b b' : Nat → Nat}
    (hb : ∀ j, b' j + (if j = i then 1 else 0) = b j) (h : ∀ j, occ l b j = 1) :
    ∀ j, occ l' b' j = 1 := fun j => (occ_childSend hs b b' j (hb j)).trans (h j)

theorem occ1_childTake {l l' : Level α} {i : Nat} {u : α} {wf : Bool}
    (ht : l.childTake i = some (u, l', wf)) {b b' : Nat → Nat}
    (hb : ∀ j, b' j = b j + (if j = i then 1 else 0)) (h : ∀ j, occ l b j = 1) :
    ∀ j, occ l' b' j = 1 := fun j => (occ_childTake ht b b' j (hb j)).trans (h j)

end C20
