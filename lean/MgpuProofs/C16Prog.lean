import MgpuProofs.C16Mem
/-! # C16 — progress measure -/
namespace C16

/-- Weighted amount of work the translator still holds: an access waiting at the top port has
    9 steps ahead, one waiting in a transaction 5, each message in a buffer its remaining hops. -/
def mu (s : St) : Nat :=
  9 * s.topIn.length + 5 * (txIds s.txs).length + 3 * s.trOut.length + s.trIn.length +
  s.infl.length + 3 * s.botOut.length + s.botIn.length + s.topOut.length

theorem coalesce_len (lg : Nat) (a : Acc) : ∀ (txs txs' : List Tx), coalesce lg a txs = some txs' →
    (txIds txs').length = (txIds txs).length + 1 := by
  intro txs
  induction txs with
  | nil => intro txs' h; simp [coalesce] at h
  | cons t ts ih =>
    intro txs' h
    simp only [coalesce] at h
    split at h
    · cases h; simp; omega
    · cases hc : coalesce lg a ts with
      | none => simp [hc] at h
      | some r =>
        simp [hc] at h
        subst h
        have := ih r hc
        simp [this]; omega

theorem popFirst_len (p : Tx → Bool) : ∀ (txs : List Tx) (t : Tx) (txs' : List Tx),
    popFirst p txs = some (t, txs') → t.reqs ≠ [] → (txIds txs').length + 1 = (txIds txs).length := by
  intro txs
  induction txs with
  | nil => intro t txs' h; simp [popFirst] at h
  | cons t0 ts ih =>
    intro t txs' h hne
    simp only [popFirst] at h
    split at h
    · simp only [Option.some.injEq, Prod.mk.injEq] at h
      obtain ⟨rfl, rfl⟩ := h
      cases hr : t0.reqs with
      | nil => exact absurd hr hne
      | cons a rs =>
        split
        · rename_i he; simp [hr] at he; subst he; simp [hr]
        · simp [hr]
    · cases hc : popFirst p ts with
      | none => simp [hc] at h
      | some x =>
        simp [hc] at h
        obtain ⟨rfl, rfl⟩ := h
        have := ih x.1 x.2 (by simp [hc]) hne
        simp; omega

theorem extract_len (bid : Nat) : ∀ (l : List Fwd) (f : Fwd) (l' : List Fwd), extract bid l = some (f, l') →
    l'.length + 1 = l.length := by
  intro l
  induction l with
  | nil => intro f l' h; simp [extract] at h
  | cons g gs ih =>
    intro f l' h
    simp only [extract] at h
    split at h
    · simp only [Option.some.injEq, Prod.mk.injEq] at h
      obtain ⟨rfl, rfl⟩ := h
      simp
    · cases hc : extract bid gs with
      | none => simp [hc] at h
      | some x =>
        simp [hc] at h
        obtain ⟨rfl, rfl⟩ := h
        have := ih x.1 x.2 (by simp [hc])
        simp; omega

/-- "never increases; strictly decreases whenever progress is reported" -/
def Dec (f : St → St × Bool) : Prop :=
  ∀ s, mu (f s).1 ≤ mu s ∧ ((f s).2 = true → mu (f s).1 < mu s)

theorem translate_dec (c : Cfg) : Dec (translate c) := by
  intro s
  unfold translate
  split
  · simp
  · rename_i a rest htop
    split
    · rename_i txs' hco
      have := coalesce_len _ _ _ _ hco
      simp [mu, htop, this]; omega
    · split
      · simp [mu, htop]; omega
      · simp

theorem parseTranslation_dec (c : Cfg) : Dec (parseTranslation c) := by
  intro s
  unfold parseTranslation
  split
  · rename_i t txs' hp
    split
    · rename_i a rs p hr _
      have := popFirst_len _ _ _ _ hp (by simp [hr])
      split
      · simp [mu, emit]; omega
      · simp
    · simp
  · split
    · simp
    · rename_i r rest htr
      split
      · simp [mu, htr]
      · rename_i t txs' hp
        split
        · simp [mu, markFirst_ids]
        · rename_i a rs hr
          have := popFirst_len _ _ _ _ hp (by simp [hr])
          rw [markFirst_ids] at this
          split
          · simp [mu, emit, htr]; omega
          · simp [mu, markFirst_ids]

theorem respond_dec (c : Cfg) : Dec (respond c) := by
  intro s
  unfold respond
  split
  · simp
  · rename_i r rest hb
    split
    · simp [mu, hb]
    · rename_i f infl' hx
      have := extract_len _ _ _ _ hx
      split
      · simp [mu, hb]; omega
      · simp

theorem iter_dec {f : St → St × Bool} (hf : Dec f) : ∀ n, Dec (iter f n) := by
  intro n
  induction n with
  | zero => intro s; simp [iter]
  | succ n ih =>
    intro s
    have h1 := hf s
    have h2 := ih (f s).1
    simp only [iter, Bool.or_eq_true]
    refine ⟨by omega, ?_⟩
    rintro (h | h)
    · have := h1.2 h; omega
    · have := h2.2 h; omega

theorem handleCtrl_idle (s : St) (h : s.ctlIn = []) : handleCtrl s = (s, false) := by
  simp [handleCtrl, h]

theorem iter_ctlIn {f : St → St × Bool} (hf : ∀ s, (f s).1.ctlIn = s.ctlIn) :
    ∀ n s, (iter f n s).1.ctlIn = s.ctlIn := by
  intro n
  induction n with
  | zero => intro s; rfl
  | succ n ih => intro s; simp only [iter]; rw [ih, hf]

theorem translate_ctlIn (c : Cfg) (s : St) : (translate c s).1.ctlIn = s.ctlIn := by
  unfold translate; split
  · rfl
  · split
    · rfl
    · split <;> rfl

theorem parseTranslation_ctlIn (c : Cfg) (s : St) : (parseTranslation c s).1.ctlIn = s.ctlIn := by
  unfold parseTranslation; split
  · split
    · split <;> rfl
    · rfl
  · split
    · rfl
    · split
      · rfl
      · split
        · rfl
        · split <;> rfl

theorem respond_ctlIn (c : Cfg) (s : St) : (respond c s).1.ctlIn = s.ctlIn := by
  unfold respond; split
  · rfl
  · split
    · rfl
    · split <;> rfl

/-- with no control message pending, a tick never increases the measure and strictly decreases it
    whenever it reports progress -/
theorem tick_dec (c : Cfg) (s : St) (hctl : s.ctlIn = []) :
    mu (tick c s).1 ≤ mu s ∧ ((tick c s).2 = true → mu (tick c s).1 < mu s) := by
  unfold tick
  split
  · have h := iter_dec (parseTranslation_dec c) c.width s
    have hc : (iter (parseTranslation c) c.width s).1.ctlIn = [] := by
      rw [iter_ctlIn (parseTranslation_ctlIn c)]; exact hctl
    simp only [handleCtrl_idle _ hc, Bool.false_or]
    exact h
  · have h1 := iter_dec (respond_dec c) c.width s
    have h2 := iter_dec (parseTranslation_dec c) c.width (iter (respond c) c.width s).1
    have h3 := iter_dec (translate_dec c) c.width
      (iter (parseTranslation c) c.width (iter (respond c) c.width s).1).1
    have hc : (runPipeline c s).1.ctlIn = [] := by
      simp only [runPipeline]
      rw [iter_ctlIn (translate_ctlIn c), iter_ctlIn (parseTranslation_ctlIn c),
        iter_ctlIn (respond_ctlIn c)]; exact hctl
    simp only [handleCtrl_idle _ hc, Bool.false_or]
    simp only [runPipeline, Bool.or_eq_true]
    refine ⟨by omega, ?_⟩
    rintro ((h | h) | h)
    · have := h1.2 h; omega
    · have := h2.2 h; omega
    · have := h3.2 h; omega

end C16

namespace C16

/-- a completed transaction has its page recorded (the "unreachable" branch of the drain path) -/
def DInv (s : St) : Prop := ∀ t ∈ s.txs, t.done = true → t.page.isSome = true

theorem translate_dinv (c : Cfg) (s : St) (h : DInv s) : DInv (translate c s).1 := by
  unfold translate
  split
  · exact h
  · split
    · rename_i txs' hco
      intro t' ht'
      rcases coalesce_mem _ _ _ _ hco t' ht' with h1 | ⟨t, ht, _, rfl⟩
      · exact h t' h1
      · exact h t ht
    · split
      · intro t' ht'
        simp only [List.mem_append, List.mem_singleton] at ht'
        rcases ht' with h1 | rfl
        · exact h t' h1
        · simp
      · exact h

theorem parseTranslation_dinv (c : Cfg) (s : St) (h : DInv s) : DInv (parseTranslation c s).1 := by
  have hmark : ∀ (r : TRsp), ∀ t' ∈ markFirst (hasTid r.rspTo) r.paddr s.txs, t'.done = true → t'.page.isSome = true := by
    intro r t' ht'
    rcases markFirst_mem _ _ _ t' ht' with h1 | ⟨t, _, _, rfl⟩
    · exact h t' h1
    · simp
  unfold parseTranslation
  split
  · rename_i t txs' hp
    obtain ⟨ht, _, h3, _⟩ := popFirst_spec _ _ _ _ hp
    split
    · split
      · intro t' ht'
        rcases h3 t' ht' with h1 | ⟨rfl, _⟩
        · exact h t' h1
        · exact h t ht
      · exact h
    · exact h
  · split
    · exact h
    · rename_i r rest _
      split
      · exact h
      · rename_i t txs' hp
        obtain ⟨ht, _, h3, _⟩ := popFirst_spec _ _ _ _ hp
        split
        · exact hmark r
        · split
          · intro t' ht'
            rcases h3 t' ht' with h1 | ⟨rfl, _⟩
            · exact hmark r t' h1
            · exact hmark r t ht
          · exact hmark r

theorem respond_dinv (c : Cfg) (s : St) (h : DInv s) : DInv (respond c s).1 := by
  unfold respond
  split
  · exact h
  · split
    · exact h
    · split <;> exact h

theorem handleCtrl_dinv (s : St) (h : DInv s) : DInv (handleCtrl s).1 := by
  unfold handleCtrl
  split
  · exact h
  · split
    · intro t ht; simp at ht
    · exact h
  · split <;> exact h
  · exact h

theorem step_dinv (c : Cfg) (s : St) (o : Op) (h : DInv s) : DInv (step c s o) := by
  cases o with
  | tick => exact tick_pres c (respond_dinv c) (parseTranslation_dinv c) (translate_dinv c) handleCtrl_dinv s h
  | access pid va pl => simp only [step]; split <;> exact h
  | trsp r => simp only [step]; split <;> exact h
  | brsp r => simp only [step]; split <;> exact h
  | drainTop => exact h
  | drainBot => exact h
  | drainTr => exact h
  | drainCtl => exact h
  | ctl k => simp only [step]; split <;> exact h

theorem run_dinv (c : Cfg) (ops : List Op) : DInv (run c ops) :=
  run_pres c (step_dinv c) ops {} (by intro t ht; simp at ht)

theorem popFirst_none (p : Tx → Bool) : ∀ txs, popFirst p txs = none → ∀ t ∈ txs, p t = false := by
  intro txs
  induction txs with
  | nil => intro _ t ht; simp at ht
  | cons t0 ts ih =>
    intro h t ht
    simp only [popFirst] at h
    split at h
    · simp at h
    · rename_i hp
      cases hc : popFirst p ts with
      | some x => simp [hc] at h
      | none =>
        simp only [List.mem_cons] at ht
        rcases ht with rfl | ht
        · simpa using hp
        · exact ih hc t ht

theorem iter_first {f : St → St × Bool} (n : Nat) (s : St) (h : (f s).2 = true) : (iter f (n + 1) s).2 = true := by
  simp [iter, h]

theorem iter_idle {f : St → St × Bool} (s : St) (h : f s = (s, false)) : ∀ n, iter f n s = (s, false) := by
  intro n
  induction n with
  | zero => rfl
  | succ n ih => simp [iter, h, ih]

theorem respond_enabled (c : Cfg) (s : St) (h1 : s.botIn ≠ []) (h2 : s.topOut.length < c.width) :
    (respond c s).2 = true := by
  unfold respond
  split
  · rename_i h; exact absurd h h1
  · split
    · rfl
    · simp [h2]

theorem respond_idle (c : Cfg) (s : St) (h1 : s.botIn = []) : respond c s = (s, false) := by
  simp [respond, h1]

theorem translate_enabled (c : Cfg) (s : St) (h1 : s.topIn ≠ []) (h2 : s.trOut.length < c.width) :
    (translate c s).2 = true := by
  unfold translate
  split
  · rename_i h; exact absurd h h1
  · split
    · rfl
    · simp [h2]

theorem parse_enabled (c : Cfg) (s : St) (hd : DInv s) (hne : ∀ t ∈ s.txs, t.reqs ≠ [])
    (h2 : s.botOut.length < c.width) (h1 : s.trIn ≠ [] ∨ ∃ t ∈ s.txs, t.done = true) :
    (parseTranslation c s).2 = true := by
  unfold parseTranslation
  split
  · rename_i t txs' hp
    obtain ⟨ht, hpt, _, _⟩ := popFirst_spec _ _ _ _ hp
    have hdone : t.done = true := by simp [isDrainable] at hpt; exact hpt.1
    have hpg := hd t ht hdone
    cases hr : t.reqs with
    | nil => exact absurd hr (hne t ht)
    | cons a rs =>
      cases hq : t.page with
      | none => simp [hq] at hpg
      | some p => simp [h2]
  · rename_i hnone
    have hall := popFirst_none _ _ hnone
    rcases h1 with h1 | ⟨t, ht, hdone⟩
    · split
      · rename_i h; exact absurd h h1
      · rename_i r rest htr
        split
        · rfl
        · rename_i t txs' hp
          obtain ⟨ht, _, _, _⟩ := popFirst_spec _ _ _ _ hp
          have hne' : t.reqs ≠ [] := by
            rcases markFirst_mem _ _ _ t ht with h3 | ⟨t0, h0, _, rfl⟩
            · exact hne t h3
            · exact hne t0 h0
          cases hr : t.reqs with
          | nil => exact absurd hr hne'
          | cons a rs => simp [h2]
    · have := hall t ht
      have hr := hne t ht
      simp [isDrainable, hdone] at this
      exact absurd this hr

theorem parse_idle (c : Cfg) (s : St) (h1 : s.trIn = []) (h2 : ∀ t ∈ s.txs, t.done = false) :
    parseTranslation c s = (s, false) := by
  have : popFirst isDrainable s.txs = none := by
    cases hc : popFirst isDrainable s.txs with
    | none => rfl
    | some x =>
      obtain ⟨ht, hp, _, _⟩ := popFirst_spec _ _ x.1 x.2 hc
      have := h2 _ ht
      simp [isDrainable, this] at hp
  unfold parseTranslation
  rw [this]
  simp [h1]

end C16
