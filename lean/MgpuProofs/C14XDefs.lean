import MgpuProofs.C14Run
import MgpuProofs.C14Once
import MgpuProofs.C14Live
import MgpuProofs.C14Progress
/-! # C14 — the compute unit around the scheduler: definitions for the X-level theorems

`XState` / `xstep` (`MgpuModel/C14.lean`): scheduler events (`base`), the scheduler side of a
pipeline flush (`flush` = `setWavesToReady` + `Scheduler.Flush`) and the handling of the
`WfCompletionEvent`s of sampled work-groups (`fire`). This file holds the legality predicate, the
initial states and the invariants; the proofs are in `C14XFlush.lean`, `C14XSamp.lean`,
`C14XRun.lean`. -/
namespace C14

/-- the issue rules for scheduler events; a flush may happen at any moment; the engine handles only
    events that are scheduled -/
def xlegal (x : XState) : XOp → Bool
  | .base o => legal x.s o
  | .flush => true
  | .fire i => x.evq.contains i

def xlegalRun (c : Cfg) : XState → List XOp → Bool
  | _, [] => true
  | x, o :: ops => xlegal x o && xlegalRun c (xstep c x o).1 ops

/-- freshly mapped work-groups: dispatched ones (`x.s`, every wavefront Ready and resident in a
    pool) and sampled ones (`x.sw`: every wavefront `WfSampledCompleted`, in no pool, one
    `WfCompletionEvent` each); the two kinds of group share no work-group and no wavefront id -/
structure XInit (x : XState) : Prop where
  base : Init x.s
  pool : ∀ w ∈ x.s.wfs, w.inPool = true
  sent : x.s.sent = []
  sids : x.sw.Pairwise (fun a b => a.id ≠ b.id)
  sst : ∀ w ∈ x.sw, w.state = .sampled ∧ w.inPool = false
  ev : x.evq = x.sw.map (·.id)
  disj : ∀ u ∈ x.s.wfs, ∀ v ∈ x.sw, u.wg ≠ v.wg
  idisj : ∀ u ∈ x.s.wfs, ∀ v ∈ x.sw, u.id ≠ v.id

/-- every wavefront the scheduler still works on is resident in a wavefront pool
    (`clearWGResource` runs only when the whole work-group has ended) -/
def PoolInv (s : State) : Prop := ∀ w ∈ s.wfs, w.state ≠ .completed → w.inPool = true

/-- the sampled work-groups and the engine's queue of their completion events -/
structure SInv (x : XState) : Prop where
  sids : x.sw.Pairwise (fun a b => a.id ≠ b.id)
  /-- a sampled wavefront is `WfSampledCompleted` until its event is handled, `WfCompleted` after -/
  sst : ∀ w ∈ x.sw, w.state = .sampled ∨ w.state = .completed
  evnd : x.evq.Nodup
  evmem : ∀ i ∈ x.evq, ∃ w ∈ x.sw, w.id = i
  /-- the event of a wavefront that is still `WfSampledCompleted` is scheduled -/
  owes : ∀ w ∈ x.sw, w.state = .sampled → w.id ∈ x.evq
  /-- a scheduled event of a wavefront that is already `WfCompleted` is a retry: the whole group
      has ended and its message has not been sent -/
  retry : ∀ w ∈ x.sw, w.state = .completed → w.id ∈ x.evq → allC w.wg x.sw ∧ w.wg ∉ x.s.sent
  /-- at most one retry per work-group -/
  retry1 : ∀ u ∈ x.sw, ∀ w ∈ x.sw, u.state = .completed → w.state = .completed →
    u.id ∈ x.evq → w.id ∈ x.evq → u.wg = w.wg → u = w
  /-- a message in the log: the whole group has ended -/
  sentS : ∀ w ∈ x.sw, w.wg ∈ x.s.sent → allC w.wg x.sw
  /-- the whole group has ended: its message is in the log or a retry is scheduled -/
  done : ∀ w ∈ x.sw, allC w.wg x.sw → w.wg ∈ x.s.sent ∨ ∃ u ∈ x.sw, u.wg = w.wg ∧ u.id ∈ x.evq
  disj : ∀ u ∈ x.s.wfs, ∀ v ∈ x.sw, u.wg ≠ v.wg

/-- everything that holds between two events of the compute unit -/
structure XInv (x : XState) : Prop where
  inv : Inv x.s
  ns : NS x.s
  rng : Rng x.s
  cinv : CInv x.s
  dinv : DInv x.s
  pool : PoolInv x.s
  sinv : SInv x

end C14
