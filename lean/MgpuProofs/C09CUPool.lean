import MgpuProofs.C09CUBasic
/-! # C09, timing compute unit — the wavefront pools hold exactly the wavefronts of the
work-groups whose completion has not been sent -/
namespace C09.CUSide

/-- the pool entries a request `id` with wavefront SIMDs `simds` (indices from `k`) has in pool `sd` -/
def newRes (id : Nat) : List Nat → Nat → Nat → List (Nat × Nat)
  | [], _, _ => []
  | x :: rest, k, sd => (if x = sd then [(id, k)] else []) ++ newRes id rest (k+1) sd

theorem mem_newRes (id : Nat) : ∀ (simds : List Nat) (k sd : Nat) (p : Nat × Nat),
    p ∈ newRes id simds k sd ↔ p.1 = id ∧ k ≤ p.2 ∧ simds[p.2 - k]? = some sd
  | [], k, sd, p => by simp [newRes]
  | x :: rest, k, sd, p => by
    rw [newRes, List.mem_append, mem_newRes id rest (k+1) sd p]
    constructor
    · rintro (h | ⟨h1, h2, h3⟩)
      · by_cases hx : x = sd
        · simp only [hx, if_true, List.mem_singleton] at h
          subst h; simp [hx]
        · simp [hx] at h
      · refine ⟨h1, by omega, ?_⟩
        have : p.2 - k = (p.2 - (k+1)) + 1 := by omega
        rw [this]; simpa using h3
    · rintro ⟨h1, h2, h3⟩
      by_cases hk : p.2 = k
      · left
        have : p.2 - k = 0 := by omega
        rw [this] at h3
        simp only [List.getElem?_cons_zero, Option.some.injEq] at h3
        simp only [h3, if_true, List.mem_singleton]
        exact Prod.ext h1 hk
      · right
        refine ⟨h1, by omega, ?_⟩
        have : p.2 - k = (p.2 - (k+1)) + 1 := by omega
        rw [this] at h3; simpa using h3

theorem nodup_newRes (id : Nat) : ∀ (simds : List Nat) (k sd : Nat), (newRes id simds k sd).Nodup
  | [], _, _ => by simp [newRes]
  | x :: rest, k, sd => by
    rw [newRes, List.nodup_append]
    refine ⟨by split <;> simp, nodup_newRes id rest (k+1) sd, ?_⟩
    intro a ha b hb hab
    have h2 := (mem_newRes id rest (k+1) sd b).mp hb
    by_cases hx : x = sd
    · simp only [hx, if_true, List.mem_singleton] at ha
      subst ha; subst hab
      have h := h2.2.1
      change k + 1 ≤ k at h
      omega
    · simp [hx] at ha

theorem addAll_length (pools : List (List (Nat × Nat))) (id : Nat) :
    ∀ (simds : List Nat) (k : Nat), (addAll pools id simds k).length = pools.length := by
  intro simds
  induction simds generalizing pools with
  | nil => intro k; rfl
  | cons x rest ih => intro k; rw [addAll, ih, length_updAt]

theorem addAll_get (id : Nat) : ∀ (simds : List Nat) (pools : List (List (Nat × Nat))) (k sd : Nat),
    (addAll pools id simds k)[sd]? = pools[sd]?.map (· ++ newRes id simds k sd)
  | [], pools, k, sd => by cases h : pools[sd]? <;> simp [addAll, newRes, h]
  | x :: rest, pools, k, sd => by
    rw [addAll, addAll_get id rest _ (k+1) sd, getElem?_updAt, newRes]
    by_cases hx : x = sd
    · subst hx; cases h : pools[x]? <;> simp
    · cases h : pools[sd]? <;> simp [hx]

theorem clearAll_length (pools : List (List (Nat × Nat))) (id : Nat) :
    ∀ (simds : List Nat) (k : Nat), (clearAll pools id simds k).length = pools.length := by
  intro simds
  induction simds generalizing pools with
  | nil => intro k; rfl
  | cons x rest ih => intro k; rw [clearAll, ih, length_updAt]

theorem clearAll_get (id : Nat) : ∀ (simds : List Nat) (pools : List (List (Nat × Nat))) (k sd : Nat),
    (clearAll pools id simds k)[sd]? = pools[sd]?.map (fun l => (newRes id simds k sd).foldl List.erase l)
  | [], pools, k, sd => by cases h : pools[sd]? <;> simp [clearAll, newRes, h]
  | x :: rest, pools, k, sd => by
    rw [clearAll, clearAll_get id rest _ (k+1) sd, getElem?_updAt, newRes]
    by_cases hx : x = sd
    · subst hx; cases h : pools[x]? <;> simp
    · cases h : pools[sd]? <;> simp [hx]

/-- a request as the pools see it: its id and the SIMD of each wavefront -/
abbrev Shape := Nat × List Nat

/-- `p` is the pool-`sd` entry of a wavefront of request `sh` -/
def ResS (sh : Shape) (sd : Nat) (p : Nat × Nat) : Prop := p.1 = sh.1 ∧ sh.2[p.2]? = some sd

/-- every pool is duplicate-free and holds exactly the wavefronts of the unanswered requests -/
def PoolInv (shapes : List Shape) (sent : List Nat) (pools : List (List (Nat × Nat))) : Prop :=
  ∀ sd l, pools[sd]? = some l →
    l.Nodup ∧ ∀ p, p ∈ l ↔ ∃ sh ∈ shapes, sh.1 ∉ sent ∧ ResS sh sd p

theorem poolInv_add {shapes : List Shape} {sent : List Nat} {pools : List (List (Nat × Nat))}
    (h : PoolInv shapes sent pools) (id : Nat) (simds : List Nat)
    (hfresh : id ∉ shapes.map (·.1)) (hns : id ∉ sent) :
    PoolInv (shapes ++ [(id, simds)]) sent (addAll pools id simds 0) := by
  intro sd l hl
  rw [addAll_get] at hl
  cases hp : pools[sd]? with
  | none => simp [hp] at hl
  | some l0 =>
    simp only [hp, Option.map_some, Option.some.injEq] at hl
    subst hl
    obtain ⟨hnd, hmem⟩ := h sd l0 hp
    constructor
    · rw [List.nodup_append]
      refine ⟨hnd, nodup_newRes _ _ _ _, ?_⟩
      intro a ha b hb hab
      subst hab
      obtain ⟨sh, hsh, _, hr⟩ := (hmem a).mp ha
      have := ((mem_newRes id simds 0 sd a).mp hb).1
      exact hfresh (List.mem_map.mpr ⟨sh, hsh, by rw [← hr.1, this]⟩)
    · intro p
      rw [List.mem_append, hmem p, mem_newRes]
      constructor
      · rintro (⟨sh, hsh, h1, h2⟩ | ⟨h1, _, h3⟩)
        · exact ⟨sh, List.mem_append_left _ hsh, h1, h2⟩
        · exact ⟨(id, simds), by simp, hns, h1, by simpa using h3⟩
      · rintro ⟨sh, hsh, h1, h2⟩
        rcases List.mem_append.mp hsh with hsh | hsh
        · exact Or.inl ⟨sh, hsh, h1, h2⟩
        · simp only [List.mem_singleton] at hsh
          subst hsh
          exact Or.inr ⟨h2.1, Nat.zero_le _, by simpa using h2.2⟩

theorem poolInv_clear {shapes : List Shape} {sent : List Nat} {pools : List (List (Nat × Nat))}
    (h : PoolInv shapes sent pools) (id : Nat) (simds : List Nat)
    (hin : (id, simds) ∈ shapes) (hids : (shapes.map (·.1)).Nodup) :
    PoolInv shapes (sent ++ [id]) (clearAll pools id simds 0) := by
  intro sd l hl
  rw [clearAll_get] at hl
  cases hp : pools[sd]? with
  | none => simp [hp] at hl
  | some l0 =>
    simp only [hp, Option.map_some, Option.some.injEq] at hl
    subst hl
    obtain ⟨hnd, hmem⟩ := h sd l0 hp
    refine ⟨nodup_foldl_erase _ _ hnd, ?_⟩
    intro p
    rw [mem_foldl_erase _ _ hnd, hmem p, mem_newRes]
    constructor
    · rintro ⟨⟨sh, hsh, h1, h2⟩, h3⟩
      refine ⟨sh, hsh, ?_, h2⟩
      intro hc
      rcases List.mem_append.mp hc with hc | hc
      · exact h1 hc
      · simp only [List.mem_singleton] at hc
        have : sh = (id, simds) := uniq_of_nodup_map (·.1) shapes hids sh hsh _ hin hc
        subst this
        exact h3 ⟨h2.1, Nat.zero_le _, by simpa using h2.2⟩
    · rintro ⟨sh, hsh, h1, h2⟩
      have h1' : sh.1 ∉ sent ∧ sh.1 ≠ id := by
        constructor
        · exact fun hc => h1 (List.mem_append_left _ hc)
        · exact fun hc => h1 (List.mem_append_right _ (by simp [hc]))
      refine ⟨⟨sh, hsh, h1'.1, h2⟩, ?_⟩
      rintro ⟨h3, _, _⟩
      exact h1'.2 (by rw [← h2.1, h3])

end C09.CUSide
