import MgpuProofs.C09Steps
import MgpuProofs.C09Pool
/-! # C09 — run-level form of "answered ⇒ the whole grid was mapped exactly once and has completed"

The trace invariant `WI` is proved on the five atomic steps of `C09Steps.lean` and therefore holds
after every op sequence: a launch that has a `LaunchKernelRsp` in the trace has exactly the
work-groups `0 … NumWG−1` in its `MapWGReq`s, each once, and the completion of every one of those
requests was consumed by its owner (ghost list `done`), none is in flight any more. -/
namespace C09

/-- request ids of the `MapWGReq`s of a trace, oldest first -/
def reqsOf (log : List Ev) : List Nat :=
  log.reverse.filterMap (fun e => match e with | .map r _ _ _ _ => some r | _ => none)

theorem reqsOf_cons_map (log : List Ev) (r c l idx : Nat) (locs : List Loc) :
    reqsOf (.map r c l idx locs :: log) = reqsOf log ++ [r] := by
  simp [reqsOf, List.filterMap_append]

theorem reqsOf_cons_rsp (log : List Ev) (l : Nat) : reqsOf (.rsp l :: log) = reqsOf log := by
  simp [reqsOf, List.filterMap_append]

theorem mem_mapsOf_of_mem (log : List Ev) (r c l idx : Nat) (locs : List Loc)
    (h : Ev.map r c l idx locs ∈ log) : idx ∈ mapsOf log l := by
  simp only [mapsOf, List.mem_filterMap, List.mem_reverse]
  exact ⟨_, h, by simp⟩

theorem V.upd_same (v : V) (i : Nat) (d : DV) : (v.upd i d).ds i = d := by simp [V.upd]
theorem V.upd_other (v : V) (i j : Nat) (d : DV) (h : j ≠ i) : (v.upd i d).ds j = v.ds j := by
  simp [V.upd, h]

/-- the accounting invariant `G` of `C09Once2.lean`, on a view -/
def GV (v : V) (p : List Nat) : Prop :=
  G v.log v.drvIn (fun j => (v.ds j).kern) (fun j => (v.ds j).nd) p

theorem GI_iff_GV (cp : CP) (p : List Nat) : GI cp p ↔ GV cp.view p := Iff.rfl

theorem GV_step {v v' : V} (p : List Nat) (h : GV v p) (s : VStep v v') : GV v' p := by
  cases s with
  | cyc i c hi hc =>
    refine G_congr _ _ h ?_ ?_ <;> intro j <;> by_cases hj : j = i
    · subst hj; rw [V.upd_same]
    · rw [V.upd_other _ _ _ _ hj]
    · subst hj; rw [V.upd_same]
    · rw [V.upd_other _ _ _ _ hj]
  | map i k c locs hi hk hlt hr =>
    have hg := G_map h i k hk v.nextReq c locs
    refine G_congr _ _ hg ?_ ?_ <;> intro j <;> by_cases hj : j = i
    · subst hj; rw [V.upd_same]
    · rw [V.upd_other _ _ _ _ hj]
    · subst hj; rw [V.upd_same]; simp
    · rw [V.upd_other _ _ _ _ hj]; simp [hj]
  | done i r cyc' hi hr =>
    refine G_congr _ _ h ?_ ?_ <;> intro j <;> by_cases hj : j = i
    · subst hj; rw [V.upd_same]
    · rw [V.upd_other _ _ _ _ hj]
    · subst hj; rw [V.upd_same]
    · rw [V.upd_other _ _ _ _ hj]
  | rsp i k hi hk hnd hnc hfl hr =>
    have hg := G_rsp h i k hk
    refine G_congr _ _ hg ?_ ?_ <;> intro j <;> by_cases hj : j = i
    · subst hj; rw [V.upd_same]; simp
    · rw [V.upd_other _ _ _ _ hj]; simp [hj]
    · subst hj; rw [V.upd_same]
    · rw [V.upd_other _ _ _ _ hj]
  | start i k rest cyc' hi hd hk =>
    unfold GV at h
    rw [hd] at h
    have hg := G_start k h i hk
    refine G_congr _ _ hg ?_ ?_ <;> intro j <;> by_cases hj : j = i
    · subst hj; rw [V.upd_same]; simp
    · rw [V.upd_other _ _ _ _ hj]; simp [hj]
    · subst hj; rw [V.upd_same]; simp
    · rw [V.upd_other _ _ _ _ hj]; simp [hj]

/-- the trace invariant (`A` = the kernels that are ever launched) -/
structure WI (A : List Kern) (v : V) : Prop where
  /-- every `MapWGReq` of a kernel being dispatched is completed or in flight at its dispatcher -/
  wb : ∀ i k, (v.ds i).kern = some k → k ∈ A ∧
    ∀ r c idx locs, Ev.map r c k.id idx locs ∈ v.log → r ∈ v.done ∨ r ∈ (v.ds i).infl
  wd : ∀ k ∈ v.drvIn, k ∈ A
  /-- an answered launch: its whole grid is in the trace, in order, and every request has completed -/
  wr : ∀ l, 1 ≤ rspCount v.log l → ∃ k ∈ A, k.id = l ∧ mapsOf v.log l = List.range k.numWG ∧
    ∀ r c idx locs, Ev.map r c l idx locs ∈ v.log → r ∈ v.done
  /-- request ids are issued consecutively -/
  wq : reqsOf v.log = List.range v.nextReq
  wlt : ∀ j, ∀ r ∈ (v.ds j).infl, r < v.nextReq
  wdl : ∀ r ∈ v.done, r < v.nextReq
  /-- a consumed completion is no longer in flight, anywhere -/
  wdis : ∀ j, ∀ r ∈ (v.ds j).infl, r ∉ v.done
  /-- a request is in flight at one dispatcher only -/
  wx : ∀ i j, i ≠ j → ∀ r ∈ (v.ds i).infl, r ∉ (v.ds j).infl
  /-- no completion is consumed twice -/
  wdn : v.done.Nodup

theorem WI_step {A : List Kern} {v v' : V} (p : List Nat) (hg : GV v p) (h : WI A v) (s : VStep v v') :
    WI A v' := by
  cases s with
  | cyc i c hi hc =>
    have e : ∀ j, ((v.upd i { v.ds i with cyc := c }).ds j).kern = (v.ds j).kern ∧
        ((v.upd i { v.ds i with cyc := c }).ds j).infl = (v.ds j).infl := by
      intro j; by_cases hj : j = i
      · subst hj; rw [V.upd_same]; exact ⟨rfl, rfl⟩
      · rw [V.upd_other _ _ _ _ hj]; exact ⟨rfl, rfl⟩
    exact {
      wb := fun j k hk => by rw [(e j).1] at hk; rw [(e j).2]; exact h.wb j k hk
      wd := h.wd, wr := h.wr, wq := h.wq
      wlt := fun j => by rw [(e j).2]; exact h.wlt j
      wdl := h.wdl
      wdis := fun j => by rw [(e j).2]; exact h.wdis j
      wx := fun a b hab => by rw [(e a).2, (e b).2]; exact h.wx a b hab
      wdn := h.wdn }
  | map i k c locs hi hk hlt hr =>
    obtain ⟨hb1, hb2⟩ := hg.busy i k hk
    have hb2 : rspCount v.log k.id = 0 := hb2
    have ek : ∀ j, ((V.upd ({ v with log := .map v.nextReq c k.id (v.ds i).nd locs :: v.log, nextReq := v.nextReq + 1, cuRoom := v.cuRoom - 1 } : V) i
        { v.ds i with nd := (v.ds i).nd + 1, infl := v.nextReq :: (v.ds i).infl, cyc := 0 }).ds j).kern
          = (v.ds j).kern := by
      intro j; by_cases hj : j = i
      · subst hj; rw [V.upd_same]
      · rw [V.upd_other _ _ _ _ hj]
    have ei : ∀ j, ((V.upd ({ v with log := .map v.nextReq c k.id (v.ds i).nd locs :: v.log, nextReq := v.nextReq + 1, cuRoom := v.cuRoom - 1 } : V) i
        { v.ds i with nd := (v.ds i).nd + 1, infl := v.nextReq :: (v.ds i).infl, cyc := 0 }).ds j).infl
          = if j = i then v.nextReq :: (v.ds i).infl else (v.ds j).infl := by
      intro j; by_cases hj : j = i
      · subst hj; rw [V.upd_same]; simp
      · rw [V.upd_other _ _ _ _ hj]; simp [hj]
    exact {
      wb := by
        intro j k' hk'
        rw [ek j] at hk'
        refine ⟨(h.wb j k' hk').1, ?_⟩
        intro r c' idx locs' hm
        show r ∈ v.done ∨ r ∈ _
        rw [ei j]
        rcases List.mem_cons.1 hm with hm | hm
        · injection hm with e1 e2 e3 e4 e5
          by_cases hj : j = i
          · subst hj; right; simp [e1]
          · exfalso
            exact hg.bdist j i k' k hj hk' hk e3
        · rcases (h.wb j k' hk').2 r c' idx locs' hm with h' | h'
          · exact Or.inl h'
          · right; by_cases hj : j = i
            · subst hj; simp [h']
            · simp [hj, h']
      wd := h.wd
      wr := by
        intro l hl
        have hl' : 1 ≤ rspCount v.log l := by
          have : rspCount (Ev.map v.nextReq c k.id (v.ds i).nd locs :: v.log) l = rspCount v.log l :=
            rspCount_cons_map _ _ _ _ _ _ _
          have hl2 : 1 ≤ rspCount (Ev.map v.nextReq c k.id (v.ds i).nd locs :: v.log) l := hl
          rw [this] at hl2; exact hl2
        have hne : k.id ≠ l := by intro e; rw [e] at hb2; omega
        obtain ⟨k', hk'A, hid, hm, hall⟩ := h.wr l hl'
        refine ⟨k', hk'A, hid, ?_, ?_⟩
        · show mapsOf (Ev.map v.nextReq c k.id (v.ds i).nd locs :: v.log) l = _
          rw [mapsOf_cons_map, if_neg hne, List.append_nil]; exact hm
        · intro r c' idx locs' hmem
          rcases List.mem_cons.1 hmem with hmem | hmem
          · injection hmem with e1 e2 e3 e4 e5
            exact absurd e3.symm hne
          · exact hall r c' idx locs' hmem
      wq := by
        show reqsOf (Ev.map v.nextReq c k.id (v.ds i).nd locs :: v.log) = List.range (v.nextReq + 1)
        rw [reqsOf_cons_map, h.wq, List.range_succ]
      wlt := by
        intro j r hr'
        rw [ei j] at hr'
        show r < v.nextReq + 1
        by_cases hj : j = i
        · simp only [hj, if_true] at hr'
          rcases List.mem_cons.1 hr' with e | e
          · omega
          · have := h.wlt i r e; omega
        · simp only [hj, if_false] at hr'
          have := h.wlt j r hr'; omega
      wdl := fun r hr' => by
        show r < v.nextReq + 1
        have := h.wdl r hr'; omega
      wdis := by
        intro j r hr'
        rw [ei j] at hr'
        show r ∉ v.done
        by_cases hj : j = i
        · simp only [hj, if_true] at hr'
          rcases List.mem_cons.1 hr' with e | e
          · intro hd; have := h.wdl r hd; omega
          · exact h.wdis i r e
        · simp only [hj, if_false] at hr'
          exact h.wdis j r hr'
      wx := by
        intro a b hab r hra
        rw [ei a] at hra
        rw [ei b]
        by_cases ha : a = i
        · simp only [ha, if_true] at hra
          have hb : b ≠ i := fun e => hab (ha.trans e.symm)
          simp only [hb, if_false]
          rcases List.mem_cons.1 hra with e | e
          · intro hrb; have := h.wlt b r hrb; omega
          · exact h.wx i b (fun e' => hb e'.symm) r e
        · simp only [ha, if_false] at hra
          by_cases hb : b = i
          · simp only [hb, if_true]
            intro hrb
            rcases List.mem_cons.1 hrb with e | e
            · have := h.wlt a r hra; omega
            · exact h.wx a i ha r hra e
          · simp only [hb, if_false]; exact h.wx a b hab r hra
      wdn := h.wdn }
  | done i r cyc' hi hr =>
    have ek : ∀ j, ((V.upd ({ v with done := r :: v.done } : V) i
        { v.ds i with nc := (v.ds i).nc + 1, infl := (v.ds i).infl.filter (· ≠ r), cyc := cyc' }).ds j).kern
          = (v.ds j).kern := by
      intro j; by_cases hj : j = i
      · subst hj; rw [V.upd_same]
      · rw [V.upd_other _ _ _ _ hj]
    have ei : ∀ j, ((V.upd ({ v with done := r :: v.done } : V) i
        { v.ds i with nc := (v.ds i).nc + 1, infl := (v.ds i).infl.filter (· ≠ r), cyc := cyc' }).ds j).infl
          = if j = i then (v.ds i).infl.filter (· ≠ r) else (v.ds j).infl := by
      intro j; by_cases hj : j = i
      · subst hj; rw [V.upd_same]; simp
      · rw [V.upd_other _ _ _ _ hj]; simp [hj]
    have hsub : ∀ j x, x ∈ (if j = i then (v.ds i).infl.filter (· ≠ r) else (v.ds j).infl) →
        x ∈ (v.ds j).infl ∧ (j = i → x ≠ r) := by
      intro j x hx
      by_cases hj : j = i
      · subst hj
        simp only [if_true, List.mem_filter, decide_eq_true_eq] at hx
        exact ⟨hx.1, fun _ => hx.2⟩
      · simp only [hj, if_false] at hx; exact ⟨hx, fun e => absurd e hj⟩
    exact {
      wb := by
        intro j k' hk'
        rw [ek j] at hk'
        refine ⟨(h.wb j k' hk').1, ?_⟩
        intro r' c' idx locs' hm
        show r' ∈ r :: v.done ∨ r' ∈ _
        rw [ei j]
        rcases (h.wb j k' hk').2 r' c' idx locs' hm with h' | h'
        · exact Or.inl (List.mem_cons_of_mem _ h')
        · by_cases hrr : r' = r
          · left; rw [hrr]; exact List.mem_cons_self
          · right; by_cases hj : j = i
            · subst hj; simp [h', hrr]
            · simp [hj, h']
      wd := h.wd
      wr := by
        intro l hl
        obtain ⟨k', hk'A, hid, hm, hall⟩ := h.wr l hl
        exact ⟨k', hk'A, hid, hm, fun r' c' idx locs' hmem => List.mem_cons_of_mem _ (hall r' c' idx locs' hmem)⟩
      wq := h.wq
      wlt := by
        intro j x hx
        rw [ei j] at hx
        exact h.wlt j x (hsub j x hx).1
      wdl := by
        intro x hx
        rcases List.mem_cons.1 hx with e | e
        · rw [e]; exact h.wlt i r hr
        · exact h.wdl x e
      wdis := by
        intro j x hx
        rw [ei j] at hx
        obtain ⟨hx1, hx2⟩ := hsub j x hx
        show x ∉ r :: v.done
        intro hmem
        rcases List.mem_cons.1 hmem with e | e
        · by_cases hj : j = i
          · exact hx2 hj e
          · rw [e] at hx1; exact h.wx i j (fun e' => hj e'.symm) r hr hx1
        · exact h.wdis j x hx1 e
      wx := by
        intro a b hab x hxa
        rw [ei a] at hxa
        rw [ei b]
        intro hxb
        exact h.wx a b hab x (hsub a x hxa).1 (hsub b x hxb).1
      wdn := by
        show (r :: v.done).Nodup
        exact List.nodup_cons.2 ⟨h.wdis i r hr, h.wdn⟩ }
  | rsp i k hi hk hnd hnc hfl hr =>
    obtain ⟨hb1, hb2⟩ := hg.busy i k hk
    have hb1 : mapsOf v.log k.id = List.range (v.ds i).nd := hb1
    have ei : ∀ j, ((V.upd ({ v with log := .rsp k.id :: v.log, drvRoom := v.drvRoom - 1 } : V) i
        { v.ds i with kern := none }).ds j).infl = (v.ds j).infl := by
      intro j; by_cases hj : j = i
      · subst hj; rw [V.upd_same]
      · rw [V.upd_other _ _ _ _ hj]
    have ek : ∀ j k', ((V.upd ({ v with log := .rsp k.id :: v.log, drvRoom := v.drvRoom - 1 } : V) i
        { v.ds i with kern := none }).ds j).kern = some k' → j ≠ i ∧ (v.ds j).kern = some k' := by
      intro j k' hj'
      by_cases hj : j = i
      · subst hj; rw [V.upd_same] at hj'; cases hj'
      · rw [V.upd_other _ _ _ _ hj] at hj'; exact ⟨hj, hj'⟩
    have hmem : ∀ r c l idx locs, Ev.map r c l idx locs ∈ Ev.rsp k.id :: v.log → Ev.map r c l idx locs ∈ v.log := by
      intro r c l idx locs hm
      rcases List.mem_cons.1 hm with e | e
      · cases e
      · exact e
    exact {
      wb := by
        intro j k' hk'
        obtain ⟨_, hk''⟩ := ek j k' hk'
        refine ⟨(h.wb j k' hk'').1, ?_⟩
        intro r c' idx locs' hm
        show r ∈ v.done ∨ r ∈ _
        rw [ei j]
        exact (h.wb j k' hk'').2 r c' idx locs' (hmem _ _ _ _ _ hm)
      wd := h.wd
      wr := by
        intro l hl
        by_cases hlk : l = k.id
        · subst hlk
          refine ⟨k, (h.wb i k hk).1, rfl, ?_, ?_⟩
          · show mapsOf (Ev.rsp k.id :: v.log) k.id = _
            rw [mapsOf_cons_rsp, hb1, hnd]
          · intro r c' idx locs' hm
            rcases (h.wb i k hk).2 r c' idx locs' (hmem _ _ _ _ _ hm) with h' | h'
            · exact h'
            · rw [hfl] at h'; cases h'
        · have hl' : 1 ≤ rspCount v.log l := by
            have : rspCount (Ev.rsp k.id :: v.log) l = rspCount v.log l := by
              rw [rspCount_cons_rsp, if_neg (fun e => hlk e.symm)]; rfl
            have hl2 : 1 ≤ rspCount (Ev.rsp k.id :: v.log) l := hl
            rw [this] at hl2; exact hl2
          obtain ⟨k', hk'A, hid, hm, hall⟩ := h.wr l hl'
          refine ⟨k', hk'A, hid, ?_, fun r c' idx locs' hm' => hall r c' idx locs' (hmem _ _ _ _ _ hm')⟩
          show mapsOf (Ev.rsp k.id :: v.log) l = _
          rw [mapsOf_cons_rsp]; exact hm
      wq := by
        show reqsOf (Ev.rsp k.id :: v.log) = _
        rw [reqsOf_cons_rsp]; exact h.wq
      wlt := fun j => by rw [ei j]; exact h.wlt j
      wdl := h.wdl
      wdis := fun j => by rw [ei j]; exact h.wdis j
      wx := fun a b hab => by rw [ei a, ei b]; exact h.wx a b hab
      wdn := h.wdn }
  | start i k rest cyc' hi hd hk =>
    have hkd : k ∈ v.drvIn := by rw [hd]; exact List.mem_cons_self
    have hw := hg.wait k hkd
    have ei : ∀ j, ((V.upd ({ v with drvIn := rest } : V) i
        { v.ds i with kern := some k, nd := 0, nc := 0, cyc := cyc' }).ds j).infl = (v.ds j).infl := by
      intro j; by_cases hj : j = i
      · subst hj; rw [V.upd_same]
      · rw [V.upd_other _ _ _ _ hj]
    exact {
      wb := by
        intro j k' hk'
        show _ ∧ ∀ r c idx locs, _ ∈ v.log → r ∈ v.done ∨ r ∈ _
        rw [ei j]
        by_cases hj : j = i
        · subst hj
          rw [V.upd_same] at hk'
          injection hk' with hk'
          subst hk'
          refine ⟨h.wd _ hkd, ?_⟩
          intro r c' idx locs' hm
          have := mem_mapsOf_of_mem _ _ _ _ _ _ hm
          rw [hw.1] at this; cases this
        · rw [V.upd_other _ _ _ _ hj] at hk'
          exact h.wb j k' hk'
      wd := fun k' hk' => h.wd k' (by rw [hd]; exact List.mem_cons_of_mem _ hk')
      wr := h.wr
      wq := h.wq
      wlt := fun j => by rw [ei j]; exact h.wlt j
      wdl := h.wdl
      wdis := fun j => by rw [ei j]; exact h.wdis j
      wx := fun a b hab => by rw [ei a, ei b]; exact h.wx a b hab
      wdn := h.wdn }

theorem inv_steps {A : List Kern} (p : List Nat) {b : Bool} {v v' : V} (s : Steps b v v') :
    GV v p → WI A v → GV v' p ∧ WI A v' := by
  induction s with
  | refl v => exact fun h1 h2 => ⟨h1, h2⟩
  | cons s _ ih => exact fun h1 h2 => ih (GV_step p h1 s) (WI_step p h1 h2 s)

/-- environment moves -/
theorem WI_env {A : List Kern} (cp : CP) (op : Op) (hop : ∀ k, op = .launch k → k ∈ A) (hne : op ≠ .tick)
    (h : WI A cp.view) : WI A (step cp op).view := by
  cases op with
  | tick => exact absurd rfl hne
  | launch k =>
    exact { h with
      wd := by
        intro k' hk'
        have hk' : k' ∈ cp.drvIn ++ [k] := hk'
        rcases List.mem_append.1 hk' with e | e
        · exact h.wd k' e
        · simp only [List.mem_singleton] at e; subst e; exact hop _ rfl }
  | complete ids => exact h
  | cuRoom n => exact ⟨h.wb, h.wd, h.wr, h.wq, h.wlt, h.wdl, h.wdis, h.wx, h.wdn⟩
  | drvRoom n => exact ⟨h.wb, h.wd, h.wr, h.wq, h.wlt, h.wdl, h.wdis, h.wx, h.wdn⟩

theorem run_WI {A : List Kern} : ∀ (ops : List Op) (cp : CP), DCI cp → GI cp (launchIds ops) →
    WI A cp.view → (∀ k, Op.launch k ∈ ops → k ∈ A) → WI A (run cp ops).view := by
  intro ops
  induction ops with
  | nil => intro cp _ _ h _; exact h
  | cons op ops ih =>
    intro cp hdc hg h hA
    have hA' : ∀ k, Op.launch k ∈ ops → k ∈ A := fun k hk => hA k (List.mem_cons_of_mem _ hk)
    show WI A (run (step cp op) ops).view
    cases op with
    | tick =>
      have hs := cpTick_steps cp hdc
      obtain ⟨g', w'⟩ := inv_steps (A := A) _ hs ((GI_iff_GV cp _).1 hg) h
      exact ih _ (step_DCI cp .tick hdc) g' w' hA'
    | launch k =>
      refine ih _ (step_DCI cp _ hdc) (G_launch k hg) ?_ hA'
      exact WI_env cp (.launch k) (fun k' e => by cases e; exact hA _ List.mem_cons_self) (by simp) h
    | complete ids => exact ih _ (step_DCI cp _ hdc) hg h hA'
    | cuRoom n => exact ih _ (step_DCI cp _ hdc) hg (WI_env cp (.cuRoom n) (fun k' e => by cases e) (by simp) h) hA'
    | drvRoom n => exact ih _ (step_DCI cp _ hdc) hg (WI_env cp (.drvRoom n) (fun k' e => by cases e) (by simp) h) hA'

theorem mkCP_WI (A : List Kern) (cfg : Cfg) (nd : Nat) (pool : List CU) : WI A (mkCP cfg nd pool).view := by
  have hd : ∀ j, ((mkCP cfg nd pool).view.ds j) = (default : Disp).view := by
    intro j; show ((mkCP cfg nd pool).disp j).view = _; rw [mkCP_disp]
  exact {
    wb := fun i k hk => by rw [hd i] at hk; cases hk
    wd := fun k hk => by cases hk
    wr := fun l hl => by simp [CP.view, mkCP, rspCount] at hl
    wq := rfl
    wlt := fun j r hr => by rw [hd j] at hr; cases hr
    wdl := fun r hr => by cases hr
    wdis := fun j r hr => by rw [hd j] at hr; cases hr
    wx := fun i j _ r hr => by rw [hd i] at hr; cases hr
    wdn := List.nodup_nil }

/-- the kernels delivered by a sequence of environment moves -/
def launchKerns (ops : List Op) : List Kern :=
  ops.filterMap (fun o => match o with | .launch k => some k | _ => none)

theorem launchIds_eq (ops : List Op) : launchIds ops = (launchKerns ops).map (·.id) := by
  induction ops with
  | nil => rfl
  | cons o ops ih =>
    cases o <;> simp_all [launchIds, launchKerns]

theorem mem_launchKerns (ops : List Op) (k : Kern) : k ∈ launchKerns ops ↔ Op.launch k ∈ ops := by
  simp only [launchKerns, List.mem_filterMap]
  constructor
  · rintro ⟨o, ho, he⟩
    cases o <;> simp at he
    subst he; exact ho
  · intro h; exact ⟨_, h, rfl⟩

theorem inj_of_nodup_map {α β : Type} (f : α → β) : ∀ (l : List α), (l.map f).Nodup →
    ∀ a ∈ l, ∀ b ∈ l, f a = f b → a = b := by
  intro l
  induction l with
  | nil => intro _ a ha; cases ha
  | cons x xs ih =>
    intro hn a ha b hb hab
    rw [List.map_cons, List.nodup_cons] at hn
    rcases List.mem_cons.1 ha with ha | ha <;> rcases List.mem_cons.1 hb with hb | hb
    · rw [ha, hb]
    · rw [ha] at hab; exact absurd (List.mem_map.2 ⟨b, hb, hab.symm⟩) hn.1
    · rw [hb] at hab; exact absurd (List.mem_map.2 ⟨a, ha, hab⟩) hn.1
    · exact ih hn.2 a ha b hb hab

/-- run-level statement: a launch that was answered has its whole grid in the trace, each work-group once
    and in order, every one of its requests was completed (consumed by the owner, exactly once) and is
    in flight nowhere -/
theorem rsp_implies_whole_grid (cfg : Cfg) (nd : Nat) (pool : List CU) (ops : List Op)
    (hids : (launchIds ops).Nodup) (k : Kern) (hk : Op.launch k ∈ ops)
    (hr : 1 ≤ rspCount (run (mkCP cfg nd pool) ops).log k.id) :
    mapsOf (run (mkCP cfg nd pool) ops).log k.id = List.range k.numWG ∧
    (∀ r c idx locs, Ev.map r c k.id idx locs ∈ (run (mkCP cfg nd pool) ops).log →
      r ∈ (run (mkCP cfg nd pool) ops).done ∧
      ∀ j, ∀ e ∈ ((run (mkCP cfg nd pool) ops).disp j).inflight, e.1 ≠ r) ∧
    (run (mkCP cfg nd pool) ops).done.Nodup ∧
    reqsOf (run (mkCP cfg nd pool) ops).log = List.range (run (mkCP cfg nd pool) ops).nextReq := by
  have hw := run_WI (A := launchKerns ops) ops _ (mkCP_DCI cfg nd pool) (mkCP_GI cfg nd pool _ hids)
    (mkCP_WI _ cfg nd pool) (fun k' hk' => (mem_launchKerns ops k').2 hk')
  obtain ⟨k', hk'A, hid, hm, hall⟩ := hw.wr k.id hr
  have hkk : k' = k := by
    rw [launchIds_eq] at hids
    exact inj_of_nodup_map (·.id) _ hids k' hk'A k ((mem_launchKerns ops k).2 hk) hid
  subst hkk
  refine ⟨hm, ?_, hw.wdn, hw.wq⟩
  intro r c idx locs hmem
  have hd := hall r c idx locs hmem
  refine ⟨hd, ?_⟩
  intro j e he her
  have : r ∈ ((run (mkCP cfg nd pool) ops).view.ds j).infl := by
    show r ∈ ((run (mkCP cfg nd pool) ops).disp j).inflight.map (·.1)
    exact List.mem_map.2 ⟨e, he, her⟩
  exact hw.wdis j r this hd

end C09
