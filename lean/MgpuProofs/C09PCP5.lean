import MgpuProofs.C09PCP4
/-! # C09 — partition algorithm inside the command processor, part 5: `dispatchNextWG` keeps `PInv`. -/
namespace C09

/-- first half of `dispatchNextWG`: obtain the work-group to send -/
def ppre (cp : PCP) (i : Nat) : PCP × Option DLoc :=
  match (cp.disp i).currWG with
  | some dl => (cp, some dl)
  | none =>
    if (cp.disp i).alg.hasNext then
      let r := pNext cp i
      (r.1.setDisp i { r.1.disp i with currWG := r.2 }, r.2)
    else (cp, none)

/-- second half of `dispatchNextWG`: send the `MapWGReq` -/
def ptail (cp1 : PCP) (i : Nat) (cur : Option DLoc) : PCP × Bool :=
  match cur with
  | none => (cp1, false)
  | some dl =>
    if cp1.fault.isSome then (cp1, false) else
    if cp1.cuRoom = 0 then (cp1, false) else
    let d1 := cp1.disp i
    let id := cp1.nextReq
    let cp2 := ({ cp1 with cuRoom := cp1.cuRoom - 1, nextReq := id + 1 }).emit
                 (.map id dl.cu dl.launch dl.idx dl.locs)
    let cp3 := cp2.setDisp i { d1 with currWG := none, nd := d1.nd + 1,
                                       inflight := (id, dl) :: d1.inflight, cycleLeft := 0 }
    if dl.locs.length > 16 then ({ cp3 with fault := some "bounds" }, true) else (cp3, true)

theorem pDispatchNextWG_eq (cp : PCP) (i : Nat) :
    pDispatchNextWG cp i = ptail (ppre cp i).1 i (ppre cp i).2 := by
  cases hc : (cp.disp i).currWG with
  | some dl => unfold pDispatchNextWG ppre; simp only [hc]; rfl
  | none =>
    by_cases hn : (cp.disp i).alg.hasNext = true
    · unfold pDispatchNextWG ppre; simp only [hc, hn, if_true]; rfl
    · unfold pDispatchNextWG ppre; simp only [hc, hn]; rfl

/-- the result of the loop of `Next`, as a dispatch location -/
def PRes.loc (r : PRes) (launch : Nat) : Option DLoc :=
  match r with
  | .placed c key idx locs => some { cu := c, key := key, launch := launch, idx := idx, locs := locs }
  | _ => Option.none

/-- `Next` + `d.currWG = result` of a busy dispatcher that has work-groups left: the new state in terms of
    the loop result `g` -/
theorem ppre_next (cp : PCP) (i : Nat) (k : Kern) (hi : i < cp.disps.length)
    (hak : (cp.disp i).alg.kern = some k) (hcw : (cp.disp i).currWG = none)
    (hn : (cp.disp i).alg.hasNext = true)
    (hnf : (pNextGo k (cp.disp i).alg.part.n 0 (cp.disp i).alg cp.pool cp.nextKey).res ≠ .fault) :
    let g := pNextGo k (cp.disp i).alg.part.n 0 (cp.disp i).alg cp.pool cp.nextKey
    (ppre cp i).2 = g.res.loc k.id ∧
    (ppre cp i).1.pool = g.pool ∧ (ppre cp i).1.nextKey = g.nk ∧ (ppre cp i).1.nextReq = cp.nextReq ∧
    (ppre cp i).1.fault = cp.fault ∧ (ppre cp i).1.log = cp.log ∧ (ppre cp i).1.drvIn = cp.drvIn ∧
    (ppre cp i).1.disps.length = cp.disps.length ∧
    (ppre cp i).1.dvs = upd cp.dvs i
      ⟨g.alg, (cp.disp i).kern, g.res.loc k.id, (cp.disp i).nd, (cp.disp i).nc, (cp.disp i).inflight⟩ := by
  intro g
  have hlt : ¬ (cp.disp i).alg.part.nd ≥ (cp.disp i).alg.part.numWG := by
    simp only [PAlg.hasNext, decide_eq_true_eq] at hn; omega
  have hpn : pNext cp i =
      (match g.res with
       | .placed c key idx locs =>
         (({ cp with pool := g.pool, nextKey := g.nk } : PCP).setDisp i { cp.disp i with alg := g.alg },
          some { cu := c, key := key, launch := k.id, idx := idx, locs := locs })
       | .none => (({ cp with pool := g.pool, nextKey := g.nk } : PCP).setDisp i { cp.disp i with alg := g.alg }, none)
       | .fault => ({ ({ cp with pool := g.pool, nextKey := g.nk } : PCP).setDisp i { cp.disp i with alg := g.alg }
                      with fault := some "twice" }, none)) := by
    unfold pNext
    simp only [hak, hlt, if_false]
    rfl
  have hpre : ppre cp i = ((pNext cp i).1.setDisp i { (pNext cp i).1.disp i with currWG := (pNext cp i).2 },
      (pNext cp i).2) := by
    unfold ppre; simp only [hcw, hn, if_true]
  rw [hpre, hpn]
  have hi' : i < ({ cp with pool := g.pool, nextKey := g.nk } : PCP).disps.length := hi
  cases hres : g.res with
  | placed c key idx locs =>
    refine ⟨rfl, rfl, rfl, rfl, rfl, rfl, rfl, by simp [PCP.setDisp], ?_⟩
    rw [dvs_setDisp _ _ _ (by simpa [PCP.setDisp] using hi), dvs_setDisp _ _ _ hi', upd_upd]
    congr 1
    rw [pdisp_setDisp]; simp [hi, PDisp.dv]
    rfl
  | none =>
    refine ⟨rfl, rfl, rfl, rfl, rfl, rfl, rfl, by simp [PCP.setDisp], ?_⟩
    rw [dvs_setDisp _ _ _ (by simpa [PCP.setDisp] using hi), dvs_setDisp _ _ _ hi', upd_upd]
    congr 1
    rw [pdisp_setDisp]; simp [hi, PDisp.dv]
    rfl
  | fault => exact absurd hres hnf

/-- `hasNext` of an idle-looking algorithm: a dispatcher outside the list has nothing to dispatch -/
theorem hasNext_lt (cp : PCP) (i : Nat) (hn : (cp.disp i).alg.hasNext = true) : i < cp.disps.length := by
  by_cases hi : i < cp.disps.length
  · exact hi
  · rw [pdisp_oob cp i hi] at hn; simp [PAlg.hasNext, default] at hn

theorem ppre_inv {b caps Ks p} (cp : PCP) (i : Nat) (k : Kern) (h : PInv b caps Ks p cp)
    (hk : (cp.disp i).kern = some k) :
    PInv b caps Ks p (ppre cp i).1 ∧ ((ppre cp i).1.disp i).currWG = (ppre cp i).2 ∧
    ((ppre cp i).1.disp i).kern = some k ∧ (ppre cp i).1.disps.length = cp.disps.length ∧
    (ppre cp i).1.fault = cp.fault := by
  have hi := lt_of_kern cp i k hk
  cases hcw : (cp.disp i).currWG with
  | some dl =>
    have : ppre cp i = (cp, some dl) := by unfold ppre; simp only [hcw]
    rw [this]; exact ⟨h, hcw, hk, rfl, rfl⟩
  | none =>
    by_cases hn : (cp.disp i).alg.hasNext = true
    · have hd := h.d i
      have hk' : (cp.dvs i).kern = some k := hk
      obtain ⟨hak, hKO⟩ := hd.algK k hk'
      obtain ⟨hpi, hnw, hnp⟩ := hd.pi k hk'
      have hak : (cp.disp i).alg.kern = some k := hak
      have hpi : PI (cp.disp i).alg.part (cp.disp i).alg.hist := hpi
      have hnw : (cp.disp i).alg.part.numWG = k.numWG := hnw
      have hnp : (cp.disp i).alg.part.n = cp.pool.length := hnp
      have hks : KS (Others (fun j => (cp.dvs j).alg) i) (cp.disp i).alg cp.pool cp.nextKey := h.k.toKS i
      obtain ⟨b1, b2, b3, b4, b5⟩ := pNextGo_pool caps k _ hKO (cp.disp i).alg.part.n 0 (cp.disp i).alg cp.pool
        cp.nextKey _ h.k.pinv hnp hpi hnw hks
      obtain ⟨a1, a2, a3, a4, a5, a6⟩ := pNextGo_PI k (cp.disp i).alg cp.pool cp.nextKey hpi b1
      obtain ⟨r1, r2, r3, r4, r5, r6, r7, r8, r9⟩ := ppre_next cp i k hi hak hcw hn b1
      have hcnt := hd.cnt k hk'
      have hcw' : (cp.dvs i).cur = none := hcw
      rw [hcw'] at hcnt
      simp only [Option.isSome_none, Bool.false_eq_true, if_false, Nat.add_zero] at hcnt
      have hcnt : (cp.disp i).nd = (cp.disp i).alg.part.nd := hcnt
      have hdi9 := congrFun r9 i
      rw [upd_same] at hdi9
      refine ⟨?_, ?_, ?_, r8, r5⟩
      · refine PInv_upd cp _ i _ h r9 ?_ (by rw [r5]; exact h.noTwice) (by rw [r4]; exact Nat.le_refl _) ?_ ?_
          (by rw [r7]; exact h.drv)
        · rw [r2, r3]
          exact KInv_of_KS h.k i _ _ _ b2 b4
        · rw [r2, r4]
          have hplen : (pNextGo k (cp.disp i).alg.part.n 0 (cp.disp i).alg cp.pool cp.nextKey).pool.length
              = cp.pool.length := by rw [b2.1, h.k.pinv.1]
          rw [hplen]
          exact {
            idle := by intro hkn; rw [hk] at hkn; cases hkn
            algK := by
              intro k2 hk2
              have : k2 = k := by rw [hk] at hk2; injection hk2 with hk2; exact hk2.symm
              subst this
              exact ⟨a4.trans hak, hKO⟩
            pi := by
              intro k2 hk2
              have : k2 = k := by rw [hk] at hk2; injection hk2 with hk2; exact hk2.symm
              subst this
              exact ⟨a1, a2.trans hnw, a3.trans hnp⟩
            cnt := by
              intro k2 _
              show (cp.disp i).nd + _ = _
              cases hres : (pNextGo k (cp.disp i).alg.part.n 0 (cp.disp i).alg cp.pool cp.nextKey).res with
              | placed c key w locs =>
                obtain ⟨_, hh⟩ := a5 c key w locs hres
                have e1 := a1.hcnt
                rw [hh] at e1
                have e0 := hpi.hcnt
                simp only [PRes.loc, Option.isSome_some, if_true, List.length_cons] at e1 ⊢
                omega
              | none =>
                obtain ⟨_, hh⟩ := a6 hres
                simp only [PRes.loc, Option.isSome_none, Bool.false_eq_true, if_false]
                omega
              | fault => exact absurd hres b1
            cur := by
              intro k2 dl hk2 hdl
              have : k2 = k := by rw [hk] at hk2; injection hk2 with hk2; exact hk2.symm
              subst this
              cases hres : (pNextGo k2 (cp.disp i).alg.part.n 0 (cp.disp i).alg cp.pool cp.nextKey).res with
              | placed c key w locs =>
                have hdl : (PRes.loc _ k2.id) = some dl := hdl
                rw [hres] at hdl
                simp only [PRes.loc, Option.some.injEq] at hdl
                subst hdl
                exact ⟨rfl, _, (a5 c key w locs hres).2⟩
              | none =>
                have hdl : (PRes.loc _ k2.id) = some dl := hdl
                rw [hres] at hdl; simp [PRes.loc] at hdl
              | fault => exact absurd hres b1
            fl := hd.fl
            ids := hd.ids
            idlt := hd.idlt }
        · intro hb
          rw [r6, r7]
          refine TInv_congr _ _ (h.t hb) ?_ ?_
          · intro j
            by_cases hj : j = i
            · subst hj; rw [upd_same]; rfl
            · rw [upd_other _ _ _ _ hj]
          · intro j
            by_cases hj : j = i
            · subst hj; rw [upd_same]
              show sent _ = sent (cp.disp j).dv
              cases hres : (pNextGo k (cp.disp j).alg.part.n 0 (cp.disp j).alg cp.pool cp.nextKey).res with
              | placed c key w locs =>
                simp only [sent, PRes.loc, Option.isSome_some, if_true, PDisp.dv, hcw, Option.isSome_none,
                  Bool.false_eq_true, if_false]
                rw [(a5 c key w locs hres).2]; rfl
              | none =>
                simp only [sent, PRes.loc, Option.isSome_none, Bool.false_eq_true, if_false, PDisp.dv, hcw]
                exact (a6 hres).1
              | fault => exact absurd hres b1
            · rw [upd_other _ _ _ _ hj]
      · have : ((ppre cp i).1.disp i).currWG = ((ppre cp i).1.dvs i).cur := rfl
        rw [this, hdi9, r1]
      · have : ((ppre cp i).1.disp i).kern = ((ppre cp i).1.dvs i).kern := rfl
        rw [this, hdi9]; exact hk
    · have : ppre cp i = (cp, none) := by unfold ppre; simp only [hcw, hn]; rfl
      rw [this]; exact ⟨h, hcw, hk, rfl, rfl⟩

/-- the dispatcher after its `MapWGReq` went out -/
def sentDV (d : PDisp) (id : Nat) (dl : DLoc) : PDV :=
  ⟨d.alg, d.kern, none, d.nd + 1, d.nc, (id, dl) :: d.inflight⟩

theorem ptail_frame (cp1 : PCP) (i : Nat) (cur : Option DLoc) :
    (ptail cp1 i cur).1.disps.length = cp1.disps.length ∧
    ((ptail cp1 i cur).1.disp i).kern = (cp1.disp i).kern := by
  have hset : ∀ (cp2 : PCP) (d' : PDisp), cp2.disps = cp1.disps → d'.kern = (cp1.disp i).kern →
      ((cp2.setDisp i d').disp i).kern = (cp1.disp i).kern := by
    intro cp2 d' e1 e2
    rw [pdisp_setDisp]
    split
    · exact e2
    · show (cp2.disps.getD i default).kern = _; rw [e1]; rfl
  unfold ptail
  cases cur with
  | none => exact ⟨rfl, rfl⟩
  | some dl =>
    simp only []
    split
    · exact ⟨rfl, rfl⟩
    · split
      · exact ⟨rfl, rfl⟩
      · split
        · exact ⟨by simp [PCP.setDisp, PCP.emit], hset _ _ rfl rfl⟩
        · exact ⟨by simp [PCP.setDisp, PCP.emit], hset _ _ rfl rfl⟩

theorem ptail_inv {b caps Ks p} (cp1 : PCP) (i : Nat) (cur : Option DLoc) (k : Kern) (h : PInv b caps Ks p cp1)
    (hk : (cp1.disp i).kern = some k) (hcur : (cp1.disp i).currWG = cur) :
    PInv b caps Ks p (ptail cp1 i cur).1 := by
  have hi := lt_of_kern cp1 i k hk
  unfold ptail
  cases cur with
  | none => exact h
  | some dl =>
    simp only []
    by_cases hf : cp1.fault.isSome = true
    · simp only [hf, if_true]; exact h
    · have hnone : cp1.fault = none := by cases hx : cp1.fault <;> simp_all
      simp only [hf]
      by_cases hr : cp1.cuRoom = 0
      · simp only [hr, if_true]; exact h
      · simp only [hr, if_false]
        have hd := h.d i
        have hk' : (cp1.dvs i).kern = some k := hk
        have hcur' : (cp1.dvs i).cur = some dl := hcur
        obtain ⟨hpi, hnw, _⟩ := hd.pi k hk'
        obtain ⟨hl, t, ht⟩ := hd.cur k dl hk' hcur'
        have hcnt := hd.cnt k hk'
        rw [hcur'] at hcnt
        simp only [Option.isSome_some, if_true] at hcnt
        have hcnt : (cp1.disp i).nd + 1 = (cp1.disp i).alg.part.nd := hcnt
        have hsent : sent (cp1.dvs i) = t := by
          simp only [sent, hcur', Option.isSome_some, if_true, ht, List.tail_cons]
        have hnd := hpi.hnd
        rw [ht, List.nodup_cons] at hnd
        have hlt : dl.idx < k.numWG := by
          rw [← hnw]; exact PI_lt _ _ hpi dl.idx (by rw [ht]; exact List.mem_cons_self)
        -- the invariant of the state after the send, whatever the fault field becomes
        have key : ∀ cp3 : PCP, cp3.dvs = upd cp1.dvs i (sentDV (cp1.disp i) cp1.nextReq dl) →
            cp3.pool = cp1.pool → cp3.nextKey = cp1.nextKey → cp3.nextReq = cp1.nextReq + 1 →
            cp3.fault ≠ some "twice" → cp3.drvIn = cp1.drvIn →
            cp3.log = .map cp1.nextReq dl.cu dl.launch dl.idx dl.locs :: cp1.log → PInv b caps Ks p cp3 := by
          intro cp3 e1 e2 e3 e4 e5 e6 e7
          refine PInv_upd cp1 cp3 i _ h e1 ?_ e5 (by rw [e4]; exact Nat.le_succ _) ?_ ?_ (by rw [e6]; exact h.drv)
          · rw [e2, e3, upd_self (fun j => (cp1.dvs j).alg) i (sentDV (cp1.disp i) cp1.nextReq dl).alg rfl]
            exact h.k
          · rw [e2, e4]
            exact {
              idle := by intro hkn; have : (cp1.disp i).kern = none := hkn; rw [hk] at this; cases this
              algK := hd.algK
              pi := hd.pi
              cnt := by
                intro k2 _
                show (cp1.disp i).nd + 1 + 0 = (cp1.disp i).alg.part.nd
                omega
              cur := by intro k2 dl' _ hc; cases hc
              fl := by
                show (cp1.disp i).nc + ((cp1.disp i).inflight.length + 1) = (cp1.disp i).nd + 1
                have : (cp1.disp i).nc + (cp1.disp i).inflight.length = (cp1.disp i).nd := hd.fl
                omega
              ids := by
                show (List.map (·.1) ((cp1.nextReq, dl) :: (cp1.disp i).inflight)).Nodup
                rw [List.map_cons, List.nodup_cons]
                refine ⟨?_, hd.ids⟩
                intro hm
                obtain ⟨e, he, hee⟩ := List.mem_map.1 hm
                have := hd.idlt e he
                simp only at hee; omega
              idlt := by
                intro e he
                rcases List.mem_cons.1 he with he | he
                · subst he; simp
                · have := hd.idlt e he; omega }
          · intro hb
            rw [e7, e6, hl]
            have hS : sent (sentDV (cp1.disp i) cp1.nextReq dl) = dl.idx :: (fun j => sent (cp1.dvs j)) i := by
              show sent (sentDV (cp1.disp i) cp1.nextReq dl) = dl.idx :: sent (cp1.dvs i)
              rw [hsent]
              simp only [sent, sentDV, Option.isSome_none, Bool.false_eq_true, if_false]
              exact ht
            rw [hS, upd_self (fun j => (cp1.dvs j).kern) i (sentDV (cp1.disp i) cp1.nextReq dl).kern rfl]
            exact TInv_map (h.t hb) i k hk' cp1.nextReq dl.cu dl.idx dl.locs (by rw [hsent]; exact hnd.1) hlt
        have hdv : ((({ cp1 with cuRoom := cp1.cuRoom - 1, nextReq := cp1.nextReq + 1 } : PCP).emit
            (.map cp1.nextReq dl.cu dl.launch dl.idx dl.locs)).setDisp i
            { cp1.disp i with currWG := none, nd := (cp1.disp i).nd + 1,
                              inflight := (cp1.nextReq, dl) :: (cp1.disp i).inflight, cycleLeft := 0 }).dvs
            = upd cp1.dvs i (sentDV (cp1.disp i) cp1.nextReq dl) :=
          dvs_setDisp _ i _ hi
        by_cases hb : dl.locs.length > 16
        · simp only [hb, if_true]
          exact key _ hdv rfl rfl rfl (by simp) rfl rfl
        · simp only [hb, if_false]
          exact key _ hdv rfl rfl rfl (by show cp1.fault ≠ _; rw [hnone]; simp) rfl rfl

theorem pDispatchNextWG_inv {b caps Ks p} (cp : PCP) (i : Nat) (k : Kern) (h : PInv b caps Ks p cp)
    (hk : (cp.disp i).kern = some k) :
    PInv b caps Ks p (pDispatchNextWG cp i).1 ∧ (pDispatchNextWG cp i).1.disps.length = cp.disps.length ∧
    ((pDispatchNextWG cp i).1.disp i).kern = some k := by
  rw [pDispatchNextWG_eq]
  obtain ⟨h1, h2, h3, h4, _⟩ := ppre_inv cp i k h hk
  obtain ⟨f1, f2⟩ := ptail_frame (ppre cp i).1 i (ppre cp i).2
  exact ⟨ptail_inv (ppre cp i).1 i (ppre cp i).2 k h1 h3 h2, f1.trans h4, f2.trans h3⟩

theorem pDispatchLoop_inv {b caps Ks p} (i : Nat) (k : Kern) : ∀ (n : Nat) (cp : PCP), PInv b caps Ks p cp →
    (cp.disp i).kern = some k →
    PInv b caps Ks p (pDispatchLoop i n cp).1 ∧ (pDispatchLoop i n cp).1.disps.length = cp.disps.length := by
  intro n
  induction n with
  | zero => intro cp h _; exact ⟨h, rfl⟩
  | succ n ih =>
    intro cp h hk
    obtain ⟨h1, h2, h3⟩ := pDispatchNextWG_inv cp i k h hk
    simp only [pDispatchLoop]
    by_cases hc : (!(pDispatchNextWG cp i).2 || decide (((pDispatchNextWG cp i).1.disp i).cycleLeft > 0)
        || (pDispatchNextWG cp i).1.fault.isSome) = true
    · simp only [hc, if_true]; exact ⟨h1, h2⟩
    · simp only [hc]
      obtain ⟨i1, i2⟩ := ih _ h1 h3
      exact ⟨i1, i2.trans h2⟩

end C09
