import MgpuProofs.C17WLive3
/-! C17, liveness for every width, part 4: the cycle counters stay below `cyclePerStage` (so the work left in the lanes
is at most `occupied stages · wEntry`), the explicit bound on `headPot`, and the measure for every request of `inOrder`:
`position · potBound + headPot`. -/
namespace C17
namespace WLive
open WBnd

/-! ### cycle counters -/

def StageOk (c : Cfg) (st : Stage) : Prop := ∀ it n, st = some (it, n) → n ≤ c.lat - 1
def LaneCyc (c : Cfg) (l : Lane) : Prop := ∀ st ∈ l, StageOk c st
def CycOk (c : Cfg) (b : WBank) : Prop := ∀ l ∈ b.lanes, LaneCyc c l

theorem stageOk_none (c : Cfg) : StageOk c none := by intro it n h; cases h

theorem laneCyc_cons (c : Cfg) (a : Stage) (l : Lane) : LaneCyc c (a :: l) ↔ StageOk c a ∧ LaneCyc c l := by
  unfold LaneCyc
  simp only [List.mem_cons, forall_eq_or_imp]

theorem advance_cyc (c : Cfg) : ∀ (rest : Lane) (a : Stage), StageOk c a → LaneCyc c rest →
    LaneCyc c (advance c.lat a rest) := by
  intro rest
  induction rest with
  | nil => intro a ha _; simp only [advance]; exact (laneCyc_cons c a []).2 ⟨ha, fun _ h => by cases h⟩
  | cons b rest ih =>
    intro a ha hr
    obtain ⟨hb, hrest⟩ := (laneCyc_cons c b rest).1 hr
    cases b with
    | none =>
      simp only [advance]
      exact (laneCyc_cons c _ _).2 ⟨ha, ih none (stageOk_none c) hrest⟩
    | some p =>
      obtain ⟨it, left⟩ := p
      simp only [advance]
      have hle := hb it left rfl
      split
      · refine (laneCyc_cons c _ _).2 ⟨ha, ih _ ?_ hrest⟩
        intro it' n h; cases h; omega
      · cases a with
        | none =>
          dsimp only
          refine (laneCyc_cons c _ _).2 ⟨?_, ih none (stageOk_none c) hrest⟩
          intro it' n h; cases h; exact Nat.le_refl _
        | some q =>
          dsimp only
          exact (laneCyc_cons c _ _).2 ⟨ha, ih _ hb hrest⟩

theorem tickLane_cyc (c : Cfg) (post : List Item) (l : Lane) (h : LaneCyc c l) : LaneCyc c (tickLane c post l).2 := by
  cases l with
  | nil => exact h
  | cons e rest =>
    obtain ⟨he, hrest⟩ := (laneCyc_cons c e rest).1 h
    cases e with
    | none => simp only [tickLane]; exact advance_cyc c rest none (stageOk_none c) hrest
    | some p =>
      obtain ⟨it, left⟩ := p
      have hle := he it left rfl
      simp only [tickLane]
      split
      · exact advance_cyc c rest _ (by intro it' n h; cases h; omega) hrest
      · split
        · exact advance_cyc c rest none (stageOk_none c) hrest
        · exact advance_cyc c rest _ he hrest

theorem tickLanes_cyc (c : Cfg) : ∀ (ls : List Lane) (post : List Item), (∀ l ∈ ls, LaneCyc c l) →
    ∀ l ∈ (tickLanes c post ls).2, LaneCyc c l
  | [], _, h => by intro l hl; simp [tickLanes] at hl
  | l :: ls, post, h => by
    rw [tickLanes_cons]
    intro x hx
    rcases List.mem_cons.1 hx with rfl | hx
    · exact tickLane_cyc c post l (h l (by simp))
    · exact tickLanes_cyc c ls _ (fun y hy => h y (by simp [hy])) x hx

theorem acceptLane_cyc (c : Cfg) (x : Item × Nat) (hx : x.2 ≤ c.lat - 1) : ∀ (l l' : Lane), acceptLane x l = some l' →
    LaneCyc c l → LaneCyc c l' := by
  intro l
  induction l with
  | nil => intro l' h; simp [acceptLane] at h
  | cons s rest ih =>
    intro l' h hl
    obtain ⟨hs, hrest⟩ := (laneCyc_cons c s rest).1 hl
    cases rest with
    | nil =>
      simp only [acceptLane] at h
      split at h
      · cases h
        refine (laneCyc_cons c _ _).2 ⟨?_, fun _ h => by cases h⟩
        intro it n e; cases e; exact hx
      · cases h
    | cons s2 rest2 =>
      simp only [acceptLane, Option.map_eq_some_iff] at h
      obtain ⟨l2, h2, rfl⟩ := h
      exact (laneCyc_cons c _ _).2 ⟨hs, ih l2 (by simpa [acceptLane] using h2) hrest⟩

theorem acceptLanes_cyc (c : Cfg) (x : Item × Nat) (hx : x.2 ≤ c.lat - 1) : ∀ (ls ls' : List Lane),
    acceptLanes x ls = some ls' → (∀ l ∈ ls, LaneCyc c l) → ∀ l ∈ ls', LaneCyc c l := by
  intro ls
  induction ls with
  | nil => intro ls' h; simp [acceptLanes] at h
  | cons l ls ih =>
    intro ls' h hl
    simp only [acceptLanes] at h
    cases ha : acceptLane x l with
    | some l' =>
      rw [ha] at h
      cases h
      intro y hy
      rcases List.mem_cons.1 hy with rfl | hy
      · exact acceptLane_cyc c x hx l _ ha (hl l (by simp))
      · exact hl y (by simp [hy])
    | none =>
      rw [ha] at h
      simp only [Option.map_eq_some_iff] at h
      obtain ⟨l2, h2, rfl⟩ := h
      intro y hy
      rcases List.mem_cons.1 hy with rfl | hy
      · exact hl _ (by simp)
      · exact ih l2 h2 (fun z hz => hl z (by simp [hz])) y hy

theorem accW_cyc (c : Cfg) (it : Item) (b b' : WBank) (h : accW c it b = some b') (hc : CycOk c b) : CycOk c b' := by
  unfold accW at h
  split at h
  · cases ha : acceptLanes (it, c.lat - 1) b.lanes with
    | none => rw [ha] at h; simp at h
    | some ls' =>
      rw [ha] at h
      cases h
      exact acceptLanes_cyc c _ (Nat.le_refl _) _ _ ha hc
  · simp at h

theorem accStar_cyc (c : Cfg) {b b' : WBank} (h : AccStar c b b') : CycOk c b → CycOk c b' := by
  induction h with
  | refl _ => exact id
  | step it ha _ ih => intro hc; exact ih (accW_cyc c it _ _ ha hc)
  | @other b0 b1 b2 hl _ _ _ _ ih =>
    intro hc
    apply ih
    unfold CycOk
    rw [hl]
    exact hc

theorem fin_lanes (c : Cfg) : ∀ (fuel : Nat) (b : WBank) (log : List Req) (out resp : List Rsp) (pg : Bool),
    (finalizeBankW c fuel b log out resp pg).bank.lanes = b.lanes := by
  intro fuel
  induction fuel with
  | zero => intro b log out resp pg; rfl
  | succ fuel ih =>
    intro b log out resp pg
    cases ho : b.order with
    | nil => simp only [finalizeBankW, ho]
    | cons o os =>
      simp only [finalizeBankW, ho]
      cases hf : b.early.find? (fun it => decide (it.req = o)) with
      | some it =>
        dsimp only
        split
        · rfl
        · cases hc : commit it log with
          | none => rfl
          | some p =>
            obtain ⟨it', log'⟩ := p
            dsimp only
            split
            · exact ih _ _ _ _ _
            · rfl
      | none =>
        dsimp only
        cases hp : b.post with
        | nil => rfl
        | cons hd t =>
          dsimp only
          split
          · split
            · rfl
            · cases hc : commit hd log with
              | none => rfl
              | some p =>
                obtain ⟨h', log'⟩ := p
                dsimp only
                split
                · exact ih _ _ _ _ _
                · rfl
          · exact ih _ _ _ _ _

def AllCyc (c : Cfg) (bs : List WBank) : Prop := ∀ b ∈ bs, CycOk c b

theorem allCyc_set (c : Cfg) (bs : List WBank) (k : Nat) (b : WBank) (h : AllCyc c bs) (hb : CycOk c b) :
    AllCyc c (bs.set k b) := by
  intro x hx
  rcases List.mem_or_eq_of_mem_set hx with hx | rfl
  · exact h x hx
  · exact hb

theorem allCyc_map (c : Cfg) (bs : List WBank) (f : WBank → WBank) (h : AllCyc c bs)
    (hf : ∀ b, CycOk c b → CycOk c (f b)) : AllCyc c (bs.map f) := by
  intro x hx
  obtain ⟨y, hy, rfl⟩ := List.mem_map.1 hx
  exact hf y (h y hy)

theorem fin_cyc (c : Cfg) (fuel : Nat) (b : WBank) (log : List Req) (out resp : List Rsp) (pg : Bool) (h : CycOk c b) :
    CycOk c (finalizeBankW c fuel b log out resp pg).bank := by
  unfold CycOk; rw [fin_lanes]; exact h

theorem pipe_cyc (c : Cfg) (b : WBank) (h : CycOk c b) : CycOk c (tickBankPipeW c b) :=
  tickLanes_cyc c b.lanes b.post h

theorem finalizeAtW_cyc (c : Cfg) (s : WState) (k : Nat) (pg : Bool) (h : AllCyc c s.banks) :
    AllCyc c (finalizeAtW c s k pg).st.banks := by
  unfold finalizeAtW
  cases hb : s.banks[k]? with
  | none => exact h
  | some b => exact allCyc_set c _ _ _ h (fin_cyc c _ b _ _ _ _ (h b (List.mem_of_getElem? hb)))

theorem finalizeFromW_cyc (c : Cfg) : ∀ (ks : List Nat) (s : WState) (pg : Bool), AllCyc c s.banks →
    AllCyc c (finalizeFromW c ks s pg).st.banks
  | [], _, _, h => h
  | k :: ks, s, pg, h => by
    have h1 := finalizeAtW_cyc c s k pg h
    simp only [finalizeFromW]
    split
    · exact h1
    · exact finalizeFromW_cyc c ks _ _ h1

theorem dispatchOneW_cyc (c : Cfg) (st : List WBank × List Req) (r : Req) (h : AllCyc c st.1) :
    AllCyc c (dispatchOneW c st r).1 := by
  unfold dispatchOneW
  cases hb : st.1[bankOf c r.addr]? with
  | none => exact h
  | some b =>
    dsimp only
    cases hd : dispatchBankW c r b with
    | none => exact h
    | some b' =>
      exact allCyc_set c _ _ _ h (accStar_cyc c (dispatchBankW_acc c r b b' hd) (h b (List.mem_of_getElem? hb)))

theorem foldl_dispatchW_cyc (c : Cfg) : ∀ (todo : List Req) (st : List WBank × List Req), AllCyc c st.1 →
    AllCyc c (todo.foldl (dispatchOneW c) st).1
  | [], _, h => h
  | r :: rest, st, h => foldl_dispatchW_cyc c rest _ (dispatchOneW_cyc c st r h)

theorem tickW_cyc (c : Cfg) (s : WState) (h : AllCyc c s.banks) : AllCyc c (tickW c s).banks := by
  have hf : AllCyc c (finalizeW c s).st.banks := finalizeFromW_cyc c _ s false h
  have h3 : AllCyc c (tickDelaysW c (tickPipesW c (finalizeW c s).st)).banks :=
    allCyc_map c _ _ (allCyc_map c _ _ hf (pipe_cyc c)) (fun b hb => accStar_cyc c (tickBankDelayW_acc c b) hb)
  simp only [tickW]
  split
  · exact hf
  · split
    · exact h3
    · exact foldl_dispatchW_cyc c _ _ h3

theorem stepW_cyc (c : Cfg) (s : WState) (op : Op) (h : AllCyc c s.banks) : AllCyc c (stepW c s op).banks := by
  cases op with
  | deliver k a l d m => simp only [stepW, deliverW_banks]; exact h
  | tick => exact tickW_cyc c s h
  | out k => exact h

theorem initW_cyc (c : Cfg) : AllCyc c (initW c).banks := by
  intro b hb
  have : b = emptyBankW c := (List.mem_replicate.1 hb).2
  rw [this]
  intro l hl
  have : l = List.replicate c.depth none := (List.mem_replicate.1 hl).2
  rw [this]
  intro st hst
  rw [(List.mem_replicate.1 hst).2]
  exact stageOk_none c

theorem foldl_stepW_cyc (c : Cfg) : ∀ (ops : List Op) (s : WState), AllCyc c s.banks →
    AllCyc c (ops.foldl (stepW c) s).banks
  | [], _, h => h
  | op :: ops, s, h => foldl_stepW_cyc c ops _ (stepW_cyc c s op h)

theorem run_cyc (c : Cfg) (ops : List Op) : AllCyc c (runW c ops).banks :=
  foldl_stepW_cyc c ops _ (initW_cyc c)

/-! ### the explicit bound -/

theorem wLane_le (c : Cfg) : ∀ (l : Lane) (j : Nat), LaneCyc c l → j + l.length ≤ c.depth →
    ∀ a ∈ wLane c j l, a.2 ≤ wEntry c := by
  intro l
  induction l with
  | nil => intro j _ _ a ha; simp at ha
  | cons s rest ih =>
    intro j hl hj a ha
    obtain ⟨hs, hrest⟩ := (laneCyc_cons c s rest).1 hl
    simp only [List.length_cons] at hj
    cases s with
    | none =>
      rw [wLane_none] at ha
      exact ih (j + 1) hrest (by omega) a ha
    | some p =>
      rw [wLane_some] at ha
      rcases List.mem_cons.1 ha with rfl | ha
      · have h1 := hs p.1 p.2 rfl
        have h2 : (j + 1) * stageCost c ≤ c.depth * stageCost c := Nat.mul_le_mul_right _ (by omega)
        rw [Nat.add_mul] at h2
        simp only [wEntry]
        simp only [stageCost] at *
        omega
      · exact ih (j + 1) hrest (by omega) a ha

theorem wsum_le_of (m : Nat) : ∀ (l : WL), (∀ a ∈ l, a.2 ≤ m) → wsum l ≤ l.length * m := by
  intro l
  induction l with
  | nil => intro _; simp [wsum]
  | cons x t ih =>
    intro h
    have h1 := h x (by simp)
    have h2 := ih (fun a ha => h a (by simp [ha]))
    simp only [wsum, List.map_cons, List.sum_cons, List.length_cons, Nat.succ_mul] at *
    omega

theorem wLane_length (c : Cfg) (l : Lane) (j : Nat) : (wLane c j l).length = (laneItems l).length := by
  have := congrArg List.length (wLane_reqs c l j)
  simpa using this

theorem flat_wLane_length (c : Cfg) : ∀ (ls : List Lane), (ls.flatMap (wLane c 0)).length = laneCount ls
  | [] => rfl
  | l :: ls => by
    rw [laneCount_cons, List.flatMap_cons, List.length_append, wLane_length, flat_wLane_length c ls]

/-- the work left in the lanes is at most `wEntry` per occupied stage -/
theorem laneWork_le (c : Cfg) (b : WBank) (hg : Good c b) (hc : CycOk c b) :
    laneWork c b.lanes ≤ laneCount b.lanes * wEntry c := by
  unfold laneWork
  rw [← flat_wLane_length c b.lanes]
  apply wsum_le_of
  intro a ha
  obtain ⟨l, hl, hal⟩ := List.mem_flatMap.1 ha
  exact wLane_le c l 0 (hc l hl) (by rw [hg.bnd.ll l hl]; omega) a hal

/-- explicit bound on the measure of the oldest request: `2 · width · depth · (depth · cyclesPerStage + 1) + 3` -/
def potBound (c : Cfg) : Nat := 2 * (c.width * c.depth * wEntry c) + 3

theorem headPot_le (c : Cfg) (b : WBank) (hg : Good c b) (hc : CycOk c b) : headPot c b ≤ potBound c := by
  have h1 := laneWork_le c b hg hc
  have hcap := laneCount_le c.depth b.lanes hg.bnd.ll
  rw [hg.bnd.nl] at hcap
  have h2 : laneCount b.lanes * wEntry c + freeSlots c b * wEntry c = c.width * c.depth * wEntry c := by
    rw [← Nat.add_mul]; unfold freeSlots; congr 1; omega
  unfold headPot potBound
  cases b.order with
  | nil => dsimp only; omega
  | cons o os =>
    dsimp only
    split
    · omega
    · split
      · rw [Nat.add_mul]; omega
      · have : 0 ≤ freeSlots c b * wEntry c := Nat.zero_le _
        omega

end WLive
end C17
