import MgpuModel.Gen.AluScalar
/-! helper for C06 (scalar part): projections of `if` -/
namespace C06
open C03S

theorem exec_ite (c : Prop) [Decidable c] (a b : ScalarOut) :
    (if c then a else b).exec = if c then a.exec else b.exec := by split <;> rfl

end C06
