import MgpuModel.C01_Kernels3
import MgpuProofs.C01Step
/-! # C01 — the DS instructions of the shipped `matrixTranspose` code bytes: windows and C03V meaning -/
set_option maxRecDepth 100000
namespace C01
namespace Emu
open C03V

/-- the instruction window at byte offset `k` of the shipped kernel -/
abbrev ttWin (k : Nat) : List Nat := (transposeKernelCode.drop k).take 8

/-- `ds_write2_b64 vA, v[D:D+1], v[E:E+1] offset1:1`: 16 bytes per active lane at `VGPR[A]` -/
def dsWrite16 (st : St) (A D E : Nat) : List Wr :=
  (activeLanes st).flatMap fun l =>
    wrLdsBytes (C03V.I.ds2Addr (st.rv A l) 0 (8 * 1)) 8 (st.rvN D l (8 / 4)) ++
    wrLdsBytes (C03V.I.ds2Addr (st.rv A l) 1 (8 * 1)) 8 (st.rvN E l (8 / 4))

/-- `ds_read2_b64 v[D:D+3], vA offset1:1`: 16 bytes per active lane from `VGPR[A]` -/
def dsRead16 (st : St) (A D : Nat) : List Wr :=
  (activeLanes st).flatMap fun l =>
    wrVN D l (8 / 4) (st.ldsRead (C03V.I.ds2Addr (st.rv A l) 0 (8 * 1)) 8) ++
    wrVN (D + 8 / 4) l (8 / 4) (st.ldsRead (C03V.I.ds2Addr (st.rv A l) 1 (8 * 1)) 8)

/-! ### the eight DS instructions: bytes and meaning -/
theorem ttw436 : ttWin 436 = [0x0, 0x1, 0x9c, 0xd8, 0xc, 0x2, 0x4, 0x0] := by decide +kernel
theorem ttx436 (st : St) : exec false st [0x0, 0x1, 0x9c, 0xd8, 0xc, 0x2, 0x4, 0x0] = some ("ds_write2_b64", dsWrite16 st 12 2 4) := rfl
theorem ttw456 : ttWin 456 = [0x0, 0x1, 0x9c, 0xd8, 0xd, 0x1, 0x3, 0x0] := by decide +kernel
theorem ttx456 (st : St) : exec false st [0x0, 0x1, 0x9c, 0xd8, 0xd, 0x1, 0x3, 0x0] = some ("ds_write2_b64", dsWrite16 st 13 1 3) := rfl
theorem ttw476 : ttWin 476 = [0x0, 0x1, 0x9c, 0xd8, 0xf, 0x1, 0x3, 0x0] := by decide +kernel
theorem ttx476 (st : St) : exec false st [0x0, 0x1, 0x9c, 0xd8, 0xf, 0x1, 0x3, 0x0] = some ("ds_write2_b64", dsWrite16 st 15 1 3) := rfl
theorem ttw504 : ttWin 504 = [0x0, 0x1, 0x9c, 0xd8, 0x10, 0x1, 0x3, 0x0] := by decide +kernel
theorem ttx504 (st : St) : exec false st [0x0, 0x1, 0x9c, 0xd8, 0x10, 0x1, 0x3, 0x0] = some ("ds_write2_b64", dsWrite16 st 16 1 3) := rfl
theorem ttw540 : ttWin 540 = [0x0, 0x1, 0xee, 0xd8, 0xa, 0x0, 0x0, 0xb] := by decide +kernel
theorem ttx540 (st : St) : exec false st [0x0, 0x1, 0xee, 0xd8, 0xa, 0x0, 0x0, 0xb] = some ("ds_read2_b64", dsRead16 st 10 11) := rfl
theorem ttw552 : ttWin 552 = [0x0, 0x1, 0xee, 0xd8, 0x11, 0x0, 0x0, 0x0] := by decide +kernel
theorem ttx552 (st : St) : exec false st [0x0, 0x1, 0xee, 0xd8, 0x11, 0x0, 0x0, 0x0] = some ("ds_read2_b64", dsRead16 st 17 0) := rfl
theorem ttw560 : ttWin 560 = [0x0, 0x1, 0xee, 0xd8, 0x12, 0x0, 0x0, 0x4] := by decide +kernel
theorem ttx560 (st : St) : exec false st [0x0, 0x1, 0xee, 0xd8, 0x12, 0x0, 0x0, 0x4] = some ("ds_read2_b64", dsRead16 st 18 4) := rfl
theorem ttw568 : ttWin 568 = [0x0, 0x1, 0xee, 0xd8, 0xf, 0x0, 0x0, 0xf] := by decide +kernel
theorem ttx568 (st : St) : exec false st [0x0, 0x1, 0xee, 0xd8, 0xf, 0x0, 0x0, 0xf] = some ("ds_read2_b64", dsRead16 st 15 15) := rfl


end Emu
end C01
