import MgpuProofs.C11SysCmd
/-! # C11 helper: memory history, well-formed commands and host buffers of the closed copy system -/
namespace C11

/-! ## every issued transaction lies inside its copy request (membership form of `Env.TxInv.tile`) -/

theorem Env.TxInv.issued_in_range {e : Env} (h : e.TxInv) : ∀ q ∈ e.issued, ∃ r ∈ e.cps, r.id = q.owner ∧
    (q.addr, q.len) ∈ splitBy (2 ^ e.s.log2) (Nat.pow_pos (by decide)) r.addr r.len ∧
    q.write = (r.kind == Kind.h2d) := by
  intro q hq
  obtain ⟨parsed, hcps, htile⟩ := h.tile
  have hk : q.key ∈ e.issued.map MemReq.key := List.mem_map_of_mem hq
  rw [htile] at hk
  obtain ⟨r, hr, hx⟩ := List.mem_flatMap.1 hk
  unfold expectTx at hx
  obtain ⟨p, hp, he⟩ := List.mem_map.1 hx
  have he' : (r.id, p.1, p.2, r.kind == Kind.h2d) = (q.owner, q.addr, q.len, q.write) := he
  simp only [Prod.mk.injEq] at he'
  obtain ⟨e1, e2, e3, e4⟩ := he'
  refine ⟨r, by rw [hcps]; exact List.mem_append_left _ hr, e1, ?_, e4.symm⟩
  rw [← e2, ← e3]; exact hp

/-! ## well-formed commands (the page table never changes) -/

theorem Sys.step_pt (s : Sys) (op : SysOp) : (s.step op).1.pt = s.pt := by
  cases op <;> simp only [Sys.step] <;>
    repeat' (first
      | rfl
      | split)

theorem MqEnv.step_enq_frame (e : MqEnv) (op : MqOp) (h : ∀ q c, op ≠ .enq q c) : (e.step op).1.enq = e.enq := by
  cases op with
  | enq q c => exact absurd rfl (h q c)
  | _ =>
    simp only [MqEnv.step]
    repeat' (first
      | rfl
      | split)

def SysCmd.toMq (c : SysCmd) : Nat × MqCmd := (c.q, { kind := c.kind, pieces := c.pcs.length, flush := c.flush })

structure Sys.CmdWF (s : Sys) : Prop where
  pcs : ∀ c ∈ s.cmds, pieces s.pt c.len c.addr 0 c.len = some c.pcs
  data : ∀ c ∈ s.cmds, c.kind = .h2d → c.data.length = c.len
  kind : ∀ c ∈ s.cmds, c.kind = .h2d ∨ c.kind = .d2h
  enq : s.mq.enq = s.cmds.map SysCmd.toMq

theorem Sys.CmdWF.init (c : SysCfg) : (Sys.init c).CmdWF :=
  ⟨fun x h => (by cases h), fun x h => (by cases h), fun x h => (by cases h), rfl⟩

theorem Sys.CmdWF.mono {s s' : Sys} (h : s.CmdWF) (e1 : s'.pt = s.pt) (e2 : s'.cmds = s.cmds)
    (e3 : s'.mq.enq = s.mq.enq) : s'.CmdWF :=
  ⟨by rw [e1, e2]; exact h.pcs, by rw [e2]; exact h.data, by rw [e2]; exact h.kind, by rw [e2, e3]; exact h.enq⟩

theorem Sys.CmdWF.step {s : Sys} (h : s.CmdWF) (op : SysOp) : (s.step op).1.CmdWF := by
  cases op with
  | enq q h2d addr len salt =>
    simp only [Sys.step]
    split
    · exact h
    · rename_i pcs hp
      split
      · rename_i hq
        refine ⟨?_, ?_, ?_, ?_⟩
        · intro c hc
          rcases List.mem_append.1 hc with hc | hc
          · exact h.pcs c hc
          · simp only [List.mem_singleton] at hc; subst hc; exact hp
        · intro c hc hk
          rcases List.mem_append.1 hc with hc | hc
          · exact h.data c hc hk
          · simp only [List.mem_singleton] at hc; subst hc
            cases h2d <;> simp_all
        · intro c hc
          rcases List.mem_append.1 hc with hc | hc
          · exact h.kind c hc
          · simp only [List.mem_singleton] at hc; subst hc
            cases h2d <;> simp
        · show (s.mq.step _).1.enq = (s.cmds ++ [_]).map SysCmd.toMq
          simp only [MqEnv.step, hq, if_true, List.map_append, h.enq]
          rfl
      · exact h
  | drvTick => exact h.mono rfl rfl rfl
  | toCp =>
    simp only [Sys.step]
    repeat' (first
      | exact h
      | exact h.mono rfl rfl rfl
      | split)
  | cpTick => exact h.mono rfl rfl rfl
  | cacheTake k => exact h.mono rfl rfl rfl
  | cacheAck j =>
    simp only [Sys.step]
    repeat' (first
      | exact h
      | exact h.mono rfl rfl rfl
      | split)
  | toDma =>
    simp only [Sys.step]
    repeat' (first
      | exact h
      | exact h.mono rfl rfl rfl
      | split)
  | dmaTick => exact h.mono rfl rfl rfl
  | memTake k => exact h.mono rfl rfl rfl
  | memDo j =>
    simp only [Sys.step]
    repeat' (first
      | exact h
      | exact h.mono rfl rfl rfl
      | split)
  | dmaOut => exact h.mono rfl rfl rfl
  | toCpRsp =>
    simp only [Sys.step]
    repeat' (first
      | exact h
      | exact h.mono rfl rfl rfl
      | split)
  | toDrv =>
    simp only [Sys.step]
    repeat' (first
      | exact h
      | exact h.mono rfl rfl (MqEnv.step_enq_frame _ _ (by intro q c hk; cases hk))
      | split)
  | kwrite i a v => exact h.mono rfl rfl rfl

theorem Sys.CmdWF.run : ∀ (ops : List SysOp) {s : Sys}, s.CmdWF → (s.run ops).CmdWF
  | [], _, h => h
  | op :: rest, _, h => Sys.CmdWF.run rest (h.step op)

theorem Sys.run_pt : ∀ (ops : List SysOp) (s : Sys), (s.run ops).pt = s.pt
  | [], _ => rfl
  | op :: rest, s => (Sys.run_pt rest _).trans (s.step_pt op)

/-- a piece found through `pieceOf` is a piece of an enqueued command -/
theorem Sys.pieceOf_spec {s : Sys} {r : MqReq} {p : Piece} (h : s.pieceOf r = some p) :
    p.cmd ∈ s.cmds ∧ s.cmdOf r.q r.seq = some p.cmd ∧ p.seq = r.seq ∧ p.cmd.q = r.q ∧
    p.cmd.pcs[r.idx]? = some (p.pa, p.off, p.len) ∧ r.kind ≠ .flush := by
  unfold Sys.pieceOf at h
  split at h
  · cases h
  · rename_i hk
    cases hc : s.cmdOf r.q r.seq with
    | none => rw [hc] at h; cases h
    | some c =>
      rw [hc] at h
      simp only at h
      cases hp : c.pcs[r.idx]? with
      | none => simp only [hp] at h; cases h
      | some x =>
        simp only [hp, Option.some.injEq] at h
        subst h
        have hmem : c ∈ s.cmds.filter (·.q == r.q) := List.mem_of_getElem? hc
        obtain ⟨h1, h2⟩ := List.mem_filter.1 hmem
        exact ⟨h1, rfl, rfl, by simpa using h2, hp, hk⟩

/-! ## the memory is the fold of its history -/

def MemEv.apply (m : SMem) : MemEv → SMem
  | .tx t => if t.write then m.write t.addr t.bytes else m
  | .wb _ a v => (a, v) :: m

/-- the memory after the events of `h`, starting from the untouched memory -/
def histMem (h : List MemEv) : SMem := h.foldl MemEv.apply []

def MemEv.tx? : MemEv → Option MemTx
  | .tx t => some t
  | .wb .. => none

structure Sys.HistInv (s : Sys) : Prop where
  mem : s.mem = histMem s.hist
  log : s.hist.filterMap MemEv.tx? = s.mlog
  /-- a read observed the memory as the earlier events left it -/
  reads : ∀ k t, s.hist[k]? = some (.tx t) → t.write = false →
    t.bytes = (histMem (s.hist.take k)).read t.addr t.len

theorem Sys.HistInv.init (c : SysCfg) : (Sys.init c).HistInv :=
  ⟨rfl, rfl, fun k t h => (by simp [Sys.init] at h)⟩

theorem Sys.step_hist_frame (s : Sys) (op : SysOp) (h1 : ∀ j, op ≠ .memDo j) (h2 : ∀ j, op ≠ .cacheAck j) :
    (s.step op).1.mem = s.mem ∧ (s.step op).1.hist = s.hist ∧ (s.step op).1.mlog = s.mlog := by
  cases op with
  | memDo j => exact absurd rfl (h1 j)
  | cacheAck j => exact absurd rfl (h2 j)
  | _ =>
    simp only [Sys.step]
    repeat' (first
      | exact trivial
      | rfl
      | constructor
      | split)

theorem histMem_snoc (h : List MemEv) (ev : MemEv) : histMem (h ++ [ev]) = MemEv.apply (histMem h) ev := by
  simp [histMem, List.foldl_append]

theorem histMem_append (h l : List MemEv) : histMem (h ++ l) = l.foldl MemEv.apply (histMem h) := by
  simp [histMem, List.foldl_append]

theorem getElem?_snoc_cases {α} (l : List α) (x y : α) (k : Nat) (h : (l ++ [x])[k]? = some y) :
    (k < l.length ∧ l[k]? = some y) ∨ (k = l.length ∧ y = x) := by
  by_cases hk : k < l.length
  · left; rw [List.getElem?_append_left hk] at h; exact ⟨hk, h⟩
  · right
    rw [List.getElem?_append_right (by omega)] at h
    have hk0 : k - l.length = 0 := by
      apply Decidable.byContradiction; intro hne
      rw [List.getElem?_eq_none (by simp; omega)] at h; cases h
    rw [hk0] at h
    simp only [List.getElem?_cons_zero, Option.some.injEq] at h
    exact ⟨by omega, h.symm⟩

theorem Sys.HistInv.step {s : Sys} (h : s.HistInv) (op : SysOp) : (s.step op).1.HistInv := by
  by_cases hdo : ∃ j, op = .memDo j
  · obtain ⟨j, rfl⟩ := hdo
    simp only [Sys.step]
    split
    · exact h
    · split
      · exact h
      · split
        · exact h
        · rename_i r hr
          split
          · exact h
          · rename_i p hp
            have key : ∀ (t : MemTx) (m' : SMem), m' = MemEv.apply s.mem (.tx t) →
                (t.write = false → t.bytes = s.mem.read t.addr t.len) →
                ∀ s' : Sys, s'.mem = m' → s'.hist = s.hist ++ [.tx t] → s'.mlog = s.mlog ++ [t] → s'.HistInv := by
              intro t m' hm' hrd s' e1 e2 e3
              refine ⟨?_, ?_, ?_⟩
              · rw [e1, e2, histMem_snoc, ← h.mem, hm']
              · rw [e2, e3, List.filterMap_append, h.log]; rfl
              · intro k t' hk hw
                rw [e2] at hk ⊢
                rcases getElem?_snoc_cases _ _ _ _ hk with ⟨hlt, hk'⟩ | ⟨hke, hte⟩
                · rw [List.take_append_of_le_length (by omega)]
                  exact h.reads k t' hk' hw
                · cases hte
                  rw [hke, List.take_left, ← h.mem]
                  exact hrd hw
            split
            · rename_i hw
              refine key _ _ ?_ (fun hw' => by simp at hw') _ rfl rfl rfl
              simp [MemEv.apply]
            · rename_i hw
              refine key _ _ ?_ (fun _ => rfl) _ rfl rfl rfl
              simp [MemEv.apply]
  by_cases hack : ∃ j, op = .cacheAck j
  · obtain ⟨j, rfl⟩ := hack
    simp only [Sys.step]
    split
    · exact h
    · split
      · exact h
      · refine ⟨?_, ?_, ?_⟩
        · simp only [Sys.writeBack]
          rw [histMem_append, ← h.mem, List.foldl_map]
          rfl
        · simp only [Sys.writeBack]
          rw [List.filterMap_append, h.log]
          have : ∀ l : List (Nat × Nat × Nat), (l.map fun e => MemEv.wb e.1 e.2.1 e.2.2).filterMap MemEv.tx? = [] := by
            intro l
            rw [List.filterMap_eq_nil_iff]
            intro a ha
            obtain ⟨e, _, rfl⟩ := List.mem_map.1 ha
            rfl
          rw [this, List.append_nil]
        · intro k t hk hw
          simp only [Sys.writeBack] at hk ⊢
          by_cases hlt : k < s.hist.length
          · rw [List.getElem?_append_left hlt] at hk
            rw [List.take_append_of_le_length (by omega)]
            exact h.reads k t hk hw
          · rw [List.getElem?_append_right (by omega), List.getElem?_map] at hk
            cases hx : ((s.dirty.filter _).reverse)[k - s.hist.length]? with
            | none => rw [hx] at hk; cases hk
            | some e => rw [hx] at hk; cases hk
  · obtain ⟨e1, e2, e3⟩ := s.step_hist_frame op (fun j hj => hdo ⟨j, hj⟩) (fun j hj => hack ⟨j, hj⟩)
    exact ⟨by rw [e1, e2]; exact h.mem, by rw [e2, e3]; exact h.log, by rw [e2]; exact h.reads⟩

theorem Sys.HistInv.run : ∀ (ops : List SysOp) {s : Sys}, s.HistInv → (s.run ops).HistInv
  | [], _, h => h
  | op :: rest, _, h => Sys.HistInv.run rest (h.step op)

/-! ## every byte in a host buffer was observed by a read the memory performed -/

theorem Sys.step_hist_grows (s : Sys) (op : SysOp) : ∃ l, (s.step op).1.hist = s.hist ++ l := by
  cases op <;> simp only [Sys.step] <;>
    repeat' (first
      | exact ⟨[], (List.append_nil _).symm⟩
      | exact ⟨_, rfl⟩
      | split)

theorem Sys.step_host_frame (s : Sys) (op : SysOp) (h : ∀ j, op ≠ .memDo j) : (s.step op).1.host = s.host := by
  cases op with
  | memDo j => exact absurd rfl (h j)
  | _ =>
    simp only [Sys.step]
    repeat' (first
      | rfl
      | split)

/-- where a byte of a host buffer comes from -/
def Sys.HostSrc (s : Sys) (e : Nat × Nat × Nat × Nat) : Prop :=
  ∃ (k : Nat) (u : MemTx) (j : Nat) (rq : MqReq) (p : Piece), s.hist[k]? = some (.tx u) ∧ u.write = false ∧
    u.bytes[j]? = some e.2.2.2 ∧ s.reqOfDma u.owner = some rq ∧ s.pieceOf rq = some p ∧
    e.1 = p.cmd.q ∧ e.2.1 = p.seq ∧ e.2.2.1 = p.off + (u.addr - p.pa) + j

structure Sys.HostInv (s : Sys) : Prop where
  src : ∀ e ∈ s.host, s.HostSrc e

theorem Sys.hostSrc_new {s s' : Sys} (hcp : s'.cp = s.cp) (hmq : s'.mq = s.mq) (hcm : s'.cmds = s.cmds)
    (u : MemTx) (hh : s'.hist = s.hist ++ [.tx u]) (hw : u.write = false) {rq : MqReq} {p : Piece}
    (h1 : s.reqOfDma u.owner = some rq) (h2 : s.pieceOf rq = some p) (i x : Nat) (hb : u.bytes[i]? = some x) :
    s'.HostSrc (p.cmd.q, p.seq, p.off + (u.addr - p.pa) + i, x) := by
  refine ⟨s.hist.length, u, i, rq, p, by rw [hh]; simp, hw, hb, ?_, ?_, rfl, rfl, rfl⟩
  · unfold Sys.reqOfDma Sys.reqOfCp at h1 ⊢; rw [hcp, hmq]; exact h1
  · unfold Sys.pieceOf Sys.cmdOf at h2 ⊢; rw [hcm]; exact h2

theorem Sys.HostInv.init (c : SysCfg) : (Sys.init c).HostInv := ⟨fun e h => (by cases h)⟩

theorem Sys.HostInv.step {s : Sys} (h : s.HostInv) (op : SysOp) : (s.step op).1.HostInv := by
  have grow1 : ∃ l, (s.step op).1.cp.dmaSeen = s.cp.dmaSeen ++ l := by
    obtain ⟨l, hl⟩ := s.step_cp op; rw [hl]; exact CpEnv.run_dmaSeen l s.cp
  have grow2 : ∃ l, (s.step op).1.mq.seen = s.mq.seen ++ l := by
    obtain ⟨l, hl⟩ := s.step_mq op; rw [hl]; exact MqEnv.run_seen l s.mq
  obtain ⟨⟨l3, grow3⟩, _⟩ := s.step_cmds_host op
  obtain ⟨l4, grow4⟩ := s.step_hist_grows op
  have old : ∀ e ∈ s.host, (s.step op).1.HostSrc e := by
    intro e he
    obtain ⟨k, u, j, rq, p, a1, a2, a3, a4, a5, a6⟩ := h.src e he
    exact ⟨k, u, j, rq, p, by rw [grow4]; exact getElem?_append_some a1 _, a2, a3,
      Sys.reqOfDma_mono grow1 grow2 a4, Sys.pieceOf_mono grow3 a5, a6⟩
  by_cases hdo : ∃ j, op = .memDo j
  · obtain ⟨j, rfl⟩ := hdo
    revert old
    simp only [Sys.step]
    split
    · intro _; exact h
    · split
      · intro _; exact h
      · split
        · intro _; exact h
        · rename_i r hr
          split
          · intro _; exact h
          · rename_i p hp
            obtain ⟨rq, hrq, hpc⟩ := Option.bind_eq_some_iff.1 hp
            split
            · intro old; exact ⟨old⟩
            · intro old
              refine ⟨fun e he => ?_⟩
              rcases List.mem_append.1 he with he | he
              · rw [List.mem_reverse, List.mem_map] at he
                obtain ⟨⟨b, i⟩, hbi, rfl⟩ := he
                have hb := List.mem_zipIdx_iff_getElem?.1 hbi
                apply Sys.hostSrc_new (s := s) (u := ⟨r.id, false, r.addr, r.len, s.mem.read r.addr r.len, r.owner⟩)
                  (h1 := hrq) (h2 := hpc) (hb := hb) <;> rfl
              · exact old e he
  · have hh : (s.step op).1.host = s.host := s.step_host_frame op (fun j hj => hdo ⟨j, hj⟩)
    exact ⟨fun e he => old e (hh ▸ he)⟩

theorem Sys.HostInv.run : ∀ (ops : List SysOp) {s : Sys}, s.HostInv → (s.run ops).HostInv
  | [], _, h => h
  | op :: rest, _, h => Sys.HostInv.run rest (h.step op)

end C11
