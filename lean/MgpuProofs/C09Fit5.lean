import MgpuProofs.C09Fit4
/-! # C09 — the masks are a function of the resident set; reserve followed by free is the identity -/
namespace C09

/-- same cells (bump counters of unlimited masks are not cells) -/
def SameCells (M M' : Mask) : Prop :=
  match M, M' with
  | .lim m, .lim m' => m = m'
  | .unl _, .unl _ => True
  | _, _ => False

theorem maskOK_unique (M M' : Mask) (rs : List (Nat × Nat)) (h : MaskOK M rs) (h' : MaskOK M' rs)
    (hsh : M.shape = M'.shape) : SameCells M M' := by
  cases M with
  | unl a =>
    cases M' with
    | unl b => trivial
    | lim m' => simp [Mask.shape] at hsh
  | lim m =>
    cases M' with
    | unl b => simp [Mask.shape] at hsh
    | lim m' =>
      have hlen : m.length = m'.length := by simpa [Mask.shape] using hsh
      show m = m'
      apply List.ext_getElem hlen
      intro i h1 h2
      obtain ⟨a1, a2⟩ := h.1 i m[i] (List.getElem?_eq_getElem h1)
      obtain ⟨b1, b2⟩ := h'.1 i m'[i] (List.getElem?_eq_getElem h2)
      by_cases hx : m[i] = 2
      · have := b2.2 (a2.1 hx); omega
      · have hx' : ¬ m'[i] = 2 := fun e => hx (a2.2 (b2.1 e))
        omega

/-- **the bookkeeping state is a function of the resident set**: two states of the same CU (same
    registered slots and mask shapes) with the same resident work-groups have the same free-slot
    counters and the same cells in every limited mask — whatever sequences of reservations and
    releases led to them -/
theorem masks_function_of_residents (cap : List Nat) (cu cu' : CU) (h : Inv cap cu) (h' : Inv cap cu')
    (hres : cu.resident = cu'.resident) (hsh : cu.shapes = cu'.shapes) :
    cu.wfFree = cu'.wfFree ∧ SameCells cu.smask cu'.smask ∧ SameCells cu.lmask cu'.lmask ∧
    ∀ k (h1 : k < cu.vmasks.length) (h2 : k < cu'.vmasks.length), SameCells cu.vmasks[k] cu'.vmasks[k] := by
  simp only [CU.shapes, Prod.mk.injEq] at hsh
  obtain ⟨s1, s2, s3⟩ := hsh
  refine ⟨?_, ?_, ?_, ?_⟩
  · apply List.ext_getElem (by rw [h.wfLen, h'.wfLen])
    intro k h1 h2
    have hk : k < cap.length := by rw [← h.wfLen]; exact h1
    have a := h.wfOK k hk
    have b := h'.wfOK k hk
    rw [residentOn_congr cu cu' k hres] at a
    have e1 : cu.wfFree.getD k 0 = cu.wfFree[k] := by simp [List.getD_eq_getElem?_getD, h1]
    have e2 : cu'.wfFree.getD k 0 = cu'.wfFree[k] := by simp [List.getD_eq_getElem?_getD, h2]
    omega
  · have := h'.sOK; rw [← sRegions_congr cu cu' hres] at this
    exact maskOK_unique _ _ _ h.sOK this s1
  · have := h'.lOK; rw [← lRegions_congr cu cu' hres] at this
    exact maskOK_unique _ _ _ h.lOK this s3
  · intro k h1 h2
    have := h'.vOK k h2; rw [← vRegions_congr cu cu' k hres] at this
    refine maskOK_unique _ _ _ (h.vOK k h1) this ?_
    have e := congrArg (fun l => l[k]?) s2
    simp only [List.getElem?_map, List.getElem?_eq_getElem h1, List.getElem?_eq_getElem h2,
      Option.map_some, Option.some.injEq] at e
    exact e

theorem free_resident_eq (cu : CU) (key : Nat) (cu' : CU) (h : free cu key = some cu') :
    cu'.resident = cu.resident.filter (·.1 ≠ key) := by
  unfold free at h
  split at h
  · cases h
  · rename_i k d locs _
    injection h with h
    subst h
    simp only
    rw [(foldl_freeLoc d locs cu).1]

/-- **reserve ∘ free = id**: releasing a work-group right after it was admitted gives back the state
    before the reservation — same residents, same free slots, same cells in every limited mask (only
    the round-robin SIMD pointer and the bump counters of unlimited masks may have moved) -/
theorem reserve_free_roundtrip (cap : List Nat) (cu : CU) (key : Nat) (d : Dem) (locs : List Loc) (cu1 : CU)
    (hinv : Inv cap cu) (hn : 1 ≤ d.nwf) (h1 : reserve cu key d = (.ok locs, cu1)) :
    ∃ cu2, free cu1 key = some cu2 ∧ Inv cap cu2 ∧ cu2.resident = cu.resident ∧ cu2.wfFree = cu.wfFree ∧
      SameCells cu2.smask cu.smask ∧ SameCells cu2.lmask cu.lmask ∧
      ∀ k (h1 : k < cu2.vmasks.length) (h2 : k < cu.vmasks.length), SameCells cu2.vmasks[k] cu.vmasks[k] := by
  obtain ⟨i1, r1⟩ := (reserve_preserves cap cu key d _ cu1 hinv h1).1 locs rfl hn
  have F := reserve_ok_facts cap cu key d locs cu1 hinv h1
  have hfind : ∃ e, cu1.resident.find? (·.1 = key) = some e := by
    cases hf : cu1.resident.find? (·.1 = key) with
    | some e => exact ⟨e, rfl⟩
    | none =>
      exfalso
      rw [List.find?_eq_none] at hf
      have := hf (key, d, locs) (by rw [r1]; simp)
      simp at this
  obtain ⟨e, he⟩ := hfind
  have hsome : ∃ cu2, free cu1 key = some cu2 := by
    unfold free; rw [he]; exact ⟨_, rfl⟩
  obtain ⟨cu2, h2⟩ := hsome
  have i2 := free_preserves cap cu1 key cu2 i1 h2
  have r2 : cu2.resident = cu.resident := by
    rw [free_resident_eq _ _ _ h2, r1, List.filter_append]
    have a : cu.resident.filter (·.1 ≠ key) = cu.resident := by
      apply List.filter_eq_self.2
      intro x hx
      simpa using F.fresh x hx
    rw [a]; simp
  have hsh : cu2.shapes = cu.shapes := by
    rw [free_shapes _ _ _ h2]
    have := reserve_shapes cu key d
    rw [h1] at this; exact this
  obtain ⟨m1, m2, m3, m4⟩ := masks_function_of_residents cap cu2 cu i2 hinv r2 hsh
  exact ⟨cu2, h2, i2, r2, m1, m2, m3, m4⟩

end C09
