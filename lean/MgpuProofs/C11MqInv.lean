import MgpuModel.C11Mq
import MgpuProofs.C11MqSpec
import MgpuProofs.C11MqBase
/-! Invariants of the multi-queue copy model (helper lemmas for `Props/C11Mq.lean`). -/
namespace C11

/-! ## where the requests are -/

/-- bookkeeping of the request ids: `objs` = the request objects in the delay line, the send list, the
    GPU port and at the GPU side; `pin` = answers waiting in the port; `ans` = answers processed -/
structure FlInv (created : List MqReq) (nextId : Nat) (objs : List MqReq) (pin ans : List Nat) : Prop where
  ids : created.map (·.id) = List.range nextId
  nodup : (objs.map (·.id) ++ pin ++ ans).Nodup
  all : ∀ k, k < nextId → k ∈ objs.map (·.id) ++ pin ++ ans
  lt : ∀ k ∈ objs.map (·.id) ++ pin ++ ans, k < nextId
  objs : ∀ r ∈ objs, r ∈ created

theorem FlInv.perm {c : List MqReq} {n : Nat} {objs objs' : List MqReq} {pin pin' ans ans' : List Nat}
    (h : FlInv c n objs pin ans)
    (hp : (objs'.map (·.id) ++ pin' ++ ans').Perm (objs.map (·.id) ++ pin ++ ans))
    (hsub : ∀ r ∈ objs', r ∈ objs) : FlInv c n objs' pin' ans' where
  ids := h.ids
  nodup := hp.nodup_iff.2 h.nodup
  all := fun k hk => hp.mem_iff.2 (h.all k hk)
  lt := fun k hk => h.lt k (hp.mem_iff.1 hk)
  objs := fun r hr => h.objs r (hsub r hr)

theorem FlInv.add {c : List MqReq} {n : Nat} {objs objs' : List MqReq} {pin ans : List Nat}
    (h : FlInv c n objs pin ans) (new : List MqReq)
    (hid : new.map (·.id) = (List.range new.length).map (n + ·))
    (hp : (objs'.map (·.id) ++ pin ++ ans).Perm ((objs.map (·.id) ++ pin ++ ans) ++ new.map (·.id)))
    (hsub : ∀ r ∈ objs', r ∈ objs ∨ r ∈ new) : FlInv (c ++ new) (n + new.length) objs' pin ans where
  ids := by rw [List.map_append, h.ids, hid, List.range_add]
  nodup := by
    rw [hp.nodup_iff, List.nodup_append]
    refine ⟨h.nodup, ?_, ?_⟩
    · rw [hid, ← List.range'_eq_map_range]
      exact List.nodup_range' 1
    · intro x hx y hy e
      have := h.lt x hx
      rw [hid] at hy
      simp only [List.mem_map, List.mem_range] at hy
      obtain ⟨z, _, rfl⟩ := hy
      omega
  all := by
    intro k hk
    rw [hp.mem_iff, List.mem_append]
    by_cases hkn : k < n
    · exact .inl (h.all k hkn)
    · right
      rw [hid]
      simp only [List.mem_map, List.mem_range]
      exact ⟨k - n, by omega, by omega⟩
  lt := by
    intro k hk
    rw [hp.mem_iff, List.mem_append] at hk
    rcases hk with hk | hk
    · have := h.lt k hk; omega
    · rw [hid] at hk
      simp only [List.mem_map, List.mem_range] at hk
      obtain ⟨z, _, rfl⟩ := hk
      omega
  objs := by
    intro r hr
    rcases hsub r hr with h1 | h1
    · exact List.mem_append_left _ (h.objs r h1)
    · exact List.mem_append_right _ h1

/-! ## the queues -/

/-- the commands enqueued on queue `qi` (`MqEnv.enqOf` with the list as a parameter) -/
def mqEnqOf (enq : List (Nat × MqCmd)) (qi : Nat) : List MqCmd := (enq.filter (·.1 = qi)).map (·.2)

theorem mqEnqOf_append (enq : List (Nat × MqCmd)) (k j : Nat) (c : MqCmd) :
    mqEnqOf (enq ++ [(k, c)]) j = mqEnqOf enq j ++ (if k = j then [c] else []) := by
  unfold mqEnqOf
  rw [List.filter_append, List.map_append]
  by_cases h : k = j <;> simp [h]

theorem mem_of_mem_mqEnqOf {enq : List (Nat × MqCmd)} {k : Nat} {c : MqCmd} (h : c ∈ mqEnqOf enq k) :
    (k, c) ∈ enq := by
  unfold mqEnqOf at h
  simp only [List.mem_map, List.mem_filter, decide_eq_true_eq] at h
  obtain ⟨⟨a, b⟩, ⟨hm, rfl⟩, rfl⟩ := h
  exact hm

theorem mqWantReqs_length (g : Nat) (c : MqCmd) : (mqWantReqs g c).length = mqWant g c := by
  unfold mqWantReqs mqWant
  split <;> simp <;> omega

/-- bookkeeping of the queues against the ghost lists `created`, `answered`, `completed` and the
    commands enqueued so far -/
structure QInv (g : Nat) (created : List MqReq) (ans : List Nat) (completed : List (Nat × Nat))
    (qs : List MqQueue) (enq : List (Nat × MqCmd)) : Prop where
  run_cmds : ∀ (qi : Nat) (q : MqQueue), qs[qi]? = some q → q.running = true → q.cmds ≠ []
  idle_reqs : ∀ (qi : Nat) (q : MqQueue), qs[qi]? = some q → q.running = false → q.reqs = []
  reqs_iff : ∀ (qi : Nat) (q : MqQueue), qs[qi]? = some q → ∀ x, x ∈ q.reqs ↔
    ∃ r ∈ created, r.id = x ∧ r.q = qi ∧ r.seq = q.done ∧ x ∉ ans
  unans : ∀ r ∈ created, r.id ∉ ans → ∃ q, qs[r.q]? = some q ∧ q.running = true ∧ r.seq = q.done
  seq_lt : ∀ r ∈ created, ∃ q, qs[r.q]? = some q ∧ r.seq < q.done + (if q.running then 1 else 0)
  enq_drop : ∀ (qi : Nat) (q : MqQueue), qs[qi]? = some q → (mqEnqOf enq qi).drop q.done = q.cmds
  enq_done : ∀ (qi : Nat) (q : MqQueue), qs[qi]? = some q → q.done ≤ (mqEnqOf enq qi).length
  comp_range : ∀ (qi : Nat) (q : MqQueue), qs[qi]? = some q →
    (completed.filter (·.1 = qi)).map (·.2) = List.range q.done
  comp_lt : ∀ p ∈ completed, p.1 < qs.length
  comp_nodup : completed.Nodup
  want : ∀ (qi : Nat) (q : MqQueue), qs[qi]? = some q → ∀ (seq : Nat) (c : MqCmd),
    (mqEnqOf enq qi)[seq]? = some c → seq < q.done + (if q.running then 1 else 0) →
    ((created.filter fun r => r.q = qi ∧ r.seq = seq).map fun r => (r.kind, r.idx)) = mqWantReqs g c
  live : ∀ (qi : Nat) (q : MqQueue), qs[qi]? = some q → q.running = true → q.reqs ≠ []

section
variable {g : Nat} {cr : List MqReq} {ans : List Nat} {comp : List (Nat × Nat)} {qs : List MqQueue}
  {en : List (Nat × MqCmd)}

theorem QInv.bound (h : QInv g cr ans comp qs en) {j : Nat} {q : MqQueue} (hj : qs[j]? = some q) :
    q.done + (if q.running then 1 else 0) ≤ (mqEnqOf en j).length := by
  have h1 := h.enq_done j q hj
  split
  · rename_i hr
    have h2 := h.run_cmds j q hj hr
    have h3 := h.enq_drop j q hj
    have : q.done < (mqEnqOf en j).length := by
      apply Nat.lt_of_not_le
      intro hle
      rw [List.drop_eq_nil_of_le hle] at h3
      exact h2 h3.symm
    omega
  · omega

theorem mq_set_ex {k : Nat} {q0 : MqQueue} (q1 : MqQueue) (hk : qs[k]? = some q0) {j : Nat} {q : MqQueue}
    (hj : qs[j]? = some q) :
    ∃ q', (qs.set k q1)[j]? = some q' ∧ ((j = k ∧ q = q0 ∧ q' = q1) ∨ (j ≠ k ∧ q' = q)) := by
  by_cases hjk : j = k
  · subst hjk
    refine ⟨q1, mq_set_self hk, .inl ⟨rfl, ?_, rfl⟩⟩
    rw [hk] at hj; exact (Option.some.inj hj).symm
  · exact ⟨q, by rw [mq_set_ne hjk]; exact hj, .inr ⟨hjk, rfl⟩⟩

/-- a command is enqueued on queue `k` -/
theorem QInv.enq (h : QInv g cr ans comp qs en) {k : Nat} {q0 : MqQueue} (hk : qs[k]? = some q0) (c : MqCmd) :
    QInv g cr ans comp (qs.set k { q0 with cmds := q0.cmds ++ [c] }) (en ++ [(k, c)]) := by
  constructor
  · intro j q hj hr
    rcases mq_set_inv hk hj with ⟨rfl, rfl⟩ | ⟨_, hj'⟩
    · simp
    · exact h.run_cmds j q hj' hr
  · intro j q hj hr
    rcases mq_set_inv hk hj with ⟨rfl, rfl⟩ | ⟨_, hj'⟩
    · exact h.idle_reqs j q0 hk hr
    · exact h.idle_reqs j q hj' hr
  · intro j q hj
    rcases mq_set_inv hk hj with ⟨rfl, rfl⟩ | ⟨_, hj'⟩
    · exact h.reqs_iff j q0 hk
    · exact h.reqs_iff j q hj'
  · intro r hr hna
    obtain ⟨q, hq, hrun, hseq⟩ := h.unans r hr hna
    obtain ⟨q', hq', hcase⟩ := mq_set_ex { q0 with cmds := q0.cmds ++ [c] } hk hq
    refine ⟨q', hq', ?_⟩
    rcases hcase with ⟨_, rfl, rfl⟩ | ⟨_, rfl⟩ <;> exact ⟨hrun, hseq⟩
  · intro r hr
    obtain ⟨q, hq, hseq⟩ := h.seq_lt r hr
    obtain ⟨q', hq', hcase⟩ := mq_set_ex { q0 with cmds := q0.cmds ++ [c] } hk hq
    refine ⟨q', hq', ?_⟩
    rcases hcase with ⟨_, rfl, rfl⟩ | ⟨_, rfl⟩ <;> exact hseq
  · intro j q hj
    rw [mqEnqOf_append]
    rcases mq_set_inv hk hj with ⟨rfl, rfl⟩ | ⟨hne, hj'⟩
    · simp only [if_true]
      rw [List.drop_append_of_le_length (h.enq_done j q0 hk), h.enq_drop j q0 hk]
    · rw [if_neg (Ne.symm hne), List.append_nil]; exact h.enq_drop j q hj'
  · intro j q hj
    rw [mqEnqOf_append, List.length_append]
    rcases mq_set_inv hk hj with ⟨rfl, rfl⟩ | ⟨hne, hj'⟩
    · have := h.enq_done j q0 hk
      exact Nat.le_trans this (Nat.le_add_right _ _)
    · exact Nat.le_trans (h.enq_done j q hj') (Nat.le_add_right _ _)
  · intro j q hj
    rcases mq_set_inv hk hj with ⟨rfl, rfl⟩ | ⟨_, hj'⟩
    · exact h.comp_range j q0 hk
    · exact h.comp_range j q hj'
  · intro p hp; rw [List.length_set]; exact h.comp_lt p hp
  · exact h.comp_nodup
  · intro j q hj seq c' hc' hlt
    rw [mqEnqOf_append] at hc'
    rcases mq_set_inv hk hj with ⟨rfl, rfl⟩ | ⟨_, hj'⟩
    · have hb := h.bound hk
      rw [List.getElem?_append_left (Nat.lt_of_lt_of_le hlt hb)] at hc'
      exact h.want j q0 hk seq c' hc' hlt
    · have hb := h.bound hj'
      rw [List.getElem?_append_left (Nat.lt_of_lt_of_le hlt hb)] at hc'
      exact h.want j q hj' seq c' hc' hlt
  · intro j q hj hr
    rcases mq_set_inv hk hj with ⟨rfl, rfl⟩ | ⟨_, hj'⟩
    · exact h.live j q0 hk hr
    · exact h.live j q hj' hr

theorem mq_nodup_map_inj {l : List MqReq} (h : (l.map (·.id)).Nodup) {r r' : MqReq}
    (hr : r ∈ l) (hr' : r' ∈ l) (e : r.id = r'.id) : r = r' := by
  induction l with
  | nil => cases hr
  | cons x l ih =>
    simp only [List.map_cons, List.nodup_cons, List.mem_map, not_exists, not_and] at h
    rcases List.mem_cons.1 hr with rfl | ha' <;> rcases List.mem_cons.1 hr' with rfl | hb'
    · rfl
    · exact absurd e.symm (h.1 r' hb')
    · exact absurd e (h.1 r ha')
    · exact ih h.2 ha' hb'

/-- the facts about the queue that `mqAnswer` picks -/
theorem QInv.pick (h : QInv g cr ans comp qs en) {k : Nat} {q0 : MqQueue} (hk : qs[k]? = some q0)
    {id : Nat} (hm : id ∈ q0.reqs) :
    q0.running = true ∧ ∃ r0 ∈ cr, r0.id = id ∧ r0.q = k ∧ r0.seq = q0.done ∧ id ∉ ans := by
  refine ⟨?_, (h.reqs_iff k q0 hk id).1 hm⟩
  cases hr : q0.running with
  | true => rfl
  | false => rw [h.idle_reqs k q0 hk hr] at hm; cases hm

/-- a request id belongs to the request list of one queue only -/
theorem QInv.other (h : QInv g cr ans comp qs en) (hids : (cr.map (·.id)).Nodup) {k : Nat} {q0 : MqQueue}
    (hk : qs[k]? = some q0) {id : Nat} (hm : id ∈ q0.reqs) {j : Nat} {q : MqQueue} (hj : qs[j]? = some q)
    (hne : j ≠ k) : id ∉ q.reqs := by
  intro hm'
  obtain ⟨r0, hr0, e0, hq0, _⟩ := (h.reqs_iff k q0 hk id).1 hm
  obtain ⟨r1, hr1, e1, hq1, _⟩ := (h.reqs_iff j q hj id).1 hm'
  have : r1 = r0 := mq_nodup_map_inj hids hr1 hr0 (e1.trans e0.symm)
  subst this
  exact hne (hq1.symm.trans hq0)

/-- an answer is processed, the command has more requests open -/
theorem QInv.answer_part (h : QInv g cr ans comp qs en) (hids : (cr.map (·.id)).Nodup) {k : Nat} {q0 : MqQueue}
    (hk : qs[k]? = some q0) {id : Nat} (hm : id ∈ q0.reqs) (hne : q0.reqs.filter (· != id) ≠ []) :
    QInv g cr (ans ++ [id]) comp (qs.set k { q0 with reqs := q0.reqs.filter (· != id) }) en := by
  obtain ⟨hrun, r0, hr0, e0, hq0, hs0, hna0⟩ := h.pick hk hm
  constructor
  · intro j q hj hr
    rcases mq_set_inv hk hj with ⟨rfl, rfl⟩ | ⟨_, hj'⟩
    · exact h.run_cmds j q0 hk hr
    · exact h.run_cmds j q hj' hr
  · intro j q hj hr
    rcases mq_set_inv hk hj with ⟨rfl, rfl⟩ | ⟨_, hj'⟩
    · rw [hrun] at hr; cases hr
    · exact h.idle_reqs j q hj' hr
  · intro j q hj x
    rcases mq_set_inv hk hj with ⟨rfl, rfl⟩ | ⟨hjk, hj'⟩
    · simp only [List.mem_filter, bne_iff_ne, ne_eq, List.mem_append, List.mem_singleton, not_or]
      rw [h.reqs_iff j q0 hk x]
      constructor
      · rintro ⟨⟨r, hr, e1, e2, e3, e4⟩, hx⟩
        exact ⟨r, hr, e1, e2, e3, e4, hx⟩
      · rintro ⟨r, hr, e1, e2, e3, e4, hx⟩
        exact ⟨⟨r, hr, e1, e2, e3, e4⟩, hx⟩
    · simp only [List.mem_append, List.mem_singleton, not_or]
      rw [h.reqs_iff j q hj' x]
      constructor
      · rintro ⟨r, hr, e1, e2, e3, e4⟩
        refine ⟨r, hr, e1, e2, e3, e4, ?_⟩
        intro hx
        subst hx
        exact h.other hids hk hm hj' hjk ((h.reqs_iff j q hj' x).2 ⟨r, hr, e1, e2, e3, e4⟩)
      · rintro ⟨r, hr, e1, e2, e3, e4, _⟩
        exact ⟨r, hr, e1, e2, e3, e4⟩
  · intro r hr hna
    have hna' : r.id ∉ ans := fun hx => hna (List.mem_append_left _ hx)
    obtain ⟨q, hq, hrn, hseq⟩ := h.unans r hr hna'
    obtain ⟨q', hq', hcase⟩ := mq_set_ex { q0 with reqs := q0.reqs.filter (· != id) } hk hq
    refine ⟨q', hq', ?_⟩
    rcases hcase with ⟨_, rfl, rfl⟩ | ⟨_, rfl⟩ <;> exact ⟨hrn, hseq⟩
  · intro r hr
    obtain ⟨q, hq, hseq⟩ := h.seq_lt r hr
    obtain ⟨q', hq', hcase⟩ := mq_set_ex { q0 with reqs := q0.reqs.filter (· != id) } hk hq
    refine ⟨q', hq', ?_⟩
    rcases hcase with ⟨_, rfl, rfl⟩ | ⟨_, rfl⟩ <;> exact hseq
  · intro j q hj
    rcases mq_set_inv hk hj with ⟨rfl, rfl⟩ | ⟨_, hj'⟩
    · exact h.enq_drop j q0 hk
    · exact h.enq_drop j q hj'
  · intro j q hj
    rcases mq_set_inv hk hj with ⟨rfl, rfl⟩ | ⟨_, hj'⟩
    · exact h.enq_done j q0 hk
    · exact h.enq_done j q hj'
  · intro j q hj
    rcases mq_set_inv hk hj with ⟨rfl, rfl⟩ | ⟨_, hj'⟩
    · exact h.comp_range j q0 hk
    · exact h.comp_range j q hj'
  · intro p hp; rw [List.length_set]; exact h.comp_lt p hp
  · exact h.comp_nodup
  · intro j q hj seq c' hc' hlt
    rcases mq_set_inv hk hj with ⟨rfl, rfl⟩ | ⟨_, hj'⟩
    · exact h.want j q0 hk seq c' hc' hlt
    · exact h.want j q hj' seq c' hc' hlt
  · intro j q hj hr
    rcases mq_set_inv hk hj with ⟨rfl, rfl⟩ | ⟨_, hj'⟩
    · exact hne
    · exact h.live j q hj' hr

/-- an answer is processed, it was the last open request of the command: the command completes -/
theorem QInv.answer_done (h : QInv g cr ans comp qs en) (hids : (cr.map (·.id)).Nodup) {k : Nat} {q0 : MqQueue}
    (hk : qs[k]? = some q0) {id : Nat} (hm : id ∈ q0.reqs) (hemp : q0.reqs.filter (· != id) = []) :
    QInv g cr (ans ++ [id]) (comp ++ [(k, q0.done)])
      (qs.set k { q0 with cmds := q0.cmds.tail, running := false, reqs := [], done := q0.done + 1 }) en := by
  obtain ⟨hrun, r0, hr0, e0, hq0, hs0, hna0⟩ := h.pick hk hm
  have hall : ∀ x ∈ q0.reqs, x = id := by
    intro x hx
    have := List.filter_eq_nil_iff.1 hemp x hx
    simpa using this
  have hb := h.bound hk
  rw [if_pos hrun] at hb
  constructor
  · intro j q hj hr
    rcases mq_set_inv hk hj with ⟨rfl, rfl⟩ | ⟨_, hj'⟩
    · cases hr
    · exact h.run_cmds j q hj' hr
  · intro j q hj hr
    rcases mq_set_inv hk hj with ⟨rfl, rfl⟩ | ⟨_, hj'⟩
    · rfl
    · exact h.idle_reqs j q hj' hr
  · intro j q hj x
    rcases mq_set_inv hk hj with ⟨rfl, rfl⟩ | ⟨hjk, hj'⟩
    · constructor
      · intro hx; cases hx
      · rintro ⟨r, hr, e1, e2, e3, e4⟩
        obtain ⟨q, hq, hseq⟩ := h.seq_lt r hr
        rw [e2, hk] at hq
        cases hq
        rw [if_pos hrun] at hseq
        simp only at e3
        omega
    · simp only [List.mem_append, List.mem_singleton, not_or]
      rw [h.reqs_iff j q hj' x]
      constructor
      · rintro ⟨r, hr, e1, e2, e3, e4⟩
        refine ⟨r, hr, e1, e2, e3, e4, ?_⟩
        intro hx
        subst hx
        exact h.other hids hk hm hj' hjk ((h.reqs_iff j q hj' x).2 ⟨r, hr, e1, e2, e3, e4⟩)
      · rintro ⟨r, hr, e1, e2, e3, e4, _⟩
        exact ⟨r, hr, e1, e2, e3, e4⟩
  · intro r hr hna
    have hna' : r.id ∉ ans := fun hx => hna (List.mem_append_left _ hx)
    have hnid : r.id ≠ id := fun hx => hna (List.mem_append_right _ (by simp [hx]))
    obtain ⟨q, hq, hrn, hseq⟩ := h.unans r hr hna'
    obtain ⟨q', hq', hcase⟩ :=
      mq_set_ex { q0 with cmds := q0.cmds.tail, running := false, reqs := [], done := q0.done + 1 } hk hq
    refine ⟨q', hq', ?_⟩
    rcases hcase with ⟨hrk, rfl, rfl⟩ | ⟨_, rfl⟩
    · exact absurd (hall r.id ((h.reqs_iff k q hk r.id).2 ⟨r, hr, rfl, hrk, hseq, hna'⟩)) hnid
    · exact ⟨hrn, hseq⟩
  · intro r hr
    obtain ⟨q, hq, hseq⟩ := h.seq_lt r hr
    obtain ⟨q', hq', hcase⟩ :=
      mq_set_ex { q0 with cmds := q0.cmds.tail, running := false, reqs := [], done := q0.done + 1 } hk hq
    refine ⟨q', hq', ?_⟩
    rcases hcase with ⟨_, rfl, rfl⟩ | ⟨_, rfl⟩
    · rw [if_pos hrun] at hseq
      simp only [Bool.false_eq_true, if_false]
      omega
    · exact hseq
  · intro j q hj
    rcases mq_set_inv hk hj with ⟨rfl, rfl⟩ | ⟨_, hj'⟩
    · show (mqEnqOf en j).drop (q0.done + 1) = q0.cmds.tail
      rw [← h.enq_drop j q0 hk, List.tail_drop]
    · exact h.enq_drop j q hj'
  · intro j q hj
    rcases mq_set_inv hk hj with ⟨rfl, rfl⟩ | ⟨_, hj'⟩
    · exact hb
    · exact h.enq_done j q hj'
  · intro j q hj
    rw [List.filter_append, List.map_append]
    rcases mq_set_inv hk hj with ⟨rfl, rfl⟩ | ⟨hjk, hj'⟩
    · rw [h.comp_range j q0 hk]
      simp [List.range_succ]
    · rw [h.comp_range j q hj']
      simp [Ne.symm hjk]
  · intro p hp
    rw [List.length_set]
    rcases List.mem_append.1 hp with hp | hp
    · exact h.comp_lt p hp
    · simp only [List.mem_singleton] at hp
      subst hp
      exact mq_lookup_lt hk
  · rw [List.nodup_append]
    refine ⟨h.comp_nodup, by simp, ?_⟩
    intro a ha b hb' e
    simp only [List.mem_singleton] at hb'
    subst hb'
    subst e
    have : q0.done ∈ (comp.filter (·.1 = k)).map (·.2) := by
      simp only [List.mem_map, List.mem_filter, decide_eq_true_eq]
      exact ⟨(k, q0.done), ⟨ha, rfl⟩, rfl⟩
    rw [h.comp_range k q0 hk] at this
    simp at this
  · intro j q hj seq c' hc' hlt
    rcases mq_set_inv hk hj with ⟨rfl, rfl⟩ | ⟨_, hj'⟩
    · refine h.want j q0 hk seq c' hc' ?_
      rw [if_pos hrun]
      simp only [Bool.false_eq_true, if_false] at hlt
      omega
    · exact h.want j q hj' seq c' hc' hlt
  · intro j q hj hr
    rcases mq_set_inv hk hj with ⟨rfl, rfl⟩ | ⟨_, hj'⟩
    · cases hr
    · exact h.live j q hj' hr

/-- queue `k` starts its head command `c`, creating the requests `new` -/
theorem QInv.start (h : QInv g cr ans comp qs en) {k : Nat} {q0 : MqQueue} (hk : qs[k]? = some q0)
    {c : MqCmd} {rest : List MqCmd} (hc : q0.cmds = c :: rest) (hr : q0.running = false) (new : List MqReq)
    (htag : ∀ r ∈ new, r.q = k ∧ r.seq = q0.done ∧ r.id ∉ ans)
    (hw : new.map (fun r => (r.kind, r.idx)) = mqWantReqs g c) (hnew : new ≠ []) :
    QInv g (cr ++ new) ans comp (qs.set k { q0 with running := true, reqs := new.map (·.id) }) en := by
  have hold : ∀ r ∈ cr, r.q = k → r.seq < q0.done := by
    intro r hr' hq
    obtain ⟨q, hq', hseq⟩ := h.seq_lt r hr'
    rw [hq, hk] at hq'
    cases hq'
    rw [hr] at hseq
    simpa using hseq
  have hcidx : (mqEnqOf en k)[q0.done]? = some c := by
    have h1 := h.enq_drop k q0 hk
    rw [hc] at h1
    have h2 := List.getElem?_drop (xs := mqEnqOf en k) (i := q0.done) (j := 0)
    rw [h1] at h2
    simpa using h2.symm
  constructor
  · intro j q hj hr'
    rcases mq_set_inv hk hj with ⟨rfl, rfl⟩ | ⟨_, hj'⟩
    · show q0.cmds ≠ []
      rw [hc]; simp
    · exact h.run_cmds j q hj' hr'
  · intro j q hj hr'
    rcases mq_set_inv hk hj with ⟨rfl, rfl⟩ | ⟨_, hj'⟩
    · cases hr'
    · exact h.idle_reqs j q hj' hr'
  · intro j q hj x
    rcases mq_set_inv hk hj with ⟨rfl, rfl⟩ | ⟨hjk, hj'⟩
    · simp only [List.mem_map]
      constructor
      · rintro ⟨r, hr', rfl⟩
        obtain ⟨t1, t2, t3⟩ := htag r hr'
        exact ⟨r, List.mem_append_right _ hr', rfl, t1, t2, t3⟩
      · rintro ⟨r, hr', e1, e2, e3, e4⟩
        rcases List.mem_append.1 hr' with hr'' | hr''
        · have := hold r hr'' e2
          omega
        · exact ⟨r, hr'', e1⟩
    · rw [h.reqs_iff j q hj' x]
      constructor
      · rintro ⟨r, hr', e⟩
        exact ⟨r, List.mem_append_left _ hr', e⟩
      · rintro ⟨r, hr', e1, e2, e3, e4⟩
        rcases List.mem_append.1 hr' with hr'' | hr''
        · exact ⟨r, hr'', e1, e2, e3, e4⟩
        · exact absurd ((htag r hr'').1.symm.trans e2) (Ne.symm hjk)
  · intro r hr' hna
    rcases List.mem_append.1 hr' with hr'' | hr''
    · obtain ⟨q, hq, hrn, hseq⟩ := h.unans r hr'' hna
      obtain ⟨q', hq', hcase⟩ := mq_set_ex { q0 with running := true, reqs := new.map (·.id) } hk hq
      refine ⟨q', hq', ?_⟩
      rcases hcase with ⟨_, rfl, rfl⟩ | ⟨_, rfl⟩
      · rw [hr] at hrn; cases hrn
      · exact ⟨hrn, hseq⟩
    · obtain ⟨t1, t2, _⟩ := htag r hr''
      refine ⟨{ q0 with running := true, reqs := new.map (·.id) }, ?_, rfl, t2⟩
      rw [t1]; exact mq_set_self hk
  · intro r hr'
    rcases List.mem_append.1 hr' with hr'' | hr''
    · obtain ⟨q, hq, hseq⟩ := h.seq_lt r hr''
      obtain ⟨q', hq', hcase⟩ := mq_set_ex { q0 with running := true, reqs := new.map (·.id) } hk hq
      refine ⟨q', hq', ?_⟩
      rcases hcase with ⟨_, rfl, rfl⟩ | ⟨_, rfl⟩
      · rw [hr] at hseq
        simp only [Bool.false_eq_true, if_false] at hseq
        simp only [if_true]
        omega
      · exact hseq
    · obtain ⟨t1, t2, _⟩ := htag r hr''
      refine ⟨{ q0 with running := true, reqs := new.map (·.id) }, ?_, ?_⟩
      · rw [t1]; exact mq_set_self hk
      · simp only [if_true]; omega
  · intro j q hj
    rcases mq_set_inv hk hj with ⟨rfl, rfl⟩ | ⟨_, hj'⟩
    · exact h.enq_drop j q0 hk
    · exact h.enq_drop j q hj'
  · intro j q hj
    rcases mq_set_inv hk hj with ⟨rfl, rfl⟩ | ⟨_, hj'⟩
    · exact h.enq_done j q0 hk
    · exact h.enq_done j q hj'
  · intro j q hj
    rcases mq_set_inv hk hj with ⟨rfl, rfl⟩ | ⟨_, hj'⟩
    · exact h.comp_range j q0 hk
    · exact h.comp_range j q hj'
  · intro p hp; rw [List.length_set]; exact h.comp_lt p hp
  · exact h.comp_nodup
  · intro j q hj seq c' hc' hlt
    rw [List.filter_append, List.map_append]
    rcases mq_set_inv hk hj with ⟨rfl, rfl⟩ | ⟨hjk, hj'⟩
    · simp only [if_true] at hlt
      by_cases hs : seq = q0.done
      · subst hs
        rw [hcidx] at hc'
        cases hc'
        have e1 : cr.filter (fun r => r.q = j ∧ r.seq = q0.done) = [] := by
          rw [List.filter_eq_nil_iff]
          intro r hr'
          simp only [decide_eq_true_eq, not_and]
          intro hq
          have := hold r hr' hq
          omega
        have e2 : new.filter (fun r => r.q = j ∧ r.seq = q0.done) = new := by
          rw [List.filter_eq_self]
          intro r hr'
          simp only [decide_eq_true_eq]
          exact ⟨(htag r hr').1, (htag r hr').2.1⟩
        rw [e1, e2, hw]; rfl
      · have e2 : new.filter (fun r => r.q = j ∧ r.seq = seq) = [] := by
          rw [List.filter_eq_nil_iff]
          intro r hr'
          simp only [decide_eq_true_eq, not_and]
          intro _ hq
          exact hs (hq.symm.trans (htag r hr').2.1)
        rw [e2, List.map_nil, List.append_nil]
        refine h.want j q0 hk seq c' hc' ?_
        rw [hr]
        simp only [Bool.false_eq_true, if_false]
        omega
    · have e2 : new.filter (fun r => r.q = j ∧ r.seq = seq) = [] := by
        rw [List.filter_eq_nil_iff]
        intro r hr'
        simp only [decide_eq_true_eq, not_and]
        intro hq
        exact absurd ((htag r hr').1.symm.trans hq) (Ne.symm hjk)
      rw [e2, List.map_nil, List.append_nil]
      exact h.want j q hj' seq c' hc' hlt
  · intro j q hj hr'
    rcases mq_set_inv hk hj with ⟨rfl, rfl⟩ | ⟨_, hj'⟩
    · show new.map (·.id) ≠ []
      intro e
      exact hnew (List.map_eq_nil_iff.1 e)
    · exact h.live j q hj' hr'

/-- queue `k` starts its head command `c`, which needs no request: it completes at once -/
theorem QInv.startZero (h : QInv g cr ans comp qs en) {k : Nat} {q0 : MqQueue} (hk : qs[k]? = some q0)
    {c : MqCmd} {rest : List MqCmd} (hc : q0.cmds = c :: rest) (hr : q0.running = false)
    (hzero : mqWant g c = 0) :
    QInv g cr ans (comp ++ [(k, q0.done)])
      (qs.set k { q0 with cmds := rest, running := false, reqs := [], done := q0.done + 1 }) en := by
  have hold : ∀ r ∈ cr, r.q = k → r.seq < q0.done := by
    intro r hr' hq
    obtain ⟨q, hq', hseq⟩ := h.seq_lt r hr'
    rw [hq, hk] at hq'
    cases hq'
    rw [hr] at hseq
    simpa using hseq
  have hcidx : (mqEnqOf en k)[q0.done]? = some c := by
    have h1 := h.enq_drop k q0 hk
    rw [hc] at h1
    have h2 := List.getElem?_drop (xs := mqEnqOf en k) (i := q0.done) (j := 0)
    rw [h1] at h2
    simpa using h2.symm
  have hb : q0.done + 1 ≤ (mqEnqOf en k).length := by
    rcases List.getElem?_eq_some_iff.1 hcidx with ⟨hlt, _⟩
    exact hlt
  constructor
  · intro j q hj hr'
    rcases mq_set_inv hk hj with ⟨rfl, rfl⟩ | ⟨_, hj'⟩
    · cases hr'
    · exact h.run_cmds j q hj' hr'
  · intro j q hj hr'
    rcases mq_set_inv hk hj with ⟨rfl, rfl⟩ | ⟨_, hj'⟩
    · rfl
    · exact h.idle_reqs j q hj' hr'
  · intro j q hj x
    rcases mq_set_inv hk hj with ⟨rfl, rfl⟩ | ⟨hjk, hj'⟩
    · constructor
      · intro hx; cases hx
      · rintro ⟨r, hr', e1, e2, e3, e4⟩
        have := hold r hr' e2
        simp only at e3
        omega
    · exact h.reqs_iff j q hj' x
  · intro r hr' hna
    obtain ⟨q, hq, hrn, hseq⟩ := h.unans r hr' hna
    obtain ⟨q', hq', hcase⟩ :=
      mq_set_ex { q0 with cmds := rest, running := false, reqs := [], done := q0.done + 1 } hk hq
    refine ⟨q', hq', ?_⟩
    rcases hcase with ⟨_, rfl, rfl⟩ | ⟨_, rfl⟩
    · rw [hr] at hrn; cases hrn
    · exact ⟨hrn, hseq⟩
  · intro r hr'
    obtain ⟨q, hq, hseq⟩ := h.seq_lt r hr'
    obtain ⟨q', hq', hcase⟩ :=
      mq_set_ex { q0 with cmds := rest, running := false, reqs := [], done := q0.done + 1 } hk hq
    refine ⟨q', hq', ?_⟩
    rcases hcase with ⟨_, rfl, rfl⟩ | ⟨_, rfl⟩
    · rw [hr] at hseq
      simp only [Bool.false_eq_true, if_false] at hseq ⊢
      omega
    · exact hseq
  · intro j q hj
    rcases mq_set_inv hk hj with ⟨rfl, rfl⟩ | ⟨_, hj'⟩
    · show (mqEnqOf en j).drop (q0.done + 1) = rest
      have h1 := h.enq_drop j q0 hk
      rw [hc] at h1
      rw [← List.tail_drop, h1]; rfl
    · exact h.enq_drop j q hj'
  · intro j q hj
    rcases mq_set_inv hk hj with ⟨rfl, rfl⟩ | ⟨_, hj'⟩
    · exact hb
    · exact h.enq_done j q hj'
  · intro j q hj
    rw [List.filter_append, List.map_append]
    rcases mq_set_inv hk hj with ⟨rfl, rfl⟩ | ⟨hjk, hj'⟩
    · rw [h.comp_range j q0 hk]
      simp [List.range_succ]
    · rw [h.comp_range j q hj']
      simp [Ne.symm hjk]
  · intro p hp
    rw [List.length_set]
    rcases List.mem_append.1 hp with hp | hp
    · exact h.comp_lt p hp
    · simp only [List.mem_singleton] at hp
      subst hp
      exact mq_lookup_lt hk
  · rw [List.nodup_append]
    refine ⟨h.comp_nodup, by simp, ?_⟩
    intro a ha b hb' e
    simp only [List.mem_singleton] at hb'
    subst hb'
    subst e
    have : q0.done ∈ (comp.filter (·.1 = k)).map (·.2) := by
      simp only [List.mem_map, List.mem_filter, decide_eq_true_eq]
      exact ⟨(k, q0.done), ⟨ha, rfl⟩, rfl⟩
    rw [h.comp_range k q0 hk] at this
    simp at this
  · intro j q hj seq c' hc' hlt
    rcases mq_set_inv hk hj with ⟨rfl, rfl⟩ | ⟨_, hj'⟩
    · simp only [Bool.false_eq_true, if_false] at hlt
      by_cases hs : seq = q0.done
      · subst hs
        rw [hcidx] at hc'
        cases hc'
        have e1 : cr.filter (fun r => r.q = j ∧ r.seq = q0.done) = [] := by
          rw [List.filter_eq_nil_iff]
          intro r hr'
          simp only [decide_eq_true_eq, not_and]
          intro hq
          have := hold r hr' hq
          omega
        have e2 : mqWantReqs g c = [] := by
          apply List.eq_nil_of_length_eq_zero
          rw [mqWantReqs_length]; exact hzero
        rw [e1, e2]; rfl
      · refine h.want j q0 hk seq c' hc' ?_
        rw [hr]
        simp only [Bool.false_eq_true, if_false]
        omega
    · exact h.want j q hj' seq c' hc' hlt
  · intro j q hj hr'
    rcases mq_set_inv hk hj with ⟨rfl, rfl⟩ | ⟨_, hj'⟩
    · cases hr'
    · exact h.live j q hj' hr'

end

/-! ## the invariant -/

set_option linter.unusedSimpArgs false

/-- close a goal `count x l₁ = count x l₂` between two rearrangements of the same pieces -/
macro "mq_count" : tactic =>
  `(tactic| (simp only [List.map_append, List.map_cons, List.map_nil, List.count_append, List.count_cons,
      List.count_nil, List.append_nil, List.nil_append] <;> omega))

/-- the invariant of the driver state `s` with the queue list `qs` (passed separately: `mqStartAll`
    threads the queues outside the state), the requests `out` at the GPU side and the commands `en`
    enqueued so far -/
structure MInv (g a b n : Nat) (s : Mq) (qs : List MqQueue) (out : List MqReq) (en : List (Nat × MqCmd)) :
    Prop where
  cfg_g : s.nGpus = g
  cfg_a : s.cycH2D = a
  cfg_b : s.cycD2H = b
  qlen : qs.length = n
  fl : FlInv s.created s.nextId (s.awaiting ++ s.toSend ++ s.portOut ++ out) s.portIn s.answered
  q : QInv g s.created s.answered s.completed qs en
  timer : s.awaiting ≠ [] → 0 ≤ s.cyclesLeft
  fault : s.fault = none

/-- the invariant of an environment state -/
def MqEnv.Inv (g a b n : Nat) (e : MqEnv) : Prop := MInv g a b n e.s e.s.queues e.outstanding e.enq

section
variable {g a b n : Nat} {s : Mq} {qs : List MqQueue} {out : List MqReq} {en : List (Nat × MqCmd)}

theorem MInv.ids_nodup (h : MInv g a b n s qs out en) : (s.created.map (·.id)).Nodup := by
  rw [h.fl.ids]; exact List.nodup_range

theorem MInv.sendToGPUs (h : MInv g a b n s qs out en) : MInv g a b n s.sendToGPUs.1 qs out en := by
  rcases s.sendToGPUs_cases with ⟨e, _⟩ | ⟨r, rest, hts, _, e⟩
  · rw [e]; exact h
  · rw [e]
    refine ⟨h.cfg_g, h.cfg_a, h.cfg_b, h.qlen, ?_, h.q, h.timer, h.fault⟩
    have hfl := h.fl
    rw [hts] at hfl
    refine hfl.perm ?_ ?_
    · rw [List.perm_iff_count]; intro x
      show List.count x ((s.awaiting ++ rest ++ (s.portOut ++ [r]) ++ out).map (·.id) ++ s.portIn ++ s.answered) = _
      mq_count
    · intro x hx
      change x ∈ s.awaiting ++ rest ++ (s.portOut ++ [r]) ++ out at hx
      simp only [List.mem_append, List.mem_cons, List.mem_singleton, List.not_mem_nil, or_false] at hx ⊢
      rcases hx with ((hx | hx) | hx | hx) | hx <;> simp [hx]

theorem MInv.delay (h : MInv g a b n s qs out en) : MInv g a b n s.delay.1 qs out en := by
  rcases s.delay_cases with ⟨hc, e⟩ | ⟨hc, e⟩ | ⟨hc, e⟩
  · rw [e]
    refine ⟨h.cfg_g, h.cfg_a, h.cfg_b, h.qlen, h.fl, h.q, ?_, h.fault⟩
    intro _
    show 0 ≤ s.cyclesLeft - 1
    omega
  · rw [e]
    refine ⟨h.cfg_g, h.cfg_a, h.cfg_b, h.qlen, ?_, h.q, fun hx => absurd rfl hx, h.fault⟩
    refine h.fl.perm ?_ ?_
    · rw [List.perm_iff_count]; intro x
      show List.count x ((([] : List MqReq) ++ (s.toSend ++ s.awaiting) ++ s.portOut ++ out).map (·.id) ++ s.portIn ++ s.answered) = _
      mq_count
    · intro x hx
      change x ∈ [] ++ (s.toSend ++ s.awaiting) ++ s.portOut ++ out at hx
      simp only [List.mem_append, List.not_mem_nil, false_or] at hx ⊢
      rcases hx with ((hx | hx) | hx) | hx <;> simp [hx]
  · rw [e]; exact h

/-- the id at the head of the GPU port belongs to the running command of some queue -/
theorem MInv.head_found (h : MInv g a b n s qs out en) {id : Nat} {rest : List Nat} (hpi : s.portIn = id :: rest) :
    ∃ (k : Nat) (q : MqQueue), qs[k]? = some q ∧ q.cmds ≠ [] ∧ id ∈ q.reqs := by
  have hmem : id ∈ (s.awaiting ++ s.toSend ++ s.portOut ++ out).map (·.id) ++ s.portIn := by
    rw [hpi]; simp
  have hlt : id < s.nextId := h.fl.lt id (List.mem_append_left _ hmem)
  have hna : id ∉ s.answered := by
    intro hx
    exact (List.nodup_append.1 h.fl.nodup).2.2 id hmem id hx rfl
  have hcr : id ∈ s.created.map (·.id) := by rw [h.fl.ids]; exact List.mem_range.2 hlt
  obtain ⟨r, hr, rfl⟩ := List.mem_map.1 hcr
  obtain ⟨q, hq, hrun, hseq⟩ := h.q.unans r hr hna
  exact ⟨r.q, q, hq, h.q.run_cmds _ q hq hrun, (h.q.reqs_iff _ q hq r.id).2 ⟨r, hr, rfl, rfl, hseq, hna⟩⟩

theorem MInv.response (h : MInv g a b n s s.queues out en) :
    MInv g a b n s.response.1 s.response.1.queues out en := by
  rcases s.response_cases with ⟨_, e⟩ | ⟨id, rest, hpi, hans, _⟩ | ⟨id, rest, qs', c, hpi, hans, e⟩
  · rw [e]; exact h
  · obtain ⟨k, q, hk, hc, hm⟩ := h.head_found hpi
    exact absurd hm (mqAnswer_none hans k q hk hc)
  · rw [e]
    have hfl := h.fl
    rw [hpi] at hfl
    have hfl' : FlInv s.created s.nextId (s.awaiting ++ s.toSend ++ s.portOut ++ out) rest (s.answered ++ [id]) := by
      refine hfl.perm ?_ (fun _ hx => hx)
      rw [List.perm_iff_count]; intro x
      mq_count
    obtain ⟨k, q0, hk, hc, hm, hcase⟩ := mqAnswer_some hans
    rcases hcase with ⟨hemp, rfl, rfl⟩ | ⟨hne, rfl, rfl⟩
    · refine ⟨h.cfg_g, h.cfg_a, h.cfg_b, ?_, hfl', ?_, h.timer, h.fault⟩
      · show (s.queues.set k _).length = n
        rw [List.length_set]; exact h.qlen
      · have := h.q.answer_done h.ids_nodup hk hm hemp
        simpa using this
    · refine ⟨h.cfg_g, h.cfg_a, h.cfg_b, ?_, hfl', ?_, h.timer, h.fault⟩
      · show (s.queues.set k _).length = n
        rw [List.length_set]; exact h.qlen
      · have := h.q.answer_part h.ids_nodup hk hm hne
        simpa using this

theorem mq_set_same {k : Nat} {q : MqQueue} (hk : qs[k]? = some q) : qs.set k q = qs := by
  apply List.ext_getElem?
  intro i
  by_cases hik : i = k
  · subst hik; rw [mq_set_self hk, hk]
  · rw [mq_set_ne hik]

theorem MInv.start (h : MInv g a b n s qs out en) {k : Nat} {q : MqQueue} (hk : qs[k]? = some q) :
    MInv g a b n (s.start k q).1 (qs.set k (s.start k q).2.1) out en := by
  rcases s.start_cases k q with ⟨_, e⟩ | ⟨c, rest, hc, hr, hnew, e⟩ | ⟨c, rest, hc, hr, hnil, e⟩
  · rw [e]
    show MInv g a b n s (qs.set k q) out en
    rw [mq_set_same hk]; exact h
  · rw [e]
    have htag := mqNewReqs_tag s k q.done c
    refine ⟨h.cfg_g, h.cfg_a, h.cfg_b, ?_, ?_, ?_, ?_, h.fault⟩
    · rw [List.length_set]; exact h.qlen
    · refine h.fl.add (mqNewReqs s k q.done c) (mqNewReqs_ids s k q.done c) ?_ ?_
      · rw [List.perm_iff_count]; intro x
        show List.count x ((s.awaiting ++ mqPieceReqs (s.nextId + (mqFlushReqs s k q.done c).length) k q.done c ++
          (s.toSend ++ mqFlushReqs s k q.done c) ++ s.portOut ++ out).map (·.id) ++ s.portIn ++ s.answered) = _
        unfold mqNewReqs
        mq_count
      · intro x hx
        change x ∈ s.awaiting ++ mqPieceReqs (s.nextId + (mqFlushReqs s k q.done c).length) k q.done c ++
          (s.toSend ++ mqFlushReqs s k q.done c) ++ s.portOut ++ out at hx
        unfold mqNewReqs
        simp only [List.mem_append] at hx ⊢
        rcases hx with (((hx | hx) | hx | hx) | hx) | hx <;> simp [hx]
    · have hq := h.q.start hk hc hr (mqNewReqs s k q.done c) ?_ ?_ ?_
      · exact hq
      · intro r hr'
        obtain ⟨t1, t2, t3⟩ := htag r hr'
        refine ⟨t1, t2, ?_⟩
        intro hx
        have := h.fl.lt r.id (List.mem_append_right _ hx)
        omega
      · rw [mqNewReqs_want, h.cfg_g]
      · exact hnew
    · intro _
      show (0 : Int) ≤ if c.kind = .h2d then (s.cycH2D : Int) else (s.cycD2H : Int)
      split <;> omega
  · rw [e]
    have hzero : mqWant g c = 0 := by
      have := mqNewReqs_length s k q.done c
      rw [hnil, h.cfg_g] at this
      exact this.symm
    refine ⟨h.cfg_g, h.cfg_a, h.cfg_b, ?_, h.fl, h.q.startZero hk hc hr hzero, ?_, h.fault⟩
    · rw [List.length_set]; exact h.qlen
    · intro _
      show (0 : Int) ≤ if c.kind = .h2d then (s.cycH2D : Int) else (s.cycD2H : Int)
      split <;> omega

/-- `processNewCommand` over the queues `rest` that follow the already visited queues `pre` -/
theorem MInv.mqStartAll : ∀ (rest : List MqQueue) (s : Mq) (pre : List MqQueue),
    MInv g a b n s (pre ++ rest) out en →
    MInv g a b n (mqStartAll s pre.length rest).1 (pre ++ (mqStartAll s pre.length rest).2.1) out en
  | [], s, pre, h => by simpa [C11.mqStartAll] using h
  | q :: rest, s, pre, h => by
    have hk : (pre ++ q :: rest)[pre.length]? = some q := by simp
    have h1 := h.start hk
    have e1 : (pre ++ q :: rest).set pre.length (s.start pre.length q).2.1 =
        (pre ++ [(s.start pre.length q).2.1]) ++ rest := by
      rw [List.set_append]; simp
    rw [e1] at h1
    have h2 := MInv.mqStartAll rest (s.start pre.length q).1 (pre ++ [(s.start pre.length q).2.1]) h1
    have e2 : (pre ++ [(s.start pre.length q).2.1]).length = pre.length + 1 := by simp
    rw [e2] at h2
    unfold C11.mqStartAll
    simpa using h2

theorem MInv.startAll (h : MInv g a b n s s.queues out en) :
    MInv g a b n s.startAll.1 s.startAll.1.queues out en := by
  have h1 := MInv.mqStartAll s.queues s [] (by simpa using h)
  simp only [List.length_nil, List.nil_append] at h1
  exact ⟨h1.cfg_g, h1.cfg_a, h1.cfg_b, h1.qlen, h1.fl, h1.q, h1.timer, h1.fault⟩

theorem MInv.tick (h : MInv g a b n s s.queues out en) : MInv g a b n s.tick.1 s.tick.1.queues out en := by
  unfold Mq.tick
  split
  · exact h
  · have h1 : MInv g a b n s.sendToGPUs.1 s.sendToGPUs.1.queues out en := by
      have := h.sendToGPUs
      rcases s.sendToGPUs_cases with ⟨e, _⟩ | ⟨r, rest, _, _, e⟩ <;> rw [e] at this ⊢ <;> exact this
    have h2 : MInv g a b n s.sendToGPUs.1.delay.1 s.sendToGPUs.1.delay.1.queues out en := by
      have := h1.delay
      rcases s.sendToGPUs.1.delay_cases with ⟨_, e⟩ | ⟨_, e⟩ | ⟨_, e⟩ <;> rw [e] at this ⊢ <;> exact this
    have h3 := h2.response
    simp only
    split
    · exact h3
    · exact h3.startAll

end

/-! ## the environment's moves -/

theorem MqEnv.Inv.init (g a b n : Nat) (warm : Bool) : (MqEnv.init g a b n warm).Inv g a b n := by
  have hq : ∀ (j : Nat) (q : MqQueue), (List.replicate n ({} : MqQueue))[j]? = some q → q = {} := by
    intro j q hj
    rw [List.getElem?_replicate] at hj
    split at hj
    · exact (Option.some.inj hj).symm
    · cases hj
  refine ⟨rfl, rfl, rfl, by simp [MqEnv.init], ?_, ?_, fun hx => absurd rfl hx, rfl⟩
  · exact ⟨rfl, List.nodup_nil, fun k hk => absurd hk (Nat.not_lt_zero k), fun k hk => (by cases hk),
      fun r hr => (by cases hr)⟩
  · constructor
    · intro j q hj hr; rw [hq j q hj] at hr; cases hr
    · intro j q hj _; rw [hq j q hj]
    · intro j q hj x
      rw [hq j q hj]
      constructor
      · intro hx; cases hx
      · rintro ⟨r, hr, _⟩; cases hr
    · intro r hr; cases hr
    · intro r hr; cases hr
    · intro j q hj; rw [hq j q hj]; rfl
    · intro j q hj; rw [hq j q hj]; exact Nat.le_refl _
    · intro j q hj; rw [hq j q hj]; rfl
    · intro p hp; cases hp
    · exact List.nodup_nil
    · intro j q hj seq c hc; simp [mqEnqOf, MqEnv.init] at hc
    · intro j q hj hr; rw [hq j q hj] at hr; cases hr

theorem MqEnv.Inv.step {g a b n : Nat} {e : MqEnv} (h : e.Inv g a b n) (op : MqOp) : (e.step op).1.Inv g a b n := by
  cases op with
  | enq qi c =>
    simp only [MqEnv.step]
    split
    · rename_i hlt
      obtain ⟨q0, hk⟩ : ∃ q0, e.s.queues[qi]? = some q0 := ⟨_, List.getElem?_eq_getElem hlt⟩
      show MInv g a b n _ (e.s.queues.modify qi _) e.outstanding (e.enq ++ [(qi, c)])
      rw [mq_modify_eq_set _ hk]
      exact ⟨h.cfg_g, h.cfg_a, h.cfg_b, by rw [List.length_set]; exact h.qlen, h.fl, h.q.enq hk c, h.timer, h.fault⟩
    · exact h
  | tick =>
    show MInv g a b n e.s.tick.1 e.s.tick.1.queues e.outstanding e.enq
    exact MInv.tick h
  | take k =>
    refine ⟨h.cfg_g, h.cfg_a, h.cfg_b, h.qlen, ?_, h.q, h.timer, h.fault⟩
    refine h.fl.perm ?_ ?_
    · rw [List.perm_iff_count]; intro x
      show List.count x ((e.s.awaiting ++ e.s.toSend ++ e.s.portOut.drop k ++
        (e.outstanding ++ e.s.portOut.take k)).map (·.id) ++ e.s.portIn ++ e.s.answered) = _
      have := congrArg (fun l => List.count x (l.map (·.id))) (List.take_append_drop k e.s.portOut)
      simp only [List.map_append, List.count_append] at this
      mq_count
    · intro x hx
      change x ∈ e.s.awaiting ++ e.s.toSend ++ e.s.portOut.drop k ++ (e.outstanding ++ e.s.portOut.take k) at hx
      simp only [List.mem_append] at hx ⊢
      rcases hx with ((hx | hx) | hx) | hx | hx
      · simp [hx]
      · simp [hx]
      · exact .inl (.inr (List.mem_of_mem_drop hx))
      · simp [hx]
      · exact .inl (.inr (List.mem_of_mem_take hx))
  | rsp j =>
    simp only [MqEnv.step]
    split
    · exact h
    · split
      · exact h
      · rename_i r hr
        refine ⟨h.cfg_g, h.cfg_a, h.cfg_b, h.qlen, ?_, h.q, h.timer, h.fault⟩
        refine h.fl.perm ?_ ?_
        · rw [List.perm_iff_count]; intro x
          show List.count x ((e.s.awaiting ++ e.s.toSend ++ e.s.portOut ++
            e.outstanding.eraseIdx (j % e.outstanding.length)).map (·.id) ++ (e.s.portIn ++ [r.id]) ++ e.s.answered) = _
          have := ((mq_eraseIdx_perm hr).map (·.id)).count_eq x
          simp only [List.map_cons, List.count_cons] at this
          mq_count
        · intro x hx
          change x ∈ e.s.awaiting ++ e.s.toSend ++ e.s.portOut ++
            e.outstanding.eraseIdx (j % e.outstanding.length) at hx
          simp only [List.mem_append] at hx ⊢
          rcases hx with hx | hx
          · exact .inl hx
          · exact .inr (mq_mem_eraseIdx hx)

theorem MqEnv.Inv.run {g a b n : Nat} : ∀ (ops : List MqOp) {e : MqEnv}, e.Inv g a b n → (e.run ops).Inv g a b n
  | [], _, h => h
  | op :: rest, _, h => MqEnv.Inv.run rest (h.step op)

theorem reachMq_inv (g a b n : Nat) (warm : Bool) (ops : List MqOp) : (reachMq g a b n warm ops).Inv g a b n :=
  MqEnv.Inv.run ops (MqEnv.Inv.init g a b n warm)

/-! ## consequences used by the property theorems -/

theorem MqEnv.Inv.completed_spec {g a b n : Nat} {e : MqEnv} (h : e.Inv g a b n) {qi seq : Nat}
    (hc : (qi, seq) ∈ e.s.completed) :
    (∀ r ∈ e.reqsOf qi seq, r.id ∈ e.s.answered) ∧
    ∃ c, (e.enqOf qi)[seq]? = some c ∧ (e.reqsOf qi seq).length = mqWant g c := by
  have hlt : qi < e.s.queues.length := h.q.comp_lt _ hc
  have hq : e.s.queues[qi]? = some e.s.queues[qi] := List.getElem?_eq_getElem hlt
  have hseq : seq < (e.s.queues[qi]).done := by
    have : seq ∈ (e.s.completed.filter (·.1 = qi)).map (·.2) := by
      simp only [List.mem_map, List.mem_filter, decide_eq_true_eq]
      exact ⟨(qi, seq), ⟨hc, rfl⟩, rfl⟩
    rw [h.q.comp_range qi _ hq] at this
    exact List.mem_range.1 this
  constructor
  · intro r hr
    unfold MqEnv.reqsOf at hr
    simp only [List.mem_filter, decide_eq_true_eq] at hr
    obtain ⟨hr, hrq, hrs⟩ := hr
    apply Decidable.byContradiction
    intro hna
    obtain ⟨q, hq', _, hs⟩ := h.q.unans r hr hna
    rw [hrq, hq] at hq'
    cases hq'
    omega
  · have hd := h.q.enq_done qi _ hq
    have hl : seq < (mqEnqOf e.enq qi).length := Nat.lt_of_lt_of_le hseq hd
    refine ⟨(mqEnqOf e.enq qi)[seq], List.getElem?_eq_getElem hl, ?_⟩
    have := h.q.want qi _ hq seq _ (List.getElem?_eq_getElem hl) (by omega)
    have := congrArg List.length this
    rw [List.length_map, mqWantReqs_length] at this
    exact this

end C11
