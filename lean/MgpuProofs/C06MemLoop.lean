import MgpuModel.C06_Deep
import MgpuProofs.C06Body
/-! # C06 — the DS / FLAT lane loop as Go runs it (`goMemLoop`) refines the generic skeleton (`seqLoop`)

`goMemLoop` carries ONE staging array from lane to lane and passes the real loop variable to the body; a
`fault` of a body aborts the loop. `seqLoop h.toHandler` gives every body a zeroed staging array and lane
index 0. `MemLaneUniform h` is exactly what makes the two agree. -/
namespace C06
open Gen.Lane

theorem stage_ofFn (st : Bytes) (n : Nat) (h : st.length = n) : ∃ g : Fin n → BitVec 8, st = List.ofFn g := by
  subst h
  refine ⟨fun i => st[i.1], ?_⟩
  apply List.ext_getElem
  · simp
  · intro i h1 h2; simp

/-- the body of the skeleton instance on the registers of lane `i` and the memory `mem`: lane index 0, zeroed
    staging array -/
def memBody0 (h : MemHandler) (ops : MemOps) (vgpr : Nat → Nat → Nat) (mem : Nat → Nat) (i : Nat) : MemRawOut :=
  h.raw ops.uni
    { i := 0
      addr := (if ops.addrN ≤ 1 then BitVec.ofNat 64 (vgpr i ops.addrReg % 4294967296)
               else BitVec.ofNat 64 (vgpr i ops.addrReg % 4294967296 + 4294967296 * (vgpr i (ops.addrReg + 1) % 4294967296)))
      data := regBytes (vgpr i) ops.dataReg 4, data1 := regBytes (vgpr i) ops.data1Reg 4
      mem := fun k => BitVec.ofNat 8 (mem k)
      stage := List.replicate h.stageLen 0#8 }

/-- the body on the real staging array / loop variable does what the body on the zeroed array / index 0 does -/
theorem raw_eq_memBody0 (h : MemHandler) (hu : MemLaneUniform h) (ops : MemOps) (g : GoMemSt) (i : Nat)
    (hlen : g.stage.length = h.stageLen) :
    (h.raw ops.uni (g.rawIn ops i)).dst = (memBody0 h ops g.vgpr g.mem i).dst ∧
    (h.raw ops.uni (g.rawIn ops i)).loads = (memBody0 h ops g.vgpr g.mem i).loads ∧
    (h.raw ops.uni (g.rawIn ops i)).stores = (memBody0 h ops g.vgpr g.mem i).stores ∧
    (h.raw ops.uni (g.rawIn ops i)).fault = (memBody0 h ops g.vgpr g.mem i).fault ∧
    (h.raw ops.uni (g.rawIn ops i)).stage.length = h.stageLen := by
  obtain ⟨gf, hgf⟩ := stage_ofFn g.stage h.stageLen hlen
  have := hu ops.uni (g.rawIn ops i) gf
  have e1 : ({ g.rawIn ops i with stage := List.ofFn gf } : MemRawIn) = g.rawIn ops i := by
    simp only [GoMemSt.rawIn, hgf]
  rw [e1] at this
  exact this

/-- the skeleton's view of lane `i`'s body, in terms of `memBody0` -/
theorem laneOut_toHandler (h : MemHandler) (ops : MemOps) (t : VState) (i : Nat) :
    laneOut h.toHandler ops t i =
      { writes := (match (memBody0 h ops t.vgpr t.mem i).dst with | some bs => bytesToWrites ops.dstReg bs | none => [])
        bit := false
        loads := (memBody0 h ops t.vgpr t.mem i).loads
        stores := (memBody0 h ops t.vgpr t.mem i).stores.map fun s => (s.1, s.2.toNat) } := rfl

theorem goMemIter_of_fault (h : MemHandler) (ops : MemOps) (exec : BitVec 64) (i : Nat) (g : GoMemSt)
    (hf : g.fault = true) : goMemIter h ops exec i g = g := by
  simp [goMemIter, hf]

theorem goMemIter_of_inactive (h : MemHandler) (ops : MemOps) (exec : BitVec 64) (i : Nat) (hi : i < 64) (g : GoMemSt)
    (he : exec.getLsbD i = false) : goMemIter h ops exec i g = g := by
  simp [goMemIter, Guard.skips_eq _ _ _ hi, he]

theorem goMemIter_of_body_fault (h : MemHandler) (ops : MemOps) (exec : BitVec 64) (i : Nat) (hi : i < 64) (g : GoMemSt)
    (hf : g.fault = false) (he : exec.getLsbD i = true) (hb : (h.raw ops.uni (g.rawIn ops i)).fault = true) :
    goMemIter h ops exec i g = { g with fault := true } := by
  simp [goMemIter, Guard.skips_eq _ _ _ hi, he, hf, hb]

theorem goMemIter_of_body_ok (h : MemHandler) (ops : MemOps) (exec : BitVec 64) (i : Nat) (hi : i < 64) (g : GoMemSt)
    (hf : g.fault = false) (he : exec.getLsbD i = true) (hb : (h.raw ops.uni (g.rawIn ops i)).fault = false) :
    goMemIter h ops exec i g =
      { vgpr := (match (h.raw ops.uni (g.rawIn ops i)).dst with
          | some bs => fun l => if l = i then writeCells (g.vgpr i) (bytesToWrites ops.dstReg bs) else g.vgpr l
          | none => g.vgpr)
        mem := applyStores g.mem ((h.raw ops.uni (g.rawIn ops i)).stores.map fun s => (s.1, s.2.toNat))
        log := g.log ++ ((h.raw ops.uni (g.rawIn ops i)).loads.map (fun a => ⟨i, false, a.1, a.2⟩)
                ++ (h.raw ops.uni (g.rawIn ops i)).stores.map (fun a => ⟨i, true, a.1, 1⟩))
        stage := (h.raw ops.uni (g.rawIn ops i)).stage
        fault := false } := by
  simp only [goMemIter, Guard.skips_eq _ _ _ hi, he, hf, hb, Bool.not_true, Bool.false_eq_true, ↓reduceIte]
  cases (h.raw ops.uni (g.rawIn ops i)).dst <;> rfl

/-- fault is sticky -/
theorem goMemIter_fault_mono (h : MemHandler) (ops : MemOps) (exec : BitVec 64) (i : Nat) (g : GoMemSt)
    (hf : (goMemIter h ops exec i g).fault = false) : g.fault = false := by
  cases hg : g.fault with
  | false => rfl
  | true => rw [goMemIter_of_fault _ _ _ _ _ hg] at hf; rw [hg] at hf; exact hf

/-- one successful iteration of the Go loop is one `stepLane` of the skeleton -/
theorem goMemIter_step (h : MemHandler) (hu : MemLaneUniform h) (ops : MemOps) (exec : BitVec 64) (i : Nat) (hi : i < 64)
    (g : GoMemSt) (t : VState) (hf : g.fault = false) (he : exec.getLsbD i = true)
    (hb : (h.raw ops.uni (g.rawIn ops i)).fault = false)
    (hlen : g.stage.length = h.stageLen) (hv : g.vgpr = t.vgpr) (hm : g.mem = t.mem) (hl : g.log = t.log) :
    (goMemIter h ops exec i g).vgpr = (stepLane h.toHandler ops i t).vgpr ∧
    (goMemIter h ops exec i g).mem = (stepLane h.toHandler ops i t).mem ∧
    (goMemIter h ops exec i g).log = (stepLane h.toHandler ops i t).log ∧
    (goMemIter h ops exec i g).stage.length = h.stageLen ∧
    (goMemIter h ops exec i g).fault = false := by
  obtain ⟨hd, hlo, hst, _, hsl⟩ := raw_eq_memBody0 h hu ops g i hlen
  rw [goMemIter_of_body_ok h ops exec i hi g hf he hb]
  refine ⟨?_, ?_, ?_, hsl, rfl⟩
  · simp only [stepLane, laneOut_toHandler, hd, hv, hm]
    cases (memBody0 h ops t.vgpr t.mem i).dst with
    | none =>
      funext l
      by_cases hli : l = i
      · subst hli; simp [writeCells]
      · simp [hli]
    | some bs => rfl
  · simp only [stepLane, laneOut_toHandler, hst, hv, hm]
  · simp only [stepLane, laneOut_toHandler, accesses, hlo, hst, hv, hm, hl, List.map_map, Function.comp_def]

/-- the staging array keeps its length -/
theorem goMemIter_stage_len (h : MemHandler) (hu : MemLaneUniform h) (ops : MemOps) (exec : BitVec 64) (i : Nat)
    (g : GoMemSt) (hlen : g.stage.length = h.stageLen) : (goMemIter h ops exec i g).stage.length = h.stageLen := by
  obtain ⟨_, _, _, _, hsl⟩ := raw_eq_memBody0 h hu ops g i hlen
  unfold goMemIter
  split
  · exact hlen
  · split
    · exact hlen
    · simp only []
      split
      · exact hlen
      · exact hsl

theorem goMemLoop_stage_len (h : MemHandler) (hu : MemLaneUniform h) (ops : MemOps) (exec : BitVec 64)
    (g : GoMemSt) (hlen : g.stage.length = h.stageLen) (n : Nat) :
    (goMemLoop h ops exec n g).stage.length = h.stageLen := by
  induction n with
  | zero => exact hlen
  | succ n ih => exact goMemIter_stage_len h hu ops exec n _ ih

theorem goMemLoop_fault_mono (h : MemHandler) (ops : MemOps) (exec : BitVec 64) (g : GoMemSt) (n : Nat)
    (hf : (goMemLoop h ops exec (n + 1) g).fault = false) : (goMemLoop h ops exec n g).fault = false :=
  goMemIter_fault_mono h ops exec n _ hf

/-- **the Go loop refines the skeleton loop**: as long as no body has panicked, the register file, the memory
    and the access log are those of `seqLoop` of the skeleton instance; the staging array keeps its length -/
theorem goMemLoop_sim (h : MemHandler) (hu : MemLaneUniform h) (ops : MemOps) (exec : BitVec 64) (s : VState)
    (stage0 : Bytes) (hlen : stage0.length = h.stageLen) (n : Nat) (hn : n ≤ 64) :
    let g := goMemLoop h ops exec n ⟨s.vgpr, s.mem, s.log, stage0, false⟩
    let t := seqLoop h.toHandler ops (fun i => exec.getLsbD i) n s
    g.stage.length = h.stageLen ∧ (g.fault = false → g.vgpr = t.vgpr ∧ g.mem = t.mem ∧ g.log = t.log) := by
  intro g t
  refine ⟨goMemLoop_stage_len h hu ops exec _ hlen n, ?_⟩
  induction n with
  | zero => intro _; exact ⟨rfl, rfl, rfl⟩
  | succ n ih =>
    intro hf
    have hlt : n < 64 := by omega
    have hf' := goMemLoop_fault_mono h ops exec _ n hf
    obtain ⟨hv, hm, hl⟩ := ih (by omega) hf'
    have hsl := goMemLoop_stage_len h hu ops exec ⟨s.vgpr, s.mem, s.log, stage0, false⟩ hlen n
    show (goMemIter h ops exec n (goMemLoop h ops exec n ⟨s.vgpr, s.mem, s.log, stage0, false⟩)).vgpr = _ ∧
      (goMemIter h ops exec n (goMemLoop h ops exec n ⟨s.vgpr, s.mem, s.log, stage0, false⟩)).mem = _ ∧
      (goMemIter h ops exec n (goMemLoop h ops exec n ⟨s.vgpr, s.mem, s.log, stage0, false⟩)).log = _
    have hf2 : (goMemIter h ops exec n (goMemLoop h ops exec n ⟨s.vgpr, s.mem, s.log, stage0, false⟩)).fault = false := hf
    simp only [t, seqLoop]
    generalize goMemLoop h ops exec n ⟨s.vgpr, s.mem, s.log, stage0, false⟩ = gn at hv hm hl hf' hsl hf2 ⊢
    generalize seqLoop h.toHandler ops (fun i => exec.getLsbD i) n s = tn at hv hm hl ⊢
    cases he : exec.getLsbD n with
    | false =>
      rw [goMemIter_of_inactive h ops exec n hlt gn he]
      simp only [Bool.false_eq_true, ↓reduceIte]
      exact ⟨hv, hm, hl⟩
    | true =>
      simp only [↓reduceIte]
      cases hb : (h.raw ops.uni (gn.rawIn ops n)).fault with
      | true =>
        rw [goMemIter_of_body_fault h ops exec n hlt gn hf' he hb] at hf2
        exact absurd hf2 (by simp)
      | false =>
        obtain ⟨a, b, c, _, _⟩ := goMemIter_step h hu ops exec n hlt gn tn hf' he hb hsl hv hm hl
        exact ⟨a, b, c⟩

/-- **an aborted instruction is a prefix**: if the loop has faulted after `n` iterations, some active lane
    `k < n` panicked on the state the skeleton reaches after `k` lanes, and nothing happened afterwards -/
theorem goMemLoop_fault_prefix (h : MemHandler) (hu : MemLaneUniform h) (ops : MemOps) (exec : BitVec 64) (s : VState)
    (stage0 : Bytes) (hlen : stage0.length = h.stageLen) (n : Nat) (hn : n ≤ 64)
    (hf : (goMemLoop h ops exec n ⟨s.vgpr, s.mem, s.log, stage0, false⟩).fault = true) :
    ∃ k, k < n ∧ exec.getLsbD k = true ∧
      (goMemLoop h ops exec k ⟨s.vgpr, s.mem, s.log, stage0, false⟩).fault = false ∧
      (goMemLoop h ops exec k ⟨s.vgpr, s.mem, s.log, stage0, false⟩).vgpr = (seqLoop h.toHandler ops (fun i => exec.getLsbD i) k s).vgpr ∧
      (goMemLoop h ops exec k ⟨s.vgpr, s.mem, s.log, stage0, false⟩).mem = (seqLoop h.toHandler ops (fun i => exec.getLsbD i) k s).mem ∧
      (goMemLoop h ops exec k ⟨s.vgpr, s.mem, s.log, stage0, false⟩).log = (seqLoop h.toHandler ops (fun i => exec.getLsbD i) k s).log ∧
      (h.raw ops.uni ((goMemLoop h ops exec k ⟨s.vgpr, s.mem, s.log, stage0, false⟩).rawIn ops k)).fault = true ∧
      (goMemLoop h ops exec n ⟨s.vgpr, s.mem, s.log, stage0, false⟩).vgpr = (goMemLoop h ops exec k ⟨s.vgpr, s.mem, s.log, stage0, false⟩).vgpr ∧
      (goMemLoop h ops exec n ⟨s.vgpr, s.mem, s.log, stage0, false⟩).mem = (goMemLoop h ops exec k ⟨s.vgpr, s.mem, s.log, stage0, false⟩).mem ∧
      (goMemLoop h ops exec n ⟨s.vgpr, s.mem, s.log, stage0, false⟩).log = (goMemLoop h ops exec k ⟨s.vgpr, s.mem, s.log, stage0, false⟩).log := by
  induction n with
  | zero => exact absurd hf (by simp [goMemLoop])
  | succ n ih =>
    have hlt : n < 64 := by omega
    cases hfn : (goMemLoop h ops exec n ⟨s.vgpr, s.mem, s.log, stage0, false⟩).fault with
    | true =>
      obtain ⟨k, hk, hek, h1, h2, h3, h4, h5, h6, h7, h8⟩ := ih (by omega) hfn
      have e : goMemLoop h ops exec (n + 1) ⟨s.vgpr, s.mem, s.log, stage0, false⟩
          = goMemLoop h ops exec n ⟨s.vgpr, s.mem, s.log, stage0, false⟩ := goMemIter_of_fault _ _ _ _ _ hfn
      refine ⟨k, by omega, hek, h1, h2, h3, h4, h5, ?_, ?_, ?_⟩
      · rw [e]; exact h6
      · rw [e]; exact h7
      · rw [e]; exact h8
    | false =>
      obtain ⟨_, hsim⟩ := goMemLoop_sim h hu ops exec s stage0 hlen n (by omega)
      obtain ⟨hv, hm, hl⟩ := hsim hfn
      have hf2 : (goMemIter h ops exec n (goMemLoop h ops exec n ⟨s.vgpr, s.mem, s.log, stage0, false⟩)).fault = true := hf
      have e : goMemLoop h ops exec (n + 1) ⟨s.vgpr, s.mem, s.log, stage0, false⟩
          = goMemIter h ops exec n (goMemLoop h ops exec n ⟨s.vgpr, s.mem, s.log, stage0, false⟩) := rfl
      cases he : exec.getLsbD n with
      | false =>
        rw [goMemIter_of_inactive h ops exec n hlt _ he, hfn] at hf2
        exact absurd hf2 (by simp)
      | true =>
        cases hb : (h.raw ops.uni ((goMemLoop h ops exec n ⟨s.vgpr, s.mem, s.log, stage0, false⟩).rawIn ops n)).fault with
        | false =>
          rw [goMemIter_of_body_ok h ops exec n hlt _ hfn he hb] at hf2
          exact absurd hf2 (by simp)
        | true =>
          refine ⟨n, by omega, he, hfn, hv, hm, hl, hb, ?_, ?_, ?_⟩ <;>
            rw [e, goMemIter_of_body_fault h ops exec n hlt _ hfn he hb]

/-! ## masks -/

theorem execBelow_getLsbD (exec : BitVec 64) (k : Nat) (hk : k ≤ 64) (i : Nat) :
    (execBelow exec k).getLsbD i = (decide (i < k) && exec.getLsbD i) := by
  simp only [execBelow, BitVec.getLsbD_and, BitVec.getLsbD_ushiftRight, BitVec.getLsbD_allOnes]
  by_cases hi : i < k
  · have : 64 - k + i < 64 := by omega
    simp [hi, this]
  · have : ¬ (64 - k + i < 64) := by omega
    simp [hi, this]

theorem seqLoop_congr {υ} (h : Handler υ) (u : υ) (e e' : Nat → Bool) (n : Nat) (s : VState)
    (hee : ∀ i, i < n → e i = e' i) : seqLoop h u e n s = seqLoop h u e' n s := by
  induction n with
  | zero => rfl
  | succ n ih =>
    simp only [seqLoop]
    rw [ih (fun i hi => hee i (by omega)), hee n (by omega)]

/-- the loop under a mask that is clear from `k` on stops changing anything at `k` -/
theorem seqLoop_mask_below {υ} (h : Handler υ) (u : υ) (e : Nat → Bool) (k d : Nat) (s : VState) :
    seqLoop h u (fun i => decide (i < k) && e i) (k + d) s = seqLoop h u e k s := by
  induction d with
  | zero =>
    apply seqLoop_congr
    intro i hi
    have : i < k := by omega
    simp [this]
  | succ d ih =>
    show seqLoop h u (fun i => decide (i < k) && e i) (k + d + 1) s = _
    simp only [seqLoop]
    have : ¬ (k + d < k) := by omega
    simp only [this, decide_false, Bool.false_and, Bool.false_eq_true, ↓reduceIte]
    exact ih

theorem vexec_execBelow {υ} (h : Handler υ) (u : υ) (exec : BitVec 64) (k : Nat) (hk : k ≤ 64) (s : VState) :
    vexec h u (execBelow exec k) s = seqLoop h u (fun i => exec.getLsbD i) k (prologue h s) := by
  simp only [vexec, vexecB]
  have e : (fun i => (execBelow exec k).getLsbD i) = fun i => decide (i < k) && exec.getLsbD i := by
    funext i; exact execBelow_getLsbD exec k hk i
  rw [e]
  have key := seqLoop_mask_below h u (fun i => exec.getLsbD i) k (64 - k) (prologue h s)
  have e2 : k + (64 - k) = 64 := by omega
  rw [e2] at key
  exact key

theorem prologue_toHandler (h : MemHandler) (s : VState) : prologue h.toHandler s = s := rfl

/-! ## what an earlier lane / instruction left in the staging array is invisible -/

theorem goMemIter_stage_indep (h : MemHandler) (hu : MemLaneUniform h) (ops : MemOps) (exec : BitVec 64) (i : Nat)
    (g1 g2 : GoMemSt) (h1 : g1.stage.length = h.stageLen) (h2 : g2.stage.length = h.stageLen)
    (hf : g1.fault = g2.fault) (hv : g1.vgpr = g2.vgpr) (hm : g1.mem = g2.mem) (hl : g1.log = g2.log) :
    (goMemIter h ops exec i g1).fault = (goMemIter h ops exec i g2).fault ∧
    (goMemIter h ops exec i g1).vgpr = (goMemIter h ops exec i g2).vgpr ∧
    (goMemIter h ops exec i g1).mem = (goMemIter h ops exec i g2).mem ∧
    (goMemIter h ops exec i g1).log = (goMemIter h ops exec i g2).log := by
  obtain ⟨hd1, hlo1, hst1, hfa1, _⟩ := raw_eq_memBody0 h hu ops g1 i h1
  obtain ⟨hd2, hlo2, hst2, hfa2, _⟩ := raw_eq_memBody0 h hu ops g2 i h2
  rw [hv, hm] at hd1 hlo1 hst1 hfa1
  unfold goMemIter
  rw [hf]
  cases g2.fault with
  | true => exact ⟨hf, hv, hm, hl⟩
  | false =>
    simp only [Bool.false_eq_true, ↓reduceIte]
    cases Guard.skips .bitZero exec i with
    | true => exact ⟨hf, hv, hm, hl⟩
    | false =>
      simp only [Bool.false_eq_true, ↓reduceIte, hfa1, hfa2, hd1, hd2, hlo1, hlo2, hst1, hst2]
      cases (memBody0 h ops g2.vgpr g2.mem i).fault with
      | true => exact ⟨rfl, hv, hm, hl⟩
      | false =>
        simp [hv, hm, hl]

theorem goMemLoop_stage_indep (h : MemHandler) (hu : MemLaneUniform h) (ops : MemOps) (exec : BitVec 64)
    (g1 g2 : GoMemSt) (h1 : g1.stage.length = h.stageLen) (h2 : g2.stage.length = h.stageLen)
    (hf : g1.fault = g2.fault) (hv : g1.vgpr = g2.vgpr) (hm : g1.mem = g2.mem) (hl : g1.log = g2.log) (n : Nat) :
    (goMemLoop h ops exec n g1).fault = (goMemLoop h ops exec n g2).fault ∧
    (goMemLoop h ops exec n g1).vgpr = (goMemLoop h ops exec n g2).vgpr ∧
    (goMemLoop h ops exec n g1).mem = (goMemLoop h ops exec n g2).mem ∧
    (goMemLoop h ops exec n g1).log = (goMemLoop h ops exec n g2).log := by
  induction n with
  | zero => exact ⟨hf, hv, hm, hl⟩
  | succ n ih =>
    obtain ⟨a, b, c, d⟩ := ih
    exact goMemIter_stage_indep h hu ops exec n _ _
      (goMemLoop_stage_len h hu ops exec g1 h1 n) (goMemLoop_stage_len h hu ops exec g2 h2 n) a b c d

end C06
