import MgpuModel.C14
/-! # C14 — the vector memory unit's transaction path: lemmas about the Akita pipeline (`laneTick`,
`tick`, `accept`) shared by the proofs about the repaired unit and about the unit before the repair -/
namespace C14.Vmu

/-- the transactions in one lane, oldest (last stage) first -/
def laneItems (l : List (Option Nat)) : List Nat := l.reverse.filterMap id

def pipeItems (lanes : List (List (Option Nat))) : List Nat := lanes.flatMap laneItems

/-- everything ever created, in the order in which it has left / will leave a ONE-lane unit -/
def order (s : St) : List Nat := s.sent ++ s.post ++ pipeItems s.lanes ++ s.waiting.map Prod.fst

theorem vmu_laneItems_cons (x : Option Nat) (rest : List (Option Nat)) :
    laneItems (x :: rest) = laneItems rest ++ x.toList := by
  cases x <;> simp [laneItems, List.filterMap_append]

theorem vmu_laneItems_nil : laneItems [] = [] := rfl

theorem vmu_laneItems_length (l : List (Option Nat)) :
    (laneItems l).length = (l.filter Option.isSome).length := by
  induction l with
  | nil => rfl
  | cons x rest ih => rw [vmu_laneItems_cons]; cases x <;> simp [ih]

theorem vmu_laneTick_facts (b : Nat) : ∀ (lane : List (Option Nat)) (post : List Nat),
    (laneTick b lane post).2 ++ laneItems (laneTick b lane post).1 = post ++ laneItems lane ∧
    (laneTick b lane post).1.length = lane.length ∧
    (post.length ≤ b → (laneTick b lane post).2.length ≤ b)
  | [], post => by simp [laneTick]
  | [x], post => by
    cases x with
    | none => simp [laneTick]
    | some e =>
      simp only [laneTick]
      split
      · simp [vmu_laneItems_cons, vmu_laneItems_nil]; omega
      · simp
  | x :: y :: rest, post => by
    obtain ⟨h1, h2, h3⟩ := vmu_laneTick_facts b (y :: rest) post
    simp only [laneTick]
    split
    · rename_i e tl heq
      rw [heq] at h1 h2
      refine ⟨?_, ?_, h3⟩
      · simp only [vmu_laneItems_cons] at h1 ⊢
        simp at h1 ⊢
        rw [← List.append_assoc, h1]; simp
      · simp at h2 ⊢; omega
    · refine ⟨?_, ?_, h3⟩
      · simp only [vmu_laneItems_cons] at h1 ⊢
        rw [← List.append_assoc, h1]; simp
      · simp [h2]

theorem vmu_laneTick_count (b : Nat) (lane : List (Option Nat)) (post : List Nat) :
    (laneTick b lane post).2.length + ((laneTick b lane post).1.filter Option.isSome).length =
      post.length + (lane.filter Option.isSome).length := by
  have h := congrArg List.length (vmu_laneTick_facts b lane post).1
  simp only [List.length_append, vmu_laneItems_length] at h
  exact h

theorem vmu_tick_facts (b : Nat) : ∀ (lanes : List (List (Option Nat))) (post : List Nat),
    (tick b lanes post).2.length +
        ((tick b lanes post).1.map (fun l => (l.filter Option.isSome).length)).sum =
      post.length + (lanes.map (fun l => (l.filter Option.isSome).length)).sum ∧
    (tick b lanes post).1.length = lanes.length ∧
    (post.length ≤ b → (tick b lanes post).2.length ≤ b)
  | [], post => by simp [tick]
  | l :: ls, post => by
    obtain ⟨h1, h2, h3⟩ := vmu_tick_facts b ls (laneTick b l post).2
    have hc := vmu_laneTick_count b l post
    have hb := (vmu_laneTick_facts b l post).2.2
    simp only [tick, List.map_cons, List.sum_cons, List.length_cons]
    refine ⟨by omega, by omega, fun h => h3 (hb h)⟩

theorem vmu_accept_facts (e : Nat) : ∀ (lanes lanes' : List (List (Option Nat))),
    accept e lanes = some lanes' →
    (lanes'.map (fun l => (l.filter Option.isSome).length)).sum =
      (lanes.map (fun l => (l.filter Option.isSome).length)).sum + 1 ∧
    lanes'.length = lanes.length
  | [], lanes', h => by simp [accept] at h
  | [] :: ls, lanes', h => by
    simp only [accept, Option.map_eq_some_iff] at h
    obtain ⟨a, ha, rfl⟩ := h
    have := vmu_accept_facts e ls a ha
    simp; omega
  | (none :: tl) :: ls, lanes', h => by
    simp only [accept, Option.some.injEq] at h
    subst h; simp; omega
  | (some x :: tl) :: ls, lanes', h => by
    simp only [accept, Option.map_eq_some_iff] at h
    obtain ⟨a, ha, rfl⟩ := h
    have := vmu_accept_facts e ls a ha
    simp; omega

theorem vmu_pipeItems_single (l : List (Option Nat)) : pipeItems [l] = laneItems l := by
  simp [pipeItems]

theorem vmu_accept_single (e : Nat) (lane : List (Option Nat)) (lanes' : List (List (Option Nat)))
    (h : accept e [lane] = some lanes') : ∃ tl, lane = none :: tl ∧ lanes' = [some e :: tl] := by
  cases lane with
  | nil => simp [accept] at h
  | cons x tl =>
    cases x with
    | none => simp [accept] at h; exact ⟨tl, rfl, h.symm⟩
    | some y => simp [accept] at h

theorem vmu_tick_single (b : Nat) (lane : List (Option Nat)) (post : List Nat) :
    tick b [lane] post = ([(laneTick b lane post).1], (laneTick b lane post).2) := by
  simp [tick]

theorem vmu_laneItems_replicate_none : ∀ n : Nat, laneItems (List.replicate n none) = []
  | 0 => rfl
  | n + 1 => by rw [List.replicate_succ, vmu_laneItems_cons, vmu_laneItems_replicate_none n]; rfl

theorem vmu_prefix_range (a b : List Nat) (n : Nat) (h : a ++ b = List.range n) :
    a = List.range a.length := by
  have hl := congrArg List.length h
  simp only [List.length_append, List.length_range] at hl
  have h2 := congrArg (List.take a.length) h
  rw [List.take_left, List.take_range] at h2
  rw [Nat.min_eq_left (by omega)] at h2
  exact h2

end C14.Vmu
