import MgpuProofs.C01Emu
/-! # C01 — the barrier rounds of `runWG`: a work-group with ONE `S_BARRIER`

`runWG_effect` (C01Emu) covers work-groups whose wavefronts run straight to `S_ENDPGM`.  A kernel that
communicates through LDS has two phases per work-group:

* phase 1 — every wavefront, in order, runs from its initial registers to `S_BARRIER`; it reads global memory
  and writes LDS (`Phase1`: global memory content unchanged, LDS content changed by the byte writes `lw`,
  the wavefront parks with `atBarrier`, its registers satisfy a user-chosen mid-condition);
* `resolveBarrier` — every wavefront is at the barrier, the flags are cleared;
* phase 2 — every wavefront, in order, runs from the barrier to `S_ENDPGM`; it reads the LDS content all the
  wavefronts of phase 1 produced together and writes global memory (`Phase2`: LDS content unchanged, global
  memory changed by the byte writes `wr`).

`runWG_barrier_round`: the loop of `emu.ComputeUnit.runWG` (`pass`, `allDone`, the not-all-at-barrier test,
the flag reset) then returns the initial memory with the phase-2 writes of all wavefronts applied, where the
phase-2 descriptions may depend on the LDS content `applyWrites (ws.flatMap lw) L0` — i.e. every wavefront
sees the LDS writes of EVERY wavefront of the group, also of those that ran after it in phase 1. -/
namespace C01
namespace Emu

/-- two lists related element by element -/
inductive All2 {α β : Type} (R : α → β → Prop) : List α → List β → Prop where
  | nil : All2 R [] []
  | cons {a : α} {b : β} {as : List α} {bs : List β} : R a b → All2 R as bs → All2 R (a :: as) (b :: bs)

/-- `resolveBarrier` on one wavefront -/
def unbar (w : Wave) : Wave := if w.completed then w else { w with atBarrier := false }

/-- phase-1 description of a wavefront: from every admissible memory and ANY LDS content it runs to
    `S_BARRIER` within the fuel; memory content unchanged, LDS content changed exactly by `lw`; the parked
    wavefront satisfies `Q` -/
def Phase1 (P : Program) (base fuel : Nat) (Ok : Mem → Prop) (w : Wave) (lw : List (Nat × Nat)) (Q : Wave → Prop) : Prop :=
  w.completed = false ∧
  ∀ m l, Ok m → ∃ w1 m' l', runWave P base fuel w m l = .ok (w1, m', l') ∧ w1.completed = false ∧
    w1.atBarrier = true ∧ Q w1 ∧ get m' = get m ∧ Ok m' ∧ get l' = applyWrites lw (get l)

/-- phase-2 description of a (released) wavefront: from every admissible memory and an LDS with content `L`
    it runs to `S_ENDPGM`; LDS content unchanged, memory content changed exactly by `wr` -/
def Phase2 (P : Program) (base fuel : Nat) (Ok : Mem → Prop) (L : Nat → Nat) (w : Wave) (wr : List (Nat × Nat)) : Prop :=
  ∀ m l, Ok m → get l = L → ∃ w' m' l', runWave P base fuel w m l = .ok (w', m', l') ∧ w'.completed = true ∧
    get m' = applyWrites wr (get m) ∧ Ok m' ∧ get l' = L

/-- what phase 1 leaves of a wavefront -/
def Parked (Q : Wave → Prop) (w1 : Wave) : Prop := w1.completed = false ∧ w1.atBarrier = true ∧ Q w1

theorem pass_phase1 (P : Program) (base fuel : Nat) (Ok : Mem → Prop) (lw : Wave → List (Nat × Nat))
    (Q : Wave → Wave → Prop) :
    ∀ (ws : List Wave), (∀ w ∈ ws, Phase1 P base fuel Ok w (lw w) (Q w)) → ∀ m l, Ok m →
    ∃ ws1 m' l', pass P base fuel ws m l = .ok (ws1, m', l') ∧ All2 (fun w w1 => Parked (Q w) w1) ws ws1 ∧
      get m' = get m ∧ Ok m' ∧ get l' = applyWrites (ws.flatMap lw) (get l) := by
  intro ws
  induction ws with
  | nil =>
    intro _ m l hok
    exact ⟨[], m, l, rfl, All2.nil, rfl, hok, rfl⟩
  | cons w ws ih =>
    intro hs m l hok
    obtain ⟨_, hw⟩ := hs w (List.mem_cons_self ..)
    obtain ⟨w1, m1, l1, hr, hc, hb, hq, hg, hok1, hl1⟩ := hw m l hok
    obtain ⟨ws1, m2, l2, hp, hf, hg2, hok2, hl2⟩ := ih (fun x hx => hs x (List.mem_cons_of_mem _ hx)) m1 l1 hok1
    refine ⟨w1 :: ws1, m2, l2, ?_, All2.cons ⟨hc, hb, hq⟩ hf, hg2.trans hg, hok2, ?_⟩
    · simp only [pass, hr, hp]
    · rw [hl2, hl1, List.flatMap_cons, applyWrites_append]

theorem pass_phase2 (P : Program) (base fuel : Nat) (Ok : Mem → Prop) (L : Nat → Nat) :
    ∀ (xs : List Wave) (ys : List (List (Nat × Nat))),
    All2 (fun x y => Phase2 P base fuel Ok L x y) xs ys → ∀ m l, Ok m → get l = L →
    ∃ xs' m' l', pass P base fuel xs m l = .ok (xs', m', l') ∧ allDone xs' = true ∧
      get m' = applyWrites ys.flatten (get m) ∧ Ok m' ∧ get l' = L := by
  intro xs ys h
  induction h with
  | nil =>
    intro m l hok hl
    exact ⟨[], m, l, rfl, rfl, rfl, hok, hl⟩
  | cons hxy _ ih =>
    intro m l hok hl
    obtain ⟨w', m1, l1, hr, hc, hg, hok1, hl1⟩ := hxy m l hok hl
    obtain ⟨xs', m2, l2, hp, hd, hg2, hok2, hl2⟩ := ih m1 l1 hok1 hl1
    refine ⟨w' :: xs', m2, l2, ?_, ?_, ?_, hok2, hl2⟩
    · simp only [pass, hr, hp]
    · simp only [allDone, List.all_cons, hc, Bool.true_and] at hd ⊢
      exact hd
    · rw [hg2, hg, List.flatten_cons, applyWrites_append]

theorem allDone_parked (Q : Wave → Wave → Prop) (ws ws1 : List Wave) (hne : ws ≠ [])
    (hf : All2 (fun w w1 => Parked (Q w) w1) ws ws1) : allDone ws1 = false := by
  cases hf with
  | nil => exact absurd rfl hne
  | cons h _ => simp [allDone, h.1]

theorem none_running (Q : Wave → Wave → Prop) (ws ws1 : List Wave)
    (hf : All2 (fun w w1 => Parked (Q w) w1) ws ws1) :
    ws1.any (fun w => !w.completed && !w.atBarrier) = false := by
  induction hf with
  | nil => rfl
  | cons h _ ih => simp only [List.any_cons, h.2.1, Bool.not_true, Bool.and_false, Bool.false_or, ih]

/-- a work-group with one barrier: the memory after `runWG` is the initial memory with the phase-2 writes of
    all wavefronts applied in wavefront order, each wavefront having read the LDS content ALL wavefronts wrote
    in phase 1 -/
theorem runWG_barrier_round (P : Program) (base fuel rounds : Nat) (Ok : Mem → Prop) (L0 : Nat → Nat)
    (lw wr : Wave → List (Nat × Nat)) (Q : Wave → Wave → Prop) (ws : List Wave) (hne : ws ≠ [])
    (h1 : ∀ w ∈ ws, Phase1 P base fuel Ok w (lw w) (Q w))
    (h2 : ∀ w ∈ ws, ∀ w1, Q w w1 → w1.completed = false →
      Phase2 P base fuel Ok (applyWrites (ws.flatMap lw) L0) { w1 with atBarrier := false } (wr w))
    (m l : Mem) (hok : Ok m) (hl : get l = L0) :
    ∃ m', runWG P base fuel (rounds + 2) ws m l = .ok m' ∧
      get m' = applyWrites (ws.flatMap wr) (get m) ∧ Ok m' := by
  obtain ⟨ws1, m1, l1, hp1, hf, hg1, hok1, hl1⟩ := pass_phase1 P base fuel Ok lw Q ws h1 m l hok
  rw [hl] at hl1
  -- the released wavefronts have phase-2 descriptions
  have hrel : ∀ (xs xs1 : List Wave), (∀ w ∈ xs, w ∈ ws) → All2 (fun w w1 => Parked (Q w) w1) xs xs1 →
      All2 (fun x y => Phase2 P base fuel Ok (applyWrites (ws.flatMap lw) L0) x y)
        (xs1.map fun w => if w.completed then w else { w with atBarrier := false }) (xs.map wr) := by
    intro xs xs1 hsub hff
    induction hff with
    | nil => exact All2.nil
    | @cons a b as bs hab _ ih =>
      refine All2.cons ?_ (ih fun w hw => hsub w (List.mem_cons_of_mem _ hw))
      have := h2 a (hsub a (List.mem_cons_self ..)) b hab.2.2 hab.1
      simpa only [hab.1, Bool.false_eq_true, if_false] using this
  obtain ⟨xs', m2, l2, hp2, hd2, hg2, hok2, _⟩ :=
    pass_phase2 P base fuel Ok _ _ _ (hrel ws ws1 (fun _ h => h) hf) m1 l1 hok1 hl1
  have hnd : allDone ws = false := by
    cases ws with
    | nil => exact absurd rfl hne
    | cons w _ => simp [allDone, (h1 w (List.mem_cons_self ..)).1]
  refine ⟨m2, ?_, ?_, hok2⟩
  · have e1 : runWG P base fuel (rounds + 2) ws m l =
        runWG P base fuel (rounds + 1) (ws1.map fun w => if w.completed then w else { w with atBarrier := false }) m1 l1 := by
      rw [show rounds + 2 = (rounds + 1) + 1 from rfl, runWG]
      simp only [hnd, hp1, allDone_parked Q ws ws1 hne hf, none_running Q ws ws1 hf, Bool.false_eq_true, if_false]
    rw [e1, runWG]
    have hnd1 : allDone (ws1.map fun w => if w.completed then w else { w with atBarrier := false }) = false := by
      cases hf with
      | nil => exact absurd rfl hne
      | cons h _ => simp [allDone, h.1]
    simp only [hnd1, hp2, hd2, Bool.false_eq_true, if_false, if_true]
  · rw [hg2, hg1, List.flatMap_def]

end Emu
end C01
