import MgpuProofs.C15Refine
/-! # C15 — flush / restart: monotone histories of the specification, service after an empty point -/
namespace C15

namespace Spec

/-- the histories of the specification only grow -/
structure Ext (S T : Spec) : Prop where
  fwd : ∃ m, T.fwd = S.fwd ++ m
  out : ∃ m, T.out = S.out ++ m
  flushed : ∃ m, T.flushed = S.flushed ++ m

theorem Ext.refl (S : Spec) : Ext S S := ⟨⟨[], by simp⟩, ⟨[], by simp⟩, ⟨[], by simp⟩⟩

theorem Ext.trans {S T U : Spec} (h1 : Ext S T) (h2 : Ext T U) : Ext S U := by
  obtain ⟨⟨a1, e1⟩, ⟨b1, f1⟩, ⟨c1, g1⟩⟩ := h1
  obtain ⟨⟨a2, e2⟩, ⟨b2, f2⟩, ⟨c2, g2⟩⟩ := h2
  exact ⟨⟨a1 ++ a2, by rw [e2, e1, List.append_assoc]⟩, ⟨b1 ++ b2, by rw [f2, f1, List.append_assoc]⟩,
    ⟨c1 ++ c2, by rw [g2, g1, List.append_assoc]⟩⟩

theorem step_ext {cap : Nat} {S T : Spec} (st : Step cap S T) : Ext S T := by
  cases st with
  | accept r b _ _ _ _ => exact ⟨⟨_, rfl⟩, ⟨[], by simp⟩, ⟨[], by simp⟩⟩
  | answer i r k p _ => exact ⟨⟨[], by simp⟩, ⟨[], by simp⟩, ⟨[], by simp⟩⟩
  | respond r k p rest _ => exact ⟨⟨[], by simp⟩, ⟨_, rfl⟩, ⟨[], by simp⟩⟩
  | flush => exact ⟨⟨[], by simp⟩, ⟨[], by simp⟩, ⟨_, rfl⟩⟩

theorem star_ext {cap : Nat} {S T : Spec} (st : Star cap S T) : Ext S T := by
  induction st with
  | refl => exact Ext.refl _
  | tail _ s ih => exact ih.trans (step_ext s)

/-- **Service after an empty point** (e.g. right after a flush or restart was processed): from a
    state with an empty FIFO, whatever happens afterwards, the responses sent from then on followed
    by the pending ids are exactly the requests accepted from then on (minus those a later flush
    threw away), in acceptance order — earlier history has no influence. -/
theorem after_empty_in_order {cap : Nat} {S T : Spec} (g : Good cap S) (hq : S.queue = [])
    (st : Star cap S T) :
    ∃ newOut newFwd, T.out = S.out ++ newOut ∧ T.fwd = S.fwd ++ newFwd ∧
      newOut.map (·.rspTo) ++ T.queue.map (·.1.id) =
        (newFwd.map (·.1.id)).filter (fun a => decide (a ∉ T.flushed)) := by
  have gT := good_star g st
  obtain ⟨⟨nf, hf⟩, ⟨no, ho⟩, ⟨nfl, hfl⟩⟩ := star_ext st
  refine ⟨no, nf, ho, hf, ?_⟩
  have h0 := g.order
  rw [hq] at h0
  simp only [List.map_nil, List.append_nil] at h0
  have hT := gT.order
  rw [ho, hf] at hT
  simp only [List.map_append, List.filter_append] at hT
  have hsame : (S.fwd.map (·.1.id)).filter (fun a => decide (a ∉ T.flushed)) =
      (S.fwd.map (·.1.id)).filter (fun a => decide (a ∉ S.flushed)) := by
    apply List.filter_congr
    intro a ha
    have hiff : a ∉ T.flushed ↔ a ∉ S.flushed := by
      constructor
      · intro h hm; apply h; rw [hfl]; exact List.mem_append_left _ hm
      · intro h hm
        have h1 : a ∈ S.out.map (·.rspTo) := by
          rw [h0]; exact List.mem_filter.2 ⟨ha, by simpa using h⟩
        have h2 : a ∈ (S.fwd.map (·.1.id)).filter (fun a => decide (a ∉ T.flushed)) ++
            (nf.map (·.1.id)).filter (fun a => decide (a ∉ T.flushed)) := by
          rw [← hT]
          exact List.mem_append_left _ (List.mem_append_left _ h1)
        rcases List.mem_append.1 h2 with h2 | h2
        · have := (List.mem_filter.1 h2).2; simp at this; exact this hm
        · have := (List.mem_filter.1 h2).2; simp at this; exact this hm
    simp [hiff]
  rw [hsame, ← h0, List.append_assoc] at hT
  exact List.append_cancel_left hT

end Spec

/-! ### while flushing, a tick touches nothing but the control port -/

/-- the logs a flushing tick leaves alone -/
def St.traffic (s : St) : List TRsp × List (Req × BReq) × List (Nat × Rsp) :=
  (s.delivered, s.fwd, s.answered)

theorem processCtl_traffic (c : Cfg) (s : St) : (processCtl c s).1.traffic = s.traffic := by
  unfold processCtl
  repeat' split
  all_goals rfl

/-- a tick that ends in the flushing state sends nothing up, forwards nothing, consumes no
    lower-level response (and, since repair 7c2f5a70, leaves both outgoing buffers empty:
    `flushing_tick_empties_outgoing`) -/
theorem tick_flushing_silent (c : Cfg) (s : St) (h' : (tick c s).1.flushing = true) :
    (tick c s).1.traffic = s.traffic := by
  revert h'
  unfold tick
  split
  · intro _; rfl
  · simp only
    split
    · intro _; exact processCtl_traffic c s
    · split
      · intro _; exact processCtl_traffic c s
      · rename_i hfl
        intro h'
        have h'' : (runPipeline c (processCtl c s).1).1.flushing = true := h'
        rw [runPipeline_flushing] at h''
        exact absurd h'' hfl

/-! ### what enters / leaves the Top port's outgoing buffer -/

/-- what enters the delivered log enters the Top port's outgoing buffer, and nothing else does -/
def TopExt (s s' : St) : Prop := ∃ more, s'.delivered = s.delivered ++ more ∧ s'.topOut = s.topOut ++ more

theorem TopExt.refl (s : St) : TopExt s s := ⟨[], by simp, by simp⟩

theorem TopExt.trans {a b c : St} (h1 : TopExt a b) (h2 : TopExt b c) : TopExt a c := by
  obtain ⟨m1, d1, t1⟩ := h1
  obtain ⟨m2, d2, t2⟩ := h2
  exact ⟨m1 ++ m2, by rw [d2, d1, List.append_assoc], by rw [t2, t1, List.append_assoc]⟩

theorem bottomUp_top (c : Cfg) (s : St) : TopExt s (bottomUp c s).1 := by
  unfold bottomUp
  repeat' split
  all_goals first
    | exact TopExt.refl _
    | exact ⟨_, rfl, rfl⟩

theorem parseBottom_top (s : St) : TopExt s (parseBottom s).1 := by
  unfold parseBottom
  repeat' split
  all_goals exact ⟨[], by simp, by simp⟩

theorem topDown_top (c : Cfg) (s : St) : TopExt s (topDown c s).1 := by
  unfold topDown
  repeat' split
  all_goals exact ⟨[], by simp, by simp⟩

theorem processCtl_top (c : Cfg) (s : St) : TopExt s (processCtl c s).1 := by
  unfold processCtl
  repeat' split
  all_goals exact ⟨[], by simp, by simp⟩

theorem runPipeline_top (c : Cfg) (s : St) : TopExt s (runPipeline c s).1 := by
  unfold runPipeline
  have h1 := iterP_rel TopExt.refl (fun _ _ _ => TopExt.trans) (bottomUp_top c) c.width (s, false)
  have h2 := iterP_rel TopExt.refl (fun _ _ _ => TopExt.trans) parseBottom_top c.width
    (iterP (bottomUp c) c.width (s, false))
  have h3 := iterP_rel TopExt.refl (fun _ _ _ => TopExt.trans) (topDown_top c) c.width
    (iterP parseBottom c.width (iterP (bottomUp c) c.width (s, false)))
  exact TopExt.trans (TopExt.trans h1 h2) h3

/-- a tick either only appends to the Top port's outgoing buffer what it appends to the delivered
    log, or (ending in the flushing state) empties that buffer and delivers nothing -/
theorem tick_top (c : Cfg) (s : St) :
    TopExt s (tick c s).1 ∨
    ((tick c s).1.flushing = true ∧ (tick c s).1.delivered = s.delivered ∧ (tick c s).1.topOut = []) := by
  unfold tick
  split
  · exact Or.inl (TopExt.refl _)
  · simp only
    split
    · exact Or.inl (processCtl_top c s)
    · split
      · rename_i hfl
        exact Or.inr ⟨hfl, congrArg (·.1) (processCtl_traffic c s), rfl⟩
      · exact Or.inl (TopExt.trans (processCtl_top c s) (runPipeline_top c _))

theorem tick_top_of_not_flushing (c : Cfg) (s : St) (h : (tick c s).1.flushing = false) :
    TopExt s (tick c s).1 := by
  rcases tick_top c s with h1 | ⟨h1, _⟩
  · exact h1
  · rw [h] at h1; cases h1

/-- `σ'` is a later state: what the requester took in between and what still waits in the Top
    port was waiting there at `σ` or was delivered in between -/
def Taken (σ σ' : Sys) : Prop :=
  ∃ taken no, σ'.out = σ.out ++ taken ∧ σ'.rob.delivered = σ.rob.delivered ++ no ∧
    ∀ d ∈ taken ++ σ'.rob.topOut, d ∈ σ.rob.topOut ++ no

theorem Taken.refl (σ : Sys) : Taken σ σ := ⟨[], [], by simp, by simp, by intro d hd; simpa using hd⟩

theorem Taken.trans {a b c : Sys} (h1 : Taken a b) (h2 : Taken b c) : Taken a c := by
  obtain ⟨t1, n1, o1, d1, m1⟩ := h1
  obtain ⟨t2, n2, o2, d2, m2⟩ := h2
  refine ⟨t1 ++ t2, n1 ++ n2, by rw [o2, o1, List.append_assoc], by rw [d2, d1, List.append_assoc], ?_⟩
  intro d hd
  have lift : ∀ x, x ∈ a.rob.topOut ++ n1 → x ∈ a.rob.topOut ++ (n1 ++ n2) := by
    intro x hx
    rcases List.mem_append.1 hx with hx | hx
    · exact List.mem_append_left _ hx
    · exact List.mem_append_right _ (List.mem_append_left _ hx)
  rw [List.append_assoc] at hd
  rcases List.mem_append.1 hd with hd | hd
  · exact lift d (m1 d (List.mem_append_left _ hd))
  · rcases List.mem_append.1 (m2 d hd) with hb | hn
    · exact lift d (m1 d (List.mem_append_right _ hb))
    · exact List.mem_append_right _ (List.mem_append_right _ hn)

theorem sysStep_taken (c : Cfg) (σ : Sys) (e : Ev) : Taken σ (sysStep c σ e) := by
  have same : ∀ σ' : Sys, σ'.out = σ.out → σ'.rob.delivered = σ.rob.delivered → σ'.rob.topOut = σ.rob.topOut →
      Taken σ σ' := by
    intro σ' h1 h2 h3
    exact ⟨[], [], by simp [h1], by simp [h2], by intro d hd; simpa [h3] using hd⟩
  cases e with
  | tick =>
    rcases tick_top c σ.rob with ⟨more, h1, h2⟩ | ⟨_, h1, h2⟩
    · exact ⟨[], more, by simp [sysStep], h1, by
        intro d hd
        have : d ∈ (tick c σ.rob).1.topOut := by simpa [sysStep, step] using hd
        rw [h2] at this; exact this⟩
    · exact ⟨[], [], by simp [sysStep], by rw [List.append_nil]; exact h1, by
        intro d hd
        have : d ∈ (tick c σ.rob).1.topOut := by simpa [sysStep, step] using hd
        rw [h2] at this; cases this⟩
  | arrive q => apply same <;> first | rfl | (simp only [sysStep, step]; split <;> rfl)
  | ctl x => apply same <;> first | rfl | (simp only [sysStep, step]; split <;> rfl)
  | takeAck => exact same _ rfl rfl rfl
  | memTake => apply same <;> first | rfl | (simp only [sysStep]; split <;> rfl)
  | memAnswer j p =>
    apply same <;> first
      | rfl
      | ((simp only [sysStep]; repeat' split) <;> first | rfl | (simp only [step]; split <;> rfl))
  | takeRsp =>
    simp only [sysStep]
    cases hr : σ.rob.topOut with
    | nil => simp only []; exact same _ rfl rfl rfl
    | cons r rest =>
      simp only []
      refine ⟨[r], [], rfl, by simp [step], ?_⟩
      intro d hd
      simp only [step, hr, List.drop_one, List.tail_cons, List.singleton_append] at hd
      rw [hr]; simpa using hd

theorem sysFold_taken (c : Cfg) (evs : List Ev) (σ : Sys) : Taken σ (evs.foldl (sysStep c) σ) := by
  induction evs generalizing σ with
  | nil => exact Taken.refl _
  | cons e es ih => exact (sysStep_taken c σ e).trans (ih _)

/-! ### what the requester has taken only grows -/

theorem sysStep_out (c : Cfg) (σ : Sys) (e : Ev) : ∃ t, (sysStep c σ e).out = σ.out ++ t := by
  cases e with
  | tick => exact ⟨[], by simp [sysStep]⟩
  | arrive q => exact ⟨[], by simp [sysStep]⟩
  | memTake => simp only [sysStep]; split <;> exact ⟨[], by simp⟩
  | memAnswer j p =>
    simp only [sysStep]; split
    · exact ⟨[], by simp⟩
    · split <;> exact ⟨[], by simp⟩
  | ctl m => exact ⟨[], by simp [sysStep]⟩
  | takeRsp =>
    simp only [sysStep]; split
    · exact ⟨[], by simp⟩
    · exact ⟨_, rfl⟩
  | takeAck => exact ⟨[], by simp [sysStep]⟩

theorem sysFold_out (c : Cfg) (evs : List Ev) (σ : Sys) : ∃ t, (evs.foldl (sysStep c) σ).out = σ.out ++ t := by
  induction evs generalizing σ with
  | nil => exact ⟨[], by simp⟩
  | cons e es ih =>
    obtain ⟨t1, h1⟩ := sysStep_out c σ e
    obtain ⟨t2, h2⟩ := ih (sysStep c σ e)
    exact ⟨t1 ++ t2, by rw [List.foldl_cons, h2, h1, List.append_assoc]⟩

end C15
