import MgpuProofs.C15Refine
/-! # C15 — flush / restart: monotone histories of the specification, service after an empty point -/
namespace C15

namespace Spec

/-- the histories of the specification only grow -/
structure Ext (S T : Spec) : Prop where
  fwd : ∃ m, T.fwd = S.fwd ++ m
  out : ∃ m, T.out = S.out ++ m
  flushed : ∃ m, T.flushed = S.flushed ++ m

theorem Ext.refl (S : Spec) : Ext S S := ⟨⟨[], by simp⟩, ⟨[], by simp⟩, ⟨[], by simp⟩⟩

theorem Ext.trans {S T U : Spec} (h1 : Ext S T) (h2 : Ext T U) : Ext S U := by
  obtain ⟨⟨a1, e1⟩, ⟨b1, f1⟩, ⟨c1, g1⟩⟩ := h1
  obtain ⟨⟨a2, e2⟩, ⟨b2, f2⟩, ⟨c2, g2⟩⟩ := h2
  exact ⟨⟨a1 ++ a2, by rw [e2, e1, List.append_assoc]⟩, ⟨b1 ++ b2, by rw [f2, f1, List.append_assoc]⟩,
    ⟨c1 ++ c2, by rw [g2, g1, List.append_assoc]⟩⟩

theorem step_ext {cap : Nat} {S T : Spec} (st : Step cap S T) : Ext S T := by
  cases st with
  | accept r b _ _ _ _ => exact ⟨⟨_, rfl⟩, ⟨[], by simp⟩, ⟨[], by simp⟩⟩
  | answer i r k p _ => exact ⟨⟨[], by simp⟩, ⟨[], by simp⟩, ⟨[], by simp⟩⟩
  | respond r k p rest _ => exact ⟨⟨[], by simp⟩, ⟨_, rfl⟩, ⟨[], by simp⟩⟩
  | flush => exact ⟨⟨[], by simp⟩, ⟨[], by simp⟩, ⟨_, rfl⟩⟩

theorem star_ext {cap : Nat} {S T : Spec} (st : Star cap S T) : Ext S T := by
  induction st with
  | refl => exact Ext.refl _
  | tail _ s ih => exact ih.trans (step_ext s)

/-- **Service after an empty point** (e.g. right after a flush or restart was processed): from a
    state with an empty FIFO, whatever happens afterwards, the responses sent from then on followed
    by the pending ids are exactly the requests accepted from then on (minus those a later flush
    threw away), in acceptance order — earlier history has no influence. -/
theorem after_empty_in_order {cap : Nat} {S T : Spec} (g : Good cap S) (hq : S.queue = [])
    (st : Star cap S T) :
    ∃ newOut newFwd, T.out = S.out ++ newOut ∧ T.fwd = S.fwd ++ newFwd ∧
      newOut.map (·.rspTo) ++ T.queue.map (·.1.id) =
        (newFwd.map (·.1.id)).filter (fun a => decide (a ∉ T.flushed)) := by
  have gT := good_star g st
  obtain ⟨⟨nf, hf⟩, ⟨no, ho⟩, ⟨nfl, hfl⟩⟩ := star_ext st
  refine ⟨no, nf, ho, hf, ?_⟩
  have h0 := g.order
  rw [hq] at h0
  simp only [List.map_nil, List.append_nil] at h0
  have hT := gT.order
  rw [ho, hf] at hT
  simp only [List.map_append, List.filter_append] at hT
  have hsame : (S.fwd.map (·.1.id)).filter (fun a => decide (a ∉ T.flushed)) =
      (S.fwd.map (·.1.id)).filter (fun a => decide (a ∉ S.flushed)) := by
    apply List.filter_congr
    intro a ha
    have hiff : a ∉ T.flushed ↔ a ∉ S.flushed := by
      constructor
      · intro h hm; apply h; rw [hfl]; exact List.mem_append_left _ hm
      · intro h hm
        have h1 : a ∈ S.out.map (·.rspTo) := by
          rw [h0]; exact List.mem_filter.2 ⟨ha, by simpa using h⟩
        have h2 : a ∈ (S.fwd.map (·.1.id)).filter (fun a => decide (a ∉ T.flushed)) ++
            (nf.map (·.1.id)).filter (fun a => decide (a ∉ T.flushed)) := by
          rw [← hT]
          exact List.mem_append_left _ (List.mem_append_left _ h1)
        rcases List.mem_append.1 h2 with h2 | h2
        · have := (List.mem_filter.1 h2).2; simp at this; exact this hm
        · have := (List.mem_filter.1 h2).2; simp at this; exact this hm
    simp [hiff]
  rw [hsame, ← h0, List.append_assoc] at hT
  exact List.append_cancel_left hT

end Spec

/-! ### while flushing, a tick touches nothing but the control port -/

theorem runPipeline_flushing (c : Cfg) (s : St) : (runPipeline c s).1.flushing = s.flushing := by
  unfold runPipeline
  have h1 := iterP_pres (P := fun s' => s'.flushing = s.flushing) (f := bottomUp c)
    (fun s' hs => by rw [bottomUp_flushing]; exact hs) c.width (s, false) rfl
  have h2 := iterP_pres (P := fun s' => s'.flushing = s.flushing) (f := parseBottom)
    (fun s' hs => by rw [parseBottom_flushing]; exact hs) c.width _ h1
  exact iterP_pres (P := fun s' => s'.flushing = s.flushing) (f := topDown c)
    (fun s' hs => by rw [topDown_flushing]; exact hs) c.width _ h2

/-- the part of the state a requester / lower level can observe or that holds transactions -/
def St.traffic (s : St) : List TRsp × List (Req × BReq) × List TRsp × List BReq × List (Nat × Rsp) :=
  (s.delivered, s.fwd, s.topOut, s.botOut, s.answered)

theorem processCtl_traffic (c : Cfg) (s : St) : (processCtl c s).1.traffic = s.traffic := by
  unfold processCtl
  repeat' split
  all_goals rfl

theorem tick_flushing_silent (c : Cfg) (s : St) (h' : (tick c s).1.flushing = true) :
    (tick c s).1.traffic = s.traffic := by
  revert h'
  unfold tick
  split
  · intro _; rfl
  · simp only
    split
    · intro _; exact processCtl_traffic c s
    · split
      · intro _; exact processCtl_traffic c s
      · rename_i hfl
        intro h'
        rw [runPipeline_flushing] at h'
        exact absurd h' hfl

/-! ### what the requester has taken only grows -/

theorem sysStep_out (c : Cfg) (σ : Sys) (e : Ev) : ∃ t, (sysStep c σ e).out = σ.out ++ t := by
  cases e with
  | tick => exact ⟨[], by simp [sysStep]⟩
  | arrive q => exact ⟨[], by simp [sysStep]⟩
  | memTake => simp only [sysStep]; split <;> exact ⟨[], by simp⟩
  | memAnswer j p =>
    simp only [sysStep]; split
    · exact ⟨[], by simp⟩
    · split <;> exact ⟨[], by simp⟩
  | ctl m => exact ⟨[], by simp [sysStep]⟩
  | takeRsp =>
    simp only [sysStep]; split
    · exact ⟨[], by simp⟩
    · exact ⟨_, rfl⟩
  | takeAck => exact ⟨[], by simp [sysStep]⟩

theorem sysFold_out (c : Cfg) (evs : List Ev) (σ : Sys) : ∃ t, (evs.foldl (sysStep c) σ).out = σ.out ++ t := by
  induction evs generalizing σ with
  | nil => exact ⟨[], by simp⟩
  | cons e es ih =>
    obtain ⟨t1, h1⟩ := sysStep_out c σ e
    obtain ⟨t2, h2⟩ := ih (sysStep c σ e)
    exact ⟨t1 ++ t2, by rw [List.foldl_cons, h2, h1, List.append_assoc]⟩

end C15
