import MgpuProofs.C01BarEx
import MgpuProofs.C01TTCode
/-! # C01 — a phase-1 description with REAL LDS writes, at instruction level

`ldsProg` = the shipped kernel's first LDS write (`ds_write2_b64 v12, v[2:3], v[4:5] offset1:1`, the eight bytes at
offset 436 of `transposeKernelCode`), then `s_barrier`, `s_endpgm`.  `phase1`: ANY wavefront standing at its entry has
the `Phase1` description "16 bytes per active lane at LDS address v12" (`ldsPairs16`), obtained by running the
emulator's `step` through the C03V meaning of the DS instruction (`ttx436`) and `step_barrier`; `phase2` is the
`S_ENDPGM` step.  `applyWrs_lds`: committing a write list of LDS cells only changes the LDS list, by `applyWrites`. -/
set_option linter.unusedSimpArgs false
set_option maxRecDepth 100000
namespace C01
namespace Emu
open C03V

/-- little-endian bytes of `x` at `a …` as (address, byte) pairs -/
def bytePairs (a n x : Nat) : List (Nat × Nat) := (bytesOf n x).zipIdx.map fun p => (a + p.2, p.1)

/-- the LDS byte writes of `ds_write2_b64 vA, v[D:D+1], v[E:E+1] offset1:1` -/
def ldsPairs16 (st : St) (A D E : Nat) : List (Nat × Nat) :=
  (activeLanes st).flatMap fun l =>
    bytePairs (I.ds2Addr (st.rv A l) 0 (8 * 1)) 8 (st.rvN D l (8 / 4)) ++
    bytePairs (I.ds2Addr (st.rv A l) 1 (8 * 1)) 8 (st.rvN E l (8 / 4))

theorem wrLdsBytes_eq (a n x : Nat) : wrLdsBytes a n x = (bytePairs a n x).map fun p => (Cell.lds p.1, p.2) := by
  unfold wrLdsBytes bytePairs
  rw [List.map_map]
  rfl

theorem dsWrite16_eq (st : St) (A D E : Nat) :
    dsWrite16 st A D E = (ldsPairs16 st A D E).map fun p => (Cell.lds p.1, p.2) := by
  unfold dsWrite16 ldsPairs16
  rw [List.map_flatMap]
  congr 1

/-- committing LDS cells: only the LDS list changes, and its content changes by `applyWrites` -/
theorem applyWrs_lds (ps : List (Nat × Nat)) : ∀ st : St,
    ∃ L', applyWrs st (ps.map fun p => (Cell.lds p.1, p.2)) = { st with lds := L' } ∧
      get L' = applyWrites ps (get st.lds) := by
  induction ps with
  | nil => intro st; exact ⟨st.lds, rfl, rfl⟩
  | cons p ps ih =>
    intro st
    obtain ⟨L', h1, h2⟩ := ih { st with lds := (p.1, p.2) :: st.lds }
    refine ⟨L', ?_, ?_⟩
    · rw [List.map_cons, applyWrs_cons]
      exact h1
    · rw [h2]
      show applyWrites ps (get ((p.1, p.2) :: st.lds)) = applyWrites ps (fun x => if x = p.1 then p.2 else get st.lds x)
      congr 1
      funext x
      exact get_cons _ _ _ _

namespace BarEx2

def ldsProg : Program :=
  ⟨[0x0, 0x1, 0x9c, 0xd8, 0xc, 0x2, 0x4, 0x0, 0x00, 0x00, 0x8a, 0xbf, 0x00, 0x00, 0x81, 0xbf], false⟩

theorem dec0 : DecV ((ldsProg.code.drop 0).take 8) 12 78 8 := DecV_of_ok (by decide +kernel)
theorem dec8 : DecV ((ldsProg.code.drop 8).take 8) 4 10 4 := DecV_of_ok (by decide +kernel)
theorem dec12 : DecV ((ldsProg.code.drop 12).take 8) 4 1 4 := DecV_of_ok (by decide +kernel)

def Mid (base : Nat) (_ w1 : Wave) : Prop := w1.st.pc = base + 12

theorem phase1 (base fuel : Nat) (w : Wave) (hc : w.completed = false) (hpc : w.st.pc = base) :
    Phase1 ldsProg base (fuel + 2) (fun _ => True) w (ldsPairs16 w.st 12 2 4) (Mid base w) := by
  refine ⟨hc, fun m l _ => ?_⟩
  have hs1 := step_vec ldsProg rfl base 0 { w.st with mem := m, lds := l } hpc 12 78 8 dec0 (by omega)
    "ds_write2_b64" (dsWrite16 { w.st with mem := m, lds := l, pc := base + 0 + 8 } 12 2 4)
    (ttx436 { w.st with mem := m, lds := l, pc := base + 0 + 8 })
  rw [dsWrite16_eq] at hs1
  obtain ⟨L', hL, hg⟩ := applyWrs_lds (ldsPairs16 { w.st with mem := m, lds := l, pc := base + 0 + 8 } 12 2 4)
    { w.st with mem := m, lds := l, pc := base + 0 + 8 }
  rw [hL] at hs1
  have hs2 := step_barrier ldsProg rfl base 8 { w.st with mem := m, lds := L', pc := base + 0 + 8 }
    (show base + 0 + 8 = base + 8 by omega) dec8
  have hrun : runWave ldsProg base (fuel + 2) w m l =
      .ok ({ st := { w.st with pc := base + 8 + 4, mem := [], lds := [] }, completed := false, atBarrier := true }, m, L') := by
    simp only [runWave, hc, Bool.false_eq_true, if_false, runWf, hs1, hs2]
    rfl
  exact ⟨_, m, L', hrun, rfl, rfl, (by show base + 8 + 4 = base + 12; omega), rfl, trivial, hg⟩

theorem phase2 (base fuel : Nat) (L : Nat → Nat) (w w1 : Wave) (hq : Mid base w w1) (hc : w1.completed = false) :
    Phase2 ldsProg base (fuel + 2) (fun _ => True) L { w1 with atBarrier := false } [] := by
  intro m l _ hl
  have hs := step_endpgm ldsProg rfl base 12 { w1.st with mem := m, lds := l } hq dec12
  have hrun : runWave ldsProg base (fuel + 2) { w1 with atBarrier := false } m l =
      .ok ({ st := { w1.st with pc := base + 12 + 4, mem := [], lds := [] }, completed := true, atBarrier := false }, m, l) := by
    simp only [runWave, hc, Bool.false_eq_true, if_false, runWf, hs]
    rfl
  exact ⟨_, m, l, hrun, rfl, rfl, trivial, hl⟩

end BarEx2
end Emu
end C01
